#!/usr/bin/env python3
"""Regenerate lean/SmtpV.lean: import every module of the library (except the audit files)."""
import os
root = os.path.join(os.path.dirname(os.path.dirname(os.path.abspath(__file__))), "lean")
mods = []
for d, _, fs in os.walk(os.path.join(root, "SmtpV")):
    for f in sorted(fs):
        if f.endswith(".lean") and "/Audit" not in d:
            rel = os.path.relpath(os.path.join(d, f), root)[:-5].replace("/", ".")
            mods.append(rel)
open(os.path.join(root, "SmtpV.lean"), "w").write("".join("import %s\n" % m for m in sorted(mods)))
print(len(mods), "modules")
