#!/usr/bin/env python3
"""tools/seedrun.py <PROP> <m> <checks,...> : confirm a sub-agent's seeded change in its scratch worktree, keep it under
/verif/seeded/<PROP>-<m>/, run the given checks against /repo with the patch applied (and undo it), record what happened."""
import json, os, shutil, subprocess, sys, time
prop, m, checks = sys.argv[1], sys.argv[2], sys.argv[3].split(",")
wt = "/tmp/wt-%s" % prop
src = "%s/seeded/%s" % (wt, m)
dst = "/verif/seeded/%s-%s" % (prop, os.environ.get("SEED_AS", m))      # SEED_AS=m3: keep under another name
env = dict(os.environ, GOFLAGS="-mod=mod", GOPROXY="off", GOSUMDB="off", GOTOOLCHAIN="local", VERIF_EVIDENCE_DIR="/tmp/seed-evidence")
def sh(cmd, cwd, t=900):
    p = subprocess.run(cmd, cwd=cwd, shell=True, env=env, stdout=subprocess.PIPE, stderr=subprocess.STDOUT, text=True, timeout=t)
    return p.returncode, p.stdout
ran = []
if not os.path.isdir(wt) or not os.path.isdir(src):
    # re-run of a kept seed: confirmed earlier, the worktree is gone
    assert os.path.exists(dst + "/patch.diff"), "no such seed"
    src = None
if src is not None:
  sh("git checkout -q -- . && rm -f zz_demo_test.go", wt)
  rc, _ = sh("git apply --check %s/patch.diff" % src, wt); assert rc == 0, "patch does not apply"
  sh("git apply %s/patch.diff" % src, wt)
  rc1, o1 = sh("go build . ./cmd/... && go test -count=1 . ./cmd/...", wt); ran.append(("existing tests with change", rc1 == 0))
  shutil.copy(src + "/demo_test.go", wt + "/zz_demo_test.go")
  rc2, o2 = sh("go test -count=1 . 2>&1 | tail -15", wt); demo_fails = "FAIL" in o2 or "panic" in o2; ran.append(("demo fails with change", demo_fails))
  sh("git apply -R %s/patch.diff" % src, wt)
  rc3, o3 = sh("go test -count=1 .", wt); ran.append(("demo passes without change", rc3 == 0))
  sh("rm -f zz_demo_test.go; git checkout -q -- .", wt)
  ok = rc1 == 0 and demo_fails and rc3 == 0
  print("confirmed" if ok else "NOT CONFIRMED", ran)
  if not ok:
      sys.exit(1)
if src is not None:
  if os.path.exists(dst + "/patch.diff") and open(dst + "/patch.diff").read() != open(src + "/patch.diff").read():
      sys.exit("refusing to overwrite %s with a different change: set SEED_AS=<free name>" % dst)
  os.makedirs(dst, exist_ok=True)
  for f in ("patch.diff", "demo_test.go", "notes.md"):
      if os.path.exists(src + "/" + f):
          shutil.copy(src + "/" + f, dst + "/" + f)
rc, o = sh("git status --porcelain", "/repo"); assert o.strip() == "", "/repo is not clean"
rc, _ = sh("git apply %s/patch.diff" % dst, "/repo")
if rc != 0:
    # recorded against an earlier commit of /repo (fix: commits came later): merge it
    rc, o = sh("git apply --3way %s/patch.diff" % dst, "/repo")
    if rc != 0 or "conflict" in o.lower():
        sh("git reset -q --hard HEAD", "/repo")
        sys.exit("does not apply to /repo any more (not even with --3way): rebase the seed")
    rcb, ob = sh("go build . ./cmd/...", "/repo")
    if rcb != 0:
        sh("git reset -q --hard HEAD", "/repo")
        sys.exit("the merged change does not build: rebase the seed\n" + ob[-500:])
results = {}
try:
    for c in checks:
        t0 = time.time()
        try:
            rc, out = sh("./check %s 2>&1 | grep -v KNOWN-FINDING | tail -4" % c, "/verif", t=1500)
        except subprocess.TimeoutExpired:
            out = "TIMEOUT"
        lines = [l[:160] for l in out.strip().split("\n")]
        det = any(l.startswith("VIOLATION") for l in lines)
        kind = "concrete" if any(l.startswith("VIOLATION") and "no-failing-input-found" not in l for l in lines) else ("correspondence" if det else "missed")
        results[c] = {"detected": det, "kind": kind, "wall_s": round(time.time() - t0), "tail": lines[-3:]}
        print(c, kind, round(time.time() - t0), "s")
finally:
    sh("git reset -q --hard HEAD", "/repo")
notes = open(dst + "/notes.md").read() if os.path.exists(dst + "/notes.md") else ""
meta_path = dst + "/meta.json"
meta = json.load(open(meta_path)) if os.path.exists(meta_path) else {}
if ran:
    meta["confirmed"] = dict(ran)
meta.update({"property": prop, "source": "independent sub-agent given only the property text and a scratch worktree",
             "summary": notes.strip().split("\n")[0][:300],
             "ran": "tools/seedrun.py %s %s %s" % (prop, m, ",".join(checks))})
meta.setdefault("checks", {}).update(results)
json.dump(meta, open(meta_path, "w"), indent=1)
