#!/usr/bin/env python3
"""tools/seedall.py [PROP...] : re-run every kept seeded change (or those of the given properties) against the checks recorded in its
meta.json, with the current /repo and the current checks; refreshes the 'checks' entries (seedrun keeps everything else)."""
import json, glob, os, subprocess, sys
want = set(sys.argv[1:])
for d in sorted(glob.glob("/verif/seeded/*/")):
    name = os.path.basename(d.rstrip("/"))
    prop, m = name.split("-")
    if want and prop not in want:
        continue
    meta = json.load(open(d + "meta.json"))
    checks = ",".join(meta.get("checks", {}).keys()) or prop
    p = subprocess.run(["python3", "/verif/tools/seedrun.py", prop, m, checks], capture_output=True, text=True)
    print(name, " ".join(l for l in p.stdout.strip().split("\n")[-len(checks.split(",")):]), p.stderr.strip()[-200:], flush=True)
