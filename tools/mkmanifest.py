#!/usr/bin/env python3
"""Regenerate MANIFEST.json from the table below (keeps it schema-valid at all times)."""
import json, os, sys
ROOT = os.path.dirname(os.path.dirname(os.path.abspath(__file__)))
props = [json.loads(l) for l in open(os.path.join(ROOT, "properties.jsonl"))]

NOTE_BASE = ("Trusted: Lean 4.33 kernel (axioms propext/Classical.choice/Quot.sound only, audited every run), the Lean "
             "compiler for the driver, the statements in lean/SmtpV/Props and Spec, and the differential correspondence "
             "(Go harness built from /repo with -tags verif vs the compiled Lean definitions). Go stdlib pieces "
             "(bufio, textproto, base64, strconv, strings, regexp, time) are modelled, not verified. ")

def C(text, ref, technique, note):
    return dict(text=text, ref=ref, technique=technique, note=note)

CONV = "Lean 4 trace monitors (executable specifications) + hand-written Lean model of the command machine tied by a differential correspondence (conv probe)"
CLAIMED = {
 "C01": C("Machine-checked theorems over the Lean model of dataReader.Read for every stream and every read-size schedule "
          "(C01_exact, C01_sched_indep; the spec recogniser is proved equivalent to the declarative Terminated predicate; the monitor is proved "
          "to accept the model on every input); model tied to the code by an exhaustive transition-table correspondence plus enumerated and "
          "random multi-read cases; the proved monitor is also evaluated on the implementation's own output; in conversations also with a backend that hands the reader to io.Copy (an io.WriterTo of the reader would be used) and behind a STARTTLS upgrade.",
          "DESIGN.md 7 C01", "Lean 4 proof over a hand-written model + differential correspondence (dr probe)",
          "reader exercised as a component over bufio; its use inside a live conversation is covered by the conv probe of C02"),
 "C02": C("C02_only_marker proved in both directions (the reader reaches EOF exactly on terminated streams), C02_eof_means_marker for every "
          "input, limit and schedule; C02_resume on the server + wire model (bufio, line limiter, segmented source): for every backend behaviour, "
          "limit, mode and segmentation the stream the command loop reads after the DATA handler starts exactly behind the marker (or the "
          "connection executes no further command: C02_resume_escapes); conversation level: bait/marker/resume monitors on real conversations "
          "(DATA bodies with look-alikes x backend behaviours x limits x SMTP/LMTP) and correspondence with the server model.",
          "DESIGN.md 7 C02", "Lean 4 proof (reader, server+wire model) + monitors and differential correspondence (dr, conv probes)",
          "C02_resume is stated for the synchronous delivery of the model (the LMTPSession goroutine's interleavings are sequentialised, "
          "tied by the conv/sched probes); its hypothesis WF (non-empty segments, errors latched only at the end of the source) is proved to be an "
          "invariant of the whole connection (C02_wf_invariant: readLine, every handler, serve), so only non-empty network segments are assumed"),
 "C03": C("Proved: order_accepts_every_connection / C03_order - for EVERY input octet stream in EVERY segmentation, EVERY backend script "
          "(acceptances, refusals, errors, panics, early returns, SASL scripts, handshake outcomes) and EVERY configuration, the complete "
          "backend-visible trace of a connection of the server model (greeting, command loop, all handlers incl. DATA, BDAT, AUTH, STARTTLS, "
          "panic recovery, deferred Close) is accepted by the ordering monitor, and Mon.check3 - the judge applied to the implementation's "
          "traces - is proved to be a projection of it (C03_order_visible: also on the trace as the harness records it). Implementation: that "
          "judge on every recorded conversation of the real server (sweeps, walks, every cut point, TLS upgrades) and the traces compared "
          "with the model's.",
          "DESIGN.md 0.3 + 7 C03", "Lean 4 proof (whole-connection invariant of the server model) + the same monitor on implementation traces + differential correspondence (conv probe)",
          "the model is hand written: its tie to conn.go is the conv correspondence; goroutine timing of chunked deliveries is covered by C04/C20"),
 "C04": C("Strict RFC 5321 reply recogniser + enhanced-code class rule + own-verdict rule (DATA and chunked) evaluated on every recorded "
          "conversation incl. forced delivery orders (sched probe); L3 theorem own_verdict_all_schedules proved for every schedule of the "
          "chunked-delivery model; C04_reply_syntax / C04_reply_syntax_multiline: every reply, one line or many, that the model's renderer writes (any code, enhanced code, text) is accepted by the strict "
          "recogniser as exactly one reply with that code, and the enhanced code it reads off the line is the rendered one (class.0.0 of the reply's class when unset); "
          "C04_one_reply_per_command / C04_error_reply_and_notice (server model, plain SMTP: every command other than AUTH/STARTTLS is answered with exactly one write — an accepted DATA with two — "
          "whatever the arguments, the state, the backend (refusals, errors, panics) and the way a chunk arrives; an unrecognised command gets one reply plus the closing notice exactly when the connection is given up); a static pass over conn.go/server.go checks the class rule at every literal writeResponse call site and compares the set of (code, enhanced code) pairs with the model's; C04_lmtp_one_reply_per_recipient (LMTP: one reply per command, one per accepted recipient for an accepted LAST chunk — delivered or failed — and after the 354 of DATA); C04_echo_printable / C04_echo_faithful / C04_echo_sites (what a reply quotes from the peer's command - unknown command word, greeting name, addresses, LMTP recipient prefix - consists of octets a reply line may contain whatever the peer sent, and a clean value is quoted unchanged; behaviour repaired in 40ef407), with conversations whose quoted values contain NUL, bare CR, ESC, DEL and 8-bit octets judged by the reply-syntax rule.",
          "DESIGN.md 7 C04", "Lean 4 proof of the L3 interleaving model and of the renderer against the recogniser + trace monitors + differential correspondence (conv, sched probes)",
          "AUTH and STARTTLS have their own count theorems (C04_auth_replies: one reply per mechanism step plus one for a cancel/garbage; C04_starttls_replies); echoed client octets in reply text are a design-phase finding not yet judged"),
 "C05": C("Proved on the wire model (segments below bufio below the limiter): C05_refused_chunk_discarded (a refused BDAT with its n declared "
          "octets on a live connection: exactly those n octets are skipped - the next command line starts at octet n of the stream - and the line "
          "limit is back in force), C05_failed_chunk_skipped (copy as far as the delivery takes it, discard the rest: exactly n), "
          "C05_frame_any_source (whatever source and backend do, what was taken is a prefix of n - left octets), C05_segmentation_independent "
          "(same stream, any segmentation and buffer content => same position afterwards). Implementation: bait/marker and delivery-record monitors "
          "on all chunkings of short messages (binary, look-alikes, zero-size chunks), every refusal with payload on the wire, backends that give up "
          "early, LF-free runs around the line limit, chunkings behind a successful STARTTLS (after no / a refused / an abandoned / a completed plaintext transfer, with injected plaintext), under 3-5 segmentations; correspondence with the server model.",
          "DESIGN.md 0.3 + 7 C05", "Lean 4 proof (octet-count framing on the wire model) + monitors + differential correspondence (conv probe)",
          "that the octets handed to the backend are the payloads' concatenation with EOF only after LAST, and one reply per BDAT, are decided by the monitors and the correspondence (and one reply per command by C03's theorem on the model); one known finding (line limiter below bufio)"),
 "C06": C("C06_bound_data (never more than N octets for ANY input), C06_oversize_never_complete, C06_transparent proved for every stream and "
          "schedule, C06_eof_is_sticky (a reader that has reported the end of the message keeps reporting it whatever its budget says - a backend that reads once more after an exactly-N message sees what it would see without a limit; repaired, see known_findings.json; the dr probe reads once more after every EOF); on the server model C06_chunk_over_limit (a BDAT command that would take the message over the limit hands no delivery a single octet, records no "
          "end of file and leaves no transaction behind), C06_accepted_chunk_bounded (an accepted chunk hands no delivery more than its declared size) and C06_declared_size_refused (SIZE above the limit is refused by the parameter switch, before the backend); "
          "C06_no_delivery_over_limit / C06_accounting_invariant (whole connections of the server model: DATA and BDAT in any mixture, any number of chunks and "
          "transactions, completed, failed or abandoned transfers, every backend behaviour — no Data/LMTPData call is handed more than N octets; the invariant ties "
          "the running delivery to bytesReceived and bytesReceived to N through every handler). The 'fits => no 552' / '552 => discarded' rules are judged on conversations around the limit.",
          "DESIGN.md 7 C06", "Lean 4 proof (DATA reader, server model) + monitors and differential correspondence (dr, conv probes)",
          "the theorems are about the server model (int64 sizes are unbounded naturals there: a wrap-around of the size arithmetic is the correspondence's to catch)"),
 "C07": C("C07_data_cut / C07_eof_complete proved: for every cut point, limit and schedule no read reports EOF unless a complete terminated "
          "message was consumed; chunked transfers on the server model: C07_bdat_eof_only_after_last (an accepted BDAT records a clean end of file only if it carried LAST and "
          "its copy was complete), C07_abandoned_is_reset / C07_reset_close_no_eof (reset() and Close() end a running transfer with ErrDataReset, never EOF), C07_cut_connection_no_eof (a connection that ends while no line feed is pending - e.g. inside the BDAT 0 LAST line that would have completed the message - records no end of file for any delivery; repaired in e062bf7); every cut "
          "offset of 6 conversations (DATA, BDAT, LMTP) replayed on the real server with propagating backends.",
          "DESIGN.md 7 C07", "Lean 4 proof (DATA reader, chunked transfers on the server model) + every-cut-point correspondence (dr, conv probes)",
          "the fuel of the model's chunk copy is assumed adequate in C07_bdat_eof_only_after_last (adequacy is proved for the DATA path and for C05's framing on live wires)"),
 "C08": C("Proved: C08_lifecycle / C08_lifecycle_visible / C08_ends_closed - on every connection of the server model (every input, every "
          "point at which the input ends, every backend script and configuration) each session is logged out exactly once, nothing is called "
          "on it afterwards, the connection is closed exactly once, nothing is written or called after that, and at the end nobody is logged "
          "in; Mon.check8 - the judge applied to the implementation's traces - is a proved projection of the ordering monitor; C08_cut_line_not_executed / C08_cut_line_not_read (wire model, every buffer, segmentation, limiter state and kind of failure: when no line feed is pending, Conn.readLine returns an error - a command line cut short by a disconnect or the idle timeout is never executed; behaviour repaired in e062bf7). Implementation: "
          "that judge on every cut point of 6 conversations, all server-initiated closes, sweeps and walks incl. TLS; conversations that end (disconnect, timeout) inside a command line mentioning a bait; traces compared with the model's.",
          "DESIGN.md 0.3 + 7 C08", "Lean 4 proof (whole-connection invariant of the server model) + the same monitor on implementation traces + differential correspondence (conv probe)",
          "Server.Close/Shutdown racing with a connection (C20) is outside this model"),
 "C09": C("Proved on the server model: C09_insecure_unreachable (when AUTH is not allowed neither the backend nor a mechanism is ever reached, nothing but the refusal is written), C09_b64_roundtrip (the decoder is the exact inverse of the encoder on all octet strings), C09_empty_initial_response; whole connections (consequences of order_accepts_every_connection, stated on the trace): C09_never_on_insecure_connection (no Auth call and no SASL step on a connection that never becomes secure, whatever is sent), C09_at_most_once (after a successful exchange no Auth call or SASL step until the session ended); client model: C09_client_exchange_rules. AUTH reachability/at-most-once monitor on conversations over {plaintext, STARTTLS, implicit TLS} x AllowInsecureAuth x backend incl. mechanisms that fail with done=true; client half: Client.Auth against scripted peers, judged (challenges and responses cross unaltered, '*' only while the server waits) and compared with the Lean client model.",
          'DESIGN.md 0.3 + 7 C09', 'Lean 4 proof (server AUTH gate, base64) + trace monitors + differential correspondence (conv, cconv probes)',
          "the client half is decided by the judge and the cconv correspondence, not by a theorem; one known finding (client sends '*' after a final negative reply)"),
 "C10": C('Proved on the server model: C10_refused_unless_available, startTLS_success / C10_server_fresh (after a successful upgrade: no session, greeting name, authentication or envelope; the old session logged out; a fresh wire), C10_no_plaintext_in_tls (octets buffered behind STARTTLS are never read inside TLS); whole connections: C10_upgrade_discards_session (after a successful handshake no Mail/Rcpt/Data/Reset/Auth/SASL callback until a new session exists), C10_new_session_sees_tls; C10_failed_handshake_changes_nothing (220 and then a handshake that fails: same session, authentication, envelope, TLS still off); on the client model: C10_client_plain_frozen (after a 220 to STARTTLS no call sequence and no peer behaviour gets another octet onto the raw socket), C10_client_plaintext_only_upgrade (everything SendMail writes in plaintext is whole EHLO/LHLO, HELO and STARTTLS lines), C10_client_stops_when_upgrade_fails. Implementation: failed handshakes (the peer sends something else than a ClientHello) followed by plaintext AUTH/MAIL/greeting/DATA; real in-process TLS upgrades with commands (incl. EHLO preludes) injected behind STARTTLS; client half: NewClientStartTLS over net.Pipe and package-level SendMail over loopback TCP against a live scripted server {no STARTTLS, 454/501/421/EOF, 220 + injected replies, 220 then plaintext/alert/HTTP/silence, real handshake, inner EHLO refused}, judged (nothing but EHLO/HELO/STARTTLS/QUIT in plaintext, EHLO renegotiated, nothing succeeds without TLS) and compared with the Lean client model.',
          'DESIGN.md 0.3 + 7 C10', 'Lean 4 proof (server upgrade, client upgrade) + monitors + differential correspondence (conv with real TLS, cstls probes)',
          'crypto/tls is real in the probes and abstracted in the model (handshake succeeds iff the peer speaks TLS; the session is a fresh stream)'),
 "C11": C("Proved on the parser model: C11_exact_mailbox (for every `<local@domain>` with a non-empty dot-string local part and a non-empty "
          "domain not ending in '@' - the class every real client sends - the parser returns exactly that mailbox and leaves exactly what follows "
          "'>' for the parameter parser), C11_special_refused (a special character in an unquoted local part refuses the path, whatever "
          "follows), C11_quoted_exact (every local part written as a quoted-string with backslash and quote escaped is returned unescaped), C11_null_sender; on the server model's handlers (Props/C11Server.lean): C11_empty_value_unparsable / C11_empty_value_refused (a parameter string with a field `KEYWORD=` and no value does not parse, wherever the field stands: `SMTPUTF8=` is not the flag), C11_mail_exact_or_refused / C11_rcpt_exact_or_refused (for EVERY connection state and EVERY argument octet string the handler either calls the backend with exactly the decoded mailbox and options - keyword, TrimSpace, path parser, parseArgs, parameter switch composed in source order - or writes one 5xx reply (452 for the recipient limit) and calls nothing), C11_mail_refused_before_backend (an argument that does not decode is answered 5xx with a class-5 enhanced code and no callback, whatever the state); with C12_disabled_504 for parameters of disabled extensions. Implementation: every short string over 16 "
          "syntactically significant symbols and mutations of valid paths, classified by an independent RFC 5321 reference grammar "
          "(valid => exact mailbox, invalid(class) => refused); parser entry points and parameter handling (good, bad, disabled, duplicated, "
          "lower-case, long-s spelled values) compared with the model.",
          "DESIGN.md 0.3 + 7 C11", "Lean 4 proof (path parser on the dot-string class) + reference grammar as executable judge + differential correspondence (parse, conv probes)",
          "source routes, address literals and non-ASCII parameter values are decided by the reference-grammar judge and the correspondence; four lenient-parser classes are known findings"),
 "C12": C("C12_caps_exact proved for all configurations and TLS states (all limits and mechanism lists), C12_ehlo_reply, C12_helo_none, "
          "C12_disabled_504 proved; advertised <=> honoured: caps_keywords (the keywords of the list, in order), C12_starttls_honoured (listed exactly when the command is accepted, else 502), "
          "C12_auth_honoured (listed exactly when authentication is possible; 523 where it is not allowed), C12_keyword_iff_enabled (SMTPUTF8, REQUIRETLS, BINARYMIME, DSN, RRVS, LIMITS), C12_requiretls_honoured_iff_advertised (the REQUIRETLS parameter is accepted exactly in the connection states whose capability list contains it - repaired in 548a344); the second capability list of a connection (after AUTH, an envelope, RSET, a refused STARTTLS) judged like the first; the complete 4608-point configuration space (backend: plain Session, AuthSession with mechanisms, AuthSession without) enumerated on the real server (TLS-active points over a real "
          "handshake) with one probe command per extension.",
          "DESIGN.md 7 C12", "Lean 4 proof + exhaustive configuration enumeration (conv probe)", "crypto/tls not modelled"),
 "C13": C("Proved: C13_mechanism (conn.go's statusCollector as it is built - one buffered channel per distinct address with capacity = "
          "occurrences, SetStatus, fillRemaining, receive in RCPT order - delivers exactly the specified attribution: the j-th occurrence of an "
          "address gets the j-th status set for it, the return value otherwise; for every recipient list and every in-contract call sequence), "
          "C13_one_per_recipient (one status per accepted recipient, in order), C13_failed_last_one_per_recipient (also for a BDAT LAST that cannot be delivered - the behaviour repaired in 0a438b9), C13_contract_agrees + C13_attribution (the server model's "
          "bookkeeping accepts exactly when the channels do not panic and writes the same statuses), C13_model_is_spec. Implementation: the "
          "attribution specification as executable judge on LMTP conversations with duplicate and case-variant recipients, refused recipients, "
          "status scripts, panics, DATA and BDAT, both backend kinds; compared with the model.",
          "DESIGN.md 0.3 + 7 C13", "Lean 4 proof (channel mechanism = attribution spec = model bookkeeping) + judge + differential correspondence (conv probe)",
          "the channel model is a model of Go channels (FIFO, non-blocking send with default); goroutine timing of the delivery is decided by the sched probe; out-of-contract status calls on the DATA path are schedule dependent and not generated"),
 "C14": C("Proved: C14_xtext_roundtrip (decodeXtext (encodeXtext s) = s for every string over 7-bit ASCII) and C14_monitor_model; the parameter trip on the models (Proofs/ParamTrip.lean): C14_tokenise (strings.Fields on the client's parameter string), C14_params_parse (parseArgs gives back exactly the rendered parameter list), C14_mail_options_trip (every combination of BODY, SIZE, REQUIRETLS, SMTPUTF8, RET, printable-ASCII ENVID, AUTH <> / dot-string mailbox written by the client model is decoded by the server model's switch into exactly the same options), C14_rcpt_options_trip (NOTIFY sets, rfc822 ORCPT); the WHOLE LINE (Proofs/LineTrip.lean, Props/C14Line.lean): C14_mail_line_trip / C14_rcpt_line_trip - for every 7-bit dot-string mailbox and every option value of that domain the client model's command line + CRLF is split by the server model's parseCmd into the verb and an argument on which handleMail / handleRcpt is exactly the Session.Mail / Session.Rcpt call with the client's address and options (strings.TrimSpace, ToUpper, cutPrefixFold and the path parser included). All five codec functions compared with the Lean model on every Unicode scalar value (thorough) and short strings over the significant alphabet; round-trip laws judged on the implementation's own encode/decode pairs; e2e probe: the real client talks to the real server and the options the backend observed are compared field by field with those given (every string option from the alphabet, option subsets, RRVS instants in several zones).",
          'DESIGN.md 0.3 + 7 C14', 'Lean 4 proof (xtext, parameter trip client model -> server model) + executable codec model + law monitors + differential correspondence (xtext, rt, e2e probes)',
          'utf-8-addr-xtext / unitext round trips, RRVS times and non-ASCII values are decided by exhaustive enumeration of scalar values against the model and the law monitors, not by a theorem'),
 "C15": C("Proved for EVERY argument value (hostile ones included): C15_mail_one_line and C15_rcpt_one_line (the line built from sender/recipient, "
          "every MailOptions/RcptOptions field, through all three encoders, the decimal and RFC 3339 renderers, contains neither CR nor LF), "
          "C15_hostile_address_refused (an address with CR/LF yields no line at all), C15_no_ext_no_params (nothing offered => nothing but the "
          "address is sent), C15_unoffered_is_error (REQUIRETLS/SMTPUTF8 not offered => local error), C15_mail_params_gated / C15_mail_default_gated / "
          "C15_rcpt_params_gated (per extension: the line is the address plus one piece per extension, each empty unless that extension is in "
          "the latest capability list; a requested REQUIRETLS/SMTPUTF8 is on the line), C15_call_whole_lines / C15_one_line_per_call / "
          "C15_history_keeps_premises (whole calls of the client model, any peer: Hello, Verify, Mail, Rcpt, Reset, Noop, Quit write whole "
          "lines x CRLF without CR/LF in x, one per call plus at most two for the implicit EHLO/HELO, along every history), C15_auth_whole_lines (the Auth call, any mechanism name, initial response, script of the caller's sasl.Client and peer: whole lines only - AUTH line, one base64 response or cancel token per round; a mechanism name with CR/LF writes nothing of its own, repaired in b0235b7). Implementation: line-discipline and "
          "negotiated-parameter monitor on the real client over extension subsets x option subsets, EHLO twice, HELO fallback (also after Reset), "
          "hostile strings in every string argument; compared with the Lean client model.",
          "DESIGN.md 0.3 + 7 C15", "Lean 4 proof (command-line builders) + monitors + differential correspondence (cconv probe)",
          "DATA calls (the message body is not made of command lines) are decided by the monitor + correspondence"),
 "C16": C('Proved: C16_wire_terminated and C16_roundtrip (for every body with CR only in CRLF, in ANY partition into Write calls and for ANY backend read sizes, dot-writer composed with the DATA reader delivers exactly the body with bare LF -> CRLF and a final CRLF ensured, and the command stream resumes behind the marker), C16_partition_independent, C16_roundtrip_progress, C16_second_close. Implementation: what the client writes is read back with the DATA specification; e2e probe real client -> real server (token bodies, 500-9000-octet bodies around buffer boundaries, partitions, verdicts, stale writer handles).',
          'DESIGN.md 0.3 + 7 C16', 'Lean 4 proof (dot writer o DATA reader) + specification read-back + differential correspondence (cconv, e2e probes)',
          "textproto.dotWriter and bufio.Writer are modelled (tied by the cconv correspondence); 'Close returns the server's verdict' is decided by the e2e judge"),
 "C17": C("Proved: C17_roundtrip (for every reply code 100-999, every enhanced code of non-negative numbers and EVERY message text - any "
          "number of lines, empty lines, lines that look like an enhanced code - the reply writeResponse renders is read back by "
          "readResponse + toSMTPErr as an equal SMTPError), render_lines (what is written is exactly those lines, the enhanced code on each), "
          "C17_unset_class (unset => X.0.0 of the reply's class), C17_generic_envelope (451 4.0.0 text), C17_generic_data (554 5.0.0 Error: "
          "transaction failed: text); C17_lmtp_hello_reports_refusal (client model: in LMTP an error reply to LHLO - 500 and 502 included - is the result of the hello exchange, no HELO is tried; repaired in a135dac). Implementation: server rendering composed with client parsing on codes x enhanced-code modes x message "
          "shapes x call sites (rt probe), both halves separately (reply, tosmtperr probes), and the real client against the real server with a "
          "scripted refusing backend (e2e probe), judged by the normalisation law and compared with the model; conv probe: the verdict on a chunked message after an earlier chunked transfer of the connection was abandoned, judged against the delivery record.",
          "DESIGN.md 0.3 + 7 C17", "Lean 4 proof (render o parse) + law monitor + differential correspondence (rt, reply, tosmtperr, e2e probes)",
          "replies without any enhanced code on the wire (NoEnhancedCode) are outside the theorem (ambiguous on the wire) and decided by the law judge; the split of the octet stream into lines (textproto.ReadLine) is modelled, not proved"),
 "C18": C("Proved on the client model: C18_mail_starts_clean / C18_rcpt_appends / C18_reset_clears (the client's recipient list is exactly "
          "the recipients accepted since the last accepted MAIL - a second or later transaction never sees an earlier one's recipients), "
          "C18_one_callback_per_recipient (the reply loop of Close hands one reply per recipient to the callback, in RCPT order, for the whole "
          "list unless reading fails, which is an error), C18_refusal_not_lost (without callback a refusal after DATA is Close's error). "
          "Implementation: LMTP client transactions (1-3 per connection, refused recipients, verdict vectors, with/without callback, bare and "
          "extended LHLO replies) judged (callbacks = the current transaction's recipients; every later command gets its own reply) and "
          "compared with the Lean client model.",
          "DESIGN.md 0.3 + 7 C18", "Lean 4 proof (client recipient bookkeeping and reply loop) + monitor + differential correspondence (cconv probe)",
          "that each read consumes exactly one reply of the peer is decided by the own-reply rule of the monitor and the correspondence"),
 "C19": C('Proved on the wire model: C19_short_lines_ok, C19_long_line_trips (the limiter latches once a line exceeds the limit), C19_long_line_refused (no prefix of an over-long line is executed), C19_tripped_ends_commands (once latched, the command loop reads no further command), C19_error_threshold (the fourth protocol error closes the connection, on the server model), C19_resume_short_ok / C19_resume_counts_pending (the limit coming back after a BDAT chunk - lineLimitReader.resume, repaired in ebe7440: what was counted before is forgotten, so lines within the maximum are never refused, and the beginning of a command line read together with the end of the chunk is counted, so an over-long line trips), C19_line_handed_out_within_limit (every line Conn.readLine hands to the command loop or an AUTH exchange is within the limit in force, whatever was buffered while the limit was lifted for a chunk and however it got there: the length is checked where the line is handed out, which replaced the look-ahead of 8853bc2/ecdb2ac/ab2fa9c). Implementation: line lengths around the limit at every split, endless lines, all short byte strings, every short string over quote/backslash/<>@ as MAIL/RCPT/AUTH=/ORCPT= argument, random binary, error-threshold mixes; a disconnect/QUIT/RSET right after a BDAT command with the command loop not waiting for the delivery goroutine (sched probe, `latestart`): no recovered panic, long lines never reach the backend, short lines never refused, three errors end the connection.',
          'DESIGN.md 0.3 + 7 C19', 'Lean 4 proof (line limiter) + monitors + differential correspondence (conv probe)',
          'which inputs count as protocol errors is decided by monitor + correspondence; the bound on buffered input is a property of the modelled bufio, not observed'),
 "C20": C("PARTIAL. Proved: C20_second_close, C20_temp_errors (Serve survives any run of temporary errors, delays <= 1 s) on the lifecycle model; "
          "own_verdict_all_schedules and never_blocked_step on the chunked-delivery interleaving model for every schedule; pinned-tree "
          "counterexamples kept as regression witnesses; the start of a delivery against Conn.Close (model LateStart, every schedule): C20_late_start_no_panic, "
          "C20_late_start_never_calls (repaired code), C20_late_start_pinned_panics (the tree before c1a4e24), C20_late_start_window_remains (what no small patch closes). accept probe over outcome sequences, sched probe over forced delivery/Close/Shutdown orders "
          "with goroutine-leak counting, connections stuck in an implicit-TLS handshake, and the whole harness replayed under Go's race detector (both tiers), including endings (Server.Close, Shutdown, the application's Conn.Close) fired without waiting for the command loop, so that nothing orders them against the running handler (three races found this way and repaired: f1c15af, 67ade1e), and probe multi: several connections of one server served at the same time, each answered like a connection of its own; probe lateserve: Serve after or at the same moment as Close/Shutdown returns and closes its listener (repaired in 61e1158).",
          "DESIGN.md 7 C20", "Lean 4 proof of interleaving/lifecycle models + schedule-forcing differential probes (accept, sched)",
          "the Go memory model, scheduler fairness and kernel-blocked goroutines are not expressible in the model"),
}
# properties whose check audits at least one machine-checked theorem today (the others are claimed at the level of
# their correspondence/monitor check until their theorems land)
PROVED = {"C01", "C02", "C03", "C04", "C05", "C06", "C07", "C08", "C09", "C10", "C11", "C12", "C13", "C14", "C15", "C16", "C17", "C18", "C19", "C20"}
NA_REASON = "check not built yet (work in progress, see DESIGN.md section 10)"

m = {"version": 1, "setup_cmd": "./setup.sh",
     "hooks": {"guard": "verif",
               "enable": "go build -tags verif (the harness module replaces github.com/emersion/go-smtp by /repo)",
               "baseline_off_cmd": "cd /repo && GOFLAGS=-mod=mod GOPROXY=off GOSUMDB=off go test -count=1 ./...",
               "source_commits": ["222df5c", "0a94ce4", "43344c1", "a794b59"], "add_only": True},
     "engines": [{"name": "smtpv-lean", "path": "lean/", "serves_properties": sorted(CLAIMED),
                  "kind_free_text": "Lean 4 model, specs, theorems and compiled line-protocol driver"},
                 {"name": "vharness", "path": "harness/", "serves_properties": sorted(CLAIMED),
                  "kind_free_text": "Go harness calling the real package in-process (build tag verif)"},
                 {"name": "check", "path": "check", "serves_properties": sorted(CLAIMED),
                  "kind_free_text": "python3 orchestrator: proof audit, builds, correspondence, monitors, verdict, evidence"}],
     "checks": [], "not_applicable": [],
     "notes": "See DESIGN.md. known_findings.json lists recorded findings and fixed defects."}
for p in props:
    pid = p["id"]
    if pid in CLAIMED:
        c = CLAIMED[pid]
        m["checks"].append({"property_id": pid, "quick_cmd": "./check %s --tier quick" % pid,
                            "thorough_cmd": "./check %s --tier thorough" % pid,
                            "evidence_file": "evidence/%s.json" % pid,
                            "replay_cmd_template": "./check %s --replay {path}" % pid,
                            "engine": "smtpv-lean+vharness",
                            "level_claimed": {"category": "proof" if pid in PROVED else "translation_validation",
                                              "text": c["text"], "design_ref": c["ref"]},
                            "level_note": NOTE_BASE + c["note"], "technique": c["technique"]})
    else:
        m["not_applicable"].append({"property_id": pid, "reason": NA_REASON})
json.dump(m, open(os.path.join(ROOT, "MANIFEST.json"), "w"), indent=1)
print("claimed:", sorted(CLAIMED))
