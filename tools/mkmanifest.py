#!/usr/bin/env python3
"""Regenerate MANIFEST.json from the table below (keeps it schema-valid at all times)."""
import json, os, sys
ROOT = os.path.dirname(os.path.dirname(os.path.abspath(__file__)))
props = [json.loads(l) for l in open(os.path.join(ROOT, "properties.jsonl"))]

NOTE_BASE = ("Trusted: Lean 4.33 kernel (axioms propext/Classical.choice/Quot.sound only, audited every run), the Lean "
             "compiler for the driver, the statements in lean/SmtpV/Props and Spec, and the differential correspondence "
             "(Go harness built from /repo with -tags verif vs the compiled Lean definitions). Go stdlib pieces "
             "(bufio, textproto, base64, strconv, strings, regexp, time) are modelled, not verified. ")

CLAIMED = {
 "C01": dict(text="Machine-checked theorems over the Lean model of dataReader.Read for every stream, every read-size schedule "
                  "(C01_exact, C01_sched_indep, spec recogniser proved equivalent to the declarative Terminated predicate); the model "
                  "is tied to the code by an exhaustive transition-table correspondence plus enumerated/random multi-read cases, and the "
                  "proved monitor is also evaluated on the implementation's own output.",
             ref="DESIGN.md section 7 C01", technique="Lean 4 proof over a hand-written model + differential correspondence (dr probe)",
             note="reader exercised as a component over bufio; segmentation inside a live conversation is covered by the conv probe"),
 "C02": dict(text="C02_only_marker (iff, both directions proved): the reader reaches EOF exactly on terminated streams; "
                  "C02_eof_means_marker: for every input, limit and schedule EOF implies exact body and exact leftover input.",
             ref="DESIGN.md section 7 C02", technique="Lean 4 proof + differential correspondence (dr probe; conv probe for resumption)",
             note="reader part proved; conversation-level resumption tied by conv probe"),
 "C06": dict(text="C06_bound_data (never more than N octets for ANY input), C06_oversize_never_complete, C06_transparent (messages of at "
                  "most N octets read exactly as without limit) proved for every stream and schedule.",
             ref="DESIGN.md section 7 C06", technique="Lean 4 proof + differential correspondence (dr probe with budgets)",
             note="DATA path proved; BDAT accounting and SIZE parameter via conv/mailargs probes"),
 "C07": dict(text="C07_data_cut / C07_eof_complete: for every cut point, limit and schedule no read reports EOF unless a complete "
                  "terminated message was consumed (corollaries of the proved monitor theorem and run_eof_terminated).",
             ref="DESIGN.md section 7 C07", technique="Lean 4 proof + differential correspondence (dr probe with every cut point)",
             note="DATA path proved; BDAT via conv probe"),
}
NA_REASON = "check not built yet (work in progress, see DESIGN.md section 10)"

m = {"version": 1, "setup_cmd": "./setup.sh",
     "hooks": {"guard": "verif",
               "enable": "go build -tags verif (the harness module replaces github.com/emersion/go-smtp by /repo)",
               "baseline_off_cmd": "cd /repo && GOFLAGS=-mod=mod GOPROXY=off GOSUMDB=off go test -count=1 ./...",
               "source_commits": ["222df5c"], "add_only": True},
     "engines": [{"name": "smtpv-lean", "path": "lean/", "serves_properties": sorted(CLAIMED),
                  "kind_free_text": "Lean 4 model, specs, theorems and compiled line-protocol driver"},
                 {"name": "vharness", "path": "harness/", "serves_properties": sorted(CLAIMED),
                  "kind_free_text": "Go harness calling the real package in-process (build tag verif)"},
                 {"name": "check", "path": "check", "serves_properties": sorted(CLAIMED),
                  "kind_free_text": "python3 orchestrator: proof audit, builds, correspondence, monitors, verdict, evidence"}],
     "checks": [], "not_applicable": [],
     "notes": "See DESIGN.md. known_findings.json lists recorded findings and fixed defects."}
for p in props:
    pid = p["id"]
    if pid in CLAIMED:
        c = CLAIMED[pid]
        m["checks"].append({"property_id": pid, "quick_cmd": "./check %s --tier quick" % pid,
                            "thorough_cmd": "./check %s --tier thorough" % pid,
                            "evidence_file": "evidence/%s.json" % pid,
                            "replay_cmd_template": "./check %s --replay {path}" % pid,
                            "engine": "smtpv-lean+vharness",
                            "level_claimed": {"category": "proof", "text": c["text"], "design_ref": c["ref"]},
                            "level_note": NOTE_BASE + c["note"], "technique": c["technique"]})
    else:
        m["not_applicable"].append({"property_id": pid, "reason": NA_REASON})
json.dump(m, open(os.path.join(ROOT, "MANIFEST.json"), "w"), indent=1)
print("claimed:", sorted(CLAIMED))
