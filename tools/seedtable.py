#!/usr/bin/env python3
"""Regenerate the seeded-change table of DESIGN.md (section 0.7) from seeded/*/meta.json."""
import json, glob, os, re
ROOT = os.path.dirname(os.path.dirname(os.path.abspath(__file__)))
rows = []
for d in sorted(glob.glob(os.path.join(ROOT, "seeded", "*"))):
    mp = os.path.join(d, "meta.json")
    if not os.path.exists(mp):
        continue
    m = json.load(open(mp))
    notes = ""
    np_ = os.path.join(d, "notes.md")
    if os.path.exists(np_):
        for l in open(np_).read().split("\n"):
            l = l.strip().lstrip("#").strip()
            if l:
                notes = l; break
    notes = m.get("summary_override") or notes
    res = []
    for c, r in sorted(m.get("checks", {}).items()):
        res.append("%s: %s" % (c, {"concrete": "concrete", "correspondence": "corr.", "missed": "missed"}[r["kind"]]))
    rows.append("| %s | %s | %s | %s |" % (os.path.basename(d), notes.replace("|", "/")[:150], "; ".join(res), m.get("strengthened", "")))
table = "| seed | change | checks run → result | strengthening done because of it |\n|----|----|----|----|\n" + "\n".join(rows)
p = os.path.join(ROOT, "DESIGN.md")
s = open(p).read()
if "SEEDTABLE\n" in s and "<!-- SEEDTABLE-BEGIN -->" not in s:
    s = s.replace("SEEDTABLE\n", "<!-- SEEDTABLE-BEGIN -->\n<!-- SEEDTABLE-END -->\n", 1)
s = re.sub(r"<!-- SEEDTABLE-BEGIN -->.*?<!-- SEEDTABLE-END -->", "<!-- SEEDTABLE-BEGIN -->\n" + table.replace("\\", "\\\\") + "\n<!-- SEEDTABLE-END -->", s, flags=re.S)
open(p, "w").write(s)
print(len(rows), "rows")
