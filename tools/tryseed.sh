#!/bin/bash
# tools/tryseed.sh <worktree> <mutant-name> <check ids...>
# 1. confirm the sub-agent's claims in its scratch worktree; 2. apply the patch to /repo, run the checks, undo.
export GOFLAGS=-mod=mod GOPROXY=off GOSUMDB=off GOTOOLCHAIN=local
WT=$1; M=$2; shift 2
D=$WT/seeded/$M
cd $WT && git checkout -q -- . && git clean -fdq -e seeded
echo "== confirm in scratch worktree: $D"
git apply --check $D/patch.diff || { echo "PATCH DOES NOT APPLY"; exit 2; }
git apply $D/patch.diff
if go build ./... && go test -count=1 ./... >/tmp/seed_exist.log 2>&1; then echo "existing tests WITH change: pass"; else echo "existing tests WITH change: FAIL"; tail -5 /tmp/seed_exist.log; fi
cp $D/demo_test.go ./zz_demo_test.go
if go test -count=1 . >/tmp/seed_demo_with.log 2>&1; then echo "demo WITH change: passes (not a valid seed)"; else echo "demo WITH change: fails (as claimed)"; fi
git apply -R $D/patch.diff
if go test -count=1 . >/tmp/seed_demo_without.log 2>&1; then echo "demo WITHOUT change: passes (as claimed)"; else echo "demo WITHOUT change: FAILS"; tail -5 /tmp/seed_demo_without.log; fi
rm -f zz_demo_test.go; git checkout -q -- .
echo "== run checks against /repo with the patch applied"
cd /repo && git apply $D/patch.diff || { echo "does not apply to /repo"; exit 3; }
cd /verif
for P in "$@"; do ./check $P 2>&1 | grep -v KNOWN-FINDING | tail -3 | cut -c1-200; done
git -C /repo checkout -- . ; git -C /repo status --short | head -3
