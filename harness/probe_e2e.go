package main

import (
	"strings"
	"time"

	smtp "github.com/emersion/go-smtp"
)

// e2e  CFG  BACKEND  smtp|lmtp  CALLS  ->  backend-side events ; D records  <TAB>  client results
// the real Client talks to the real Server in this process over an in-memory connection.
func probeE2E(f []string) string {
	cfg := parseCfg(f[1])
	log := &evlog{}
	be := &backend{log: log, q: map[string][]string{}, dataStarted: make(chan struct{}, 64)}
	for _, part := range strings.Split(f[2], ";") {
		kv := strings.SplitN(part, "=", 2)
		if len(kv) == 2 && kv[1] != "" {
			be.q[kv[0]] = strings.Split(kv[1], "|")
		}
	}
	be.lmtpSess = cfg["lmtpsess"] == "1"
	be.authSess = cfg["authsess"] == "1"
	if cfg["mechs"] != "" && cfg["mechs"] != "-" {
		for _, m := range strings.Split(cfg["mechs"], ":") {
			be.mechs = append(be.mechs, string(unhx(m)))
		}
	}
	srv := smtp.NewServer(be)
	srv.Domain = "d"
	srv.LMTP = cfg["lmtp"] == "1"
	srv.MaxRecipients = atoi(cfg["maxrcpt"])
	srv.MaxMessageBytes = int64(atoi(cfg["maxmsg"]))
	srv.MaxLineLength = atoi(cfg["maxline"])
	srv.AllowInsecureAuth = cfg["insecure"] == "1"
	srv.EnableSMTPUTF8 = cfg["utf8"] == "1"
	srv.EnableREQUIRETLS = cfg["reqtls"] == "1"
	srv.EnableBINARYMIME = cfg["binmime"] == "1"
	srv.EnableDSN = cfg["dsn"] == "1"
	srv.EnableRRVS = cfg["rrvs"] == "1"
	srv.ErrorLog = plog{log}
	panicsRaised.Store(0)
	conn := newDuplex(&evlog{}) // the reply stream is of no interest here
	conn.plain = false
	conn.async = true
	setVerifPoint(func(name string) {
		if name == "bdat-spawned" {
			select {
			case <-be.dataStarted:
			case <-time.After(5 * time.Second):
			}
		}
	})
	done := make(chan struct{})
	go func() {
		defer close(done)
		srv.VHandleConn(conn)
	}()
	var c *smtp.Client
	if f[3] == "lmtp" {
		c = smtp.NewClientLMTP(peerConn{conn})
	} else {
		c = smtp.NewClient(peerConn{conn})
	}
	c.CommandTimeout = 3 * time.Second
	c.SubmissionTimeout = 3 * time.Second
	res := runCalls(c, f[4], func() []byte { return nil })
	c.Close()
	conn.end("eof")
	hang := ""
	select {
	case <-done:
	case <-time.After(5 * time.Second):
		hang = ";HANG"
		conn.Close()
	}
	be.wg.Wait()
	setVerifPoint(nil)
	// backend-side events only
	var evs []string
	for _, e := range strings.Split(log.String(), ";") {
		if e != "" && !strings.HasPrefix(e, "W:") {
			evs = append(evs, e)
		}
	}
	be.mu.Lock()
	d := append([]string(nil), be.drecs...)
	be.mu.Unlock()
	sortStrings(d)
	return strings.Join(evs, ";") + hang + "\t" + strings.Join(d, ";") + "\t" + strings.Join(res, "|")
}

func init() { probes["e2e"] = probeE2E }
