package main

import (
	"bufio"
	"context"
	"crypto/tls"
	"fmt"
	"io"
	"net"
	"strings"
	"time"

	smtp "github.com/emersion/go-smtp"
)

// tlsclose  LMTP(0|1)  ENDING(close|shutdown|connclose)  DELAY_MS
//
// A server with STARTTLS available and a backend whose Logout takes DELAY_MS: the peer greets, sends STARTTLS and completes the
// handshake; while the old (plaintext) session is being logged out because of the upgrade, the server is ended.  Every session the
// backend returned must have received exactly one Logout.  -> logouts=<per session, comma separated>
func probeTLSClose(f []string) string {
	log := &evlog{}
	be := &backend{log: log, q: map[string][]string{}, dataStarted: make(chan struct{}, 16)}
	be.logoutDelayMs.Store(int64(atoi(f[3])))
	srv := smtp.NewServer(be)
	srv.Domain = "d"
	srv.LMTP = f[1] == "1"
	scfg, ccfg := tlsConfigs()
	srv.TLSConfig = scfg
	srv.ErrorLog = plog{log}
	l, err := net.Listen("tcp", "127.0.0.1:0")
	if err != nil {
		return "listen-failed"
	}
	served := make(chan struct{})
	go func() { srv.Serve(l); close(served) }()
	c, err := net.Dial("tcp", l.Addr().String())
	if err != nil {
		return "dial-failed"
	}
	defer c.Close()
	c.SetDeadline(time.Now().Add(5 * time.Second))
	br := bufio.NewReader(c)
	rd := func() {
		for {
			line, err := br.ReadString('\n')
			if err != nil || len(line) < 4 || line[3] == ' ' {
				return
			}
		}
	}
	rd()
	if srv.LMTP {
		io.WriteString(c, "LHLO a\r\n")
	} else {
		io.WriteString(c, "EHLO a\r\n")
	}
	rd()
	io.WriteString(c, "STARTTLS\r\n")
	rd()
	tc := tls.Client(c, ccfg)
	go tc.Handshake()
	// wait until the upgrade has begun to log the plaintext session out
	for i := 0; i < 2000 && !strings.Contains(log.String(), "LO:"); i++ {
		time.Sleep(time.Millisecond)
	}
	switch f[2] {
	case "close":
		srv.Close()
	case "shutdown":
		ctx, cancel := context.WithTimeout(context.Background(), 2*time.Second)
		srv.Shutdown(ctx)
		cancel()
	case "connclose":
		if cn := be.lastConn.Load(); cn != nil {
			cn.Close()
		}
	}
	time.Sleep(time.Duration(atoi(f[3])+30) * time.Millisecond)
	srv.Close()
	c.Close()
	select {
	case <-served:
	case <-time.After(3 * time.Second):
	}
	evs := log.String()
	var out []string
	for id := 0; id < 4; id++ {
		if !strings.Contains(evs, fmt.Sprintf("NS:%d:", id)) {
			break
		}
		out = append(out, fmt.Sprint(strings.Count(evs+";", fmt.Sprintf("LO:%d;", id))))
	}
	return "logouts=" + strings.Join(out, ",")
}

func init() { probes["tlsclose"] = probeTLSClose }
