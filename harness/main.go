// Command vharness drives the real go-smtp code (built from /repo with -tags verif)
// through the line protocol described in DESIGN.md Appendix D: one case per input line,
// one answer per output line, everything that is an octet string in hex.
package main

import (
	"bufio"
	"encoding/hex"
	"fmt"
	smtp "github.com/emersion/go-smtp"
	"os"
	"runtime/debug"
	"strconv"
	"strings"
	"sync/atomic"
)

type probe func(f []string) string

var probes = map[string]probe{}

// The hook variable of the library (build tag verif) is set once, before any goroutine exists; the probes exchange what it does
// through an atomic pointer, so that a connection goroutine that is still winding down and the next probe do not race on it.
var vpHandler atomic.Pointer[func(string)]

func setVerifPoint(f func(string)) {
	if f == nil {
		vpHandler.Store(nil)
		return
	}
	vpHandler.Store(&f)
}

func init() {
	smtp.VerifPoint = func(name string) {
		if h := vpHandler.Load(); h != nil {
			(*h)(name)
		}
	}
}

func hx(b []byte) string {
	if len(b) == 0 {
		return "-"
	}
	return hex.EncodeToString(b)
}

func unhx(s string) []byte {
	if s == "-" || s == "" {
		return nil
	}
	b, err := hex.DecodeString(s)
	if err != nil {
		panic("bad hex: " + s)
	}
	return b
}

func atoi(s string) int {
	n, err := strconv.Atoi(s)
	if err != nil {
		panic("bad int: " + s)
	}
	return n
}

func ints(s string) []int {
	if s == "-" || s == "" {
		return nil
	}
	var r []int
	for _, p := range strings.Split(s, ",") {
		r = append(r, atoi(p))
	}
	return r
}

func runCase(line string) (ans string) {
	defer func() {
		if e := recover(); e != nil {
			ans = "HARNESS-PANIC " + strings.ReplaceAll(fmt.Sprint(e), "\n", " ") + " " +
				strings.ReplaceAll(strings.ReplaceAll(string(debug.Stack()), "\n", "|"), "\t", " ")
		}
	}()
	f := strings.Split(line, "\t")
	p, ok := probes[f[0]]
	if !ok {
		return "HARNESS-UNKNOWN-PROBE " + f[0]
	}
	return p(f)
}

func main() {
	in := bufio.NewReaderSize(os.Stdin, 1<<20)
	out := bufio.NewWriterSize(os.Stdout, 1<<16)
	defer out.Flush()
	for {
		line, err := in.ReadString('\n')
		line = strings.TrimRight(line, "\n")
		if line != "" {
			out.WriteString(runCase(line))
			out.WriteByte('\n')
			if len(os.Args) > 1 && os.Args[1] == "-flush" {
				out.Flush()
			}
		}
		if err != nil {
			return
		}
	}
}

func itoa(n int) string { return strconv.Itoa(n) }
