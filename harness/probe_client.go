package main

import (
	"bytes"
	"errors"
	"fmt"
	"io"
	"net"
	"strings"
	"time"

	sasl "github.com/emersion/go-sasl"
	smtp "github.com/emersion/go-smtp"
)

// speer is the scripted peer of a real smtp.Client: every command line the client writes releases the
// next scripted reply chunk; after a 354 chunk the peer is in data mode until the end-of-data line.
type speer struct {
	script  [][]byte
	defRep  []byte
	out     bytes.Buffer // what the client can read
	written []byte       // everything the client wrote
	mark    int          // start of the current call's writes
	line    []byte
	data    bool
	atBOL   bool
	eof     bool
	closed  bool
}

func (p *speer) next() {
	var rep []byte
	if len(p.script) > 0 {
		rep = p.script[0]
		p.script = p.script[1:]
		if string(rep) == "EOF" {
			p.eof = true
			return
		}
	} else {
		rep = p.defRep
	}
	p.out.Write(rep)
	// the last reply line of the chunk decides about data mode
	ls := strings.Split(strings.TrimRight(string(rep), "\r\n"), "\n")
	if strings.HasPrefix(ls[len(ls)-1], "354") {
		p.data = true
		p.atBOL = true
	}
}

func (p *speer) Write(b []byte) (int, error) {
	if p.closed {
		return 0, net.ErrClosed
	}
	p.written = append(p.written, b...)
	for _, c := range b {
		p.line = append(p.line, c)
		if c == '\n' {
			if p.data {
				if string(p.line) == ".\r\n" {
					p.data = false
					p.next()
				}
			} else {
				p.next()
			}
			p.line = p.line[:0]
		}
	}
	return len(b), nil
}
func (p *speer) Read(b []byte) (int, error) {
	if p.closed {
		return 0, net.ErrClosed
	}
	if p.out.Len() == 0 {
		return 0, io.EOF // the peer has nothing (more) to say: in reality the client would wait for its timeout
	}
	return p.out.Read(b)
}
func (p *speer) Close() error                       { p.closed = true; return nil }
func (p *speer) LocalAddr() net.Addr                { return addr{} }
func (p *speer) RemoteAddr() net.Addr               { return addr{} }
func (p *speer) SetDeadline(t time.Time) error      { return nil }
func (p *speer) SetReadDeadline(t time.Time) error  { return nil }
func (p *speer) SetWriteDeadline(t time.Time) error { return nil }

func (p *speer) take() []byte {
	w := p.written[p.mark:]
	p.mark = len(p.written)
	return w
}

func parseMailOptions(s string) *smtp.MailOptions {
	if s == "-" {
		return nil
	}
	m := parseCfg(s)
	o := &smtp.MailOptions{Body: smtp.BodyType(unhx(m["body"])), Size: int64(atoi(m["size"])), RequireTLS: m["reqtls"] == "1",
		UTF8: m["utf8"] == "1", Return: smtp.DSNReturn(unhx(m["ret"])), EnvelopeID: string(unhx(m["envid"]))}
	if m["auth"] != "nil" {
		a := string(unhx(m["auth"]))
		o.Auth = &a
	}
	return o
}

func parseRcptOptions(s string) *smtp.RcptOptions {
	if s == "-" {
		return nil
	}
	m := parseCfg(s)
	o := &smtp.RcptOptions{OriginalRecipientType: smtp.DSNAddressType(unhx(m["orcpttype"])), OriginalRecipient: string(unhx(m["orcpt"]))}
	if m["notify"] != "" {
		for _, n := range strings.Split(m["notify"], "+") {
			o.Notify = append(o.Notify, smtp.DSNNotify(unhx(n)))
		}
	}
	if m["rrvs"] != "nil" && m["rrvs"] != "" {
		// N or N@OFFSET (seconds east of UTC): the same instant expressed in another zone
		f := strings.SplitN(m["rrvs"], "@", 2)
		t := time.Unix(int64(atoi(f[0])), 0).UTC()
		if len(f) == 2 {
			off := atoi(strings.TrimPrefix(f[1], "-"))
			if strings.HasPrefix(f[1], "-") {
				off = -off
			}
			t = t.In(time.FixedZone("", off))
		}
		o.RequireRecipientValidSince = t
	}
	return o
}

func errString(err error) string {
	if err == nil {
		return "nil"
	}
	if se, ok := err.(*smtp.SMTPError); ok {
		return fmt.Sprintf("se/%d/%d.%d.%d/%s", se.Code, se.EnhancedCode[0], se.EnhancedCode[1], se.EnhancedCode[2], hx([]byte(se.Message)))
	}
	return "err"
}

// scripted SASL client mechanism
type saslClient struct {
	mech  string
	ir    []byte
	hasIR bool
	steps []string // hex | nil | ERR
	seen  []string
}

func (a *saslClient) Start() (string, []byte, error) {
	if a.hasIR {
		if a.ir == nil {
			return a.mech, []byte{}, nil
		}
		return a.mech, a.ir, nil
	}
	return a.mech, nil, nil
}
func (a *saslClient) Next(ch []byte) ([]byte, error) {
	a.seen = append(a.seen, hx(ch))
	if len(a.steps) == 0 {
		return []byte{}, nil
	}
	s := a.steps[0]
	a.steps = a.steps[1:]
	switch s {
	case "ERR":
		return nil, errors.New("mechanism failed")
	case "nil":
		return nil, nil
	case "-":
		return []byte{}, nil
	}
	return unhx(s), nil
}

var _ sasl.Client = (*saslClient)(nil)

// cconv  smtp|lmtp  PEER  CALLS   ->  per call: h(written)/result[/extra] joined by '|'
func probeCConv(f []string) string {
	p := &speer{defRep: []byte("250 2.0.0 OK\r\n")}
	if f[2] != "-" && f[2] != "" {
		for _, r := range strings.Split(f[2], ",") {
			if r == "EOF" {
				p.script = append(p.script, []byte("EOF"))
			} else {
				p.script = append(p.script, unhx(r))
			}
		}
	}
	// the greeting is the first scripted chunk
	p.next()
	var c *smtp.Client
	if f[1] == "lmtp" {
		c = smtp.NewClientLMTP(p)
	} else {
		c = smtp.NewClient(p)
	}
	return strings.Join(runCalls(c, f[3], p.take), "|")
}

// runCalls interprets a call script against a client; take() returns the octets written since the last call.
func runCalls(c *smtp.Client, script string, take func() []byte) []string {
	var out []string
	var wc io.WriteCloser
	var writers []io.WriteCloser
	var cbs []string
	for _, call := range strings.Split(script, ";") {
		a := strings.Split(call, "/")
		res, extra := "", ""
		switch a[0] {
		case "hello":
			res = errString(c.Hello(string(unhx(a[1]))))
		case "mail":
			res = errString(c.Mail(string(unhx(a[1])), parseMailOptions(a[2])))
		case "rcpt":
			res = errString(c.Rcpt(string(unhx(a[1])), parseRcptOptions(a[2])))
		case "verify":
			res = errString(c.Verify(string(unhx(a[1]))))
		case "reset":
			res = errString(c.Reset())
		case "noop":
			res = errString(c.Noop())
		case "quit":
			res = errString(c.Quit())
		case "ext":
			ok, param := c.Extension(string(unhx(a[1])))
			res = fmt.Sprintf("%v:%s", ok, hx([]byte(param)))
		case "data":
			w, err := c.Data()
			if err == nil {
				wc = w
				writers = append(writers, w)
			}
			res = errString(err)
		case "lmtpdata":
			cbs = nil
			w, err := c.LMTPData(func(rcpt string, status *smtp.SMTPError) {
				var e error
				if status != nil {
					e = status
				}
				cbs = append(cbs, hx([]byte(rcpt))+"="+strings.ReplaceAll(errString(e), "/", "~"))
			})
			if err == nil {
				wc = w
				writers = append(writers, w)
			}
			res = errString(err)
		case "write":
			if wc == nil {
				res = "nowriter"
			} else {
				_, err := wc.Write(unhx(a[1]))
				res = errString(err)
			}
		case "close":
			w := wc
			if len(a) > 1 { // close/K: the K-th writer obtained so far (stale handles included)
				if k := atoi(a[1]); k < len(writers) {
					w = writers[k]
				} else {
					w = nil
				}
			}
			if w == nil {
				res = "nowriter"
			} else {
				cbs = nil
				res = errString(w.Close())
				extra = strings.Join(cbs, "+")
			}
		case "auth":
			sc := &saslClient{mech: string(unhx(a[1]))}
			if a[2] != "none" {
				sc.hasIR = true
				sc.ir = unhx(a[2])
			}
			if len(a) > 3 && a[3] != "" {
				sc.steps = strings.Split(a[3], "+")
			}
			res = errString(c.Auth(sc))
			extra = strings.Join(sc.seen, "+")
		default:
			res = "HARNESS-BAD-CALL"
		}
		w := "-"
		if a[0] != "write" {
			// what a Write call puts on the wire depends on bufio's flushing; it is accounted to the next call
			w = hx(take())
		}
		item := w + "/" + strings.ReplaceAll(res, "/", "~")
		if extra != "" {
			item += "/" + extra
		}
		out = append(out, item)
	}
	return out
}

func init() { probes["cconv"] = probeCConv }
