package main

import (
	"bytes"
	"crypto/tls"
	"errors"
	"fmt"
	"io"
	"net"
	"sort"
	"strings"
	"sync"
	"sync/atomic"
	"time"

	sasl "github.com/emersion/go-sasl"
	smtp "github.com/emersion/go-smtp"
)

// ---------------------------------------------------------------------------
// event log

type evlog struct {
	mu   sync.Mutex
	evs  []string
	wbuf []byte
}

func (l *evlog) flushW() {
	if len(l.wbuf) > 0 {
		l.evs = append(l.evs, "W:"+hx(l.wbuf))
		l.wbuf = nil
	}
}
func (l *evlog) add(s string) {
	l.mu.Lock()
	l.flushW()
	l.evs = append(l.evs, s)
	l.mu.Unlock()
}
func (l *evlog) write(b []byte) {
	l.mu.Lock()
	l.wbuf = append(l.wbuf, b...)
	l.mu.Unlock()
}

// lastReplyCode returns the first three octets of the last line written so far.
func (l *evlog) lastReplyCode() string {
	l.mu.Lock()
	defer l.mu.Unlock()
	// the last line the server has written, whether or not an event (an asynchronous panic log line, say) has been
	// recorded since: such an event flushes the pending octets into a W entry
	b := l.wbuf
	if len(b) == 0 {
		for i := len(l.evs) - 1; i >= 0; i-- {
			if strings.HasPrefix(l.evs[i], "W:") {
				b = unhx(l.evs[i][2:])
				break
			}
		}
	}
	b = []byte(strings.TrimRight(string(b), "\r\n"))
	if i := strings.LastIndex(string(b), "\n"); i >= 0 {
		b = b[i+1:]
	}
	if len(b) < 3 {
		return ""
	}
	return string(b[:3])
}

// peekWritten returns everything written so far (events and pending octets), for waiting on reply counts.
func (l *evlog) peekWritten() string {
	l.mu.Lock()
	defer l.mu.Unlock()
	var b strings.Builder
	for _, e := range l.evs {
		if strings.HasPrefix(e, "W:") {
			b.Write(unhx(e[2:]))
		}
	}
	b.Write(l.wbuf)
	return b.String()
}

func (l *evlog) String() string {
	l.mu.Lock()
	defer l.mu.Unlock()
	l.flushW()
	return strings.Join(l.evs, ";")
}

// ---------------------------------------------------------------------------
// scripted connection (server side)

type timeoutErr struct{}

func (timeoutErr) Error() string   { return "i/o timeout" }
func (timeoutErr) Timeout() bool   { return true }
func (timeoutErr) Temporary() bool { return true }

type addr struct{}

func (addr) Network() string { return "script" }
func (addr) String() string  { return "script" }

type sconn struct {
	log    *evlog
	mu     sync.Mutex
	segs   [][]byte
	end    string
	closed bool
	wac    int
}

func (c *sconn) Read(b []byte) (int, error) {
	c.mu.Lock()
	defer c.mu.Unlock()
	if c.closed {
		return 0, net.ErrClosed
	}
	if len(b) == 0 {
		return 0, nil
	}
	if len(c.segs) == 0 {
		if c.end == "timeout" {
			return 0, timeoutErr{}
		}
		return 0, io.EOF
	}
	n := copy(b, c.segs[0])
	if n == len(c.segs[0]) {
		c.segs = c.segs[1:]
	} else {
		c.segs[0] = c.segs[0][n:]
	}
	return n, nil
}
func (c *sconn) Write(b []byte) (int, error) {
	c.mu.Lock()
	if c.closed {
		c.wac++
		c.mu.Unlock()
		return 0, net.ErrClosed
	}
	c.mu.Unlock()
	c.log.write(b)
	return len(b), nil
}
func (c *sconn) Close() error {
	c.mu.Lock()
	was := c.closed
	c.closed = true
	c.mu.Unlock()
	if !was {
		c.log.add("CLOSE")
	}
	return nil
}
func (c *sconn) LocalAddr() net.Addr  { return addr{} }
func (c *sconn) RemoteAddr() net.Addr { return addr{} }
func (c *sconn) SetDeadline(t time.Time) error {
	return c.SetReadDeadline(t)
}
func (c *sconn) SetReadDeadline(t time.Time) error {
	c.mu.Lock()
	defer c.mu.Unlock()
	if c.closed {
		return net.ErrClosed
	}
	return nil
}
func (c *sconn) SetWriteDeadline(t time.Time) error { return nil }

// ---------------------------------------------------------------------------
// scripted backend

type bres struct {
	kind string // ok se er panic prop
	code int
	enh  smtp.EnhancedCode
	msg  string
}

func parseRes(s string) bres {
	f := strings.Split(s, "/")
	switch f[0] {
	case "ok", "panic", "prop":
		return bres{kind: f[0]}
	case "se":
		var e smtp.EnhancedCode
		p := strings.Split(f[2], ".")
		for i := 0; i < 3; i++ {
			e[i] = atoi(p[i])
		}
		return bres{kind: "se", code: atoi(f[1]), enh: e, msg: string(unhx(f[3]))}
	case "er":
		return bres{kind: "er", msg: string(unhx(f[1]))}
	}
	panic("bad res " + s)
}

func (r bres) err() error {
	switch r.kind {
	case "se":
		return &smtp.SMTPError{Code: r.code, EnhancedCode: r.enh, Message: r.msg}
	case "er":
		return errors.New(r.msg)
	case "panic":
		panicsRaised.Add(1)
		panic("scripted backend panic")
	}
	return nil
}

// number of panics raised inside backend callbacks in the current conversation; each of them is
// recovered by go-smtp and logged ("panic serving ...") exactly once
var panicsRaised atomic.Int64

// number of conversations of this process that did not end within their budget
var hangsSeen atomic.Int64

func (r bres) String() string {
	switch r.kind {
	case "se":
		return fmt.Sprintf("se/%d/%d.%d.%d/%s", r.code, r.enh[0], r.enh[1], r.enh[2], hx([]byte(r.msg)))
	case "er":
		return "er/" + hx([]byte(r.msg))
	}
	return r.kind
}

// what an error returned by a callback looks like in the trace
func errRes(err error) string {
	if err == nil {
		return "ok"
	}
	if se, ok := err.(*smtp.SMTPError); ok {
		return fmt.Sprintf("se/%d/%d.%d.%d/%s", se.Code, se.EnhancedCode[0], se.EnhancedCode[1], se.EnhancedCode[2], hx([]byte(se.Message)))
	}
	return "er/" + hx([]byte(err.Error()))
}

type dataDec struct {
	want     int // -1 = all
	rsz      int
	ret      bres
	statuses [][2]string // addr (raw), res string
}

type saslStep struct {
	challenge []byte
	done      bool
	res       bres
}

// tracker counts calls in flight. Unlike sync.WaitGroup it may be incremented from zero while somebody waits: a chunked
// delivery's goroutine starts whenever the scheduler lets it (`latestart`), possibly after the probe has begun to wait.
type tracker struct {
	mu sync.Mutex
	n  int
}

func (t *tracker) Add(d int) { t.mu.Lock(); t.n += d; t.mu.Unlock() }
func (t *tracker) Done()     { t.Add(-1) }
func (t *tracker) Wait() {
	for {
		t.mu.Lock()
		z := t.n <= 0
		t.mu.Unlock()
		if z {
			return
		}
		time.Sleep(200 * time.Microsecond)
	}
}

type backend struct {
	log                *evlog
	mu                 sync.Mutex
	q                  map[string][]string
	nsess              int
	ndata              int
	drecs              []string
	wg                 tracker // Data calls in flight (not a sync.WaitGroup: a delivery may start while the probe already waits)
	lmtpSess, authSess bool
	mechs              []string
	dataStarted        chan struct{}
	lastConn           atomic.Pointer[smtp.Conn]
	nsDelayMs          atomic.Int64 // sched probe: NewSession takes this long (so that a Close can arrive while it runs)
	onLogout           func()       // lateserve probe: what the backend does inside Logout (it ends the server)
	logoutDelayMs      atomic.Int64 // sched probe: Logout takes this long (so that overlapping Close calls really overlap)
}

func (b *backend) pop(kind string) string {
	b.mu.Lock()
	defer b.mu.Unlock()
	l := b.q[kind]
	if len(l) == 0 {
		return ""
	}
	b.q[kind] = l[1:]
	return l[0]
}

func (b *backend) popRes(kind string) bres {
	s := b.pop(kind)
	if s == "" {
		return bres{kind: "ok"}
	}
	return parseRes(s)
}

type session struct {
	b  *backend
	id int
}

func (b *backend) NewSession(c *smtp.Conn) (smtp.Session, error) {
	r := b.popRes("NS")
	b.lastConn.Store(c)
	b.mu.Lock()
	id := b.nsess
	b.nsess++
	b.mu.Unlock()
	_, isTLS := c.TLSConnectionState()
	t := "0"
	if isTLS {
		t = "1"
	}
	b.log.add(fmt.Sprintf("NS:%d:%s:%s:%s", id, hx([]byte(c.Hostname())), t, r.String()))
	if d := b.nsDelayMs.Load(); d > 0 {
		time.Sleep(time.Duration(d) * time.Millisecond)
	}
	if err := r.err(); err != nil {
		return nil, err
	}
	s := &session{b: b, id: id}
	switch {
	case b.lmtpSess && b.authSess:
		return &lmtpAuthSession{lmtpSession{s}}, nil
	case b.lmtpSess:
		return &lmtpSession{s}, nil
	case b.authSess:
		return &authSession{s}, nil
	}
	return s, nil
}

func mailOpts(o *smtp.MailOptions) string {
	auth := "nil"
	if o.Auth != nil {
		auth = hx([]byte(*o.Auth))
	}
	b2 := func(b bool) string {
		if b {
			return "1"
		}
		return "0"
	}
	return fmt.Sprintf("body=%s,size=%d,reqtls=%s,utf8=%s,ret=%s,envid=%s,auth=%s", hx([]byte(o.Body)), o.Size,
		b2(o.RequireTLS), b2(o.UTF8), hx([]byte(o.Return)), hx([]byte(o.EnvelopeID)), auth)
}

func rcptOpts(o *smtp.RcptOptions) string {
	var n []string
	for _, v := range o.Notify {
		n = append(n, hx([]byte(v)))
	}
	rr := "nil"
	if !o.RequireRecipientValidSince.IsZero() {
		rr = fmt.Sprint(o.RequireRecipientValidSince.Unix())
	}
	return fmt.Sprintf("notify=%s,orcpttype=%s,orcpt=%s,rrvs=%s", strings.Join(n, "+"), hx([]byte(o.OriginalRecipientType)),
		hx([]byte(o.OriginalRecipient)), rr)
}

func (s *session) Reset() { s.b.log.add(fmt.Sprintf("RS:%d", s.id)) }
func (s *session) Logout() error {
	s.b.log.add(fmt.Sprintf("LO:%d", s.id))
	if d := s.b.logoutDelayMs.Load(); d > 0 {
		time.Sleep(time.Duration(d) * time.Millisecond)
	}
	if f := s.b.onLogout; f != nil {
		f()
	}
	return nil
}
func (s *session) Mail(from string, opts *smtp.MailOptions) error {
	r := s.b.popRes("MAIL")
	s.b.log.add(fmt.Sprintf("M:%d:%s:%s:%s", s.id, hx([]byte(from)), mailOpts(opts), r.String()))
	return r.err()
}
func (s *session) Rcpt(to string, opts *smtp.RcptOptions) error {
	r := s.b.popRes("RCPT")
	s.b.log.add(fmt.Sprintf("RC:%d:%s:%s:%s", s.id, hx([]byte(to)), rcptOpts(opts), r.String()))
	return r.err()
}

func parseDataDec(s string) dataDec {
	d := dataDec{want: -1, rsz: 4096, ret: bres{kind: "ok"}}
	if s == "" {
		return d
	}
	f := strings.Split(s, "!")
	if f[0] != "all" {
		d.want = atoi(f[0])
	}
	d.rsz = atoi(f[1])
	d.ret = parseRes(f[2])
	if len(f) > 3 && f[3] != "" {
		for _, p := range strings.Split(f[3], "+") {
			kv := strings.SplitN(p, "=", 2)
			d.statuses = append(d.statuses, [2]string{string(unhx(kv[0])), kv[1]})
		}
	}
	return d
}

func rdEndName(err error) string {
	switch {
	case err == nil:
		return "none"
	case err == io.EOF:
		return "eof"
	case err == io.ErrUnexpectedEOF:
		return "ueof"
	case err == smtp.ErrDataTooLarge:
		return "toolarge"
	case err == smtp.ErrDataReset:
		return "reset"
	case err == smtp.ErrTooLongLine:
		return "toolong"
	case errors.Is(err, net.ErrClosed):
		return "closed"
	}
	if ne, ok := err.(net.Error); ok && ne.Timeout() {
		return "timeout"
	}
	return "other(" + strings.ReplaceAll(err.Error(), ":", "_") + ")"
}

// data runs one Data/LMTPData call according to the next DATA decision.
func (s *session) data(r io.Reader, status smtp.StatusCollector, sync bool) (err error) {
	b := s.b
	dec := parseDataDec(b.pop("DATA"))
	b.mu.Lock()
	k := b.ndata
	b.ndata++
	b.drecs = append(b.drecs, "")
	b.mu.Unlock()
	b.wg.Add(1)
	if sync {
		b.log.add(fmt.Sprintf("DB:%d:%d", s.id, k))
	}
	if _, isPipe := r.(*io.PipeReader); isPipe {
		// a chunked delivery (its own goroutine): tell the spawn hook that it has entered the backend
		b.dataStarted <- struct{}{}
	}
	var got []byte
	var rerr error
	ret := "?"
	defer func() {
		if p := recover(); p != nil {
			if ret == "?" && fmt.Sprint(p) != "scripted backend panic" {
				panicsRaised.Add(1) // a panic raised by go-smtp itself inside the callback (SetStatus)
			}
			ret = "panic"
			b.mu.Lock()
			b.drecs[k] = fmt.Sprintf("D:%d:%d:%s:%s:%s", k, s.id, hx(got), rdEndName(rerr), ret)
			b.mu.Unlock()
			b.wg.Done()
			panic(p)
		}
		b.mu.Lock()
		b.drecs[k] = fmt.Sprintf("D:%d:%d:%s:%s:%s", k, s.id, hx(got), rdEndName(rerr), ret)
		b.mu.Unlock()
		b.wg.Done()
	}()
	if dec.want < 0 && dec.rsz >= 32768 {
		// a backend that hands the reader to io.Copy (which looks for io.WriterTo first), after sniffing rsz-32768 octets with
		// one Read: on a reader without WriteTo this is a Read loop with a 32 KiB buffer
		if sniff := dec.rsz - 32768; sniff > 0 {
			buf := make([]byte, sniff)
			m, e := r.Read(buf)
			got = append(got, buf[:m]...)
			rerr = e
		}
		if rerr == nil {
			var bb bytes.Buffer
			_, e := io.Copy(&bb, r)
			got = append(got, bb.Bytes()...)
			rerr = e
			if e == nil {
				rerr = io.EOF
			}
		}
	}
	for (dec.want < 0 && dec.rsz < 32768) || (dec.want >= 0 && len(got) < dec.want) {
		n := dec.rsz
		if dec.want >= 0 && dec.want-len(got) < n {
			n = dec.want - len(got)
		}
		buf := make([]byte, n)
		m, e := r.Read(buf)
		got = append(got, buf[:m]...)
		if e != nil {
			rerr = e
			break
		}
	}
	gatesMu.Lock()
	useGate := gating
	gatesMu.Unlock()
	if useGate {
		<-gateFor(k).ch
	}
	if status != nil {
		for _, st := range dec.statuses {
			status.SetStatus(st[0], parseRes(st[1]).err())
		}
	}
	if dec.ret.kind == "prop" {
		if rerr != nil && rerr != io.EOF {
			err = rerr
		}
		ret = errRes(err)
		return err
	}
	ret = dec.ret.String()
	return dec.ret.err()
}

func (s *session) Data(r io.Reader) error { return s.data(r, nil, s.b.syncData()) }

func (b *backend) syncData() bool { return true }

type lmtpSession struct{ *session }

func (s *lmtpSession) LMTPData(r io.Reader, st smtp.StatusCollector) error {
	return s.session.data(r, st, true)
}

type authSession struct{ *session }

func (s *session) authMechanisms() []string { return s.b.mechs }
func (s *session) auth(mech string) (sasl.Server, error) {
	r := s.b.popRes("AUTH")
	s.b.log.add(fmt.Sprintf("AM:%d:%s:%s", s.id, hx([]byte(mech)), r.String()))
	if err := r.err(); err != nil {
		return nil, err
	}
	return &saslServer{s.b}, nil
}
func (s *authSession) AuthMechanisms() []string              { return s.authMechanisms() }
func (s *authSession) Auth(mech string) (sasl.Server, error) { return s.auth(mech) }

type lmtpAuthSession struct{ lmtpSession }

func (s *lmtpAuthSession) AuthMechanisms() []string              { return s.authMechanisms() }
func (s *lmtpAuthSession) Auth(mech string) (sasl.Server, error) { return s.auth(mech) }

type saslServer struct{ b *backend }

func (s *saslServer) Next(resp []byte) ([]byte, bool, error) {
	st := saslStep{done: true, res: bres{kind: "ok"}}
	if x := s.b.pop("SASL"); x != "" {
		f := strings.SplitN(x, "!", 3)
		st.challenge = unhx(f[0])
		st.done = f[1] == "1"
		st.res = parseRes(f[2])
	}
	rs := "nil"
	if resp != nil {
		rs = hx(resp)
	}
	d := "0"
	if st.done {
		d = "1"
	}
	s.b.log.add(fmt.Sprintf("SN:%s:%s:%s:%s", rs, hx(st.challenge), d, st.res.String()))
	if err := st.res.err(); err != nil {
		// go-sasl's own servers report a rejection as (nil, true, err): the scripted `done` is passed on with the error
		return nil, st.done, err
	}
	return st.challenge, st.done, nil
}

// ---------------------------------------------------------------------------

type plog struct{ log *evlog }

func (p plog) Printf(format string, v ...interface{}) {
	if strings.HasPrefix(format, "panic serving") {
		p.log.add("PANIC")
	}
}
func (p plog) Println(v ...interface{}) {}

func parseCfg(s string) map[string]string {
	m := map[string]string{}
	for _, kv := range strings.Split(s, ",") {
		p := strings.SplitN(kv, "=", 2)
		if len(p) == 2 {
			m[p[0]] = p[1]
		}
	}
	return m
}

// conv  CFG  BACKEND  INPUT   ->  events  drecs  WAC=n
func probeConv(f []string) string {
	if hangsSeen.Load() >= 12 {
		return "HANG-SKIPPED\t\tWAC=0"
	}
	cfg := parseCfg(f[1])
	log := &evlog{}
	be := &backend{log: log, q: map[string][]string{}, dataStarted: make(chan struct{}, 64)}
	for _, part := range strings.Split(f[2], ";") {
		kv := strings.SplitN(part, "=", 2)
		if len(kv) == 2 && kv[1] != "" {
			be.q[kv[0]] = strings.Split(kv[1], "|")
		}
	}
	be.lmtpSess = cfg["lmtpsess"] == "1"
	be.authSess = cfg["authsess"] == "1"
	if cfg["mechs"] != "" && cfg["mechs"] != "-" {
		for _, m := range strings.Split(cfg["mechs"], ":") {
			be.mechs = append(be.mechs, string(unhx(m)))
		}
	}
	srv := smtp.NewServer(be)
	srv.Domain = "d"
	srv.LMTP = cfg["lmtp"] == "1"
	srv.MaxRecipients = atoi(cfg["maxrcpt"])
	srv.MaxMessageBytes = int64(atoi(cfg["maxmsg"]))
	srv.MaxLineLength = atoi(cfg["maxline"])
	srv.AllowInsecureAuth = cfg["insecure"] == "1"
	srv.EnableSMTPUTF8 = cfg["utf8"] == "1"
	srv.EnableREQUIRETLS = cfg["reqtls"] == "1"
	srv.EnableBINARYMIME = cfg["binmime"] == "1"
	srv.EnableDSN = cfg["dsn"] == "1"
	srv.EnableRRVS = cfg["rrvs"] == "1"
	if cfg["rt"] == "1" {
		srv.ReadTimeout = time.Hour
	}
	if cfg["debug"] == "1" {
		srv.Debug = io.Discard // the debug tee must not change anything a peer or a backend can observe
	}
	srv.ErrorLog = plog{log}

	panicsRaised.Store(0)
	in := strings.SplitN(f[3], ";", 2)
	conn := newDuplex(log)
	var tlsSegs [][]byte
	hasTLS := false
	if in[0] != "" && in[0] != "-" {
		for _, s := range strings.Split(in[0], ",") {
			if s == "TLS" {
				hasTLS = true
				continue
			}
			if s == "HSFAIL" {
				// the next segment is what the peer sends instead of a ClientHello: the handshake fails, the conversation
				// goes on in plaintext
				continue
			}
			if s == "TO" {
				conn.in = append(conn.in, []byte{}) // the read deadline expires at this point of the (plaintext) stream
				continue
			}
			if hasTLS {
				tlsSegs = append(tlsSegs, unhx(s))
			} else {
				conn.in = append(conn.in, unhx(s))
			}
		}
	}
	peerDone := make(chan struct{})
	var netc net.Conn = conn
	switch {
	case cfg["tls"] == "implicit":
		scfg, _ := tlsConfigs()
		srv.TLSConfig = scfg
		tlsSegs = conn.in
		conn.in = nil
		netc = tls.Server(conn, scfg)
		go runTLSPeer(conn, tlsSegs, in[1], peerDone)
	case hasTLS:
		scfg, _ := tlsConfigs()
		srv.TLSConfig = scfg
		// once the server has consumed the plaintext and waits for more, the peer starts TLS
		conn.onIdle = func() {
			if log.lastReplyCode() == "220" {
				go runTLSPeer(conn, tlsSegs, in[1], peerDone)
			} else {
				// the server is not waiting for a TLS handshake: the peer just goes away
				conn.end("eof")
				close(peerDone)
			}
		}
	default:
		if cfg["tls"] == "avail" {
			scfg, _ := tlsConfigs()
			srv.TLSConfig = scfg
		}
		conn.inEnd = in[1]
		close(peerDone)
	}
	setVerifPoint(func(name string) {
		if name == "bdat-spawned" {
			// the delivery goroutine has been started: wait until it has entered the backend, so
			// that decisions and record numbers are handed out in spawn order
			select {
			case <-be.dataStarted:
			case <-time.After(5 * time.Second):
				log.add("HANG-SPAWN")
			}
		}
	})
	done := make(chan struct{})
	go func() {
		defer close(done)
		defer func() {
			if p := recover(); p != nil {
				log.add("ESCAPED-PANIC:" + hx([]byte(fmt.Sprint(p))))
			}
		}()
		srv.VHandleConn(netc)
	}()
	hang := false
	// a hang is an observation (deadlock); after a few of them in one run the budget per case shrinks so
	// that a systematically deadlocking build does not stall the whole check
	budget := 10 * time.Second
	if hangsSeen.Load() >= 3 {
		budget = 400 * time.Millisecond
	}
	select {
	case <-done:
	case <-time.After(budget):
		hang = true
	}
	wd := make(chan struct{})
	go func() { be.wg.Wait(); close(wd) }()
	select {
	case <-wd:
	case <-time.After(budget / 2):
		hang = true
	}
	if hang {
		hangsSeen.Add(1)
		// unblock whatever is still waiting on the connection
		conn.end("eof")
		conn.Close()
	}
	setVerifPoint(nil)
	// a chunked delivery's panic is logged by its own goroutine after the callback has returned
	for i := 0; i < 3000 && int64(strings.Count(log.String(), "PANIC")) < panicsRaised.Load(); i++ {
		time.Sleep(time.Millisecond)
	}
	conn.mu.Lock()
	if conn.onIdle != nil {
		conn.onIdle = nil
		close(peerDone)
	}
	conn.mu.Unlock()
	peerHang := false
	select {
	case <-peerDone:
	case <-time.After(5 * time.Second):
		peerHang = true
	}
	evs := log.String()
	if peerHang {
		evs += ";HANG-PEER"
	}
	if hang {
		evs += ";HANG"
	}
	be.mu.Lock()
	d := append([]string(nil), be.drecs...)
	be.mu.Unlock()
	sortStrings(d)
	conn.mu.Lock()
	wac := conn.wac
	conn.mu.Unlock()
	return evs + "\t" + strings.Join(d, ";") + "\tWAC=" + itoa(wac)
}

func init() { probes["conv"] = probeConv }

func sortStrings(d []string) { sort.Strings(d) }
