package main

import (
	"bufio"
	"bytes"
	"crypto/tls"
	"net"
	"strings"
	"sync"
	"time"

	smtp "github.com/emersion/go-smtp"
)

// cstls  new|sendmail  PLAIN  INNER|-  CALLS|ARGS
//
// The real client is made to upgrade with STARTTLS against a scripted server (an active goroutine at the other
// end of a connection).  PLAIN: chunks for the plaintext phase — chunk 0 is the greeting, every command line read
// releases the next chunk, "EOF" closes the connection.  When the client starts TLS (first octet 0x16 at a line
// start): with INNER given the peer performs a real TLS handshake and then serves INNER the same way inside TLS
// (after a 354 chunk it is in data mode until the end-of-data line); with INNER "-" the peer does not speak TLS
// and answers the ClientHello with the next PLAIN chunk (garbage) instead.
//
// answer: PLAINWRITTEN  TLS(none|ok|failed)  INNERWRITTEN  RESULTS
type cstlsLog struct {
	mu     sync.Mutex
	plain  []byte
	inner  []byte
	mark   int
	tls    string
	closed bool
}

func (l *cstlsLog) takeInner() []byte {
	l.mu.Lock()
	defer l.mu.Unlock()
	w := l.inner[l.mark:]
	l.mark = len(l.inner)
	return append([]byte(nil), w...)
}

// bufConn lets tls.Server continue on a connection whose first octets sit in a bufio.Reader
type bufConn struct {
	net.Conn
	br *bufio.Reader
}

func (b bufConn) Read(p []byte) (int, error) { return b.br.Read(p) }

func serveScript(conn net.Conn, br *bufio.Reader, script [][]byte, first bool, sink func([]byte), stopAtTLS bool) (tlsStart bool, rest [][]byte) {
	i := 0
	release := func() bool {
		if i >= len(script) {
			return false
		}
		rep := script[i]
		i++
		if string(rep) == "EOF" {
			return false
		}
		conn.SetWriteDeadline(time.Now().Add(3 * time.Second))
		if _, err := conn.Write(rep); err != nil {
			return false
		}
		return true
	}
	data := false
	lastIs354 := func() bool {
		if i == 0 {
			return false
		}
		ls := strings.Split(strings.TrimRight(string(script[i-1]), "\r\n"), "\n")
		return strings.HasPrefix(ls[len(ls)-1], "354")
	}
	if first {
		if !release() {
			return false, nil
		}
	}
	for {
		conn.SetReadDeadline(time.Now().Add(4 * time.Second))
		if stopAtTLS && !data {
			b, err := br.Peek(1)
			if err != nil {
				return false, nil
			}
			if b[0] == 0x16 {
				return true, script[i:]
			}
		}
		line, err := br.ReadBytes('\n')
		sink(line)
		if err != nil {
			return false, nil
		}
		if data {
			if string(line) == ".\r\n" {
				data = false
				if !release() {
					return false, nil
				}
			}
			continue
		}
		if !release() {
			return false, nil
		}
		if lastIs354() {
			data = true
		}
	}
}

func cstlsServer(conn net.Conn, plain, inner [][]byte, hasInner bool, log *cstlsLog, done chan<- struct{}) {
	defer close(done)
	defer conn.Close()
	br := bufio.NewReader(conn)
	started, rest := serveScript(conn, br, plain, true, func(b []byte) { log.mu.Lock(); log.plain = append(log.plain, b...); log.mu.Unlock() }, true)
	if !started {
		return
	}
	log.mu.Lock()
	log.tls = "failed"
	log.mu.Unlock()
	if !hasInner {
		// the peer does not speak TLS: whatever comes next in the plaintext script answers the ClientHello
		if len(rest) > 0 && string(rest[0]) != "EOF" {
			conn.SetWriteDeadline(time.Now().Add(3 * time.Second))
			conn.Write(rest[0])
		}
		// swallow what the client still sends, until it gives up
		conn.SetReadDeadline(time.Now().Add(300 * time.Millisecond))
		buf := make([]byte, 4096)
		for {
			if _, err := br.Read(buf); err != nil {
				return
			}
		}
	}
	scfg, _ := tlsConfigs()
	tc := tls.Server(bufConn{conn, br}, scfg)
	tc.SetDeadline(time.Now().Add(4 * time.Second))
	if err := tc.Handshake(); err != nil {
		return
	}
	log.mu.Lock()
	log.tls = "ok"
	log.mu.Unlock()
	serveScript(tc, bufio.NewReader(tc), inner, false, func(b []byte) { log.mu.Lock(); log.inner = append(log.inner, b...); log.mu.Unlock() }, false)
	tc.Close()
}

func parseChunks(s string) [][]byte {
	var out [][]byte
	if s == "-" || s == "" {
		return out
	}
	for _, r := range strings.Split(s, ",") {
		if r == "EOF" {
			out = append(out, []byte("EOF"))
		} else {
			out = append(out, unhx(r))
		}
	}
	return out
}

func probeCSTLS(f []string) string {
	plain := parseChunks(f[2])
	hasInner := f[3] != "-"
	inner := parseChunks(strings.TrimPrefix(f[3], "+"))
	log := &cstlsLog{tls: "none"}
	done := make(chan struct{})
	_, ccfg := tlsConfigs()
	var results []string
	switch f[1] {
	case "new":
		a, b := net.Pipe()
		go cstlsServer(b, plain, inner, hasInner, log, done)
		c, err := smtp.NewClientStartTLS(a, ccfg)
		results = append(results, strings.ReplaceAll(errString(err), "/", "~"))
		if err == nil {
			c.CommandTimeout = 3 * time.Second
			c.SubmissionTimeout = 3 * time.Second
			if f[4] != "-" && f[4] != "" {
				for _, r := range runCalls(c, f[4], log.takeInner) {
					results = append(results, r)
				}
			}
			c.Close()
		}
		a.Close()
	case "sendmail":
		// ARGS: auth(0|1)/from/to+to/body
		args := strings.Split(f[4], "/")
		ln, err := net.Listen("tcp", "127.0.0.1:0")
		if err != nil {
			return "NO-LOOPBACK"
		}
		go func() {
			conn, err := ln.Accept()
			ln.Close()
			if err != nil {
				close(done)
				return
			}
			cstlsServer(conn, plain, inner, hasInner, log, done)
		}()
		smtp.VSetStartTLSHook(func(cfg *tls.Config) { cfg.InsecureSkipVerify = true })
		var to []string
		for _, t := range strings.Split(args[2], "+") {
			to = append(to, string(unhx(t)))
		}
		var a *saslClient
		if args[0] == "1" {
			a = &saslClient{mech: "PLAIN", ir: []byte("\x00user\x00secret"), hasIR: true}
		}
		var res error
		if a != nil {
			res = smtp.SendMail(ln.Addr().String(), a, string(unhx(args[1])), to, bytes.NewReader(unhx(args[3])))
		} else {
			res = smtp.SendMail(ln.Addr().String(), nil, string(unhx(args[1])), to, bytes.NewReader(unhx(args[3])))
		}
		smtp.VSetStartTLSHook(nil)
		ln.Close() // nobody may have connected (arguments refused before dialling)
		results = append(results, strings.ReplaceAll(errString(res), "/", "~"))
	}
	select {
	case <-done:
	case <-time.After(6 * time.Second):
		results = append(results, "SERVER-HANG")
	}
	log.mu.Lock()
	defer log.mu.Unlock()
	return hx(log.plain) + "\t" + log.tls + "\t" + hx(log.inner) + "\t" + strings.Join(results, "|")
}

func init() { probes["cstls"] = probeCSTLS }
