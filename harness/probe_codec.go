package main

import (
	"bufio"
	"bytes"
	"errors"
	"fmt"
	"net/textproto"
	"sort"
	"strings"

	smtp "github.com/emersion/go-smtp"
)

func okOrErr(s string, err error) string {
	if err != nil {
		return "err"
	}
	return "ok/" + hx([]byte(s))
}

// xtext  FUNC  h(arg)
func probeXtext(f []string) string {
	arg := string(unhx(f[2]))
	switch f[1] {
	case "decx":
		return okOrErr(smtp.VDecodeXtext(arg))
	case "decu":
		return okOrErr(smtp.VDecodeUTF8AddrXtext(arg))
	case "encx":
		return "ok/" + hx([]byte(smtp.VEncodeXtext(arg)))
	case "encu":
		return "ok/" + hx([]byte(smtp.VEncodeUTF8AddrXtext(arg)))
	case "encn":
		return "ok/" + hx([]byte(smtp.VEncodeUTF8AddrUnitext(arg)))
	case "printable":
		if smtp.VIsPrintableASCII(arg) {
			return "ok/01"
		}
		return "ok/00"
	case "typed":
		t, a, err := smtp.VDecodeTypedAddress(arg)
		if err != nil {
			return "err"
		}
		return "ok/" + hx([]byte(t)) + "/" + hx([]byte(a))
	case "sasl":
		b, err := smtp.VDecodeSASLResponse(arg)
		if err != nil {
			return "err"
		}
		return "ok/" + hx(b)
	}
	return "HARNESS-BAD-FUNC"
}

// parse  FUNC  h(arg)
func probeParse(f []string) string {
	arg := string(unhx(f[2]))
	two := func(v, rest string, err error) string {
		if err != nil {
			return "err"
		}
		return "ok/" + hx([]byte(v)) + "/" + hx([]byte(rest))
	}
	switch f[1] {
	case "cmd":
		c, a, err := smtp.VParseCmd(arg)
		if err != nil {
			return "err"
		}
		return "ok/" + hx([]byte(c)) + "/" + hx([]byte(a))
	case "args":
		m, err := smtp.VParseArgs(arg)
		if err != nil {
			return "err"
		}
		var ks []string
		for k, v := range m {
			ks = append(ks, hx([]byte(k))+"="+hx([]byte(v)))
		}
		sort.Strings(ks)
		return "ok/" + strings.Join(ks, ",")
	case "hello":
		return okOrErr(smtp.VParseHelloArgument(arg))
	case "path":
		return two(smtp.VParsePath(arg))
	case "rpath":
		return two(smtp.VParseReversePath(arg))
	case "mailbox":
		return two(smtp.VParseMailbox(arg))
	case "localpart":
		return two(smtp.VParseLocalPart(arg))
	case "cutfrom":
		r, ok := smtp.VCutPrefixFold(arg, "FROM:")
		if !ok {
			return "err"
		}
		return "ok/" + hx([]byte(r))
	case "validate":
		if smtp.VValidateLine(arg) != nil {
			return "err"
		}
		return "ok/-"
	}
	return "HARNESS-BAD-FUNC"
}

func parseEnh(s string) smtp.EnhancedCode {
	var e smtp.EnhancedCode
	p := strings.Split(s, ".")
	for i := 0; i < 3; i++ {
		e[i] = atoi(p[i])
	}
	return e
}

// reply  resp|err451|errdata  CODE  ENH  h(msg)[,h(msg)...]   ->  h(octets written)
// resp: writeResponse(code, enh, msgs...); err451: writeError(451, 4.0.0, res); errdata: writeResponse(dataErrorToStatus(res))
func probeReply(f []string) string {
	var buf bytes.Buffer
	switch f[1] {
	case "resp":
		var msgs []string
		for _, m := range strings.Split(f[4], ",") {
			msgs = append(msgs, string(unhx(m)))
		}
		smtp.VWriteResponse(&buf, atoi(f[2]), parseEnh(f[3]), msgs...)
	case "err451":
		smtp.VWriteError(&buf, 451, smtp.EnhancedCode{4, 0, 0}, parseRes(f[2]).errNoPanic())
	case "errdata":
		code, enh, msg := smtp.VDataErrorToStatus(parseRes(f[2]).errNoPanic())
		smtp.VWriteResponse(&buf, code, enh, msg)
	}
	return hx(buf.Bytes())
}

func (r bres) errNoPanic() error {
	switch r.kind {
	case "se":
		return &smtp.SMTPError{Code: r.code, EnhancedCode: r.enh, Message: r.msg}
	case "er":
		return errors.New(r.msg)
	}
	return nil
}

func smtpErrString(err error) string {
	if err == nil {
		return "nil"
	}
	if se, ok := err.(*smtp.SMTPError); ok {
		return fmt.Sprintf("se/%d/%d.%d.%d/%s", se.Code, se.EnhancedCode[0], se.EnhancedCode[1], se.EnhancedCode[2], hx([]byte(se.Message)))
	}
	return "other"
}

// tosmtperr  CODE  h(msg)  ->  se/...
func probeToSMTPErr(f []string) string {
	return smtpErrString(smtp.VToSMTPErr(atoi(f[1]), string(unhx(f[2]))))
}

func init() {
	probes["xtext"] = probeXtext
	probes["parse"] = probeParse
	probes["reply"] = probeReply
	probes["tosmtperr"] = probeToSMTPErr
}

// rt  x|u|n  h(s)             -> decode(encode(s)) with the implementation's own codec pair
// rt  err  SITE  RES  EXPECT  -> client-side parse of what the server writes for backend result RES at call
//
//	site SITE (env = writeError(451...), data = dataErrorToStatus)
func probeRT(f []string) string {
	switch f[1] {
	case "x":
		return okOrErr(smtp.VDecodeXtext(smtp.VEncodeXtext(string(unhx(f[2])))))
	case "u":
		return okOrErr(smtp.VDecodeUTF8AddrXtext(smtp.VEncodeUTF8AddrXtext(string(unhx(f[2])))))
	case "n":
		return okOrErr(smtp.VDecodeUTF8AddrXtext(smtp.VEncodeUTF8AddrUnitext(string(unhx(f[2])))))
	case "err":
		var buf bytes.Buffer
		res := parseRes(f[3])
		if f[2] == "env" {
			smtp.VWriteError(&buf, 451, smtp.EnhancedCode{4, 0, 0}, res.errNoPanic())
		} else {
			code, enh, msg := smtp.VDataErrorToStatus(res.errNoPanic())
			smtp.VWriteResponse(&buf, code, enh, msg)
		}
		tr := textproto.NewReader(bufio.NewReader(&buf))
		code, msg, err := tr.ReadResponse(atoi(f[4]))
		if err == nil {
			return fmt.Sprintf("ok/%d/%s", code, hx([]byte(msg)))
		}
		if pe, ok := err.(*textproto.Error); ok {
			return smtpErrString(smtp.VToSMTPErr(pe.Code, pe.Msg))
		}
		return "other"
	}
	return "HARNESS-BAD-FUNC"
}

func init() { probes["rt"] = probeRT }
