package main

import (
	"bytes"
	"context"
	"crypto/tls"
	"errors"
	"fmt"
	"io"
	"net"
	"runtime"
	"strings"
	"sync"
	"sync/atomic"
	"time"

	smtp "github.com/emersion/go-smtp"
)

// ---------------------------------------------------------------------------
// accept: Server.Serve on a scripted listener

type tempErr struct{}

func (tempErr) Error() string   { return "scripted temporary accept error" }
func (tempErr) Timeout() bool   { return false }
func (tempErr) Temporary() bool { return true }

var errPerm = errors.New("scripted permanent accept error")

type slistener struct {
	closeErr bool // Close closes the listener and then reports an error (a unix socket that cannot be unlinked, ...)
	mu       sync.Mutex
	script   []string
	closed   chan struct{}
	once     sync.Once
	asked    int
	conns    []*sconn
	hconns   []*hconn
	askedAll chan struct{}
	onceAll  sync.Once
}

func (l *slistener) Accept() (net.Conn, error) {
	l.mu.Lock()
	if len(l.script) == 0 {
		l.mu.Unlock()
		l.onceAll.Do(func() { close(l.askedAll) })
		<-l.closed
		return nil, net.ErrClosed
	}
	x := l.script[0]
	l.script = l.script[1:]
	l.asked++
	l.mu.Unlock()
	switch x {
	case "conn":
		c := &sconn{log: &evlog{}, end: "eof"}
		l.mu.Lock()
		l.conns = append(l.conns, c)
		l.mu.Unlock()
		return c, nil
	case "tlshang":
		// an implicit-TLS connection whose peer never starts the handshake: it ends only when somebody closes it
		h := &hconn{ch: make(chan struct{})}
		l.mu.Lock()
		l.hconns = append(l.hconns, h)
		l.mu.Unlock()
		scfg, _ := tlsConfigs()
		return tls.Server(h, scfg), nil
	case "temp":
		return nil, tempErr{}
	case "perm":
		return nil, errPerm
	}
	return nil, errPerm
}

// hconn: a connection on which nothing ever arrives
type hconn struct {
	mu     sync.Mutex
	ch     chan struct{}
	closed bool
}

func (h *hconn) Read(b []byte) (int, error) { <-h.ch; return 0, net.ErrClosed }
func (h *hconn) Write(b []byte) (int, error) {
	h.mu.Lock()
	defer h.mu.Unlock()
	if h.closed {
		return 0, net.ErrClosed
	}
	return len(b), nil
}
func (h *hconn) Close() error {
	h.mu.Lock()
	defer h.mu.Unlock()
	if !h.closed {
		h.closed = true
		close(h.ch)
	}
	return nil
}
func (h *hconn) LocalAddr() net.Addr                { return addr{} }
func (h *hconn) RemoteAddr() net.Addr               { return addr{} }
func (h *hconn) SetDeadline(t time.Time) error      { return nil }
func (h *hconn) SetReadDeadline(t time.Time) error  { return nil }
func (h *hconn) SetWriteDeadline(t time.Time) error { return nil }

func (l *slistener) Close() error {
	l.once.Do(func() { close(l.closed) })
	if l.closeErr {
		return errListenerClose
	}
	return nil
}

var errListenerClose = errors.New("listener: close failed")

func (l *slistener) Addr() net.Addr { return addr{} }

type dlog struct {
	mu     sync.Mutex
	delays []string
}

func (d *dlog) Printf(format string, v ...interface{}) {
	if strings.HasPrefix(format, "accept error") && len(v) == 2 {
		d.mu.Lock()
		d.delays = append(d.delays, fmt.Sprint(v[1]))
		d.mu.Unlock()
	}
}
func (d *dlog) Println(v ...interface{}) {}

func errName(err error) string {
	switch {
	case err == nil:
		return "nil"
	case err == smtp.ErrServerClosed:
		return "closed"
	case err == errPerm:
		return "perm"
	case err == errListenerClose:
		return "listenerr"
	case errors.Is(err, context.DeadlineExceeded), errors.Is(err, context.Canceled):
		return "ctx"
	}
	return "other"
}

// accept  OUTCOMES(conn|temp|perm,...)  ENDING(close|shutdown|none),(close|shutdown|none)
//
//	-> serve=..;end1=..;end2=..;accepted=N;delays=a,b,..;left=N
func probeAccept(f []string) string {
	be := &backend{log: &evlog{}, q: map[string][]string{}, dataStarted: make(chan struct{}, 8)}
	srv := smtp.NewServer(be)
	dl := &dlog{}
	srv.ErrorLog = dl
	l := &slistener{closed: make(chan struct{}), askedAll: make(chan struct{})}
	if f[1] != "-" && f[1] != "" {
		l.script = strings.Split(f[1], ",")
	}
	before := runtime.NumGoroutine()
	served := make(chan error, 1)
	go func() { served <- srv.Serve(l) }()
	var serveRes string
	select {
	case <-l.askedAll:
	case err := <-served:
		serveRes = errName(err)
	case <-time.After(8 * time.Second):
		serveRes = "HANG"
	}
	ends := strings.Split(f[2], ",")
	var res []string
	for _, e := range ends {
		switch e {
		case "close":
			res = append(res, errName(srv.Close()))
		case "shutdown":
			ctx, cancel := context.WithTimeout(context.Background(), 3*time.Second)
			res = append(res, errName(srv.Shutdown(ctx)))
			cancel()
		default:
			res = append(res, "-")
		}
	}
	if serveRes == "" {
		select {
		case err := <-served:
			serveRes = errName(err)
		case <-time.After(3 * time.Second):
			serveRes = "HANG"
		}
	}
	// goroutines serving the accepted connections must be gone
	left := 0
	for i := 0; i < 200; i++ {
		left = runtime.NumGoroutine() - before
		if left <= 0 {
			break
		}
		time.Sleep(5 * time.Millisecond)
	}
	if left < 0 {
		left = 0
	}
	l.mu.Lock()
	acc := len(l.conns) + len(l.hconns)
	open := 0
	for _, h := range l.hconns {
		h.mu.Lock()
		if !h.closed {
			open++
		}
		h.mu.Unlock()
		h.Close() // do not leave the goroutine behind for the next case
	}
	for _, c := range l.conns {
		c.mu.Lock()
		if !c.closed {
			open++
		}
		c.mu.Unlock()
	}
	l.mu.Unlock()
	dl.mu.Lock()
	d := strings.Join(dl.delays, ",")
	dl.mu.Unlock()
	return fmt.Sprintf("serve=%s;end1=%s;end2=%s;accepted=%d;open=%d;delays=%s;left=%d", serveRes, res[0], res[1], acc, open, d, left)
}

// accept2  nA:errA  nB:errB  end1,end2 : one server, two listeners with nA / nB idle connections; errX: that listener's
// Close reports an error
func probeAccept2(f []string) string {
	be := &backend{log: &evlog{}, q: map[string][]string{}, dataStarted: make(chan struct{}, 8)}
	srv := smtp.NewServer(be)
	srv.ErrorLog = &dlog{}
	mk := func(spec string) *slistener {
		x := strings.Split(spec, ":")
		l := &slistener{closed: make(chan struct{}), askedAll: make(chan struct{}), closeErr: len(x) > 1 && x[1] == "1"}
		for i := 0; i < atoi(x[0]); i++ {
			l.script = append(l.script, "tlshang") // a connection on which nothing ever arrives: it ends only when closed
		}
		return l
	}
	srv.TLSConfig, _ = tlsConfigs()
	la, lb := mk(f[1]), mk(f[2])
	before := runtime.NumGoroutine()
	sa, sb := make(chan error, 1), make(chan error, 1)
	go func() { sa <- srv.Serve(la) }()
	<-la.askedAll // A is registered (and has handed out its connections) before B
	go func() { sb <- srv.Serve(lb) }()
	<-lb.askedAll
	time.Sleep(5 * time.Millisecond)
	var res []string
	for _, e := range strings.Split(f[3], ",") {
		switch e {
		case "close":
			res = append(res, errName(srv.Close()))
		case "shutdown":
			ctx, cancel := context.WithTimeout(context.Background(), 150*time.Millisecond)
			res = append(res, errName(srv.Shutdown(ctx)))
			cancel()
		default:
			res = append(res, "-")
		}
	}
	wait := func(ch chan error) string {
		select {
		case err := <-ch:
			return errName(err)
		case <-time.After(1500 * time.Millisecond):
			return "HANG"
		}
	}
	ra, rb := wait(sa), wait(sb)
	acc, open := 0, 0
	for _, l := range []*slistener{la, lb} {
		l.mu.Lock()
		acc += len(l.hconns)
		for _, h := range l.hconns {
			h.mu.Lock()
			if !h.closed {
				open++
			}
			h.mu.Unlock()
		}
		l.mu.Unlock()
	}
	// clean up whatever the endings left (a Shutdown that timed out leaves the connections; a hanging Serve its listener)
	for _, l := range []*slistener{la, lb} {
		l.once.Do(func() { close(l.closed) })
		l.mu.Lock()
		for _, h := range l.hconns {
			h.Close()
		}
		l.mu.Unlock()
	}
	left := 0
	for i := 0; i < 300; i++ {
		left = runtime.NumGoroutine() - before
		if left <= 0 {
			break
		}
		time.Sleep(5 * time.Millisecond)
	}
	if left < 0 {
		left = 0
	}
	for len(res) < 2 {
		res = append(res, "-")
	}
	return fmt.Sprintf("serveA=%s;serveB=%s;end1=%s;end2=%s;accepted=%d;open=%d;left=%d", ra, rb, res[0], res[1], acc, open, left)
}

// ---------------------------------------------------------------------------
// sched: a conversation whose Data calls return only when released, with the harness deciding the order

type gate struct{ ch chan struct{} }

var (
	gatesMu sync.Mutex
	gates   map[int]*gate
	gating  bool
)

func gateFor(k int) *gate {
	gatesMu.Lock()
	defer gatesMu.Unlock()
	g := gates[k]
	if g == nil {
		g = &gate{ch: make(chan struct{})}
		gates[k] = g
	}
	return g
}

// sched  CFG  BACKEND  EVENTS(seg:hex | wait:N | rel:K | eof | close | shutdown ; ...)
func probeSched(f []string) string {
	gatesMu.Lock()
	gates = map[int]*gate{}
	gating = true
	gatesMu.Unlock()
	defer func() { gatesMu.Lock(); gating = false; gatesMu.Unlock() }()
	cfg := parseCfg(f[1])
	log := &evlog{}
	be := &backend{log: log, q: map[string][]string{}, dataStarted: make(chan struct{}, 64)}
	for _, part := range strings.Split(f[2], ";") {
		kv := strings.SplitN(part, "=", 2)
		if len(kv) == 2 && kv[1] != "" {
			be.q[kv[0]] = strings.Split(kv[1], "|")
		}
	}
	be.lmtpSess = cfg["lmtpsess"] == "1"
	srv := smtp.NewServer(be)
	srv.Domain = "d"
	srv.LMTP = cfg["lmtp"] == "1"
	srv.MaxMessageBytes = int64(atoi(cfg["maxmsg"]))
	srv.MaxLineLength = atoi(cfg["maxline"])
	srv.ErrorLog = plog{log}
	panicsRaised.Store(0)
	conn := newDuplex(log)
	// `latestart`: the command loop does not wait for a chunked delivery's goroutine to reach the backend (the schedule of an
	// unloaded production server: the goroutine is started and the handler runs on)
	var lateStart atomic.Bool
	// `holddeliver`: the delivery goroutine, having fetched the session, is held until the session has been logged out (the
	// preemption that the known finding C08-late-delivery-after-logout is about, made deterministic)
	var holdDeliver atomic.Bool
	loggedOut := make(chan struct{})
	var loggedOutOnce sync.Once
	be.onLogout = func() { loggedOutOnce.Do(func() { close(loggedOut) }) }
	reached := make(chan struct{})
	var reachedOnce sync.Once
	setVerifPoint(func(name string) {
		if name == "bdat-deliver" && holdDeliver.Load() {
			reachedOnce.Do(func() { close(reached) })
			select {
			case <-loggedOut:
			case <-time.After(1500 * time.Millisecond):
			}
			return
		}
		if name == "bdat-spawned" {
			if holdDeliver.Load() {
				// the command loop goes on as soon as the goroutine holds the session
				select {
				case <-reached:
				case <-time.After(1500 * time.Millisecond):
				}
				return
			}
			if lateStart.Load() {
				return
			}
			select {
			case <-be.dataStarted:
			case <-time.After(5 * time.Second):
				log.add("HANG-SPAWN")
			}
		}
	})
	for _, ev := range strings.Split(f[3], ";") {
		if a := strings.SplitN(ev, ":", 2); a[0] == "closeonread" {
			// Server.Close from another goroutine at the moment the command loop reads the line that contains the marker: between the
			// loop's test for a closed connection and the handler's call into the backend
			srv.Debug = &markWriter{marker: unhx(a[1]), fn: func() {
				done := make(chan struct{})
				go func() { srv.Close(); close(done) }()
				select {
				case <-done:
				case <-time.After(2 * time.Second):
				}
			}}
		}
	}
	before := runtime.NumGoroutine()
	l := &oneShot{c: conn, closed: make(chan struct{})}
	served := make(chan error, 1)
	go func() { served <- srv.Serve(l) }()
	var notes []string
	for _, ev := range strings.Split(f[3], ";") {
		a := strings.SplitN(ev, ":", 2)
		switch a[0] {
		case "seg":
			conn.push(unhx(a[1]))
		case "wait":
			want := atoi(a[1])
			ok := false
			for i := 0; i < 600; i++ {
				if strings.Count(log.peekWritten(), "\n") >= want {
					ok = true
					break
				}
				time.Sleep(5 * time.Millisecond)
			}
			if !ok {
				notes = append(notes, "WAIT-TIMEOUT:"+a[1])
			}
		case "pause":
			time.Sleep(time.Duration(atoi(a[1])) * time.Millisecond)
		case "latestart":
			lateStart.Store(true)
		case "holddeliver":
			holdDeliver.Store(true)
		case "closeonread":
			// set up before Serve started (see above)
		case "slowns":
			be.nsDelayMs.Store(int64(atoi(a[1])))
		case "slowlogout":
			be.logoutDelayMs.Store(int64(atoi(a[1])))
		case "connclose":
			// the application closes the connection itself (Conn.Close is exported), from another goroutine
			if c := be.lastConn.Load(); c != nil {
				go c.Close()
			}
		case "idle":
			ok := false
			for i := 0; i < 600; i++ {
				conn.mu.Lock()
				w := conn.srvWaiting && len(conn.in) == 0
				conn.mu.Unlock()
				if w {
					ok = true
					break
				}
				time.Sleep(2 * time.Millisecond)
			}
			if !ok {
				notes = append(notes, "IDLE-TIMEOUT")
			}
		case "rel":
			g := gateFor(atoi(a[1]))
			close(g.ch)
		case "eof":
			conn.end("eof")
		case "close":
			notes = append(notes, "close="+errName(srv.Close()))
		case "shutdown":
			ctx, cancel := context.WithTimeout(context.Background(), 2*time.Second)
			notes = append(notes, "shutdown="+errName(srv.Shutdown(ctx)))
			cancel()
		}
	}
	// let everything end: release all gates, end the stream, close the server
	gatesMu.Lock()
	gating = false
	for _, g := range gates {
		select {
		case <-g.ch:
		default:
			close(g.ch)
		}
	}
	gatesMu.Unlock()
	conn.end("eof")
	conn.mu.Lock()
	conn.cv.Broadcast()
	conn.mu.Unlock()
	time.Sleep(2 * time.Millisecond)
	ctx, cancel := context.WithTimeout(context.Background(), 3*time.Second)
	srv.Shutdown(ctx)
	cancel()
	select {
	case <-served:
	case <-time.After(3 * time.Second):
		notes = append(notes, "SERVE-HANG")
	}
	wd := make(chan struct{})
	go func() { be.wg.Wait(); close(wd) }()
	select {
	case <-wd:
	case <-time.After(3 * time.Second):
		notes = append(notes, "DATA-HANG")
	}
	for i := 0; i < 2000 && int64(strings.Count(log.String(), "PANIC")) < panicsRaised.Load(); i++ {
		time.Sleep(time.Millisecond)
	}
	setVerifPoint(nil)
	left := 0
	for i := 0; i < 300; i++ {
		left = runtime.NumGoroutine() - before
		if left <= 0 {
			break
		}
		time.Sleep(5 * time.Millisecond)
	}
	if left < 0 {
		left = 0
	}
	be.mu.Lock()
	d := append([]string(nil), be.drecs...)
	be.mu.Unlock()
	sortStrings(d)
	return log.String() + "\t" + strings.Join(d, ";") + "\tLEFT=" + itoa(left) + ";" + strings.Join(notes, ";")
}

type oneShot struct {
	c      net.Conn
	mu     sync.Mutex
	used   bool
	closed chan struct{}
	once   sync.Once
}

func (l *oneShot) Accept() (net.Conn, error) {
	l.mu.Lock()
	if !l.used {
		l.used = true
		l.mu.Unlock()
		return l.c, nil
	}
	l.mu.Unlock()
	<-l.closed
	return nil, net.ErrClosed
}
func (l *oneShot) Close() error   { l.once.Do(func() { close(l.closed) }); return nil }
func (l *oneShot) Addr() net.Addr { return addr{} }

var _ = io.EOF

func init() {
	probes["accept"] = probeAccept
	probes["accept2"] = probeAccept2
	probes["sched"] = probeSched
}

// markWriter is a Server.Debug writer that runs fn once, when the octets written to it contain marker
type markWriter struct {
	marker []byte
	fn     func()
	seen   []byte
	done   bool
}

func (m *markWriter) Write(p []byte) (int, error) {
	if !m.done {
		m.seen = append(m.seen, p...)
		if bytes.Contains(m.seen, m.marker) {
			m.done = true
			m.fn()
		}
	}
	return len(p), nil
}
