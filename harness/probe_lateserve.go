package main

import (
	"context"
	"fmt"
	"net"
	"sync"
	"time"

	smtp "github.com/emersion/go-smtp"
)

type idleListener struct {
	closed chan struct{}
	once   sync.Once
}

func (l *idleListener) Accept() (net.Conn, error) { <-l.closed; return nil, net.ErrClosed }
func (l *idleListener) Close() error             { l.once.Do(func() { close(l.closed) }); return nil }
func (l *idleListener) Addr() net.Addr           { return &net.TCPAddr{} }

// lateserve  ENDING(close|shutdown)  ORDER(after|race)
//
// Serve is called on a server that has been closed (after), or at the same moment as it is being closed (race): in either case
// Serve must return and the listener it was given must end up closed — nothing else would ever close it.
func probeLateServe(f []string) string {
	srv := smtp.NewServer(&backend{log: &evlog{}, q: map[string][]string{}, dataStarted: make(chan struct{}, 1)})
	l := &idleListener{closed: make(chan struct{})}
	end := func() {
		if f[1] == "shutdown" {
			ctx, cancel := context.WithTimeout(context.Background(), time.Second)
			srv.Shutdown(ctx)
			cancel()
		} else {
			srv.Close()
		}
	}
	ret := make(chan error, 1)
	if f[2] == "after" {
		end()
		go func() { ret <- srv.Serve(l) }()
	} else {
		go func() { ret <- srv.Serve(l) }()
		end()
	}
	returned := 0
	select {
	case <-ret:
		returned = 1
	case <-time.After(1500 * time.Millisecond):
	}
	lclosed := 0
	select {
	case <-l.closed:
		lclosed = 1
	default:
	}
	l.Close() // do not leave the goroutine behind
	return fmt.Sprintf("returned=%d;lclosed=%d", returned, lclosed)
}

func init() { probes["lateserve"] = probeLateServe }
