package main

import (
	"context"
	"fmt"
	"net"
	"sync"
	"time"

	smtp "github.com/emersion/go-smtp"
)

type idleListener struct {
	closed chan struct{}
	once   sync.Once
}

func (l *idleListener) Accept() (net.Conn, error) { <-l.closed; return nil, net.ErrClosed }
func (l *idleListener) Close() error              { l.once.Do(func() { close(l.closed) }); return nil }
func (l *idleListener) Addr() net.Addr            { return &net.TCPAddr{} }

// lateserve  ENDING(close|shutdown)  ORDER(after|race)
//
// Serve is called on a server that has been closed (after), or at the same moment as it is being closed (race): in either case
// Serve must return and the listener it was given must end up closed — nothing else would ever close it.
func probeLateServe(f []string) string {
	be := &backend{log: &evlog{}, q: map[string][]string{}, dataStarted: make(chan struct{}, 1)}
	srv := smtp.NewServer(be)
	if f[2] == "fromlogout" {
		return probeEndFromLogout(srv, be, f[1])
	}
	l := &idleListener{closed: make(chan struct{})}
	end := func() {
		if f[1] == "shutdown" {
			ctx, cancel := context.WithTimeout(context.Background(), time.Second)
			srv.Shutdown(ctx)
			cancel()
		} else {
			srv.Close()
		}
	}
	ret := make(chan error, 1)
	if f[2] == "after" {
		end()
		go func() { ret <- srv.Serve(l) }()
	} else {
		go func() { ret <- srv.Serve(l) }()
		end()
	}
	returned := 0
	select {
	case <-ret:
		returned = 1
	case <-time.After(1500 * time.Millisecond):
	}
	lclosed := 0
	select {
	case <-l.closed:
		lclosed = 1
	default:
	}
	l.Close() // do not leave the goroutine behind
	return fmt.Sprintf("returned=%d;lclosed=%d", returned, lclosed)
}

// ORDER = fromlogout: one greeted connection; the server is ended (ENDING) and the backend's Logout — called by that very Close, or by
// the connection's own end during a Shutdown — ends the server once more.  The inner call must report "closed" and both must return.
func probeEndFromLogout(srv *smtp.Server, be *backend, ending string) string {
	l, err := net.Listen("tcp", "127.0.0.1:0")
	if err != nil {
		return "listen-failed"
	}
	inner := make(chan error, 4)
	be.onLogout = func() { inner <- srv.Close() }
	ret := make(chan error, 1)
	go func() { ret <- srv.Serve(l) }()
	c, err := net.Dial("tcp", l.Addr().String())
	if err != nil {
		return "dial-failed"
	}
	defer c.Close()
	c.SetDeadline(time.Now().Add(3 * time.Second))
	buf := make([]byte, 512)
	c.Read(buf)
	c.Write([]byte("HELO x\r\n"))
	c.Read(buf)
	outer := make(chan struct{})
	if ending == "quit" {
		// the connection ends by itself and its Logout is the first to end the server: that Close returns nil, Serve returns
		c.Write([]byte("QUIT\r\n"))
		c.Read(buf)
		select {
		case e := <-inner:
			if e != nil {
				return "returned=0;lclosed=0;inner=" + e.Error()
			}
		case <-time.After(1500 * time.Millisecond):
			return "returned=0;lclosed=0"
		}
		select {
		case <-ret:
			return "returned=1;lclosed=1"
		case <-time.After(1500 * time.Millisecond):
			return "returned=0;lclosed=1"
		}
	}
	go func() {
		if ending == "shutdown" {
			ctx, cancel := context.WithTimeout(context.Background(), 500*time.Millisecond)
			srv.Shutdown(ctx)
			cancel()
			c.Close() // the connection ends: its Logout runs now
		} else {
			srv.Close()
		}
		close(outer)
	}()
	returned, lclosed := 0, 0
	select {
	case <-outer:
		select {
		case e := <-inner:
			if e == smtp.ErrServerClosed {
				returned, lclosed = 1, 1
			}
		case <-time.After(1500 * time.Millisecond):
		}
	case <-time.After(2500 * time.Millisecond):
	}
	return fmt.Sprintf("returned=%d;lclosed=%d", returned, lclosed)
}

func init() { probes["lateserve"] = probeLateServe }
