module vharness

go 1.21

require (
	github.com/emersion/go-sasl v0.0.0-20241020182733-b788ff22d5a6
	github.com/emersion/go-smtp v0.0.0
)

replace github.com/emersion/go-smtp => /repo
