package main

import (
	"bufio"
	"errors"
	"io"
	"strings"

	smtp "github.com/emersion/go-smtp"
)

// segReader delivers a byte string in the given segment sizes, one segment per Read
// (a shorter Read buffer splits the segment), then fails with endErr.
type segReader struct {
	data   []byte
	segs   []int
	endErr error
}

var errSrc = errors.New("scripted source error")

func (s *segReader) Read(b []byte) (int, error) {
	if len(s.data) == 0 {
		return 0, s.endErr
	}
	n := len(s.data)
	if len(s.segs) > 0 {
		if s.segs[0] < n {
			n = s.segs[0]
		}
	}
	if n > len(b) {
		n = len(b)
	}
	copy(b, s.data[:n])
	s.data = s.data[n:]
	if len(s.segs) > 0 {
		s.segs[0] -= n
		if s.segs[0] <= 0 {
			s.segs = s.segs[1:]
		}
	}
	return n, nil
}

func resName(err error, endErr error) string {
	switch {
	case err == nil:
		return "more"
	case err == io.EOF:
		return "eof"
	case err == io.ErrUnexpectedEOF:
		return "ueof"
	case err == smtp.ErrDataTooLarge:
		return "toolarge"
	case err == errSrc:
		return "src"
	}
	return "other:" + strings.ReplaceAll(err.Error(), "\t", " ")
}

// dr  LIMIT|-  STATE0  h(stream)  SEGS|-  SIZES  eof|err
//
//	-> h(out)/RES,...  h(rest)  STATEf  Nf|-
func probeDR(f []string) string {
	limited := f[1] != "-"
	var n int64
	if limited {
		n = int64(atoi(f[1]))
	}
	state := atoi(f[2])
	stream := unhx(f[3])
	segs := ints(f[4])
	sizes := ints(f[5])
	endErr := io.EOF
	if f[6] == "err" {
		endErr = errSrc
	}
	src := &segReader{data: append([]byte(nil), stream...), segs: segs, endErr: endErr}
	br := bufio.NewReader(src)
	dr := smtp.VNewDataReader(br, state, limited, n)
	var parts []string
	again := "-"
	for _, k := range sizes {
		buf := make([]byte, k)
		m, err := dr.Read(buf)
		parts = append(parts, hx(buf[:m])+"/"+resName(err, endErr))
		if err == io.EOF {
			// a backend that reads once more after the end of the message (a bufio wrapper, a second ReadAll): still end-of-file
			buf := make([]byte, 4)
			m, err := dr.Read(buf)
			again = itoa(m) + "/" + resName(err, endErr)
		}
		if err != nil {
			break
		}
	}
	rest, _ := io.ReadAll(br)
	nf := "-"
	if dr.Limited() {
		nf = itoa(int(dr.N()))
	}
	return strings.Join(parts, ",") + "\t" + hx(rest) + "\t" + itoa(dr.State()) + "\t" + nf + "\tagain=" + again
}

func init() { probes["dr"] = probeDR }
