package main

import (
	"crypto/ecdsa"
	"crypto/elliptic"
	"crypto/rand"
	"crypto/tls"
	"crypto/x509"
	"crypto/x509/pkix"
	"io"
	"math/big"
	"net"
	"sync"
	"time"
)

var (
	tlsOnce   sync.Once
	tlsServer *tls.Config
	tlsClient *tls.Config
)

func tlsConfigs() (*tls.Config, *tls.Config) {
	tlsOnce.Do(func() {
		key, err := ecdsa.GenerateKey(elliptic.P256(), rand.Reader)
		if err != nil {
			panic(err)
		}
		tmpl := &x509.Certificate{SerialNumber: big.NewInt(1), Subject: pkix.Name{CommonName: "d"},
			NotBefore: time.Now().Add(-time.Hour), NotAfter: time.Now().Add(24 * time.Hour),
			DNSNames: []string{"d"}, KeyUsage: x509.KeyUsageDigitalSignature, ExtKeyUsage: []x509.ExtKeyUsage{x509.ExtKeyUsageServerAuth}}
		der, err := x509.CreateCertificate(rand.Reader, tmpl, tmpl, &key.PublicKey, key)
		if err != nil {
			panic(err)
		}
		cert := tls.Certificate{Certificate: [][]byte{der}, PrivateKey: key}
		tlsServer = &tls.Config{Certificates: []tls.Certificate{cert}}
		tlsClient = &tls.Config{InsecureSkipVerify: true, ServerName: "d"}
	})
	return tlsServer, tlsClient
}

// duplex is an in-memory connection between the code under test (server side, `duplex` itself
// is its net.Conn) and a scripted peer (`duplex.peer()`).
//
// peer -> server: a queue of chunks; one Read returns (part of) one chunk, never more — so the
// segmentation of the script is what the server's Read calls see.
// server -> peer: while `plain` is true the octets are logged as written; once the peer runs TLS
// they are handed to the peer, and Write returns only when the peer has consumed them and is
// waiting for more — so whatever the peer decrypts is logged before the server goes on.
type duplex struct {
	log *evlog
	mu  sync.Mutex
	cv  *sync.Cond

	in         [][]byte // peer -> server chunks
	inEnd      string   // "", "eof", "timeout": what Read returns once `in` is empty
	closed     bool     // server closed its side
	wac        int
	plain      bool
	out        []byte // server -> peer, not yet read by the peer
	srvWaiting bool   // the server is blocked in Read with nothing to read
	peerWait   bool   // the peer is blocked in Read with nothing to read
	peerDone   bool   // the peer will not read any more
	onIdle     func() // called (once) when the server blocks in Read with an empty queue
	async      bool   // server -> peer writes are only queued (a live peer reads them when it wants)
	expired    bool   // a Read has hit the timeout marker: the deadline is over until it is set again
}

func newDuplex(log *evlog) *duplex {
	d := &duplex{log: log, plain: true}
	d.cv = sync.NewCond(&d.mu)
	return d
}

func (d *duplex) Read(b []byte) (int, error) {
	d.mu.Lock()
	defer d.mu.Unlock()
	for {
		if d.closed {
			return 0, net.ErrClosed
		}
		if len(b) == 0 {
			return 0, nil
		}
		if len(d.in) > 0 && len(d.in[0]) == 0 {
			// the timeout marker "TO": the read deadline expires here; reads fail until the deadline is set again
			// (SetReadDeadline removes the marker), after which the rest of the script arrives
			d.expired = true
			return 0, timeoutErr{}
		}
		if len(d.in) > 0 {
			d.srvWaiting = false
			n := copy(b, d.in[0])
			if n == len(d.in[0]) {
				d.in = d.in[1:]
				if len(d.in) == 0 && d.inEnd == "eof+" {
					// the last octets arrive together with the end of the stream in one Read (as crypto/tls does when a
					// close_notify alert follows the last record)
					d.inEnd = "eof"
					return n, io.EOF
				}
			} else {
				d.in[0] = d.in[0][n:]
			}
			return n, nil
		}
		switch d.inEnd {
		case "eof", "eof+":
			return 0, io.EOF
		case "timeout":
			return 0, timeoutErr{}
		}
		if d.onIdle != nil {
			f := d.onIdle
			d.onIdle = nil
			d.mu.Unlock()
			f()
			d.mu.Lock()
			continue
		}
		d.srvWaiting = true
		d.cv.Wait()
	}
}

func (d *duplex) Write(b []byte) (int, error) {
	d.mu.Lock()
	if d.closed {
		d.wac++
		d.mu.Unlock()
		return 0, net.ErrClosed
	}
	if d.plain {
		d.mu.Unlock()
		if len(b) > 0 && b[0] == 0x15 && len(b) <= 8 {
			// a TLS alert record written by crypto/tls when a handshake fails: TLS itself is abstracted in the model, the
			// record is not part of the SMTP reply stream
			return len(b), nil
		}
		d.log.write(b)
		return len(b), nil
	}
	d.out = append(d.out, b...)
	d.cv.Broadcast()
	if d.async {
		d.mu.Unlock()
		return len(b), nil
	}
	deadline := time.Now().Add(5 * time.Second)
	for !(len(d.out) == 0 && d.peerWait) && !d.peerDone && !d.closed {
		if time.Now().After(deadline) {
			break
		}
		waitTimeout(d.cv, 50*time.Millisecond)
	}
	d.mu.Unlock()
	return len(b), nil
}

func waitTimeout(cv *sync.Cond, t time.Duration) {
	timer := time.AfterFunc(t, func() { cv.L.Lock(); cv.Broadcast(); cv.L.Unlock() })
	cv.Wait()
	timer.Stop()
}

func (d *duplex) Close() error {
	d.mu.Lock()
	was := d.closed
	d.closed = true
	d.cv.Broadcast()
	d.mu.Unlock()
	if !was {
		d.log.add("CLOSE")
	}
	return nil
}
func (d *duplex) LocalAddr() net.Addr                { return addr{} }
func (d *duplex) RemoteAddr() net.Addr               { return addr{} }
func (d *duplex) SetDeadline(t time.Time) error      { return d.SetReadDeadline(t) }
func (d *duplex) SetWriteDeadline(t time.Time) error { return nil }
func (d *duplex) SetReadDeadline(t time.Time) error {
	d.mu.Lock()
	defer d.mu.Unlock()
	if d.closed {
		return net.ErrClosed
	}
	if d.expired && !t.IsZero() && len(d.in) > 0 && len(d.in[0]) == 0 {
		// a new deadline: the connection is usable again, what the peer sends next will be read
		d.expired = false
		d.in = d.in[1:]
	}
	return nil
}

func (d *duplex) push(b []byte) {
	d.mu.Lock()
	d.in = append(d.in, append([]byte(nil), b...))
	d.cv.Broadcast()
	d.mu.Unlock()
}
func (d *duplex) end(kind string) {
	d.mu.Lock()
	d.inEnd = kind
	d.cv.Broadcast()
	d.mu.Unlock()
}

// the scripted peer's end
type peerConn struct{ d *duplex }

func (p peerConn) Read(b []byte) (int, error) {
	d := p.d
	d.mu.Lock()
	defer d.mu.Unlock()
	deadline := time.Now().Add(6 * time.Second)
	for len(d.out) == 0 {
		if d.closed {
			return 0, io.EOF
		}
		if d.async && time.Now().After(deadline) {
			return 0, timeoutErr{}
		}
		d.peerWait = true
		d.cv.Broadcast()
		if d.async {
			waitTimeout(d.cv, 200*time.Millisecond)
		} else {
			d.cv.Wait()
		}
	}
	d.peerWait = false
	n := copy(b, d.out)
	d.out = d.out[n:]
	return n, nil
}
func (p peerConn) Write(b []byte) (int, error) {
	p.d.mu.Lock()
	closed := p.d.closed
	p.d.mu.Unlock()
	if closed {
		return 0, net.ErrClosed
	}
	p.d.push(b)
	return len(b), nil
}
func (p peerConn) Close() error                       { return nil }
func (p peerConn) LocalAddr() net.Addr                { return addr{} }
func (p peerConn) RemoteAddr() net.Addr               { return addr{} }
func (p peerConn) SetDeadline(t time.Time) error      { return nil }
func (p peerConn) SetReadDeadline(t time.Time) error  { return nil }
func (p peerConn) SetWriteDeadline(t time.Time) error { return nil }

func (d *duplex) peerFinished() {
	d.mu.Lock()
	d.peerDone = true
	d.cv.Broadcast()
	d.mu.Unlock()
}

// runTLSPeer performs the client side of TLS over the duplex, sends the scripted segments inside it
// (one Write, hence one record, hence one server-side Read per segment), logs what the server sends
// inside TLS, and finally ends the stream as scripted.
func runTLSPeer(d *duplex, segs [][]byte, end string, done chan<- struct{}) {
	defer close(done)
	defer d.peerFinished()
	_, ccfg := tlsConfigs()
	d.mu.Lock()
	d.plain = false
	d.mu.Unlock()
	tc := tls.Client(peerConn{d}, ccfg)
	if err := tc.Handshake(); err != nil {
		d.log.add("PEER-HANDSHAKE-FAILED")
		d.end("eof")
		return
	}
	rd := make(chan struct{})
	go func() {
		defer close(rd)
		buf := make([]byte, 65536)
		for {
			n, err := tc.Read(buf)
			if n > 0 {
				d.log.write(buf[:n])
			}
			if err != nil {
				return
			}
		}
	}()
	for _, s := range segs {
		if _, err := tc.Write(s); err != nil {
			break
		}
	}
	if end == "timeout" {
		d.end("timeout")
	} else {
		tc.CloseWrite()
	}
	<-rd
}
