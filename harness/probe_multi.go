package main

import (
	"fmt"
	"strings"
	"sync"
	"time"

	smtp "github.com/emersion/go-smtp"
)

// multi  CFG  N  SEGS(hex,hex,...)
//
// One server, N plaintext connections served at the same time, each fed the same segments and then the end of the stream.  The
// backend accepts everything.  The answer is one line of replies per connection; it is the race detector that judges this probe
// (state shared between the connections of a server), and the orchestrator checks that every connection got the same answer.
func probeMulti(f []string) string {
	cfg := parseCfg(f[1])
	n := atoi(f[2])
	log := &evlog{}
	be := &backend{log: log, q: map[string][]string{}, dataStarted: make(chan struct{}, 1024)}
	be.lmtpSess = cfg["lmtpsess"] == "1"
	be.authSess = cfg["authsess"] == "1"
	if cfg["mechs"] != "" && cfg["mechs"] != "-" {
		for _, m := range strings.Split(cfg["mechs"], ":") {
			be.mechs = append(be.mechs, string(unhx(m)))
		}
	}
	srv := smtp.NewServer(be)
	srv.Domain = "d"
	srv.LMTP = cfg["lmtp"] == "1"
	srv.MaxRecipients = atoi(cfg["maxrcpt"])
	srv.MaxMessageBytes = int64(atoi(cfg["maxmsg"]))
	srv.MaxLineLength = atoi(cfg["maxline"])
	srv.AllowInsecureAuth = cfg["insecure"] == "1"
	srv.EnableSMTPUTF8 = cfg["utf8"] == "1"
	srv.EnableREQUIRETLS = cfg["reqtls"] == "1"
	srv.EnableBINARYMIME = cfg["binmime"] == "1"
	srv.EnableDSN = cfg["dsn"] == "1"
	srv.EnableRRVS = cfg["rrvs"] == "1"
	if cfg["tls"] == "avail" {
		scfg, _ := tlsConfigs()
		srv.TLSConfig = scfg
	}
	srv.ErrorLog = plog{log}
	var segs [][]byte
	if f[3] != "" && f[3] != "-" {
		for _, s := range strings.Split(f[3], ",") {
			segs = append(segs, unhx(s))
		}
	}
	logs := make([]*evlog, n)
	var wg sync.WaitGroup
	start := make(chan struct{})
	for i := 0; i < n; i++ {
		logs[i] = &evlog{}
		conn := newDuplex(logs[i])
		for _, s := range segs {
			conn.in = append(conn.in, append([]byte(nil), s...))
		}
		conn.inEnd = "eof"
		wg.Add(1)
		go func() {
			defer wg.Done()
			defer func() {
				if p := recover(); p != nil {
					log.add("ESCAPED-PANIC:" + hx([]byte(fmt.Sprint(p))))
				}
			}()
			<-start
			srv.VHandleConn(conn)
		}()
	}
	close(start)
	done := make(chan struct{})
	go func() { wg.Wait(); close(done) }()
	hang := ""
	select {
	case <-done:
	case <-time.After(10 * time.Second):
		hang = "HANG;"
	}
	be.wg.Wait()
	var out []string
	for _, l := range logs {
		out = append(out, l.peekWritten())
	}
	same := "same"
	for _, o := range out {
		if o != out[0] {
			same = "DIFFERENT"
		}
	}
	return hang + same + "\t" + hx([]byte(out[0]))
}

func init() { probes["multi"] = probeMulti }
