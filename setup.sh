#!/bin/sh
# Build everything offline from files on disk: the Lean library (model, specs, proofs),
# the native line-protocol driver, and the Go harness against /repo's working tree.
set -e
cd "$(dirname "$0")"
export GOFLAGS=-mod=mod GOPROXY=off GOSUMDB=off GOTOOLCHAIN=local
(cd lean && lake build SmtpV smtpv 2>&1 | tail -3)
mkdir -p build
cp /repo/go.sum harness/go.sum 2>/dev/null || true
(cd harness && go build -tags verif -o ../build/vharness . )
echo setup ok
