"""Case builder for the `cconv` probe (real smtp.Client against a scripted peer)."""
from vlib.gen import hx

GREET = b"220 peer ESMTP\r\n"


def ehlo(exts, first=b"peer hello"):
    lines = [first] + list(exts)
    return b"".join(b"250" + (b"-" if i < len(lines) - 1 else b" ") + l + b"\r\n" for i, l in enumerate(lines))


def mailopts(o):
    if o is None:
        return "-"
    return "body=%s,size=%d,reqtls=%d,utf8=%d,ret=%s,envid=%s,auth=%s" % (
        hx(o.get("body", b"")), o.get("size", 0), int(o.get("reqtls", 0)), int(o.get("utf8", 0)), hx(o.get("ret", b"")),
        hx(o.get("envid", b"")), "nil" if o.get("auth") is None else hx(o["auth"]))


def rcptopts(o):
    if o is None:
        return "-"
    return "notify=%s,orcpttype=%s,orcpt=%s,rrvs=%s" % (
        "+".join(hx(n) for n in o.get("notify", [])), hx(o.get("orcpttype", b"")), hx(o.get("orcpt", b"")),
        "nil" if o.get("rrvs") is None else (str(o["rrvs"]) + ("@%d" % o["rrvszone"] if o.get("rrvszone") else "")))


class CC:
    def __init__(self, lmtp=False, exts=(b"8BITMIME", b"SIZE 1000"), greet=GREET, hello=None):
        self.lmtp = lmtp
        self.peer = [greet, ehlo(exts) if hello is None else hello]
        self.calls = []

    def reply(self, *chunks):
        self.peer.extend(chunks)
        return self

    def call(self, *parts):
        self.calls.append("/".join(parts))
        return self

    def mail(self, frm, o=None, reply=b"250 2.0.0 ok\r\n"):
        self.peer.append(reply); return self.call("mail", hx(frm), mailopts(o))

    def rcpt(self, to, o=None, reply=b"250 2.0.0 ok\r\n"):
        self.peer.append(reply); return self.call("rcpt", hx(to), rcptopts(o))

    def data(self, parts, final, lmtp_cb=None, closes=1, go=b"354 go ahead\r\n"):
        self.peer.append(go)
        self.call("lmtpdata" if lmtp_cb else "data")
        for p in parts:
            self.call("write", hx(p))
        self.peer.append(final)
        for _ in range(closes):
            self.call("close")
        return self

    def case(self):
        return "\t".join(["cconv", "lmtp" if self.lmtp else "smtp",
                          ",".join("EOF" if p == "EOF" else hx(p) for p in self.peer), ";".join(self.calls)])
