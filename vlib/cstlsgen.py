"""Cases for the `cstls` probe: NewClientStartTLS / package-level SendMail against scripted, possibly misbehaving servers."""
from vlib.gen import hx
from vlib.cgen import ehlo, mailopts, rcptopts

G = b"220 peer ESMTP\r\n"
OK = b"250 2.0.0 ok\r\n"
BYE = b"221 2.0.0 bye\r\n"


def ch(chunks):
    return ",".join("EOF" if c == "EOF" else hx(c) for c in chunks) or "-"


def case(mode, plain, inner, arg):
    return "\t".join(["cstls", mode, ch(plain), "-" if inner is None else "+" + ch(inner), arg or "-"])


PLAIN_EXT = [[b"STARTTLS"], [b"STARTTLS", b"AUTH PLAIN LOGIN", b"DSN", b"SIZE 1000"], [b"SIZE 1000", b"AUTH PLAIN"], [],
             [b"starttls"], [b"STARTTLS", b"SMTPUTF8", b"REQUIRETLS"]]
STLS_REPLY = [b"220 2.0.0 go ahead\r\n", b"220-ready\r\n220 go\r\n", b"454 4.7.0 TLS not available\r\n", b"501 5.5.1 no\r\n",
              b"421 4.3.0 bye\r\n", "EOF", b"250 2.0.0 not a 220\r\n"]
INJECT = [b"", b"250 2.0.0 injected\r\n", b"250-peer hello\r\n250-AUTH PLAIN LOGIN\r\n250 DSN\r\n", b"235 2.7.0 authenticated\r\n",
          b"250 ok\r\n250 ok\r\n354 go\r\n250 queued\r\n"]
GARBAGE = [b"250 what\r\n", b"\x15\x03\x01\x00\x02\x02\x28", b"HTTP/1.1 400 Bad Request\r\n\r\n", "EOF", None]
INNER_EHLO = [ehlo([b"SIZE 500"]), ehlo([b"AUTH PLAIN", b"DSN", b"SMTPUTF8"]), ehlo([]), b"502 5.5.1 no EHLO here\r\n", b"500 5.5.2 what\r\n",
              b"550 5.0.0 go away\r\n", "EOF"]


def calls_for(rng):
    o = dict(size=7, ret=b"HDRS", envid=b"e1", auth=b"u@d")
    pool = [
        ["ext/" + hx(b"AUTH"), "ext/" + hx(b"DSN"), "ext/" + hx(b"STARTTLS"), "ext/" + hx(b"SIZE")],
        ["mail/%s/%s" % (hx(b"s@x"), mailopts(o)), "rcpt/%s/%s" % (hx(b"r@x"), rcptopts(dict(notify=[b"NEVER"]))), "quit"],
        ["noop", "mail/%s/-" % hx(b"s@x"), "rcpt/%s/-" % hx(b"r@x"), "data", "write/" + hx(b"hi\r\n.dot\r\n"), "close", "quit"],
        ["auth/%s/%s/" % (hx(b"PLAIN"), hx(b"\x00u\x00p")), "mail/%s/-" % hx(b"s@x"), "quit"],
        ["mail/%s/%s" % (hx(b"s@x"), mailopts(dict(utf8=1))), "noop"],
        ["noop"],
    ]
    return rng.choice(pool)


def replies_for(calls, inner_ehlo, rng):
    """inner script: the EHLO reply (and HELO reply if EHLO is refused), then one reply per command line the calls write"""
    out = [inner_ehlo]
    if inner_ehlo != "EOF" and inner_ehlo[:3] in (b"502", b"500"):
        out.append(rng.choice([b"250 peer\r\n", b"550 5.0.0 no\r\n"]))
    for c in calls:
        k = c.split("/")[0]
        if k in ("ext", "write"):
            continue
        if k == "data":
            out.append(rng.choice([b"354 go\r\n", b"354 go\r\n", b"554 5.5.1 no data\r\n"]))
        elif k == "auth":
            out.append(rng.choice([b"235 2.7.0 ok\r\n", b"535 5.7.8 bad\r\n"]))
            out.append(b"501 5.5.2 cancelled\r\n")
        elif k == "quit":
            out.append(BYE)
        else:
            out.append(rng.choice([OK, OK, OK, b"550 5.1.1 refused\r\n", b"451 4.3.0 later\r\n"]))
    out += [OK, OK, BYE]
    return out


def new_cases(tier, rng):
    cases = []
    n = 1 if tier == "quick" else 6
    for ext in PLAIN_EXT:
        for sr in STLS_REPLY:
            for inj in INJECT:
                if sr == "EOF" and inj:
                    continue
                for _ in range(n * (3 if sr != "EOF" and sr[:3] == b"220" and b"STARTTLS" in ext else 1)):
                    plain = [G, ehlo(ext)] + (["EOF"] if sr == "EOF" else [sr + inj])
                    calls = calls_for(rng)
                    speaks_tls = rng.random() < 0.7
                    if speaks_tls:
                        inner = replies_for(calls, rng.choice(INNER_EHLO), rng)
                    else:
                        inner = None
                        g_ = rng.choice(GARBAGE)
                        if g_ is not None:
                            plain.append(g_)
                    cases.append(case("new", plain, inner, ";".join(calls)))
    # greeting and EHLO trouble before STARTTLS is even tried
    for plain in ([b"554 5.0.0 no service\r\n"], [G, b"502 5.5.1 no EHLO\r\n", b"250 peer\r\n"], [G, b"550 5.0.0 no\r\n"], [G, "EOF"], ["EOF"],
                  [G, b"421 4.0.0 busy\r\n"], [b"220-multi\r\n220 line greeting\r\n", ehlo([b"STARTTLS"]), b"220 go\r\n"]):
        for speaks in (True, False):
            calls = ["noop", "mail/%s/-" % hx(b"s@x")]
            cases.append(case("new", plain, replies_for(calls, ehlo([]), rng) if speaks else None, ";".join(calls)))
    return cases


def sendmail_cases(tier, rng):
    cases = []
    bodies = [b"hello\r\n", b"", b".dot\r\nline\n.\r\nMAIL FROM:<bait@x>\r\n"]
    froms = [b"s@x.org", b"", b"bad\r\nRCPT TO:<evil@x>", b"a\nb"]
    tos = [[b"r@x.org"], [b"r1@x", b"r2@x"], [b"r\r\nDATA"], []]
    n = 200 if tier == "quick" else 3000
    for _ in range(n):
        auth = rng.random() < 0.5
        frm = froms[0] if rng.random() < 0.8 else rng.choice(froms)
        to = tos[0] if rng.random() < 0.6 else rng.choice(tos)
        body = rng.choice(bodies)
        kind = rng.choice(["ok", "ok", "ok", "nostarttls", "454", "garbage", "eof220"])
        ext = [b"STARTTLS"] + ([b"AUTH PLAIN"] if rng.random() < 0.5 else [])      # plaintext AUTH offer must not be trusted
        inner = None
        if kind == "nostarttls":
            plain = [G, ehlo([b"AUTH PLAIN", b"SIZE 10"]), OK, OK, OK, b"354 go\r\n", OK, BYE]
        elif kind == "454":
            plain = [G, ehlo(ext), b"454 4.7.0 no TLS now\r\n", b"235 ok\r\n", OK, OK, b"354 go\r\n", OK, BYE]
        elif kind == "garbage":
            plain = [G, ehlo(ext), b"220 go\r\n", rng.choice([b"250 plaintext continues\r\n", b"\x15\x03\x01\x00\x02\x02\x28", "EOF"])]
        elif kind == "eof220":
            plain = [G, ehlo(ext), "EOF"]
        else:
            plain = [G, ehlo(ext), b"220 go\r\n"]
            iext = [b"AUTH PLAIN"] if rng.random() < 0.7 else [b"AUTH LOGIN"] if rng.random() < 0.5 else []
            inner = [ehlo(iext)]
            if auth and iext == [b"AUTH PLAIN"]:
                a = rng.choice([b"235 2.7.0 ok\r\n", b"235 2.7.0 ok\r\n", b"535 5.7.8 bad\r\n"])
                inner.append(a)
                if a[:3] != b"235":
                    inner.append(b"501 5.5.2 cancelled\r\n")
            pick = lambda: rng.choice([OK, OK, OK, OK, b"550 5.1.1 no\r\n"])
            inner.append(pick())
            for _t in to:
                inner.append(pick())
            inner.append(rng.choice([b"354 go\r\n", b"354 go\r\n", b"554 5.5.1 no\r\n"]))
            inner.append(rng.choice([OK, b"554 5.6.0 rejected\r\n"]))
            inner += [BYE, OK, OK]
        arg = "%d/%s/%s/%s" % (auth, hx(frm), "+".join(hx(t) for t in to), hx(body))
        cases.append(case("sendmail", plain, inner, arg))
    return cases
