"""C15 — the client writes one command line per call and only negotiated parameters."""
from vlib.props import clientprops as P


def _groups(tier, rng):
    benign, hostile = P.c15_cases(tier, rng)
    return [("cconv/extension-x-option-subsets", benign, True), ("cconv/hostile-arguments", hostile, True)]


globals().update(P.make("C15",
    "cconv probe: (subsets of the 8 advertised extensions) x (subsets of the MailOptions fields) with benign values and a random RcptOptions "
    "subset (quick: a 25% x 30% sample, thorough: all 2^8 x 2^6); EHLO twice with different extension sets; HELO fallback; every hostile "
    "string up to the tier's length over {CR, LF, NUL, SP, '<', '>', 'a'} in each string-typed argument (Hello, Verify, Mail from, ENVID/AUTH, "
    "Rcpt to, ORCPT, NOTIFY, RET) x 4 extension sets; a refused Hello followed by another method.  non-trivial = more than one call; distinct = distinct case line",
    ["C15_mail_one_line", "C15_rcpt_one_line", "C15_hostile_address_refused", "C15_no_ext_no_params", "C15_unoffered_is_error", "C15_mail_params_gated", "C15_mail_default_gated",
     "C15_rcpt_params_gated", "C15_call_whole_lines", "C15_one_line_per_call", "C15_history_keeps_premises", "C15_auth_whole_lines"], _groups))
