"""The cconv-probe properties (C15, C16, C18 and the client halves of C09): disciplined call scripts."""
import itertools, json
from vlib.core import Group
from vlib.cgen import CC, ehlo, GREET
from vlib.gen import hx, unhx, all_strings

TRUSTED = [
    "Lean 4.33.0 kernel; axioms propext, Classical.choice, Quot.sound only (audited per run with #print axioms)",
    "Lean compiler/runtime for the driver executable (same definitions the theorems are about)",
    "correspondence check: the real smtp.Client driven in-process against a scripted in-memory peer vs the Lean client model, differential",
    "modelled, not verified: net/textproto (Cmd, ReadResponse, DotWriter, bufio.Writer flushing at 4096 octets), encoding/base64, "
    "fmt verbs, time.Format(RFC3339) for UTC times",
    "the scripted peer answers each command line with the next scripted chunk and swallows message data between 354 and the end marker",
]
EXTS = [b"8BITMIME", b"SIZE 1000", b"DSN", b"SMTPUTF8", b"REQUIRETLS", b"AUTH PLAIN LOGIN", b"RRVS", b"STARTTLS", b"BINARYMIME"]
OK = b"250 2.0.0 ok\r\n"


def subsets(xs):
    for r in range(len(xs) + 1):
        for c in itertools.combinations(xs, r):
            yield list(c)


def c15_cases(tier, rng):
    benign, hostile = [], []
    mail_fields = [("size", 5), ("reqtls", 1), ("utf8", 1), ("ret", b"FULL"), ("envid", b"env 1+x"), ("auth", b"user@d")]
    rcpt_fields = [("notify", [b"SUCCESS", b"DELAY"]), ("orcpt", b"o r@x"), ("rrvs", 1577934245)]
    ext_sets = list(subsets(EXTS)) if tier == "thorough" else [e for e in subsets(EXTS) if rng.random() < 0.25]
    for exts in ext_sets:
        for mf in (list(subsets(mail_fields)) if tier == "thorough" else [m for m in subsets(mail_fields) if rng.random() < 0.3]):
            c = CC(exts=exts)
            mo = dict(mf)
            if rng.random() < 0.5:
                mo["body"] = rng.choice([b"7BIT", b"8BITMIME", b"BINARYMIME", b"BINARYMIME", b"bogus"])
            c.mail(b"s@x.org", mo)
            ro = dict(rng.choice(list(subsets(rcpt_fields))))
            if "orcpt" in ro:
                ro["orcpttype"] = rng.choice([b"RFC822", b"UTF-8"])
            if "rrvs" in ro:
                ro["rrvszone"] = rng.choice([0, 3600, -28800, 20700])
            c.rcpt(b"r@x.org", ro or None)
            benign.append(c.case())
    # a second EHLO (after Reset) with a different extension set: parameters must follow the latest one
    for _ in range(300):
        e1, e2 = [e for e in EXTS if rng.random() < 0.6], [e for e in EXTS if rng.random() < 0.4]
        c = CC(exts=e1)
        o = dict(size=7, ret=b"HDRS", envid=b"x", auth=b"a@b")
        c.mail(b"s@x", o); c.reply(OK); c.call("reset"); c.reply(ehlo(e2)); c.mail(b"s@x", o)
        c.rcpt(b"r@x", dict(notify=[b"NEVER"], rrvs=86400))
        benign.append(c.case())
    # after Reset the second EHLO is refused and the client falls back to HELO: nothing of the first EHLO reply may be used
    for _ in range(60):
        e1 = [e for e in EXTS if rng.random() < 0.7]
        c = CC(exts=e1)
        o = dict(size=7, ret=b"HDRS", envid=b"x", auth=b"a@b")
        c.mail(b"s@x", o); c.reply(OK); c.call("reset")
        c.reply(rng.choice([b"502 5.5.1 no EHLO\r\n", b"500 5.5.2 what\r\n"])); c.reply(b"250 peer\r\n")
        if rng.random() < 0.5:
            o = dict(o, reqtls=rng.choice([0, 1]), utf8=rng.choice([0, 1]))
        c.mail(b"s@x", o)
        c.rcpt(b"r@x", dict(notify=[b"NEVER"], rrvs=86400, orcpttype=b"RFC822", orcpt=b"o@x"))
        c.call("ext", hx(b"DSN")); c.call("ext", hx(b"SIZE"))
        benign.append(c.case())
    # percent signs in every string-typed argument, with and without options: one line, the octets as given
    for a in (b"50%%off@x", b"100%@x", b"u%example.org@relay.x", b"a%sb@x", b"%d%v@x", b"%"):
        for mo, ro in ((None, None), (dict(size=5), None), (None, dict(notify=[b"NEVER"])), (dict(), dict())):
            c = CC(exts=[b"8BITMIME", b"SIZE 100", b"DSN"]); c.call("hello", hx(b"h" + a)); c.mail(a, mo); c.rcpt(a, ro)
            c.reply(OK); c.call("verify", hx(a))
            benign.append(c.case())
    # HELO fallback: EHLO refused with 502
    c = CC(hello=b"502 5.5.1 no EHLO\r\n"); c.reply(b"250 peer\r\n"); c.mail(b"s@x", dict(size=5, ret=b"FULL")); c.rcpt(b"r@x", dict(notify=[b"NEVER"]))
    benign.append(c.case())
    alpha = [b"\r", b"\n", b"\x00", b" ", b"<", b">", b"a"]
    hs = list(all_strings(alpha, 3 if tier == "quick" else 4, 1))
    for exts in ([], [b"DSN", b"SMTPUTF8", b"AUTH PLAIN"], EXTS, [b"8BITMIME"]):
        for h in hs:
            c = CC(exts=exts); c.call("hello", hx(h)); hostile.append(c.case())
            # a host name refused locally must not be remembered: the implicit EHLO of the next method uses the old name
            c = CC(exts=exts); c.call("hello", hx(b"mx" + h)); c.reply(OK)
            nxt = rng.choice(["noop", "verify", "mail", "reset", "hello"])
            if nxt == "mail":
                c.peer.pop(); c.mail(b"s@x")
            elif nxt == "verify":
                c.call("verify", hx(b"u@x"))
            elif nxt == "hello":
                c.peer.pop(); c.call("hello", hx(b"good.example")); c.reply(OK); c.call("noop")
            else:
                c.call(nxt)
            hostile.append(c.case())
            c = CC(exts=exts); c.call("verify", hx(h)); hostile.append(c.case())
            c = CC(exts=exts); c.mail(h + b"@x"); hostile.append(c.case())
            c = CC(exts=exts); c.mail(b"s@x", dict(envid=h, auth=h)); hostile.append(c.case())
            c = CC(exts=exts); c.mail(b"s@x", dict(auth=h)); hostile.append(c.case())      # each value alone: a refusal of one
            c = CC(exts=exts); c.mail(b"s@x", dict(envid=h)); hostile.append(c.case())     # must not mask the other
            c = CC(exts=exts); c.mail(b"s@x", dict(auth=b"u" + h + b"@d", size=3)); hostile.append(c.case())
            c = CC(exts=exts); c.mail(b"s@x"); c.rcpt(h); hostile.append(c.case())
            c = CC(exts=exts); c.mail(b"s@x"); c.rcpt(b"r@x", dict(orcpttype=b"RFC822", orcpt=h)); hostile.append(c.case())
            c = CC(exts=exts); c.mail(b"s@x"); c.rcpt(b"r@x", dict(orcpttype=b"UTF-8", orcpt=h, notify=[h])); hostile.append(c.case())
            c = CC(exts=exts); c.mail(b"s@x"); c.rcpt(b"r@x", dict(orcpttype=b"UTF-8", orcpt=h)); hostile.append(c.case())
            c = CC(exts=exts); c.mail(b"s@x"); c.rcpt(b"r@x", dict(orcpttype=b"UTF-8", orcpt=b"o@x" + h + b"y", notify=[b"FAILURE"])); hostile.append(c.case())
            c = CC(exts=exts); c.mail(b"s@x"); c.rcpt(b"r@x", dict(notify=[b"SUCCESS", h])); hostile.append(c.case())
            c = CC(exts=exts); c.mail(b"s@x", dict(ret=h)); hostile.append(c.case())
            # the mechanism name comes from the caller's sasl.Client: it goes on the AUTH line like any other argument
            for ir in ("none", hx(b"ir")):
                c = CC(exts=exts + [b"AUTH PLAIN X"]); c.call("auth", hx(b"PLAIN" + h), ir, ""); c.reply(OK); c.call("noop"); hostile.append(c.case())
    return benign, hostile


BODY_TOK = [b".", b"\n", b"\r\n", b"a"]


def c16_cases(tier, rng):
    cases = []
    L = 5 if tier == "quick" else 7
    for body in all_strings(BODY_TOK, L):
        parts_list = [[body], [body[i:i + 1] for i in range(len(body))]]
        if len(body) > 1:
            k = rng.randrange(1, len(body))
            parts_list.append([body[:k], body[k:]])
        for parts in parts_list:
            lm = rng.random() < 0.3
            c = CC(lmtp=lm)
            c.mail(b"s@x"); c.rcpt(b"r@x")
            final = rng.choice([b"250 2.0.0 queued\r\n", b"554 5.6.0 rejected\r\n"])
            c.data(parts, final, lmtp_cb=lm and rng.random() < 0.5, closes=2)
            c.reply(OK); c.call("noop")
            cases.append(c.case())
    # every 2-split of a few bodies with look-alikes, and out-of-domain bodies with a lone CR (not judged, compared)
    for body in (b".\r\n.\r\n", b"a\n.\nb", b"x\r\n..\r\n.", b"\r\n.\r\nMAIL FROM:<bait@x>\r\n", b"lone\rcr", b"\r", b"a\r\r\nb"):
        for k in range(len(body) + 1):
            c = CC(); c.mail(b"s@x"); c.rcpt(b"r@x"); c.data([body[:k], body[k:]], OK, closes=2); cases.append(c.case())
    # a stale handle: Close on the first message's writer again while the second message is being written
    for b1 in (b"one\r\n", b"", b"x", b"a\r"):
        for b2a, b2b in ((b"two ", b"more\r\n"), (b"", b"z"), (b"l1\r\n", b".l2\r\n"), (b"a\r", b"\nb")):
            for final1 in (OK, b"554 5.6.0 rejected\r\n"):
                c = CC(); c.mail(b"s@x"); c.rcpt(b"r@x"); c.data([b1], final1, closes=1)
                c.mail(b"s2@x"); c.rcpt(b"r2@x")
                c.peer.append(b"354 go ahead\r\n"); c.call("data")
                c.call("write", hx(b2a)); c.call("close", "0"); c.call("write", hx(b2b))
                c.peer.append(OK); c.call("close"); c.call("close", "0"); c.call("close", "1"); c.call("close")
                c.reply(OK); c.call("noop")
                cases.append(c.case())
    # the verdict never arrives (the peer goes away, or sends half a reply and goes away): the first Close fails with an I/O
    # error; Close again must still be an error that writes nothing — the message has been sent once, there is no second exchange
    for body in (b"one\r\n", b"", b"x", b"a\r\n.\r\nb", b"tail without newline"):
        for lost in (["EOF"], [b"25", "EOF"], [b"250-2.0.0 first line\r\n", "EOF"]):
            for lm in (False, True):
                c = CC(lmtp=lm); c.mail(b"s@x"); c.rcpt(b"r@x")
                c.peer.append(b"354 go ahead\r\n"); c.call("lmtpdata" if lm and body else "data"); c.call("write", hx(body))
                c.peer.extend(lost)
                c.call("close"); c.call("close"); c.call("close")
                cases.append(c.case())
    for _ in range(300 if tier == "quick" else 3000):
        n = rng.randrange(0, 9000)
        body = bytes(rng.choice(b"ab.\n") if rng.random() < 0.3 else rng.randrange(32, 256) for _ in range(n)).replace(b"\r", b"x")
        cuts = sorted(rng.randrange(0, n + 1) for _ in range(rng.randrange(0, 4)))
        parts = [body[a:b] for a, b in zip([0] + cuts, cuts + [n])]
        c = CC(); c.mail(b"s@x"); c.rcpt(b"r@x"); c.data(parts, OK, closes=1); cases.append(c.case())
    return cases


def c18_cases(tier, rng):
    cases = []
    # per-recipient verdicts: any code is that recipient's own status — 421 (what this library's server sends for every remaining
    # recipient when LMTPData panics), 251/252, a 5xx without enhanced code, a 2xx other than 250
    verdicts = [b"250 2.0.0 delivered\r\n", b"550 5.1.1 no such user\r\n", b"452-4.2.2 over\r\n452 4.2.2 quota\r\n",
                b"421 4.0.0 Internal server error\r\n", b"554 rejected\r\n", b"250 2.0.0 delivered\r\n", b"451 4.3.0 try later\r\n",
                b"421 4.4.2 closing\r\n", b"252 2.0.0 accepted\r\n"]
    for ntx in (1, 2, 3):
        for _ in range(150 if tier == "quick" else 1500):
            exts = rng.choice([[b"8BITMIME"], [], [b"PIPELINING", b"SIZE 100"], [b"8BITMIME", b"DSN"]])
            c = CC(lmtp=True, exts=exts)
            seen = []
            for t in range(ntx):
                c.mail(b"s%d@x" % t, rng.choice([None, None, dict(size=3)]))
                acc = 0
                for k in range(rng.randrange(1, 4)):
                    ok = rng.random() < 0.75
                    # the same mailbox may be named twice in a transaction (and again in the next): one reply per accepted RCPT
                    addr = rng.choice(seen) if seen and rng.random() < 0.3 else b"t%dr%d@x" % (t, k)
                    seen.append(addr)
                    # an accepted recipient is any 25x reply (251 "will forward", 252 "cannot verify but will try")
                    c.rcpt(addr, reply=rng.choice([OK, OK, b"251 2.1.5 user not local; will forward\r\n", b"252 2.0.0 cannot verify\r\n",
                                                   b"250-2.1.5 first line\r\n250 2.1.5 ok\r\n"]) if ok else
                           rng.choice([b"550 5.1.1 refused\r\n", b"452 4.5.3 too many\r\n", b"551 5.1.6 moved\r\n"]))
                    acc += ok
                if acc == 0:
                    c.rcpt(b"t%dlast@x" % t); acc = 1
                final = b"".join(rng.choice(verdicts) for _ in range(acc))
                if t + 1 < ntx and rng.random() < 0.25:
                    # the server refuses DATA itself (no 354): the transaction is over without a Close; the next MAIL starts afresh —
                    # its recipients, not these, are the ones whose replies are read
                    c.peer.append(rng.choice([b"452 4.3.1 insufficient system storage\r\n", b"554 5.5.1 no valid recipients\r\n"]))
                    c.call("lmtpdata" if rng.random() < 0.6 else "data")
                    continue
                c.data([b"msg %d\r\n" % t], final, lmtp_cb=rng.random() < 0.6, closes=1)
                if rng.random() < 0.2:
                    c.reply(OK); c.call("reset"); c.reply(ehlo(exts))
            c.reply(b"221 2.0.0 bye\r\n"); c.call("quit")
            cases.append(c.case())
    return cases


def c09_cases(tier, rng):
    cases = []
    ch = [b"", b"User:", b"\x00\xff\xfe", b"a" * 40]
    rs = [b"", b"u", b"\x00u\x00p", b"\xff" * 30]
    finals = [b"235 2.7.0 ok\r\n", b"535 5.7.8 bad credentials\r\n", b"454 4.7.0 temp\r\n", b"501 5.5.2 cancelled\r\n"]
    import base64
    for ir in [None, b"", b"ir-data", b"\x00a\x00b"]:
        for nsteps in (0, 1, 2, 3):
            for _ in range(6 if tier == "quick" else 40):
                c = CC(exts=[b"AUTH PLAIN X"])
                steps, peer = [], []
                for i in range(nsteps):
                    challenge = rng.choice(ch)
                    peer.append(b"334 " + base64.b64encode(challenge) + b"\r\n")
                    kind = rng.random()
                    if kind < 0.15:
                        steps.append("ERR"); peer.append(b"501 5.0.0 cancelled\r\n"); break
                    r = rng.choice(rs)
                    steps.append(hx(r) if r else "-")
                else:
                    peer.append(rng.choice(finals) if rng.random() < 0.9 else b"334 !!notbase64!!\r\n")
                    peer.append(b"501 5.0.0 cancelled\r\n")
                c.reply(*peer)
                c.call("auth", hx(b"X"), "none" if ir is None else hx(ir), "+".join(steps))
                c.reply(OK); c.call("noop")
                cases.append(c.case())
    return cases


def make(ID, rule, theorems, groups_fn, known=None, assumptions=()):
    ns = dict(ID=ID, LEVEL="proof", TRUSTED=TRUSTED, ASSUMPTIONS=list(assumptions), RULE=rule, THEOREMS=theorems, KNOWN=known or {})
    ns["nontrivial"] = lambda case, ans: len(case.split("\t")[3].split(";")) > 1
    ns["signature"] = lambda case, ans: case.split("\t")[1] + ":" + ",".join(sorted({c.split("/")[0] for c in case.split("\t")[3].split(";")}))
    ns["mutate"] = lambda case, rng: []
    ns["shrink"] = lambda case: []
    def groups(tier, rng):
        out = []
        for g_ in groups_fn(tier, rng):
            n, cs, mon = g_[:3]
            out.append(Group(n, cs, theorems=theorems, monitor=mon, project=(g_[3] if len(g_) > 3 else None)))
        return out
    ns["groups"] = groups
    ns["replay_groups"] = lambda path: [Group("replay", [json.load(open(path))["case"]], theorems=theorems)]
    return ns
