"""C04 — conv-probe property (see vlib/props/convprops.py)."""
from vlib.props import convprops as P, convcommon as cc
from vlib import convgen as g
globals().update(P.make('C04', 'conv probe: generic sweep (every letter of the command alphabet after 12 prefixes x configurations incl. TLS), random walks under {one segment, line per segment, byte per segment, random cuts}; the whole reply stream is parsed with a strict RFC 5321 recogniser, codes and enhanced codes compared exactly with the model. non-trivial = at least one backend callback', ['C04_own_verdict', 'C04_reply_syntax', 'C04_reply_syntax_multiline', 'C04_one_reply_per_command', 'C04_error_reply_and_notice', 'C04_lmtp_one_reply_per_recipient', 'C04_starttls_replies', 'C04_auth_replies'], None, lambda a: cc.project(a, codes='exact', enh=True, drecs='ret'), tls=True, configs=None))

# --- schedules: a slow delivery of an aborted transfer completing before/after the next transaction -------------
from vlib.core import Group as _Group
from vlib.props import C20 as _C20
_g0 = groups
RULE = RULE + " | sched probe: every order of {aborted delivery completes, next transaction arrives, its delivery completes} (see C20)"


def groups(tier, rng):
    sc = [c for c in _C20.sched_cases(tier, rng) if not c.endswith("TAG=lifecycle")]
    return _g0(tier, rng) + [_Group("sched/delivery-orders", sc, project=_C20.project, theorems=THEOREMS)]
