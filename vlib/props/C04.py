"""C04 — conv-probe property (see vlib/props/convprops.py)."""
from vlib.props import convprops as P, convcommon as cc
from vlib import convgen as g
globals().update(P.make('C04', 'conv probe: generic sweep (every letter of the command alphabet after 12 prefixes x configurations incl. TLS), random walks under {one segment, line per segment, byte per segment, random cuts}; the whole reply stream is parsed with a strict RFC 5321 recogniser, codes and enhanced codes compared exactly with the model. non-trivial = at least one backend callback', ['render_wellformed (pending)'], None, lambda a: cc.project(a, codes='exact', enh=True, drecs='ret'), tls=True, configs=None))
