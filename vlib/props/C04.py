"""C04 — conv-probe property (see vlib/props/convprops.py)."""
from vlib.props import convprops as P, convcommon as cc
from vlib import convgen as g
globals().update(P.make('C04', 'conv probe: generic sweep (every letter of the command alphabet after 12 prefixes x configurations incl. TLS), random walks under {one segment, line per segment, byte per segment, random cuts}; the whole reply stream is parsed with a strict RFC 5321 recogniser, codes and enhanced codes compared exactly with the model. non-trivial = at least one backend callback', ['C04_own_verdict', 'C04_reply_syntax', 'C04_reply_syntax_multiline', 'C04_one_reply_per_command', 'C04_error_reply_and_notice', 'C04_lmtp_one_reply_per_recipient', 'C04_starttls_replies', 'C04_auth_replies', 'C04_echo_printable', 'C04_echo_faithful', 'C04_echo_sites'], None, lambda a: cc.project(a, codes='exact', enh=True, drecs='ret'), tls=True, configs=None))

# --- schedules: a slow delivery of an aborted transfer completing before/after the next transaction -------------
from vlib.core import Group as _Group
from vlib.props import C20 as _C20
_g0 = groups
RULE = RULE + " | sched probe: every order of {aborted delivery completes, next transaction arrives, its delivery completes} (see C20)"


def echo_cases(tier, rng):
    """replies that quote the peer: the unknown command word, the greeting name, the addresses of MAIL and RCPT, the <recipient> prefix of
    an LMTP status (DATA, BDAT LAST, a failed chunk) - with control octets, DEL, a bare CR, 8-bit octets in what is quoted.  Judged by the
    reply-syntax rule (text of a reply line: HT, printable ASCII, octets >= 0x80)."""
    cases = []
    odd = [b"\x00", b"\x01", b"\r", b"\x1b", b"\x7f", b"\x0b", b"\t", b"\xe9", b"\xc3\xa9", b"\x1f"]
    for o in odd:
        for lm in (0, 1):
            hello = b"LHLO" if lm else b"EHLO"
            c = g.Conv(dict(lmtp=lm)); c.add(b"AB" + o + b"D\r\n"); c.add(b"NOOP\r\n"); cases.append(c.case(seg="line"))
            c = g.Conv(dict(lmtp=lm)); c.add(hello + b" a" + o + b"b\r\n", NS="ok"); c.add(b"NOOP\r\n"); cases.append(c.case(seg="line"))
            if not lm:
                c = g.Conv({}); c.add(b"HELO a" + o + b"b\r\n", NS="ok"); cases.append(c.case(seg="one"))
            for lms in ((0,) if not lm else (0, 1)):
                c = g.Conv(dict(lmtp=lm, lmtpsess=lms))
                c.add(hello + b" x\r\n", NS="ok"); c.add(b"MAIL FROM:<s" + o + b"t@x>\r\n", MAIL="ok")
                c.add(b"RCPT TO:<r" + o + b"q@y>\r\n", RCPT="ok"); c.add(b"RCPT TO:<plain@y>\r\n", RCPT="ok")
                c.add(b"DATA\r\n"); c.add(b"hi\r\n.\r\n", DATA=g.ddec(ret=rng.choice(["ok", g.se(550, "5.7.1", b"no")])))
                c.add(b"MAIL FROM:<s@x>\r\n", MAIL="ok"); c.add(b"RCPT TO:<r" + o + b"q@y>\r\n", RCPT="ok")
                c.add(b"BDAT 2 LAST\r\nhi", DATA=g.ddec(ret=rng.choice(["ok", g.er(b"disk")])))
                c.add(b"QUIT\r\n")
                cases.append(c.case(seg=rng.choice(["line", "one"]), rng=rng))
    return cases


def groups(tier, rng):
    sc = [c for c in _C20.sched_cases(tier, rng) if not c.endswith("TAG=lifecycle")]
    return _g0(tier, rng) + [_Group("sched/delivery-orders", sc, project=_C20.project, theorems=THEOREMS),
                             _Group("conv/replies-that-quote-the-peer", echo_cases(tier, rng), project=lambda c, a: cc.project(a, codes="exact", enh=True, drecs="ret"), theorems=THEOREMS)]


# --- static: the reply table read off the source ---------------------------------------------------------------------------
def static_facts():
    """Every literal `writeResponse/protocolError/writeError(code, EnhancedCode{a, b, c} | NoEnhancedCode, …)` call in conn.go and
    server.go: (1) the enhanced code's class is the reply code's class — NoEnhancedCode only on 220/250/334/354 (greeting, EHLO,
    challenge, go-ahead): a call site that breaks this is a violation of C04 by itself, replay = file:line; (2) the SET of (code,
    enhanced code) pairs equals the set the Lean model's handlers use — a pair on one side only means the model no longer describes
    the code (correspondence).  Pairs of code paths the model does not contain are listed in UNMODELLED."""
    import re, os
    from vlib.core import REPO, ROOT
    UNMODELLED = {(421, "4.4.0"): "server.go: a read error other than EOF/closed/timeout/too-long-line (not in the wire model's error alphabet)",
                  (421, "4.4.5"): "Conn.Reject (exported helper no handler calls)"}
    pat = re.compile(r"\.(writeResponse|protocolError|writeError)\((\d+), (EnhancedCode\{(\d+), (\d+), (\d+)\}|NoEnhancedCode|EnhancedCodeNotSet)")
    go, findings, n = {}, [], 0
    for fn in ("conn.go", "server.go"):
        for i, line in enumerate(open(os.path.join(REPO, fn)), 1):
            for m in pat.finditer(line):
                n += 1
                code = int(m.group(2))
                enh = "none" if m.group(3) == "NoEnhancedCode" else "unset" if m.group(3) == "EnhancedCodeNotSet" else ".".join(m.group(k) for k in (4, 5, 6))
                go.setdefault((code, enh), "%s:%d" % (fn, i))
                bad = (enh == "none" and code not in (220, 250, 334, 354)) or (enh not in ("none", "unset") and int(m.group(4)) != code // 100) \
                    or not (200 <= code <= 599)
                if bad:
                    findings.append(("viol", "%s:%d" % (fn, i), "C04 the enhanced status code of a reply written at %s:%d is not of the reply code's class "
                                     "(or is missing where one is required):\n    %s" % (fn, i, line.strip())))
    lean = open(os.path.join(ROOT, "lean", "SmtpV", "Model", "Server.lean")).read()
    model = set()
    for m in re.finditer(r"(?:reply|replyB|protocolError|protocolErrorB) \(?[^()\n]*?\)? ?(\d{3}) (⟨(\d+), (\d+), (\d+)⟩|noEnh)", lean):
        model.add((int(m.group(1)), "none" if m.group(2) == "noEnh" else ".".join(m.group(k) for k in (3, 4, 5))))
    for m in re.finditer(r"(?:\.refuse|renderError) (\d{3}) (⟨(\d+), (\d+), (\d+)⟩|noEnh)", lean):
        model.add((int(m.group(1)), "none" if m.group(2) == "noEnh" else ".".join(m.group(k) for k in (3, 4, 5))))
    only_go = sorted(k for k in go if k not in model and k not in UNMODELLED)
    only_model = sorted(k for k in model if k not in go)
    if only_go or only_model:
        findings.append(("corr", "reply-table", "the set of (reply code, enhanced code) pairs written by conn.go/server.go differs from the set the Lean "
                         "model's handlers use; the model no longer describes the code.\nonly in the code: %s\nonly in the model: %s\n"
                         "Theorems whose tie to the code is lost: %s"
                         % (", ".join("%d %s (%s)" % (k[0], k[1], go[k]) for k in only_go) or "-",
                            ", ".join("%d %s" % k for k in only_model) or "-", ", ".join(THEOREMS))))
    return n, findings
