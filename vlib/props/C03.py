"""C03 — backend callbacks follow RFC 5321 transaction order; envelopes never leak."""
from vlib.core import Group
from vlib.props import convcommon as cc
from vlib import convgen as g

ID = "C03"
LEVEL = "proof"
TRUSTED = cc.TRUSTED
ASSUMPTIONS = ["backends that retain the *Conn and call it from other goroutines are outside the model"]
RULE = ("conv probe: (a) every letter of a ~75-letter command alphabet (valid, rejected-by-backend, malformed, out-of-order "
        "variants of HELO/EHLO/LHLO/MAIL/RCPT/DATA/BDAT/RSET/NOOP/VRFY/AUTH/STARTTLS/QUIT/unknown, each with its backend "
        "decision) after each of 12 prefixes in 6 configurations ({SMTP, LMTP, LMTP+LMTPSession} x recipient limit "
        "{0,2,3} ...), (b) all ordered pairs of a 30-letter core alphabet after 4 prefixes, (c) seeded random walks of "
        "3-25 letters, each under a random segmentation. Callbacks compared exactly, replies by class. "
        "non-trivial = at least one backend callback happened; distinct = distinct case line")
THEOREMS = ["C03_order"]
nontrivial = cc.nontrivial
signature = cc.signature
mutate = cc.mutate
shrink = cc.shrink
KNOWN = {}

CORE = [x for x in g.ALPHABET if x[0] in (
    "EHLO", "HELO", "LHLO", "EHLO-nsreject", "MAIL", "MAIL-reject", "MAIL-badpath", "MAIL-binmime", "RCPT-A", "RCPT-B",
    "RCPT-reject", "RCPT-bad", "DATA-ok", "DATA-reject", "DATA-arg", "DATA-readnone", "BDAT3", "BDAT3-LAST", "BDAT0-LAST",
    "BDAT-badsize", "BDAT5-early", "BDAT3-LAST-reject", "RSET", "NOOP", "QUIT", "FOOO", "AUTH-ir", "starttls", "VRFY",
    "DATA-panic")]


def project(case, ans):
    return cc.project(ans, codes="class", enh=False, drecs="none")


def groups(tier, rng):
    cfgs = g.CONFIGS
    sweep = cc.sweep(cfgs, rng)
    pr = {k: g.PREFIXES[k] for k in ("greeted", "rcpt1", "bdat-open", "lhlo-rcpt2")}
    pairs = cc.pairs([g.CONFIGS[1], g.CONFIGS[3]], rng, pr, CORE if tier == "thorough" else CORE[::2])
    walks = cc.walks(cfgs + g.TLS_CONFIGS, rng, 4000 if tier == "quick" else 120000, hi=25 if tier == "quick" else 60)
    return [Group("conv/sweep", sweep, project=project, theorems=THEOREMS),
            Group("conv/pairs", pairs, project=project, theorems=THEOREMS),
            Group("conv/walks", walks, project=project, theorems=THEOREMS)]


def replay_groups(path):
    import json
    return [Group("replay", [json.load(open(path))["case"]], project=project, theorems=THEOREMS)]
