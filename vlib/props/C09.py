"""C09 — conv-probe property (see vlib/props/convprops.py)."""
from vlib.props import convprops as P, convcommon as cc
from vlib import convgen as g
globals().update(P.make('C09', "conv probe with AUTH letters (initial response, '=', bad base64, '*', unknown mechanism, 2-step exchanges with binary challenge) x TLS {plaintext, after STARTTLS, implicit} x AllowInsecureAuth x backend {AuthSession, none}; sweep + walks. non-trivial = at least one backend callback", ['C09 (via Order monitor, pending)'], None, lambda a: cc.project(a, codes='exact', enh=False, drecs='none'), tls=True, configs=None))
