"""C09 — conv-probe property (see vlib/props/convprops.py)."""
from vlib.props import convprops as P, convcommon as cc
from vlib import convgen as g
globals().update(P.make('C09', "conv probe with AUTH letters (initial response, '=', bad base64, '*', unknown mechanism, 2-step exchanges with binary challenge) x TLS {plaintext, after STARTTLS, implicit} x AllowInsecureAuth x backend {AuthSession, none}; sweep + walks. non-trivial = at least one backend callback", ['C09_insecure_unreachable', 'C09_b64_roundtrip', 'C09_empty_initial_response', 'C09_never_on_insecure_connection', 'C09_at_most_once', 'C09_client_exchange_rules'], [('failed-handshake', P.hsfail_convs)], lambda a: cc.project(a, codes='exact', enh=False, drecs='none'), tls=True, configs=None))

# --- client half: the real Client.Auth against a scripted peer -----------------------------------------------
from vlib.core import Group as _Group
from vlib.props import clientprops as _CP
_conv_groups = groups
RULE = RULE + (" | cconv probe (client half): Client.Auth with 0-3 step mechanism scripts x initial response {none, empty, text, binary} x "
               "challenges {empty, text, binary, 40 octets} x final replies {235, 535, 454, 501, undecodable 334} x mechanism failure at a step")
TRUSTED = TRUSTED + _CP.TRUSTED[2:]


def known_star(case, impl, reason):
    """Client.Auth sends the cancel token '*' after the server has already ended the exchange with a final
    negative (non-334, non-235) reply"""
    return case.startswith("cconv") and "C09 the client sends the cancel token" in reason and reason.count("C09") == 1


KNOWN = dict(KNOWN)
KNOWN["auth_star_after_final_reply"] = known_star


def groups(tier, rng):
    return _conv_groups(tier, rng) + [_Group("cconv/client-auth", _CP.c09_cases(tier, rng), theorems=THEOREMS)]


_nt = nontrivial
nontrivial = lambda case, ans: True if case.startswith("cconv") else _nt(case, ans)
_sig = signature
signature = lambda case, ans: "cconv/auth" if case.startswith("cconv") else _sig(case, ans)
_mut, _shr = mutate, shrink
mutate = lambda case, rng: [] if case.startswith("cconv") else _mut(case, rng)
shrink = lambda case: [] if case.startswith("cconv") else _shr(case)
