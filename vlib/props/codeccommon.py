"""Shared pieces of the codec/component properties."""
import json
from vlib.gen import hx, unhx, all_strings

TRUSTED = [
    "Lean 4.33.0 kernel; axioms propext, Classical.choice, Quot.sound only (audited per run with #print axioms)",
    "Lean compiler/runtime for the driver executable (same definitions the theorems are about)",
    "correspondence check: the package's functions called in-process through /repo/verif_export.go (build tag verif) vs the Lean "
    "definitions, differential",
    "modelled, not verified: regexp (two fixed patterns re-implemented as scanners), strconv.ParseInt/ParseUint/Atoi/FormatInt, "
    "fmt %02X/%d/%v, strings.{SplitN,Split,ReplaceAll,ToUpper}, Go's UTF-8 decoding in range loops, net/textproto.ReadResponse",
]

XALPHA = [b"+", b"=", b" ", b"\\", b"{", b"}", b"x", b"4", b"A", b"a", b"\x7f", b"\t", "é".encode(), "€".encode(), "😀".encode()]


def cp_bytes(cp):
    return chr(cp).encode("utf-8", "surrogatepass") if not (0xD800 <= cp <= 0xDFFF) else None


def shrink_hex_field(idx):
    def f(case):
        fs = case.split("\t")
        s = unhx(fs[idx])
        out = []
        for i in range(len(s)):
            g = list(fs); g[idx] = hx(s[:i] + s[i + 1:]); out.append("\t".join(g))
        return out
    return f


def replay_groups_factory(Group, THEOREMS):
    def replay_groups(path):
        return [Group("replay", [json.load(open(path))["case"]], theorems=THEOREMS)]
    return replay_groups
