"""C01 — DATA body reaches the backend byte-exact after dot-unstuffing."""
from vlib.core import Group
from vlib.props import datacommon as dc
from vlib.gen import sched, cuts, rand_stream

ID = "C01"
LEVEL = "proof"
TRUSTED = dc.TRUSTED
ASSUMPTIONS = ["the DATA reader is exercised as a component (dataReader.Read over bufio over a scripted source); "
               "its use inside a conversation is tied by the conv probe of C02/C03"]
RULE = ("dr probe: (a) exhaustive transition table 6 states x 256 octets x 16 continuations with 1-octet reads; "
        "(b) every stream over {'.',CR,LF,'a'} up to the tier's length, terminated by CRLF.CRLF + bait and unterminated, "
        "under read schedules {one big read, 1, 2, 3, 7, mixed} and segmentations; (c) seeded random 256-valued streams. "
        "non-trivial = the stream has more than one octet and contains '.', CR or LF; distinct = distinct case line")
THEOREMS = ["C01_exact", "C01_sched_indep", "C01_transparent", "C01_monitor", "terminated?_iff"]

nontrivial = lambda case, ans: dc.nontrivial_stream(case)
signature = dc.signature
mutate = dc.mutate
shrink = dc.shrink
KNOWN = {}


def groups(tier, rng):
    L = 6 if tier == "quick" else 8
    table = dc.step_table([None])
    enum = []
    for s in dc.enum_streams(L):
        t = s + dc.TAIL
        for kind in ("all", 1, 2, 3, 7, "mixed"):
            enum.append(dc.dr_case(None, 0, t, cuts(len(t), rng, rng.choice(["one", "rand"])), sched(kind, len(t), rng)))
        enum.append(dc.dr_case(None, 0, s, "-", sched(rng.choice([1, 2, "all"]), len(s), rng)))
    rnd = []
    for _ in range(3000 if tier == "quick" else 40000):
        s = rand_stream(rng, 300 if tier == "quick" else 700)
        if rng.random() < 0.7:
            s += dc.TAIL
        rnd.append(dc.dr_case(None, 0, s, cuts(len(s), rng, rng.choice(["one", "rand", "rand"])),
                              sched(rng.choice(["all", 1, 2, 3, 7, "mixed", "mixed"]), len(s), rng),
                              rng.choice(["eof", "eof", "err"])))
    return [Group("dr/step-table", table, exhaustive=True, theorems=THEOREMS),
            Group("dr/enumerated", enum, theorems=THEOREMS),
            Group("dr/random", rnd, theorems=THEOREMS)]


def replay_groups(path):
    import json
    r = json.load(open(path))
    return [Group("replay", [r["case"]], theorems=THEOREMS)]
