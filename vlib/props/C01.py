"""C01 — DATA body reaches the backend byte-exact after dot-unstuffing."""
from vlib.core import Group
from vlib.props import datacommon as dc
from vlib.gen import sched, cuts, rand_stream

ID = "C01"
LEVEL = "proof"
TRUSTED = dc.TRUSTED
ASSUMPTIONS = ["the DATA reader is exercised as a component (dataReader.Read over bufio over a scripted source); "
               "its use inside a conversation is tied by the conv probe of C02/C03"]
RULE = ("dr probe: (a) exhaustive transition table 6 states x 256 octets x 16 continuations with 1-octet reads; "
        "(b) every stream over {'.',CR,LF,'a'} up to the tier's length, terminated by CRLF.CRLF + bait and unterminated, "
        "under read schedules {one big read, 1, 2, 3, 7, mixed} and segmentations; (c) seeded random 256-valued streams. "
        "conv probe: 1-3 messages per connection through DATA (lines with dots, lone CR/LF, NUL/8-bit, bait), SMTP/LMTP, backend read sizes, segmentations; every delivery must have read exactly the specified octets. non-trivial = the stream has more than one octet and contains '.', CR or LF; distinct = distinct case line")
THEOREMS = ["C01_exact", "C01_sched_indep", "C01_transparent", "C01_monitor", "terminated?_iff"]

nontrivial = lambda case, ans: dc.nontrivial_stream(case) if case.startswith("dr") else True
signature = lambda case, ans: dc.signature(case, ans) if case.startswith("dr") else "conv/" + str(case.count("444154410d0a"))
mutate = lambda case, rng: dc.mutate(case, rng) if case.startswith("dr") else []
shrink = lambda case: dc.shrink(case) if case.startswith("dr") else []
KNOWN = {}


def groups(tier, rng):
    L = 6 if tier == "quick" else 8
    table = dc.step_table([None])
    enum = []
    for s in dc.enum_streams(L):
        t = s + dc.TAIL
        for kind in ("all", 1, 2, 3, 7, "mixed"):
            enum.append(dc.dr_case(None, 0, t, cuts(len(t), rng, rng.choice(["one", "rand"])), sched(kind, len(t), rng)))
        enum.append(dc.dr_case(None, 0, s, "-", sched(rng.choice([1, 2, "all"]), len(s), rng)))
    rnd = []
    for _ in range(3000 if tier == "quick" else 40000):
        s = rand_stream(rng, 300 if tier == "quick" else 700)
        if rng.random() < 0.7:
            s += dc.TAIL
        rnd.append(dc.dr_case(None, 0, s, cuts(len(s), rng, rng.choice(["one", "rand", "rand"])),
                              sched(rng.choice(["all", 1, 2, 3, 7, "mixed", "mixed"]), len(s), rng),
                              rng.choice(["eof", "eof", "err"])))
    # the same streams under a size limit at and below their length: whatever the limit does (C06), the reader never reports
    # end-of-file on anything but the exact unstuffed stream
    lim = []
    for s in dc.enum_streams(L - 1):
        t = s + dc.TAIL
        for n in sorted({1, max(1, len(s) - 1), len(s), len(s) + 1}):
            lim.append(dc.dr_case(n, 0, t, cuts(len(t), rng, rng.choice(["one", "rand"])), sched(rng.choice(["all", 1, 2, 3, "mixed"]), len(t), rng)))
    for _ in range(500 if tier == "quick" else 8000):
        body = rand_stream(rng, 40)
        for x in (b".\r\n", b"\r.\r\n", b"a.\r\nNOOP\r\n"):
            n = rng.randrange(1, len(body) + 2)
            s = body[:n] + x + body[n:] + dc.TAIL
            lim.append(dc.dr_case(n, 0, s, cuts(len(s), rng, rng.choice(["one", "rand"])), sched(rng.choice(["all", 1, 3, 7, "mixed"]), len(s), rng)))
    return [Group("dr/step-table", table, exhaustive=True, theorems=THEOREMS),
            Group("dr/under-a-size-limit", lim, theorems=THEOREMS),
            Group("dr/enumerated", enum, theorems=THEOREMS),
            Group("dr/random", rnd, theorems=THEOREMS),
            Group("conv/data-in-connection", conv_cases(tier, rng), theorems=THEOREMS,
                  project=lambda case, ans: cc.project(ans, codes="exact", enh=False, drecs="full"))]


from vlib.props import convprops as P, convcommon as cc
from vlib import convgen as g
from vlib.gen import hx

LINES = [b"plain", b".", b"..", b".x", b"..x", b"a\rb", b"a\nb", b"\r", b".\r", b"\n.\n", b"", b"\x00\xff", b"MAIL FROM:<bait@x>", b"x" * 70]


def unstuff_spec(lines):
    """the specification, line by line: one leading dot removed (the generator keeps the end marker out of `lines`)"""
    return b"".join((l[1:] if l.startswith(b".") else l) + b"\r\n" for l in lines)


def conv_cases(tier, rng):
    """the reader as the server uses it: first, second and third message of a connection, SMTP and LMTP, backend read sizes,
    segmentations; the octets each delivery must have read are handed to the judge"""
    cases = []
    n = 400 if tier == "quick" else 6000
    for _ in range(n):
        lm = rng.random() < 0.3
        ls = lm and rng.random() < 0.5
        c = g.Conv(dict(lmtp=int(lm), lmtpsess=int(ls)))
        c.add((b"LHLO" if lm else b"EHLO") + b" cli.example\r\n", NS="ok")
        expect = []
        for k in range(rng.choice([1, 2, 2, 3])):
            c.add(b"MAIL FROM:<s%d@x.org>\r\n" % k, MAIL="ok"); c.add(b"RCPT TO:<r@x.org>\r\n", RCPT="ok")
            lines = [rng.choice(LINES) for _ in range(rng.randrange(0, 5))]
            lines = [l for l in lines if l != b"."]          # (a lone dot line would be the end marker)
            c.add(b"DATA\r\n")
            c.add(b"".join(l + b"\r\n" for l in lines) + b".\r\n", DATA=g.ddec(rsz=rng.choice([1, 2, 3, 7, 4096])))
            expect.append("%d:%s" % (k, hx(unstuff_spec(lines))))
            if rng.random() < 0.3:
                c.add(b"RSET\r\n")
        P.markers(c, 1)
        cases.append(c.case(seg=rng.choice(["one", "line", "byte", "rand"]), rng=rng) + "\tEXPECT=" + ";".join(expect))
    # a backend that hands the reader to io.Copy (which prefers an io.WriterTo of the reader), at once or after sniffing the first k
    # octets with one Read (rsz = 32768 + k, see the harness): short lines with dots around the sniff boundary, and lines whose CR is the
    # last octet of a full 4096-octet buffer (no line limit)
    for k in range(0, 10):
        for body in ([b"abc", b".hidden", b"..two", b"x"], [b"ab", b"", b".d", b".", b"tail"][:3] + [b"tail"], [b"a" * 7, b".b"]):
            for lm in (0, 1):
                c = g.Conv(dict(lmtp=lm, maxline=0))
                c.add((b"LHLO" if lm else b"EHLO") + b" cli.example\r\n", NS="ok")
                c.add(b"MAIL FROM:<s@x.org>\r\n", MAIL="ok"); c.add(b"RCPT TO:<r@x.org>\r\n", RCPT="ok")
                c.add(b"DATA\r\n"); c.add(b"".join(l + b"\r\n" for l in body) + b".\r\n", DATA=g.ddec(rsz=32768 + k))
                P.markers(c, 1)
                cases.append(c.case(seg=rng.choice(["one", "line", "rand"]), rng=rng) + "\tEXPECT=0:" + hx(unstuff_spec(body)))
    for n in (4094, 4095, 4096, 8191):
        body = [b"y" * n, b".hidden", b"z"]
        c = g.Conv(dict(maxline=0))
        c.add(b"EHLO cli.example\r\n", NS="ok"); c.add(b"MAIL FROM:<s@x.org>\r\n", MAIL="ok"); c.add(b"RCPT TO:<r@x.org>\r\n", RCPT="ok")
        c.add(b"DATA\r\n"); c.add(b"".join(l + b"\r\n" for l in body) + b".\r\n", DATA=g.ddec(rsz=32768))
        P.markers(c, 1)
        cases.append(c.case(seg="line", rng=rng) + "\tEXPECT=0:" + hx(unstuff_spec(body)))
    # the reader of a connection that has been upgraded: a message in plaintext, STARTTLS, a message inside TLS
    for lm in (0, 1):
        for inj in (b"", b"MAIL FROM:<bait@x>\r\n"):
            c = g.Conv(dict(tls="avail", lmtp=lm))
            hello = (b"LHLO" if lm else b"EHLO") + b" cli.example\r\n"
            c.add(hello, NS="ok"); c.add(b"MAIL FROM:<s0@x.org>\r\n", MAIL="ok"); c.add(b"RCPT TO:<r@x.org>\r\n", RCPT="ok")
            c.add(b"DATA\r\n"); c.add(b"one\r\n..dot\r\n.\r\n", DATA=g.ddec())
            c.starttls(inj)
            c.add(hello, NS="ok"); c.add(b"MAIL FROM:<s1@x.org>\r\n", MAIL="ok"); c.add(b"RCPT TO:<r@x.org>\r\n", RCPT="ok")
            c.add(b"DATA\r\n"); c.add(b"two\r\n.x\r\n.\r\n", DATA=g.ddec())
            P.markers(c, 1)
            for seg in ("line", "one"):
                cases.append(c.case(seg=seg, rng=rng) + "\tEXPECT=0:" + hx(b"one\r\n.dot\r\n") + ";1:" + hx(b"two\r\nx\r\n"))
    return cases


def replay_groups(path):
    import json
    r = json.load(open(path))
    return [Group("replay", [r["case"]], theorems=THEOREMS)]
