"""C18 — LMTP client reports each recipient's own status, transaction after transaction."""
from vlib.props import clientprops as P

globals().update(P.make("C18",
    "cconv probe (LMTP client): 1-3 consecutive transactions per connection x 1-3 recipients each (some refused at RCPT) x per-recipient "
    "verdict vectors over {250, 550, multi-line 452} x {LMTPData with callback, Data without}, occasionally separated by Reset. "
    "non-trivial = more than one call; distinct = distinct case line",
    ["C18_mail_starts_clean", "C18_rcpt_appends", "C18_reset_clears", "C18_one_callback_per_recipient", "C18_refusal_not_lost"], lambda tier, rng: [("cconv/lmtp-transactions", P.c18_cases(tier, rng), True)]))
