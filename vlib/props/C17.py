"""C17 — backend errors reach the peer and the client with code, class and text intact."""
from vlib.core import Group
from vlib.props import codeccommon as cm
from vlib.gen import hx, unhx
from vlib import e2egen

ID = "C17"
LEVEL = "proof"
TRUSTED = cm.TRUSTED
ASSUMPTIONS = ["a reply without enhanced code whose text starts with something of the form d.d.d cannot be told apart on the wire "
               "from one that carries a code (excluded, counted)"]
RULE = ("rt/err probe (server renders a backend result exactly as writeError / dataErrorToStatus do, the client side parses it with "
        "textproto.ReadResponse + toSMTPErr): codes {421,450,451,452,500,550,552,554,599,400} x enhanced {set, unset, NoEnhancedCode, "
        "odd values} x message shapes (empty, leading/trailing space, looks-like-a-code, non-ASCII, 1-3 lines, line that starts with the "
        "code) x the call sites {envelope (451 default), data (554 default)} + plain errors; reply/tosmtperr probes for the two "
        "halves separately; e2e probe: a scripted backend refuses MAIL, RCPT or Data with each code x enhanced code x message shape and the "
        "real client's returned error is compared with it. non-trivial = multi-line, or unset/absent enhanced code, or text starting with a code-like token")
THEOREMS = ["C17_roundtrip", "render_lines", "C17_unset_class", "C17_generic_envelope", "C17_generic_data",
            "C17_server_passes_mail_error", "C17_server_passes_mail_plain_error", "C17_server_passes_rcpt_error", "C17_server_passes_data_error", "C17_lmtp_hello_reports_refusal"]
KNOWN = {}
nontrivial = lambda case, ans: any(x in case for x in ("0a", "/0.0.0/", "/-1.-1.-1/", "352e")) or case.startswith("rt\terr") and "er/" in case
signature = lambda case, ans: "e2e" if case.startswith("e2e") else "/".join(case.split("\t")[:3]) + "->" + ans.split("/")[0]
mutate = lambda case, rng: []
shrink = lambda case: []

CODES = [421, 450, 451, 452, 500, 550, 552, 554, 599, 400]
ENH = ["5.7.1", "4.2.0", "0.0.0", "-1.-1.-1", "5.0.0", "2.0.0", "5.10.123"]
MSGS = [b"", b"plain", b" leading", b"trailing ", b"5.7.1 looks like a code", b"1.2.3", "café €".encode(), b"line one\nline two",
        b"a\nb\nc", b"a\n5.7.1 b", b"\nstarts empty", b"ends empty\n", b"tab\there", b"x\n\ny", b"5.7.1", b"a  b",
        # white space at the edges of continuation lines: an indented list, trailing blanks, a line that is only a blank or a tab
        b"Rejected by policy:\n  - SPF check failed\n  - no DKIM signature", b"a\nb \nc", b"a\n \nb", b"a\n\tb", b" a\n b\n c", b"a \nb \n",
        b"a\n 5.7.1 b", b"a\n5.7.1  b", b"a\n5.7.1"]
WS_ALPHA = [b"a", b" ", b"\t", b"\n", b"5.7.1", b"5.7.1 ", b".", b"-"]


def random_msgs(tier, rng):
    out = []
    for _ in range(60 if tier == "quick" else 1500):
        out.append(b"".join(rng.choice(WS_ALPHA) for _ in range(rng.randrange(1, 9))))
    return out


def groups(tier, rng):
    rt, halves = [], []
    for site in ("env", "data"):
        for code in CODES:
            for enh in ENH:
                for msg in MSGS:
                    rt.append("rt\terr\t%s\tse/%d/%s/%s\t250" % (site, code, enh, hx(msg)))
        for msg in MSGS:
            rt.append("rt\terr\t%s\ter/%s\t250" % (site, hx(msg)))
    for msg in random_msgs(tier, rng):
        rt.append("rt\terr\t%s\tse/%d/%s/%s\t250" % (rng.choice(["env", "data"]), rng.choice(CODES), rng.choice(ENH), hx(msg)))
        halves.append("tosmtperr\t%d\t%s" % (rng.choice([554, 421, 250]), hx(msg)))
    for code in CODES[:5]:
        for enh in ENH:
            for msg in MSGS:
                halves.append("reply\tresp\t%d\t%s\t%s" % (code, enh, hx(msg)))
                halves.append("reply\tresp\t%d\t%s\t%s,%s" % (code, enh, hx(msg), hx(b"second arg")))
    for code in (250, 554, 421):
        for msg in MSGS + [b"5.7.1 a\n5.7.1 b", b"5.7.1 a\n5.7.2 b", b"+5.-7.1 x", b"5.7 x", b"5.7.1.2 x", b"9999999999999999999.1.1 x", b"5.7.1"]:
            halves.append("tosmtperr\t%d\t%s" % (code, hx(msg)))
    # the backend's verdict on a chunked message after an earlier chunked transfer on the same connection was abandoned (RSET, a second
    # EHLO) or refused: the final reply is this message's own result, judged against the delivery record (conv probe)
    from vlib import convgen as g
    from vlib.props import convcommon as cc
    after = []
    for lm in (0, 1):
        for how in (b"RSET\r\n", b"EHLO again\r\n" if not lm else b"LHLO again\r\n"):
            for res in (g.se(550, "5.7.1", b"refused by policy"), g.se(452, "4.3.1", b"full\nsee the log"), g.er(b"disk"), "ok"):
                for first in (g.ddec(ret="prop"), g.ddec(want=1, ret=g.er(b"first one failed"))):
                    c = g.Conv(dict(lmtp=lm))
                    c.add((b"LHLO" if lm else b"EHLO") + b" x\r\n", NS="ok"); c.add(b"MAIL FROM:<s@x>\r\n", MAIL="ok"); c.add(b"RCPT TO:<r@x>\r\n", RCPT="ok")
                    c.add(b"BDAT 3\r\nabc", DATA=first)
                    c.add(how); c.add(b"MAIL FROM:<s2@x>\r\n", MAIL="ok"); c.add(b"RCPT TO:<r2@x>\r\n", RCPT="ok")
                    c.add(b"BDAT 3 LAST\r\nxyz", DATA=g.ddec(ret=res))
                    c.add(b"NOOP\r\n")
                    for seg in ("line", "one"):
                        after.append(c.case(seg=seg, rng=rng))
    conv_project = lambda c, a: cc.project(a, codes="exact", enh=True, drecs="ret")
    return [Group("conv/verdict-after-abandoned-chunked-transfer", after, theorems=THEOREMS, project=conv_project),
            Group("rt/errors", rt, theorems=THEOREMS),
            Group("reply+tosmtperr", halves, theorems=THEOREMS, monitor=False),
            Group("e2e/backend-errors", e2egen.c17_cases(tier, rng), theorems=THEOREMS, project=lambda c, a: "")]


replay_groups = cm.replay_groups_factory(Group, THEOREMS)
