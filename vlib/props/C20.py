"""C20 — no data races or deadlocks; Close and Shutdown end serving exactly once (partial)."""
import itertools, json
from vlib.core import Group
from vlib.props import convcommon as cc
from vlib import convgen as g
from vlib.gen import hx

ID = "C20"
LEVEL = "proof"
TRUSTED = cc.TRUSTED + [
    "PARTIAL: the Go memory model, the scheduler's fairness and goroutines blocked in the kernel are not expressible in the executable "
    "model; what is proved is the lifecycle bookkeeping and the channel protocol of chunked deliveries for every schedule of the model",
    "the sched probe forces the order of harness-controlled events (segments, delivery completions through gates in the scripted backend, "
    "Server.Close/Shutdown); in the thorough tier the same schedules run under the Go race detector",
]
ASSUMPTIONS = ["backends return once their reader fails", "races on memory the model does not name and anything inside crypto/tls or net are not covered"]
RULE = ("accept2 probe: one server, two listeners with 0-2 idle connections each, a listener whose Close reports an error, every pair of endings: Close must end every connection and make every Serve return, a second ending reports closed | race detector: the harness built with -race replays several hundred conversations with early/late deliveries, chunked transfers, forced orders, the accept cases and endings (Server.Close, Shutdown, Conn.Close by the application) fired without waiting for the command loop — nothing orders them against the handler that is running; any DATA RACE report in the package is a violation | accept probe with connections stuck in an implicit-TLS handshake: Close (racing with their registration) must end every one; | accept probe: every sequence up to the tier's length over {connection, temporary error, permanent error} x every pair of "
        "endings over {Close, Shutdown, none}; sched probe: every order of {aborted delivery completes, next transaction arrives, its delivery "
        "completes} for 2-3 overlapping chunked transfers (SMTP and LMTP), plus Close / Shutdown / QUIT / disconnect while a delivery is in "
        "flight; goroutines left behind are counted after each case. non-trivial = at least one accept outcome or one gated delivery")
THEOREMS = ["C20_second_close", "C20_temp_errors", "own_verdict_all_schedules", "never_blocked_step", "pinned_tree_counterexample", "pinned_tree_leak",
            "C20_close_ends_everything", "C20_late_start_no_panic", "C20_late_start_never_calls", "C20_late_start_pinned_panics",
            "C20_late_start_window_remains"]
nontrivial = lambda case, ans: True
signature = lambda case, ans: case.split("\t")[0] + ":" + (ans.split(";")[0] if case.startswith("accept") else ans.split("\t")[-1][:20])
mutate = lambda case, rng: []
shrink = lambda case: []
KNOWN = {}


def project(case, ans):
    if case.startswith("accept"):
        return ans
    parts = ans.split("\t")
    tail = parts[-1]
    flags = ";".join(x for x in tail.split(";") if x.startswith("LEFT") or "HANG" in x or "TIMEOUT" in x)
    if case.endswith("TAG=lifecycle"):
        return flags + ("|HANG" if "HANG" in parts[0] else "")
    return cc.project("\t".join(parts[:2] + ["WAC=0"]), codes="exact", enh=True, drecs="full") + "|" + flags


def seg(*lines):
    return "seg:" + hx(b"".join(lines))


def sched_cases(tier, rng):
    cases = []
    E = [b"EHLO x\r\n", b"MAIL FROM:<s@x>\r\n", b"RCPT TO:<a@x>\r\n"]
    L = [b"LHLO x\r\n", b"MAIL FROM:<s@x>\r\n", b"RCPT TO:<a@x>\r\n", b"RCPT TO:<b@x>\r\n"]
    T2 = [b"MAIL FROM:<s2@x>\r\n", b"RCPT TO:<a@x>\r\n"]
    verdicts = [("ok", g.se(554, "5.6.0", b"rejected msg 2")), (g.se(550, "5.1.0", b"aborted one says no"), "ok"), (g.er(b"late"), g.er(b"own"))]
    for lm in (0, 1):
        pre = L if lm else E
        for v1, v2 in verdicts:
            be = "NS=;MAIL=;RCPT=;DATA=%s|%s|%s;AUTH=;SASL=;HS=" % (g.ddec(ret=v1), g.ddec(ret=v2), g.ddec(ret="ok"))
            s1 = seg(*pre, b"BDAT 3\r\nabc")
            s2 = seg(b"RSET\r\n", *T2, b"BDAT 3 LAST\r\nxyz")
            s3 = seg(b"NOOP\r\n", b"QUIT\r\n")
            # every order of {rel:0, s2 (then rel:1 must follow s2)}
            orders = [[s1, "idle", s2, "pause:15", "rel:0", "pause:5", "rel:1", s3],
                      [s1, "idle", s2, "pause:15", "rel:1", "pause:5", "rel:0", s3],
                      [s1, "idle", "rel:0", "pause:5", s2, "pause:15", "rel:1", s3],
                      [s1, "idle", s2, "rel:1", "rel:0", s3],
                      [s1, s2, s3, "rel:0", "rel:1"]]
            for o in orders:
                cases.append("\t".join(["sched", g.cfg_str(dict(lmtp=lm)), be, ";".join(o)]))
        # three transfers, two of them aborted (the pinned tree leaked a goroutine here)
        be = "NS=;MAIL=;RCPT=;DATA=%s|%s|%s;AUTH=;SASL=;HS=" % (g.ddec(ret=g.er(b"one")), g.ddec(ret=g.er(b"two")), g.ddec(ret="ok"))
        s1 = seg(*pre, b"BDAT 3\r\nabc"); s2 = seg(b"RSET\r\n", *T2, b"BDAT 2\r\nxy"); s3 = seg(b"RSET\r\n", *T2, b"BDAT 1 LAST\r\nz", b"QUIT\r\n")
        for perm in itertools.permutations(["rel:0", "rel:1", "rel:2"]):
            cases.append("\t".join(["sched", g.cfg_str(dict(lmtp=lm)), be, ";".join([s1, "idle", s2, "idle", s3, "pause:10"] + list(perm))]))
            cases.append("\t".join(["sched", g.cfg_str(dict(lmtp=lm)), be, ";".join([s1, "idle", perm[0], s2, "idle", perm[1], s3, perm[2]])]))
        # lifecycle events while a delivery is in flight
        be = "NS=;MAIL=;RCPT=;DATA=%s;AUTH=;SASL=;HS=" % g.ddec(ret="prop")
        for ending in (["close"], ["shutdown"], ["eof"], [seg(b"QUIT\r\n")], ["close", "close"], ["shutdown", "close"], ["close", "shutdown"]):
            for when in ("before", "after"):
                ev = [s1, "idle"] + (["rel:0"] if when == "before" else []) + ending + (["rel:0"] if when == "after" else [])
                cases.append("\t".join(["sched", g.cfg_str(dict(lmtp=lm)), be, ";".join(ev)]) + "\tTAG=lifecycle")
    return cases


def groups(tier, rng):
    L = 4 if tier == "quick" else 6
    acc = []
    for n in range(0, L + 1):
        for outs in itertools.product(["conn", "temp", "perm"], repeat=n):
            if outs.count("temp") > 4:
                continue          # each temporary error costs real sleeping time
            for e1, e2 in itertools.product(["close", "shutdown", "none"], repeat=2):
                if e1 == "none" and e2 == "none" and "perm" not in outs:
                    continue      # Serve would (rightly) run for ever
                if tier == "quick" and n >= 3 and rng.random() < 0.6:
                    continue
                acc.append("accept\t%s\t%s,%s" % (",".join(outs) or "-", e1, e2))
    # connections that do not end by themselves (implicit TLS, the peer never starts the handshake): Close must end them —
    # also the ones accepted an instant before it runs — and nothing may be left behind
    hang = []
    for n in range(1, 4):
        for outs in itertools.product(["conn", "tlshang", "temp"], repeat=n):
            if "tlshang" not in outs or outs.count("temp") > 1:
                continue
            for e1, e2 in (("close", "none"), ("close", "close"), ("close", "shutdown")):
                for _ in range(1 if tier == "quick" else 5):
                    hang.append("accept\t%s\t%s,%s" % (",".join(outs), e1, e2))
    # two listeners on one server, idle connections on both, a listener whose Close reports an error: Close must still close every
    # listener and every connection (and report the error); judged by the accept2 judge (open = 0, every Serve returned, second ending
    # "closed", nothing left behind) and compared with the lifecycle model
    two = []
    for nA, nB in ((0, 0), (1, 0), (0, 2), (1, 1), (2, 1)):
        for eA, eB in ((0, 0), (1, 0), (0, 1), (1, 1)):
            for ends in ("close,none", "close,close", "close,shutdown", "shutdown,close", "shutdown,none"):
                if tier == "quick" and ends.startswith("shutdown") and (nA + nB) > 1:
                    continue
                two.append("accept2\t%d:%d\t%d:%d\t%s" % (nA, eA, nB, eB, ends))
    return [Group("accept2/two-listeners-close-error", two, project=project, theorems=THEOREMS),
            Group("accept/outcome-sequences", acc, exhaustive=(tier == "thorough"), project=project, theorems=THEOREMS, monitor=False),
            Group("accept/hanging-connections", hang, project=project, theorems=THEOREMS, monitor=False),
            Group("lateserve/serve-after-the-end", ["lateserve\tquit\tfromlogout"] + ["lateserve\t%s\t%s" % (e, o) for e in ("close", "shutdown") for o in ("after", "race", "fromlogout")
                                                       for _ in range(2 if tier == "quick" else 20)], project=lambda c, a: a, theorems=THEOREMS),
            Group("multi/connections-of-one-server", multi_cases(tier, rng), project=lambda c, a: a.split("\t")[0], theorems=THEOREMS, monitor=False),
            Group("sched/delivery-orders", sched_cases(tier, rng), project=project, theorems=THEOREMS, monitor=False),
            # the command loop does not wait for the delivery goroutine (`latestart`): the peer is gone before the delivery starts
            Group("sched/disconnect-before-delivery-starts", _late(tier, rng), project=_proj_late, theorems=THEOREMS, monitor=False)]


def _late(tier, rng):
    from vlib.props import C19
    return C19.late_start_cases(tier, rng)


def _proj_late(case, ans):
    tail = ans.split("\t")[-1]
    flags = ";".join(x for x in tail.split(";") if (x.startswith("LEFT") and x != "LEFT=0") or "HANG" in x)
    return ("panic-logged" if "PANIC" in ans else "no-panic") + "|" + flags


def replay_groups(path):
    return [Group("replay", [json.load(open(path))["case"]], project=project, theorems=THEOREMS, monitor=False)]


def race_cases(tier, rng):
    """conversations replayed under Go's race detector: deliveries that return early or late (LMTP goroutine, chunked
    transfers, resets and closes while a delivery runs), the forced-order sched cases, and the accept cases"""
    from vlib.props import convprops as P
    out = P.data_convs("quick", rng, limits=(0, 1), lmtp_modes=((0, 0), (1, 0), (1, 1)))[:300 if tier == "quick" else 3000]
    out += P.c05_cases("quick", rng)[:300 if tier == "quick" else 3000]
    out += sched_cases(tier, rng)
    out += _late(tier, rng)
    out += ["accept\tconn,tlshang,conn\tclose,none", "accept\tconn,conn\tshutdown,close", "accept\ttlshang,tlshang\tclose,close"]
    out += unordered_endings(tier, rng)
    out += multi_cases(tier, rng)
    return out


def multi_cases(tier, rng):
    """several connections of ONE server served at the same time, all fed the same conversation (probe `multi`): whatever the server
    shares between its connections (tables built once, caches) is touched from several goroutines — the race detector judges that —
    and every connection must be answered alike"""
    cases = []
    convs = [[b"EHLO x\r\n", b"QUIT\r\n"], [b"EHLO x\r\n", b"MAIL FROM:<s@x>\r\n", b"RCPT TO:<r@x>\r\n", b"DATA\r\n", b"hi\r\n.\r\n", b"QUIT\r\n"],
             [b"EHLO x\r\n", b"MAIL FROM:<s@x> SIZE=5 BODY=8BITMIME\r\n", b"RCPT TO:<r@x> NOTIFY=NEVER\r\n", b"BDAT 2 LAST\r\nhi", b"EHLO y\r\n", b"NOOP\r\n"],
             [b"HELO x\r\n", b"FOO\r\n", b"AUTH PLAIN AGFiAHB3\r\n", b"EHLO z\r\n", b"STARTTLS\r\n"]]
    for cfg in (dict(), dict(tls="avail", insecure=1, authsess=1, mechs=hx(b"PLAIN"), utf8=1, dsn=1, maxmsg=100, maxrcpt=5), dict(lmtp=1, lmtpsess=1, dsn=1)):
        for conv in convs:
            lines = [(b"LHLO" + l[4:] if cfg.get("lmtp") and l[:4] in (b"EHLO", b"HELO") else l) for l in conv]
            for n in (2, 4):
                for _ in range(1 if tier == "quick" else 5):
                    cases.append("\t".join(["multi", g.cfg_str(cfg), str(n), ",".join(hx(l) for l in lines)]))
    return cases


def unordered_endings(tier, rng):
    """Server.Close, Shutdown and the application's own Conn.Close fired WITHOUT waiting for the command loop to get anywhere: the
    detector reports a pair of accesses only when nothing orders them, and every other lifecycle case waits ("idle") for the loop before
    it ends the server — which orders the loop's accesses before Close's.  Here the last segment (a chunk, the rest of a chunk, MAIL,
    RCPT, DATA, a second EHLO, RSET, ...) is pushed and the ending follows at once or after 1-3 ms of sleeping (no synchronisation)."""
    cases = []
    E = [b"EHLO x\r\n", b"MAIL FROM:<s@x>\r\n", b"RCPT TO:<a@x>\r\n"]
    L = [b"LHLO x\r\n", b"MAIL FROM:<s@x>\r\n", b"RCPT TO:<a@x>\r\n", b"RCPT TO:<b@x>\r\n"]
    lasts = [[b"BDAT 3\r\nabc"], [b"BDAT 3\r\nabc", b"BDAT 10\r\nhello"], [b"BDAT 3 LAST\r\nabc"], [b"BDAT 3\r\nabc", b"BDAT 2 LAST\r\nxy"],
             [b"DATA\r\nx\r\n.\r\n"], [b"BDAT 3\r\nabc", b"RSET\r\n"], [b"EHLO again\r\n"], [b"BDAT 3\r\nabc", b"MAIL FROM:<x@y>\r\n"],
             [b"RCPT TO:<z@w>\r\n"], [b"BDAT 3\r\nabc", b"DATA\r\n"], [b"NOOP\r\n"], [b"QUIT\r\n"], [b"BDAT 3\r\nabc", b"QUIT\r\n"]]
    be = "NS=;MAIL=;RCPT=;DATA=%s|%s;AUTH=;SASL=;HS=" % (g.ddec(ret="prop"), g.ddec(ret="prop"))
    reps = 1 if tier == "quick" else 4
    for lm, lms in ((0, 0), (1, 0), (1, 1)):
        pre = L if lm else E
        for last in lasts:
            for ending in ("close", "connclose", "shutdown"):
                for p in (0, 1, 3):
                    for late in (0, 1):
                        if tier == "quick" and (p + late + len(last) + lm) % 2:
                            continue
                        for _ in range(reps):
                            ev = (["latestart"] if late else []) + [seg(*pre), "idle"] + [seg(x) for x in last[:-1]] + [seg(last[-1])] \
                                + (["pause:%d" % p] if p else []) + [ending]
                            cases.append("\t".join(["sched", g.cfg_str(dict(lmtp=lm, lmtpsess=lms)), be, ";".join(ev)]) + "\tTAG=lifecycle")
    return cases
