"""C11 — MAIL/RCPT arguments reach the backend exactly as sent, or are refused."""
import json
from vlib.core import Group
from vlib.props import codeccommon as cm, convcommon as cc
from vlib import convgen as g
from vlib.gen import hx, unhx, all_strings

ID = "C11"
LEVEL = "proof"
TRUSTED = cm.TRUSTED + ["the reference grammar (lean/SmtpV/Spec/Rfc5321.lean) is a hand-written recogniser of RFC 5321 4.1.2 without SMTPUTF8"]
ASSUMPTIONS = ["documented leniencies are 'unspecified' and not judged: missing angle brackets, spaces after the colon, bare-LF line end, "
               "parameter directly after '>', duplicate parameters, a value on a flag parameter, malformed source routes"]
RULE = ("parse probe (parseCmd, parseArgs, parseHelloArgument, the four path-parser entry points, cutPrefixFold): every string up to the "
        "tier's length over the 16 symbols {'<','>','@',':',',','\"','\\\\','.',SP,TAB,'a','[',']',NUL,e-acute,'-'}, grammar-generated valid paths and "
        "every single-point mutation of them, command lines over {NUL,CR,LF,SP,TAB,'a','S',long-s,':',0x80}; each path is classified by the "
        "reference grammar into valid / invalid(class) / unspecified and the parser's verdict judged. conv probe: MAIL/RCPT lines with each "
        "parameter x {good, bad value, disabled, duplicated, lower-case, long-s spelled} x flag sets. "
        "non-trivial = the string contains '@' or a parameter; distinct = distinct case line")
THEOREMS = ["C11_exact_mailbox", "C11_special_refused", "C11_null_sender"]
nontrivial = lambda case, ans: "40" in case.split("\t")[-1] or case.startswith("conv")
signature = lambda case, ans: (case.split("\t")[1] + "->" + ans.split("/")[0]) if case.startswith("parse") else cc.signature(case, ans)
mutate = lambda case, rng: []
shrink = lambda case: cm.shrink_hex_field(2)(case) if case.startswith("parse") else []


def _known(cls):
    return lambda case, impl, reason: case.startswith("parse") and ("(class %s)" % cls) in reason


KNOWN = {"path_domain_not_validated": _known("domain"), "path_empty_atom": _known("empty-atom"),
         "path_octet_outside_grammar": _known("octet-outside-grammar"), "path_quoted_string_content": _known("bad-quoted-string")}

SYM = [b"<", b">", b"@", b":", b",", b'"', b"\\", b".", b" ", b"\t", b"a", b"[", b"]", b"\x00", "é".encode(), b"-"]
VALID = [b"<a@b>", b"<a.b@c.d>", b'<"a b"@c>', b'<"a\\"b"@c>', b"<@r1,@r2:a@b>", b"<a@[1.2.3.4]>", b"<a-b@c-d.e>", b"<a@b> X=1", b"<!#$%&'*+-/=?^_`{|}~@b>"]


def project(case, ans):
    return cc.project(ans, codes="exact", enh=False, drecs="none") if case.startswith("conv") else ans


def mailargs_cases(tier, rng):
    cases = []
    good = {"SIZE": b"SIZE=5", "BODY": b"BODY=8BITMIME", "SMTPUTF8": b"SMTPUTF8", "REQUIRETLS": b"REQUIRETLS", "RET": b"RET=FULL",
            "ENVID": b"ENVID=a+2Bb", "AUTH": b"AUTH=u+40d", "BINARYMIME": b"BODY=BINARYMIME"}
    bad = {"SIZE": b"SIZE=-1", "BODY": b"BODY=9BIT", "RET": b"RET=NONE", "ENVID": b"ENVID=a+2", "AUTH": b"AUTH=+ZZ", "X": b"XYZ=1",
           "EQ": b"SIZE=1=2", "ENVID2": b"ENVID="}
    rgood = {"NOTIFY": b"NOTIFY=SUCCESS,FAILURE", "ORCPT": b"ORCPT=rfc822;o+40x", "ORCPTU": b"ORCPT=utf-8;o\\x{E9}@x", "RRVS": b"RRVS=2020-01-02T03:04:05Z",
             "RRVS2": b"RRVS=2020-02-29T23:59:59+05:30;C", "ORCPT;": b"ORCPT=rfc822;bob;ext@example.com", "ORCPT;;": b"ORCPT=rfc822;bob@example.com;",
             "ORCPTU;": b"ORCPT=utf-8;g\\x{3D}bob;s\\x{3D}smith@example.com", "ENVID;": b"RRVS=2020-01-02T03:04:05Z;C;x"}
    rbad = {"NOTIFY": b"NOTIFY=NEVER,SUCCESS", "NOTIFY3": b"NOTIFY=SUCCESS,NEVER", "NOTIFY4": b"NOTIFY=FAILURE,DELAY,NEVER", "NOTIFY5": b"notify=success,never",
            "NOTIFY6": b"NOTIFY=SUCCESS,SUCCESS", "NOTIFY7": b"NOTIFY=SUCCESS,", "NOTIFY8": b"NOTIFY=,SUCCESS", "NOTIFY9": b"NOTIFY=NEVER,NEVER", "NOTIFY2": b"NOTIFY=", "ORCPT": b"ORCPT=x400;a", "ORCPT2": b"ORCPT=rfc822;", "RRVS": b"RRVS=2021-02-29T00:00:00Z",
            "X": b"FOO"}
    flagsets = [dict(), dict(utf8=1, reqtls=1, binmime=1, dsn=1, rrvs=1), dict(dsn=1), dict(utf8=1, binmime=1), dict(rrvs=1, reqtls=1)]
    def variants(p):
        k, _, v = p.partition(b"=")
        yield p
        yield k.lower() + (b"=" + v if v else b"")
        if b"S" in k:
            yield k.replace(b"S", "ſ".encode(), 1) + (b"=" + v if v else b"")
        yield p + b" " + p                      # duplicated
    for fl in flagsets:
        for src, isr in ((good, False), (bad, False), (rgood, True), (rbad, True)):
            for name, p in src.items():
                for pv in variants(p):
                    c = g.Conv(fl)
                    c.add(b"EHLO x\r\n")
                    if isr:
                        c.add(b"MAIL FROM:<s@x>\r\n"); c.add(b"RCPT TO:<r@x> " + pv + b"\r\n")
                    else:
                        c.add(b"MAIL FROM:<s@x> " + pv + b"\r\n")
                    c.add(b"RSET\r\n")
                    cases.append(c.case(seg="line"))
        # two good parameters together, and paths from the valid list
        for a in list(good.values())[:5]:
            for b in list(good.values())[3:]:
                if a.split(b"=")[0] != b.split(b"=")[0]:
                    c = g.Conv(fl); c.add(b"EHLO x\r\n"); c.add(b"MAIL FROM:<s@x> " + a + b" " + b + b"\r\n"); cases.append(c.case(seg="line"))
        for v in VALID:
            c = g.Conv(fl); c.add(b"EHLO x\r\n"); c.add(b"MAIL FROM:" + v + b"\r\n"); c.add(b"RCPT TO:" + v + b"\r\n"); cases.append(c.case(seg="line"))
    return cases


def groups(tier, rng):
    L = 4 if tier == "quick" else 5
    paths, cmds, mut = [], [], []
    for s in all_strings(SYM, L, 1):
        paths.append("parse\tpath\t" + hx(s))
        if s.startswith(b"<") or rng.random() < 0.05:
            paths.append("parse\trpath\t" + hx(s))
        if rng.random() < 0.1:
            paths.append("parse\tmailbox\t" + hx(s)); paths.append("parse\tlocalpart\t" + hx(s))
    for v in VALID:
        mut.append("parse\tpath\t" + hx(v))
        for i in range(len(v) + 1):
            for t in SYM:
                mut.append("parse\tpath\t" + hx(v[:i] + t + v[i:]))
                if i < len(v):
                    mut.append("parse\tpath\t" + hx(v[:i] + t + v[i + 1:]))
            if i < len(v):
                mut.append("parse\tpath\t" + hx(v[:i] + v[i + 1:]))
    CS = [b"\x00", b"\r", b"\n", b" ", b"\t", b"a", b"S", "ſ".encode(), b":", b"\x80"]
    for s in all_strings(CS, 5 if tier == "quick" else 6):
        cmds.append("parse\tcmd\t" + hx(s))
    for base in (b"MAIL FROM:<a@b>", b"STARTTLS", b"starttls x", "ſtarttls".encode(), b"NOOP", b"RSET ", b"DATA\r\n", b"EHLO  a b "):
        for i in range(len(base) + 1):
            for t in CS:
                cmds.append("parse\tcmd\t" + hx(base[:i] + t + base[i:]))
    for s in all_strings([b" ", b"=", b"a", b"B", b"\t", "ſ".encode(), b"\xc2\xa0", b"\x85"], 5):
        cmds.append("parse\targs\t" + hx(s))
        cmds.append("parse\thello\t" + hx(s))
        cmds.append("parse\tcutfrom\t" + hx(b"FROM" + s))
    return [Group("parse/paths-enumerated", paths, project=project, theorems=THEOREMS),
            Group("parse/paths-mutated", mut, project=project, theorems=THEOREMS),
            Group("parse/commands-and-args", cmds, project=project, theorems=THEOREMS, monitor=False),
            Group("conv/mail-rcpt-parameters", mailargs_cases(tier, rng), project=project, theorems=THEOREMS, monitor=False)]


def replay_groups(path):
    return [Group("replay", [json.load(open(path))["case"]], project=project, theorems=THEOREMS)]
