"""C11 — MAIL/RCPT arguments reach the backend exactly as sent, or are refused."""
import json
from vlib.core import Group
from vlib.props import codeccommon as cm, convcommon as cc
from vlib import convgen as g
from vlib.gen import hx, unhx, all_strings

ID = "C11"
LEVEL = "proof"
TRUSTED = cm.TRUSTED + ["the reference grammar (lean/SmtpV/Spec/Rfc5321.lean) is a hand-written recogniser of RFC 5321 4.1.2 without SMTPUTF8"]
ASSUMPTIONS = ["documented leniencies are 'unspecified' and not judged: missing angle brackets, spaces after the colon, bare-LF line end, "
               "parameter directly after '>', duplicate parameters, a value on a flag parameter, malformed source routes"]
RULE = ("conv probe, parameters against a reference: MAIL/RCPT lines built from known option values (every subset, random order, random letter case, xtext with superfluous escapes, RRVS in several zones) - the backend must see exactly these values, once; single faulty parameters (alone or among good ones) and parameters of disabled extensions - 5xx and no backend call | " "parse probe (parseCmd, parseArgs, parseHelloArgument, the four path-parser entry points, cutPrefixFold): every string up to the "
        "tier's length over the 16 symbols {'<','>','@',':',',','\"','\\\\','.',SP,TAB,'a','[',']',NUL,e-acute,'-'}, grammar-generated valid paths and "
        "every single-point mutation of them, command lines over {NUL,CR,LF,SP,TAB,'a','S',long-s,':',0x80}; each path is classified by the "
        "reference grammar into valid / invalid(class) / unspecified and the parser's verdict judged. conv probe: MAIL/RCPT lines with each "
        "parameter x {good, bad value, disabled, duplicated, lower-case, long-s spelled} x flag sets. "
        "non-trivial = the string contains '@' or a parameter; distinct = distinct case line")
THEOREMS = ["C11_exact_mailbox", "C11_special_refused", "C11_null_sender", "C11_quoted_exact", "C11_mail_exact_or_refused", "C11_mail_refused_before_backend", "C11_rcpt_exact_or_refused", "C11_empty_value_unparsable", "C11_empty_value_refused"]
nontrivial = lambda case, ans: "40" in case.split("\t")[-1] or case.startswith("conv")
signature = lambda case, ans: (case.split("\t")[1] + "->" + ans.split("/")[0]) if case.startswith("parse") else cc.signature(case, ans)
mutate = lambda case, rng: []
shrink = lambda case: cm.shrink_hex_field(2)(case) if case.startswith("parse") else []


def _known(cls):
    return lambda case, impl, reason: case.startswith("parse") and ("(class %s)" % cls) in reason


def _known_rrvs(case, impl, reason):
    return case.endswith("LENIENT=rrvs-trailer") and "was not refused with 5xx before the backend" in reason


KNOWN = {"rrvs_trailer_ignored": _known_rrvs, "path_domain_not_validated": _known("domain"), "path_empty_atom": _known("empty-atom"),
         "path_octet_outside_grammar": _known("octet-outside-grammar"), "path_quoted_string_content": _known("bad-quoted-string")}

SYM = [b"<", b">", b"@", b":", b",", b'"', b"\\", b".", b" ", b"\t", b"a", b"[", b"]", b"\x00", "é".encode(), b"-"]
VALID = [b"<a@b>", b"<a.b@c.d>", b'<"a b"@c>', b'<"a\\"b"@c>', b"<@r1,@r2:a@b>", b"<a@[1.2.3.4]>", b"<a-b@c-d.e>", b"<a@b> X=1", b"<!#$%&'*+-/=?^_`{|}~@b>"]


def project(case, ans):
    return cc.project(ans, codes="exact", enh=False, drecs="none") if case.startswith("conv") else ans


def mailargs_cases(tier, rng):
    cases = []
    good = {"SIZE": b"SIZE=5", "BODY": b"BODY=8BITMIME", "SMTPUTF8": b"SMTPUTF8", "REQUIRETLS": b"REQUIRETLS", "RET": b"RET=FULL",
            "ENVID": b"ENVID=a+2Bb", "AUTH": b"AUTH=u+40d", "BINARYMIME": b"BODY=BINARYMIME"}
    bad = {"SIZE": b"SIZE=-1", "BODY": b"BODY=9BIT", "RET": b"RET=NONE", "ENVID": b"ENVID=a+2", "AUTH": b"AUTH=+ZZ", "X": b"XYZ=1",
           "EQ": b"SIZE=1=2", "ENVID2": b"ENVID="}
    rgood = {"NOTIFY": b"NOTIFY=SUCCESS,FAILURE", "ORCPT": b"ORCPT=rfc822;o+40x", "ORCPTU": b"ORCPT=utf-8;o\\x{E9}@x", "RRVS": b"RRVS=2020-01-02T03:04:05Z",
             "RRVS2": b"RRVS=2020-02-29T23:59:59+05:30;C", "ORCPT;": b"ORCPT=rfc822;bob;ext@example.com", "ORCPT;;": b"ORCPT=rfc822;bob@example.com;",
             "ORCPTU;": b"ORCPT=utf-8;g\\x{3D}bob;s\\x{3D}smith@example.com", "ENVID;": b"RRVS=2020-01-02T03:04:05Z;C;x"}
    rbad = {"NOTIFY": b"NOTIFY=NEVER,SUCCESS", "NOTIFY3": b"NOTIFY=SUCCESS,NEVER", "NOTIFY4": b"NOTIFY=FAILURE,DELAY,NEVER", "NOTIFY5": b"notify=success,never",
            "NOTIFY6": b"NOTIFY=SUCCESS,SUCCESS", "NOTIFY7": b"NOTIFY=SUCCESS,", "NOTIFY8": b"NOTIFY=,SUCCESS", "NOTIFY9": b"NOTIFY=NEVER,NEVER", "NOTIFY2": b"NOTIFY=", "ORCPT": b"ORCPT=x400;a", "ORCPT2": b"ORCPT=rfc822;", "RRVS": b"RRVS=2021-02-29T00:00:00Z",
            "X": b"FOO"}
    flagsets = [dict(), dict(utf8=1, reqtls=1, binmime=1, dsn=1, rrvs=1), dict(dsn=1), dict(utf8=1, binmime=1), dict(rrvs=1, reqtls=1)]
    def variants(p):
        k, _, v = p.partition(b"=")
        yield p
        yield k.lower() + (b"=" + v if v else b"")
        if b"S" in k:
            yield k.replace(b"S", "ſ".encode(), 1) + (b"=" + v if v else b"")
        yield p + b" " + p                      # duplicated
    for fl in flagsets:
        for src, isr in ((good, False), (bad, False), (rgood, True), (rbad, True)):
            for name, p in src.items():
                for pv in variants(p):
                    c = g.Conv(fl)
                    c.add(b"EHLO x\r\n")
                    if isr:
                        c.add(b"MAIL FROM:<s@x>\r\n"); c.add(b"RCPT TO:<r@x> " + pv + b"\r\n")
                    else:
                        c.add(b"MAIL FROM:<s@x> " + pv + b"\r\n")
                    c.add(b"RSET\r\n")
                    cases.append(c.case(seg="line"))
        # two good parameters together, and paths from the valid list
        for a in list(good.values())[:5]:
            for b in list(good.values())[3:]:
                if a.split(b"=")[0] != b.split(b"=")[0]:
                    c = g.Conv(fl); c.add(b"EHLO x\r\n"); c.add(b"MAIL FROM:<s@x> " + a + b" " + b + b"\r\n"); cases.append(c.case(seg="line"))
        for v in VALID:
            c = g.Conv(fl); c.add(b"EHLO x\r\n"); c.add(b"MAIL FROM:" + v + b"\r\n"); c.add(b"RCPT TO:" + v + b"\r\n"); cases.append(c.case(seg="line"))
    return cases


# --- parameters against a reference: grammar-derived lines whose meaning is known by construction ------------------------------
def _xtext(raw, rng, extra=0.0):
    """RFC 3461 xtext, written independently of the library: '+', '=' and everything outside 33..126 as +HH (upper-case hex);
    with `extra`, also characters that need no encoding (any character may be hex-encoded)"""
    out = b""
    for ch in raw:
        if ch < 33 or ch > 126 or ch in b"+=" or rng.random() < extra:
            out += b"+%02X" % ch
        else:
            out += bytes([ch])
    return out


def _hx(b):
    return b.hex() if b else "-"


def _recase(k, rng):
    how = rng.randrange(3)
    return k if how == 0 else k.lower() if how == 1 else bytes(c ^ 0x20 if chr(c).isalpha() and rng.random() < 0.5 else c for c in k)


def reference_cases(tier, rng):
    """MAIL/RCPT lines built from known option values (every subset, random order, random letter case of keywords and of the
    case-insensitive values, xtext with superfluous hex escapes) -> the backend must see exactly these values; and single faulty
    parameters among good ones, parameters of disabled extensions -> a 5xx reply and no backend call"""
    import itertools
    from datetime import datetime, timezone, timedelta
    ALL = dict(utf8=1, reqtls=1, binmime=1, dsn=1, rrvs=1)
    cases = []
    FULL = b" SIZE=1000 BODY=BINARYMIME SMTPUTF8 RET=HDRS ENVID=QQ314159 AUTH=<>"     # (no REQUIRETLS: refused on plaintext, and two faulty parameters on one line are answered in map order)
    def mail_case(fl, toks, xp):
        # the line under test alone, or after an earlier MAIL (to another address) of the same connection that set every option:
        # answered 451 by the backend, refused for a faulty parameter, or accepted and then replaced — nothing of it may stick
        hist = rng.choice(["none", "none", "backend-451", "refused-param", "accepted"]) if all(fl.get(k) for k in ("utf8", "reqtls", "binmime", "dsn")) else "none"
        c = g.Conv(fl); c.add(b"EHLO x\r\n")
        if hist == "backend-451":
            c.add(b"MAIL FROM:<p@x>" + FULL + b"\r\n", MAIL=g.se(451, "4.3.0", b"try again"))
        elif hist == "refused-param":
            c.add(b"MAIL FROM:<p@x>" + FULL + b" FOO=1\r\n")
        elif hist == "accepted":
            c.add(b"MAIL FROM:<p@x>" + FULL + b"\r\n", MAIL="ok")
        c.add(b"MAIL FROM:<s@x>" + b"".join(b" " + t for t in toks) + b"\r\n"); c.add(b"NOOP\r\n")
        cases.append(c.case(seg="line") + "\tXP=" + xp)
    def rcpt_case(fl, toks, xp):
        c = g.Conv(fl); c.add(b"EHLO x\r\n"); c.add(b"MAIL FROM:<s@x>\r\n")
        c.add(b"RCPT TO:<r@x>" + b"".join(b" " + t for t in toks) + b"\r\n"); c.add(b"NOOP\r\n")
        cases.append(c.case(seg="line") + "\tXP=" + xp)
    n = 400 if tier == "quick" else 4000
    envids = [b"e1", b"a+b=c d", b"QUJDRA==", b"x" * 40, b"~!#$%&'()*,-./:;<>?@[\\]^_`{|}"]
    auths = [b"", b"u@d.org", b"first.last+tag@sub.d.org", b"a=b@d"]
    for _ in range(n):
        o = dict(body=b"", size=0, reqtls=0, utf8=0, ret=b"", envid=b"", auth=None)
        toks = []
        if rng.random() < 0.5:
            o["size"] = rng.choice([1, 42, 99999, 4294967295]); toks.append(_recase(b"SIZE", rng) + b"=%d" % o["size"])
        if rng.random() < 0.5:
            o["body"] = rng.choice([b"7BIT", b"8BITMIME", b"BINARYMIME"]); toks.append(_recase(b"BODY", rng) + b"=" + _recase(o["body"], rng))
        if rng.random() < 0.4:
            o["utf8"] = 1; toks.append(_recase(b"SMTPUTF8", rng))
        if rng.random() < 0.4:
            o["reqtls"] = 1; toks.append(_recase(b"REQUIRETLS", rng))
        if rng.random() < 0.5:
            o["ret"] = rng.choice([b"FULL", b"HDRS"]); toks.append(_recase(b"RET", rng) + b"=" + _recase(o["ret"], rng))
        if rng.random() < 0.5:
            o["envid"] = rng.choice(envids); toks.append(_recase(b"ENVID", rng) + b"=" + _xtext(o["envid"], rng, rng.choice([0, 0, 0.3])))
        if rng.random() < 0.5:
            o["auth"] = rng.choice(auths)
            toks.append(_recase(b"AUTH", rng) + b"=" + (b"<>" if o["auth"] == b"" else _xtext(o["auth"], rng, rng.choice([0, 0.3]))))
        rng.shuffle(toks)
        xp = "M:body=%s,size=%d,reqtls=%d,utf8=%d,ret=%s,envid=%s,auth=%s" % (_hx(o["body"]), o["size"], o["reqtls"], o["utf8"], _hx(o["ret"]),
                                                                            _hx(o["envid"]), "nil" if o["auth"] is None else _hx(o["auth"]))
        # REQUIRETLS is an extension of TLS-protected connections only (RFC 8689; advertised and honoured only there, 548a344): on a
        # plaintext connection the parameter is refused like that of a disabled extension; under (implicit) TLS it is delivered
        if o["reqtls"] and rng.random() < 0.5:
            mail_case(ALL, toks, "REFUSED:M")
        else:
            mail_case(dict(ALL, tls="implicit") if o["reqtls"] else ALL, toks, xp)
    # SIZE values around the edges of 32- and 64-bit integers (RFC 1870 allows 20 digits): refused, or delivered exactly — never altered
    for v in (2 ** 31 - 1, 2 ** 31, 2 ** 32 - 1, 2 ** 32, 2 ** 32 + 5, 2 ** 63 - 1, 2 ** 63, 2 ** 64 - 100, 2 ** 64 - 1, 2 ** 64, 10 ** 19, 10 ** 20 - 1, 10 ** 25):
        for extra in ([], [b"BODY=8BITMIME"]):
            xp = "M?:body=%s,size=%d,reqtls=0,utf8=0,ret=-,envid=-,auth=nil" % (_hx(b"8BITMIME") if extra else "-", v)
            mail_case(ALL, [b"SIZE=%d" % v] + extra, xp)
            mail_case(dict(ALL, maxmsg=1000), [b"SIZE=%d" % v] + extra, "REFUSED:M" if v > 1000 else xp)
    notifies = [[b"NEVER"], [b"SUCCESS"], [b"FAILURE", b"DELAY"], [b"DELAY", b"SUCCESS", b"FAILURE"], [b"SUCCESS", b"FAILURE"]]
    orcpts = [b"o@x.org", b"bob;ext@example.com", b"a+b=c d@x", b"o@x;"]
    for _ in range(n):
        o = dict(notify=[], orcpttype=b"", orcpt=b"", rrvs=None)
        toks = []
        if rng.random() < 0.6:
            o["notify"] = rng.choice(notifies); toks.append(_recase(b"NOTIFY", rng) + b"=" + b",".join(_recase(v, rng) for v in o["notify"]))
        if rng.random() < 0.6:
            o["orcpttype"], o["orcpt"] = b"RFC822", rng.choice(orcpts)
            toks.append(_recase(b"ORCPT", rng) + b"=" + _recase(b"rfc822", rng) + b";" + _xtext(o["orcpt"], rng, rng.choice([0, 0.3])))
        if rng.random() < 0.5:
            t = rng.choice([0, 1577934245, 951868799, 4102444799, 1709251199])
            off = rng.choice([0, 0, 3600, -18000, 19800, 50400])
            o["rrvs"] = t
            dt = datetime.fromtimestamp(t, timezone(timedelta(seconds=off)))
            txt = dt.strftime("%Y-%m-%dT%H:%M:%S") + ("Z" if off == 0 and rng.random() < 0.7 else "%s%02d:%02d" % ("+" if off >= 0 else "-", abs(off) // 3600, abs(off) % 3600 // 60))
            toks.append(_recase(b"RRVS", rng) + b"=" + txt.encode() + rng.choice([b"", b"", b";C", b";R"]))
        rng.shuffle(toks)
        xp = "R:notify=%s,orcpttype=%s,orcpt=%s,rrvs=%s" % ("+".join(_hx(v) for v in o["notify"]), _hx(o["orcpttype"]), _hx(o["orcpt"]),
                                                           "nil" if o["rrvs"] is None else str(o["rrvs"]))
        rcpt_case(ALL, toks, xp)
    # one faulty parameter, alone or among good ones (the refusal does not depend on the order in which parameters are examined)
    mbad = [b"SIZE=abc", b"SIZE=", b"SIZE=-1", b"SIZE=1=2", b"BODY=9BIT", b"BODY=", b"RET=SOME", b"RET=", b"ENVID=", b"ENVID=a+2", b"ENVID=a+zz", b"ENVID=a+07b",
            b"ENVID=a=b", b"AUTH=+ZZ", b"AUTH=a+20b", b"AUTH=", b"XYZ=1", b"FOO", b"=1", b"SMTPUTF8=1=2",
            # a parameter that takes no value, given one (RFC 6531 3.4, RFC 8689 2)
            b"SMTPUTF8=x", b"REQUIRETLS=1", b"smtputf8=yes", b"REQUIRETLS=REQUIRETLS",
            # ... or an equals sign and nothing: esmtp-value is 1*(%d33-60 / %d62-126) (RFC 5321 4.1.2)
            b"SMTPUTF8=", b"smtputf8=", b"REQUIRETLS=", b"FOO="]
    mgood = [b"SIZE=5", b"BODY=8BITMIME", b"RET=FULL", b"ENVID=ok", b"SMTPUTF8", b"AUTH=<>"]
    for bad in mbad:
        mail_case(ALL, [bad], "REFUSED:M")
        for _ in range(3):
            others = [t for t in rng.sample(mgood, rng.randrange(1, 4)) if t.split(b"=")[0] != bad.split(b"=")[0]]
            toks = others + [bad]; rng.shuffle(toks)
            mail_case(ALL, toks, "REFUSED:M")
    rbad = [b"NOTIFY=NEVER,SUCCESS", b"NOTIFY=SUCCESS,NEVER", b"NOTIFY=FAILURE,DELAY,NEVER", b"notify=success,never", b"NOTIFY=SUCCESS,SUCCESS", b"NOTIFY=SUCCESS,",
            b"NOTIFY=,SUCCESS", b"NOTIFY=", b"NOTIFY=BOGUS", b"NOTIFY=SUCCESS=1", b"ORCPT=rfc822", b"ORCPT=rfc822;", b"ORCPT=;a@b", b"ORCPT=rfc822;a+zz", b"ORCPT=rfc822;a+07b",
            b"RRVS=notatime", b"RRVS=2021-02-29T00:00:00Z", b"RRVS=", b"FOO", b"FOO=1", b"FOO=", b"ORCPT="]
    rgood = [b"NOTIFY=SUCCESS", b"ORCPT=rfc822;o@x", b"RRVS=2020-01-02T03:04:05Z"]
    for bad in rbad:
        rcpt_case(ALL, [bad], "REFUSED:R")
        for _ in range(2):
            others = [t for t in rng.sample(rgood, rng.randrange(1, 3)) if t.split(b"=")[0].upper() != bad.split(b"=")[0].upper()]
            toks = others + [bad]; rng.shuffle(toks)
            rcpt_case(ALL, toks, "REFUSED:R")
    # RFC 7293: rrvs-param = "RRVS=" date-time [ ";" ( "C" / "R" ) ] — anything else behind the semicolon is malformed (the server ignores
    # it, and the pinned suite wants it so: TestServerRRVS sends ";ign0r3.th1s;othr_stuff" — known finding)
    for t in (b"RRVS=2020-01-02T03:04:05Z;garbage", b"RRVS=2020-01-02T03:04:05Z;C;x", b"rrvs=2020-01-02T03:04:05+01:00;ign0r3.th1s;othr_stuff"):
        rcpt_case(ALL, [t], "REFUSED:R\tLENIENT=rrvs-trailer")
        rcpt_case(ALL, [b"NOTIFY=SUCCESS", t], "REFUSED:R\tLENIENT=rrvs-trailer")
    # parameters of disabled extensions
    for flag, tok in (("utf8", b"SMTPUTF8"), ("reqtls", b"REQUIRETLS"), ("binmime", b"BODY=BINARYMIME"), ("dsn", b"RET=FULL"), ("dsn", b"ENVID=e")):
        for t in (tok, tok.lower(), _recase(tok, rng)):
            mail_case(dict(ALL, **{flag: 0}), [t], "REFUSED:M")
            mail_case(dict(ALL, **{flag: 0}), [b"SIZE=3", t], "REFUSED:M")
    for flag, tok in (("dsn", b"NOTIFY=SUCCESS"), ("dsn", b"ORCPT=rfc822;o@x"), ("rrvs", b"RRVS=2020-01-02T03:04:05Z")):
        for t in (tok, tok.lower(), _recase(tok, rng)):
            rcpt_case(dict(ALL, **{flag: 0}), [t], "REFUSED:R")
    return cases


def groups(tier, rng):
    L = 4 if tier == "quick" else 5
    paths, cmds, mut = [], [], []
    for s in all_strings(SYM, L, 1):
        paths.append("parse\tpath\t" + hx(s))
        if s.startswith(b"<") or rng.random() < 0.05:
            paths.append("parse\trpath\t" + hx(s))
        if rng.random() < 0.1:
            paths.append("parse\tmailbox\t" + hx(s)); paths.append("parse\tlocalpart\t" + hx(s))
    for v in VALID:
        mut.append("parse\tpath\t" + hx(v))
        for i in range(len(v) + 1):
            for t in SYM:
                mut.append("parse\tpath\t" + hx(v[:i] + t + v[i:]))
                if i < len(v):
                    mut.append("parse\tpath\t" + hx(v[:i] + t + v[i + 1:]))
            if i < len(v):
                mut.append("parse\tpath\t" + hx(v[:i] + v[i + 1:]))
    CS = [b"\x00", b"\r", b"\n", b" ", b"\t", b"a", b"S", "ſ".encode(), b":", b"\x80"]
    for s in all_strings(CS, 5 if tier == "quick" else 6):
        cmds.append("parse\tcmd\t" + hx(s))
    for base in (b"MAIL FROM:<a@b>", b"STARTTLS", b"starttls x", "ſtarttls".encode(), b"NOOP", b"RSET ", b"DATA\r\n", b"EHLO  a b "):
        for i in range(len(base) + 1):
            for t in CS:
                cmds.append("parse\tcmd\t" + hx(base[:i] + t + base[i:]))
    for s in all_strings([b" ", b"=", b"a", b"B", b"\t", "ſ".encode(), b"\xc2\xa0", b"\x85"], 5):
        cmds.append("parse\targs\t" + hx(s))
        cmds.append("parse\thello\t" + hx(s))
        cmds.append("parse\tcutfrom\t" + hx(b"FROM" + s))
    return [Group("parse/paths-enumerated", paths, project=project, theorems=THEOREMS),
            Group("parse/paths-mutated", mut, project=project, theorems=THEOREMS),
            Group("parse/commands-and-args", cmds, project=project, theorems=THEOREMS, monitor=False),
            Group("conv/mail-rcpt-parameters", mailargs_cases(tier, rng), project=project, theorems=THEOREMS, monitor=False),
            Group("conv/parameters-against-reference", reference_cases(tier, rng), project=project, theorems=THEOREMS)]


def replay_groups(path):
    return [Group("replay", [json.load(open(path))["case"]], project=project, theorems=THEOREMS)]
