"""C12 — EHLO advertises exactly what the configuration enables, and honours it."""
import itertools, json
from vlib.core import Group
from vlib.props import convcommon as cc
from vlib import convgen as g
from vlib.gen import hx

ID = "C12"
LEVEL = "proof"
TRUSTED = cc.TRUSTED
ASSUMPTIONS = ["TLS-active configurations are reached through a real in-process TLS handshake (implicit TLS); crypto/tls itself is not modelled"]
RULE = ("conv probe, EXHAUSTIVE over the configuration space: 5 extension flags x size limit {0,N} x recipient limit {0,N} x TLS "
        "{none, available, active} x AllowInsecureAuth x backend {plain Session, AuthSession with two mechanisms, AuthSession with none} x {SMTP, LMTP} = 4608 configurations; in each: "
        "EHLO/LHLO, then one probe command per extension (SMTPUTF8, REQUIRETLS, BODY=BINARYMIME, RET/ENVID, NOTIFY, ORCPT, RRVS, AUTH, "
        "STARTTLS), the same probes with keywords and values in another letter case, plus a HELO conversation; capability lines compared as an ordered list with the specification table, probe "
        "replies with the 504 rule. non-trivial = every case (a capability reply is produced); distinct = distinct configuration")
THEOREMS = ["C12_caps_exact", "C12_helo_none", "C12_ehlo_reply", "C12_disabled_504_mail", "C12_disabled_504_rcpt", "caps_keywords",
            "C12_starttls_honoured", "C12_auth_honoured", "C12_keyword_iff_enabled", "C12_requiretls_honoured_iff_advertised", "C12_caps_depend_on_config_and_tls_only"]
nontrivial = lambda case, ans: True
signature = cc.signature
mutate = lambda case, rng: []
shrink = lambda case: []
KNOWN = {}


def project(case, ans):
    return cc.project(ans, codes="exact", enh=True, ehlo=True, drecs="none")


PROBES = [b"MAIL FROM:<s@x> SMTPUTF8", b"RSET", b"MAIL FROM:<s@x> REQUIRETLS", b"RSET", b"MAIL FROM:<s@x> BODY=BINARYMIME", b"RSET",
          b"MAIL FROM:<s@x> RET=FULL ENVID=e1", b"RSET", b"MAIL FROM:<s@x>", b"RCPT TO:<a@x> NOTIFY=NEVER",
          b"RCPT TO:<a@x> ORCPT=rfc822;a+40x", b"RCPT TO:<a@x> RRVS=2020-01-02T03:04:05Z", b"RSET", b"AUTH PLAIN AGFiAHB3",
          b"STARTTLS", b"NOOP"]


def respell(p, rng):
    """the same probe with keywords and values in another letter case (ESMTP keywords and most values are case-insensitive)"""
    if p in (b"RSET", b"NOOP", b"STARTTLS") or p.startswith(b"AUTH"):
        return p
    head, _, params = p.partition(b"> ")
    if not params:
        return p
    how = rng.randrange(3)
    if how == 0:
        q = params.lower()
    elif how == 1:
        q = bytes(c ^ 0x20 if (chr(c).isalpha() and rng.randrange(2)) else c for c in params)
    else:
        q = params.title()
    # values that are not case-insensitive keep their spelling: the xtext/addr part of ORCPT, ENVID, the RRVS timestamp
    if b"ORCPT=" in params.upper() or b"RRVS=" in params.upper():
        k, _, v = params.partition(b"=")
        kq = q[:len(k)]
        if b"ORCPT" in k.upper():
            t, _, a = v.partition(b";")
            return head + b"> " + kq + b"=" + q[len(k) + 1:len(k) + 1 + len(t)] + b";" + a
        return head + b"> " + kq + b"=" + v
    if b"ENVID=" in params.upper():
        i = params.upper().index(b"ENVID=")
        return head + b"> " + q[:i + 6] + params[i + 6:]
    return head + b"> " + q


def groups(tier, rng):
    cases, helo, variants = [], [], []
    for utf8, reqtls, binmime, dsn, rrvs, mm, mr, tls, ins, auth, lmtp in itertools.product(
            (0, 1), (0, 1), (0, 1), (0, 1), (0, 1), (0, 77), (0, 3), ("none", "avail", "implicit"), (0, 1), (0, 1, 2), (0, 1)):
        # auth: 0 = a plain Session, 1 = an AuthSession offering two mechanisms, 2 = an AuthSession that offers none (AUTH must not be listed)
        cfg = dict(utf8=utf8, reqtls=reqtls, binmime=binmime, dsn=dsn, rrvs=rrvs, maxmsg=mm, maxrcpt=mr, tls=tls, insecure=ins,
                   authsess=1 if auth else 0, mechs=(hx(b"PLAIN") + ":" + hx(b"X-MECH")) if auth == 1 else "-", lmtp=lmtp)
        c = g.Conv(cfg)
        c.add((b"LHLO" if lmtp else b"EHLO") + b" probe.example\r\n")
        for p in PROBES:
            if p == b"STARTTLS" and tls == "avail":
                c.starttls()
                c.add((b"LHLO" if lmtp else b"EHLO") + b" again.example\r\n")
                continue
            c.add(p + b"\r\n")
        cases.append(c.case(seg="line") + "\tTAG=probe")
        v = g.Conv(cfg)
        v.add((b"LHLO" if lmtp else b"EHLO") + b" probe.example\r\n")
        for p in PROBES:
            if p == b"STARTTLS":
                continue
            v.add(respell(p, rng) + b"\r\n")
        variants.append(v.case(seg="line") + "\tTAG=probe")
        # the same keywords with malformed values: a parameter of a disabled extension is 504 whatever its value (the value of a
        # parameter the server does not implement is none of its business); with the extension enabled the value is refused as such.
        # (`ENVID=` and `RRVS=` with NO value are not among them any more: since 8fd736d that is no esmtp-param at all and is answered 501
        # by the parameter parser, before any keyword is looked at — C11 judges it)
        b = g.Conv(cfg)
        b.add((b"LHLO" if lmtp else b"EHLO") + b" probe.example\r\n")
        for p in (b"MAIL FROM:<s@x> RET=SOME", b"RSET", b"MAIL FROM:<s@x> ENVID=a+2", b"RSET", b"MAIL FROM:<s@x> ENVID=a+zz", b"RSET",
                  b"MAIL FROM:<s@x>", b"RCPT TO:<a@x> NOTIFY=BOGUS", b"RCPT TO:<a@x> NOTIFY=NEVER,SUCCESS", b"RCPT TO:<a@x> ORCPT=x400",
                  b"RCPT TO:<a@x> ORCPT=rfc822;", b"RCPT TO:<a@x> RRVS=yesterday", b"RCPT TO:<a@x> RRVS=0", b"RCPT TO:<a@x> rrvs=2021-02-29T00:00:00Z", b"NOOP"):
            b.add(p + b"\r\n")
        variants.append(b.case(seg="line") + "\tTAG=probe")
        if not lmtp:
            h = g.Conv(cfg)
            h.add(b"HELO probe.example\r\n"); h.add(b"NOOP\r\n")
            helo.append(h.case(seg="line"))
    # the second capability list of a connection, after things have happened on it: a successful AUTH, an envelope, RSET, a refused
    # STARTTLS.  What is advertised depends on the configuration and the TLS state only — a client that re-reads the list (the go-smtp
    # client does after Reset) must find the same extensions
    again = []
    for ins, tls, lmtp, auth in itertools.product((0, 1), ("none", "implicit"), (0, 1), (1, 2)):
        cfg = dict(utf8=1, reqtls=1, binmime=1, dsn=1, rrvs=1, maxmsg=77, maxrcpt=3, tls=tls, insecure=ins, authsess=1,
                   mechs=(hx(b"PLAIN") + ":" + hx(b"X-MECH")) if auth == 1 else "-", lmtp=lmtp)
        hello = (b"LHLO" if lmtp else b"EHLO")
        for mid in ([b"AUTH PLAIN AGFiAHB3"], [b"AUTH PLAIN AGFiAHB3", b"RSET"], [b"MAIL FROM:<s@x>", b"RCPT TO:<a@x>"], [b"RSET"], [b"STARTTLS"],
                    [b"AUTH PLAIN AGFiAHB3", b"MAIL FROM:<s@x> AUTH=<>"]):
            c = g.Conv(cfg)
            c.add(hello + b" first.example\r\n")
            for m in mid:
                c.add(m + b"\r\n")
            c.add(hello + b" second.example\r\n"); c.add(b"NOOP\r\n")
            again.append(c.case(seg=rng.choice(["line", "one"]), rng=rng))
    return [Group("conv/second-capability-list", again, project=project, theorems=THEOREMS),
            Group("conv/ehlo-all-configurations", cases, exhaustive=True, project=project, theorems=THEOREMS),
            Group("conv/probes-respelled", variants, project=project, theorems=THEOREMS),
            Group("conv/helo-all-configurations", helo, exhaustive=True, project=project, theorems=THEOREMS)]


def replay_groups(path):
    return [Group("replay", [json.load(open(path))["case"]], project=project, theorems=THEOREMS)]
