"""C08 — conv-probe property (see vlib/props/convprops.py)."""
from vlib.props import convprops as P, convcommon as cc
from vlib import convgen as g
globals().update(P.make('C08', 'conv probe: every cut point (connection closed at every octet offset) of 6 conversations (DATA, BDAT, LMTP, AUTH) in 2 configurations; generic sweep and walks incl. TLS; every server-initiated close (QUIT, error threshold, over-long line, idle timeout, backend panic) with pipelined suffixes. non-trivial = at least one backend callback', ['C08_lifecycle', 'C08_lifecycle_visible', 'C08_ends_closed', 'C08_cut_line_not_executed', 'C08_cut_line_not_read', 'C08_cut_ends_loop'], [('every-cut', P.cut_convs), ('failed-handshake', P.hsfail_convs)], lambda a: cc.project(a, codes='class', enh=False, drecs='ret'), tls=True, configs=None))


# --- overlapping Close calls: the peer goes away / QUITs / the application closes the connection while Server.Close or
# Shutdown runs, with a backend whose Logout takes a while (so the calls really overlap) ---------------------------------
from vlib.core import Group as _Group
from vlib.props import C20 as _C20
_g0 = groups
RULE = RULE + (" | tlsclose probe: Server.Close / Conn.Close / Shutdown arrive while a STARTTLS upgrade is logging the plaintext session out (slow Logout, real TLS over loopback): every session exactly one Logout | sched probe: every pair of overlapping endings over {peer disconnects, QUIT, Conn.Close by the application, Server.Close, "
               "Server.Shutdown} with a slow Logout, with and without an open chunked transfer, SMTP and LMTP: the lifecycle judge on the trace")


def overlapping_closes(tier, rng):
    cases = []
    seg = _C20.seg
    for lm in (0, 1):
        hello = b"LHLO x\r\n" if lm else b"EHLO x\r\n"
        for open_bdat in (0, 1):
            pre = [hello, b"MAIL FROM:<s@x>\r\n", b"RCPT TO:<a@x>\r\n"] + ([b"BDAT 3\r\nabc"] if open_bdat else [])
            be = "NS=;MAIL=;RCPT=;DATA=%s;AUTH=;SASL=;HS=" % g.ddec(ret="prop")
            endings = ["eof", "close", "shutdown", "connclose", seg(b"QUIT\r\n")]
            for e1 in endings:
                for e2 in endings:
                    if e1 == e2 and e1 in ("eof",) or (e1.startswith("seg") and e2.startswith("seg")):
                        continue
                    for gap in ([], ["pause:5"]):
                        ev = [seg(*pre), "idle", "slowlogout:40", e1] + gap + [e2, "pause:60"]
                        if tier == "quick" and ("shutdown" in (e1, e2) or gap) and rng.random() < 0.8:
                            continue          # Shutdown waits for the gated delivery: slow cases are sampled in the quick tier
                        cases.append("\t".join(["sched", g.cfg_str(dict(lmtp=lm)), be, ";".join(ev)]) + "\tTAG=lifecycle")
    return cases


def close_during_newsession(tier, rng):
    """`Server.Close`, `Conn.Close` by the application, Shutdown or the peer's disconnect arrive while `Backend.NewSession` is still
    running (harness event `slowns`): the session it returns is installed on a connection that is already closed — and must still
    get its one Logout (judge TAG=logoutcount: exactly one Logout per session the backend returned)."""
    cases = []
    seg = _C20.seg
    for lm in (0, 1):
        hello = b"LHLO x\r\n" if lm else b"EHLO x\r\n"
        for e in ("close", "connclose", "shutdown", "eof", "close;close", "connclose;close"):
            for d in (15, 35):
                for _ in range(1 if tier == "quick" else 4):
                    ev = ["slowns:60", seg(hello), "pause:%d" % d] + e.split(";") + ["pause:90"]
                    cases.append("\t".join(["sched", g.cfg_str(dict(lmtp=lm)), "NS=;MAIL=;RCPT=;DATA=;AUTH=;SASL=;HS=", ";".join(ev)]) + "\tTAG=logoutcount")
    return cases


from vlib.gen import hx as _hx

# --- a command line cut short by the end of the connection or by the idle timeout ---------------------------------------------------
def cutline_cases(tier, rng):
    """the conversation ends inside a command line (no LF has arrived): the peer disconnects, or goes silent until the read timeout
    fires.  Nothing of that line may be executed: no callback mentions the bait, a cut `BDAT 0 LAST` does not complete the message."""
    cases = []
    for lm in (0, 1):
        hello = (b"LHLO" if lm else b"EHLO") + b" x\r\n"
        pres = {
            "greet": ([], [b"EHLO bait.example", b"HELO bait.example\r", b"LHLO bait.example"]),
            "mail": ([hello], [b"MAIL FROM:<bait@x> SIZE=1", b"MAIL FROM:<bait@x>\r", b"mail from:<bait@x> BODY=8BITMIME"]),
            "rcpt": ([hello, b"MAIL FROM:<s@x>\r\n"], [b"RCPT TO:<bait@x>", b"RCPT TO:<bait@x> NOTIFY=NEVER\r"]),
            "auth": ([hello], [b"AUTH PLAIN AGJhaXQAcGFzcw==", b"AUTH PLAIN"]),
        }
        for name, (pre, tails) in pres.items():
            for t in tails:
                for how in ("eof", "timeout"):
                    c = g.Conv(dict(lmtp=lm, rt=int(how == "timeout"), insecure=1, authsess=1, mechs=_hx(b"PLAIN")) if name == "auth" else dict(lmtp=lm, rt=int(how == "timeout")))
                    for p_ in pre:
                        c.add(p_, **({"NS": "ok"} if p_[:4] in (b"EHLO", b"LHLO") else {"MAIL": "ok"}))
                    c.add(t)
                    f = c.case(seg=rng.choice(["line", "one"]), rng=rng).split("\t")
                    if how == "timeout":
                        segs, end = f[3].split(";")
                        f[3] = segs + ",TO;" + end
                    cases.append("\t".join(f) + "\tTAG=cutline")
    return cases


def _proj_lo(case, ans):
    import re
    ns = sorted(set(re.findall(r"NS:(\d+):[^;]*:ok", ans)))
    return ",".join("%s=%d" % (i, len(re.findall(r"LO:%s(?![0-9])" % i, ans))) for i in ns) + ("|HANG" if "HANG" in ans else "")


def groups(tier, rng):
    tc = ["tlsclose\t%d\t%s\t%d" % (lm, e, d) for lm in (0, 1) for e in ("close", "connclose", "shutdown") for d in (40, 80)
          for _ in range(1 if tier == "quick" else 4)]
    return _g0(tier, rng) + [_Group("tlsclose/server-ended-during-upgrade", tc, project=lambda c, a: a, theorems=THEOREMS),
                    _Group("conv/cut-inside-a-command-line", cutline_cases(tier, rng), project=lambda c, a: cc.project(a, codes="exact", enh=True, drecs="ret"), theorems=THEOREMS),
                    _Group("sched/overlapping-closes", overlapping_closes(tier, rng), project=_C20.project, theorems=THEOREMS),
                             _Group("sched/close-during-newsession", close_during_newsession(tier, rng), project=_proj_lo, theorems=THEOREMS)]
