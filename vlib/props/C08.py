"""C08 — conv-probe property (see vlib/props/convprops.py)."""
from vlib.props import convprops as P, convcommon as cc
from vlib import convgen as g
globals().update(P.make('C08', 'conv probe: every cut point (connection closed at every octet offset) of 6 conversations (DATA, BDAT, LMTP, AUTH) in 2 configurations; generic sweep and walks incl. TLS; every server-initiated close (QUIT, error threshold, over-long line, idle timeout, backend panic) with pipelined suffixes. non-trivial = at least one backend callback', ['C08_lifecycle', 'C08_lifecycle_visible', 'C08_ends_closed'], [('every-cut', P.cut_convs)], lambda a: cc.project(a, codes='class', enh=False, drecs='ret'), tls=True, configs=None))
