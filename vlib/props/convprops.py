"""Factory for the conv-probe properties (C04, C05, C08, C09, C10, C12, C13, C19 and the conversation halves of
C02, C06, C07): each gets the generic sweep/walk groups plus its own focused generators and projection."""
import itertools, json
from vlib.core import Group
from vlib.props import convcommon as cc
from vlib import convgen as g
from vlib.gen import hx, unhx

CRLF = b"\r\n"


def envelope(c, lmtp=False, rcpts=(g.A,)):
    c.add((b"LHLO" if lmtp else b"EHLO") + b" cli.example\r\n", NS="ok")
    c.add(b"MAIL FROM:<s@x.org>\r\n", MAIL="ok")
    for r in rcpts:
        c.add(b"RCPT TO:<" + r + b">\r\n", RCPT="ok")


def markers(c, n=2):
    for i in range(n):
        c.add(b"MAIL FROM:<mk%d@x>\r\n" % i, MAIL="ok")
        c.add(b"RSET\r\n")


# ---------------------------------------------------------------------------
# C05: chunk scripts

PAYLOADS = [b"", b"a", b"\r\n.\r\n", b"MAIL FROM:<bait@x>\r\n", b"\x00\xff\n.\n", b"QUIT\r\n", b"x" * 7]


def c05_cases(tier, rng):
    cases = []
    cfgs = [dict(maxline=2000), dict(maxline=2000, maxmsg=12), dict(lmtp=1, maxline=2000), dict(lmtp=1, lmtpsess=1, maxmsg=30)]
    # all chunkings of short messages into <= 3 chunks (incl. empty ones), LAST on the final one
    pl = PAYLOADS if tier == "thorough" else PAYLOADS[:5]
    for cfg in cfgs:
        lm = bool(cfg.get("lmtp"))
        for n in (1, 2, 3):
            for chunks in itertools.product(pl, repeat=n):
                if tier == "quick" and n == 3 and rng.random() < 0.7:
                    continue
                c = g.Conv(cfg)
                envelope(c, lm)
                for i, p in enumerate(chunks):
                    last = b" LAST" if i == n - 1 else b""
                    dec = dict(DATA=g.ddec()) if i == 0 else {}
                    c.add(b"BDAT %d" % len(p) + last + CRLF + p, **dec)
                markers(c)
                for seg in ("one", "line", rng.choice(["byte", "rand"])):
                    cases.append(c.case(seg=seg, rng=rng))
    # refused BDAT commands with their payload on the wire and a marker right behind
    refusals = [
        ("nomail", lambda c: None, b"BDAT %d LAST\r\n"),
        ("nomail-nolast", lambda c: None, b"BDAT %d\r\n"),
        ("badlast", lambda c: envelope(c), b"BDAT %d FOO\r\n"),
        ("3args", lambda c: envelope(c), b"BDAT %d LAST x\r\n"),
        ("allrcptrejected", lambda c: (c.add(b"EHLO x\r\n"), c.add(b"MAIL FROM:<s@x>\r\n"),
                                       c.add(b"RCPT TO:<r@x>\r\n", RCPT=g.se(550, "5.1.1", b"no"))), b"BDAT %d LAST\r\n"),
        ("overlimit", lambda c: envelope(c), b"BDAT %d LAST\r\n"),
    ]
    for name, pre, fmt in refusals:
        for p in [b"MAIL FROM:<bait@x>\r\n", b"RSET\r\nEHLO bait\r\n", b"\r\n.\r\nQUIT\r\n", b"", b"z" * 30]:
            for cfg in (dict(maxmsg=8 if name == "overlimit" else 0), dict(lmtp=1, maxmsg=8 if name == "overlimit" else 0)):
                c = g.Conv(cfg)
                if cfg.get("lmtp") and name not in ("nomail", "nomail-nolast"):
                    if name == "allrcptrejected":
                        c.add(b"LHLO x\r\n"); c.add(b"MAIL FROM:<s@x>\r\n"); c.add(b"RCPT TO:<r@x>\r\n", RCPT=g.se(550, "5.1.1", b"no"))
                    else:
                        envelope(c, True)
                elif name in ("nomail", "nomail-nolast"):
                    c.add((b"LHLO" if cfg.get("lmtp") else b"EHLO") + b" x\r\n")
                else:
                    pre(c)
                c.add(fmt % len(p) + p)
                markers(c)
                for seg in ("one", "line", "byte", "rand"):
                    cases.append(c.case(seg=seg, rng=rng))
    # the backend gives up early (takes k octets, returns an error): the rest of the announced chunk is still payload —
    # it must be skipped, never executed — however the chunk is cut into segments
    for p in [b"MAIL FROM:<bait@x>\r\nRCPT TO:<bait@x>\r\n", b"xx\r\nRSET\r\nEHLO bait.example\r\nMAIL FROM:<bait@x>\r\n", b"z" * 40 + b"\r\nMAIL FROM:<bait@x>\r\n"]:
        for want in (0, 1, 5):
            for last in (b"", b" LAST"):
                for cfg in (dict(), dict(lmtp=1), dict(lmtp=1, lmtpsess=1)):
                    c = g.Conv(cfg)
                    envelope(c, bool(cfg.get("lmtp")))
                    c.add(b"BDAT %d" % len(p) + last + CRLF, DATA=g.ddec(want=want, ret=g.se(554, "5.6.0", b"content rejected")))
                    c.add(p)
                    markers(c)
                    for seg in ("one", "line", "byte", "rand", "rand"):
                        cases.append(c.case(seg=seg, rng=rng))
    # LF-free payload runs around the line limit, payload in its own segments (limiter must not see it)
    for lim in (40, 64):
        for run in (lim - 1, lim + 1, 3 * lim):
            c = g.Conv(dict(maxline=lim))
            c.add(b"EHLO x\r\n"); c.add(b"MAIL FROM:<s@x>\r\n"); c.add(b"RCPT TO:<r@x>\r\n")
            c.add(b"BDAT %d LAST\r\n" % run, DATA=g.ddec())
            c.add(b"y" * run)
            markers(c, 1)
            cases.append(c.case(seg="line", rng=rng))
            # the same with command and payload in one network segment: the line limiter sits below bufio and
            # sees the payload (recorded finding, see known_findings.json)
            cases.append(c.case(seg="one", rng=rng) + "\tTAG=limiter-sees-payload")
    # a pipelined next chunk whose payload — with a run without LF longer than the line limit — arrives in the segment of the previous
    # chunk's tail: when the limit comes back after the first chunk that payload is buffered already, and it is not command lines
    for lim in (40, 64):
        for run in (lim + 5, 3 * lim):
            for last in (b" LAST", b""):
                c = g.Conv(dict(maxline=lim))
                c.add(b"EHLO x\r\n"); c.add(b"MAIL FROM:<s@x>\r\n"); c.add(b"RCPT TO:<r@x>\r\n")
                c.add(b"BDAT 5\r\n", DATA=g.ddec()); c.add(b"hello" + b"BDAT %d%s\r\n" % (run, last) + b"y" * run)
                c.add(b"BDAT 0 LAST\r\n" if not last else b"NOOP\r\n")
                markers(c, 1)
                cases.append(c.case(seg="line", rng=rng))
    # the backend ends the delivery with an error BETWEEN two chunks (it has read the first chunk completely): the next chunk is refused —
    # and its declared octets are payload all the same, never commands
    for p in (b"RSET\r\nMAIL FROM:<bait@x>\r\n", b"MAIL FROM:<bait@x>\r\nRCPT TO:<bait@x>\r\n"):
        for cfg in (dict(), dict(lmtp=1), dict(lmtp=1, lmtpsess=1)):
            for last in (b"", b" LAST"):
                c = g.Conv(cfg)
                envelope(c, bool(cfg.get("lmtp")))
                c.add(b"BDAT 5\r\nhello", DATA=g.ddec(want=5, ret=g.se(554, "5.6.0", b"content rejected")))
                c.add(b"NOOP\r\n")
                c.add(b"BDAT %d%s\r\n" % (len(p), last) + p)
                markers(c, 1)
                for seg in ("line", "one"):
                    cases.append(c.case(seg=seg, rng=rng))
    # chunks inside TLS: after a successful STARTTLS the chunk must be taken off the TLS stream — also when a chunked transfer (refused,
    # abandoned or completed) took place in plaintext before, and when plaintext was injected behind the STARTTLS line
    for lm in (False, True):
        for before in ("none", "refused", "abandoned", "completed"):
            for inj in (b"", b"INJECTED PLAINTEXT MAIL FROM:<bait@x>\r\n"):
                for chunks in ((b"hello\r\n",), (b"MAIL FROM:<bait@x>\r\n", b"\x00\xff\n.\n"), (b"ab", b"", b"QUIT\r\n")):
                    c = g.Conv(dict(tls="avail", lmtp=int(lm), maxline=2000))
                    if before == "none":
                        c.add((b"LHLO" if lm else b"EHLO") + b" plain.example\r\n", NS="ok")
                    elif before == "refused":
                        c.add((b"LHLO" if lm else b"EHLO") + b" plain.example\r\n", NS="ok")
                        c.add(b"BDAT 4 LAST\r\nNOOP")
                    else:
                        envelope(c, lm)
                        c.add(b"BDAT 3%s\r\nxyz" % (b" LAST" if before == "completed" else b""), DATA=g.ddec(ret="prop"))
                    c.starttls(inj)
                    envelope(c, lm)
                    for i, p in enumerate(chunks):
                        last = b" LAST" if i == len(chunks) - 1 else b""
                        dec = dict(DATA=g.ddec()) if i == 0 else {}
                        c.add(b"BDAT %d" % len(p) + last + CRLF + p, **dec)
                    markers(c, 1)
                    for seg in ("line", "one"):
                        cases.append(c.case(seg=seg, rng=rng))
    return cases


def known_limiter(case, impl, reason):
    """BDAT payload that shares a network segment with a command line and contains (or, through the stale counter,
    completes) an LF-free run longer than MaxLineLength; observed: 500 5.4.0 and close although every command
    line is within the limit"""
    return case.endswith("TAG=limiter-sees-payload") and "35303020352e342e30" in impl


# ---------------------------------------------------------------------------
# C02 / C06 / C07 conversation halves: DATA with bait and look-alikes, limits, cuts

LOOKALIKES = [b"\n.\n", b"\n.\r\n", b"\r\n.\n", b"\r.\r", b".\r", b"..\r\n", b"\r\r\n"]


def data_convs(tier, rng, limits=(0,), lmtp_modes=((0, 0), (1, 0), (1, 1))):
    cases = []
    bodies = [b"hello\r\n", b"", b"a" + LOOKALIKES[0] + b"MAIL FROM:<bait@x>\r\n", b"x\r\n" + LOOKALIKES[1] + b"y\r\n",
              LOOKALIKES[2] + b"RSET\r\n", b"q" + LOOKALIKES[3] + b"\r\n", b".\rMAIL FROM:<bait@x>\r\n", b"..\r\n\r\r\n",
              b"0123456789\r\n", b"01234567\r\n"]
    backends = [g.ddec(), g.ddec(want=0), g.ddec(want=1, ret=g.er(b"no")), g.ddec(rsz=7, ret=g.se(550, "5.6.0", b"rejected")),
                g.ddec(ret="prop", rsz=3), g.ddec(want=5, rsz=2),
                # a backend that hands the reader to io.Copy (which prefers the reader's own WriteTo, if it has one), at once or after
                # sniffing three octets (rsz >= 32768, see the harness)
                g.ddec(ret="prop", rsz=32768), g.ddec(rsz=32771)]
    for lm, ls in lmtp_modes:
        for lim in limits:
            for body in bodies:
                for be in backends:
                    if tier == "quick" and rng.random() < 0.5:
                        continue
                    blen = len(body)
                    for mm in sorted({0} | ({max(1, blen - 1), blen, blen + 1} if lim else set())):
                        c = g.Conv(dict(lmtp=lm, lmtpsess=ls, maxmsg=mm))
                        envelope(c, bool(lm), rcpts=(g.A, g.B))
                        c.add(b"DATA\r\n")
                        c.add(body + b".\r\n", DATA=be)
                        markers(c)
                        cases.append(c.case(seg=rng.choice(["one", "line", "byte", "rand"]), rng=rng))
    return cases


def message_spans(lines):
    """[start, end) offsets of each message's octets on the wire (from its DATA/first BDAT command line to the end of the
    end-of-data line / of the LAST chunk's payload), in the order the deliveries begin.  Knows only how the letters of
    convgen lay out a conversation: a DATA line is followed by one payload entry; a BDAT line by its payload entry."""
    spans, off, i, open_bdat = [], 0, 0, None
    while i < len(lines):
        l = lines[i]
        up = l.upper()
        if up.startswith(b"DATA") and i + 1 < len(lines):
            spans.append((off, off + len(l) + len(lines[i + 1])))
            off += len(l) + len(lines[i + 1]); i += 2; continue
        if up.startswith(b"BDAT"):
            head = l.split(b"\r\n")[0].split()
            n = int(head[1]) if len(head) > 1 and head[1].isdigit() else 0
            last = len(head) > 2 and head[2].upper() == b"LAST"
            size = len(l)
            if n > 0 and l.endswith(b"\r\n") and i + 1 < len(lines):      # payload is the next entry
                size += len(lines[i + 1]); i += 1
            if open_bdat is None:
                open_bdat = off
            if last:
                spans.append((open_bdat, off + size)); open_bdat = None
            off += size; i += 1; continue
        if up.startswith(b"RSET") or up.startswith(b"MAIL"):
            open_bdat = None
        off += len(l); i += 1
    return spans


def hsfail_convs(tier, rng):
    """STARTTLS is accepted (220) and then the peer does not speak TLS: the handshake fails, the server says so (550) and the
    conversation goes on in plaintext.  Nothing may have changed: the plaintext session is still the session (not logged out, and
    then used), the connection is still insecure (no AUTH unless insecure authentication is allowed, NewSession sees no TLS), the
    envelope is what it was."""
    from vlib.gen import hx
    cases = []
    garbage = [b"GET / HTTP/1.0\r\n\r\n", b"NOOP\r\n", b"\x16\x03\x01\x00\x05hello", b"EHLO again\r\n"]
    posts = [
        [(b"NOOP\r\n", {}), (b"QUIT\r\n", {})],
        [(b"MAIL FROM:<s@x.org>\r\n", dict(MAIL="ok")), (b"RCPT TO:<a@x.org>\r\n", dict(RCPT="ok")), (b"QUIT\r\n", {})],
        [(b"AUTH PLAIN AGFiAHB3\r\n", dict(AUTH="ok", SASL="-!1!ok")), (b"MAIL FROM:<s@x.org>\r\n", dict(MAIL="ok")), (b"NOOP\r\n", {})],
        [(b"EHLO second.example\r\n", dict(NS="ok")), (b"AUTH PLAIN AGFiAHB3\r\n", dict(AUTH="ok", SASL="-!1!ok")),
         (b"MAIL FROM:<s@x.org>\r\n", dict(MAIL="ok")), (b"QUIT\r\n", {})],
        [(b"RCPT TO:<b@y.net>\r\n", dict(RCPT="ok")), (b"DATA\r\n", {}), (b"hi\r\n.\r\n", dict(DATA=g.ddec())), (b"NOOP\r\n", {})],
        [],     # the peer goes away
    ]
    pres = [
        [],
        [(b"MAIL FROM:<s@x.org>\r\n", dict(MAIL="ok")), (b"RCPT TO:<a@x.org>\r\n", dict(RCPT="ok"))],
        [(b"MAIL FROM:<s@x.org>\r\n", dict(MAIL="ok")), (b"RCPT TO:<a@x.org>\r\n", dict(RCPT="ok")), (b"BDAT 3\r\nabc", dict(DATA=g.ddec(ret="prop")))],
    ]
    for lm in (0, 1):
        for ins in (0, 1):
            for pre in pres:
                for post in posts:
                    gb = rng.choice(garbage)
                    c = g.Conv(dict(lmtp=lm, tls="avail", insecure=ins, authsess=1, mechs=hx(b"PLAIN"), reqtls=1))
                    c.add((b"LHLO" if lm else b"EHLO") + b" first.example\r\n", NS="ok")
                    if ins and rng.random() < 0.5:
                        c.add(b"AUTH PLAIN AGFiAHB3\r\n", AUTH="ok", SASL="-!1!ok")
                    for line, kw in pre:
                        c.add(line, **kw)
                    c.add(b"STARTTLS\r\n", HS="0")
                    k = len(c.lines)
                    for line, kw in post:
                        if lm and line.startswith(b"EHLO"):
                            line = b"LHLO" + line[4:]
                        c.add(line, **kw)
                    f = c.case(seg="line").split("\t")
                    segs, end = f[3].split(";")
                    items = segs.split(",")
                    # each c.add is one segment: the marker and the garbage go right behind the STARTTLS line
                    items[k:k] = ["HSFAIL", hx(gb)]
                    f[3] = ",".join(items) + ";" + end
                    cases.append("\t".join(f))
    return cases


def cut_convs(tier, rng):
    convs = [
        ["EHLO", "MAIL", "RCPT-A", "DATA-ok", "NOOP", "QUIT"],
        ["EHLO", "MAIL", "RCPT-A", "BDAT3", "BDAT3-LAST", "NOOP"],
        ["LHLO", "MAIL", "RCPT-A", "RCPT-B", "DATA-lmtpstatus", "NOOP"],
        ["LHLO", "MAIL", "RCPT-A", "RCPT-B", "BDAT3", "BDAT-lmtpstatus", "QUIT"],
        ["EHLO", "MAIL", "RCPT-A", "BDAT-marker", "RSET", "MAIL", "RCPT-B", "BDAT3-LAST"],
        ["EHLO", "AUTH-2step", "MAIL", "RCPT-A", "DATA-reject", "QUIT", "NOOP"],
    ]
    for names in convs:
        pass
    out = []
    cfgs = [dict(insecure=1, authsess=1, mechs=hx(b"LOGIN"), maxmsg=200), dict(lmtp=1, lmtpsess=1, insecure=1, authsess=1, mechs=hx(b"LOGIN"))]
    for cfg in cfgs:
        for names in convs:
            if bool(cfg.get("lmtp")) != (names[0] == "LHLO"):
                continue
            c = g.build(cfg, names, rng)
            # make the backends propagate reader errors (the documented contract): replace DATA decisions
            c.q["DATA"] = [g.ddec(ret="prop") for _ in c.q["DATA"]] or [g.ddec(ret="prop")]
            total = len(b"".join(c.lines))
            step = 1 if tier == "thorough" or total < 160 else 2
            spans = message_spans(c.lines)
            for cut in range(0, total + 1, step):
                case = c.case(seg=rng.choice(["one", "rand"]), rng=rng, cut=cut)
                # the connection is lost at `cut`: the message whose octets straddle it is incomplete
                inc = [k for k, (a, b) in enumerate(spans) if a < cut < b]
                out.append(case + ("\tTAG=incomplete:%d" % inc[0] if inc else ""))
    return out


# ---------------------------------------------------------------------------
# C13: recipient lists with duplicates and case variants x status scripts

def c13_cases(tier, rng):
    cases = []
    addrs = [b"Postmaster@x.org", b"postmaster@x.org", b"b@y.net"]
    stat = [g.se(550, "5.1.1", b"no such user"), "ok", g.er(b"quota"), g.se(452, "4.2.2", b"full\nreally")]
    maxlen = 3 if tier == "quick" else 4
    for n in range(1, maxlen + 1):
        for rcpts in itertools.product(addrs, repeat=n):
            occ = list(range(n))
            # in-contract status scripts: any sub-multiset of the occurrences in any order
            scripts = [()]
            for r in range(1, n + 1):
                for sub in itertools.permutations(occ, r):
                    scripts.append(sub)
            if len(scripts) > 12:
                scripts = [()] + rng.sample(scripts[1:], 11)
            for sub in scripts:
                statuses = [(rcpts[i], stat[(i + len(sub)) % len(stat)]) for i in sub]
                for ret in ("ok", g.er(b"ret")):
                    for path in ("data", "bdat"):
                        for ls in (1, 0):
                            if tier == "quick" and rng.random() < 0.5:
                                continue
                            c = g.Conv(dict(lmtp=1, lmtpsess=ls))
                            c.add(b"LHLO x\r\n"); c.add(b"MAIL FROM:<s@x>\r\n")
                            for a in rcpts:
                                c.add(b"RCPT TO:<" + a + b">\r\n")
                            dec = g.ddec(ret=ret, statuses=statuses)
                            if path == "data":
                                c.add(b"DATA\r\n"); c.add(b"body\r\n.\r\n", DATA=dec)
                            else:
                                c.add(b"BDAT 4\r\nbody", DATA=dec); c.add(b"BDAT 0 LAST\r\n")
                            c.add(b"NOOP\r\n")
                            cases.append(c.case(seg=rng.choice(["one", "line"]), rng=rng))
    # out of contract on the BDAT path (deterministic there): unknown recipient, one status too many
    for statuses in ([(b"nobody@x", "ok")], [(addrs[2], "ok"), (addrs[2], g.er(b"again"))]):
        c = g.Conv(dict(lmtp=1, lmtpsess=1))
        c.add(b"LHLO x\r\n"); c.add(b"MAIL FROM:<s@x>\r\n"); c.add(b"RCPT TO:<" + addrs[2] + b">\r\n"); c.add(b"RCPT TO:<" + addrs[0] + b">\r\n")
        c.add(b"BDAT 4 LAST\r\nbody", DATA=g.ddec(statuses=statuses)); c.add(b"NOOP\r\n")
        cases.append(c.case(seg="line"))
    return cases


# ---------------------------------------------------------------------------

def shrink_resegment(case):
    """only re-segmentation: for monitors whose verdict depends on the conversation's structure"""
    segs, end = cc.case_input(case)
    if "TLS" in segs or len(segs) <= 1:
        return []
    data = b"".join(unhx(s) for s in segs)
    return [cc.with_input(case, [hx(data)], end)]


def make(ID, rule, theorems, focus, project, level="proof", configs=None, tls=False, walks_quick=3000, walks_thorough=100000,
         known=None, assumptions=(), sweep=True, monitor_generic=True, structural=False):
    ns = {}
    ns["ID"] = ID
    ns["LEVEL"] = level
    ns["TRUSTED"] = cc.TRUSTED
    ns["ASSUMPTIONS"] = list(assumptions)
    ns["RULE"] = rule
    ns["THEOREMS"] = theorems
    ns["nontrivial"] = cc.nontrivial
    ns["signature"] = cc.signature
    ns["mutate"] = (lambda case, rng: []) if structural else cc.mutate
    ns["shrink"] = shrink_resegment if structural else cc.shrink
    ns["KNOWN"] = known or {}
    proj = lambda case, ans: project(ans)

    def groups(tier, rng):
        cfgs = (configs or g.CONFIGS) + (g.TLS_CONFIGS if tls else [])
        gs = []
        if focus:
            for name, fn in focus:
                gs.append(Group("conv/" + name, fn(tier, rng), project=proj, theorems=theorems))
        if sweep:
            gs.append(Group("conv/sweep", cc.sweep(cfgs, rng), project=proj, theorems=theorems, monitor=monitor_generic))
        gs.append(Group("conv/walks", cc.walks(cfgs, rng, walks_quick if tier == "quick" else walks_thorough,
                                              hi=25 if tier == "quick" else 60), project=proj, theorems=theorems,
                        monitor=monitor_generic))
        return gs

    def replay_groups(path):
        return [Group("replay", [json.load(open(path))["case"]], project=proj, theorems=theorems)]
    ns["groups"] = groups
    ns["replay_groups"] = replay_groups
    return ns
