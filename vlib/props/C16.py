"""C16 — a message written through the client arrives intact at a go-smtp backend."""
from vlib.props import clientprops as P

globals().update(P.make("C16",
    "cconv probe: every body over the tokens {'.', LF, CRLF, 'a'} up to the tier's length, written whole / byte by byte / in a random "
    "2-split, verdict {accept, reject}, SMTP and LMTP, Close called twice; every 2-split of bodies with end-of-data look-alikes; bodies "
    "with a lone CR (outside the domain: compared with the model, not judged); random 8-bit bodies up to 9000 octets in random "
    "partitions. The octets on the wire are read back with the DATA specification (Spec.terminated?) and must be the normalised body. "
    "non-trivial = more than one call; distinct = distinct case line",
    ["C16_roundtrip (pending)"], lambda tier, rng: [("cconv/bodies-and-partitions", P.c16_cases(tier, rng), True)]))
