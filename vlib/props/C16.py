"""C16 — a message written through the client arrives intact at a go-smtp backend."""
from vlib.props import clientprops as P
from vlib import e2egen

E2E = lambda case, ans: ""       # the e2e probe has no model answer: it is judged by the Lean monitor only

globals().update(P.make("C16",
    "cconv probe: every body over the tokens {'.', LF, CRLF, 'a'} up to the tier's length, written whole / byte by byte / in a random "
    "2-split, verdict {accept, reject}, SMTP and LMTP, Close called twice; every 2-split of bodies with end-of-data look-alikes; bodies "
    "with a lone CR (outside the domain: compared with the model, not judged); random 8-bit bodies up to 9000 octets in random "
    "partitions. The octets on the wire are read back with the DATA specification (Spec.terminated?) and must be the normalised body. "
    "e2e probe (real client -> real server in one process, no model): the same token bodies, plus bodies of 500-9000 octets with dots, bare LFs and "
    "end-of-data look-alikes placed around the 512/4096-octet buffer boundaries, random partitions, second message on the same connection; "
    "the backend must have read exactly the normalised body, and Close must return the backend's verdict. "
    "non-trivial = more than one call; distinct = distinct case line",
    ["C16_wire_terminated", "C16_roundtrip", "C16_partition_independent", "C16_second_close"], lambda tier, rng: [("cconv/bodies-and-partitions", P.c16_cases(tier, rng), True),
                       ("e2e/client-to-server", e2egen.c16_cases(tier, rng), True, E2E)]))
