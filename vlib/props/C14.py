"""C14 — envelope and options survive the client-to-server trip unchanged."""
from vlib.core import Group
from vlib.props import codeccommon as cm
from vlib.gen import hx, unhx, all_strings
from vlib import e2egen

ID = "C14"
LEVEL = "proof"
TRUSTED = cm.TRUSTED
ASSUMPTIONS = ["addresses needing a quoted local part are outside the judged domain (the client never quotes)"]
RULE = ("xtext/rt probes on all five codec functions: every Unicode scalar value singly (quick: U+0000-U+3000 and every 97th above; "
        "thorough: all 1,112,064) and every string up to the tier's length over {'+','=',SP,'\\\\','{','}','x','4','A','a',DEL,TAB,e-acute,"
        "euro,emoji}; decoders also on the encoders' outputs and on near-miss spellings; round trips judged by the codec laws. "
        "e2e probe: real client -> real server with every string-valued option from the alphabet. "
        "non-trivial = the string contains an octet that needs encoding; distinct = distinct case line")
THEOREMS = ["C14_xtext_roundtrip", "C14_monitor_model", "C14_tokenise", "C14_params_parse", "C14_mail_options_trip", "C14_rcpt_options_trip", "C14_mail_line_trip", "C14_rcpt_line_trip"]
KNOWN = {}
NEEDS = set(b"+= \\\x7f\t") | set(range(0x80, 0x100)) | set(range(0, 0x20))
nontrivial = lambda case, ans: case.startswith("e2e") or any(b in NEEDS for b in unhx(case.split("\t")[2]))
signature = lambda case, ans: ("e2e/" + case.split("\t")[1][:40]) if case.startswith("e2e") else case.split("\t")[0] + "/" + case.split("\t")[1] + "/" + ans.split("/")[0]
mutate = lambda case, rng: []
_sh = cm.shrink_hex_field(2)
shrink = lambda case: [] if case.startswith("e2e") else _sh(case)


def groups(tier, rng):
    singles, strings, dec = [], [], []
    cps = list(range(0, 0x3000)) + list(range(0x3000, 0x110000, 97)) if tier == "quick" else range(0x110000)
    for cp in cps:
        b = cm.cp_bytes(cp)
        if b is None:
            continue
        for fn in ("x", "u", "n"):
            singles.append("rt\t%s\t%s" % (fn, hx(b)))
        for fn in ("encx", "encu", "encn"):
            singles.append("xtext\t%s\t%s" % (fn, hx(b)))
    L = 3 if tier == "quick" else 4
    for s in all_strings(cm.XALPHA, L, 1):
        for fn in ("x", "u", "n"):
            strings.append("rt\t%s\t%s" % (fn, hx(s)))
    # decoders on arbitrary short inputs (malformed escapes, lower-case hex, wrong widths, surrogates)
    DA = [b"+", b"4", b"1", b"A", b"a", b"G", b"\\x{", b"}", b"\\", b"x", b"=", b"0", b"D8", b"10FFFF", b"110000", b" ", "é".encode()]
    for s in all_strings(DA, 4 if tier == "quick" else 5, 1):
        dec.append("xtext\tdecx\t" + hx(s))
        dec.append("xtext\tdecu\t" + hx(s))
    for s in all_strings([b"rfc822", b"UTF-8", b"utf-8", b";", b"a+40b", b"\\x{E9}", b"\xff", b"", b"x"], 3, 1):
        dec.append("xtext\ttyped\t" + hx(s))
    return [Group("codec/single-scalars", singles, exhaustive=(tier == "thorough"), theorems=THEOREMS),
            Group("codec/strings", strings, theorems=THEOREMS),
            Group("codec/decoders", dec, theorems=THEOREMS, monitor=False),
            Group("e2e/envelope", e2egen.c14_cases(tier, rng), theorems=THEOREMS, project=lambda c, a: "")]


replay_groups = cm.replay_groups_factory(Group, THEOREMS)
