"""C02 — only CRLF.CRLF ends DATA; commands resume exactly after it."""
from vlib.core import Group
from vlib.props import datacommon as dc
from vlib.gen import sched, cuts, rand_stream, all_strings

ID = "C02"
LEVEL = "proof"
TRUSTED = dc.TRUSTED
ASSUMPTIONS = ["reader part here; resumption after the final reply in whole conversations is tied by the conv probe"]
RULE = ("conv probe: DATA conversations whose bodies contain bait command lines and every terminator look-alike x backend "
        "{read all, nothing, 1 octet then error, reject, propagate, 5 octets} x size limit {none, |body|-1, |body|, |body|+1} x "
        "{SMTP, LMTP, LMTP+LMTPSession} followed by marker commands: bait never executed, markers executed once in order; "
        "dr probe: every stream over the tokens {LF.LF, LF.CRLF, CRLF.LF, CR.CR, CRLF.CRLF, 'a', bait line} up to the "
        "tier's token count, with and without size limit, under 4 read schedules; leftover input compared octet for "
        "octet; conv probe with a read timeout inside a message (DATA and BDAT payloads) and the rest, with bait lines, arriving afterwards: nothing after a timeout is executed; sched probe: forced order {backend returns early, then the rest of the message, the marker and the next commands arrive} in SMTP, LMTP and LMTP+LMTPSession. non-trivial = the stream contains a terminator look-alike or a bait line")
THEOREMS = ["C02_only_marker", "C02_eof_means_marker", "C02_lookalikes", "data_monitor_accepts_model",
            "C02_resume", "C02_resume_escapes", "C02_wf_fresh", "C02_wf_invariant", "C02_resume_anywhere"]
TOK = [b"\n.\n", b"\n.\r\n", b"\r\n.\n", b"\r.\r", b"\r\n.\r\n", b"a", b"MAIL FROM:<bait@x>\r\n", b".\r\n", b"\r\n"]
nontrivial = lambda case, ans: dc.nontrivial_stream(case) if case.startswith('dr') else cc.nontrivial(case, ans)
signature = lambda case, ans: dc.signature(case, ans) if case.startswith('dr') else cc.signature(case, ans)
mutate = lambda case, rng: dc.mutate(case, rng) if case.startswith('dr') else []
shrink = lambda case: dc.shrink(case) if case.startswith('dr') else ([] if case.startswith('sched') else P.shrink_resegment(case))
KNOWN = {}


from vlib.props import convprops as P, convcommon as cc
_proj = lambda case, ans: cc.project(ans, codes="class", enh=False, drecs="full")


def late_tail_cases(tier, rng):
    """forced order: the backend returns (early verdict, having read nothing or a few octets) while the peer has sent only
    the beginning of the message; the rest, the end marker and the next commands arrive afterwards, in one or several segments.
    The line after the marker must be the next command whatever ran in between (the LMTPSession delivery goroutine included)."""
    from vlib import convgen as g
    from vlib.props.C20 import seg
    cases = []
    head = b"Subject: t\r\n\r\nhel"
    tail = b"lo\r\nMAIL FROM:<bait@x>\r\n\n.\r\nRCPT TO:<bait2@x>\r\n"
    after = [b"NOOP\r\n", b"RSET\r\n", b"QUIT\r\n"]
    for lmtp, sess in ((0, 0), (1, 0), (1, 1)):
        hello = b"LHLO x\r\n" if lmtp else b"EHLO x\r\n"
        pre = [hello, b"MAIL FROM:<s@x>\r\n", b"RCPT TO:<a@x>\r\n", b"RCPT TO:<b@x>\r\n", b"DATA\r\n"]
        for want in (0, 3):
            for ret in ("ok", g.se(550, "5.7.1", b"no thanks")):
                for mm in (0, 12):
                    be = "NS=;MAIL=;RCPT=;DATA=%s;AUTH=;SASL=;HS=" % g.ddec(want=want, rsz=2, ret=ret)
                    cfg = g.cfg_str(dict(lmtp=lmtp, lmtpsess=sess, maxmsg=mm))
                    s1 = seg(*pre, head)
                    orders = [[s1, "pause:25", "rel:0", "pause:15", seg(tail, b".\r\n", *after)],
                              [s1, "pause:25", "rel:0", "pause:15", seg(tail), "pause:5", seg(b".\r\n", after[0]), "pause:5", seg(*after[1:])],
                              [s1, "pause:25", "rel:0", "pause:15", seg(tail, b".\r"), "pause:5", seg(b"\n", *after)],
                              [s1, "pause:25", "rel:0", "pause:15", seg(tail, b".\r\n"), "idle", seg(*after)]]
                    for o in orders:
                        cases.append("\t".join(["sched", cfg, be, ";".join(o)]))
    return cases


def timeout_cases(tier, rng):
    """the read deadline expires in the middle of a message (DATA, or the payload of a BDAT chunk) and the rest of the message —
    with bait command lines in it —, the end marker and further commands arrive afterwards: a timeout is final, nothing that
    arrives after it may be executed (the connection is given up)"""
    from vlib import convgen as g
    from vlib.gen import hx
    cases = []
    tail = b"lo\r\nMAIL FROM:<bait@x>\r\nRCPT TO:<bait2@x>\r\n.\r\nMAIL FROM:<bait3@x>\r\nNOOP\r\nQUIT\r\n"
    for lmtp, sess in ((0, 0), (1, 0), (1, 1)):
        hello = b"LHLO x\r\n" if lmtp else b"EHLO x\r\n"
        for kind in ("data", "bdat", "bdat-last"):
            for dec in (g.ddec(ret="prop"), g.ddec(), g.ddec(want=3, rsz=2, ret=g.se(550, "5.7.1", b"no"))):
                for mm in (0, 30):
                    c = g.Conv(dict(lmtp=lmtp, lmtpsess=sess, maxmsg=mm, rt=1))
                    c.add(hello, NS="ok"); c.add(b"MAIL FROM:<s@x>\r\n", MAIL="ok"); c.add(b"RCPT TO:<a@x>\r\n", RCPT="ok")
                    if kind == "data":
                        c.add(b"DATA\r\n"); c.add(b"Subject: t\r\n\r\nhel", DATA=dec)
                    else:
                        c.add((b"BDAT %d LAST\r\n" if kind == "bdat-last" else b"BDAT %d\r\n") % (6 + len(tail)) + b"abchel", DATA=dec)
                    f = c.case(seg="line").split("\t")
                    segs, end = f[3].split(";")
                    for t in ([tail], [tail[:9], tail[9:]]):
                        f2 = list(f); f2[3] = segs + ",TO," + ",".join(hx(x) for x in t) + ";" + end
                        cases.append("\t".join(f2))
    return cases


def _proj_sched(case, ans):
    from vlib.props import C20
    return C20.project(case, ans) if case.startswith("sched") else _proj(case, ans)


def groups(tier, rng):
    L = 4 if tier == "quick" else 5
    enum = []
    for s in all_strings(TOK, L):
        for kind in ("all", 1, rng.choice([2, 3, 7, "mixed"])):
            lim = rng.choice([None, None, len(s), max(1, len(s) // 2)])
            enum.append(dc.dr_case(lim, 0, s, cuts(len(s), rng, rng.choice(["one", "rand"])), sched(kind, len(s), rng)))
    conv = P.data_convs(tier, rng, limits=(0, 1))
    return [Group("dr/lookalikes", enum, theorems=THEOREMS),
            Group("conv/data-resume", conv, project=_proj, theorems=THEOREMS),
            Group("sched/late-tail-after-early-verdict", late_tail_cases(tier, rng), project=_proj_sched, theorems=THEOREMS),
            Group("conv/timeout-inside-message", timeout_cases(tier, rng), project=_proj, theorems=THEOREMS)]


def replay_groups(path):
    import json
    return [Group("replay", [json.load(open(path))["case"]], theorems=THEOREMS)]
