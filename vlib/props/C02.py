"""C02 — only CRLF.CRLF ends DATA; commands resume exactly after it."""
from vlib.core import Group
from vlib.props import datacommon as dc
from vlib.gen import sched, cuts, rand_stream, all_strings

ID = "C02"
LEVEL = "proof"
TRUSTED = dc.TRUSTED
ASSUMPTIONS = ["reader part here; resumption after the final reply in whole conversations is tied by the conv probe"]
RULE = ("conv probe: DATA conversations whose bodies contain bait command lines and every terminator look-alike x backend "
        "{read all, nothing, 1 octet then error, reject, propagate, 5 octets} x size limit {none, |body|-1, |body|, |body|+1} x "
        "{SMTP, LMTP, LMTP+LMTPSession} followed by marker commands: bait never executed, markers executed once in order; "
        "dr probe: every stream over the tokens {LF.LF, LF.CRLF, CRLF.LF, CR.CR, CRLF.CRLF, 'a', bait line} up to the "
        "tier's token count, with and without size limit, under 4 read schedules; leftover input compared octet for "
        "octet. non-trivial = the stream contains a terminator look-alike or a bait line")
THEOREMS = ["C02_only_marker", "C02_eof_means_marker", "C02_lookalikes", "data_monitor_accepts_model",
            "C02_resume", "C02_resume_escapes", "C02_wf_fresh"]
TOK = [b"\n.\n", b"\n.\r\n", b"\r\n.\n", b"\r.\r", b"\r\n.\r\n", b"a", b"MAIL FROM:<bait@x>\r\n", b".\r\n", b"\r\n"]
nontrivial = lambda case, ans: dc.nontrivial_stream(case) if case.startswith('dr') else cc.nontrivial(case, ans)
signature = lambda case, ans: dc.signature(case, ans) if case.startswith('dr') else cc.signature(case, ans)
mutate = lambda case, rng: dc.mutate(case, rng) if case.startswith('dr') else []
shrink = lambda case: dc.shrink(case) if case.startswith('dr') else P.shrink_resegment(case)
KNOWN = {}


from vlib.props import convprops as P, convcommon as cc
_proj = lambda case, ans: cc.project(ans, codes="class", enh=False, drecs="full")


def groups(tier, rng):
    L = 4 if tier == "quick" else 5
    enum = []
    for s in all_strings(TOK, L):
        for kind in ("all", 1, rng.choice([2, 3, 7, "mixed"])):
            lim = rng.choice([None, None, len(s), max(1, len(s) // 2)])
            enum.append(dc.dr_case(lim, 0, s, cuts(len(s), rng, rng.choice(["one", "rand"])), sched(kind, len(s), rng)))
    conv = P.data_convs(tier, rng, limits=(0, 1))
    return [Group("dr/lookalikes", enum, theorems=THEOREMS),
            Group("conv/data-resume", conv, project=_proj, theorems=THEOREMS)]


def replay_groups(path):
    import json
    return [Group("replay", [json.load(open(path))["case"]], theorems=THEOREMS)]
