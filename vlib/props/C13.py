"""C13 — conv-probe property (see vlib/props/convprops.py)."""
from vlib.props import convprops as P, convcommon as cc
from vlib import convgen as g
globals().update(P.make('C13', 'conv probe in LMTP mode: every recipient list up to the tier length over {Postmaster@x.org, postmaster@x.org (case variant), b@y.net} x status scripts (empty, and sampled sub-multisets of the occurrences in every order; unknown recipient and one-too-many on the BDAT path) x return value x {DATA, BDAT} x {LMTPSession, plain backend}; sweep + walks. non-trivial = at least one callback', ['C13_mechanism', 'C13_one_per_recipient', 'C13_model_is_spec', 'C13_contract_agrees', 'C13_attribution', 'C13_failed_last_one_per_recipient'], [('lmtp-status-scripts', P.c13_cases)], lambda a: cc.project(a, codes='exact', enh=True, lmtp=True, drecs='ret'), tls=False, configs=[c for c in g.CONFIGS if c.get('lmtp')]))

# --- schedules (LMTP): a slow delivery of an aborted chunked transfer completing before/after the next transaction: the
# statuses of the next message must be its own ------------------------------------------------------------------------
from vlib.core import Group as _Group
from vlib.props import C20 as _C20
_g0 = groups
RULE = RULE + " | conv probe: BDAT LAST that cannot be delivered (backend gives up inside the chunk: error, nil, panic; statuses set or not): one reply per accepted recipient, in order, each naming its recipient | sched probe (LMTP cases): every order of {aborted delivery completes, next transaction arrives, its delivery completes}"


def lastfail_cases(tier, rng):
    """one LMTP transaction whose BDAT … LAST cannot be delivered: the backend gives up inside the LAST chunk (or has given up in an
    earlier chunk? no: then that chunk fails), returns an error, nil, or panics; per-recipient backends have set some statuses"""
    cases = []
    A, B = b"Postmaster@x.org", b"b@y.net"
    for sess in (0, 1):
        for rcpts in ([A], [A, B], [B, A, B], [A, A]):
            for want in (0, 2, 5):
                for ret in ("ok", g.se(550, "5.7.1", b"no thanks"), g.er(b"disk full"), "panic"):
                    for chunks in ((b"BDAT 8 LAST\r\nabcdefgh",), (b"BDAT 3\r\nabc", b"BDAT 5 LAST\r\ndefgh")):
                        if len(chunks) == 2 and want < 3:
                            continue      # the first chunk would be the one that fails
                        sts = []
                        if sess and rng.random() < 0.6:
                            sts = [(rng.choice(rcpts), rng.choice(["ok", g.se(452, "4.2.2", b"over quota")]))]
                        c = g.Conv(dict(lmtp=1, lmtpsess=sess))
                        c.add(b"LHLO x\r\n", NS="ok"); c.add(b"MAIL FROM:<s@x>\r\n", MAIL="ok")
                        for a in rcpts:
                            c.add(b"RCPT TO:<" + a + b">\r\n", RCPT="ok")
                        for i, ch in enumerate(chunks):
                            c.add(ch, **(dict(DATA=g.ddec(want=want, rsz=1, ret=ret, statuses=sts)) if i == 0 else {}))
                        P.markers(c)
                        for seg in ("one", "line"):
                            cases.append(c.case(seg=seg, rng=rng) + "\tTAG=lastfail")
            # the source fails inside the LAST chunk while the delivery is still running (the connection ends, or the read deadline
            # expires): still one reply per recipient (written to a peer that may be gone), and the handler ends — no deadlock
            for ending in ("eof", "to"):
                for first in ((), (b"BDAT 3\r\nabc",)):
                    c = g.Conv(dict(lmtp=1, lmtpsess=sess, rt=1))
                    c.add(b"LHLO x\r\n", NS="ok"); c.add(b"MAIL FROM:<s@x>\r\n", MAIL="ok")
                    for a in rcpts:
                        c.add(b"RCPT TO:<" + a + b">\r\n", RCPT="ok")
                    dec = dict(DATA=g.ddec(ret="prop"))
                    for ch in first:
                        c.add(ch, **dec); dec = {}
                    c.add(b"BDAT 9 LAST\r\nabcd", **dec)
                    f = c.case(seg="line").split("\t")
                    if ending == "to":
                        segs, end = f[3].split(";")
                        f[3] = segs + ",TO," + "4e4f4f500d0a" + ";" + end
                    cases.append("\t".join(f))
    return cases


def groups(tier, rng):
    sc = [c for c in _C20.sched_cases(tier, rng) if not c.endswith("TAG=lifecycle") and "lmtp=1" in c]
    return _g0(tier, rng) + [_Group("sched/lmtp-delivery-orders", sc, project=_C20.project, theorems=THEOREMS),
                             _Group("conv/bdat-last-that-fails", lastfail_cases(tier, rng),
                                    project=lambda case, a: cc.project(a, codes="exact", enh=True, lmtp=True, drecs="ret"), theorems=THEOREMS)]
