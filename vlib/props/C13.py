"""C13 — conv-probe property (see vlib/props/convprops.py)."""
from vlib.props import convprops as P, convcommon as cc
from vlib import convgen as g
globals().update(P.make('C13', 'conv probe in LMTP mode: every recipient list up to the tier length over {Postmaster@x.org, postmaster@x.org (case variant), b@y.net} x status scripts (empty, and sampled sub-multisets of the occurrences in every order; unknown recipient and one-too-many on the BDAT path) x return value x {DATA, BDAT} x {LMTPSession, plain backend}; sweep + walks. non-trivial = at least one callback', ['C13_attribution (pending)'], [('lmtp-status-scripts', P.c13_cases)], lambda a: cc.project(a, codes='exact', enh=True, lmtp=True, drecs='ret'), tls=False, configs=[c for c in g.CONFIGS if c.get('lmtp')]))
