"""C13 — conv-probe property (see vlib/props/convprops.py)."""
from vlib.props import convprops as P, convcommon as cc
from vlib import convgen as g
globals().update(P.make('C13', 'conv probe in LMTP mode: every recipient list up to the tier length over {Postmaster@x.org, postmaster@x.org (case variant), b@y.net} x status scripts (empty, and sampled sub-multisets of the occurrences in every order; unknown recipient and one-too-many on the BDAT path) x return value x {DATA, BDAT} x {LMTPSession, plain backend}; sweep + walks. non-trivial = at least one callback', ['C13_mechanism', 'C13_one_per_recipient', 'C13_model_is_spec', 'C13_contract_agrees', 'C13_attribution'], [('lmtp-status-scripts', P.c13_cases)], lambda a: cc.project(a, codes='exact', enh=True, lmtp=True, drecs='ret'), tls=False, configs=[c for c in g.CONFIGS if c.get('lmtp')]))

# --- schedules (LMTP): a slow delivery of an aborted chunked transfer completing before/after the next transaction: the
# statuses of the next message must be its own ------------------------------------------------------------------------
from vlib.core import Group as _Group
from vlib.props import C20 as _C20
_g0 = groups
RULE = RULE + " | sched probe (LMTP cases): every order of {aborted delivery completes, next transaction arrives, its delivery completes}"


def groups(tier, rng):
    sc = [c for c in _C20.sched_cases(tier, rng) if not c.endswith("TAG=lifecycle") and "lmtp=1" in c]
    return _g0(tier, rng) + [_Group("sched/lmtp-delivery-orders", sc, project=_C20.project, theorems=THEOREMS)]
