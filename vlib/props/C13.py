"""C13 — conv-probe property (see vlib/props/convprops.py)."""
from vlib.props import convprops as P, convcommon as cc
from vlib import convgen as g
globals().update(P.make('C13', 'conv probe in LMTP mode: recipient lists with duplicates x status scripts (subsets, orders, unknown recipient, too many) x return value x {DATA, BDAT} x {LMTPSession, plain backend}; sweep + walks. non-trivial = at least one callback', ['C13_attribution (pending)'], None, lambda a: cc.project(a, codes='exact', enh=True, lmtp=True, drecs='ret'), tls=False, configs=[c for c in g.CONFIGS if c.get('lmtp')]))
