"""C10 — conv-probe property (see vlib/props/convprops.py)."""
from vlib.props import convprops as P, convcommon as cc
from vlib import convgen as g
globals().update(P.make('C10', 'conv probe over a real in-process TLS upgrade: walks and sweeps in TLS configurations with STARTTLS at a random point, optionally with plaintext (MAIL/RCPT) injected behind the STARTTLS line in the same segment. non-trivial = at least one callback', ['C10 (via Order monitor, pending)'], None, lambda a: cc.project(a, codes='class', enh=False, ehlo=True, drecs='none'), tls=True, configs=g.TLS_CONFIGS, structural=True))
