"""C10 — conv-probe property (see vlib/props/convprops.py)."""
from vlib.props import convprops as P, convcommon as cc
from vlib import convgen as g
globals().update(P.make('C10', 'conv probe over a real in-process TLS upgrade: walks and sweeps in TLS configurations with STARTTLS at a random point, optionally with plaintext (MAIL/RCPT) injected behind the STARTTLS line in the same segment. non-trivial = at least one callback', ['C10_refused_unless_available', 'startTLS_success', 'C10_server_fresh', 'C10_no_plaintext_in_tls', 'C10_upgrade_discards_session', 'C10_new_session_sees_tls', 'C10_failed_handshake_changes_nothing', 'C10_client_plain_frozen', 'C10_client_plaintext_only_upgrade', 'C10_client_stops_when_upgrade_fails'], [('failed-handshake', P.hsfail_convs)], lambda a: cc.project(a, codes='class', enh=False, ehlo=True, drecs='none'), tls=True, configs=g.TLS_CONFIGS, structural=True))

# --- client half: NewClientStartTLS / package-level SendMail against scripted, possibly misbehaving servers -----------
from vlib.core import Group as _Group
from vlib import cstlsgen as _cs
_conv_groups = groups
RULE = RULE + (" | cstls probe (client half): the real client upgrades against a live scripted server over net.Pipe (NewClientStartTLS) and "
               "over loopback TCP (package-level SendMail): EHLO replies with/without STARTTLS x STARTTLS replies {220, multi-line 220, 454, "
               "501, 421, EOF, 250} x replies injected behind the 220 in the same segment {none, 250, a capability list, 235, a whole "
               "transaction} x peer {real TLS handshake, answers the ClientHello with plaintext / an alert / HTTP / nothing / EOF} x inner EHLO "
               "{other capability sets, refused -> HELO, EOF} x later calls; judged: nothing but EHLO/HELO/STARTTLS/QUIT/NOOP/RSET on the raw "
               "socket, EHLO renegotiated inside TLS, nothing succeeds without a TLS session; and compared with the Lean client model")
TRUSTED = TRUSTED + ["crypto/tls is real on both ends of the cstls probe and abstracted in the model: a handshake succeeds iff the peer speaks "
                     "TLS, and the TLS session is a fresh octet stream; SendMail cases use loopback TCP (one reply per segment only)"]


def groups(tier, rng):
    from vlib.props import C06 as _C06
    # (what was counted of a plaintext transfer — octets against the size limit — is plaintext state too: it does not reach into the TLS session)
    return _conv_groups(tier, rng) + [_Group("conv/size-budget-across-the-upgrade", [c.replace("\tTAG=fits", "") for c in _C06.starttls_convs(tier, rng)],
                                             project=lambda c, a: cc.project(a, codes="exact", enh=True, drecs="ret"), theorems=THEOREMS),
                                      _Group("cstls/new-client-starttls", _cs.new_cases(tier, rng), theorems=THEOREMS),
                                      _Group("cstls/package-sendmail", _cs.sendmail_cases(tier, rng), theorems=THEOREMS)]


_nt, _sig, _mut, _shr = nontrivial, signature, mutate, shrink
nontrivial = lambda case, ans: ("\tok\t" in ans or "\tfailed\t" in ans) if case.startswith("cstls") else _nt(case, ans)
signature = lambda case, ans: ("cstls/" + case.split("\t")[1] + "/" + (ans.split("\t") + ["", ""])[1]) if case.startswith("cstls") else _sig(case, ans)
mutate = lambda case, rng: [] if case.startswith("cstls") else _mut(case, rng)
shrink = lambda case: [] if case.startswith("cstls") else _shr(case)
