"""`dr` probe cases (dataReader.Read over a bufio.Reader) shared by C01, C02, C06, C07."""
from vlib.gen import hx, unhx, all_strings, sched, cuts, rand_stream

ALPHA = [b".", b"\r", b"\n", b"a"]
TAIL = b"\r\n.\r\nMAIL FROM:<bait@x>\r\n"

TRUSTED = [
    "Lean 4.33.0 kernel; axioms propext, Classical.choice, Quot.sound only (audited per run with #print axioms)",
    "Lean compiler/runtime for the driver executable (same definitions the theorems are about)",
    "correspondence check: Go harness (build tag verif, /repo/verif_export.go wrappers) vs Lean driver, differential",
    "bufio.Reader.ReadByte/UnreadByte/Peek/Discard deliver the source's octets in order (stdlib, modelled not verified)",
    "structural assumption: dataReader.Read depends only on (state, limited, n) and the input (sampled by multi-read cases)",
]


def dr_case(lim, state, stream, segs, sizes, end="eof"):
    return "\t".join(["dr", "-" if lim is None else str(lim), str(state), hx(stream), segs,
                      ",".join(map(str, sizes)), end])


def step_table(limits):
    """exhaustive transition table: every state x every first octet x 16 two-octet continuations,
    one-octet reads, for each budget mode"""
    out = []
    for lim in limits:
        for st in range(6):
            for c in range(256):
                for d in ALPHA:
                    for e in ALPHA:
                        out.append(dr_case(lim, st, bytes([c]) + d + e, "-", [1, 1, 1, 1]))
    return out


def enum_streams(maxlen):
    return list(all_strings(ALPHA, maxlen))


def body_len(stream_prefix):
    return len(stream_prefix) + 2


def nontrivial_stream(case):
    f = case.split("\t")
    s = unhx(f[3])
    return any(c in s for c in b".\r\n") and len(s) > 1


def signature(case, ans):
    f = case.split("\t")
    a = ans.split("\t")
    res = [p.split("/")[-1] for p in a[0].split(",")] if a and a[0] else []
    last = res[-1] if res else "none"
    return "lim=%s st0=%s last=%s reads=%s" % ("y" if f[1] != "-" else "n", f[2], last,
                                              "1" if len(res) <= 1 else ("few" if len(res) < 5 else "many"))


def mutate(case, rng):
    """neighbourhood of a dr case: single-octet edits of the stream, other read sizes, other limits"""
    f = case.split("\t")
    s = unhx(f[3])
    out = []
    pool = [b".", b"\r", b"\n", b"a", b"\r\n", b".\r\n"]
    for i in range(min(len(s) + 1, 60)):
        for t in pool:
            out.append(s[:i] + t + s[i:])
            if i < len(s):
                out.append(s[:i] + t + s[i + 1:])
        if i < len(s):
            out.append(s[:i] + s[i + 1:])
    res = []
    for m in out:
        for k in (1, 2, "all"):
            g = list(f)
            g[2] = "0"
            g[3] = hx(m)
            g[4] = "-"
            g[5] = ",".join(map(str, sched(k, len(m))))
            res.append("\t".join(g))
            if f[1] != "-":
                for lim in (len(m) - 7, len(m) - 6, len(m) - 5):
                    if lim > 0:
                        h = list(g); h[1] = str(lim); res.append("\t".join(h))
    return res


def shrink(case):
    f = case.split("\t")
    s = unhx(f[3])
    out = []
    for i in range(len(s)):
        g = list(f); g[3] = hx(s[:i] + s[i + 1:]); g[4] = "-"; out.append("\t".join(g))
    if f[4] != "-":
        g = list(f); g[4] = "-"; out.append("\t".join(g))
    sizes = f[5].split(",")
    if len(sizes) > 2:
        g = list(f); g[5] = ",".join(sizes[:-1]); out.append("\t".join(g))
    return out
