"""C07 — an incomplete message is never presented to the backend as complete."""
from vlib.core import Group
from vlib.props import datacommon as dc
from vlib.gen import sched, cuts, rand_stream

ID = "C07"
LEVEL = "proof"
TRUSTED = dc.TRUSTED
ASSUMPTIONS = ["DATA-reader part; BDAT and whole-conversation cuts are tied by the conv probe"]
RULE = ("conv probe, abandoned transfers: a chunked transfer given up by RSET / a second HELO, EHLO or LHLO / QUIT, then BDAT LAST, BDAT, DATA: the abandoned message never ends with EOF | " "conv probe: every octet offset at which the client stream of 6 conversations (DATA, BDAT, LMTP, LMTP+BDAT, marker payload, AUTH+DATA) can be cut, backends propagating reader errors; dr probe: every cut point 0..len of every terminated stream over {'.',CR,LF,'a'} up to the tier's length "
        "(source ends with EOF or a scripted error), with and without size limit, 3 read schedules; random streams cut "
        "at random points. non-trivial = the cut stream is non-empty and contains '.', CR or LF")
THEOREMS = ["C07_data_cut", "C07_eof_complete", "data_monitor_accepts_model",
            "C07_bdat_eof_only_after_last", "C07_abandoned_is_reset", "C07_reset_close_no_eof", "C07_cut_connection_no_eof"]
nontrivial = lambda case, ans: dc.nontrivial_stream(case) if case.startswith('dr') else cc.nontrivial(case, ans)
signature = lambda case, ans: dc.signature(case, ans) if case.startswith('dr') else cc.signature(case, ans)
mutate = lambda case, rng: dc.mutate(case, rng) if case.startswith('dr') else []
shrink = lambda case: dc.shrink(case) if case.startswith('dr') else P.shrink_resegment(case)
KNOWN = {}


from vlib.props import convprops as P, convcommon as cc
_proj = lambda case, ans: cc.project(ans, codes="class", enh=False, drecs="full")


def groups(tier, rng):
    L = 4 if tier == "quick" else 6
    enum = []
    for s in dc.enum_streams(L):
        t = s + b"\r\n.\r\nNOOP\r\n"
        for cut in range(len(t) + 1):
            c = t[:cut]
            lim = rng.choice([None, None, len(s) + 2, max(1, len(s))])
            enum.append(dc.dr_case(lim, 0, c, cuts(len(c), rng, rng.choice(["one", "rand"])),
                                   sched(rng.choice(["all", 1, 2]), len(c), rng), rng.choice(["eof", "err"])))
    rnd = []
    for _ in range(3000 if tier == "quick" else 40000):
        s = rand_stream(rng, 200) + dc.TAIL
        c = s[:rng.randrange(len(s) + 1)]
        rnd.append(dc.dr_case(rng.choice([None, len(c) + 5, max(1, len(c) // 2)]), 0, c,
                              cuts(len(c), rng, rng.choice(["one", "rand"])),
                              sched(rng.choice(["all", 1, 3, "mixed"]), len(c), rng), rng.choice(["eof", "err"])))
    return [Group("dr/every-cut", enum, theorems=THEOREMS),
            Group("dr/random-cuts", rnd, theorems=THEOREMS),
            Group("conv/every-cut", P.cut_convs(tier, rng), project=_proj, theorems=THEOREMS),
            Group("conv/abandoned-transfers", abandoned(tier, rng), project=_proj, theorems=THEOREMS)]


def abandoned(tier, rng):
    """a chunked transfer given up between chunks by something other than a lost connection — RSET, a second greeting of
    any kind, QUIT, STARTTLS — and then an attempt to finish it: the abandoned message is incomplete whatever follows"""
    from vlib import convgen as g
    cases = []
    enders = [b"RSET\r\n", b"HELO again\r\n", b"EHLO again\r\n", b"helo x\r\n", b"QUIT\r\n", b"LHLO again\r\n"]
    finishers = [b"BDAT 0 LAST\r\n", b"BDAT 3 LAST\r\nxyz", b"BDAT 3\r\nxyz", b"DATA\r\nxyz\r\n.\r\n", b"NOOP\r\n"]
    for lm in (0, 1):
        for ender in enders:
            if (ender.upper().startswith(b"LHLO")) != bool(lm) and ender.upper().startswith((b"LHLO", b"EHLO", b"HELO")):
                continue
            for fin in finishers:
                c = g.Conv(dict(lmtp=lm, lmtpsess=rng.choice([0, 1]) if lm else 0))
                P.envelope(c, bool(lm))
                c.add(b"BDAT 5\r\nhello", DATA=g.ddec(ret="prop"))
                c.add(ender, **({"NS": "ok"} if ender[:4].upper() in (b"EHLO", b"HELO", b"LHLO") else {}))
                c.add(fin)
                c.add(b"NOOP\r\n")
                for seg in ("one", "line"):
                    cases.append(c.case(seg=seg, rng=rng) + "\tTAG=incomplete:0")
        # a LAST chunk announcing more octets than will ever arrive — sizes around the 32- and 64-bit boundaries included — and
        # then nothing but a few octets and the end of the connection: the message begun by the first chunk is incomplete
        for size in (9, 4294967295, 4294967296, 9223372036854775807, 9223372036854775808, 18446744073709551615, 18446744073709551616):
            for tail in (b"", b"xyz"):
                c = g.Conv(dict(lmtp=lm, lmtpsess=rng.choice([0, 1]) if lm else 0))
                P.envelope(c, bool(lm))
                c.add(b"BDAT 5\r\nhello", DATA=g.ddec(ret="prop"))
                c.add(b"BDAT %d LAST\r\n" % size + tail)
                for seg in ("one", "line"):
                    cases.append(c.case(seg=seg, rng=rng) + "\tTAG=incomplete:0")
        # the LAST chunk's command line itself is cut: `BDAT 0 LAST` (or `BDAT 3 LAST`) without its line feed, then the end of the
        # connection or the idle timeout — the chunk was never announced in full, the message is incomplete
        for last in (b"BDAT 0 LAST", b"BDAT 0 LAST\r", b"BDAT 3 LAST"):
            for how in ("eof", "timeout"):
                c = g.Conv(dict(lmtp=lm, lmtpsess=rng.choice([0, 1]) if lm else 0, rt=int(how == "timeout")))
                P.envelope(c, bool(lm))
                c.add(b"BDAT 6\r\nHello ", DATA=g.ddec(ret="prop")); c.add(b"BDAT 0\r\n"); c.add(last)
                f = c.case(seg=rng.choice(["one", "line"]), rng=rng).split("\t")
                if how == "timeout":
                    segs, end = f[3].split(";")
                    f[3] = segs + ",TO;" + end
                cases.append("\t".join(f) + "\tTAG=incomplete:0")
    return cases


def replay_groups(path):
    import json
    return [Group("replay", [json.load(open(path))["case"]], theorems=THEOREMS)]
