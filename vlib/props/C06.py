"""C06 — MaxMessageBytes bounds what a backend is handed and what is accepted."""
from vlib.core import Group
from vlib.props import datacommon as dc
from vlib.gen import sched, cuts, rand_stream

ID = "C06"
LEVEL = "proof"
TRUSTED = dc.TRUSTED
ASSUMPTIONS = ["DATA-reader part; BDAT accounting and the SIZE parameter are tied by the conv/mailargs probes"]
RULE = ("conv probe: DATA bodies with limits |body|-1..|body|+1, BDAT chunk sequences totalling N-2..N+2 and 3N for N in {5,10}, second transactions within the limit after a completed / abandoned / exactly-N chunked transfer on the same connection (no 552 may appear), declared SIZE in {N-1,N,N+1,2^32-1,2^32,0}, BDAT size arguments 2^32..2^64 and beyond inside a transaction, SMTP and LMTP; dr probe with a size budget: exhaustive transition table for budget 0, 1 and 3; every stream over "
        "{'.',CR,LF,'a'} up to the tier's length x limits {1, |body|-2..|body|+2, far above} x read schedules; random "
        "256-valued streams with random limits. non-trivial = limited reader and stream containing '.', CR or LF")
THEOREMS = ["C06_bound_data", "C06_oversize_never_complete", "C06_transparent", "data_monitor_accepts_model",
            "C06_chunk_over_limit", "C06_declared_size_refused", "C06_accepted_chunk_bounded", "C06_no_delivery_over_limit",
            "C06_accounting_invariant", "C06_eof_is_sticky"]
nontrivial = lambda case, ans: (dc.nontrivial_stream(case) and case.split("\t")[1] != "-") if case.startswith('dr') else cc.nontrivial(case, ans)
signature = lambda case, ans: dc.signature(case, ans) if case.startswith('dr') else cc.signature(case, ans)
mutate = lambda case, rng: dc.mutate(case, rng) if case.startswith('dr') else []
shrink = lambda case: dc.shrink(case) if case.startswith('dr') else P.shrink_resegment(case)
KNOWN = {}


from vlib.props import convprops as P, convcommon as cc
from vlib import convgen as g
_proj = lambda case, ans: cc.project(ans, codes="exact", enh=False, drecs="full")


def size_convs(tier, rng):
    """BDAT accounting and the SIZE parameter around the limit"""
    cases = []
    for N in (5, 10):
        for lm in (0, 1):
            cfg = dict(maxmsg=N, lmtp=lm)
            # declared SIZE
            for size in (N - 1, N, N + 1, 4294967295, 4294967296, 0):
                c = g.Conv(cfg)
                c.add((b"LHLO" if lm else b"EHLO") + b" x\r\n")
                c.add(b"MAIL FROM:<s@x> SIZE=%d\r\n" % size, MAIL="ok" if size <= N else [])
                c.add(b"RSET\r\n")
                cases.append(c.case(seg="line", rng=rng))
            # chunk sequences whose total is N-2..N+2 and far above
            for total in (N - 2, N - 1, N, N + 1, N + 2, 3 * N):
                for parts in (1, 2, 3):
                    sizes = [total // parts] * parts
                    sizes[-1] += total - sum(sizes)
                    c = g.Conv(cfg)
                    P.envelope(c, bool(lm))
                    for i, k in enumerate(sizes):
                        c.add(b"BDAT %d" % k + (b" LAST" if i == parts - 1 else b"") + b"\r\n" + b"z" * k,
                              **(dict(DATA=g.ddec(rsz=rng.choice([1, 3, 4096]))) if i == 0 else {}))
                    P.markers(c)
                    cases.append(c.case(seg=rng.choice(["one", "line", "rand"]), rng=rng))
    # enormous and overflowing chunk sizes: nothing of the accounting may wrap around
    for N in (5, 10):
        for lm in (0, 1):
            for huge in (2**32, 2**63 - 1, 2**63, 2**64 - 5, 2**64 - 1, 2**64, 10**30, 2**32 + 3):
                for first in (0, 2):
                    for over in (1, 5, 100):
                        c = g.Conv(dict(maxmsg=N, lmtp=lm))
                        P.envelope(c, bool(lm))
                        started = False
                        if first:
                            c.add(b"BDAT %d\r\n" % first + b"f" * first, DATA=g.ddec()); started = True
                        c.add(b"BDAT %d\r\n" % huge)
                        c.add(b"BDAT %d LAST\r\n" % (N - first + over) + b"z" * (N - first + over), **({} if started else dict(DATA=g.ddec())))
                        P.markers(c)
                        cases.append(c.case(seg=rng.choice(["one", "line"]), rng=rng))
    # connection histories: an earlier chunked transfer (completed / abandoned by RSET / refused) must not count
    # against the next message; every message here is within the limit, so no 552 may appear at all ("fits")
    for N in (5, 10):
        for lm in (0, 1):
            cfg = dict(maxmsg=N, lmtp=lm)
            for first in ("done", "rset", "exact"):
                for second_total in (1, N - 1, N):
                    for parts in (1, 2):
                        c = g.Conv(cfg)
                        P.envelope(c, bool(lm))
                        if first == "done":
                            c.add(b"BDAT %d LAST\r\n" % (N - 1) + b"y" * (N - 1), DATA=g.ddec())
                        elif first == "exact":
                            c.add(b"BDAT %d\r\n" % (N - 2) + b"y" * (N - 2), DATA=g.ddec())
                            c.add(b"BDAT 2 LAST\r\n" + b"yy")
                        else:
                            c.add(b"BDAT %d\r\n" % (N - 1) + b"y" * (N - 1), DATA=g.ddec(ret="prop"))
                            c.add(b"RSET\r\n")
                        c.add(b"MAIL FROM:<s2@x>\r\n", MAIL="ok"); c.add(b"RCPT TO:<r2@x>\r\n", RCPT="ok")
                        sizes = [second_total // parts] * parts
                        sizes[-1] += second_total - sum(sizes)
                        for i, k in enumerate(sizes):
                            c.add(b"BDAT %d" % k + (b" LAST" if i == parts - 1 else b"") + b"\r\n" + b"z" * k,
                                  **(dict(DATA=g.ddec(rsz=rng.choice([1, 3, 4096]))) if i == 0 else {}))
                        P.markers(c)
                        cases.append(c.case(seg=rng.choice(["one", "line", "rand"]), rng=rng) + "\tTAG=fits")
    return cases


def discard_convs(tier, rng):
    """an over-limit chunk (the first of its transaction, or a later one) or DATA message is refused with 552 and the transaction is
    discarded: RCPT / BDAT LAST / DATA sent afterwards without a new MAIL must not reach the backend"""
    cases = []
    for lm, sess in ((0, 0), (1, 0), (1, 1)):
        hello = b"LHLO x\r\n" if lm else b"EHLO x\r\n"
        for N in (10, 40):
            for shape in ("first-chunk", "second-chunk", "data"):
                for follow in ("rcpt-bdat", "bdat", "data", "rcpt"):
                    c = g.Conv(dict(lmtp=lm, lmtpsess=sess, maxmsg=N))
                    c.add(hello, NS="ok"); c.add(b"MAIL FROM:<s@x>\r\n", MAIL="ok"); c.add(b"RCPT TO:<a@x>\r\n", RCPT="ok")
                    if shape == "first-chunk":
                        c.add(b"BDAT %d\r\n" % (N + 3) + b"y" * (N + 3))
                    elif shape == "second-chunk":
                        c.add(b"BDAT 4\r\nyyyy", DATA=g.ddec(ret="prop"))
                        c.add(b"BDAT %d LAST\r\n" % N + b"y" * N)
                    else:
                        c.add(b"DATA\r\n"); c.add(b"y" * (N + 1) + b"\r\n.\r\n", DATA=g.ddec(ret="prop"))
                    if "rcpt" in follow:
                        c.add(b"RCPT TO:<b@x>\r\n", RCPT="ok")
                    if "bdat" in follow:
                        c.add(b"BDAT 2 LAST\r\nzz", DATA=g.ddec())
                    if follow == "data":
                        c.add(b"DATA\r\n"); c.add(b"NOOP\r\n")
                    P.markers(c)
                    for seg in ("one", "line"):
                        cases.append(c.case(seg=seg, rng=rng) + "\tTAG=discard552")
    return cases


def starttls_convs(tier, rng):
    """the octets of a chunked transfer that was open in plaintext do not count against a message sent inside TLS after the upgrade: a
    message within the limit is accepted (TAG=fits: no 552 anywhere in the conversation)"""
    cases = []
    for lm in (0, 1):
        for k, n in ((60, 80), (100, 100), (1, 100)):
            for how in ("bdat", "data"):
                c = g.Conv(dict(tls="avail", lmtp=lm, maxmsg=100, maxline=2000))
                P.envelope(c, bool(lm))
                c.add(b"BDAT %d\r\n" % k + b"p" * k, DATA=g.ddec(ret="prop"))
                c.starttls()
                P.envelope(c, bool(lm))
                if how == "bdat":
                    c.add(b"BDAT %d LAST\r\n" % n + b"t" * n, DATA=g.ddec())
                else:
                    c.add(b"DATA\r\n"); c.add(b"t" * (n - 2) + b"\r\n.\r\n", DATA=g.ddec())
                P.markers(c, 1)
                for seg in ("line", "one"):
                    cases.append(c.case(seg=seg, rng=rng) + "\tTAG=fits")
    return cases


def groups(tier, rng):
    L = 5 if tier == "quick" else 7
    table = dc.step_table([0, 1, 3])
    enum = []
    for s in dc.enum_streams(L):
        t = s + dc.TAIL
        bl = len(s) + 2   # upper bound of the body length (dots may be removed)
        for lim in sorted({1, max(1, bl - 3), max(1, bl - 2), max(1, bl - 1), bl, bl + 1, bl + 2, 1000}):
            kind = rng.choice(["all", 1, 2, 3, "mixed"])
            enum.append(dc.dr_case(lim, 0, t, cuts(len(t), rng, rng.choice(["one", "rand"])), sched(kind, len(t), rng)))
    rnd = []
    for _ in range(3000 if tier == "quick" else 40000):
        s = rand_stream(rng, 200 if tier == "quick" else 600)
        if rng.random() < 0.8:
            s += dc.TAIL
        lim = max(1, len(s) - len(dc.TAIL) + rng.choice([-40, -3, -2, -1, 0, 1, 2, 3, 50]))
        rnd.append(dc.dr_case(lim, 0, s, cuts(len(s), rng, rng.choice(["one", "rand"])),
                              sched(rng.choice(["all", 1, 2, 3, 7, "mixed"]), len(s), rng), rng.choice(["eof", "err"])))
    return [Group("dr/step-table-budget", table, exhaustive=True, theorems=THEOREMS),
            Group("dr/enumerated-limits", enum, theorems=THEOREMS),
            Group("dr/random-limits", rnd, theorems=THEOREMS),
            Group("conv/data-limits", P.data_convs(tier, rng, limits=(1,)), project=_proj, theorems=THEOREMS),
            Group("conv/size-and-bdat", size_convs(tier, rng), project=_proj, theorems=THEOREMS),
            Group("conv/refused-with-552-is-discarded", discard_convs(tier, rng), project=_proj, theorems=THEOREMS),
            Group("conv/budget-across-starttls", starttls_convs(tier, rng), project=_proj, theorems=THEOREMS)]


def replay_groups(path):
    import json
    return [Group("replay", [json.load(open(path))["case"]], theorems=THEOREMS)]
