"""C06 — MaxMessageBytes bounds what a backend is handed and what is accepted."""
from vlib.core import Group
from vlib.props import datacommon as dc
from vlib.gen import sched, cuts, rand_stream

ID = "C06"
LEVEL = "proof"
TRUSTED = dc.TRUSTED
ASSUMPTIONS = ["DATA-reader part; BDAT accounting and the SIZE parameter are tied by the conv/mailargs probes"]
RULE = ("dr probe with a size budget: exhaustive transition table for budget 0, 1 and 3; every stream over "
        "{'.',CR,LF,'a'} up to the tier's length x limits {1, |body|-2..|body|+2, far above} x read schedules; random "
        "256-valued streams with random limits. non-trivial = limited reader and stream containing '.', CR or LF")
THEOREMS = ["C06_bound_data", "C06_oversize_never_complete", "C06_transparent", "data_monitor_accepts_model"]
nontrivial = lambda case, ans: dc.nontrivial_stream(case) and case.split("\t")[1] != "-"
signature = dc.signature
mutate = dc.mutate
shrink = dc.shrink
KNOWN = {}


def groups(tier, rng):
    L = 5 if tier == "quick" else 7
    table = dc.step_table([0, 1, 3])
    enum = []
    for s in dc.enum_streams(L):
        t = s + dc.TAIL
        bl = len(s) + 2   # upper bound of the body length (dots may be removed)
        for lim in sorted({1, max(1, bl - 3), max(1, bl - 2), max(1, bl - 1), bl, bl + 1, bl + 2, 1000}):
            kind = rng.choice(["all", 1, 2, 3, "mixed"])
            enum.append(dc.dr_case(lim, 0, t, cuts(len(t), rng, rng.choice(["one", "rand"])), sched(kind, len(t), rng)))
    rnd = []
    for _ in range(3000 if tier == "quick" else 40000):
        s = rand_stream(rng, 200 if tier == "quick" else 600)
        if rng.random() < 0.8:
            s += dc.TAIL
        lim = max(1, len(s) - len(dc.TAIL) + rng.choice([-40, -3, -2, -1, 0, 1, 2, 3, 50]))
        rnd.append(dc.dr_case(lim, 0, s, cuts(len(s), rng, rng.choice(["one", "rand"])),
                              sched(rng.choice(["all", 1, 2, 3, 7, "mixed"]), len(s), rng), rng.choice(["eof", "err"])))
    return [Group("dr/step-table-budget", table, exhaustive=True, theorems=THEOREMS),
            Group("dr/enumerated-limits", enum, theorems=THEOREMS),
            Group("dr/random-limits", rnd, theorems=THEOREMS)]


def replay_groups(path):
    import json
    return [Group("replay", [json.load(open(path))["case"]], theorems=THEOREMS)]
