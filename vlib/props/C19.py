"""C19 — hostile input is bounded: over-long lines and error floods end the connection."""
import json
from vlib.core import Group
from vlib.props import convcommon as cc, convprops as P
from vlib import convgen as g
from vlib.gen import hx, all_strings

ID = "C19"
LEVEL = "proof"
TRUSTED = cc.TRUSTED
ASSUMPTIONS = ["the bound on buffered unparsed input is a property of bufio's fixed 4096-octet buffer plus the limiter (modelled); "
               "it is not observed on the implementation"]
RULE = ("conv probe, no scripted backend panics: (a) command lines of length limit-2..limit+3 for limits {40,64,2000} at first/"
        "middle/last position, each whole, split in two at every 8th offset, and byte-wise; the over-long line is a MAIL whose address "
        "contains 'long' so that any execution of it or of a prefix is visible; (a') the same over-long lines after histories that touch the limiter: between BDAT chunks, after a refused / last chunk, after DATA, after RSET inside a chunked transfer, and as the answer to a SASL challenge arriving in two segments; (a'') an LF-free payload line whose beginning arrives in the segment of its BDAT command and whose end later, then a command within the limit: not refused (the counter restarts when the limit comes back); (b) endless LF-free input; (c) every string up to "
        "length 4 (thorough 5) over {NUL, CR, LF, SP, 'A', ':', 0xFF} as a command line; (c') every string up to length 3 (thorough 4) over {double quote, backslash, '<', '>', '@', 'a', SP, ':', '=', '+', '.'} as the argument of MAIL FROM:, RCPT TO:, AUTH= , ORCPT= and AUTH; (d) seeded random binary segments; (e) mixes of valid "
        "and invalid commands around the error threshold; (f) random walks without panic letters. non-trivial = the conversation "
        "contains an invalid, over-long or binary line; distinct = distinct case line | sched probe with `latestart` (the command loop does not wait "
        "for the delivery goroutine): the peer disconnects / QUITs / RSETs right after a BDAT command, SMTP and both LMTP modes, repeated: no recovered panic may be logged")
THEOREMS = ["C19_short_lines_ok", "C19_long_line_trips", "C19_long_line_refused", "C19_error_threshold", "C19_tripped_ends_commands", "C19_resume_short_ok", "C19_resume_counts_pending", "C19_line_handed_out_within_limit"]
signature = cc.signature
mutate = cc.mutate
shrink = P.shrink_resegment
def known_sharedseg(case, impl, reason):
    """a command line whose first octets arrive in the same network segment as the end of a BDAT payload is length-checked
    only from the next segment on (the limiter sits below bufio and is off while the payload is read)"""
    return case.endswith("TAG=cmdonly-sharedseg") and reason.count("C19") == 1 and "over-long line was not answered 500" in reason


KNOWN = {"late_delivery_after_logout": cc.known_late_delivery}      # (the shared-segment finding was repaired (known_findings.json, ebe7440): if it returns it is a violation


def nontrivial(case, ans):
    return any(k in ans for k in ("35303", "35303120", "M:", "RC:"))   # a 5xx reply or a callback


def project(case, ans):
    return cc.project(ans, codes="exact", enh=True, drecs="ret")


SAFE = [x for x in g.ALPHABET if "panic" not in x[0] and "lmtpstatus" not in x[0]]


def _groups0(tier, rng):
    lines, endless, short, binary, thresh = [], [], [], [], []
    for lim in (40, 64, 2000):
        for n in range(lim - 2, lim + 4):                    # total line length including CRLF
            for pos in ("first", "middle", "last"):
                pad = n - len(b"MAIL FROM:<long@x>\r\n")
                long_line = b"MAIL FROM:<long@x>" + b" " * pad + b"\r\n"
                if n > lim + 1:
                    body = long_line
                else:
                    body = b"MAIL FROM:<s@x>" + b" " * (n - len(b"MAIL FROM:<s@x>\r\n")) + b"\r\n"
                pre = [b"EHLO x\r\n"] if pos != "first" else []
                post = [b"NOOP\r\n", b"EHLO y\r\n"] if pos != "last" else []
                if pos == "first":
                    body = body.replace(b"MAIL FROM:<long@x>", b"EHLO long.example.x").replace(b"MAIL FROM:<s@x>", b"EHLO s.example")
                    body = body[:-2 - (len(body) - n)] + b"\r\n" if len(body) != n else body
                parts = pre + [body] + post
                c = g.Conv(dict(maxline=lim, debug=rng.choice([0, 0, 1])))
                for p_ in parts:
                    c.add(p_)
                lines.append(c.case(seg="line") + "\tTAG=cmdonly")
                lines.append(c.case(seg="one") + "\tTAG=cmdonly")
                lines.append(c.case(seg="byte") + "\tTAG=cmdonly")
                # the last segment arrives together with the end of the stream in one Read (crypto/tls with a close_notify behind the
                # last record): its octets count all the same
                lines.append(c.case(seg="line", end="eof+") + "\tTAG=cmdonly")
                lines.append(c.case(seg="one", end="eof+") + "\tTAG=cmdonly")
                data = b"".join(parts)
                off0 = len(b"".join(pre))
                for cut in range(off0 + 1, off0 + len(body), 8 if lim < 2000 else 250):
                    f = c.case(seg="one").split("\t")
                    f[3] = hx(data[:cut]) + "," + hx(data[cut:]) + ";eof"
                    lines.append("\t".join(f) + "\tTAG=cmdonly")
    # histories: the limit must be in force wherever a command line is read — between BDAT chunks, after a refused
    # chunk, after DATA, after RSET, inside an AUTH exchange (the SASL response is a line like any other)
    import base64
    hist = []
    for lim in (64, 2000):
        for extra in (2, 3, 40, 3 * lim):
            def long_noop(n):
                return b"NOOP" + b" " * (n - 6) + b"\r\n"
            n = lim + extra
            pre_sets = {
                "between-chunks": (dict(maxline=lim), [b"EHLO x\r\n", b"MAIL FROM:<s@x>\r\n", b"RCPT TO:<r@x>\r\n", (b"BDAT 3\r\nab\n", dict(DATA=g.ddec()))]),
                "after-refused-chunk": (dict(maxline=lim, maxmsg=10), [b"EHLO x\r\n", b"MAIL FROM:<s@x>\r\n", b"RCPT TO:<r@x>\r\n", (b"BDAT 3\r\nab\n", dict(DATA=g.ddec(ret="prop"))),
                                                                  b"BDAT 20\r\n" + b"0123456789\n" * 1 + b"012345678\n"]),
                "after-last-chunk": (dict(maxline=lim), [b"EHLO x\r\n", b"MAIL FROM:<s@x>\r\n", b"RCPT TO:<r@x>\r\n", (b"BDAT 3 LAST\r\nab\n", dict(DATA=g.ddec()))]),
                "after-data": (dict(maxline=lim), [b"EHLO x\r\n", b"MAIL FROM:<s@x>\r\n", b"RCPT TO:<r@x>\r\n", b"DATA\r\n", (b"hi\r\n.\r\n", dict(DATA=g.ddec()))]),
                "after-rset-in-bdat": (dict(maxline=lim), [b"EHLO x\r\n", b"MAIL FROM:<s@x>\r\n", b"RCPT TO:<r@x>\r\n", (b"BDAT 3\r\nab\n", dict(DATA=g.ddec(ret="prop"))), b"RSET\r\n"]),
                # the backend gives up in the middle of a chunk: the copy fails, the rest of the chunk is skipped
                "after-failed-chunk": (dict(maxline=lim), [b"EHLO x\r\n", b"MAIL FROM:<s@x>\r\n", b"RCPT TO:<r@x>\r\n",
                                                          (b"BDAT 8\r\nabcdefg\n", dict(DATA=g.ddec(want=2, rsz=1, ret=g.er(b"enough"))))]),
                "after-failed-chunk-early": (dict(maxline=lim), [b"EHLO x\r\n", b"MAIL FROM:<s@x>\r\n", b"RCPT TO:<r@x>\r\n",
                                                                (b"BDAT 8 LAST\r\nabcdefg\n", dict(DATA=g.ddec(want=0, ret=g.se(550, "5.7.1", b"no"))))]),
                "after-failed-second-chunk": (dict(maxline=lim), [b"EHLO x\r\n", b"MAIL FROM:<s@x>\r\n", b"RCPT TO:<r@x>\r\n",
                                                                 (b"BDAT 3\r\nab\n", dict(DATA=g.ddec(want=5, rsz=2, ret=g.er(b"enough")))), b"BDAT 8\r\nabcdefg\n"]),
            }
            for name, (cfgd, pre) in pre_sets.items():
                c = g.Conv(cfgd)
                for p_ in pre:
                    if isinstance(p_, tuple):
                        c.add(p_[0], **p_[1])
                    else:
                        c.add(p_, **({"NS": "ok"} if p_.startswith(b"EHLO") else {"MAIL": "ok"} if p_.startswith(b"MAIL") else {"RCPT": "ok"} if p_.startswith(b"RCPT") else {}))
                c.add(long_noop(n)); c.add(b"NOOP\r\n")
                for seg in ("line", "one", "rand"):
                    # random segmentation can put the first octets of the long line into the segment that carries the end
                    # of a chunk's payload: those octets are read while the limit is lifted (known finding, see KNOWN)
                    shared = seg == "rand" and ("chunk" in name or "bdat" in name)
                    hist.append(c.case(seg=seg, rng=rng) + ("\tTAG=cmdonly-sharedseg" if shared else "\tTAG=cmdonly"))
            # the over-long line is the answer to a 334 challenge; it arrives in two segments, the first within the limit
            resp = base64.b64encode(b"long" + b"x" * n)[:n - 2] + b"\r\n"
            c = g.Conv(dict(maxline=lim, insecure=1, authsess=1, mechs=hx(b"LOGIN")))
            c.add(b"EHLO x\r\n", NS="ok"); c.add(b"AUTH LOGIN\r\n", AUTH="ok", SASL=[hx(b"User:") + "!0!ok", "-!1!ok"])
            c.add(resp); c.add(b"NOOP\r\n")
            base = c.case(seg="line").split("\t")
            data = b"".join(c.lines)
            off = len(b"EHLO x\r\nAUTH LOGIN\r\n")
            for cut in sorted({off + 8, off + lim // 2, off + lim - 2, off + lim}):
                f = list(base); f[3] = hx(data[:off]) + "," + hx(data[off:cut]) + "," + hx(data[cut:]) + ";eof"
                hist.append("\t".join(f) + "\tTAG=cmdonly")
            hist.append(c.case(seg="one") + "\tTAG=cmdonly")
    # the counter after a chunk: the beginning of an LF-free payload line arrives in the segment of its BDAT command (counted), the rest
    # while the limit is lifted (not counted); when the limit comes back the count must not be carried over to the next command line:
    # every line of the input — payload lines included — is within the limit, none may be refused for its length
    for lim in (64, 2000):
        for k in (15, lim // 2):
            for nxt in (b"NOOP" + b" " * (lim - 30) + b"\r\n", b"BDAT 0 LAST\r\n", b"RSET\r\n"):
                for lm in (0, 1):
                    payload = b"x" * (lim - k) + b"\n"
                    c = g.Conv(dict(maxline=lim, lmtp=lm))
                    c.add((b"LHLO" if lm else b"EHLO") + b" x\r\n", NS="ok"); c.add(b"MAIL FROM:<s@x>\r\n", MAIL="ok"); c.add(b"RCPT TO:<r@x>\r\n", RCPT="ok")
                    c.add(b"BDAT %d\r\n" % len(payload) + payload, DATA=g.ddec(ret="prop"))
                    c.add(nxt); c.add(b"NOOP\r\n")
                    f = c.case(seg="line").split("\t")
                    pre = b"".join(c.lines[:3]); cmd = b"BDAT %d\r\n" % len(payload)
                    for cut in (len(payload) - 1, len(payload) // 2):
                        f2 = list(f)
                        f2[3] = ",".join([hx(pre), hx(cmd + payload[:cut]), hx(payload[cut:]), hx(nxt), hx(b"NOOP\r\n")]) + ";eof"
                        hist.append("\t".join(f2) + "\tTAG=cmdonly")
    # an over-long line that is buffered, complete, behind a chunk's payload — with further commands behind it in the same segment: it is
    # found when the limit comes back, and nothing of it may be executed
    for lim in (64, 2000):
        for lm in (0, 1):
            for lastc in (b" LAST", b""):
                c = g.Conv(dict(maxline=lim, lmtp=lm))
                c.add((b"LHLO" if lm else b"EHLO") + b" x\r\n", NS="ok"); c.add(b"MAIL FROM:<s@x>\r\n", MAIL="ok"); c.add(b"RCPT TO:<r@x>\r\n", RCPT="ok")
                c.add(b"BDAT 10%s\r\n" % lastc, DATA=g.ddec(ret="prop"))
                c.add(b"0123456789" + b"MAIL FROM:<long" + b"a" * (lim + 20) + b"@x>\r\n" + b"NOOP\r\n")
                hist.append(c.case(seg="line") + "\tTAG=bait-only")
                # ... and the same behind the completely buffered payload of a pipelined second chunk: the BDAT line in between ends the
                # counting only for the octets it announces
                c = g.Conv(dict(maxline=lim, lmtp=lm))
                c.add((b"LHLO" if lm else b"EHLO") + b" x\r\n", NS="ok"); c.add(b"MAIL FROM:<s@x>\r\n", MAIL="ok"); c.add(b"RCPT TO:<r@x>\r\n", RCPT="ok")
                c.add(b"BDAT 10\r\n", DATA=g.ddec(ret="prop"))
                c.add(b"0123456789" + b"BDAT 5%s\r\nabcde" % lastc + b"MAIL FROM:<long" + b"a" * (lim + 20) + b"@x>\r\n" + b"NOOP\r\n")
                hist.append(c.case(seg="line") + "\tTAG=bait-only")
            # a refused chunk (no transaction) whose payload is followed by a BDAT line without a usable size and an over-long line:
            # nothing is skipped behind such a line, the over-long line is found (ecdb2ac; 8853bc2 stopped counting at any BDAT line)
            for bad in (b"BDAT x", b"BDAT", b"BDAT -1", b"BDAT 99999999999", b"bdat 1x LAST"):
                c = g.Conv(dict(maxline=lim, lmtp=lm))
                c.add((b"LHLO" if lm else b"EHLO") + b" x\r\n", NS="ok")
                c.add(b"BDAT 1\r\n")
                c.add(b"x" + bad + b"\r\n" + b"MAIL FROM:<long" + b"a" * (lim + 20) + b"@x>\r\n" + b"NOOP\r\n")
                hist.append(c.case(seg="line") + "\tTAG=bait-only")
    # lines that are NOT commands but look like a BDAT command, buffered behind a chunk: an answer to a 334 challenge, a line of a DATA
    # body.  Nothing may be skipped behind the AUTH / DATA line, or the over-long line behind the look-alike escapes the limit
    for lim in (100, 2000):
        longl = b"NOOP " + b"x" * (lim + 100) + b"\r\n"
        c = g.Conv(dict(maxline=lim, insecure=1, authsess=1, mechs=hx(b"LOGIN")))
        c.add(b"EHLO x\r\n", NS="ok"); c.add(b"MAIL FROM:<s@x>\r\n", MAIL="ok"); c.add(b"RCPT TO:<r@x>\r\n", RCPT="ok")
        c.add(b"BDAT 10\r\n12345", DATA=g.ddec(ret="prop"))
        c.add(b"67890BDAT 0 LAST\r\nAUTH LOGIN\r\nBDAT %d\r\n" % (lim + 50) + longl + b"MAIL FROM:<long@x>\r\nQUIT\r\n",
              AUTH="ok", SASL=[hx(b"User:") + "!0!ok", "-!1!ok"])
        hist.append(c.case(seg="line") + "\tTAG=bait-only")
        c = g.Conv(dict(maxline=lim))
        c.add(b"EHLO x\r\n", NS="ok"); c.add(b"MAIL FROM:<s@x>\r\n", MAIL="ok"); c.add(b"RCPT TO:<r@x>\r\n", RCPT="ok")
        c.add(b"BDAT 10\r\n12345", DATA=g.ddec(ret="prop"))
        c.add(b"67890BDAT 0 LAST\r\nMAIL FROM:<s2@x>\r\nRCPT TO:<r2@x>\r\nDATA\r\nBDAT %d\r\n.\r\n" % (lim + 50) + longl + b"MAIL FROM:<long@x>\r\nQUIT\r\n",
              MAIL="ok", RCPT="ok", DATA=g.ddec(ret="prop"))
        hist.append(c.case(seg="line") + "\tTAG=bait-only")
    # ... and the other way round (what the look-ahead of ab2fa9c got wrong): a DATA command — refused, or accepted with its body — buffered
    # behind a chunk, and behind it a pipelined chunk whose payload has an LF-free run longer than the limit; all of it arrives while the
    # limit is lifted.  Every command line is short: nothing may be refused for its length, every message is delivered
    for lim in (100, 2000):
        run = b"x" * (lim + 1000)
        c = g.Conv(dict(maxline=lim))
        c.add(b"EHLO x\r\n", NS="ok"); c.add(b"MAIL FROM:<s@x>\r\n", MAIL="ok"); c.add(b"RCPT TO:<r@x>\r\n", RCPT="ok")
        c.add(b"BDAT 5\r\n", DATA=g.ddec(ret="prop"))
        c.add(b"helloDATA\r\nBDAT %d LAST\r\n" % len(run) + run + b"NOOP\r\nQUIT\r\n")
        hist.append(c.case(seg="line") + "\tTAG=bait-only")
        c = g.Conv(dict(maxline=lim))
        c.add(b"EHLO x\r\n", NS="ok"); c.add(b"MAIL FROM:<s@x>\r\n", MAIL="ok"); c.add(b"RCPT TO:<r@x>\r\n", RCPT="ok")
        c.add(b"BDAT 5 LAST\r\n", DATA=g.ddec(ret="prop"))
        c.add(b"helloMAIL FROM:<s2@x>\r\nRCPT TO:<r2@x>\r\nDATA\r\nbody\r\n.\r\nMAIL FROM:<s3@x>\r\nRCPT TO:<r3@x>\r\nBDAT %d LAST\r\n" % len(run) + run + b"NOOP\r\nQUIT\r\n",
              MAIL="ok", RCPT="ok", DATA=g.ddec(ret="prop"))
        hist.append(c.case(seg="line") + "\tTAG=bait-only")
    # what is left of a line when the peer goes away, around the limit: a cut line is the connection's failure, never a command and
    # never "too long" unless the raw limiter has seen more than the limit (found by the thorough tier's random binary input)
    for lim in (40, 64):
        for n in (lim - 2, lim - 1, lim, lim + 1, lim + 2):
            for pre in (b"", b"EHLO x\r\n"):
                if pre and n == lim:
                    continue    # behind a line feed the raw limiter counts that line feed: a fragment of exactly `lim` octets trips it — no
                                # complete line of that content could be within the maximum, and the monitor judges fragments as lines
                c = g.Conv(dict(maxline=lim))
                c.add(pre + b"NOOP" + b"y" * (n - 4))
                endless.append(c.case(seg="one") + "\tTAG=cmdonly")
    for lim in (40, 2000):
        for total in (lim * 3, 9000):
            c = g.Conv(dict(maxline=lim, debug=rng.choice([0, 1])))
            c.add(b"EHLO x\r\n"); c.add(b"MAIL FROM:<long@x>" + b"y" * total)
            endless.append(c.case(seg=rng.choice(["one", "rand"]), rng=rng) + "\tTAG=cmdonly")
    alpha = [b"\x00", b"\r", b"\n", b" ", b"A", b":", b"\xff"]
    for s in all_strings(alpha, 4 if tier == "quick" else 5):
        c = g.Conv(dict(maxline=64))
        c.add(b"EHLO x\r\n"); c.add(s + b"\r\n"); c.add(b"NOOP\r\n")
        short.append(c.case(seg="one") + "\tTAG=cmdonly")
    # letters whose upper-/lower-case form has another length in octets (dotless i, long s, U+2C65, Kelvin sign, German sharp s),
    # and multi-octet letters in and around the verb: every index into a case-folded copy of the line must stay in range
    fold = ["\u0131".encode(), "\u017f".encode(), "\u2c65".encode(), "\u212a".encode(), "\u00df".encode(), b"n", b"O", b" ", b"\xc4"]
    for s in all_strings(fold, 4 if tier == "quick" else 5, 1):
        c = g.Conv(dict(maxline=64))
        c.add(b"EHLO x\r\n"); c.add(s + b"\r\n"); c.add(b"NOOP\r\n")
        short.append(c.case(seg="one") + "\tTAG=cmdonly")
    for verb in (b"no\xc4\xb1\xc5\xbf", b"\xc4\xb1\xc4\xb1\xc4\xb1\xc4\xb1 x", b"MA\xc4\xb1L FROM:<a@b>", b"ma\xc4\xb1l from:<a@b>", b"HELO \xc5\xbf", b"RCPT\xc4\xb1TO:<a@b>"):
        c = g.Conv(dict(maxline=64))
        c.add(b"EHLO x\r\n"); c.add(verb + b"\r\n"); c.add(b"NOOP\r\n")
        short.append(c.case(seg="one") + "\tTAG=cmdonly")
    # argument syntax: every short string over the characters the address/parameter parsers branch on
    args = []
    aalpha = [b'"', b"\\", b"<", b">", b"@", b"a", b" ", b":", b"=", b"+", b"."]
    astr = list(all_strings(aalpha, 3 if tier == "quick" else 4, 1))
    for a in astr:
        for pre, cfgd in ((b"MAIL FROM:", {}), (b"MAIL FROM:<", {}), (b"RCPT TO:<", {}), (b"MAIL FROM:<s@x> AUTH=", {}),
                          (b"RCPT TO:<r@x> ORCPT=", dict(dsn=1)), (b"AUTH ", dict(insecure=1, authsess=1, mechs=hx(b"PLAIN")))):
            if tier == "quick" and len(a) == 3 and rng.random() < 0.5:
                continue
            if b"=" in pre and b" " in a:
                # two faulty parameters: which one is reported depends on Go's map iteration order (not modelled)
                continue
            c = g.Conv(dict(dict(maxline=2000, dsn=1, utf8=1), **cfgd))
            c.add(b"EHLO x\r\n")
            if pre.startswith(b"RCPT"):
                c.add(b"MAIL FROM:<s@x>\r\n")
            c.add(pre + a + b"\r\n"); c.add(b"NOOP\r\n")
            args.append(c.case(seg="one") + "\tTAG=cmdonly")
    for _ in range(2000 if tier == "quick" else 100000):
        c = g.Conv(rng.choice([dict(maxline=64), dict(maxline=2000), dict(maxline=2000, lmtp=1)]))
        if rng.random() < 0.5:
            c.add(b"EHLO x\r\n")
        for _ in range(rng.randrange(1, 6)):
            n = rng.randrange(1, 120)
            c.add(bytes(rng.randrange(256) if rng.random() < 0.8 else rng.choice(b"\r\n AMQ:") for _ in range(n)))
        binary.append(c.case(seg=rng.choice(["one", "rand"]), rng=rng))
    bad = [b"FOOO\r\n", b"AB\r\n", b"\r\n", b"ABCDE\r\n", b"MAIL\xffFROM\r\n"]
    good = [b"NOOP\r\n", b"EHLO x\r\n", b"RSET\r\n", b"VRFY u\r\n", b"MAIL FROM:<mkX@x>\r\n"]
    for _ in range(600 if tier == "quick" else 6000):
        c = g.Conv(dict(rt=rng.choice([0, 1])))
        for i in range(rng.randrange(3, 10)):
            c.add(rng.choice(bad) if rng.random() < 0.55 else rng.choice(good))
        thresh.append(c.case(seg=rng.choice(["one", "line", "rand"]), rng=rng) + "\tTAG=cmdonly-flood")
    # floods in which a command that resets the transaction (RSET, a repeated greeting) comes at least once every three bad lines: the error
    # budget belongs to the connection, not to the transaction
    for _ in range(100 if tier == "quick" else 1500):
        c = g.Conv(dict(lmtp=rng.choice([0, 0, 1])))
        hello = b"LHLO x\r\n" if c.cfg.get("lmtp") else b"EHLO x\r\n"
        c.add(hello)
        for i in range(rng.randrange(5, 12)):
            c.add(rng.choice(bad))
            if rng.random() < 0.6:
                c.add(rng.choice([b"RSET\r\n", hello, b"NOOP\r\n", b"RSET\r\n"]))
        thresh.append(c.case(seg=rng.choice(["one", "line"]), rng=rng) + "\tTAG=cmdonly-flood")
    walks = []
    for _ in range(2000 if tier == "quick" else 60000):
        cfg = rng.choice(g.CONFIGS)
        names = [n for n in g.random_walk(cfg, rng, rng.randrange(3, 25)) if "panic" not in n and "lmtpstatus" not in n]
        walks.append(g.build(cfg, names, rng).case(seg=rng.choice(["one", "line", "byte", "rand"]), rng=rng))
    # the error budget belongs to the connection: protocol errors made in plaintext count after a STARTTLS upgrade too
    for nplain in (1, 2, 3):
        for lm in (0, 1):
            c = g.Conv(dict(tls="avail", lmtp=lm, maxline=2000))
            for _ in range(nplain):
                c.add(b"XXXX\r\n")
            c.starttls()
            for _ in range(5 - nplain):
                c.add(b"YYYY\r\n")
            c.add(b"NOOP\r\n"); c.add(b"QUIT\r\n")
            thresh.append(c.case(seg="line"))
    mk = lambda name, cs: Group("conv/" + name, cs, project=project, theorems=THEOREMS)
    return [mk("line-lengths", lines), mk("limit-histories", hist), mk("endless", endless), mk("short-strings", short), mk("argument-syntax", args), mk("random-binary", binary),
            mk("error-threshold", thresh), mk("walks-no-panic", walks)]


def late_start_cases(tier, rng):
    """The peer goes away (or the transfer is abandoned) right after a BDAT command was accepted, and the command loop does not wait for
    the delivery goroutine to reach the backend (`latestart`: the schedule of a production server).  No input may make the server
    log a recovered panic; here: the delivery must not find the session gone."""
    cases = []
    seg = lambda *ls: "seg:" + hx(b"".join(ls))
    for lm, sess in ((0, 0), (1, 0), (1, 1)):
        pre = [b"LHLO x\r\n" if lm else b"EHLO x\r\n", b"MAIL FROM:<a@b>\r\n", b"RCPT TO:<c@d>\r\n"]
        tails = [[b"BDAT 5\r\n"], [b"BDAT 5 LAST\r\n"], [b"BDAT 5\r\nab"], [b"BDAT 3\r\nabc", b"QUIT\r\n"], [b"BDAT 3\r\nabc"],
                 [b"BDAT 3\r\nabc", b"RSET\r\n"], [b"BDAT 0\r\n"], [b"BDAT 70000\r\n" + b"x" * 100]]
        for t in tails:
            for _ in range(3 if tier == "quick" else 12):
                cfg = g.cfg_str(dict(lmtp=lm, lmtpsess=sess))
                cases.append("\t".join(["sched", cfg, "NS=;MAIL=;RCPT=;DATA=;AUTH=;SASL=;HS=", ";".join(["latestart", seg(*pre, *t), "eof"])]))
        # the preemption of known finding C08-late-delivery-after-logout made deterministic (`holddeliver`, hook point bdat-deliver): the
        # delivery goroutine holds the session when the peer goes away, and begins Data after the Logout
        cases.append("\t".join(["sched", g.cfg_str(dict(lmtp=lm, lmtpsess=sess)), "NS=;MAIL=;RCPT=;DATA=;AUTH=;SASL=;HS=",
                                ";".join(["latestart", "holddeliver", seg(*pre, b"BDAT 0\r\n"), "eof"])]))
        # Server.Close from another goroutine at the moment the command loop reads a command line (`closeonread:<marker>`): the handler finds
        # the session gone; it must not dereference it (a recovered panic before the repair recorded in known_findings.json)
        for marker, lines in ((b"MAIL", pre[:2]), (b"RCPT", pre[:3]), (b"DATA", pre + [b"DATA\r\n"])):
            cases.append("\t".join(["sched", g.cfg_str(dict(lmtp=lm, lmtpsess=sess)), "NS=;MAIL=;RCPT=;DATA=;AUTH=;SASL=;HS=",
                                    ";".join(["closeonread:" + hx(marker), seg(*lines[:-1]), "idle", seg(lines[-1]), "eof"])]))
    return cases


def _proj_late(case, ans):
    if not case.startswith("sched"):
        return project(case, ans)
    return "panic-logged" if "PANIC" in ans else "no-panic" + ("|HANG" if "HANG" in ans else "")


def groups(tier, rng):
    return _groups0(tier, rng) + [Group("sched/disconnect-before-delivery-starts", late_start_cases(tier, rng), project=_proj_late,
                                        theorems=THEOREMS)]


def replay_groups(path):
    case = json.load(open(path))["case"]
    return [Group("replay", [case], project=_proj_late if case.startswith("sched") else project, theorems=THEOREMS)]
