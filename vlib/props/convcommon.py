"""Shared machinery of the conv-probe properties: projections, generic case groups, neighbourhoods."""
import re
from vlib import convgen as g
from vlib.gen import hx, unhx

TRUSTED = [
    "Lean 4.33.0 kernel; axioms propext, Classical.choice, Quot.sound only (audited per run with #print axioms)",
    "Lean compiler/runtime for the driver executable (same definitions the theorems are about)",
    "correspondence check: real smtp.Server.handleConn (via VHandleConn, build tag verif) over a scripted in-memory "
    "net.Conn and scripted recording backend vs the Lean model `Server.serve`; differential, not exhaustive",
    "modelled, not verified: bufio.Reader (ReadLine/ReadByte/Read/Peek, 4096 buffer, error latch), net/textproto "
    "ReadLine/PrintfLine, io.Copy/io.LimitReader/io.Pipe (synchronous hand-over), encoding/base64, strconv.ParseUint, "
    "strings.{Fields,TrimSpace,ToUpper,EqualFold,Split,Cut}, crypto/tls (handshake succeeds => fresh octet stream)",
    "Unicode case mapping is exact for ASCII plus U+017F, U+0131, U+212A; other runes are assumed not to map into ASCII",
    "MAIL/RCPT parameters: Go iterates over a map; the model processes them in order of appearance, which gives the "
    "same outcome whenever at most one parameter is faulty (generated cases respect this)",
]


def parse_replies(b):
    """reply stream -> list of (code, sep, text) per line; tolerant"""
    out = []
    for ln in b.split(b"\r\n"):
        if not ln:
            continue
        out.append((ln[:3].decode("latin1"), ln[3:4].decode("latin1"), ln[4:]))
    return out


ENH = re.compile(rb"^(\d+\.\d+\.\d+) ")


def project(ans, codes="exact", enh=True, ehlo=False, lmtp=False, drecs="full", callbacks=True, panics=True,
            only=None):
    """canonical, comparable view of a conv answer.
    codes: exact | class | none; enh: keep enhanced codes; ehlo: keep the text of EHLO capability lines;
    lmtp: keep the '<rcpt>' prefix of reply text; drecs: full | ret | none; only: set of event kinds to keep"""
    parts = ans.split("\t")
    if len(parts) < 3:
        return ans
    out, npanic = [], 0
    evs = parts[0].split(";") if parts[0] else []
    # a panic log line of the delivery goroutine is asynchronous: it may land between two writes of one multi-line
    # reply; its position relative to them means nothing, so it is moved in front and the writes are rejoined
    joined = []
    for e in evs:
        if e.startswith("W:") and len(joined) >= 2 and joined[-1] == "PANIC" and joined[-2].startswith("W:"):
            joined[-2:] = ["PANIC", joined[-2] + e[2:]]
        else:
            joined.append(e)
    for e in joined:
        kind = e.split(":", 1)[0]
        if kind == "W":
            if codes == "none":
                continue
            lines = parse_replies(unhx(e[2:]))
            in_ehlo = False
            for code, sep, text in lines:
                if text.startswith(b"Hello ") and code == "250":
                    in_ehlo = True
                item = "R" + (code if codes == "exact" else code[:1]) + sep
                m = ENH.match(text)
                if enh and m:
                    item += m.group(1).decode()
                    text = text[m.end():]
                if ehlo and in_ehlo:
                    item += "[" + text.decode("latin1") + "]"
                elif lmtp and text.startswith(b"<"):
                    item += "[" + text.split(b">")[0].decode("latin1") + ">]"
                if sep == " ":
                    in_ehlo = False
                out.append(item)
        elif kind == "PANIC":
            npanic += 1
        elif only is not None and kind not in only:
            continue
        elif callbacks or kind in ("CLOSE", "HANG", "HANG-PEER", "HANG-SPAWN") or kind.startswith("ESCAPED"):
            out.append(e)
    res = ";".join(out)
    if panics:
        res += "|PANICS=%d" % npanic
    if drecs == "full":
        res += "|" + parts[1]
    elif drecs == "ret":
        res += "|" + ";".join(":".join(d.split(":")[:3] + d.split(":")[4:]) for d in parts[1].split(";") if d)
    res += "|" + parts[2]
    return res


def sweep(configs, rng, prefixes=None, alphabet=None, tail=("NOOP",), segs=("one", "line", "byte", "rand")):
    """every letter of the alphabet after every prefix, in every configuration"""
    cases = []
    for cfg in configs:
        for pn, pre in (prefixes or g.PREFIXES).items():
            for n, _ in (alphabet or g.ALPHABET):
                c = g.build(cfg, pre + [n] + list(tail), rng)
                cases.append(c.case(seg=rng.choice(segs), rng=rng))
    return cases


def pairs(configs, rng, prefixes, alphabet, segs=("one", "line", "rand")):
    cases = []
    for cfg in configs:
        for pn, pre in prefixes.items():
            for a, _ in alphabet:
                for b, _ in alphabet:
                    c = g.build(cfg, pre + [a, b, "NOOP"], rng)
                    cases.append(c.case(seg=rng.choice(segs), rng=rng))
    return cases


def walks(configs, rng, n, lo=3, hi=25, ends=("eof", "eof", "timeout"), segs=("one", "line", "byte", "rand", "rand")):
    cases = []
    for _ in range(n):
        cfg = rng.choice(configs)
        names = g.random_walk(cfg, rng, rng.randrange(lo, hi))
        c = g.build(cfg, names, rng)
        cases.append(c.case(seg=rng.choice(segs), rng=rng, end=rng.choice(ends)))
    return cases


def every_cut(configs, rng, convs, step=1):
    """the same conversation cut (connection closed) at every octet offset"""
    cases = []
    for cfg in configs:
        for names in convs:
            c = g.build(cfg, names, rng)
            total = len(b"".join(c.lines))
            for cut in range(0, total + 1, step):
                cases.append(c.case(seg=rng.choice(["one", "rand"]), rng=rng, cut=cut))
    return cases


def case_input(case):
    f = case.split("\t")
    segs, end = f[3].split(";")
    return [s for s in segs.split(",") if s], end


def with_input(case, segs, end):
    f = case.split("\t")
    f[3] = ",".join(segs) + ";" + end
    return "\t".join(f)


def nontrivial(case, ans):
    """a conversation is non-trivial if at least one backend callback happened"""
    return any(k in ans for k in ("M:", "RC:", "DB:", "AM:"))


def signature(case, ans):
    f = case.split("\t")
    if f[0] not in ("conv", "sched"):
        return f[0] + ":" + ans[:24]
    kinds = sorted({e.split(":", 1)[0] for e in ans.split("\t")[0].split(";") if e and not e.startswith("W:")})
    cfg = dict(kv.split("=") for kv in f[1].split(","))
    return "lmtp=%s tls=%s ev=%s" % (cfg.get("lmtp"), cfg.get("tls"), "".join(k[0] for k in kinds))


def shrink(case):
    """smaller conversations: drop one segment, merge everything into one segment, drop trailing octets"""
    if not case.startswith("conv"):
        return []
    segs, end = case_input(case)
    out = []
    if "TLS" in segs:
        return out
    data = b"".join(unhx(s) for s in segs)
    lines = data.split(b"\r\n")
    for i in range(len(lines)):
        d = b"\r\n".join(lines[:i] + lines[i + 1:])
        if d != data:
            out.append(with_input(case, [hx(d)] if d else [], end))
    if len(segs) > 1:
        out.append(with_input(case, [hx(data)], end))
    return out


def mutate(case, rng):
    """neighbourhood: re-segmentations, single-line deletions/duplications, end-of-input variants"""
    if not case.startswith("conv"):
        return []
    segs, end = case_input(case)
    if "TLS" in segs:
        return []
    data = b"".join(unhx(s) for s in segs)
    out = [with_input(case, [hx(data)], end), with_input(case, [hx(data[i:i + 1]) for i in range(len(data))], end)]
    lines = data.split(b"\r\n")
    for i in range(len(lines)):
        out.append(with_input(case, [hx(b"\r\n".join(lines[:i] + lines[i + 1:]))], end))
        out.append(with_input(case, [hx(b"\r\n".join(lines[:i] + [lines[i]] + lines[i:]))], end))
    for e in ("eof", "timeout"):
        out.append(with_input(case, segs, e))
    return [c for c in out if c != case]


def known_late_delivery(case, impl, reason):
    """sched probe, `latestart` (the command loop does not wait for the delivery goroutine): the goroutine of a chunked delivery has
    fetched the session (conn.go, `session := c.Session()`) and is preempted before it calls Data; the connection ends and Conn.Close
    logs the session out; the goroutine then begins Data on the logged-out session.  Only this: the single C08 reason, and no callback
    other than the delivery's Data behind the Logout."""
    if not case.startswith("sched\t") or "latestart" not in case:
        return False
    if reason.strip() != "bad: C08 callback on a session that is not live (after Logout)":
        return False
    ev = impl.split("\t")[0].split(";")
    lo = [i for i, e in enumerate(ev) if e.startswith("LO:")]
    if not lo:
        return False
    after = [e.split(":")[0] for e in ev[lo[0] + 1:]]
    return all(a in ("DB", "D", "CLOSE", "W", "LM", "") for a in after) and "DB" in after
