"""Case generators shared by several properties."""
import itertools

def hx(b):
    return b.hex() if b else "-"

def unhx(s):
    return b"" if s in ("-", "") else bytes.fromhex(s)

def all_strings(alphabet, maxlen, minlen=0):
    for n in range(minlen, maxlen + 1):
        for t in itertools.product(alphabet, repeat=n):
            yield b"".join(t)

def sched(kind, total, rng=None):
    """a list of read sizes long enough to read `total` octets to EOF"""
    if kind == "all":
        return [total + 64, total + 64]
    if isinstance(kind, int):
        return [kind] * (total // kind + 3)
    # mixed
    out, s = [], 0
    while s < total + 3:
        k = rng.choice([1, 1, 2, 3, 5, 7, 16, 64])
        out.append(k); s += k
    return out + [4, 4]

def cuts(n, rng, kind):
    """segment sizes for a stream of n octets"""
    if kind == "one" or n == 0:
        return "-"
    if kind == "bytes":
        return ",".join(["1"] * n)
    out, left = [], n
    while left > 0:
        k = min(left, rng.choice([1, 1, 2, 3, 5, 8, 13, 40, 200]))
        out.append(str(k)); left -= k
    return ",".join(out)

def rand_stream(rng, maxlen):
    """random 256-valued stream rich in line-structure octets"""
    n = rng.randrange(0, maxlen + 1)
    toks = [b".", b"\r", b"\n", b"\r\n", b"\r\n.", b"\r\n.\r\n", b"..", b"\x00", b"\xff", b"a", b"MAIL FROM:<bait@x>\r\n"]
    out = bytearray()
    while len(out) < n:
        if rng.random() < 0.55:
            out += rng.choice(toks)
        else:
            out.append(rng.randrange(256))
    return bytes(out[:n])
