"""Orchestrator core: proof step, builds, correspondence runs, monitors, verdicts, evidence.

python3 stdlib only.  See DESIGN.md sections 4 and 5.
"""
import hashlib, json, os, random, re, shutil, subprocess, sys, time, fcntl, glob
from concurrent.futures import ThreadPoolExecutor

ROOT = os.path.dirname(os.path.dirname(os.path.abspath(__file__)))
LEAN = os.path.join(ROOT, "lean")
HARNESS_SRC = os.path.join(ROOT, "harness")
BUILD = os.path.join(ROOT, "build")
REPO = "/repo"
NCPU = max(2, min(16, os.cpu_count() or 4))
ALLOWED_AXIOMS = {"propext", "Classical.choice", "Quot.sound"}
FORBIDDEN = re.compile(r"\b(sorry|admit|native_decide|bv_decide|implemented_by|unsafe|extern)\b|^\s*axiom\s|maxHeartbeats\s+0")

GOENV = dict(os.environ, GOFLAGS="-mod=mod", GOPROXY="off", GOSUMDB="off", GOTOOLCHAIN="local",
             GOCACHE=os.path.join(BUILD, "gocache"))


def sh(cmd, cwd=None, env=None, timeout=None, inp=None):
    p = subprocess.run(cmd, cwd=cwd, env=env, stdout=subprocess.PIPE, stderr=subprocess.STDOUT,
                       timeout=timeout, input=inp, text=True)
    return p.returncode, p.stdout


class Lock:
    def __init__(self, name):
        os.makedirs(BUILD, exist_ok=True)
        self.path = os.path.join(BUILD, name)

    def __enter__(self):
        self.f = open(self.path, "w")
        fcntl.flock(self.f, fcntl.LOCK_EX)

    def __exit__(self, *a):
        fcntl.flock(self.f, fcntl.LOCK_UN)
        self.f.close()


# ---------------------------------------------------------------------------
# proof step

def strip_comments(src):
    # remove /- ... -/ (nested) and -- ... comments
    out, i, depth, n = [], 0, 0, len(src)
    while i < n:
        if src.startswith("/-", i):
            depth += 1; i += 2; continue
        if depth and src.startswith("-/", i):
            depth -= 1; i += 2; continue
        if depth:
            i += 1; continue
        if src.startswith("--", i):
            j = src.find("\n", i)
            i = n if j < 0 else j
            continue
        out.append(src[i]); i += 1
    return "".join(out)


def source_scan():
    bad = []
    for path in glob.glob(os.path.join(LEAN, "**", "*.lean"), recursive=True):
        if "/.lake/" in path:
            continue
        body = strip_comments(open(path, encoding="utf-8").read())
        # string literals may legitimately contain the words (none do today); keep it strict
        for ln, line in enumerate(body.split("\n"), 1):
            if FORBIDDEN.search(line):
                bad.append("%s:%d: %s" % (os.path.relpath(path, ROOT), ln, line.strip()[:80]))
    return bad


def proof_step(pid, tier):
    """lake build + axiom audit of SmtpV/Audit/<pid>.lean.  Returns dict."""
    res = {"theorems": [], "bad": [], "build_ok": False, "cmds": []}
    with Lock("lake.lock"):
        t0 = time.time()
        rc, out = sh(["lake", "build", "SmtpV", "smtpv"], cwd=LEAN, timeout=3600)
        res["cmds"].append("cd lean && lake build SmtpV smtpv")
        res["build_s"] = round(time.time() - t0, 1)
        if rc != 0:
            res["bad"].append("lake build failed: " + out[-2000:])
            return res
        res["build_ok"] = True
        audit = os.path.join("SmtpV", "Audit", pid + ".lean")
        rc, out = sh(["lake", "env", "lean", audit], cwd=LEAN, timeout=1800)
        res["cmds"].append("cd lean && lake env lean " + audit)
        if rc != 0:
            res["bad"].append("audit file failed: " + out[-2000:])
            return res
    wanted = re.findall(r"^#print axioms\s+(\S+)", open(os.path.join(LEAN, audit)).read(), re.M)
    seen = {}
    for m in re.finditer(r"'([^']+)' depends on axioms: \[([^\]]*)\]", out.replace("\n ", " ")):
        seen[m.group(1)] = {a.strip() for a in m.group(2).replace("\n", " ").split(",") if a.strip()}
    for m in re.finditer(r"'([^']+)' does not depend on any axioms", out):
        seen[m.group(1)] = set()
    for th in wanted:
        short = th
        hit = [k for k in seen if k == th or k.endswith("." + th) or th.endswith("." + k)]
        if not hit:
            res["bad"].append("theorem %s: no axiom report" % th)
            continue
        ax = seen[hit[0]]
        extra = ax - ALLOWED_AXIOMS
        res["theorems"].append({"name": hit[0], "axioms": sorted(ax)})
        if extra:
            res["bad"].append("theorem %s depends on %s" % (th, sorted(extra)))
    scan = source_scan()
    if scan:
        res["bad"].append("forbidden tokens in Lean sources: " + "; ".join(scan[:5]))
    if tier == "thorough":
        with Lock("lake.lock"):
            t0 = time.time()
            rc, out = sh(["lake", "env", "leanchecker", "SmtpV.Props." + pid], cwd=LEAN, timeout=3600)
            res["cmds"].append("cd lean && lake env leanchecker SmtpV.Props." + pid)
            res["leanchecker_s"] = round(time.time() - t0, 1)
            if rc != 0:
                res["bad"].append("leanchecker failed: " + out[-1500:])
    return res


# ---------------------------------------------------------------------------
# builds

class Bins:
    def __init__(self):
        self.dir = os.path.join(BUILD, "run-%d" % os.getpid())
        os.makedirs(self.dir, exist_ok=True)
        self.harness = os.path.join(self.dir, "vharness")
        self.driver = os.path.join(LEAN, ".lake", "build", "bin", "smtpv")
        self.harness_err = None

    def build_harness(self, race=False):
        shutil.copyfile(os.path.join(REPO, "go.sum"), os.path.join(HARNESS_SRC, "go.sum")) \
            if os.path.exists(os.path.join(REPO, "go.sum")) else None
        cmd = ["go", "build", "-tags", "verif"] + (["-race"] if race else []) + ["-o", self.harness, "."]
        with Lock("go.lock"):
            rc, out = sh(cmd, cwd=HARNESS_SRC, env=GOENV, timeout=1200)
        if rc != 0:
            self.harness_err = out[-3000:]
        return rc == 0

    def build_race(self):
        """the same harness under Go's race detector (C20)"""
        self.race = os.path.join(self.dir, "vharness-race")
        cmd = ["go", "build", "-race", "-tags", "verif", "-o", self.race, "."]
        with Lock("go.lock"):
            rc, out = sh(cmd, cwd=HARNESS_SRC, env=GOENV, timeout=1200)
        return rc == 0, out[-2000:]

    def cleanup(self):
        shutil.rmtree(self.dir, ignore_errors=True)


def run_race(binary, lines, workers=8):
    """run the cases under the race detector; returns (number of reports, text of the first ones)"""
    if not lines:
        return 0, ""
    size = (len(lines) + workers - 1) // workers
    shards = [lines[i:i + size] for i in range(0, len(lines), size)]

    def one(sh_):
        env = dict(os.environ, GORACE="halt_on_error=0", GOMAXPROCS="4")
        p = subprocess.run([binary], input="\n".join(sh_) + "\n", stdout=subprocess.PIPE, stderr=subprocess.PIPE, text=True,
                           timeout=3600, env=env)
        return p.stderr
    with ThreadPoolExecutor(max_workers=len(shards)) as ex:
        errs = list(ex.map(one, shards))
    text = "\n".join(errs)
    return text.count("WARNING: DATA RACE"), text[:6000]


def _run_shard(binary, lines, extra_env=None, timeout=3600):
    if not lines:
        return []
    data = "\n".join(lines) + "\n"
    env = dict(os.environ)
    env["GOMAXPROCS"] = "2"
    env["GOMEMLIMIT"] = "2GiB"
    if extra_env:
        env.update(extra_env)
    p = subprocess.run([binary], input=data, stdout=subprocess.PIPE, stderr=subprocess.PIPE, text=True,
                       timeout=timeout, env=env)
    out = p.stdout.split("\n")
    if out and out[-1] == "":
        out.pop()
    if len(out) != len(lines):
        # the process died on some case: re-run line by line to find it
        out2 = []
        for ln in lines:
            try:
                q = subprocess.run([binary], input=ln + "\n", stdout=subprocess.PIPE, stderr=subprocess.PIPE,
                                   text=True, timeout=60, env=env)
                o = q.stdout.strip("\n")
                if q.returncode != 0 or o == "":
                    o = "CRASH rc=%d %s" % (q.returncode, q.stderr.strip().replace("\n", "|")[:300])
            except subprocess.TimeoutExpired:
                o = "HANG"
            out2.append(o)
        return out2
    return out


def run_lines(binary, lines, workers=NCPU):
    """Run `lines` through `binary` in `workers` shards; answers in order."""
    n = len(lines)
    if n == 0:
        return []
    workers = max(1, min(workers, (n + 199) // 200))
    size = (n + workers - 1) // workers
    shards = [lines[i:i + size] for i in range(0, n, size)]
    with ThreadPoolExecutor(max_workers=len(shards)) as ex:
        outs = list(ex.map(lambda s: _run_shard(binary, s), shards))
    res = []
    for o in outs:
        res.extend(o)
    return res


# ---------------------------------------------------------------------------
# known findings

def load_known():
    p = os.path.join(ROOT, "known_findings.json")
    if not os.path.exists(p):
        return []
    return json.load(open(p))


# ---------------------------------------------------------------------------
# a check run

class Group:
    """One probe run: identical case lines to harness and driver."""
    def __init__(self, name, cases, exhaustive=False, project=None, monitor=True, theorems=()):
        self.name = name
        self.cases = cases
        self.exhaustive = exhaustive
        self.project = project or (lambda case, ans: ans)
        self.monitor = monitor
        self.theorems = list(theorems)


def manifest_level(pid, default):
    """the level claimed for this property in MANIFEST.json (evidence must carry the same one)"""
    try:
        m = json.load(open(os.path.join(ROOT, "MANIFEST.json")))
        for c in m["checks"]:
            if c["property_id"] == pid:
                return c["level_claimed"]["category"]
    except Exception:
        pass
    return default


def write_evidence(pid, ev):
    # runs against a deliberately modified /repo (tools/seedrun.py) keep their evidence out of the committed directory
    d = os.environ.get("VERIF_EVIDENCE_DIR") or os.path.join(ROOT, "evidence")
    os.makedirs(d, exist_ok=True)
    with open(os.path.join(d, pid + ".json"), "w") as f:
        json.dump(ev, f, indent=1, sort_keys=True)
        f.write("\n")


def sha(s):
    return hashlib.sha1(s.encode()).hexdigest()[:12]


def run_check(prop, tier, seed, replay=None):
    """prop: module with ID, LEVEL, groups(tier, rng), nontrivial(case), RULE, TRUSTED, ASSUMPTIONS,
    optional known matchers (KNOWN: dict name -> fn(case, impl_ans, reasons)->bool),
    optional mutate(case, rng) -> list of cases, shrink(case) -> iterable of smaller cases."""
    t_start = time.time()
    pid = prop.ID
    rng = random.Random(seed * 1000003 + int(pid[1:]))
    violations = []        # (kind, replay path, text)
    known_hits = {}
    ev = {"property_id": pid, "tier": tier, "seed": seed, "level": manifest_level(pid, prop.LEVEL), "violations": 0,
          "assumptions": list(getattr(prop, "ASSUMPTIONS", [])), "coverage": {}}
    cov = ev["coverage"]
    os.makedirs(os.path.join(ROOT, "replays"), exist_ok=True)

    # 1. proof step
    pr = proof_step(pid, tier)
    theorems_ok = [t for t in pr["theorems"]]
    proof_bad = list(pr["bad"])
    # 2. build the harness from /repo's working tree
    bins = Bins()
    try:
        ok = bins.build_harness()
        groups = prop.groups(tier, rng) if replay is None else prop.replay_groups(replay)
        cov_groups = []
        obligations = len(pr["theorems"]) + len([b for b in pr["bad"] if b.startswith("theorem")])
        discharged = len(pr["theorems"]) - len([b for b in pr["bad"] if "depends on" in b])
        total_eval = 0
        nontrivial = set()
        samples = []
        if not ok:
            path = os.path.join(ROOT, "replays", "%s-build.txt" % pid)
            open(path, "w").write("the harness does not build against /repo's working tree with -tags verif;\n"
                                  "every correspondence of %s is lost.\n\n%s\n" % (pid, bins.harness_err))
            violations.append(("corr", path, "harness build failed"))
            obligations += len(groups)
            groups = []
        for g in groups:
            obligations += 1
            t0 = time.time()
            cases = g.cases
            impl = run_lines(bins.harness, cases)
            model = run_lines(bins.driver, cases)
            total_eval += len(cases)
            # monitors on the implementation's answers
            reasons = [""] * len(cases)
            if g.monitor:
                mon_lines = ["mon\t" + pid + "\t" + c + "\t##\t" + a for c, a in zip(cases, impl)]
                mon = run_lines(bins.driver, mon_lines)
                reasons = ["" if m == "ok" else m for m in mon]
            diffs, bads = [], []
            hist = {}
            for i, (c, a, m) in enumerate(zip(cases, impl, model)):
                pa, pm = g.project(c, a), g.project(c, m)
                if pa != pm:
                    diffs.append(i)
                if reasons[i]:
                    bads.append(i)
                sig = prop.signature(c, a) if hasattr(prop, "signature") else ""
                hist[sig] = hist.get(sig, 0) + 1
                if prop.nontrivial(c, a):
                    nontrivial.add(sha(c))
            gi = {"probe": g.name, "cases": len(cases), "exhaustive": g.exhaustive, "disagreements": len(diffs),
                  "monitor_rejections": len(bads), "wall_s": round(time.time() - t0, 1),
                  "signature_histogram": dict(sorted(hist.items(), key=lambda kv: -kv[1])[:40])}
            cov_groups.append(gi)
            if cases:
                pick = [0, len(cases) // 2, len(cases) - 1] + [rng.randrange(len(cases)) for _ in range(2)]
                for i in sorted(set(pick)):
                    samples.append({"probe": g.name, "case": cases[i][:600], "implementation": impl[i][:600],
                                    "model": model[i][:600]})
            # verdicts
            concrete = 0
            unexplained_bad = 0
            for i in bads:
                # a concrete input on which the implementation violates the property
                kn = match_known(prop, cases[i], impl[i], reasons[i])
                if kn:
                    known_hits.setdefault(kn["id"], kn)
                    continue
                unexplained_bad += 1
                if concrete >= 3:
                    continue
                small = shrink_case(prop, bins, cases[i], reasons[i])
                path = os.path.join(ROOT, "replays", "%s-%s.case" % (pid, sha(small["case"])))
                json.dump({"property": pid, "probe": g.name, "kind": "violation", "case": small["case"],
                           "implementation": small["impl"], "model": small["model"], "reason": small["reason"],
                           "original_case": cases[i]}, open(path, "w"), indent=1)
                if not any(v[1] == path for v in violations):
                    violations.append(("viol", path, small["reason"]))
                concrete += 1
            if diffs and not concrete:
                # correspondence broken, no failing input at hand: search the neighbourhood
                found = search_neighbourhood(prop, bins, [cases[i] for i in diffs[:20]], rng, g)
                if found:
                    small = shrink_case(prop, bins, found["case"], found["reason"])
                    path = os.path.join(ROOT, "replays", "%s-%s.case" % (pid, sha(small["case"])))
                    json.dump({"property": pid, "probe": g.name, "kind": "violation", "case": small["case"],
                               "implementation": small["impl"], "model": small["model"],
                               "reason": small["reason"], "found_by": "neighbourhood search of a disagreement",
                               "disagreeing_case": cases[diffs[0]]}, open(path, "w"), indent=1)
                    violations.append(("viol", path, small["reason"]))
                else:
                    i = diffs[0]
                    path = os.path.join(ROOT, "replays", "%s-corr-%s.txt" % (pid, sha(cases[i])))
                    with open(path, "w") as f:
                        f.write("correspondence probe '%s' of %s: implementation and Lean model disagree on %d of %d cases;\n"
                                "no input was found on which the implementation violates the property's monitor.\n"
                                "Theorems whose tie to the code is lost: %s\n\nfirst disagreeing case:\n%s\nimplementation: %s\nmodel:          %s\n"
                                % (g.name, pid, len(diffs), len(cases), ", ".join(g.theorems) or "(all of Props/%s)" % pid,
                                   cases[i], impl[i], model[i]))
                    violations.append(("corr", path, "correspondence %s broken" % g.name))
            if not diffs and not unexplained_bad:
                discharged += 1
        # the race detector, for properties that ask for it
        if replay is None and hasattr(prop, "race_cases") and ok:
            obligations += 1
            t0 = time.time()
            rcases = prop.race_cases(tier, rng)
            okb, berr = bins.build_race()
            if not okb:
                path = os.path.join(ROOT, "replays", "%s-race-build.txt" % pid)
                open(path, "w").write("the harness does not build with -race:\n" + berr)
                violations.append(("corr", path, "race build failed"))
                nrep = -1
            else:
                nrep, rtext = run_race(bins.race, rcases)
                total_eval += len(rcases)
                if nrep:
                    path = os.path.join(ROOT, "replays", "%s-race.txt" % pid)
                    open(path, "w").write("Go's race detector reports %d data race(s) in the package while the harness replays these cases "
                                          "(build: go build -race -tags verif; run with GORACE=halt_on_error=0):\n\n%s\n\ncases:\n%s\n"
                                          % (nrep, rtext, "\n".join(rcases[:50])))
                    violations.append(("viol", path, "data race"))
                else:
                    discharged += 1
            cov_groups.append({"probe": "race-detector", "cases": len(rcases), "exhaustive": False, "disagreements": 0,
                               "monitor_rejections": max(nrep, 0), "wall_s": round(time.time() - t0, 1), "signature_histogram": {}})
        # facts read off the source text (a second, static tie for rarely reached branches)
        if replay is None and hasattr(prop, "static_facts") and ok:
            obligations += 1
            t0 = time.time()
            nfacts, findings = prop.static_facts()
            total_eval += nfacts
            for kind, name, text in findings[:3]:
                path = os.path.join(ROOT, "replays", "%s-static-%s.txt" % (pid, sha(name + text)))
                open(path, "w").write(text + "\n")
                violations.append((kind, path, name))
            if not findings:
                discharged += 1
            cov_groups.append({"probe": "static/source-facts", "cases": nfacts, "exhaustive": True, "disagreements": sum(1 for f in findings if f[0] == "corr"),
                               "monitor_rejections": sum(1 for f in findings if f[0] == "viol"), "wall_s": round(time.time() - t0, 1),
                               "signature_histogram": {}})
        if proof_bad:
            path = os.path.join(ROOT, "replays", "%s-proof.txt" % pid)
            open(path, "w").write("proof step of %s failed:\n%s\n" % (pid, "\n".join(proof_bad)))
            violations.append(("corr", path, "proof step failed"))
        # evidence
        cov.update({
            "obligations": obligations, "discharged": discharged,
            "checker_cmd": " ; ".join(pr["cmds"]) + " ; build/vharness <cases> | diff - <(lean/.lake/build/bin/smtpv <cases>)",
            "trusted_base": list(prop.TRUSTED),
            "theorems": pr["theorems"], "proof_problems": proof_bad,
            "evaluations": total_eval, "distinct_nontrivial": len(nontrivial), "rule": prop.RULE,
            "programs": total_eval, "disagreements_checked": sum(g["disagreements"] for g in cov_groups),
            "samples": samples[:12], "probes": cov_groups,
            "exhaustive": bool(cov_groups) and all(g["exhaustive"] for g in cov_groups),
            "lake_build_s": pr.get("build_s"),
        })
        if "leanchecker_s" in pr:
            cov["leanchecker_s"] = pr["leanchecker_s"]
        ev["violations"] = len(violations)
        ev["known_findings_seen"] = sorted(known_hits)
        ev["wall_s"] = round(time.time() - t_start, 1)
        write_evidence(pid, ev)
    finally:
        bins.cleanup()
    for k in sorted(known_hits):
        print("KNOWN-FINDING: property=%s %s" % (pid, known_hits[k]["what"]))
    for kind, path, text in violations:
        tail = " no-failing-input-found" if kind == "corr" else ""
        print("VIOLATION property=%s replay=%s%s" % (pid, path, tail))
    print("%s %s: %d cases, %d theorems audited, %d violation(s), %.1fs" %
          (pid, tier, cov.get("evaluations", 0), len(pr["theorems"]), len(violations), time.time() - t_start))
    return 1 if violations else 0


def match_known(prop, case, impl, reason):
    for k in load_known():
        if k.get("property") != prop.ID or k.get("status") == "fixed":
            continue
        fn = getattr(prop, "KNOWN", {}).get(k.get("matcher"))
        if fn and fn(case, impl, reason):
            return k
    return None


def eval_cases(prop, bins, cases):
    impl = run_lines(bins.harness, cases, workers=4)
    model = run_lines(bins.driver, cases, workers=4)
    mon = run_lines(bins.driver, ["mon\t" + prop.ID + "\t" + c + "\t##\t" + a for c, a in zip(cases, impl)], workers=4)
    return impl, model, mon


def search_neighbourhood(prop, bins, cases, rng, g):
    if not hasattr(prop, "mutate") or not g.monitor:
        return None
    cand = []
    for c in cases:
        cand.extend(prop.mutate(c, rng))
    cand = list(dict.fromkeys(cand))[:20000]
    if not cand:
        return None
    impl, model, mon = eval_cases(prop, bins, cand)
    for c, a, m in zip(cand, impl, mon):
        if m != "ok" and not match_known(prop, c, a, m):
            return {"case": c, "reason": m}
    return None


def shrink_case(prop, bins, case, reason):
    """greedy shrinking: keep a smaller case while the implementation still violates the monitor"""
    cur = case
    cur_reason = reason
    t_end = time.time() + 25          # shrinking is a convenience: bounded in time
    impl0, _, _ = eval_cases(prop, bins, [cur])
    if hasattr(prop, "shrink") and "HANG" not in impl0[0]:
        for _ in range(200):
            if time.time() > t_end:
                break
            try:
                cands = list(dict.fromkeys(prop.shrink(cur)))[:400]
            except Exception:
                cands = []           # a shrinker that cannot handle this kind of case never hides the violation
            if not cands:
                break
            impl, model, mon = eval_cases(prop, bins, cands)
            nxt = None
            for c, a, m in zip(cands, impl, mon):
                if m != "ok" and not match_known(prop, c, a, m):
                    nxt, cur_reason = c, m
                    break
            if nxt is None:
                break
            cur = nxt
    impl, model, mon = eval_cases(prop, bins, [cur])
    return {"case": cur, "impl": impl[0], "model": model[0], "reason": mon[0] if mon[0] != "ok" else cur_reason}


def main(argv):
    import argparse, importlib
    ap = argparse.ArgumentParser()
    ap.add_argument("prop")
    ap.add_argument("--tier", default=os.environ.get("VERIF_TIER", "quick"), choices=["quick", "thorough"])
    ap.add_argument("--replay")
    a = ap.parse_args(argv)
    seed = int(os.environ.get("VERIF_SEED", "1") or "1")
    prop = importlib.import_module("vlib.props." + a.prop)
    return run_check(prop, a.tier, seed, a.replay)
