"""Conversation generator for the `conv` probe: configurations, a command alphabet whose letters
carry their own backend decisions, random walks, short exhaustive sequences, segmentations."""
import itertools
from vlib.gen import hx

CRLF = b"\r\n"

DEFAULT_CFG = dict(lmtp=0, lmtpsess=0, maxrcpt=0, maxmsg=0, maxline=2000, insecure=0, tls="none", utf8=0, reqtls=0,
                   binmime=0, dsn=0, rrvs=0, rt=0, authsess=0, mechs="-")


def cfg_str(c):
    d = dict(DEFAULT_CFG); d.update(c)
    order = ["lmtp", "lmtpsess", "maxrcpt", "maxmsg", "maxline", "insecure", "tls", "utf8", "reqtls", "binmime", "dsn",
             "rrvs", "rt", "authsess", "mechs"]
    # `debug=1` (Server.Debug set: every octet read and written is also copied to a writer) is appended only when set, so that
    # case lines without it stay as they were
    return ",".join("%s=%s" % (k, d[k]) for k in order) + (",debug=1" if d.get("debug") else "")


def se(code, enh, msg):
    return "se/%d/%s/%s" % (code, enh, hx(msg))


def er(msg):
    return "er/" + hx(msg)


def ddec(want="all", rsz=4096, ret="ok", statuses=()):
    return "%s!%d!%s!%s" % (want, rsz, ret, "+".join("%s=%s" % (hx(a), r) for a, r in statuses))


class Conv:
    """accumulates the client's octets and the backend's decision queues"""
    def __init__(self, cfg):
        self.cfg = dict(DEFAULT_CFG); self.cfg.update(cfg)
        self.lines = []          # list of byte strings (each one "logical write": a command line or payload)
        self.q = {"NS": [], "MAIL": [], "RCPT": [], "DATA": [], "AUTH": [], "SASL": [], "HS": []}
        self.tls_at = None       # index into self.lines where the TLS stream starts
        self.names = []

    def add(self, data, **dec):
        self.lines.append(data)
        for k, v in dec.items():
            self.q[k].extend(v if isinstance(v, list) else [v])

    def backend(self):
        return ";".join("%s=%s" % (k, "|".join(self.q[k])) for k in ["NS", "MAIL", "RCPT", "DATA", "AUTH", "SASL", "HS"])

    def starttls(self, injected=b""):
        """a STARTTLS that is meant to succeed: what follows is sent inside TLS"""
        if self.tls_at is not None or self.cfg.get("tls") != "avail":
            self.add(b"STARTTLS\r\n")      # no upgrade will happen here: nothing is "injected"
            return
        self.add(b"STARTTLS\r\n" + injected, HS="1")
        self.tls_at = len(self.lines)

    def case(self, seg="line", rng=None, end="eof", cut=None):
        plain = self.lines if self.tls_at is None else self.lines[:self.tls_at]
        tls = [] if self.tls_at is None else self.lines[self.tls_at:]
        if cut is not None:
            data = b"".join(plain)[:cut]
            plain, tls = [data] if data else [], []
        def segs(parts, mode):
            data = b"".join(parts)
            if not data:
                return []
            if mode == "one":
                out = [data[i:i + 4000] for i in range(0, len(data), 4000)]
            elif mode == "line":
                out = [p for p in parts if p]
            elif mode == "byte":
                out = [data[i:i + 1] for i in range(len(data))]
            else:
                out, i = [], 0
                while i < len(data):
                    k = rng.choice([1, 2, 3, 5, 8, 13, 21, 50, 200, 1000])
                    out.append(data[i:i + k]); i += k
            return [hx(s) for s in out]
        if self.tls_at is None or cut is not None:
            items = segs(plain, seg)
        else:
            # the STARTTLS line (with anything injected behind it) must be one segment, fully
            # buffered when the handshake starts; records inside TLS are at most one per line
            items = segs(plain[:-1], seg) + [hx(plain[-1])] + ["TLS"] + segs(tls, "line" if seg == "byte" else seg)
        return "\t".join(["conv", cfg_str(self.cfg), self.backend(), ",".join(items) + ";" + end])


# ---------------------------------------------------------------------------
# the alphabet.  Each letter: (name, function(conv, rng))

A, B = b"a@x.org", b"b@y.net"
BODY = b"Subject: t\r\n\r\nhello\r\n..dot\r\n.\rx\r\nMAIL FROM:<bait@x>\r\n"
BIG = b"0123456789" * 3 + CRLF


def L(name, data, **dec):
    return (name, lambda c, rng, data=data, dec=dec: c.add(data, **dec))


def data_letter(name, body, terminated=True, **dec):
    def f(c, rng):
        c.add(b"DATA\r\n")
        c.add(body + (b".\r\n" if terminated else b""), **dec)
    return (name, f)


def bdat_letter(name, size_arg, payload, **dec):
    def f(c, rng):
        c.add(b"BDAT " + size_arg + CRLF)
        if payload:
            c.add(payload, **dec)
        elif dec:
            c.add(b"", **dec)
    return (name, f)


GREET = [
    L("EHLO", b"EHLO cli.example\r\n", NS="ok"),
    L("HELO", b"HELO cli.example\r\n", NS="ok"),
    L("LHLO", b"LHLO cli.example\r\n", NS="ok"),
    L("EHLO-noarg", b"EHLO\r\n"),
    L("EHLO-nsreject", b"EHLO other\r\n", NS=se(554, "5.7.1", b"go away")),
    L("EHLO-nserr", b"EHLO other\r\n", NS=er(b"backend down")),
    L("EHLO-nsreject-noenh", b"EHLO other\r\n", NS=se(554, "0.0.0", b"no service")),
    L("ehlo-lower", b"ehlo  two words\r\n", NS="ok"),
]
MAIL = [
    L("MAIL", b"MAIL FROM:<s@x.org>\r\n", MAIL="ok"),
    L("MAIL-null", b"MAIL FROM:<>\r\n", MAIL="ok"),
    L("MAIL-binmime", b"MAIL FROM:<s@x.org> BODY=BINARYMIME\r\n", MAIL="ok"),
    L("MAIL-size5", b"MAIL FROM:<s@x.org> SIZE=5\r\n", MAIL="ok"),
    L("MAIL-sizebig", b"MAIL FROM:<s@x.org> SIZE=99999\r\n", MAIL="ok"),
    L("MAIL-nofrom", b"MAIL <s@x.org>\r\n"),
    L("MAIL-badpath", b"MAIL FROM:<s@>\r\n"),
    L("MAIL-unkparam", b"MAIL FROM:<s@x.org> FOO=1\r\n"),
    L("MAIL-reject", b"MAIL FROM:<s@x.org>\r\n", MAIL=se(550, "5.1.0", b"no")),
    L("MAIL-err", b"MAIL FROM:<s@x.org>\r\n", MAIL=er(b"db")),
    L("MAIL-reject-noenh", b"MAIL FROM:<s@x.org>\r\n", MAIL=se(550, "0.0.0", b"sender rejected")),
    L("MAIL-reject-empty", b"MAIL FROM:<s@x.org>\r\n", MAIL=se(550, "5.7.1", b"")),
    L("MAIL-reject-lines", b"MAIL FROM:<s@x.org>\r\n", MAIL=se(451, "0.0.0", b"first\n\nthird")),
    L("MAIL-utf8", b"MAIL FROM:<s@x.org> SMTPUTF8\r\n", MAIL="ok"),
    L("MAIL-dsn", b"mail from:<s@x.org> RET=hdrs ENVID=a+2Bb\r\n", MAIL="ok"),
    L("MAIL-auth", b"MAIL FROM:<s@x.org> AUTH=<> BODY=8bitmime\r\n", MAIL="ok"),
    L("MAIL-panic", b"MAIL FROM:<s@x.org>\r\n", MAIL="panic"),
]
RCPT = [
    L("RCPT-A", b"RCPT TO:<" + A + b">\r\n", RCPT="ok"),
    L("RCPT-B", b"RCPT TO:<" + B + b">\r\n", RCPT="ok"),
    L("RCPT-bad", b"RCPT TO:<nodomain>\r\n"),
    L("RCPT-reject", b"RCPT TO:<r@x.org>\r\n", RCPT=se(550, "5.1.1", b"unknown user")),
    L("RCPT-tmperr", b"RCPT TO:<r@x.org>\r\n", RCPT=er(b"later")),
    L("RCPT-reject-noenh", b"RCPT TO:<r@x.org>\r\n", RCPT=se(553, "0.0.0", b"no")),
    L("RCPT-reject-empty", b"RCPT TO:<r@x.org>\r\n", RCPT=se(550, "5.1.1", b"a\n")),
    L("RCPT-notify", b"RCPT TO:<" + A + b"> NOTIFY=SUCCESS,FAILURE ORCPT=rfc822;o+40x\r\n", RCPT="ok"),
    L("RCPT-badparam", b"RCPT TO:<" + A + b"> NOTIFY=MAYBE\r\n"),
    L("RCPT-noto", b"RCPT <" + A + b">\r\n"),
]
DATA = [
    data_letter("DATA-ok", BODY, DATA=ddec()),
    data_letter("DATA-empty", b"", DATA=ddec()),
    data_letter("DATA-reject", BODY, DATA=ddec(ret=se(554, "5.6.0", b"bad content\nsecond line"))),
    data_letter("DATA-readnone", BODY, DATA=ddec(want=0)),
    data_letter("DATA-read3-reject", BODY, DATA=ddec(want=3, rsz=2, ret=er(b"enough"))),
    data_letter("DATA-prop", BIG * 3, DATA=ddec(ret="prop", rsz=7)),
    data_letter("DATA-panic", BODY, DATA=ddec(ret="panic")),
    data_letter("DATA-lmtpstatus", BODY, DATA=ddec(statuses=[(A, se(550, "5.2.2", b"full")), (B, "ok")])),
    L("DATA-arg", b"DATA now\r\n"),
    data_letter("DATA-unterminated", b"partial\r\n", terminated=False, DATA=ddec(ret="prop")),
]
BDAT = [
    bdat_letter("BDAT3", b"3", b"abc", DATA=ddec()),
    bdat_letter("BDAT3-LAST", b"3 LAST", b"xyz", DATA=ddec()),
    bdat_letter("BDAT0-LAST", b"0 LAST", b"", DATA=ddec()),
    bdat_letter("BDAT0", b"0", b"", DATA=ddec()),
    L("BDAT-noarg", b"BDAT\r\n"),
    L("BDAT-badsize", b"BDAT x\r\n"),
    bdat_letter("BDAT-3args", b"4 LAST x", b"MAIL"),
    bdat_letter("BDAT-badlast", b"18 FOO", b"RSET\r\nEHLO bait\r\n\r\n"),
    bdat_letter("BDAT-big", b"32 last", BIG, DATA=ddec()),
    bdat_letter("BDAT-marker", b"24", b"\r\n.\r\nMAIL FROM:<bait@x>\r\n", DATA=ddec()),
    bdat_letter("BDAT3-LAST-reject", b"3 LAST", b"xyz", DATA=ddec(ret=se(552, "5.2.3", b"too much"))),
    bdat_letter("BDAT5-early", b"5", b"12345", DATA=ddec(want=2, ret=er(b"early"))),
    bdat_letter("BDAT5-earlyok", b"5", b"12345", DATA=ddec(want=5, ret="ok")),
    bdat_letter("BDAT3-panic", b"3 LAST", b"xyz", DATA=ddec(ret="panic")),
    bdat_letter("BDAT3-prop", b"3", b"abc", DATA=ddec(ret="prop")),
    bdat_letter("BDAT-lmtpstatus", b"3 LAST", b"xyz", DATA=ddec(statuses=[(B, er(b"quota")), (A, "ok")])),
]
MISC = [
    L("RSET", b"RSET\r\n"), L("NOOP", b"NOOP\r\n"), L("VRFY", b"VRFY someone\r\n"), L("HELP", b"HELP\r\n"),
    L("QUIT", b"QUIT\r\n"), L("FOOO", b"FOOO bar\r\n"), L("empty", b"\r\n"), L("AB", b"AB\r\n"),
    L("ABCDE", b"ABCDE\r\n"), L("NOOPx", b"NOOPx\r\n"), L("noop-lower", b"noop\r\n"), L("bare-lf", b"NOOP\n"),
    L("starttls", b"STARTTLS\r\n"), L("long-s-starttls", "ſtarttls\r\n".encode()), L("rset-trail", b"RSET   \r\n"),
]
AUTH = [
    L("AUTH-noarg", b"AUTH\r\n"),
    L("AUTH-ir", b"AUTH PLAIN AGFiAHB3\r\n", AUTH="ok", SASL="-!1!ok"),
    L("AUTH-ir-empty", b"AUTH PLAIN =\r\n", AUTH="ok", SASL="-!1!ok"),
    L("AUTH-fail", b"AUTH PLAIN AGFiAHB3\r\n", AUTH="ok", SASL="-!0!" + se(535, "5.7.8", b"Authentication failed")),
    L("AUTH-fail-done", b"AUTH PLAIN AGFiAHB3\r\n", AUTH="ok", SASL="-!1!" + se(535, "5.7.8", b"Invalid credentials")),
    L("AUTH-fail-done-plain", b"AUTH PLAIN AGFiAHB3\r\n", AUTH="ok", SASL="-!1!" + er(b"sasl: rejected")),
    ("AUTH-2step-fail-done", lambda c, rng: (c.add(b"AUTH LOGIN\r\n", AUTH="ok", SASL=[hx(b"User:") + "!0!ok", "-!1!" + se(535, "5.7.8", b"no")]),
                                             c.add(b"dXNlcg==\r\n"))),
    L("AUTH-badb64", b"AUTH PLAIN A===\r\n"),
    L("AUTH-unknown", b"AUTH NOPE\r\n", AUTH=se(504, "5.7.4", b"Unsupported authentication mechanism")),
    ("AUTH-2step", lambda c, rng: (c.add(b"auth login\r\n", AUTH="ok", SASL=[hx(b"User:") + "!0!ok", hx(b"\x00\xffPw") + "!0!ok", "-!1!ok"]),
                                   c.add(b"dXNlcg==\r\n"), c.add(b"\r\n"))),
    ("AUTH-cancel", lambda c, rng: (c.add(b"AUTH LOGIN\r\n", AUTH="ok", SASL=[hx(b"User:") + "!0!ok"]), c.add(b"*\r\n"))),
    ("AUTH-bad-resp", lambda c, rng: (c.add(b"AUTH LOGIN\r\n", AUTH="ok", SASL=["-!0!ok"]), c.add(b"!!!!\r\n"))),
    # a mechanism whose last step returns data together with success (SCRAM's server signature): the exchange is over, the
    # next line — a cancel token, something that is not base64 — is a command line like any other
    ("AUTH-done-with-data", lambda c, rng: (c.add(b"AUTH LOGIN\r\n", AUTH="ok", SASL=[hx(b"User:") + "!0!ok", hx(b"v=c2VydmVyc2ln") + "!1!ok"]),
                                            c.add(b"dXNlcg==\r\n"), c.add(rng.choice([b"*\r\n", b"!!!!\r\n", b"\r\n", b"NOOP\r\n"])))),
    ("AUTH-ir-done-with-data", lambda c, rng: (c.add(b"AUTH PLAIN AGFiAHB3\r\n", AUTH="ok", SASL=hx(b"v=sig") + "!1!ok"),
                                               c.add(rng.choice([b"*\r\n", b"!!!!\r\n", b"NOOP\r\n"])))),
]

TLSL = [
    ("STARTTLS-ok", lambda c, rng: c.starttls()),
    ("STARTTLS-inject", lambda c, rng: c.starttls(b"MAIL FROM:<injected@x>\r\nRCPT TO:<inj")),
    # a whole injected prelude: if the plaintext buffer survived the upgrade these would run inside TLS
    ("STARTTLS-inject-ehlo", lambda c, rng: c.starttls(b"EHLO inj.example\r\nMAIL FROM:<injected@x>\r\nRCPT TO:<injrcpt@x>\r\n")),
    ("STARTTLS-inject-lhlo", lambda c, rng: c.starttls(b"LHLO inj.example\r\nMAIL FROM:<injected@x>\r\n")),
]

ALPHABET = GREET + MAIL + RCPT + DATA + BDAT + MISC + AUTH
BY_NAME = dict(ALPHABET + TLSL)

PREFIXES = {
    "fresh": [],
    "greeted": ["EHLO"],
    "mail": ["EHLO", "MAIL"],
    "rcpt1": ["EHLO", "MAIL", "RCPT-A"],
    "rcpt2": ["EHLO", "MAIL", "RCPT-A", "RCPT-B"],
    "rcptdup": ["EHLO", "MAIL", "RCPT-A", "RCPT-B", "RCPT-A"],
    "bdat-open": ["EHLO", "MAIL", "RCPT-A", "BDAT3"],
    "binmime": ["EHLO", "MAIL-binmime", "RCPT-A"],
    "authed": ["EHLO", "AUTH-ir"],
    "errs2": ["FOOO", "EHLO", "AB"],
    "lhlo-rcpt2": ["LHLO", "MAIL", "RCPT-A", "RCPT-B"],
    "lhlo-bdat": ["LHLO", "MAIL", "RCPT-A", "RCPT-B", "RCPT-A", "BDAT3"],
}


def build(cfg, names, rng):
    c = Conv(cfg)
    for n in names:
        if n in ("starttls", "long-s-starttls") and c.cfg.get("tls") == "avail" and c.tls_at is None:
            # with TLS available the first STARTTLS line is where the peer upgrades, however it is spelled
            line = b"STARTTLS\r\n" if n == "starttls" else "ſtarttls\r\n".encode()
            c.add(line, HS="1")
            c.tls_at = len(c.lines)
            continue
        BY_NAME[n](c, rng)
    c.names = list(names)
    return c


TLS_CONFIGS = [
    dict(tls="avail", authsess=1, mechs=hx(b"PLAIN"), reqtls=1, maxrcpt=2),
    dict(tls="avail", insecure=1, authsess=1, mechs=hx(b"PLAIN") + ":" + hx(b"X"), lmtp=1, lmtpsess=1),
    dict(tls="implicit", authsess=1, mechs=hx(b"PLAIN"), reqtls=1, dsn=1),
    dict(tls="avail", authsess=0, maxline=100),
]

CONFIGS = [
    dict(),
    dict(maxrcpt=2, maxmsg=40, insecure=1, authsess=1, mechs=hx(b"PLAIN") + ":" + hx(b"LOGIN"), dsn=1, utf8=1, binmime=1),
    dict(lmtp=1, maxrcpt=0, maxmsg=0, dsn=1),
    dict(lmtp=1, lmtpsess=1, maxrcpt=3, maxmsg=64, insecure=1, authsess=1, mechs=hx(b"PLAIN")),
    dict(maxline=64, rt=1, binmime=1, rrvs=1, reqtls=1),
    dict(lmtp=1, lmtpsess=1, maxline=80, maxmsg=20),
]


def random_walk(cfg, rng, n):
    """a walk biased towards making progress through transactions"""
    lmtp = cfg.get("lmtp", 0)
    names = []
    greeted = mail = False
    nr = 0
    tls_left = 1 if cfg.get("tls") == "avail" else 0
    for _ in range(n):
        r = rng.random()
        if tls_left and rng.random() < 0.12:
            x = rng.choice(["STARTTLS-ok", "STARTTLS-inject", "STARTTLS-inject-lhlo" if lmtp else "STARTTLS-inject-ehlo"]); tls_left = 0
            greeted = mail = False; nr = 0
        elif not greeted and r < 0.6:
            x = "LHLO" if lmtp else rng.choice(["EHLO", "EHLO", "HELO"])
            greeted = True
        elif greeted and not mail and r < 0.5:
            x = rng.choice(["MAIL", "MAIL", "MAIL", "MAIL-null", "MAIL-size5", "MAIL-dsn", "MAIL-binmime", "MAIL-utf8"])
            mail = True; nr = 0
        elif mail and nr < 3 and r < 0.45:
            x = rng.choice(["RCPT-A", "RCPT-B", "RCPT-A", "RCPT-notify"]); nr += 1
        elif mail and nr > 0 and r < 0.85:
            x = rng.choice([n for n, _ in DATA + BDAT])
            if x.startswith("DATA") or "LAST" in x:
                mail = False; nr = 0
        else:
            x = rng.choice([n for n, _ in ALPHABET])
            if x in ("RSET",) or x.startswith("EHLO") or x.startswith("LHLO") or x.startswith("HELO"):
                mail = False; nr = 0
        names.append(x)
    return names
