"""Cases for the `e2e` probe: the real client talks to the real server in one process."""
from vlib.gen import hx, all_strings
from vlib import convgen as g
from vlib.cgen import mailopts, rcptopts

ALL_ON = dict(utf8=1, binmime=1, dsn=1, rrvs=1, insecure=1, authsess=1, mechs=hx(b"PLAIN"), maxline=4000)


class E2E:
    def __init__(self, cfg=None, lmtp=False):
        self.cfg = dict(ALL_ON if cfg is None else cfg)
        if lmtp:
            self.cfg["lmtp"] = 1
        self.lmtp = lmtp
        self.q = {"NS": ["ok"], "MAIL": [], "RCPT": [], "DATA": []}
        self.calls = []

    def call(self, *parts):
        self.calls.append("/".join(parts)); return self

    def mail(self, frm, o=None, dec="ok"):
        self.q["MAIL"].append(dec); return self.call("mail", hx(frm), mailopts(o))

    def rcpt(self, to, o=None, dec="ok"):
        self.q["RCPT"].append(dec); return self.call("rcpt", hx(to), rcptopts(o))

    def data(self, parts, ret="ok", closes=1):
        self.q["DATA"].append(g.ddec(ret=ret))
        self.call("data")
        for p in parts:
            self.call("write", hx(p))
        for _ in range(closes):
            self.call("close")
        return self

    def case(self):
        be = ";".join("%s=%s" % (k, "|".join(self.q[k])) for k in ["NS", "MAIL", "RCPT", "DATA"])
        return "\t".join(["e2e", g.cfg_str(self.cfg), be, "lmtp" if self.lmtp else "smtp", ";".join(self.calls)])


BODY_TOK = [b".", b"\n", b"\r\n", b"a"]


def partitions(body, rng):
    out = [[body], [body[i:i + 1] for i in range(len(body))]]
    if len(body) > 1:
        k = rng.randrange(1, len(body)); out.append([body[:k], body[k:]])
    return out


def c16_cases(tier, rng):
    cases = []
    L = 4 if tier == "quick" else 6
    for body in all_strings(BODY_TOK, L):
        for parts in partitions(body, rng)[: (3 if tier == "thorough" else 2)]:
            lm = rng.random() < 0.25
            c = E2E(lmtp=lm)
            c.mail(b"s@x.org"); c.rcpt(b"r@x.org")
            if rng.random() < 0.3:
                c.rcpt(b"r2@x.org")
            c.data(parts, ret=rng.choice(["ok", g.se(554, "5.6.0", b"rejected")]), closes=2)
            c.call("noop")
            cases.append(c.case())
    # larger bodies: the server's reader and the client's buffered writer both have bulk paths; put dots, LFs and
    # look-alikes at every alignment relative to 512/4096-octet boundaries
    interesting = [b"\r\n.\r\n", b"\n.\n", b"\r\n..", b"\r\n.x", b".\r\n", b"\n", b"\r\n", b"\r\n.\r\nMAIL FROM:<bait@x>\r\n"]
    for _ in range(120 if tier == "quick" else 2500):
        base = rng.choice([500, 1000, 2040, 4090, 4096, 8190])
        pre = rng.randrange(max(0, base - 12), base + 12)
        filler = lambda n: b"".join(rng.choice([b"a", b"b", b"a", b"\r\n", b"."]) for _ in range(n))
        body = filler(pre) + rng.choice(interesting) + filler(rng.randrange(0, 700)) + rng.choice(interesting + [b""]) + filler(rng.randrange(0, 30))
        n = len(body)
        cuts = sorted(rng.randrange(0, n + 1) for _ in range(rng.randrange(0, 4)))
        parts = [body[a:b] for a, b in zip([0] + cuts, cuts + [n])]
        c = E2E(lmtp=rng.random() < 0.2)
        c.mail(b"s@x.org"); c.rcpt(b"r@x.org"); c.data(parts, closes=1)
        # a second message on the same connection
        if rng.random() < 0.4:
            c.mail(b"s2@x.org"); c.rcpt(b"q@x.org"); c.data([b"second\r\n.tail"], closes=1)
        cases.append(c.case())
    # a rejected (or accepted) message followed by another one on the same connection, SMTP and LMTP: the second Close
    # returns the second message's verdict
    for lm in (False, True):
        for v1 in ("ok", g.se(554, "5.6.0", b"rejected"), g.se(452, "4.2.2", b"later")):
            for v2 in ("ok", g.se(550, "5.7.1", b"no")):
                for nr in (1, 2):
                    c = E2E(lmtp=lm)
                    c.mail(b"s1@x.org")
                    for i in range(nr):
                        c.rcpt(b"a%d@x.org" % i)
                    c.data([b"first\r\n"], ret=v1, closes=1)
                    c.mail(b"s2@x.org"); c.rcpt(b"b@x.org"); c.rcpt(b"c@x.org")
                    c.data([b"second\r\n.x\r\n"], ret=v2, closes=1)
                    c.call("noop")
                    cases.append(c.case())
    # a size limit on the server and a full stop (or a stuffed dot line) exactly at the limit, in the middle of a line
    for body in (b"Hi Bob.\r\nHow are you?\r\n", b"line one\r\n.\r\ntail.\r\n", b"abc.\r\n.\r\n"):
        for lim in range(1, len(body) + 4):
            for parts in ([body], [body[i:i + 1] for i in range(len(body))]):
                c = E2E(dict(ALL_ON, maxmsg=lim))
                c.mail(b"s@x.org"); c.rcpt(b"r@x.org"); c.data(parts, ret="prop", closes=1); c.call("noop")
                cases.append(c.case())
    for _ in range(100 if tier == "quick" else 2000):
        n = rng.randrange(0, 6000)
        body = bytes(rng.choice(b"ab.\n") if rng.random() < 0.3 else rng.randrange(32, 256) for _ in range(n))
        cuts = sorted(rng.randrange(0, n + 1) for _ in range(rng.randrange(0, 4)))
        parts = [body[a:b] for a, b in zip([0] + cuts, cuts + [n])]
        c = E2E(); c.mail(b"s@x.org"); c.rcpt(b"r@x.org"); c.data(parts, closes=1); cases.append(c.case())
    return cases


XALPHA = [b"+", b"=", b" ", b"\\", b"{", b"}", b"x", b"4", b"A", b"\x7f", "é".encode(), "€".encode(), "😀".encode(), b"%", b"s"]


def c14_cases(tier, rng):
    cases = []
    strs = list(all_strings(XALPHA, 2 if tier == "quick" else 3, 1))
    for utf8 in (0, 1):
        cfg = dict(ALL_ON, utf8=utf8)
        for s in strs:
            ascii_only = all(b < 0x80 for b in s)
            c = E2E(cfg)
            c.mail(rng.choice([b"s@x.org", b"s@x.org", b"s@x.org", b""]), dict(envid=s if ascii_only else b"e", auth=rng.choice([None, b"u@d", b"", b"a+b=c@d.org", b"x{y}@d"]),
                                    size=rng.randrange(0, 99999), ret=rng.choice([b"FULL", b"HDRS", b""]),
                                    utf8=utf8 and rng.random() < 0.5, body=rng.choice([b"", b"7BIT", b"8BITMIME", b"BINARYMIME"])))
            typ = rng.choice([b"RFC822", b"UTF-8"]) if ascii_only else b"UTF-8"
            c.rcpt(b"r@x.org", dict(orcpttype=typ, orcpt=s, notify=rng.choice([[], [b"NEVER"], [b"SUCCESS", b"FAILURE"], [b"DELAY", b"SUCCESS", b"FAILURE"]]),
                                    rrvs=rng.choice([None, 0, 1577934245, 4102444799]),
                                    rrvszone=rng.choice([0, 0, 7200, -18000, 19800, -34200, 50400])))
            cases.append(c.case())
    # addresses with percent signs (the old "percent hack" routing syntax, percent-encoded tags), with and without options: they
    # travel as they are — no call may treat a caller's string as a format
    for addr in (b"50%%off@x.org", b"100%@x.org", b"user%example.org@relay.x.org", b"a%sb@x.org", b"%d%v%x@x.org", b"a%20b@x.org", b"%@x.org"):
        for mo, ro in ((None, None), (dict(size=5), None), (None, dict(notify=[b"SUCCESS"])), (dict(), dict())):
            c = E2E(); c.mail(addr, mo); c.rcpt(addr, ro); c.rcpt(b"r2-" + addr, None); cases.append(c.case())
    # a MAIL the backend refuses (or accepts), carrying every option, followed — without RSET — by a MAIL carrying fewer: the backend sees
    # exactly the second one's options; nothing of the first sticks
    full = dict(size=4321, utf8=1, ret=b"FULL", envid=b"first+id =1", auth=b"u@d", body=b"BINARYMIME")
    for second in (None, dict(size=17), dict(ret=b"HDRS"), dict(envid=b"e2"), dict(auth=b""), dict(utf8=1)):
        for dec in (g.se(550, "5.7.1", b"blocked"), g.se(451, "4.3.0", b"later"), "ok"):
            c = E2E(); c.mail(b"blocked@x.org", full, dec=dec); c.mail(b"allowed@x.org", second); c.rcpt(b"r@x.org")
            c.data([b"m\r\n"]); cases.append(c.case())
    # the client authenticates, re-reads the capability list (Reset sends a new EHLO) and then names the AUTH= identity of the message:
    # what the list says after authentication must not make the client drop the parameter
    for ident in (b"bob@x.org", b"", b"a+b=c@d.org"):
        for pre in (["auth"], ["auth", "reset"], ["auth", "reset", "reset"], ["reset", "auth", "reset"]):
            c = E2E()
            for p_ in pre:
                if p_ == "auth":
                    c.call("auth", hx(b"PLAIN"), hx(b"\x00u\x00p"), "")
                else:
                    c.call("reset")
            c.mail(b"s@x.org", dict(auth=ident, size=5)); c.rcpt(b"r@x.org"); c.data([b"m\r\n"])
            c.call("reset"); c.mail(b"s2@x.org", dict(auth=ident)); c.rcpt(b"r2@x.org"); c.data([b"n\r\n"])
            cases.append(c.case())
    # every option subset
    fields_m = [("size", 12345), ("utf8", 1), ("ret", b"HDRS"), ("envid", rng.choice([b"id+1=x y", b"50%off %s %d%%", b"100%"])),
                ("auth", rng.choice([b"u@d", b"100%user@d.org", b"a%sb@d"])), ("body", b"8BITMIME")]
    fields_r = [("notify", [b"FAILURE", b"DELAY"]), ("orcpt", b"o r+@x"), ("rrvs", 1700000000)]
    import itertools
    for k in range(len(fields_m) + 1):
        for sub in itertools.combinations(fields_m, k):
            c = E2E()
            # the sender: an ordinary mailbox, a non-ASCII one with SMTPUTF8, or the null sender (bounces carry options too)
            sender = "sénder@x.org".encode() if ("utf8", 1) in sub else rng.choice([b"s@x.org", b"s@x.org", b"", b"first.last+tag@sub.x.org"])
            c.mail(sender, dict(sub))
            ro = dict(rng.sample(fields_r, rng.randrange(0, 4)))
            if "orcpt" in ro:
                ro["orcpttype"] = b"RFC822"
            c.rcpt(b"r@x.org", ro or None)
            cases.append(c.case())
    return cases


def c17_cases(tier, rng):
    cases = []
    # the backend refuses the session itself (NewSession): the result of Hello is that error — also with the codes 500 and 502, which
    # in SMTP make the client try HELO (the backend is asked again and answers again), and in LMTP must not (there is no other greeting)
    for lm in (False, True):
        for code, enh, msg in ((502, "5.7.1", b"go away"), (500, "5.0.0", b"no"), (550, "5.7.1", b"blocked\nsee policy"), (451, "4.3.0", b"later"), (421, "4.3.2", b"bye")):
            for again in ("same", "ok"):
                c = E2E(lmtp=lm)
                c.q["NS"] = [g.se(code, enh, msg)] + ([g.se(code, enh, msg)] if again == "same" else ["ok"])
                c.call("hello", hx(b"cli.example")); c.call("noop")
                cases.append(c.case())
    CODES = [421, 450, 452, 550, 552, 554]
    ENHS = ["5.7.1", "4.2.0", "0.0.0", "-1.-1.-1"]
    MSGS = [b"", b"plain", b" leading", b"trailing ", b"5.7.1 looks like a code", "café €".encode(), b"line one\nline two", b"a\nb\nc",
            b"a\n5.7.1 b", b"x\n\ny", b"Rejected by policy:\n  - SPF check failed\n  - no DKIM signature", b"a\nb \nc", b"a\n \nb",
            b"a\n\tb", b" a\n b"]
    # a size limit on the server and a message just below, at and above it that the backend refuses with its own error
    # after reading it: the backend's verdict is the reply, unless the limit was really exceeded
    for lim in (7, 12):
        for n in (lim - 1, lim, lim + 1):
            for dec in (g.se(550, "5.7.1", b"Message rejected as spam"), g.se(451, "-1.-1.-1", b"try\nlater"), g.er(b"plain"), "ok"):
                body = (b"abcdefghijklmnop"[:n - 2] + b"\r\n") if n >= 2 else b"a" * n
                c = E2E(dict(ALL_ON, maxmsg=lim))
                c.mail(b"s@x.org"); c.rcpt(b"r@x.org"); c.data([body], ret=dec); c.call("noop")
                cases.append(c.case())
    for code in CODES:
        for enh in ENHS:
            for msg in MSGS:
                if code == 421:
                    continue      # the server closes the connection after a 421: later calls are about that, not about C17
                dec = g.se(code, enh, msg)
                site = rng.choice(["mail", "rcpt", "data"])
                c = E2E(lmtp=False)
                c.mail(b"s@x.org", dec=dec if site == "mail" else "ok")
                if site != "mail":
                    c.rcpt(b"r@x.org", dec=dec if site == "rcpt" else "ok")
                    if site == "rcpt":
                        c.rcpt(b"r2@x.org")
                    c.data([b"hello\r\n"], ret=dec if site == "data" else "ok")
                cases.append(c.case())
    for msg in MSGS:
        for site in ("mail", "rcpt", "data"):
            dec = g.er(msg)
            c = E2E()
            c.mail(b"s@x.org", dec=dec if site == "mail" else "ok")
            if site != "mail":
                c.rcpt(b"r@x.org", dec=dec if site == "rcpt" else "ok")
                if site == "rcpt":
                    c.rcpt(b"r2@x.org")
                c.data([b"hello\r\n"], ret=dec if site == "data" else "ok")
            cases.append(c.case())
    return cases
