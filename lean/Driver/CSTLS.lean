import SmtpV.Model.Client
import SmtpV.Spec.ClientTLS
import Driver.ClientGlue
/-!
Glue for the `cstls` probe (NewClientStartTLS / package-level SendMail against a scripted, possibly
misbehaving server).
-/
namespace SmtpV.Driver.CSTLS
open SmtpV SmtpV.Client

def chunks (s : String) : List (Option Bytes) :=
  if s == "-" || s == "" then [] else (s.splitOn ",").map fun r => if r == "EOF" then none else some (bytesOfHex r)

def client0 (plainS innerS : String) : C :=
  let peer : Peer := ({ script := chunks plainS, defRep := [] } : Peer).release      -- the greeting
  { peer := peer, activePeer := true,
    inner := if innerS == "-" then none else some (chunks ((innerS.drop 1).toString)) }

/-- `cstls  new|sendmail  PLAIN  INNER|-  CALLS|ARGS` -/
def probe (f : List String) : String :=
  match f with
  | _ :: mode :: plainS :: innerS :: argS :: _ =>
    let c0 := client0 plainS innerS
    if mode == "new" then
      let (c, e) := c0.initStartTLS
      let (c, outs) :=
        match e with
        | some _ => (c, [])
        | none =>
          if argS == "-" || argS == "" then (c, []) else
          (argS.splitOn ";").foldl (fun (acc : C × List String) cs =>
            match ClientGlue.parseCall cs with
            | none => (acc.1, acc.2 ++ ["DRIVER-BAD-CALL"])
            | some call => let (c', r) := acc.1.call call; (c', acc.2 ++ [ClientGlue.showRes r])) (c, [])
      hexOfBytes c.plainLog ++ "\t" ++ c.tlsState ++ "\t" ++ hexOfBytes c.innerLog ++ "\t" ++
        String.intercalate "|" (showErr e :: outs)
    else
      match argS.splitOn "/" with
      | [a, frm, to, body] =>
        let (c, r) := sendMail c0 (a == "1") (bytesOfHex frm) ((to.splitOn "+").map bytesOfHex) (bytesOfHex body)
        hexOfBytes c.plainLog ++ "\t" ++ c.tlsState ++ "\t" ++ hexOfBytes c.innerLog ++ "\t" ++ r
      | _ => "DRIVER-BAD-CASE"
  | _ => "DRIVER-BAD-CASE"

def isEnvelope (cs : String) : Bool :=
  match (cs.splitOn "/").head? with
  | some k => k == "mail" || k == "rcpt" || k == "data" || k == "lmtpdata" || k == "auth" || k == "verify"
  | none => false

/-- `mon PID cstls MODE PLAIN INNER ARGS ## plain tls inner results` -/
def monitor (_pid : String) (c a : List String) : String :=
  match c, a with
  | _ :: mode :: _ :: _ :: argS :: _, pw :: tls :: iw :: resS :: _ =>
    let ress := resS.splitOn "|"
    let ctor := ress.headD ""
    let calls := if mode == "new" && argS != "-" && argS != "" then argS.splitOn ";" else []
    let later := (calls.zip (ress.drop 1)).map fun (cs, r) => (isEnvelope cs, ((r.splitOn "/").drop 1).headD "")
    let innerS := (c.drop 3).headD "-"
    let innerFirst : Bytes := match chunks ((innerS.drop 1).toString) with | some b :: _ => b | _ => []
    let exts := (calls.zip (ress.drop 1)).filterMap fun (cs, r) =>
      match cs.splitOn "/" with
      | ["ext", n] => some (bytesOfHex n, ((r.splitOn "/").drop 1).headD "")
      | _ => none
    let bad := Spec.ClientTLS.check (bytesOfHex pw) tls (bytesOfHex iw) ctor later (mode == "sendmail") ++
      (if innerS == "-" then [] else Spec.ClientTLS.checkExt tls innerFirst exts ++
         Spec.ClientTLS.checkNoParams tls innerFirst (bytesOfHex iw))
    if bad.isEmpty then "ok" else "bad: " ++ String.intercalate "; " bad
  | _, _ => "bad: unparsable observation"

end SmtpV.Driver.CSTLS
