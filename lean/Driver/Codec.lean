import SmtpV.Model.Client
import SmtpV.Model.Parse
import SmtpV.Model.Reply
import SmtpV.Model.Server
import Driver.Conv
import SmtpV.Spec.Codec
import SmtpV.Spec.Rfc5321
/-!
Line-protocol glue for the component probes: xtext codecs, parser entry points, reply rendering,
client-side reply conversion.
-/
namespace SmtpV.Driver.Codec
open SmtpV SmtpV.Spec

def okB (o : Option Bytes) : String := match o with | some b => "ok/" ++ hexOfBytes b | none => "err"
def ok2 (o : Option (Bytes × Bytes)) : String :=
  match o with | some (a, b) => "ok/" ++ hexOfBytes a ++ "/" ++ hexOfBytes b | none => "err"

def probeXtext (f : List String) : String :=
  match f with
  | [_, fn, arg] =>
    let a := bytesOfHex arg
    match fn with
    | "decx" => okB (Xtext.decodeXtext a)
    | "decu" => okB (Xtext.decodeUTF8AddrXtext a)
    | "encx" => okB (some (Xtext.encodeXtext a))
    | "encu" => okB (some (Xtext.encodeUTF8AddrXtext a))
    | "encn" => okB (some (Xtext.encodeUTF8AddrUnitext a))
    | "printable" => if Xtext.isPrintableASCII a then "ok/01" else "ok/00"
    | "typed" => ok2 (Server.decodeTypedAddress a)
    | "sasl" => okB (Server.decodeSASLResponse a)
    | _ => "DRIVER-BAD-FUNC"
  | _ => "DRIVER-BAD-CASE"

def probeParse (f : List String) : String :=
  match f with
  | [_, fn, arg] =>
    let a := bytesOfHex arg
    match fn with
    | "cmd" => ok2 (Parse.parseCmd a)
    | "args" =>
      match Parse.parseArgs a with
      | none => "err"
      | some m =>
        let items := (m.map fun (k, v) => hexOfBytes k ++ "=" ++ hexOfBytes v).mergeSort (· ≤ ·)
        "ok/" ++ String.intercalate "," items
    | "hello" => okB (Parse.parseHelloArgument a)
    | "path" => ok2 (Parse.parsePath a)
    | "rpath" => ok2 (Parse.parseReversePath a)
    | "mailbox" => ok2 (Parse.parseMailbox a)
    | "localpart" => ok2 (Parse.parseLocalPart a)
    | "cutfrom" => okB (Parse.cutPrefixFold a "FROM:".b)
    | "validate" => if Client.validLine a then "ok/-" else "err"
    | _ => "DRIVER-BAD-FUNC"
  | _ => "DRIVER-BAD-CASE"

def parseEnh (s : String) : Enh :=
  match s.splitOn "." with
  | [a, b, c] => ⟨Conv.intOf a, Conv.intOf b, Conv.intOf c⟩
  | _ => ⟨0, 0, 0⟩

def probeReply (f : List String) : String :=
  match f with
  | [_, "resp", code, enh, msgs] =>
    hexOfBytes (Reply.render (Conv.natOf code) (parseEnh enh) ((msgs.splitOn ",").map bytesOfHex))
  | [_, "err451", res] => hexOfBytes (Reply.renderError 451 ⟨4, 0, 0⟩ (Conv.parseRes res))
  | [_, "errdata", res] =>
    let (code, enh, msg) := Reply.dataStatus (Conv.parseRes res)
    hexOfBytes (Reply.render code enh [msg])
  | _ => "DRIVER-BAD-CASE"

def showSErr (e : Client.SErr) : String := s!"se/{e.code}/{e.enh.a}.{e.enh.b}.{e.enh.c}/{hexOfBytes e.msg}"

def probeToSMTPErr (f : List String) : String :=
  match f with
  | [_, code, msg] => showSErr (Client.toSMTPErr (Conv.natOf code) (bytesOfHex msg))
  | _ => "DRIVER-BAD-CASE"


/-- lines of a reply stream as `textproto.Reader.ReadLine` yields them -/
def replyLines (bs : Bytes) : List Bytes :=
  ((Text.splitByte bs 10).dropLast).map fun l => if l.getLast? == some 13 then l.dropLast else l

def showRR : Client.RR → String
  | .ok code msg => s!"ok/{code}/{hexOfBytes msg}"
  | .smtpErr e => showSErr e
  | _ => "other"

def probeRT (f : List String) : String :=
  match f with
  | [_, "x", s] => okB ((Xtext.decodeXtext (Xtext.encodeXtext (bytesOfHex s))))
  | [_, "u", s] => okB ((Xtext.decodeUTF8AddrXtext (Xtext.encodeUTF8AddrXtext (bytesOfHex s))))
  | [_, "n", s] => okB ((Xtext.decodeUTF8AddrXtext (Xtext.encodeUTF8AddrUnitext (bytesOfHex s))))
  | [_, "err", site, res, expect] =>
    let r := Conv.parseRes res
    let wire := if site == "env" then Reply.renderError 451 ⟨4, 0, 0⟩ r
      else (let (code, enh, msg) := Reply.dataStatus r; Reply.render code enh [msg])
    showRR (Client.readResponse (Conv.natOf expect) (replyLines wire)).1
  | _ => "DRIVER-BAD-CASE"

def parseSErr (s : String) : Option Spec.Codec.SErrV :=
  match s.splitOn "/" with
  | ["se", code, enh, msg] => some { code := Conv.natOf code, enh := parseEnh enh, msg := bytesOfHex msg }
  | _ => none

def monitorRT (c a : List String) : String :=
  let bad : List String := match c, a with
    | [_, "err", site, res, _], [ans] => Spec.Codec.check17 site (Conv.parseRes res) (parseSErr ans)
    | [_, fn, s], [ans] =>
      let got : Option Bytes := match ans.splitOn "/" with
        | ["ok", h] => some (bytesOfHex h)
        | _ => none
      Spec.Codec.check14 fn (bytesOfHex s) got
    | _, _ => ["unparsable observation"]
  if bad.isEmpty then "ok" else "bad: " ++ String.intercalate "; " bad


/-- `mon C11 parse path|rpath h(arg) ## answer` -/
def monitorParse (c a : List String) : String :=
  match c, a with
  | [_, fn, arg], [ans] =>
    if fn != "path" && fn != "rpath" then "ok" else
    let s := bytesOfHex arg
    if fn == "rpath" && "<>".b.isPrefixOf s then (if ans == "ok/-/" ++ hexOfBytes (s.drop 2) then "ok" else "bad: C11 the null reverse-path is not accepted as the empty mailbox")
    else
    match Spec.Rfc5321.classify s with
    | .valid v rest =>
      if ans == "ok/" ++ hexOfBytes v ++ "/" ++ hexOfBytes rest then "ok"
      else "bad: C11 a well-formed path does not reach the backend as exactly that mailbox"
    | .invalid cls => if ans == "err" then "ok" else "bad: C11 malformed path accepted (class " ++ cls ++ ")"
    | .unspecified => "ok"
  | _, _ => "bad: unparsable observation"

end SmtpV.Driver.Codec
