import SmtpV.Model.Client
import Driver.Conv
import SmtpV.Spec.ClientMon
/-!
Line-protocol glue for the `cconv` probe (real `smtp.Client` against a scripted peer).
-/
namespace SmtpV.Driver.ClientGlue
open SmtpV SmtpV.Client

def parseMailOptions (s : String) : Option MailOptions :=
  if s == "-" then none else
  let m := Conv.kvs s
  let l := Conv.look m
  some { body := bytesOfHex (l "body"), size := Conv.intOf (l "size"), requireTLS := l "reqtls" == "1", utf8 := l "utf8" == "1",
         ret := bytesOfHex (l "ret"), envid := bytesOfHex (l "envid"),
         auth := if l "auth" == "nil" then none else some (bytesOfHex (l "auth")) }

def parseRcptOptions (s : String) : Option RcptOptions :=
  if s == "-" then none else
  let m := Conv.kvs s
  let l := Conv.look m
  let n := l "notify"
  some { notify := if n == "" then [] else (n.splitOn "+").map bytesOfHex, orcptType := bytesOfHex (l "orcpttype"),
         orcpt := bytesOfHex (l "orcpt"),
         rrvs := if l "rrvs" == "nil" || l "rrvs" == "" then none else
           match (l "rrvs").splitOn "@" with
           | [n, off] => some (Conv.intOf n, Conv.intOf off)
           | _ => some (Conv.intOf (l "rrvs"), 0) }

def parseCall (s : String) : Option Call :=
  match s.splitOn "/" with
  | ["hello", n] => some (.hello (bytesOfHex n))
  | ["mail", f, o] => some (.mail (bytesOfHex f) (parseMailOptions o))
  | ["rcpt", t, o] => some (.rcpt (bytesOfHex t) (parseRcptOptions o))
  | ["verify", a] => some (.verify (bytesOfHex a))
  | ["reset"] => some .reset
  | ["noop"] => some .noop
  | ["quit"] => some .quit
  | ["ext", n] => some (.ext (bytesOfHex n))
  | ["data"] => some .data
  | ["lmtpdata"] => some .lmtpData
  | ["write", b] => some (.write (bytesOfHex b))
  | ["close"] => some (.close none)
  | ["close", k] => some (.close (some (Conv.natOf k)))
  | "auth" :: mech :: ir :: rest =>
    let steps := match rest with
      | [st] => if st == "" then [] else (st.splitOn "+").map fun x =>
          if x == "ERR" then none else if x == "nil" then some none else some (some (bytesOfHex x))
      | _ => []
    some (.auth (bytesOfHex mech) (if ir == "none" then none else some (bytesOfHex ir)) steps)
  | _ => none

def showRes (r : CallRes) : String :=
  let e := String.intercalate "+" (r.extra.filter (· != ""))
  hexOfBytes r.written ++ "/" ++ r.res ++ (if e == "" then "" else "/" ++ e)

/-- `cconv  smtp|lmtp  PEER  CALLS` -/
def probe (f : List String) : String :=
  match f with
  | _ :: mode :: peerS :: callsS :: _ =>
    let script : List (Option Bytes) :=
      if peerS == "-" || peerS == "" then [] else (peerS.splitOn ",").map fun r => if r == "EOF" then none else some (bytesOfHex r)
    let peer : Peer := ({ script := script } : Peer).release      -- the greeting
    let c0 : C := { lmtp := mode == "lmtp", peer := peer }
    let (_, outs) := (callsS.splitOn ";").foldl (fun (acc : C × List String) cs =>
      match parseCall cs with
      | none => (acc.1, acc.2 ++ ["DRIVER-BAD-CALL"])
      | some call => let (c', r) := acc.1.call call; (c', acc.2 ++ [showRes r])) (c0, [])
    String.intercalate "|" outs
  | _ => "DRIVER-BAD-CASE"


/-- `mon PID cconv MODE PEER CALLS ## answer` -/
def monitor (pid : String) (c a : List String) : String :=
  match c, a with
  | _ :: mode :: peerS :: callsS :: _, ans :: _ =>
    let script : List (Option Bytes) :=
      if peerS == "-" || peerS == "" then [] else (peerS.splitOn ",").map fun r => if r == "EOF" then none else some (bytesOfHex r)
    let peer : Peer := ({ script := script } : Peer).release
    let calls := (callsS.splitOn ";").map parseCall
    let items := ans.splitOn "|"
    if calls.length != items.length then "bad: unparsable observation (call count)" else
    let obs : List Spec.ClientMon.Obs := (calls.zip items).filterMap fun (call?, it) =>
      match call?, it.splitOn "/" with
      | some call, w :: r :: rest => some { call := call, written := if w == "-" then [] else bytesOfHex w, res := r,
                                            extra := rest.headD "" }
      | _, _ => none
    let bad := Spec.ClientMon.check pid (mode == "lmtp") peer obs
    if bad.isEmpty then "ok" else "bad: " ++ String.intercalate "; " bad.eraseDups
  | _, _ => "bad: unparsable observation"

end SmtpV.Driver.ClientGlue
