import SmtpV.Model.Client
import Driver.Conv
import SmtpV.Spec.ClientMon
/-!
Line-protocol glue for the `cconv` probe (real `smtp.Client` against a scripted peer).
-/
namespace SmtpV.Driver.ClientGlue
open SmtpV SmtpV.Client

/-- civil date from days since 1970-01-01 (proleptic Gregorian) -/
def civilFromDays (z0 : Int) : Int × Int × Int :=
  let z := z0 + 719468
  let era := (if z ≥ 0 then z else z - 146096) / 146097
  let doe := z - era * 146097
  let yoe := (doe - doe / 1460 + doe / 36524 - doe / 146096) / 365
  let y := yoe + era * 400
  let doy := doe - (365 * yoe + yoe / 4 - yoe / 100)
  let mp := (5 * doy + 2) / 153
  let d := doy - (153 * mp + 2) / 5 + 1
  let m := if mp < 10 then mp + 3 else mp - 9
  (if m ≤ 2 then y + 1 else y, m, d)

def pad (n : Int) (w : Nat) : String :=
  let s := toString n.toNat
  String.ofList (List.replicate (w - s.length) '0') ++ s

/-- `time.Unix(n, 0).In(FixedZone("", off)).Format(time.RFC3339)` for years 0..9999 and whole-minute offsets -/
def formatRFC3339 (unix : Int) (off : Int := 0) : Bytes :=
  let loc := unix + off
  let days := loc.fdiv 86400
  let secs := loc - days * 86400
  let (y, m, d) := civilFromDays days
  let zone := if off == 0 then "Z" else
    let a := off.natAbs
    (if off < 0 then "-" else "+") ++ s!"{pad (a / 3600) 2}:{pad ((a % 3600) / 60) 2}"
  (s!"{pad y 4}-{pad m 2}-{pad d 2}T{pad (secs / 3600) 2}:{pad ((secs % 3600) / 60) 2}:{pad (secs % 60) 2}" ++ zone).b

def parseMailOptions (s : String) : Option MailOptions :=
  if s == "-" then none else
  let m := Conv.kvs s
  let l := Conv.look m
  some { body := bytesOfHex (l "body"), size := Conv.intOf (l "size"), requireTLS := l "reqtls" == "1", utf8 := l "utf8" == "1",
         ret := bytesOfHex (l "ret"), envid := bytesOfHex (l "envid"),
         auth := if l "auth" == "nil" then none else some (bytesOfHex (l "auth")) }

def parseRcptOptions (s : String) : Option RcptOptions :=
  if s == "-" then none else
  let m := Conv.kvs s
  let l := Conv.look m
  let n := l "notify"
  some { notify := if n == "" then [] else (n.splitOn "+").map bytesOfHex, orcptType := bytesOfHex (l "orcpttype"),
         orcpt := bytesOfHex (l "orcpt"),
         rrvs := if l "rrvs" == "nil" || l "rrvs" == "" then none else
           match (l "rrvs").splitOn "@" with
           | [n, off] => some (formatRFC3339 (Conv.intOf n) (Conv.intOf off))
           | _ => some (formatRFC3339 (Conv.intOf (l "rrvs"))) }

def parseCall (s : String) : Option Call :=
  match s.splitOn "/" with
  | ["hello", n] => some (.hello (bytesOfHex n))
  | ["mail", f, o] => some (.mail (bytesOfHex f) (parseMailOptions o))
  | ["rcpt", t, o] => some (.rcpt (bytesOfHex t) (parseRcptOptions o))
  | ["verify", a] => some (.verify (bytesOfHex a))
  | ["reset"] => some .reset
  | ["noop"] => some .noop
  | ["quit"] => some .quit
  | ["ext", n] => some (.ext (bytesOfHex n))
  | ["data"] => some .data
  | ["lmtpdata"] => some .lmtpData
  | ["write", b] => some (.write (bytesOfHex b))
  | ["close"] => some (.close none)
  | ["close", k] => some (.close (some (Conv.natOf k)))
  | "auth" :: mech :: ir :: rest =>
    let steps := match rest with
      | [st] => if st == "" then [] else (st.splitOn "+").map fun x =>
          if x == "ERR" then none else if x == "nil" then some none else some (some (bytesOfHex x))
      | _ => []
    some (.auth (bytesOfHex mech) (if ir == "none" then none else some (bytesOfHex ir)) steps)
  | _ => none

def showRes (r : CallRes) : String :=
  let e := String.intercalate "+" (r.extra.filter (· != ""))
  hexOfBytes r.written ++ "/" ++ r.res ++ (if e == "" then "" else "/" ++ e)

/-- `cconv  smtp|lmtp  PEER  CALLS` -/
def probe (f : List String) : String :=
  match f with
  | _ :: mode :: peerS :: callsS :: _ =>
    let script : List (Option Bytes) :=
      if peerS == "-" || peerS == "" then [] else (peerS.splitOn ",").map fun r => if r == "EOF" then none else some (bytesOfHex r)
    let peer : Peer := ({ script := script } : Peer).release      -- the greeting
    let c0 : C := { lmtp := mode == "lmtp", peer := peer }
    let (_, outs) := (callsS.splitOn ";").foldl (fun (acc : C × List String) cs =>
      match parseCall cs with
      | none => (acc.1, acc.2 ++ ["DRIVER-BAD-CALL"])
      | some call => let (c', r) := acc.1.call call; (c', acc.2 ++ [showRes r])) (c0, [])
    String.intercalate "|" outs
  | _ => "DRIVER-BAD-CASE"


/-- `mon PID cconv MODE PEER CALLS ## answer` -/
def monitor (pid : String) (c a : List String) : String :=
  match c, a with
  | _ :: mode :: peerS :: callsS :: _, ans :: _ =>
    let script : List (Option Bytes) :=
      if peerS == "-" || peerS == "" then [] else (peerS.splitOn ",").map fun r => if r == "EOF" then none else some (bytesOfHex r)
    let peer : Peer := ({ script := script } : Peer).release
    let calls := (callsS.splitOn ";").map parseCall
    let items := ans.splitOn "|"
    if calls.length != items.length then "bad: unparsable observation (call count)" else
    let obs : List Spec.ClientMon.Obs := (calls.zip items).filterMap fun (call?, it) =>
      match call?, it.splitOn "/" with
      | some call, w :: r :: rest => some { call := call, written := if w == "-" then [] else bytesOfHex w, res := r,
                                            extra := rest.headD "" }
      | _, _ => none
    let bad := Spec.ClientMon.check pid (mode == "lmtp") peer obs
    if bad.isEmpty then "ok" else "bad: " ++ String.intercalate "; " bad.eraseDups
  | _, _ => "bad: unparsable observation"

end SmtpV.Driver.ClientGlue
