import SmtpV.Spec.AuthMon
import SmtpV.Model.Server
import SmtpV.Spec.Monitors
/-!
Line-protocol glue for the `conv` probe: parse a case line into configuration, backend script
and wire; print the model's trace in the format of DESIGN.md Appendix D.
-/
namespace SmtpV.Driver.Conv
open SmtpV SmtpV.Server SmtpV.Reply SmtpV.Spec

def natOf (s : String) : Nat := s.toNat?.getD 0
def intOf (s : String) : Int := s.toInt?.getD 0

def kvs (s : String) : List (String × String) :=
  (s.splitOn ",").filterMap fun kv =>
    match kv.splitOn "=" with
    | k :: v :: _ => some (k, v)
    | _ => none

def look (m : List (String × String)) (k : String) : String := ((m.find? (·.1 == k)).map (·.2)).getD ""

def parseRes (s : String) : BRes :=
  match s.splitOn "/" with
  | ["ok"] => .ok
  | ["panic"] => .panic
  | ["se", code, enh, msg] =>
    match enh.splitOn "." with
    | [a, b, c] => .se (natOf code) ⟨intOf a, intOf b, intOf c⟩ (bytesOfHex msg)
    | _ => .ok
  | ["er", msg] => .er (bytesOfHex msg)
  | _ => .ok

def parseDRet (s : String) : DRet := if s == "prop" then .prop else .res (parseRes s)

def parseDataDec (s : String) : DataDec :=
  match s.splitOn "!" with
  | want :: rsz :: ret :: rest =>
    let sts := match rest with
      | [st] => if st == "" then [] else (st.splitOn "+").filterMap fun p =>
          match p.splitOn "=" with
          | [a, r] => some (bytesOfHex a, parseRes r)
          | _ => none
      | _ => []
    { want := if want == "all" then none else some (natOf want), rsz := natOf rsz, ret := parseDRet ret, statuses := sts }
  | _ => {}

def parseSasl (s : String) : SaslStep :=
  match s.splitOn "!" with
  | [ch, d, r] => { challenge := bytesOfHex ch, done := d == "1", res := parseRes r }
  | _ => {}

def parseBackend (s : String) : Backend :=
  let parts := (s.splitOn ";").filterMap fun p =>
    match p.splitOn "=" with
    | k :: rest => some (k, String.intercalate "=" rest)
    | _ => none
  let q (k : String) : List String :=
    let v := look parts k
    if v == "" then [] else v.splitOn "|"
  { ns := (q "NS").map parseRes, mail := (q "MAIL").map parseRes, rcpt := (q "RCPT").map parseRes,
    data := (q "DATA").map parseDataDec, auth := (q "AUTH").map parseRes, sasl := (q "SASL").map parseSasl,
    hs := (q "HS").map (· == "1") }

def parseCfg (s : String) : Cfg × String :=
  let m := kvs s
  let b (k : String) := look m k == "1"
  let mechs := look m "mechs"
  ({ lmtp := b "lmtp", lmtpSess := b "lmtpsess", maxRcpt := natOf (look m "maxrcpt"), maxMsg := natOf (look m "maxmsg"),
     maxLine := natOf (look m "maxline"), insecureAuth := b "insecure", tlsAvail := look m "tls" != "none",
     utf8 := b "utf8", reqtls := b "reqtls", binmime := b "binmime", dsn := b "dsn", rrvs := b "rrvs",
     readTimeout := b "rt", authSess := b "authsess",
     mechs := if mechs == "" || mechs == "-" then [] else (mechs.splitOn ":").map bytesOfHex,
     domain := "d".b }, look m "tls")

/-- `seg,seg,TLS,seg;END` -/
def parseInput (s : String) : List Bytes × Option (List Bytes) × Wire.RErr :=
  match s.splitOn ";" with
  | [segs, end_] =>
    let items := if segs == "" || segs == "-" then [] else segs.splitOn ","
    -- `TO`: the read deadline expires at this point of the stream.  An error of the connection is final (the limiter below bufio
    -- keeps it): for the server the stream ends there with a timeout, whatever the peer sends afterwards
    -- `HSFAIL,<garbage>`: what the peer sends instead of a ClientHello; the TLS layer consumes it, the command reader never sees it
    let rec dropHsFail : List String → List String
      | "HSFAIL" :: _ :: rest => dropHsFail rest
      | "HSFAIL" :: [] => []
      | x :: rest => x :: dropHsFail rest
      | [] => []
    let items0 := dropHsFail items
    let items := items0.takeWhile (· != "TO")
    let plain := items.takeWhile (· != "TLS")
    let tls := (items.dropWhile (· != "TLS")).drop 1
    let e := if end_ == "timeout" || items0.contains "TO" then Wire.RErr.timeout else Wire.RErr.eof
    (plain.map bytesOfHex, if items.contains "TLS" then some (tls.map bytesOfHex) else none, e)
  | _ => ([], none, .eof)

/-! ### printing -/

def showRes : BRes → String
  | .ok => "ok"
  | .panic => "panic"
  | .se c e m => s!"se/{c}/{e.a}.{e.b}.{e.c}/{hexOfBytes m}"
  | .er m => s!"er/{hexOfBytes m}"

def b01 (b : Bool) : String := if b then "1" else "0"

def showMailOpts (o : MailOpts) : String :=
  s!"body={hexOfBytes o.body},size={o.size},reqtls={b01 o.requireTLS},utf8={b01 o.utf8},ret={hexOfBytes o.ret}," ++
  s!"envid={hexOfBytes o.envid},auth=" ++ (match o.auth with | none => "nil" | some a => hexOfBytes a)

def showRcptOpts (o : RcptOpts) : String :=
  s!"notify={String.intercalate "+" (o.notify.map hexOfBytes)},orcpttype={hexOfBytes o.orcptType}," ++
  s!"orcpt={hexOfBytes o.orcpt},rrvs=" ++ (match o.rrvs with | none => "nil" | some t => toString t)

def showEv : Ev → String
  | .w bs => "W:" ++ hexOfBytes bs
  | .ns id h t r => s!"NS:{id}:{hexOfBytes h}:{b01 t}:{showRes r}"
  | .mail id f o r => s!"M:{id}:{hexOfBytes f}:{showMailOpts o}:{showRes r}"
  | .rcpt id t o r => s!"RC:{id}:{hexOfBytes t}:{showRcptOpts o}:{showRes r}"
  | .reset id => s!"RS:{id}"
  | .logout id => s!"LO:{id}"
  | .authMech id m r => s!"AM:{id}:{hexOfBytes m}:{showRes r}"
  | .sasl resp ch d r =>
    "SN:" ++ (match resp with | none => "nil" | some x => hexOfBytes x) ++ s!":{hexOfBytes ch}:{b01 d}:{showRes r}"
  | .dataBegin id k => s!"DB:{id}:{k}"
  | .tlsStart ok => s!"TLS:{b01 ok}"
  | .cmd l => "CMD:" ++ hexOfBytes l
  | .panicLog => "PANIC"
  | .close => "CLOSE"

/-- consecutive writes are one `W` event (the harness cannot see flush boundaries reliably) -/
def coalesce : List Ev → List Ev
  | .w a :: .w b :: t => coalesce (.w (a ++ b) :: t)
  | e :: t => e :: coalesce t
  | [] => []
termination_by l => l.length

def showRdEnd : RdEnd → String
  | .none => "none" | .eof => "eof" | .ueof => "ueof" | .tooLarge => "toolarge" | .reset => "reset"
  | .tooLong => "toolong" | .timeout => "timeout" | .closed => "closed" | .panicked => "panicked"

def showDRec (d : DRec) : String :=
  s!"D:{d.k}:{d.sess}:{hexOfBytes d.octets}:{showRdEnd d.rdEnd}:{showRes d.ret}"

def initState (cfg : Cfg) (tlsMode : String) (be : Backend) (plain : List Bytes) (tls : Option (List Bytes))
    (e : Wire.RErr) : S :=
  let w : Wire.W := { segs := plain, tail := e, limit := cfg.maxLine }
  let tw : Option Wire.W := tls.map fun segs => { segs := segs, tail := e, limit := cfg.maxLine }
  if tlsMode == "implicit" then
    { cfg := cfg, c := { tls := true }, w := w, tlsW := none, be := be }
  else { cfg := cfg, w := { w with tail := if tls.isSome then .eof else e }, tlsW := tw, be := be }

/-- `conv  CFG  BACKEND  INPUT` -/
def probe (f : List String) : String :=
  match f.take 4 with
  | [_, cfgS, beS, inS] =>
    let (cfg, tlsMode) := parseCfg cfgS
    let (plain, tls, e) := parseInput inS
    let s := serve (initState cfg tlsMode (parseBackend beS) plain tls e)
    let evs := coalesce (s.evs.reverse.filter fun e => match e with | .tlsStart _ => false | .cmd _ => false | _ => true)
    let ds := (s.drecs.map showDRec).mergeSort (· ≤ ·)
    String.intercalate ";" (evs.map showEv) ++ "\t" ++ String.intercalate ";" ds ++ s!"\tWAC={s.wac}"
  | _ => "DRIVER-BAD-CASE"


/-! ### reading a recorded trace back (implementation answers) and judging it -/

def parseMailOpts (s : String) : MailOpts :=
  let m := kvs s
  { body := bytesOfHex (look m "body"), size := natOf (look m "size"), requireTLS := look m "reqtls" == "1",
    utf8 := look m "utf8" == "1", ret := bytesOfHex (look m "ret"), envid := bytesOfHex (look m "envid"),
    auth := if look m "auth" == "nil" then none else some (bytesOfHex (look m "auth")) }

def parseRcptOpts (s : String) : RcptOpts :=
  let m := kvs s
  let n := look m "notify"
  { notify := if n == "" then [] else (n.splitOn "+").map bytesOfHex, orcptType := bytesOfHex (look m "orcpttype"),
    orcpt := bytesOfHex (look m "orcpt"),
    rrvs := if look m "rrvs" == "nil" then none else some (intOf (((look m "rrvs").splitOn "@").headD "")) }

def parseEv (s : String) : Option Ev :=
  match s.splitOn ":" with
  | ["W", h] => some (.w (bytesOfHex h))
  | ["NS", id, h, t, r] => some (.ns (natOf id) (bytesOfHex h) (t == "1") (parseRes r))
  | ["M", id, f, o, r] => some (.mail (natOf id) (bytesOfHex f) (parseMailOpts o) (parseRes r))
  | ["RC", id, t, o, r] => some (.rcpt (natOf id) (bytesOfHex t) (parseRcptOpts o) (parseRes r))
  | ["RS", id] => some (.reset (natOf id))
  | ["LO", id] => some (.logout (natOf id))
  | ["AM", id, m, r] => some (.authMech (natOf id) (bytesOfHex m) (parseRes r))
  | ["SN", resp, ch, d, r] =>
    some (.sasl (if resp == "nil" then none else some (bytesOfHex resp)) (bytesOfHex ch) (d == "1") (parseRes r))
  | ["DB", id, k] => some (.dataBegin (natOf id) (natOf k))
  | ["PANIC"] => some .panicLog
  | ["CLOSE"] => some .close
  | _ => none

def parseRdEnd (s : String) : RdEnd :=
  match s with
  | "none" => .none | "eof" => .eof | "ueof" => .ueof | "toolarge" => .tooLarge | "reset" => .reset
  | "toolong" => .tooLong | "timeout" => .timeout | "closed" => .closed | _ => .panicked

def parseDRec (s : String) : Option DRec :=
  match s.splitOn ":" with
  | ["D", k, id, oct, e, r] =>
    some { k := natOf k, sess := natOf id, octets := bytesOfHex oct, rdEnd := parseRdEnd e, ret := parseRes r, finished := true }
  | _ => none

/-- A panic log line written by the delivery goroutine is asynchronous to the command loop: it can land between
    two `Write` calls of one multi-line reply.  Its position relative to the surrounding writes carries no
    information, so it is moved in front of them and the writes are rejoined. -/
def joinAroundPanics : List Ev → List Ev
  | .w a :: .panicLog :: .w b :: rest => .panicLog :: joinAroundPanics (.w (a ++ b) :: rest)
  | e :: rest => e :: joinAroundPanics rest
  | [] => []
termination_by l => l.length

/-- an answer line → `(events, records, unparsable pieces)` -/
def parseAnswer (a : List String) : List Ev × List DRec × List String :=
  match a with
  | evS :: dS :: _ =>
    let evParts := if evS == "" then [] else evS.splitOn ";"
    let dParts := if dS == "" then [] else dS.splitOn ";"
    let evs := evParts.map (fun p => (p, parseEv p))
    let ds := dParts.map (fun p => (p, parseDRec p))
    (joinAroundPanics (evs.filterMap (·.2)), ds.filterMap (·.2),
     (evs.filter (·.2.isNone)).map (·.1) ++ (ds.filter (·.2.isNone)).map (·.1))
  | _ => ([], [], ["no answer"])

/-- `mon PID conv CFG BACKEND INPUT ## events drecs wac` -/
def parseExpect (s : String) : List (Nat × Bytes) :=
  -- `EXPECT=k:hex;k:hex`
  match s.splitOn "=" with
  | ["EXPECT", v] => (v.splitOn ";").filterMap fun p =>
      match p.splitOn ":" with
      | [k, h] => some (natOf k, bytesOfHex h)
      | _ => none
  | _ => []

def monitor (pid : String) (c0 a : List String) : String :=
  -- a `sched` case is judged like the conversation made of its segments
  let c := match c0 with
    | "sched" :: cfgS :: beS :: evS :: rest =>
      let segs := (evS.splitOn ";").filterMap fun (e : String) => match e.splitOn ":" with | ["seg", h] => some h | _ => none
      "conv" :: cfgS :: beS :: (String.intercalate "," segs ++ ";eof") :: rest
    | _ => c0
  match c.take 4 with
  | [_, cfgS, beS, inS] =>
    let (cfg, tlsMode) := parseCfg cfgS
    let (evs, drecs, junk) := parseAnswer a
    let drecs := drecs.mergeSort (fun x y => x.k ≤ y.k)
    let be := parseBackend beS
    let (plain, tlsSegs, _) := parseInput inS
    let input := plain.flatten ++ (tlsSegs.getD []).flatten
    let expect := match c.drop 4 with | x :: _ => parseExpect x | [] => []
    let tag := (c.drop 4).headD ""
    let bad : List String :=
      (if junk.isEmpty then [] else ["unexpected observation: " ++ String.intercalate "," (junk.take 3)]) ++
      (match pid with
       | "C03" => Spec.Mon.check3 cfg evs ++ Spec.AuthMon.checkGreetFlavour cfg.lmtp input evs
       | "C04" => Spec.Mon.check4 cfg.lmtp drecs evs
       -- C17 on conversations: the final reply for a message is the backend's own result for that message (the rule of C04 that
       -- compares the reply with the delivery record)
       | "C17" => (Spec.Mon.check4 cfg.lmtp drecs evs).filter (fun r => (r.splitOn "own outcome").length > 1)
       | "C08" =>
         if tag == "TAG=logoutcount" then
           -- `Close` arrives from another goroutine while `NewSession` is still running (the NS event is logged on entry): the order of
           -- Logout and the close of the socket is then not fixed, but the session the backend returns still gets exactly one Logout
           let created := evs.filterMap fun e => match e with | .ns id _ _ r => if r == .ok then some id else none | _ => none
           let los := evs.filterMap fun e => match e with | .logout id => some id | _ => none
           (created.filterMap fun id =>
              let k := (los.filter (· == id)).length
              if k == 1 then none else some s!"C08 a session the backend returned received {k} Logout calls instead of exactly one") ++
           (if los.all (fun id => created.contains id) then [] else ["C08 Logout on a session that was never created"])
         else if tag == "TAG=cutline" then
           -- the conversation ends (disconnect, idle timeout) inside a command line that mentions the bait: nothing of it is executed
           Spec.Mon.checkBait input evs ++ Spec.Mon.check8 evs
         else Spec.Mon.check8 evs
       | "C09" => Spec.Mon.check9 cfg evs ++ Spec.AuthMon.check input evs ++
           (Spec.Mon.check10 cfg (tlsMode == "implicit") evs).filter (fun r => "C09".isPrefixOf r)
       | "C10" => Spec.Mon.check10 cfg (tlsMode == "implicit") evs
       | "C11" =>
         -- `XP=…`: the generator built the MAIL (to `s@x`) / RCPT (to `r@x`) line from known option values: the backend sees exactly
         -- these, once — or, for a faulty parameter / a parameter of a disabled extension, nothing, and a 5xx reply is written
         (if !tag.startsWith "XP=" then [] else
          let xp := (tag.drop 3).toString
          let any5 := evs.any fun e => match e with
            | .w bs => (match Spec.ReplySyntax.parse bs with | some rs => rs.any (fun r => r.code ≥ 500 && r.code ≤ 599) | none => false)
            | _ => false
          let mails := evs.filterMap fun e => match e with | .mail _ a o _ => if a == "s@x".b then some o else none | _ => none
          let rcpts := evs.filterMap fun e => match e with | .rcpt _ a o _ => if a == "r@x".b then some o else none | _ => none
          if xp.startsWith "M:" then
            (if mails == [parseMailOpts ((xp.drop 2).toString)] then []
             else ["C11 the backend's Mail did not receive exactly the option values that were sent (or was not called exactly once)"])
          else if xp.startsWith "R:" then
            (if rcpts == [parseRcptOpts ((xp.drop 2).toString)] then []
             else ["C11 the backend's Rcpt did not receive exactly the option values that were sent (or was not called exactly once)"])
          else if xp.startsWith "M?:" then
            -- a value the server is free to refuse (a SIZE beyond what it can represent): refused before the backend, or delivered exactly
            (if (mails.isEmpty && any5) || mails == [parseMailOpts ((xp.drop 3).toString)] then []
             else ["C11 a MAIL parameter value was neither refused with 5xx before the backend nor delivered to it exactly"])
          else if xp == "REFUSED:M" then
            (if mails.isEmpty && any5 then [] else ["C11 a MAIL line with a faulty or disabled parameter was not refused with 5xx before the backend"])
          else if xp == "REFUSED:R" then
            (if rcpts.isEmpty && any5 then [] else ["C11 a RCPT line with a faulty or disabled parameter was not refused with 5xx before the backend"])
          else [])
       | "C12" =>
         Spec.Mon.check12 cfg evs ++
         (if tag == "TAG=probe" then
            -- lock-step probe conversation: replies after the greeting align with the input lines
            let lines := (Spec.Mon.linesLF input [] []).filter (fun l => l.length > 2)
            let replies := (evs.filterMap fun e => match e with
              | .w bs => Spec.ReplySyntax.parse bs
              | _ => none).flatten.drop 1
            ((lines.zip replies).map fun (l, r) => Spec.Mon.probeExpect cfg (tlsMode == "implicit") (SmtpV.Text.toUpper l) r).flatten
          else [])
       | "C19" => Spec.Mon.check19 cfg.maxLine (tag == "TAG=cmdonly" || tag == "TAG=cmdonly-sharedseg" || tag == "TAG=cmdonly-flood") input evs ++ Spec.Mon.check8 evs ++
           (if tag != "TAG=cmdonly-flood" then [] else
            -- the generator vouches: short command lines, each answered with exactly one reply (no DATA, AUTH, STARTTLS, QUIT).  A line is a
            -- protocol error when it is empty, cannot be split into verb and argument, or its verb is none the server knows.  The fourth
            -- such line is answered, then the closing notice, and nothing after it: j + 3 replies with the greeting; fewer than four: all answered
            let lines := (Spec.Mon.linesLF input [] []).filter (fun l => l.getLast? == some 10)
            let isErr (l : Bytes) : Bool := match SmtpV.Parse.parseCmd l with
              | none => true
              | some (cmd, _) => cmd.isEmpty || SmtpV.Server.verbOf (SmtpV.Text.toUpper cmd) == .unknown
            let errIdx := (lines.zipIdx.filter (fun p => isErr p.1)).map (·.2)
            let nrep := ((evs.filterMap fun e => match e with | .w bs => Spec.ReplySyntax.parse bs | _ => none).flatten).length
            match errIdx[3]? with
            | some j =>
              if nrep == j + 3 then [] else
                [s!"C19 the connection was not given up after the fourth unrecognised or malformed command: {nrep} replies written, {j + 3} expected (greeting, one per command up to that one, the closing notice)"]
            | none => if nrep == lines.length + 1 then [] else [])
       | "C13" => Spec.Mon.check13 cfg.lmtp cfg.lmtpSess be.data drecs evs ++
           (if tag == "TAG=lastfail" then Spec.Mon.checkLastFail evs else [])
       | "C01" => Spec.Mon.checkBait input evs ++ Spec.Mon.checkExpect expect drecs
       | "C05" => Spec.Mon.checkBait input evs ++ Spec.Mon.checkExpect expect drecs
       | "C02" => Spec.Mon.checkBait input evs ++ Spec.Mon.checkResume cfg.lmtp input evs
       | "C06" => Spec.Mon.checkBait input evs ++ Spec.Mon.checkResume cfg.lmtp input evs ++
           (if tag == "TAG=fits" && evs.any (fun e => match e with
                | .w bs => (match Spec.ReplySyntax.parse bs with | some rs => rs.any (·.code == 552) | none => false)
                | _ => false)
            then ["C06 a message within the limit was refused with 552"] else []) ++
           -- `TAG=discard552`: the generator vouches that the only 552 of the conversation answers an over-limit chunk or message;
           -- the transaction it belonged to is gone: no Rcpt and no Data until the next accepted MAIL command
           (let is552 (e : Ev) : Bool := match e with
                | .w bs => (match Spec.ReplySyntax.parse bs with | some rs => rs.any (·.code == 552) | none => false)
                | _ => false
            let rest := ((evs.dropWhile (fun e => !is552 e)).drop 1).takeWhile (fun e => match e with | .mail .. => false | _ => true)
            if tag == "TAG=discard552" && rest.any (fun e => match e with | .rcpt .. => true | .dataBegin .. => true | _ => false)
            then ["C06 the transaction was not discarded after its message was refused with 552"] else []) ++
           (if cfg.maxMsg > 0 && drecs.any (fun d => d.octets.length > cfg.maxMsg) then
              ["C06 the backend was handed more octets than the limit"] else []) ++
           (if cfg.maxMsg > 0 && evs.any (fun e => match e with | .mail _ _ o _ => o.size > cfg.maxMsg | _ => false) then
              ["C06 a MAIL declaring a SIZE above the limit reached the backend"] else []) ++
           (if cfg.maxMsg > 0 && drecs.any (fun d => d.octets.length > cfg.maxMsg && d.rdEnd == .eof) then
              ["C06 an over-size message was reported complete"] else [])
       | "C07" => Spec.Mon.check7 cfg.lmtp drecs evs ++
           (match tag.splitOn ":" with
            | ["TAG=incomplete", k] =>
              -- the connection was lost inside message k: whatever the backend got of it, it is not a complete message
              (match drecs[natOf k]? with
               | some d => if d.rdEnd == .eof then ["C07 an incomplete message was presented to the backend as complete (EOF)"] else []
               | none => [])
            | _ => [])
       | _ => Spec.Mon.check8 evs ++ Spec.Mon.check3 cfg evs)
    if bad.isEmpty then "ok" else "bad: " ++ String.intercalate "; " bad
  | _ => "bad: unparsable case"

end SmtpV.Driver.Conv
