import SmtpV.Spec.E2E
import Driver.Conv
/-!
Glue for the `e2e` probe: there is no model answer (the probe relates two observations of the
implementation); the driver's answer to the case itself is the constant `SPEC`.
-/
namespace SmtpV.Driver.E2E
open SmtpV SmtpV.Spec

def probe (_ : List String) : String := "SPEC"

def parseCall (cs res : String) : Spec.E2E.Call :=
  match cs.splitOn "/" with
  | ["mail", f, o] => .mail (bytesOfHex f) (if o == "-" then none else some (Conv.parseMailOpts o)) res
  | ["rcpt", t, o] => .rcpt (bytesOfHex t) (if o == "-" then none else some (Conv.parseRcptOpts o)) res
  | ["data"] => .data res
  | ["lmtpdata"] => .data res
  | ["write", b] => .write (if b == "-" then [] else bytesOfHex b) res
  | ["close"] => .close res
  | ["reset"] => .reset res
  | _ => .other

/-- `mon PID e2e CFG BACKEND MODE CALLS ## EVENTS DRECS RESULTS` -/
def monitor (pid : String) (c a : List String) : String :=
  match c, a with
  | _ :: cfgS :: _ :: _ :: callsS :: _, evS :: dS :: resS :: _ =>
    if (evS.splitOn ";").contains "HANG" then "bad: " ++ pid ++ " the connection hung" else
    let (cfg, _) := Conv.parseCfg cfgS
    let authOn := cfg.authSess && !cfg.mechs.isEmpty && cfg.insecureAuth
    let (evs, drecs, _) := Conv.parseAnswer [evS, dS, ""]
    let calls := callsS.splitOn ";"
    let ress := (resS.splitOn "|").map fun it => ((it.splitOn "/").drop 1).headD ""
    if calls.length != ress.length then "bad: unparsable observation (call count)" else
    -- an explicit Hello as the first call: its result is the backend's answer to the session it asked for — in LMTP that of the one
    -- LHLO; in SMTP that of the last greeting (a 500/502 to EHLO makes the client try HELO, which asks the backend again)
    let nsRs := evs.filterMap fun e => match e with | .ns _ _ _ r => some r | _ => none
    let helloBad : List String :=
      match calls.head?, ress.head?, nsRs with
      | some c0, some r0, n0 :: _ =>
        if !c0.startsWith "hello/" then [] else
        (Spec.E2E.verdict "env" (if cfg.lmtp then n0 else nsRs.getLast?.getD n0) r0).filter
          (fun r => pid == "ALL" || pid.isPrefixOf r)
      | _, _, _ => []
    let bad := helloBad ++ Spec.E2E.check pid cfg authOn evs drecs ((calls.zip ress).map fun (c, r) => parseCall c r)
    if bad.isEmpty then "ok" else "bad: " ++ String.intercalate "; " bad.eraseDups
  | _, _ => "bad: unparsable observation"

end SmtpV.Driver.E2E
