import SmtpV.Model.Lifecycle
import Driver.Conv
/-!
Glue for the `accept` probe (lifecycle model) and the `sched` probe (a gated conversation: in the
repaired code the observable outcome does not depend on when a delivery completes, so the model's
prediction is the sequential run of the same conversation).
-/
namespace SmtpV.Driver.Sched
open SmtpV SmtpV.Lifecycle

def parseOutcome (s : String) : Option Outcome :=
  -- (`tlshang`: an implicit-TLS connection stuck in its handshake — for the lifecycle model just a connection)
  match s with | "conn" => some .conn | "tlshang" => some .conn | "temp" => some .temp | "perm" => some .perm | _ => none

def parseEnding (s : String) : Ending :=
  match s with | "close" => .close | "shutdown" => .shutdown | _ => .none

def showDelay (ms : Nat) : String := if ms ≥ 1000 && ms % 1000 == 0 then s!"{ms / 1000}s" else s!"{ms}ms"

def probeAccept (f : List String) : String :=
  match f with
  | [_, outs, ends] =>
    let script := if outs == "-" || outs == "" then [] else (outs.splitOn ",").filterMap parseOutcome
    let es := (ends.splitOn ",").map parseEnding
    let r := run script es
    s!"serve={r.serve};end1={r.ends.getD 0 "-"};end2={r.ends.getD 1 "-"};accepted={r.accepted};open=0;" ++
    s!"delays={String.intercalate "," (r.delays.map showDelay)};left=0"
  | _ => "DRIVER-BAD-CASE"

/-- `sched CFG BACKEND EVENTS`: the segments in order, everything else ignored -/
def probeSched (f : List String) : String :=
  match f.take 4 with
  | [_, cfgS, beS, evS] =>
    let segs := (evS.splitOn ";").filterMap fun e =>
      match e.splitOn ":" with
      | ["seg", h] => some h
      | _ => none
    let ans := Conv.probe ["conv", cfgS, beS, String.intercalate "," segs ++ ";eof"]
    match ans.splitOn "\t" with
    | [evs, ds, _] => evs ++ "\t" ++ ds ++ "\tLEFT=0;"
    | _ => ans
  | _ => "DRIVER-BAD-CASE"

end SmtpV.Driver.Sched
