import SmtpV.Model.Lifecycle
import Driver.Conv
/-!
Glue for the `accept` probe (lifecycle model) and the `sched` probe (a gated conversation: in the
repaired code the observable outcome does not depend on when a delivery completes, so the model's
prediction is the sequential run of the same conversation).
-/
namespace SmtpV.Driver.Sched
open SmtpV SmtpV.Lifecycle

def parseOutcome (s : String) : Option Outcome :=
  -- (`tlshang`: an implicit-TLS connection stuck in its handshake — for the lifecycle model just a connection)
  match s with | "conn" => some .conn | "tlshang" => some .conn | "temp" => some .temp | "perm" => some .perm | _ => none

def parseEnding (s : String) : Ending :=
  match s with | "close" => .close | "shutdown" => .shutdown | _ => .none

def showDelay (ms : Nat) : String := if ms ≥ 1000 && ms % 1000 == 0 then s!"{ms / 1000}s" else s!"{ms}ms"

def probeAccept (f : List String) : String :=
  match f with
  | [_, outs, ends] =>
    let script := if outs == "-" || outs == "" then [] else (outs.splitOn ",").filterMap parseOutcome
    let es := (ends.splitOn ",").map parseEnding
    let r := run script es
    s!"serve={r.serve};end1={r.ends.getD 0 "-"};end2={r.ends.getD 1 "-"};accepted={r.accepted};open=0;" ++
    s!"delays={String.intercalate "," (r.delays.map showDelay)};left=0"
  | _ => "DRIVER-BAD-CASE"

/-- `accept2  nA:errA  nB:errB  end1,end2` -/
def probeAccept2 (f : List String) : String :=
  match f with
  | [_, a, b, ends] =>
    let pr (x : String) : Nat × Bool := match x.splitOn ":" with | [n, e] => (Conv.natOf n, e == "1") | _ => (0, false)
    let (nA, eA) := pr a
    let (nB, eB) := pr b
    let es := (ends.splitOn ",").map parseEnding
    let r := run2 nA nB eA eB es
    s!"serveA={r.serveA};serveB={r.serveB};end1={r.ends.getD 0 "-"};end2={r.ends.getD 1 "-"};accepted={r.accepted};open={r.opened};left=0"
  | _ => "DRIVER-BAD-CASE"

/-- the judge for `accept2` answers: what the property says about Close, stated on the observation alone -/
def monitorAccept2 (c a : List String) : String :=
  let ends := ((c.drop 3).headD "").splitOn ","
  let kv := ((a.headD "").splitOn ";").filterMap fun x => match x.splitOn "=" with | [k, v] => some (k, v) | _ => none
  let look (k : String) : String := ((kv.find? (·.1 == k)).map (·.2)).getD ""
  let firstIsClose := ends.head? == some "close"
  let bad : List String :=
    (if firstIsClose && look "open" != "0" then ["C20 Server.Close left a connection open"] else []) ++
    (if firstIsClose && (look "serveA" == "HANG" || look "serveB" == "HANG") then ["C20 Server.Close did not make every Serve return"] else []) ++
    (if (ends.head? == some "close" || ends.head? == some "shutdown") && (ends.drop 1).head? != some "none" && (ends.drop 1).head? != none &&
        look "end2" != "closed" then ["C20 a second Close/Shutdown did not report that the server is closed"] else []) ++
    (if look "left" != "0" then ["C20 goroutines were left behind"] else [])
  if bad.isEmpty then "ok" else "bad: " ++ String.intercalate "; " bad

/-- `sched CFG BACKEND EVENTS`: the segments in order, everything else ignored -/
def probeSched (f : List String) : String :=
  match f.take 4 with
  | [_, cfgS, beS, evS] =>
    let segs := (evS.splitOn ";").filterMap fun e =>
      match e.splitOn ":" with
      | ["seg", h] => some h
      | _ => none
    let ans := Conv.probe ["conv", cfgS, beS, String.intercalate "," segs ++ ";eof"]
    match ans.splitOn "\t" with
    | [evs, ds, _] => evs ++ "\t" ++ ds ++ "\tLEFT=0;"
    | _ => ans
  | _ => "DRIVER-BAD-CASE"

end SmtpV.Driver.Sched
