import SmtpV.Model.Client
/-!
Frame lemmas for the client machine: which fields the I/O primitives leave alone.
-/
namespace SmtpV.Client
open SmtpV

theorem handshake_rcpts (c : C) : c.handshake.rcpts = c.rcpts := by
  unfold C.handshake
  split
  · rfl
  · split <;> rfl

theorem handshake_lmtp (c : C) : c.handshake.lmtp = c.lmtp := by
  unfold C.handshake
  split
  · rfl
  · split <;> rfl

theorem send_rcpts (c : C) (bs : Bytes) : (c.send bs).1.rcpts = c.rcpts := by
  unfold C.send
  simp only []
  split <;> simp [handshake_rcpts]

theorem send_lmtp (c : C) (bs : Bytes) : (c.send bs).1.lmtp = c.lmtp := by
  unfold C.send
  simp only []
  split <;> simp [handshake_lmtp]

theorem read_rcpts (c : C) (e : Nat) : (c.read e).1.rcpts = c.rcpts := by simp [C.read]
theorem read_lmtp (c : C) (e : Nat) : (c.read e).1.lmtp = c.lmtp := by simp [C.read]

theorem closeDot_rcpts (c : C) : c.closeDot.1.rcpts = c.rcpts := by unfold C.closeDot; split <;> rfl

theorem cmd_rcpts (c : C) (e : Nat) (l : Bytes) : (c.cmd e l).1.rcpts = c.rcpts := by
  unfold C.cmd
  simp only []
  have hs := send_rcpts c.closeDot.1 (c.closeDot.2 ++ l ++ crlf)
  split
  · rename_i c' h; rw [h] at hs; simpa [closeDot_rcpts] using hs
  · rename_i c' h; rw [h] at hs; simp only [read_rcpts]; simpa [closeDot_rcpts] using hs

theorem greet_rcpts (c : C) : c.greet.1.rcpts = c.rcpts := by
  unfold C.greet
  split
  · rfl
  · simp only []
    have hr := read_rcpts { c with didGreet := true } 220
    generalize C.read { c with didGreet := true } 220 = p at hr ⊢
    obtain ⟨c', r⟩ := p
    simp only [] at hr
    cases r <;> simp [hr]

theorem hello_rcpts (c : C) : c.hello.1.rcpts = c.rcpts := by
  unfold C.hello
  split
  · rfl
  · have hg := greet_rcpts c
    generalize c.greet = p1 at hg ⊢
    obtain ⟨c1, e1⟩ := p1
    simp only [] at hg
    cases e1 with
    | some e => simpa using hg
    | none =>
      simp only []
      have h1 := cmd_rcpts { c1 with didHello := true } 250
        ((if c1.lmtp = true then "LHLO ".b else "EHLO ".b) ++ c1.localName)
      generalize C.cmd { c1 with didHello := true } 250
        ((if c1.lmtp = true then "LHLO ".b else "EHLO ".b) ++ c1.localName) = p2 at h1 ⊢
      obtain ⟨c2, r2⟩ := p2
      simp only [] at h1
      cases r2 with
      | ok code msg => simp [h1, hg]
      | smtpErr e =>
        simp only []
        split
        · have h3 := cmd_rcpts { c2 with ext := [] } 250 ("HELO ".b ++ c2.localName)
          generalize C.cmd { c2 with ext := [] } 250 ("HELO ".b ++ c2.localName) = p3 at h3 ⊢
          obtain ⟨c3, r3⟩ := p3
          simp only [] at h3 ⊢
          rw [h3, h1, hg]
        · simp [h1, hg]
      | proto => simp [h1, hg]
      | io => simp [h1, hg]

end SmtpV.Client
