import SmtpV.Proofs.BdatLimit
import SmtpV.Proofs.Framing
/-!
C06 for accepted chunks on the server model: executing an accepted `BDAT size` hands the backend at most `size` further
octets; nothing else is handed to any delivery.
-/
namespace SmtpV.Server
open SmtpV SmtpV.Wire SmtpV.Spec

/-- how many octets delivery `j` has been handed (0 if there is no such delivery) -/
def octLen (s : S) (j : Nat) : Nat := ((s.drecs[j]?).map (fun d => d.octets.length)).getD 0

/-- no delivery has been handed more than `m` octets on the way from `s` to `s'` -/
def GrowBy (s s' : S) (m : Nat) : Prop := ∀ j, octLen s' j ≤ octLen s j + m

theorem GrowBy.rfl' (s : S) : GrowBy s s 0 := fun _ => Nat.le_refl _
theorem GrowBy.trans {a b c : S} {m1 m2 : Nat} (h1 : GrowBy a b m1) (h2 : GrowBy b c m2) : GrowBy a c (m1 + m2) := by
  intro j; have := h1 j; have := h2 j; omega
theorem GrowBy.mono {a b : S} {m m' : Nat} (h : GrowBy a b m) (hm : m ≤ m') : GrowBy a b m' := by
  intro j; have := h j; omega
theorem GrowBy.of_drecs {s s' : S} (h : s'.drecs = s.drecs) : GrowBy s s' 0 := by
  intro j; simp [octLen, h]

theorem GrowBy.of_same {s s' : S} (h : SameOctets s s') : GrowBy s s' 0 := by
  intro j
  simp only [octLen]
  cases hd : s'.drecs[j]? with
  | none => simp
  | some d' =>
    obtain ⟨d, h1, h2⟩ := h j d' hd
    simp [h1, h2]

theorem grow_setDrec (s : S) (k : Nat) (f : DRec → DRec) (m : Nat) (hf : ∀ d, (f d).octets.length ≤ d.octets.length + m) :
    GrowBy s (setDrec s k f) m := by
  intro j
  simp only [octLen, setDrec_get]
  split
  · cases hs : s.drecs[j]? with
    | none => simp
    | some d => simpa using hf d
  · omega

theorem grow_delivWrite (s : S) (k : Nat) (bs : Bytes) : GrowBy s (delivWrite s k bs).1 bs.length := by
  unfold delivWrite
  split
  · exact (GrowBy.rfl' s).mono (Nat.zero_le _)
  · simp only []
    have h1 := grow_setDrec s k (fun d => { d with octets := d.octets ++ bs.take (delivTake s k bs) }) bs.length
      (by intro d; simp only [List.length_append, List.length_take]; omega)
    split
    · have := (h1.trans (GrowBy.of_same (so_delivFinish _ k .none)))
      simpa using this
    · exact h1

theorem bufRead_len (w : W) (m : Nat) (hl : w.limit = 0) (bs : Bytes) (w1 : W) (h : bufRead w m = (w1, .ok bs)) :
    bs.length ≤ m ∧ w1.limit = 0 := by
  have := bufRead_frame w m hl
  rw [h] at this
  exact ⟨this.2.2, this.1⟩

theorem bufRead_limit (w : W) (m : Nat) (hl : w.limit = 0) : (bufRead w m).1.limit = 0 := (bufRead_frame w m hl).1

theorem delivWrite_w (s : S) (k : Nat) (bs : Bytes) : (delivWrite s k bs).1.w = s.w := (sw_delivWrite s k bs).w

/-- copying a chunk of `n` octets hands the deliveries at most `n` octets -/
theorem grow_copyChunk : ∀ (fuel : Nat) (s : S) (k n cap : Nat), s.w.limit = 0 → GrowBy s (copyChunk fuel s k n cap).1 n := by
  intro fuel
  induction fuel with
  | zero => intro s k n cap _; exact (GrowBy.rfl' s).mono (Nat.zero_le _)
  | succ fuel ih =>
    intro s k n cap hl
    unfold copyChunk
    split
    · exact (GrowBy.rfl' s).mono (Nat.zero_le _)
    · have hb := bufRead_frame s.w (min cap n) hl
      generalize hbr : bufRead s.w (min cap n) = br at hb ⊢
      obtain ⟨w1, r⟩ := br
      simp only [] at hb
      have h1 : GrowBy s { s with w := w1 } 0 := GrowBy.of_drecs rfl
      cases r with
      | error e => cases e <;> exact h1.mono (Nat.zero_le _)
      | ok bs =>
        simp only [] at hb ⊢
        have hlen : bs.length ≤ n := Nat.le_trans hb.2.2 (Nat.min_le_right _ _)
        have h2 := grow_delivWrite { s with w := w1 } k bs
        have hw : (delivWrite { s with w := w1 } k bs).1.w.limit = 0 := by rw [delivWrite_w]; exact hb.1
        generalize delivWrite { s with w := w1 } k bs = dw at h2 hw ⊢
        obtain ⟨s1, okAll⟩ := dw
        simp only [] at h2 hw ⊢
        split
        · have h3 := ih s1 k (n - bs.length) cap hw
          have := (h1.trans h2).trans h3
          exact this.mono (by omega)
        · exact (h1.trans h2).mono (by omega)

/-! ### everything around the copy hands nothing to anybody -/

theorem drecs_write (s : S) (bs : Bytes) : (write s bs).drecs = s.drecs := by unfold write; split <;> rfl
theorem drecs_replyB (s : S) (c : Nat) (e : Enh) (t : List Bytes) : (replyB s c e t).drecs = s.drecs := drecs_write _ _
theorem drecs_reply (s : S) (c : Nat) (e : Enh) (t : String) : (reply s c e t).drecs = s.drecs := drecs_write _ _

theorem drecs_writeLmtpStatuses (sts : List (Bytes × BRes)) : ∀ (s : S), (writeLmtpStatuses s sts).drecs = s.drecs := by
  induction sts with
  | nil => intro s; rfl
  | cons x xs ih =>
    intro s
    simp only [writeLmtpStatuses, List.foldl_cons] at ih ⊢
    rw [ih, drecs_replyB]

theorem so_closeConn (s : S) : SameOctets s (closeConn s) := by
  unfold closeConn
  exact (so_abortBdat s).trans (SameOctets.of_drecs (by rw [drecs_closeSock, drecs_logoutSess]))

theorem grow0_bdatFailReplies (s : S) (k : Nat) (last : Bool) (err : BRes) : GrowBy s (bdatFailReplies s k last err) 0 := by
  unfold bdatFailReplies
  split
  · simp only []
    split
    · exact GrowBy.of_drecs (drecs_writeLmtpStatuses _ _)
    · split <;> exact GrowBy.of_drecs (drecs_writeLmtpStatuses _ _)
  · exact GrowBy.of_drecs (drecs_replyB _ _ _ _)

theorem grow0_bdatFail (s : S) (k left : Nat) (last : Bool) (err : BRes) : GrowBy s (bdatFail s k left last err).1 0 := by
  unfold bdatFail
  simp only []
  have h1 : GrowBy s (setW s (discardN (wireFuel s.w) s.w left)) 0 := GrowBy.of_drecs rfl
  generalize setW s (discardN (wireFuel s.w) s.w left) = s1 at h1 ⊢
  have h2 := grow0_bdatFailReplies s1 k last err
  generalize bdatFailReplies s1 k last err = s2 at h2 ⊢
  have h3 : GrowBy s2 (if err == errPanic then closeConn s2 else s2) 0 := by
    split
    · exact GrowBy.of_same (so_closeConn _)
    · exact GrowBy.rfl' _
  generalize (if err == errPanic then closeConn s2 else s2) = s3 at h3 ⊢
  have h4 : GrowBy s3 (armLimit (resetConn s3)) 0 := by
    have := (GrowBy.of_same (so_resetConn s3)).trans (GrowBy.of_drecs (s := resetConn s3) (s' := armLimit (resetConn s3)) rfl)
    simpa using this
  simpa using ((h1.trans h2).trans h3).trans h4

theorem grow0_bdatFinal (s : S) (k : Nat) : GrowBy s (bdatFinal s k).1 0 := by
  unfold bdatFinal
  simp only []
  have h1 : GrowBy s (if delivRunning s k then delivFinish s k .eof else s) 0 := by
    split
    · exact GrowBy.of_same (so_delivFinish _ _ _)
    · exact GrowBy.rfl' _
  generalize (if delivRunning s k then delivFinish s k .eof else s) = s1 at h1 ⊢
  have h2 : ∀ x : S, GrowBy s1 x 0 →
      GrowBy s (if (delivRet s1 k == BRes.panic) = true then (closeConn x, false) else (resetConn x, false)).1 0 := by
    intro x hx
    split
    · simpa using (h1.trans hx).trans (GrowBy.of_same (so_closeConn x))
    · simpa using (h1.trans hx).trans (GrowBy.of_same (so_resetConn x))
  apply h2
  split
  · split
    · exact GrowBy.of_drecs (drecs_writeLmtpStatuses _ _)
    · split <;> exact GrowBy.of_drecs (drecs_writeLmtpStatuses _ _)
  · exact GrowBy.of_drecs (drecs_replyB _ _ _ _)

theorem grow0_bdatDone (s : S) (k size : Nat) (last : Bool) : GrowBy s (bdatDone s k size last).1 0 := by
  unfold bdatDone
  simp only []
  have h1 : GrowBy s (armLimit (addBytesReceived s size)) 0 := GrowBy.of_drecs rfl
  generalize armLimit (addBytesReceived s size) = s1 at h1 ⊢
  split
  · simpa using h1.trans (GrowBy.of_drecs (drecs_reply s1 250 ⟨2, 0, 0⟩ "Continue"))
  · simpa using h1.trans (grow0_bdatFinal s1 k)

theorem grow0_bdatAfterCopy (s : S) (k size left : Nat) (last : Bool) (ce : CopyEnd) :
    GrowBy s (bdatAfterCopy s k size left last ce).1 0 := by
  unfold bdatAfterCopy
  split
  · exact grow0_bdatFail _ _ _ _ _
  · exact grow0_bdatFail _ _ _ _ _
  · simp only []
    split <;> exact grow0_bdatFail _ _ _ _ _
  · exact grow0_bdatDone _ _ _ _

theorem octLen_beginData (s : S) (id : Nat) (dec : DataDec) : GrowBy s (beginData s id dec).1 0 := by
  intro j
  simp only [octLen, beginData]
  by_cases hj : j < s.drecs.length
  · rw [List.getElem?_append_left hj]; omega
  · rw [List.getElem?_append_right (by omega)]
    cases hi : j - s.drecs.length with
    | zero => simp
    | succ n => simp

theorem grow0_bdatBegin (s : S) : GrowBy s (bdatBegin s).1 0 := by
  unfold bdatBegin
  split
  · exact GrowBy.rfl' _
  · have hp : GrowBy s (popData s).2 0 := by unfold popData; split <;> exact GrowBy.of_drecs rfl
    generalize popData s = p at hp ⊢
    obtain ⟨dec, s1⟩ := p
    simp only [] at hp ⊢
    have hs : GrowBy s1 (startDelivery s1 dec).1 0 := by
      unfold startDelivery
      simp only []
      have := (octLen_beginData s1 (s1.c.session.getD 0) dec).trans
        (GrowBy.of_drecs (s := (beginData s1 (s1.c.session.getD 0) dec).1)
          (s' := setBdat (emit (beginData s1 (s1.c.session.getD 0) dec).1
            (.dataBegin (s1.c.session.getD 0) (beginData s1 (s1.c.session.getD 0) dec).2)) (beginData s1 (s1.c.session.getD 0) dec).2) rfl)
      simpa using this
    generalize startDelivery s1 dec = q at hs ⊢
    obtain ⟨s2, k⟩ := q
    simp only [] at hs ⊢
    split
    · simpa using (hp.trans hs).trans (GrowBy.of_same (so_delivFinish s2 k .none))
    · simpa using hp.trans hs

/-- **an accepted chunk hands the backend at most `size` octets**: whatever the state, the backend, the way the chunk arrives
    or fails to arrive — no delivery record grows by more than the declared size of the chunk -/
theorem grow_bdatChunk (s : S) (size : Nat) (last : Bool) : GrowBy s (bdatChunk s size last).1 size := by
  unfold bdatChunk
  have h0 : GrowBy s (setBdatStatus s) 0 := by unfold setBdatStatus; split <;> exact GrowBy.of_drecs rfl
  have h1 := h0.trans (grow0_bdatBegin (setBdatStatus s))
  generalize bdatBegin (setBdatStatus s) = p at h1 ⊢
  obtain ⟨s1, k⟩ := p
  simp only [] at h1 ⊢
  have h2 : GrowBy s1 (setLimit s1 0) 0 := GrowBy.of_drecs rfl
  have hl : (setLimit s1 0).w.limit = 0 := rfl
  generalize setLimit s1 0 = s2 at h2 hl ⊢
  have h3 := grow_copyChunk (wireFuel s2.w) s2 k size (min 32768 (max size 1)) hl
  generalize copyChunk (wireFuel s2.w) s2 k size (min 32768 (max size 1)) = q at h3 ⊢
  obtain ⟨s3, left, ce⟩ := q
  simp only [] at h3 ⊢
  have h4 := grow0_bdatAfterCopy s3 k size left last ce
  simpa using ((h1.trans h2).trans h3).trans h4

end SmtpV.Server
