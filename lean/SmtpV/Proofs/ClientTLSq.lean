import SmtpV.Proofs.ClientTLSp
namespace SmtpV.Client

/-- `c'` is reached from `c` without anything written on the raw socket, and still nothing can be -/
def Keeps (c c' : C) : Prop := c'.plainLog = c.plainLog ∧ NoMorePlain c'

theorem Keeps.refl {c : C} (h : NoMorePlain c) : Keeps c c := ⟨rfl, h⟩
theorem Keeps.trans {a b c : C} (h1 : Keeps a b) (h2 : Keeps b c) : Keeps a c := ⟨h2.1.trans h1.1, h2.2⟩
theorem Keeps.nmp {a b : C} (h : Keeps a b) : NoMorePlain b := h.2

/-- an update that leaves the four fields alone, or closes the connection -/
theorem keeps_upd {c c' : C} (h : NoMorePlain c) (h1 : c'.plainLog = c.plainLog) (h2 : c'.tlsPending = c.tlsPending)
    (h3 : c'.tlsState = c.tlsState) (h4 : c.connClosed = true → c'.connClosed = true) : Keeps c c' := by
  refine ⟨h1, ?_⟩
  unfold NoMorePlain at *
  rw [h2, h3]
  rcases h with h | h | h
  · exact Or.inl h
  · exact Or.inr (Or.inl h)
  · exact Or.inr (Or.inr (h4 h))

theorem keeps_close {c c' : C} (h1 : c'.plainLog = c.plainLog) (h4 : c'.connClosed = true) : Keeps c c' :=
  ⟨h1, Or.inr (Or.inr h4)⟩

theorem send_keeps (c : C) (bs : Bytes) (h : NoMorePlain c) : Keeps c (c.send bs).1 := send_noMorePlain c bs h

theorem read_keeps (c : C) (n : Nat) (h : NoMorePlain c) : Keeps c (c.read n).1 := by
  unfold C.read
  exact keeps_upd h rfl rfl rfl id

theorem closeDot_keeps (c : C) (h : NoMorePlain c) : Keeps c c.closeDot.1 := by
  unfold C.closeDot
  split
  · exact Keeps.refl h
  · exact keeps_upd h rfl rfl rfl id

theorem cmd_keeps (c : C) (n : Nat) (l : Bytes) (h : NoMorePlain c) : Keeps c (c.cmd n l).1 := by
  unfold C.cmd
  have h1 := closeDot_keeps c h
  generalize c.closeDot = p at h1 ⊢
  obtain ⟨c1, pre⟩ := p
  simp only [] at h1 ⊢
  have h2 := send_keeps c1 (pre ++ l ++ crlf) h1.nmp
  generalize c1.send (pre ++ l ++ crlf) = q at h2 ⊢
  obtain ⟨c2, b⟩ := q
  cases b with
  | false => exact h1.trans h2
  | true => exact (h1.trans h2).trans (read_keeps c2 n h2.nmp)

theorem greet_keeps (c : C) (h : NoMorePlain c) : Keeps c c.greet.1 := by
  unfold C.greet
  split
  · exact Keeps.refl h
  · have h0 : Keeps c { c with didGreet := true } := keeps_upd h rfl rfl rfl id
    have h1 := read_keeps { c with didGreet := true } 220 h0.nmp
    simp only []
    generalize C.read { c with didGreet := true } 220 = p at h1 ⊢
    obtain ⟨c1, r⟩ := p
    cases r with
    | ok code msg => exact h0.trans h1
    | smtpErr e => exact (h0.trans h1).trans (keeps_close rfl rfl)
    | proto => exact (h0.trans h1).trans (keeps_close rfl rfl)
    | io => exact (h0.trans h1).trans (keeps_close rfl rfl)

theorem hello_keeps (c : C) (h : NoMorePlain c) : Keeps c c.hello.1 := by
  unfold C.hello
  split
  · exact Keeps.refl h
  · have h1 := greet_keeps c h
    generalize c.greet = p at h1 ⊢
    obtain ⟨c1, e⟩ := p
    cases e with
    | some e => exact h1
    | none =>
      simp only [] at h1 ⊢
      have h2 : Keeps c1 { c1 with didHello := true } := keeps_upd h1.nmp rfl rfl rfl id
      have h3 := cmd_keeps { c1 with didHello := true } 250
        ((if c1.lmtp then "LHLO ".b else "EHLO ".b) ++ c1.localName) h2.nmp
      generalize C.cmd { c1 with didHello := true } 250 ((if c1.lmtp then "LHLO ".b else "EHLO ".b) ++ c1.localName) = q at h3 ⊢
      obtain ⟨c2, r⟩ := q
      have h13 := (h1.trans h2).trans h3
      cases r with
      | ok code msg => exact h13.trans (keeps_upd h3.nmp rfl rfl rfl id)
      | smtpErr e =>
        simp only []
        split
        · have h4 : Keeps c2 { c2 with ext := [] } := keeps_upd h3.nmp rfl rfl rfl id
          have h5 := cmd_keeps { c2 with ext := [] } 250 ("HELO ".b ++ c2.localName) h4.nmp
          generalize C.cmd { c2 with ext := [] } 250 ("HELO ".b ++ c2.localName) = q2 at h5 ⊢
          obtain ⟨c3, r3⟩ := q2
          exact ((h13.trans h4).trans h5).trans (keeps_upd h5.nmp rfl rfl rfl id)
        · exact h13.trans (keeps_upd h3.nmp rfl rfl rfl id)
      | proto => exact h13.trans (keeps_upd h3.nmp rfl rfl rfl id)
      | io => exact h13.trans (keeps_upd h3.nmp rfl rfl rfl id)

theorem lmtpReplies_keeps (rs : List Bytes) : ∀ (c : C) (cb : Bool) (first : Option CErr) (cbs : List String),
    NoMorePlain c → Keeps c (lmtpReplies rs c cb first cbs).1 := by
  induction rs with
  | nil => intro c cb first cbs h; exact Keeps.refl h
  | cons r rest ih =>
    intro c cb first cbs h
    unfold lmtpReplies
    have h1 := read_keeps c 250 h
    generalize c.read 250 = p at h1 ⊢
    obtain ⟨c1, r1⟩ := p
    cases r1 with
    | ok code msg => exact h1.trans (ih c1 _ _ _ h1.nmp)
    | smtpErr e =>
      simp only []
      split
      · exact h1.trans (ih c1 _ _ _ h1.nmp)
      · exact h1.trans (ih c1 _ _ _ h1.nmp)
    | proto => exact h1
    | io => exact h1

theorem authLoop_keeps (fuel : Nat) : ∀ (c : C) (r : RR) (steps : List (Option (Option Bytes))) (seen : List String),
    NoMorePlain c → Keeps c (authLoop fuel c r steps seen).1 := by
  induction fuel with
  | zero => intro c r steps seen h; exact Keeps.refl h
  | succ n ih =>
    intro c r steps seen h
    unfold authLoop
    cases r with
    | ok code msg64 =>
      simp only []
      split
      · split
        · exact cmd_keeps c 501 [42] h
        · rename_i ch _
          generalize (match steps with | s :: t => (s, t) | [] => (some (some []), [])) = st
          obtain ⟨step, steps'⟩ := st
          split
          · exact cmd_keeps c 501 [42] h
          · exact Keeps.refl h
          · rename_i resp _
            have h1 := cmd_keeps c 0 (Server.b64Encode resp) h
            exact h1.trans (ih _ _ _ _ h1.nmp)
      · split
        · exact Keeps.refl h
        · exact cmd_keeps c 501 [42] h
    | smtpErr e => exact Keeps.refl h
    | proto => exact Keeps.refl h
    | io => exact Keeps.refl h

theorem call_keeps (c0 : C) (call : Call) (h : NoMorePlain c0) : Keeps c0 (c0.call call).1 := by
  have h0 : Keeps c0 { c0 with out := c0.carry, carry := [] } := keeps_upd h rfl rfl rfl id
  unfold C.call
  generalize ({ c0 with out := c0.carry, carry := [] } : C) = c at h0 ⊢
  simp only []
  refine h0.trans ?_
  have hc := h0.nmp
  clear h0 h
  cases call with
  | hello name =>
    simp only []
    split
    · exact Keeps.refl hc
    · split
      · exact Keeps.refl hc
      · have h1 : Keeps c { c with localName := name } := keeps_upd hc rfl rfl rfl id
        exact h1.trans (hello_keeps _ h1.nmp)
  | verify a =>
    simp only []
    split
    · exact Keeps.refl hc
    · have h1 := hello_keeps c hc
      generalize c.hello = p at h1 ⊢
      obtain ⟨c1, e⟩ := p
      cases e with
      | some e => exact h1
      | none => exact h1.trans (cmd_keeps c1 _ _ h1.nmp)
  | mail frm o =>
    simp only []
    split
    · exact Keeps.refl hc
    · have h1 := hello_keeps c hc
      generalize c.hello = p at h1 ⊢
      obtain ⟨c1, e⟩ := p
      cases e with
      | some e => exact h1
      | none =>
        simp only []
        split
        · exact h1
        · rename_i l _
          have h2 := cmd_keeps c1 250 l h1.nmp
          generalize c1.cmd 250 l = q at h2 ⊢
          obtain ⟨c2, r⟩ := q
          cases r with
          | ok code msg => exact (h1.trans h2).trans (keeps_upd h2.nmp rfl rfl rfl id)
          | smtpErr e => exact h1.trans h2
          | proto => exact h1.trans h2
          | io => exact h1.trans h2
  | rcpt to o =>
    simp only []
    split
    · exact Keeps.refl hc
    · rename_i l _
      have h2 := cmd_keeps c 25 l hc
      generalize c.cmd 25 l = q at h2 ⊢
      obtain ⟨c2, r⟩ := q
      cases r with
      | ok code msg => exact h2.trans (keeps_upd h2.nmp rfl rfl rfl id)
      | smtpErr e => exact h2
      | proto => exact h2
      | io => exact h2
  | reset =>
    simp only []
    have h1 := hello_keeps c hc
    generalize c.hello = p at h1 ⊢
    obtain ⟨c1, e⟩ := p
    cases e with
    | some e => exact h1
    | none =>
      simp only []
      have h2 := cmd_keeps c1 250 "RSET".b h1.nmp
      generalize c1.cmd 250 "RSET".b = q at h2 ⊢
      obtain ⟨c2, r⟩ := q
      cases r with
      | ok code msg => exact (h1.trans h2).trans (keeps_upd h2.nmp rfl rfl rfl id)
      | smtpErr e => exact h1.trans h2
      | proto => exact h1.trans h2
      | io => exact h1.trans h2
  | noop =>
    simp only []
    have h1 := hello_keeps c hc
    generalize c.hello = p at h1 ⊢
    obtain ⟨c1, e⟩ := p
    cases e with
    | some e => exact h1
    | none => exact h1.trans (cmd_keeps c1 _ _ h1.nmp)
  | quit =>
    simp only []
    have h1 := hello_keeps c hc
    generalize c.hello = p at h1 ⊢
    obtain ⟨c1, e⟩ := p
    cases e with
    | some e => exact h1
    | none =>
      simp only []
      have h2 := cmd_keeps c1 221 "QUIT".b h1.nmp
      generalize c1.cmd 221 "QUIT".b = q at h2 ⊢
      obtain ⟨c2, r⟩ := q
      cases r with
      | ok code msg => exact (h1.trans h2).trans (keeps_close rfl rfl)
      | smtpErr e => exact h1.trans h2
      | proto => exact h1.trans h2
      | io => exact h1.trans h2
  | ext name =>
    simp only []
    have h1 := hello_keeps c hc
    generalize c.hello = p at h1 ⊢
    obtain ⟨c1, e⟩ := p
    cases e with
    | some e => exact h1
    | none =>
      simp only []
      split
      · exact h1
      · exact h1
  | data =>
    simp only []
    have h2 := cmd_keeps c 354 "DATA".b hc
    generalize c.cmd 354 "DATA".b = q at h2 ⊢
    obtain ⟨c2, r⟩ := q
    cases r with
    | ok code msg => exact h2.trans (keeps_upd h2.nmp rfl rfl rfl id)
    | smtpErr e => exact h2
    | proto => exact h2
    | io => exact h2
  | lmtpData =>
    simp only []
    split
    · exact Keeps.refl hc
    · have h2 := cmd_keeps c 354 "DATA".b hc
      generalize c.cmd 354 "DATA".b = q at h2 ⊢
      obtain ⟨c2, r⟩ := q
      cases r with
      | ok code msg => exact h2.trans (keeps_upd h2.nmp rfl rfl rfl id)
      | smtpErr e => exact h2
      | proto => exact h2
      | io => exact h2
  | write bs =>
    simp only []
    split
    · exact Keeps.refl hc
    · rename_i d _
      have h1 : Keeps c { c with wbuf := [] } := keeps_upd hc rfl rfl rfl id
      generalize (c.wbuf ++ (DotWriter.write d.st bs).2) = total
      generalize (if total.isEmpty then 0 else ((total.length - 1) / 4096) * 4096) = k
      have h2 := send_keeps { c with wbuf := [] } (total.take k) h1.nmp
      exact (h1.trans h2).trans (keeps_upd h2.nmp rfl rfl rfl id)
  | close k =>
    simp only []
    split
    · exact Keeps.refl hc
    · rename_i d _
      split
      · exact Keeps.refl hc
      · have h1 : Keeps c (if c.dot == some (k.getD (c.dws.length - 1)) then { c with dot := none } else c) := by
          split
          · exact keeps_upd hc rfl rfl rfl id
          · exact Keeps.refl hc
        generalize (if c.dot == some (k.getD (c.dws.length - 1)) then { c with dot := none } else c) = c1 at h1 ⊢
        have h2 := send_keeps c1 (DotWriter.wclose d.st) h1.nmp
        generalize c1.send (DotWriter.wclose d.st) = q at h2 ⊢
        obtain ⟨c2, b⟩ := q
        cases b with
        | false => exact h1.trans h2
        | true =>
          simp only []
          have h3 : Keeps c2 { c2 with dws := c2.dws.set (k.getD (c.dws.length - 1)) { d with closed := true } } :=
            keeps_upd h2.nmp rfl rfl rfl id
          generalize ({ c2 with dws := c2.dws.set (k.getD (c.dws.length - 1)) { d with closed := true } } : C) = c3 at h3 ⊢
          split
          · exact ((h1.trans h2).trans h3).trans (lmtpReplies_keeps _ c3 _ _ _ h3.nmp)
          · exact ((h1.trans h2).trans h3).trans (read_keeps c3 250 h3.nmp)
  | auth mech ir steps =>
    simp only []
    have h1 := hello_keeps c hc
    generalize c.hello = p at h1 ⊢
    obtain ⟨c1, e⟩ := p
    cases e with
    | some e => exact h1
    | none =>
      simp only []
      split
      · exact h1
      · generalize (Text.trimSpace ("AUTH ".b ++ mech ++ [32] ++ (match ir with | none => [] | some r => if r.isEmpty then [61] else Server.b64Encode r))) = line
        have h2 := cmd_keeps c1 0 line h1.nmp
        exact (h1.trans h2).trans (authLoop_keeps _ _ _ _ _ h2.nmp)

theorem calls_keeps (cs : List Call) : ∀ (c : C), NoMorePlain c → Keeps c (cs.foldl (fun c k => (c.call k).1) c) := by
  induction cs with
  | nil => intro c h; exact Keeps.refl h
  | cons k rest ih =>
    intro c h
    have h1 := call_keeps c k h
    exact h1.trans (ih _ h1.nmp)

theorem runUntilErr_keeps (cs : List Call) : ∀ (c : C), NoMorePlain c → Keeps c (runUntilErr c cs).1 := by
  induction cs with
  | nil => intro c h; exact Keeps.refl h
  | cons k rest ih =>
    intro c h
    unfold runUntilErr
    have h1 := call_keeps c k h
    generalize c.call k = p at h1 ⊢
    obtain ⟨c1, r⟩ := p
    simp only []
    split
    · exact h1.trans (ih c1 h1.nmp)
    · exact h1

/-- the whole of `SendMail` after `initStartTLS`: whatever it does (AUTH, the transaction, QUIT), it starts from
    `(c.initStartTLS).1` and writes nothing more on the raw socket -/
theorem sendMail_plain (c : C) (auth : Bool) (frm : Bytes) (to : List Bytes) (body : Bytes) :
    (sendMail c auth frm to body).1.plainLog = c.plainLog ∨
    (sendMail c auth frm to body).1.plainLog = (c.initStartTLS).1.plainLog := by
  unfold sendMail
  split
  · exact Or.inl rfl
  · right
    cases hp : c.initStartTLS with
    | mk c1 e =>
    cases e with
    | some e => rfl
    | none =>
      have h0 : NoMorePlain c1 := by
        have := initStartTLS_ok c (by rw [hp])
        rw [hp] at this; exact this
      simp only []
      have ha : ∀ (x : C × Option String), Keeps c1 x.1 →
          Keeps c1 (match x with
            | (c, some e) => (c, e)
            | (c, none) => runUntilErr c ([Call.mail frm none] ++ to.map (fun t => Call.rcpt t none) ++ [Call.data, Call.write body, Call.close, Call.quit])).1 := by
        intro x hx
        obtain ⟨c2, e⟩ := x
        cases e with
        | some e => exact hx
        | none => exact hx.trans (runUntilErr_keeps _ c2 hx.nmp)
      refine (ha _ ?_).1
      split
      · have h1 := call_keeps c1 (.ext "AUTH".b) h0
        generalize c1.call (.ext "AUTH".b) = q at h1 ⊢
        obtain ⟨c2, r⟩ := q
        simp only []
        split
        · have h2 := call_keeps c2 (.auth "PLAIN".b (some [0, 117, 115, 101, 114, 0, 115, 101, 99, 114, 101, 116]) []) h1.nmp
          exact h1.trans h2
        · exact h1
      · exact Keeps.refl h0

end SmtpV.Client
