import SmtpV.Proofs.ClientTLSq
namespace SmtpV.Client

/-- no data writer open and nothing held back in the writer's buffer (a client that has not begun a message) -/
def Idle (c : C) : Prop := c.dot = none ∧ c.wbuf = []

/-- `c'` is reached from idle `c` with exactly the lines `ls` written on the raw socket -/
def Wrote (c c' : C) (ls : List Bytes) : Prop := Idle c' ∧ c'.plainLog = c.plainLog ++ ls.flatten

theorem Wrote.refl {c : C} (h : Idle c) : Wrote c c [] := ⟨h, by simp⟩
theorem Wrote.trans {a b c : C} {l1 l2 : List Bytes} (h1 : Wrote a b l1) (h2 : Wrote b c l2) : Wrote a c (l1 ++ l2) :=
  ⟨h2.1, by rw [h2.2, h1.2]; simp⟩

theorem wrote_upd {c c' : C} (h : Idle c) (h1 : c'.dot = c.dot) (h2 : c'.wbuf = c.wbuf) (h3 : c'.plainLog = c.plainLog) :
    Wrote c c' [] := ⟨⟨h1.trans h.1, h2.trans h.2⟩, by simp [h3]⟩

theorem handshake_idle (c : C) (h : Idle c) : Idle c.handshake ∧ (c.tlsPending = false → c.handshake = c) := by
  unfold C.handshake
  cases hp : c.tlsPending with
  | false => simp [h]
  | true =>
    simp only [Bool.not_true, Bool.false_eq_true, if_false]
    split
    · exact ⟨h, by simp⟩
    · exact ⟨h, by simp⟩

theorem send_wrote (c : C) (bs : Bytes) (h : Idle c) (hp : c.tlsPending = false) :
    Wrote c (c.send bs).1 [] ∨ Wrote c (c.send bs).1 [bs] := by
  unfold C.send
  rw [(handshake_idle c h).2 hp]
  simp only [h.2, List.nil_append]
  split
  · exact Or.inl ⟨⟨h.1, rfl⟩, by simp⟩
  · by_cases hs : (c.tlsState == "ok") = true
    · exact Or.inl ⟨⟨h.1, rfl⟩, by simp [hs]⟩
    · exact Or.inr ⟨⟨h.1, rfl⟩, by simp [hs]⟩

theorem send_pending (c : C) (bs : Bytes) (hp : c.tlsPending = false) : (c.send bs).1.tlsPending = false := by
  unfold C.send C.handshake
  simp only [hp, Bool.not_false, if_true]
  split <;> first | rfl | exact hp

theorem read_wrote (c : C) (n : Nat) (h : Idle c) : Wrote c (c.read n).1 [] := by
  unfold C.read
  exact wrote_upd h rfl rfl rfl

theorem read_pending (c : C) (n : Nat) : (c.read n).1.tlsPending = c.tlsPending := by
  unfold C.read; rfl

theorem cmd_wrote (c : C) (n : Nat) (l : Bytes) (h : Idle c) (hp : c.tlsPending = false) :
    (Wrote c (c.cmd n l).1 [] ∨ Wrote c (c.cmd n l).1 [l ++ crlf]) ∧ (c.cmd n l).1.tlsPending = false := by
  unfold C.cmd C.closeDot
  simp only [h.1, List.nil_append]
  have h1 := send_wrote c (l ++ crlf) h hp
  have h2 := send_pending c (l ++ crlf) hp
  generalize c.send (l ++ crlf) = q at h1 h2 ⊢
  obtain ⟨c1, b⟩ := q
  cases b with
  | false => exact ⟨h1, h2⟩
  | true =>
    simp only [] at h1 h2 ⊢
    refine ⟨?_, by rw [read_pending]; exact h2⟩
    rcases h1 with h1 | h1
    · exact Or.inl (by simpa using h1.trans (read_wrote c1 n h1.1))
    · exact Or.inr (by simpa using h1.trans (read_wrote c1 n h1.1))

theorem handshake_names (c : C) : c.handshake.lmtp = c.lmtp ∧ c.handshake.localName = c.localName := by
  unfold C.handshake
  split
  · exact ⟨rfl, rfl⟩
  · split <;> exact ⟨rfl, rfl⟩

theorem send_names (c : C) (bs : Bytes) : (c.send bs).1.lmtp = c.lmtp ∧ (c.send bs).1.localName = c.localName := by
  unfold C.send
  have := handshake_names c
  generalize c.handshake = c1 at this ⊢
  simp only []
  split <;> exact this

theorem cmd_names (c : C) (n : Nat) (l : Bytes) : (c.cmd n l).1.lmtp = c.lmtp ∧ (c.cmd n l).1.localName = c.localName := by
  unfold C.cmd
  have h0 : c.closeDot.1.lmtp = c.lmtp ∧ c.closeDot.1.localName = c.localName := by
    unfold C.closeDot; split <;> exact ⟨rfl, rfl⟩
  generalize c.closeDot = p at h0 ⊢
  obtain ⟨c1, pre⟩ := p
  simp only [] at h0 ⊢
  have h1 := send_names c1 (pre ++ l ++ crlf)
  generalize c1.send (pre ++ l ++ crlf) = q at h1 ⊢
  obtain ⟨c2, b⟩ := q
  simp only [] at h1
  cases b with
  | false => exact ⟨h1.1.trans h0.1, h1.2.trans h0.2⟩
  | true =>
    have : (c2.read n).1.lmtp = c2.lmtp ∧ (c2.read n).1.localName = c2.localName := by unfold C.read; exact ⟨rfl, rfl⟩
    exact ⟨this.1.trans (h1.1.trans h0.1), this.2.trans (h1.2.trans h0.2)⟩

/-- reached from `c` with the client still idle, no handshake pending, the same names, and on the raw socket only
    whole lines out of `A` -/
structure WI (A : List Bytes) (c c' : C) : Prop where
  idle : Idle c'
  pend : c'.tlsPending = false
  lmtp : c'.lmtp = c.lmtp
  name : c'.localName = c.localName
  log : ∃ ls : List Bytes, c'.plainLog = c.plainLog ++ ls.flatten ∧ ∀ l ∈ ls, l ∈ A

theorem WI.refl {A : List Bytes} {c : C} (h : Idle c) (hp : c.tlsPending = false) : WI A c c :=
  ⟨h, hp, rfl, rfl, [], by simp, by simp⟩

theorem WI.trans {A : List Bytes} {a b c : C} (h1 : WI A a b) (h2 : WI A b c) : WI A a c := by
  obtain ⟨l1, e1, m1⟩ := h1.log
  obtain ⟨l2, e2, m2⟩ := h2.log
  refine ⟨h2.idle, h2.pend, h2.lmtp.trans h1.lmtp, h2.name.trans h1.name, l1 ++ l2, by rw [e2, e1]; simp, ?_⟩
  intro l hl
  rcases List.mem_append.1 hl with h | h
  · exact m1 l h
  · exact m2 l h

theorem wi_upd {A : List Bytes} {c c' : C} (h : Idle c) (hp : c.tlsPending = false) (h1 : c'.dot = c.dot)
    (h2 : c'.wbuf = c.wbuf) (h3 : c'.plainLog = c.plainLog) (h4 : c'.tlsPending = c.tlsPending) (h5 : c'.lmtp = c.lmtp)
    (h6 : c'.localName = c.localName) : WI A c c' :=
  ⟨⟨h1.trans h.1, h2.trans h.2⟩, h4.trans hp, h5, h6, [], by simp [h3], by simp⟩

theorem wi_read {A : List Bytes} (c : C) (n : Nat) (h : Idle c) (hp : c.tlsPending = false) : WI A c (c.read n).1 := by
  unfold C.read
  exact wi_upd h hp rfl rfl rfl rfl rfl rfl

theorem wi_cmd {A : List Bytes} (c : C) (n : Nat) (l : Bytes) (h : Idle c) (hp : c.tlsPending = false)
    (hl : l ++ crlf ∈ A) : WI A c (c.cmd n l).1 := by
  have h1 := cmd_wrote c n l h hp
  have h2 := cmd_names c n l
  rcases h1.1 with w | w
  · exact ⟨w.1, h1.2, h2.1, h2.2, [], w.2, by simp⟩
  · exact ⟨w.1, h1.2, h2.1, h2.2, [l ++ crlf], w.2, by simpa using hl⟩

theorem wi_greet {A : List Bytes} (c : C) (h : Idle c) (hp : c.tlsPending = false) : WI A c c.greet.1 := by
  unfold C.greet
  split
  · exact WI.refl h hp
  · have h0 : WI A c { c with didGreet := true } := wi_upd h hp rfl rfl rfl rfl rfl rfl
    have h1 : WI A _ _ := wi_read { c with didGreet := true } 220 h0.idle h0.pend
    simp only []
    generalize C.read { c with didGreet := true } 220 = p at h1 ⊢
    obtain ⟨c1, r⟩ := p
    cases r with
    | ok code msg => exact h0.trans h1
    | smtpErr e => exact (h0.trans h1).trans (wi_upd h1.idle h1.pend rfl rfl rfl rfl rfl rfl)
    | proto => exact (h0.trans h1).trans (wi_upd h1.idle h1.pend rfl rfl rfl rfl rfl rfl)
    | io => exact (h0.trans h1).trans (wi_upd h1.idle h1.pend rfl rfl rfl rfl rfl rfl)

/-- the lines `initStartTLS` may put on the raw socket -/
def upgradeLines (c : C) : List Bytes :=
  [(if c.lmtp then "LHLO ".b else "EHLO ".b) ++ c.localName ++ crlf, "HELO ".b ++ c.localName ++ crlf, "STARTTLS".b ++ crlf]

theorem wi_hello (c : C) (h : Idle c) (hp : c.tlsPending = false) : WI (upgradeLines c) c c.hello.1 := by
  unfold C.hello
  split
  · exact WI.refl h hp
  · have h1 : WI (upgradeLines c) c c.greet.1 := wi_greet c h hp
    generalize c.greet = p at h1 ⊢
    obtain ⟨c1, e⟩ := p
    cases e with
    | some e => exact h1
    | none =>
      simp only [] at h1 ⊢
      have h2 : WI (upgradeLines c) c1 { c1 with didHello := true } := wi_upd h1.idle h1.pend rfl rfl rfl rfl rfl rfl
      have h3 : WI (upgradeLines c) _ _ := wi_cmd { c1 with didHello := true } 250
        ((if c1.lmtp then "LHLO ".b else "EHLO ".b) ++ c1.localName) h2.idle h2.pend
        (by have e1 := h1.lmtp; have e2 := h1.name; simp [upgradeLines, e1, e2])
      generalize C.cmd { c1 with didHello := true } 250 ((if c1.lmtp then "LHLO ".b else "EHLO ".b) ++ c1.localName) = q at h3 ⊢
      obtain ⟨c2, r⟩ := q
      have h13 := (h1.trans h2).trans h3
      cases r with
      | ok code msg => exact h13.trans (wi_upd h3.idle h3.pend rfl rfl rfl rfl rfl rfl)
      | smtpErr e =>
        simp only []
        split
        · have h4 : WI (upgradeLines c) c2 { c2 with ext := [] } := wi_upd h3.idle h3.pend rfl rfl rfl rfl rfl rfl
          have h5 : WI (upgradeLines c) _ _ := wi_cmd { c2 with ext := [] } 250 ("HELO ".b ++ c2.localName) h4.idle h4.pend
            (by have e2 : c2.localName = c.localName := h13.name; simp [upgradeLines, e2])
          generalize C.cmd { c2 with ext := [] } 250 ("HELO ".b ++ c2.localName) = q2 at h5 ⊢
          obtain ⟨c3, r3⟩ := q2
          exact ((h13.trans h4).trans h5).trans (wi_upd h5.idle h5.pend rfl rfl rfl rfl rfl rfl)
        · exact h13.trans (wi_upd h3.idle h3.pend rfl rfl rfl rfl rfl rfl)
      | proto => exact h13.trans (wi_upd h3.idle h3.pend rfl rfl rfl rfl rfl rfl)
      | io => exact h13.trans (wi_upd h3.idle h3.pend rfl rfl rfl rfl rfl rfl)

/-- **everything `initStartTLS` writes in plaintext is EHLO/LHLO, HELO and STARTTLS lines** -/
theorem initStartTLS_lines (c : C) (h : Idle c) (hp : c.tlsPending = false) :
    ∃ ls : List Bytes, (c.initStartTLS).1.plainLog = c.plainLog ++ ls.flatten ∧ ∀ l ∈ ls, l ∈ upgradeLines c := by
  unfold C.initStartTLS
  have h1 := wi_hello c h hp
  generalize c.hello = p at h1 ⊢
  obtain ⟨c1, e⟩ := p
  cases e with
  | some e => exact h1.log
  | none =>
    simp only [] at h1 ⊢
    split
    · exact h1.log
    · have h2 : WI (upgradeLines c) c1 (c1.cmd 220 "STARTTLS".b).1 := wi_cmd c1 220 "STARTTLS".b h1.idle h1.pend (by simp [upgradeLines])
      generalize c1.cmd 220 "STARTTLS".b = q at h2 ⊢
      obtain ⟨c2, r⟩ := q
      cases r with
      | ok code msg => exact (h1.trans h2).log
      | smtpErr e => exact (h1.trans h2).log
      | proto => exact (h1.trans h2).log
      | io => exact (h1.trans h2).log

end SmtpV.Client
