import SmtpV.Props.C17
import SmtpV.Spec.ReplySyntax
/-!
C04, reply syntax: what the server's renderer writes is accepted by the strict RFC 5321 recogniser used as the judge, with the
same code, and the enhanced status code the recogniser reads off the line is the one that was rendered.
-/
set_option linter.unusedSimpArgs false
namespace SmtpV.Props.C04
open SmtpV SmtpV.Text SmtpV.Spec SmtpV.Reply SmtpV.ReplyRT SmtpV.Spec.ReplySyntax SmtpV.Props.C17

def chk3 (n : Nat) : Bool :=
  match natToDec n with
  | [a, b, c] => ReplySyntax.isDigit a && ReplySyntax.isDigit b && ReplySyntax.isDigit c &&
      ((a.toNat - 48) * 100 + (b.toNat - 48) * 10 + (c.toNat - 48) == n)
  | _ => false

theorem chk3_all : ∀ n : Fin 1000, 100 ≤ n.val → chk3 n.val = true := by decide +kernel

theorem digits3 (n : Nat) (h1 : 100 ≤ n) (h2 : n ≤ 999) :
    ∃ a b c : Byte, natToDec n = [a, b, c] ∧ ReplySyntax.isDigit a = true ∧ ReplySyntax.isDigit b = true ∧
      ReplySyntax.isDigit c = true ∧ (a.toNat - 48) * 100 + (b.toNat - 48) * 10 + (c.toNat - 48) = n := by
  have := chk3_all ⟨n, by omega⟩ h1
  simp only [chk3] at this
  split at this
  · rename_i a b c heq
    simp only [Bool.and_eq_true, beq_iff_eq] at this
    exact ⟨a, b, c, heq, this.1.1.1, this.1.1.2, this.1.2, this.2⟩
  · cases this

/-- a line without LF, followed by CRLF: the splitter cuts exactly there -/
theorem splitCRLF_line (l : Bytes) (hl : ∀ b ∈ l, b ≠ 10) (t cur : Bytes) (acc : List Bytes) :
    splitCRLF (l ++ 13 :: 10 :: t) cur acc = splitCRLF t [] ((cur.reverse ++ l) :: acc) := by
  induction l generalizing cur with
  | nil => simp [splitCRLF]
  | cons c l ih =>
    have hc : c ≠ 10 := hl c (by simp)
    have hrest : ∀ b ∈ l, b ≠ 10 := fun b hb => hl b (by simp [hb])
    have step : splitCRLF (c :: (l ++ 13 :: 10 :: t)) cur acc = splitCRLF (l ++ 13 :: 10 :: t) (c :: cur) acc := by
      by_cases h13 : c = 13
      · subst h13
        cases l with
        | nil => simp [splitCRLF]  -- next is 13 :: 10: wait
        | cons d l' =>
          have hd : d ≠ 10 := hl d (by simp)
          simp [splitCRLF, hd]
      · simp [splitCRLF, h13]
    simp only [List.cons_append]
    rw [step, ih hrest]
    simp

theorem enhBytes_noLF (e : Enh) (h : EnhOk e) : ∀ x ∈ enhBytes e, x ≠ 10 := by
  obtain ⟨a0, _, b0, _, c0, _⟩ := h
  have hd : ∀ n x, x ∈ natToDec n → x ≠ 10 := by
    intro n x hx
    have := List.all_eq_true.mp (natToDec_digits n) x hx
    simp only [Text.isDigit, Bool.and_eq_true, decide_eq_true_eq] at this
    intro e; subst e; simp at this
  intro x hx
  simp only [enhBytes, intToDec_nonneg _ a0, intToDec_nonneg _ b0, intToDec_nonneg _ c0, List.mem_append,
    List.mem_singleton] at hx
  rcases hx with (((h | h) | h) | h) | h
  · exact hd _ x h
  · subst h; decide
  · exact hd _ x h
  · subst h; decide
  · exact hd _ x h

/-- **C04_reply_syntax.**  Every one-line reply the server's renderer writes — any code 100..999, any enhanced code,
    any text without LF — is accepted by the strict RFC 5321 recogniser as exactly one reply, with that code, ending the
    stream at its CRLF. -/
theorem reply_syntax_single (code : Nat) (h1 : 100 ≤ code) (h2 : code ≤ 999) (enh : Enh) (msg : Bytes)
    (hm : ∀ b ∈ msg, b ≠ 10) (he : EnhOk (effEnh code enh)) :
    ReplySyntax.parse (render code enh [msg]) =
      some [{ code := code, lines := [enhBytes (effEnh code enh) ++ [32] ++ msg] }] := by
  rw [render_single code enh msg hm he]
  obtain ⟨a, b, c, hd, ha, hb, hc, hv⟩ := digits3 code h1 h2
  have hline : wireLine code (effEnh code enh) msg = a :: b :: c :: 32 :: (enhBytes (effEnh code enh) ++ [32] ++ msg) := by
    simp [wireLine, hd]
  have hnolf : ∀ x ∈ wireLine code (effEnh code enh) msg, x ≠ 10 := by
    intro x hx
    rw [hline] at hx
    simp only [List.mem_cons, List.mem_append, List.mem_singleton] at hx
    have hdig : ∀ y : Byte, ReplySyntax.isDigit y = true → y ≠ 10 := by
      intro y hy e; subst e; simp [ReplySyntax.isDigit] at hy
    rcases hx with rfl | rfl | rfl | rfl | (hx | hx) | hx
    · exact hdig _ ha
    · exact hdig _ hb
    · exact hdig _ hc
    · decide
    · exact enhBytes_noLF (effEnh code enh) he x hx
    · rcases hx with rfl | hx
      · decide
      · cases hx
    · exact hm x hx
  have hcr : crlf = [13, 10] := rfl
  have hsplit : splitCRLF (wireLine code (effEnh code enh) msg ++ crlf) [] [] = some [wireLine code (effEnh code enh) msg] := by
    rw [hcr, show wireLine code (effEnh code enh) msg ++ [13, 10] = wireLine code (effEnh code enh) msg ++ 13 :: 10 :: [] from rfl,
      splitCRLF_line _ hnolf]
    simp [splitCRLF]
  unfold ReplySyntax.parse
  rw [hsplit]
  simp only [List.mapM_cons, List.mapM_nil, hline, parseLine, ha, hb, hc, Bool.and_self, beq_self_eq_true, Bool.true_or,
    if_true, hv]
  simp [group]

theorem takeWhile_until {α} (p : α → Bool) (a : List α) (x : α) (t : List α) (ha : ∀ y ∈ a, p y = true) (hx : p x = false) :
    (a ++ x :: t).takeWhile p = a ∧ (a ++ x :: t).dropWhile p = x :: t := by
  induction a with
  | nil => simp [List.takeWhile, List.dropWhile, hx]
  | cons c a ih =>
    obtain ⟨i1, i2⟩ := ih (fun y hy => ha y (by simp [hy]))
    simp [List.takeWhile, List.dropWhile, ha c (by simp), i1, i2]

theorem takeWhile_all {α} (p : α → Bool) (a : List α) (ha : ∀ y ∈ a, p y = true) :
    a.takeWhile p = a ∧ a.dropWhile p = [] := by
  induction a with
  | nil => simp
  | cons c a ih =>
    obtain ⟨i1, i2⟩ := ih (fun y hy => ha y (by simp [hy]))
    simp [List.takeWhile, List.dropWhile, ha c (by simp), i1, i2]

/-- the three numbers the strict recogniser reads off a rendered line are the enhanced code that was rendered -/
theorem enhOf_render (e : Enh) (he : EnhOk e) (msg : Bytes) :
    enhOf (enhBytes e ++ [32] ++ msg) = some (e.a.toNat, e.b.toNat, e.c.toNat) := by
  obtain ⟨a0, _, b0, _, c0, _⟩ := he
  have hnosp := enhBytes_noSP e ⟨a0, ‹_›, b0, ‹_›, c0, ‹_›⟩
  have hshape : enhBytes e ++ [32] ++ msg = enhBytes e ++ 32 :: msg := by simp
  have htok := takeWhile_until (fun b : Byte => b != 32) (enhBytes e) 32 msg
    (fun y hy => by simpa using hnosp y hy) (by decide)
  have hA := natToDec_digits e.a.toNat
  have hB := natToDec_digits e.b.toNat
  have hC := natToDec_digits e.c.toNat
  have hnd : ∀ n, ∀ y ∈ natToDec n, (y != 46) = true := fun n y hy => by simpa using (noDot_natToDec n y hy).1
  have heb : enhBytes e = natToDec e.a.toNat ++ 46 :: (natToDec e.b.toNat ++ 46 :: natToDec e.c.toNat) := by
    simp [enhBytes, intToDec_nonneg _ a0, intToDec_nonneg _ b0, intToDec_nonneg _ c0]
  have h1 := takeWhile_until (fun b : Byte => b != 46) (natToDec e.a.toNat) 46 (natToDec e.b.toNat ++ 46 :: natToDec e.c.toNat)
    (hnd _) (by decide)
  have h2 := takeWhile_until (fun b : Byte => b != 46) (natToDec e.b.toNat) 46 (natToDec e.c.toNat) (hnd _) (by decide)
  have h3 := takeWhile_all (fun b : Byte => b != 46) (natToDec e.c.toNat) (hnd _)
  have hne : ∀ n, (natToDec n).isEmpty = false := by
    intro n; obtain ⟨d, t, hdt, _⟩ := natToDec_head n; rw [hdt]; rfl
  have hlen : ((enhBytes e).length == (enhBytes e ++ 32 :: msg).length) = false := by
    simp
  have hdig : ∀ n, (natToDec n).all ReplySyntax.isDigit = true := fun n => natToDec_digits n
  unfold enhOf
  simp only [hshape, htok.1, hlen, Bool.false_eq_true, if_false]
  simp only [heb, h1.1, h1.2, List.drop_succ_cons, List.drop_zero, h2.1, h2.2, hne, hdig, Bool.not_true, Bool.or_self,
    Bool.false_eq_true, if_false, natToDec_value]

end SmtpV.Props.C04
