import SmtpV.Proofs.Framing
import SmtpV.Proofs.DataGeneral
/-!
The DATA reader on the wire model (C02, resumption): `Wire.dataRead` — the flat state machine applied to what
bufio holds, refilled through the line limiter from the segmented source — walks the *octet stream*
`pending w` exactly like the greedy run of the flat reader: whatever the segmentation, the budget and the
read sizes, after any number of reads the greedy run of the whole stream is "what was handed out so far,
then the greedy run of what is still pending".  The only way octets leave the stream without passing through
the state machine is the line limiter tripping, which is latched (`tripped`) and ends the connection.
-/
namespace SmtpV.DataReader
/-- octets the state machine is withholding (the CR after a line-initial dot) -/
def held : St → Nat
  | .dotcr => 1
  | _ => 0

theorem it_emit_held (s : St) (c e : Byte) (s' : St) (b : Bool) (hs : s ≠ .dotcr) (h : it s c = (s', some e, b)) :
    held s' = 0 := by
  cases s <;> simp [it] at h hs <;> (repeat' split at h) <;> simp_all [held] <;> (obtain ⟨rfl, _⟩ := h; rfl)

theorem it_none_held (s : St) (c : Byte) (s' : St) (b : Bool) (_h : it s c = (s', none, b)) :
    held s' ≤ 1 := by
  cases s' <;> simp [held]

theorem readLoop_conserve (s : St) (inp : Bytes) (k : Nat) :
    (readLoop s inp k).2.1.length + held (readLoop s inp k).1 + (readLoop s inp k).2.2.length ≤ inp.length + held s := by
  fun_induction readLoop s inp k with
  | case1 s inp => simp; omega
  | case2 inp k hk => simp; omega
  | case3 s k hk hs => simp
  | case4 inp k => simp [held]; omega
  | case5 c inp h => simp [held]; omega
  | case6 c inp h k' s' r ih =>
    have : held s' = 0 := by
      by_cases hc : c = CR
      · subst hc; simp [it, s', held]
      · simp [it, h, hc, s', held]
    have h1 : held St.dotcr = 1 := rfl
    simp only [List.length_cons, r] at ih ⊢
    omega
  | case7 s c inp k hs1 hs2 s' e b hit r ih =>
    have := it_emit_held s c e s' b (fun h => hs2 h) hit
    simp only [List.length_cons] at ih ⊢
    simp only [r]
    omega
  | case8 s c inp k hs1 hs2 s' b hit r ih =>
    have := it_none_held s c s' b hit
    simp only [List.length_cons] at ih ⊢
    simp only [r]
    omega

end SmtpV.DataReader

namespace SmtpV.Server
open SmtpV SmtpV.Wire SmtpV.DataReader

/-- the greedy run from `(s, p)` is: hand out `out`, then the greedy run from `(s', p')` -/
def RunD (s : St) (p : Bytes) (s' : St) (p' out : Bytes) : Prop :=
  run s p = ((run s' p').1, out ++ (run s' p').2.1, (run s' p').2.2)

theorem RunD.rfl' (s : St) (p : Bytes) : RunD s p s p [] := by simp [RunD]

theorem RunD.trans {s s1 s2 : St} {p p1 p2 o1 o2 : Bytes}
    (h1 : RunD s p s1 p1 o1) (h2 : RunD s1 p1 s2 p2 o2) : RunD s p s2 p2 (o1 ++ o2) := by
  unfold RunD at *; rw [h1, h2]; simp

/-- `readLoop` on a buffered prefix of the stream: the rest of the stream is untouched -/
theorem readLoop_append (s : St) (inp : Bytes) (k : Nat) (t : Bytes) :
    RunD s (inp ++ t) (readLoop s inp k).1 ((readLoop s inp k).2.2 ++ t) (readLoop s inp k).2.1 := by
  unfold RunD
  fun_induction readLoop s inp k with
  | case1 s inp => simp
  | case2 inp k hk => simp
  | case3 s k hk hs => simp
  | case4 inp k => simp [run, step]
  | case5 c inp h =>
    simp only [List.nil_append, List.cons_append]
    rw [run_cons .dotcr (by decide), run_cons .cr (by decide)]
    by_cases hc : c = CR
    · subst hc; simp [step]
    · simp [step, h, hc]
  | case6 c inp h k' s' r ih =>
    rw [List.cons_append, run_cons .dotcr (by decide)]
    have e : (step .dotcr c).1 = s' := by
      by_cases hc : c = CR
      · subst hc; simp [step, it, s']
      · simp [step, it, h, hc, s']
    have e2 : (step .dotcr c).2 = [CR, c] := by
      by_cases hc : c = CR
      · subst hc; simp [step]
      · simp [step, h, hc]
    rw [e, e2, ih]
    simp [r]
  | case7 s c inp k hs1 hs2 s' e b hit r ih =>
    have hse : s ≠ .eof := fun h => hs1 h
    have hsd : s ≠ .dotcr := fun h => hs2 h
    obtain ⟨h1, h2⟩ := it_step_emit s c hsd hse
    rw [hit] at h1 h2
    simp only at h1 h2
    rw [List.cons_append, run_cons s hse, ← h1, h2, ih]
    simp [r]
  | case8 s c inp k hs1 hs2 s' b hit r ih =>
    have hse : s ≠ .eof := fun h => hs1 h
    have hsd : s ≠ .dotcr := fun h => hs2 h
    obtain ⟨h1, h2⟩ := it_step_emit s c hsd hse
    rw [hit] at h1 h2
    simp only at h1 h2
    rw [List.cons_append, run_cons s hse, ← h1, h2, ih]
    simp [r]

/-! ### the source side: segments, the limiter, `fill` -/

/-- what the segments still to come weigh: every octet, and one more per segment -/
def sm (segs : List Bytes) : Nat := (segs.map (fun s => s.length + 1)).sum

def mu (w : W) : Nat := sm w.segs + w.buf.length

/-- well-formed wire: the network hands over non-empty segments, and an error is latched only once the
    source has failed (nothing more to come) or the limiter has tripped -/
structure WF (w : W) : Prop where
  ne : ∀ s ∈ w.segs, s ≠ []
  err : w.err.isSome = true → w.segs = [] ∨ w.tripped = true

theorem connRead_facts (w : W) (space : Nat) :
    (connRead w space).1.buf = w.buf ∧ (connRead w space).1.limit = w.limit ∧ (connRead w space).1.err = w.err ∧
    (connRead w space).1.cur = w.cur ∧ (connRead w space).1.tripped = w.tripped ∧
    ((∀ s ∈ w.segs, s ≠ []) → ∀ s ∈ (connRead w space).1.segs, s ≠ []) ∧
    match (connRead w space).2 with
    | .ok bs => bs ++ (connRead w space).1.segs.flatten = w.segs.flatten ∧
        sm (connRead w space).1.segs + bs.length ≤ sm w.segs ∧
        ((∀ s ∈ w.segs, s ≠ []) → 0 < space → bs ≠ [])
    | .error _ => (connRead w space).1.segs = w.segs ∧ w.segs = [] := by
  unfold connRead
  cases hs : w.segs with
  | nil => simp [hs]
  | cons s rest =>
    simp only []
    split
    · rename_i hle
      refine ⟨rfl, rfl, rfl, rfl, rfl, ?_, ?_⟩
      · intro h x hx; exact h x (by simp [hx])
      · refine ⟨by simp, by simp [sm]; omega, ?_⟩
        intro h _; exact h s (by simp)
    · rename_i hgt
      refine ⟨rfl, rfl, rfl, rfl, rfl, ?_, ?_⟩
      · intro h x hx
        rcases List.mem_cons.mp hx with rfl | hx
        · intro h0
          have := congrArg List.length h0
          simp at this; omega
        · exact h x (by simp [hx])
      · simp only [List.flatten_cons]
        refine ⟨by rw [← List.append_assoc, List.take_append_drop], ?_, ?_⟩
        · simp [sm, List.length_take]; omega
        · intro _ hsp h0
          have hlen0 := congrArg List.length h0
          rw [List.length_take, List.length_nil] at hlen0
          omega

theorem limRead_facts (w : W) (space : Nat) :
    (limRead w space).1.buf = w.buf ∧ (limRead w space).1.limit = w.limit ∧ (limRead w space).1.err = w.err ∧
    (w.tripped = true → (limRead w space).1.tripped = true) ∧
    ((∀ s ∈ w.segs, s ≠ []) → ∀ s ∈ (limRead w space).1.segs, s ≠ []) ∧
    sm (limRead w space).1.segs ≤ sm w.segs ∧
    match (limRead w space).2 with
    | .ok bs => (limRead w space).1.tripped = w.tripped ∧ bs ++ (limRead w space).1.segs.flatten = w.segs.flatten ∧
        sm (limRead w space).1.segs + bs.length ≤ sm w.segs ∧
        ((∀ s ∈ w.segs, s ≠ []) → 0 < space → bs ≠ [])
    | .error _ => (limRead w space).1.tripped = true ∨ ((limRead w space).1.segs = [] ∧ (limRead w space).1.tripped = w.tripped) := by
  have hc := connRead_facts w space
  unfold limRead
  split
  · exact ⟨rfl, rfl, rfl, fun _ => rfl, fun h => h, Nat.le_refl _, Or.inl rfl⟩
  · rcases hcr : connRead w space with ⟨w1, r⟩
    rw [hcr] at hc
    simp only [] at hc
    obtain ⟨h1, h2, h3, h4, h5, h6, h7⟩ := hc
    cases r with
    | error e =>
      simp only [] at h7 ⊢
      refine ⟨h1, h2, h3, fun h => by rw [h5]; exact h, h6, by rw [h7.1]; exact Nat.le_refl _, Or.inr ⟨by rw [h7.1]; exact h7.2, h5⟩⟩
    | ok bs =>
      simp only [] at h7 ⊢
      obtain ⟨h7a, h7b, h7c⟩ := h7
      split
      · exact ⟨h1, h2, h3, fun h => by rw [h5]; exact h, h6, by first | omega | (simp only []; omega), h5, h7a, h7b, h7c⟩
      · rcases hcl : countLoop w1.limit w1.cur bs with ⟨cur', trip⟩
        simp only []
        cases trip with
        | true =>
          simp only [if_true]
          exact ⟨h1, h2, h3, by simp, h6, by first | omega | (simp only []; omega), by simp⟩
        | false =>
          simp only [Bool.false_eq_true, if_false]
          exact ⟨h1, h2, h3, fun h => by rw [h5]; exact h, h6, by first | omega | (simp only []; omega), h5, h7a, h7b, h7c⟩

/-- `fill`: one source read appended to the buffer, or an error latched -/
theorem fill_facts (w : W) (hsp : w.buf.length < bufSize) :
    (w.tripped = true → (fill w).tripped = true) ∧ (fill w).limit = w.limit ∧
    ((∀ s ∈ w.segs, s ≠ []) → ∀ s ∈ (fill w).segs, s ≠ []) ∧
    mu (fill w) ≤ mu w ∧
    (WF w → w.err = none → WF (fill w)) ∧
    ((fill w).tripped = false → w.err = none →
      pending (fill w) = pending w ∧
      ∃ bs, (fill w).buf = w.buf ++ bs ∧ sm (fill w).segs + bs.length ≤ sm w.segs ∧
        ((fill w).err = none → (∀ s ∈ w.segs, s ≠ []) → bs ≠ []) ∧
        ((fill w).err.isSome = true → (fill w).segs = [] ∧ bs = [])) := by
  have hl := limRead_facts w (bufSize - w.buf.length)
  unfold fill
  rcases hlr : limRead w (bufSize - w.buf.length) with ⟨w1, r⟩
  rw [hlr] at hl
  simp only [] at hl
  obtain ⟨h1, h2, h3, h4, h5, h6, h7⟩ := hl
  cases r with
  | error e =>
    simp only [] at h7 ⊢
    refine ⟨h4, h2, h5, by simp only [mu, h1]; omega, ?_, ?_⟩
    · intro hwf _
      refine ⟨h5 hwf.ne, fun _ => ?_⟩
      rcases h7 with h7 | h7
      · exact Or.inr h7
      · exact Or.inl h7.1
    · intro ht he
      rcases h7 with h7 | h7
      · rw [h7] at ht; cases ht
      · have hsegs : w.segs.flatten = [] ∧ sm w1.segs ≤ sm w.segs := ⟨?_, h6⟩
        · refine ⟨?_, [], by simp [h1], by simpa using h6, by simp, fun _ => ⟨h7.1, rfl⟩⟩
          simp only [pending, h1, h7.1, hsegs.1, List.flatten_nil]
        · -- an error that is not a trip comes from a source with nothing left
          have hc := connRead_facts w (bufSize - w.buf.length)
          unfold limRead at hlr
          split at hlr
          · cases hlr; simp at ht
          · rcases hcr : connRead w (bufSize - w.buf.length) with ⟨w2, r2⟩
            rw [hcr] at hlr hc
            simp only [] at hlr hc
            cases r2 with
            | error e2 => simp only [] at hc; simp [hc.2.2.2.2.2.2.2]
            | ok bs =>
              simp only [] at hlr
              split at hlr
              · cases hlr
              · rcases hcl : countLoop w2.limit w2.cur bs with ⟨cur', trip⟩
                rw [hcl] at hlr
                cases trip with
                | true => simp only [if_true] at hlr; cases hlr; simp at ht
                | false => simp only [Bool.false_eq_true, if_false] at hlr; cases hlr
  | ok bs =>
    simp only [] at h7 ⊢
    obtain ⟨h7t, h7a, h7b, h7c⟩ := h7
    refine ⟨h4, h2, h5, by simp only [mu, h1, List.length_append]; omega, ?_, ?_⟩
    · intro hwf he
      exact ⟨h5 hwf.ne, fun h => by rw [h3, he] at h; cases h⟩
    · intro _ he
      refine ⟨?_, bs, by rw [h1], h7b, fun _ hne => h7c hne (by omega), fun h => by rw [h3, he] at h; cases h⟩
      simp only [pending, h1, List.append_assoc, h7a]

theorem WF_noerr {w : W} (h : WF w) : WF { w with err := none } := ⟨h.ne, by simp⟩

/-- `Peek(3)` only moves octets from the segments into the buffer -/
theorem peek3_facts : ∀ (fuel : Nat) (w : W), WF w →
    WF (peek3 fuel w).1 ∧ (w.tripped = true → (peek3 fuel w).1.tripped = true) ∧ mu (peek3 fuel w).1 ≤ mu w ∧
    (peek3 fuel w).2 = (peek3 fuel w).1.buf.take 3 ∧
    ((peek3 fuel w).1.tripped = false → pending (peek3 fuel w).1 = pending w) := by
  intro fuel
  induction fuel with
  | zero => intro w hwf; exact ⟨hwf, id, Nat.le_refl _, rfl, fun _ => rfl⟩
  | succ fuel ih =>
    intro w hwf
    unfold peek3
    split
    · exact ⟨hwf, id, Nat.le_refl _, rfl, fun _ => rfl⟩
    · rename_i hlt
      cases he : w.err with
      | some e =>
        simp only []
        refine ⟨WF_noerr hwf, id, Nat.le_refl _, ?_, fun _ => rfl⟩
        rw [List.take_of_length_le (by omega)]
      | none =>
        simp only []
        have hsp : w.buf.length < bufSize := by simp only [bufSize]; omega
        obtain ⟨f1, _, _, f4, f5, f6⟩ := fill_facts w hsp
        obtain ⟨i1, i2, i3, i4, i5⟩ := ih (fill w) (f5 hwf he)
        refine ⟨i1, fun h => i2 (f1 h), Nat.le_trans i3 f4, i4, fun h => ?_⟩
        have hft : (fill w).tripped = false := by
          cases hb : (fill w).tripped with
          | false => rfl
          | true => rw [i2 hb] at h; cases h
        rw [i5 h, (f6 hft he).1]

/-- what one `dataReader.Read` on the wire guarantees -/
structure ReadSpec (fuel : Nat) (r : DR) (w : W) (k : Nat) (acc : Bytes) (x : DR × W × Bytes × Res × Option RErr) : Prop where
  wf : WF x.2.1
  trip : w.tripped = true → x.2.1.tripped = true
  run : x.2.1.tripped = false → ∃ out, x.2.2.1 = acc ++ out ∧ RunD r.state (pending w) x.1.state (pending x.2.1) out
  eof : x.2.2.2.1 = .eof → x.1.state = .eof
  dry : x.2.1.tripped = false → x.2.2.2.1 = .ueof → sm w.segs < fuel → pending x.2.1 = []
  cons : mu x.2.1 + x.2.2.1.length + held x.1.state ≤ mu w + acc.length + held r.state
  full : r.limited = false → x.2.2.2.1 = .more → x.2.2.1.length = acc.length + k
  notLarge : r.limited = false → x.2.2.2.1 ≠ .tooLarge

theorem dataRead_spec : ∀ (fuel : Nat) (r : DR) (w : W) (k : Nat) (acc : Bytes), WF w →
    ReadSpec fuel r w k acc (dataRead fuel r w k acc) := by
  intro fuel
  induction fuel with
  | zero =>
    intro r w k acc hwf
    simp only [dataRead]
    exact ⟨hwf, id, fun _ => ⟨[], by simp, RunD.rfl' _ _⟩, by simp, fun _ _ h => absurd h (Nat.not_lt_zero _),
      Nat.le_refl _, by simp, fun _ h => by cases h⟩
  | succ fuel ih =>
    intro r w k acc hwf
    simp only [dataRead]
    by_cases h0 : (r.limited && r.n == 0 && r.state != .eof) = true
    · simp only [h0, if_true]
      have hp := peek3_facts (fuelOf w) w hwf
      rcases hpk : peek3 (fuelOf w) w with ⟨w1, p⟩
      rw [hpk] at hp
      simp only [] at hp ⊢
      obtain ⟨p1, p2, p3, p4, p5⟩ := hp
      have hlim : r.limited = true := by
        simp only [Bool.and_eq_true] at h0; exact h0.1.1
      by_cases hm : (r.state == St.bol && p == DataReader.marker) = true
      · simp only [hm, if_true]
        simp only [Bool.and_eq_true, beq_iff_eq] at hm
        have hbuf : w1.buf = Spec.marker ++ w1.buf.drop 3 := take3_marker w1.buf (by rw [← p4, hm.2]; simp)
        refine ⟨?_, ?_, ?_, ?_, ?_, ?_, ?_, fun h => by rw [hlim] at h; cases h⟩
        · exact ⟨p1.ne, p1.err⟩
        · exact p2
        · intro ht
          refine ⟨[], by simp, ?_⟩
          have hpe := p5 ht
          unfold RunD
          rw [hm.1, ← hpe]
          show run St.bol (w1.buf ++ w1.segs.flatten) = _
          conv => lhs; rw [hbuf, List.append_assoc, run_marker]
          simp [pending]
        · intro _; rfl
        · intro _ h; cases h
        · show sm w1.segs + (w1.buf.drop 3).length + acc.length + held St.eof ≤ mu w + acc.length + held r.state
          simp only [mu, held, List.length_drop] at p3 ⊢
          omega
        · intro h; rw [hlim] at h; cases h
      · simp only [hm, Bool.false_eq_true, if_false]
        refine ⟨?_, ?_, ?_, ?_, ?_, ?_, ?_, fun h => by rw [hlim] at h; cases h⟩
        · exact p1
        · exact p2
        · intro ht
          refine ⟨[], by simp, ?_⟩
          show RunD r.state (pending w) r.state (pending w1) []
          rw [p5 ht]; exact RunD.rfl' _ _
        · intro h; cases h
        · intro _ h; cases h
        · show mu w1 + acc.length + held r.state ≤ mu w + acc.length + held r.state
          omega
        · intro _ h; cases h
    · simp only [h0, Bool.false_eq_true, if_false]
      generalize hk' : (if r.limited = true then min k r.n else k) = k'
      have hA := readLoop_append r.state w.buf k' w.segs.flatten
      have hC := readLoop_conserve r.state w.buf k'
      have hL := readLoop_len r.state w.buf k'
      have hS := readLoop_stop r.state w.buf k'
      rcases hrl : readLoop r.state w.buf k' with ⟨s', out, rest⟩
      rw [hrl] at hA hC hL hS
      simp only [] at hA hC hL hS ⊢
      generalize (if r.limited = true then r.n - out.length else r.n) = n'
      have hpw : ∀ (e : Option RErr), pending ({ w with buf := rest, err := e } : W) = rest ++ w.segs.flatten := fun _ => rfl
      have hmw : ∀ (e : Option RErr), mu ({ w with buf := rest, err := e } : W) = sm w.segs + rest.length := fun _ => rfl
      by_cases hse : (s' == St.eof) = true
      · simp only [hse, if_true]
        refine ⟨⟨hwf.ne, hwf.err⟩, id, fun _ => ⟨out, rfl, hA⟩, fun _ => (by simpa using hse), ?_, ?_, ?_, fun _ h => by cases h⟩
        · intro _ h; cases h
        · show sm w.segs + rest.length + (acc ++ out).length + held s' ≤ mu w + acc.length + held r.state
          simp only [mu, List.length_append]; omega
        · intro _ h; cases h
      · simp only [hse, Bool.false_eq_true, if_false]
        have hse' : s' ≠ St.eof := by simpa using hse
        by_cases hlt : out.length < k'
        · simp only [hlt, if_true]
          have hrest : rest = [] := by
            rcases hS hlt with h | h
            · exact absurd h hse'
            · exact h
          cases he : w.err with
          | some e =>
            simp only []
            refine ⟨⟨hwf.ne, by simp⟩, id, fun _ => ⟨out, rfl, hA⟩, fun h => (by cases h), ?_, ?_, fun _ h => (by cases h), fun _ h => by cases h⟩
            · intro ht _ _
              have hsegs : w.segs = [] := by
                rcases hwf.err (by rw [he]; rfl) with h | h
                · exact h
                · rw [h] at ht; cases ht
              show rest ++ w.segs.flatten = []
              rw [hrest, hsegs]; rfl
            · show sm w.segs + rest.length + (acc ++ out).length + held s' ≤ mu w + acc.length + held r.state
              simp only [mu, List.length_append]; omega
          | none =>
            simp only []
            have hw' : WF ({ w with buf := rest, err := none } : W) := ⟨hwf.ne, by simp⟩
            have hF := fill_facts ({ w with buf := rest, err := none } : W) (by simp [hrest, bufSize])
            generalize hw2 : fill ({ w with buf := rest, err := none } : W) = w2 at hF ⊢
            obtain ⟨f1, _, f3, f4, f5, f6⟩ := hF
            have hwf2 : WF w2 := f5 hw' rfl
            rw [hmw] at f4
            have hrun2 : w2.tripped = false → RunD r.state (pending w) s' (pending w2) out := by
              intro ht
              rw [(f6 ht rfl).1, hpw]; exact hA
            have hcons2 : mu w2 + (acc ++ out).length + held s' ≤ mu w + acc.length + held r.state := by
              simp only [mu, List.length_append] at f4 ⊢; omega
            by_cases hbe : w2.buf.isEmpty = true
            · simp only [hbe, if_true]
              have hb2 : w2.buf = [] := List.isEmpty_iff.mp hbe
              cases he2 : w2.err with
              | some e =>
                simp only []
                refine ⟨⟨hwf2.ne, by simp⟩, f1, fun ht => ⟨out, rfl, hrun2 ht⟩, fun h => (by cases h), ?_, ?_, fun _ h => (by cases h), fun _ h => by cases h⟩
                · intro ht _ _
                  obtain ⟨_, bs, _, _, _, g4⟩ := f6 ht rfl
                  show w2.buf ++ w2.segs.flatten = []
                  rw [hb2, (g4 (by rw [he2]; rfl)).1]; rfl
                · exact hcons2
              | none =>
                simp only []
                refine ⟨hwf2, f1, fun ht => ⟨out, rfl, hrun2 ht⟩, fun h => (by cases h), ?_, hcons2, fun _ h => (by cases h), fun _ h => by cases h⟩
                intro ht _ _
                exfalso
                obtain ⟨_, bs, g1, _, g3, _⟩ := f6 ht rfl
                have hbs : bs ≠ [] := g3 he2 hwf.ne
                apply hbs
                have : w2.buf = rest ++ bs := g1
                rw [hb2, hrest] at this
                simpa using this.symm
            · simp only [hbe, Bool.false_eq_true, if_false]
              have hI := ih { state := s', n := n' } w2 (k' - out.length) (acc ++ out) hwf2
              rcases hrec : dataRead fuel { state := s', n := n' } w2 (k' - out.length) (acc ++ out) with ⟨r2, w3, acc2, res, e⟩
              rw [hrec] at hI
              simp only []
              obtain ⟨i1, i2, i3, i4, i5, i6, i7, i8⟩ := hI
              simp only [] at i1 i2 i3 i4 i5 i6 i7 i8
              have ht2 : w3.tripped = false → w2.tripped = false := by
                intro h
                cases hb : w2.tripped with
                | false => rfl
                | true => rw [i2 hb] at h; cases h
              refine ⟨i1, fun h => i2 (f1 h), ?_, i4, ?_, ?_, ?_, fun _ => i8 trivial⟩
              · intro ht
                obtain ⟨out2, ha, hr⟩ := i3 ht
                exact ⟨out ++ out2, by rw [ha, List.append_assoc], (hrun2 (ht2 ht)).trans hr⟩
              · intro ht hu hfu
                apply i5 ht hu
                obtain ⟨_, bs, g1, g2, _, _⟩ := f6 (ht2 ht) rfl
                have hbs : bs ≠ [] := by
                  intro hb; apply hbe
                  have : w2.buf = rest ++ bs := g1
                  rw [this, hrest, hb]; rfl
                have hpos : 0 < bs.length := List.length_pos_iff.mpr hbs
                have g2' : sm w2.segs + bs.length ≤ sm w.segs := g2
                have hfu' : sm w.segs < fuel + 1 := hfu
                omega
              · have i6' : mu w3 + acc2.length + held r2.state ≤ mu w2 + (acc ++ out).length + held s' := i6
                show mu w3 + acc2.length + held r2.state ≤ mu w + acc.length + held r.state
                omega
              · intro hl hm
                have h7 : acc2.length = (acc ++ out).length + (k' - out.length) := i7 trivial hm
                rw [hl] at hk'
                simp only [Bool.false_eq_true, if_false] at hk'
                show acc2.length = acc.length + k
                rw [h7, List.length_append, hk']; omega
        · simp only [hlt, if_false]
          have hout : out.length = k' := by omega
          refine ⟨⟨hwf.ne, hwf.err⟩, id, fun _ => ⟨out, rfl, hA⟩, fun h => (by cases h), fun _ h => (by cases h), ?_, ?_, fun _ h => by cases h⟩
          · show sm w.segs + rest.length + (acc ++ out).length + held s' ≤ mu w + acc.length + held r.state
            simp only [mu, List.length_append]; omega
          · intro hl _
            show (acc ++ out).length = acc.length + k
            rw [hl] at hk'
            simp only [Bool.false_eq_true, if_false] at hk'
            rw [List.length_append, hout, hk']

theorem fuelOf_gt (w : W) : sm w.segs < fuelOf w := by
  simp only [fuelOf, sm, Nat.div_one]; omega

theorem fuelOf_eq (w : W) : fuelOf w = mu w + 8 := by
  simp only [fuelOf, mu, sm, Nat.div_one]

theorem not_tripped_of {w w' : W} (h : w.tripped = true → w'.tripped = true) (ht : w'.tripped = false) :
    w.tripped = false := by
  cases hb : w.tripped with
  | false => rfl
  | true => rw [h hb] at ht; cases ht

/-- the backend's reads, whatever it asks for: the stream is walked by the state machine, nothing else -/
theorem backendRead_spec : ∀ (fuel : Nat) (r : DR) (w : W) (want : Option Nat) (rsz : Nat) (acc : Bytes), WF w →
    WF (backendRead fuel r w want rsz acc).2.1 ∧
    (w.tripped = true → (backendRead fuel r w want rsz acc).2.1.tripped = true) ∧
    ((backendRead fuel r w want rsz acc).2.1.tripped = false →
      ∃ out, (backendRead fuel r w want rsz acc).2.2.1 = acc ++ out ∧
        RunD r.state (pending w) (backendRead fuel r w want rsz acc).1.state (pending (backendRead fuel r w want rsz acc).2.1) out) := by
  intro fuel
  induction fuel with
  | zero =>
    intro r w want rsz acc hwf
    simp only [backendRead]
    exact ⟨hwf, id, fun _ => ⟨[], by simp, RunD.rfl' _ _⟩⟩
  | succ fuel ih =>
    intro r w want rsz acc hwf
    simp only [backendRead]
    generalize nextReadSize want rsz acc.length = k
    split
    · exact ⟨hwf, id, fun _ => ⟨[], by simp, RunD.rfl' _ _⟩⟩
    · have hd := dataRead_spec (fuelOf w) r w k [] hwf
      rcases hdr : dataRead (fuelOf w) r w k [] with ⟨r', w', out, res, e⟩
      rw [hdr] at hd
      obtain ⟨d1, d2, d3, _, _, _, _, _⟩ := hd
      simp only [] at d1 d2 d3 ⊢
      cases res with
      | more =>
        simp only []
        obtain ⟨i1, i2, i3⟩ := ih r' w' want rsz (acc ++ out) d1
        refine ⟨i1, fun h => i2 (d2 h), fun ht => ?_⟩
        obtain ⟨out2, ha, hr⟩ := i3 ht
        obtain ⟨o1, ho1, hr1⟩ := d3 (not_tripped_of i2 ht)
        simp only [List.nil_append] at ho1
        subst ho1
        exact ⟨out ++ out2, by rw [ha, List.append_assoc], hr1.trans hr⟩
      | eof | ueof | tooLarge =>
        simp only []
        refine ⟨d1, d2, fun ht => ?_⟩
        obtain ⟨o1, ho1, hr1⟩ := d3 ht
        simp only [List.nil_append] at ho1
        subst ho1
        exact ⟨out, rfl, hr1⟩

/-- the post-delivery drain: unless the limiter trips, it stops only at the end marker or on a stream with
    nothing left -/
theorem drain_spec : ∀ (fuel : Nat) (r : DR) (w : W), WF w → mu w + held r.state < fuel →
    WF (drain fuel r w) ∧ (w.tripped = true → (drain fuel r w).tripped = true) ∧
    ((drain fuel r w).tripped = false →
      pending (drain fuel r w) = [] ∨ ∃ out, RunD r.state (pending w) .eof (pending (drain fuel r w)) out) := by
  intro fuel
  induction fuel with
  | zero => intro r w _ h; exact absurd h (Nat.not_lt_zero _)
  | succ fuel ih =>
    intro r w hwf hfu
    simp only [drain]
    have hd := dataRead_spec (fuelOf w) { r with limited := false } w 8192 [] hwf
    rcases hdr : dataRead (fuelOf w) { r with limited := false } w 8192 [] with ⟨r', w', out, res, e⟩
    rw [hdr] at hd
    obtain ⟨d1, d2, d3, d4, d5, d6, d7, d8⟩ := hd
    simp only [] at d1 d2 d3 d4 d5 d6 d7 d8 ⊢
    cases res with
    | more =>
      simp only []
      have hlen : out.length = 8192 := by simpa using d7 trivial rfl
      have hd6 : mu w' + out.length + held r'.state ≤ mu w + 0 + held r.state := d6
      obtain ⟨i1, i2, i3⟩ := ih r' w' d1 (by omega)
      refine ⟨i1, fun h => i2 (d2 h), fun ht => ?_⟩
      obtain ⟨o1, _, hr1⟩ := d3 (not_tripped_of i2 ht)
      rcases i3 ht with h | ⟨o2, hr2⟩
      · exact Or.inl h
      · exact Or.inr ⟨o1 ++ o2, hr1.trans hr2⟩
    | eof =>
      simp only []
      refine ⟨d1, d2, fun ht => Or.inr ?_⟩
      obtain ⟨o1, _, hr1⟩ := d3 ht
      rw [d4 rfl] at hr1
      exact ⟨o1, hr1⟩
    | ueof =>
      simp only []
      exact ⟨d1, d2, fun ht => Or.inl (d5 ht rfl (fuelOf_gt w))⟩
    | tooLarge => exact absurd rfl (d8 trivial)

end SmtpV.Server
