import SmtpV.Proofs.WireInv
/-!
C07 for chunked transfers on the server model: the reader of a `Data` call fed by BDAT chunks reports end-of-file only
when the LAST chunk has been copied completely; abandoning the transfer (RSET, QUIT, a new greeting, STARTTLS, loss of
the connection — everything that goes through `resetConn` / `closeConn`) ends it with `ErrDataReset`, never with EOF.
-/
namespace SmtpV.Server
open SmtpV SmtpV.Wire SmtpV.Spec

/-- delivery `k` is recorded as having seen a clean end of file -/
def eofAt (s : S) (k : Nat) : Prop := ∃ d, s.drecs[k]? = some d ∧ d.rdEnd = .eof

/-- `s'` reports no end-of-file that `s` did not already report -/
def NoNewEof (s s' : S) : Prop := ∀ k, eofAt s' k → eofAt s k

theorem NoNewEof.rfl' (s : S) : NoNewEof s s := fun _ h => h
theorem NoNewEof.trans {a b c : S} (h1 : NoNewEof a b) (h2 : NoNewEof b c) : NoNewEof a c := fun k h => h1 k (h2 k h)
theorem NoNewEof.of_drecs {s s' : S} (h : s'.drecs = s.drecs) : NoNewEof s s' := by
  intro k ⟨d, hd, he⟩; exact ⟨d, by rw [← h]; exact hd, he⟩

theorem setDrec_get (s : S) (k j : Nat) (f : DRec → DRec) :
    (setDrec s k f).drecs[j]? = if j = k then (s.drecs[j]?).map f else s.drecs[j]? := by
  simp only [setDrec, List.getElem?_mapIdx]
  cases hj : s.drecs[j]? with
  | none => simp
  | some d =>
    by_cases h : j = k
    · simp [h]
    · have : (j == k) = false := by simpa using h
      simp [h, this]

theorem nne_setDrec (s : S) (k : Nat) (f : DRec → DRec) (hf : ∀ d, (f d).rdEnd = .eof → d.rdEnd = .eof) :
    NoNewEof s (setDrec s k f) := by
  intro j ⟨d, hd, he⟩
  rw [setDrec_get] at hd
  split at hd
  · cases hs : s.drecs[j]? with
    | none => rw [hs] at hd; cases hd
    | some d0 =>
      rw [hs] at hd
      simp only [Option.map_some, Option.some.injEq] at hd
      subst hd
      exact ⟨d0, hs, hf d0 he⟩
  · exact ⟨d, hd, he⟩

theorem nne_emit (s : S) (e : Ev) : NoNewEof s (emit s e) := NoNewEof.of_drecs rfl
theorem nne_write (s : S) (bs : Bytes) : NoNewEof s (write s bs) := by
  unfold write; split <;> exact NoNewEof.of_drecs rfl
theorem nne_reply (s : S) (c : Nat) (e : Enh) (t : String) : NoNewEof s (reply s c e t) := nne_write _ _
theorem nne_replyB (s : S) (c : Nat) (e : Enh) (t : List Bytes) : NoNewEof s (replyB s c e t) := nne_write _ _

theorem nne_delivFinish (s : S) (k : Nat) (e : RdEnd) (he : e ≠ .eof) : NoNewEof s (delivFinish s k e) := by
  unfold delivFinish
  simp only []
  have h1 := nne_setDrec s k (fun d => { d with finished := true, rdEnd := e, ret := delivOutcome s k e })
    (fun d h => absurd h he)
  split
  · exact h1.trans (nne_emit _ _)
  · exact h1

theorem nne_delivAbort (s : S) (k : Nat) : NoNewEof s (delivAbort s k) := by
  unfold delivAbort
  split
  · exact nne_delivFinish s k .reset (by decide)
  · exact NoNewEof.rfl' _

theorem nne_abortBdat (s : S) : NoNewEof s (abortBdat s) := by
  unfold abortBdat
  split
  · exact (nne_delivAbort s _).trans (NoNewEof.of_drecs rfl)
  · exact NoNewEof.rfl' _

theorem nne_logoutSess (s : S) : NoNewEof s (logoutSess s) := by
  unfold logoutSess; split <;> exact NoNewEof.of_drecs rfl
theorem nne_closeSock (s : S) : NoNewEof s (closeSock s) := by
  unfold closeSock; split <;> exact NoNewEof.of_drecs rfl
theorem nne_resetSess (s : S) : NoNewEof s (resetSess s) := by
  unfold resetSess; split <;> exact NoNewEof.of_drecs rfl
theorem nne_closeConn (s : S) : NoNewEof s (closeConn s) :=
  ((nne_abortBdat s).trans (nne_logoutSess _)).trans (nne_closeSock _)
theorem nne_resetConn (s : S) : NoNewEof s (resetConn s) :=
  ((nne_abortBdat s).trans (nne_resetSess _)).trans (NoNewEof.of_drecs rfl)

theorem nne_delivWrite (s : S) (k : Nat) (bs : Bytes) : NoNewEof s (delivWrite s k bs).1 := by
  unfold delivWrite
  split
  · exact NoNewEof.rfl' _
  · simp only []
    have h1 := nne_setDrec s k (fun d => { d with octets := d.octets ++ bs.take (delivTake s k bs) }) (fun d h => h)
    split
    · exact h1.trans (nne_delivFinish _ _ .none (by decide))
    · exact h1

theorem nne_copyChunk : ∀ (fuel : Nat) (s : S) (k n cap : Nat), NoNewEof s (copyChunk fuel s k n cap).1 := by
  intro fuel
  induction fuel with
  | zero => intro s k n cap; exact NoNewEof.rfl' _
  | succ fuel ih =>
    intro s k n cap
    unfold copyChunk
    split
    · exact NoNewEof.rfl' _
    · generalize bufRead s.w (min cap n) = br
      obtain ⟨w1, r⟩ := br
      have h1 : NoNewEof s { s with w := w1 } := NoNewEof.of_drecs rfl
      cases r with
      | error e => cases e <;> exact h1
      | ok bs =>
        simp only []
        have h2 := nne_delivWrite { s with w := w1 } k bs
        generalize delivWrite { s with w := w1 } k bs = dw at h2 ⊢
        obtain ⟨s1, okAll⟩ := dw
        simp only [] at h2 ⊢
        split
        · exact h1.trans (h2.trans (ih _ _ _ _))
        · exact h1.trans h2

theorem nne_setW (s : S) (w : W) : NoNewEof s (setW s w) := NoNewEof.of_drecs rfl
theorem nne_setLimit (s : S) (n : Nat) : NoNewEof s (setLimit s n) := NoNewEof.of_drecs rfl
theorem nne_armLimit (s : S) : NoNewEof s (armLimit s) := NoNewEof.of_drecs rfl

theorem nne_writeLmtpStatuses (sts : List (Bytes × BRes)) : ∀ (s : S), NoNewEof s (writeLmtpStatuses s sts) := by
  induction sts with
  | nil => intro s; exact NoNewEof.rfl' _
  | cons x xs ih =>
    intro s
    simp only [writeLmtpStatuses, List.foldl_cons] at ih ⊢
    exact (nne_replyB _ _ _ _).trans (ih _)

theorem nne_bdatFailReplies (s : S) (k : Nat) (last : Bool) (err : BRes) : NoNewEof s (bdatFailReplies s k last err) := by
  unfold bdatFailReplies
  split
  · simp only []
    split
    · exact nne_writeLmtpStatuses _ _
    · split <;> exact nne_writeLmtpStatuses _ _
  · exact nne_replyB _ _ _ _

theorem nne_bdatFail (s : S) (k left : Nat) (last : Bool) (err : BRes) : NoNewEof s (bdatFail s k left last err).1 := by
  unfold bdatFail
  simp only []
  have h1 := nne_setW s (discardN (wireFuel s.w) s.w left)
  generalize setW s (discardN (wireFuel s.w) s.w left) = s1 at h1 ⊢
  have h2 := nne_bdatFailReplies s1 k last err
  generalize bdatFailReplies s1 k last err = s2 at h2 ⊢
  have h3 : NoNewEof s2 (if err == errPanic then closeConn s2 else s2) := by
    split
    · exact nne_closeConn _
    · exact NoNewEof.rfl' _
  generalize (if err == errPanic then closeConn s2 else s2) = s3 at h3 ⊢
  exact h1.trans (h2.trans (h3.trans ((nne_resetConn _).trans (nne_armLimit _))))

theorem beginData_get (s : S) (id : Nat) (dec : DataDec) (j : Nat) (d : DRec)
    (h : (beginData s id dec).1.drecs[j]? = some d) (he : d.rdEnd = .eof) : s.drecs[j]? = some d := by
  simp only [beginData] at h
  by_cases hj : j < s.drecs.length
  · rw [List.getElem?_append_left hj] at h; exact h
  · rw [List.getElem?_append_right (by omega)] at h
    cases hi : j - s.drecs.length with
    | zero => rw [hi] at h; simp at h; subst h; cases he
    | succ n => rw [hi] at h; simp at h

theorem nne_beginData (s : S) (id : Nat) (dec : DataDec) : NoNewEof s (beginData s id dec).1 := by
  intro j ⟨d, hd, he⟩
  exact ⟨d, beginData_get s id dec j d hd he, he⟩

theorem nne_popData (s : S) : NoNewEof s (popData s).2 := by
  unfold popData; split <;> exact NoNewEof.of_drecs rfl

theorem nne_startDelivery (s : S) (dec : DataDec) : NoNewEof s (startDelivery s dec).1 := by
  unfold startDelivery
  simp only []
  refine (nne_beginData s (s.c.session.getD 0) dec).trans ?_
  exact NoNewEof.of_drecs rfl

theorem nne_bdatBegin (s : S) : NoNewEof s (bdatBegin s).1 := by
  unfold bdatBegin
  split
  · exact NoNewEof.rfl' _
  · have hp := nne_popData s
    generalize popData s = p at hp ⊢
    obtain ⟨dec, s1⟩ := p
    simp only [] at hp ⊢
    have hs := nne_startDelivery s1 dec
    generalize startDelivery s1 dec = q at hs ⊢
    obtain ⟨s2, k⟩ := q
    simp only [] at hs ⊢
    split
    · exact hp.trans (hs.trans (nne_delivFinish _ _ .none (by decide)))
    · exact hp.trans hs

theorem nne_setBdatStatus (s : S) : NoNewEof s (setBdatStatus s) := by
  unfold setBdatStatus; split <;> exact NoNewEof.of_drecs rfl

/-! ### the only step that records an end-of-file for a chunked transfer -/

/-- what follows the copy of a chunk records a new end-of-file only if it was the LAST chunk and the copy was complete -/
theorem bdatAfterCopy_eof (s : S) (k size left : Nat) (last : Bool) (ce : CopyEnd) (j : Nat)
    (h : eofAt (bdatAfterCopy s k size left last ce).1 j) : eofAt s j ∨ (last = true ∧ ce = .done) := by
  unfold bdatAfterCopy at h
  split at h
  · exact Or.inl (nne_bdatFail _ _ _ _ _ j h)
  · exact Or.inl (nne_bdatFail _ _ _ _ _ j h)
  · simp only [] at h
    split at h <;> exact Or.inl (nne_bdatFail _ _ _ _ _ j h)
  · unfold bdatDone at h
    simp only [] at h
    cases last with
    | true => exact Or.inr ⟨rfl, rfl⟩
    | false =>
      simp only [Bool.not_false, if_true] at h
      exact Or.inl (((NoNewEof.of_drecs (s := s) (s' := addBytesReceived s size) rfl).trans
        ((nne_armLimit _).trans (nne_reply _ _ _ _))) j h)

/-- **a chunk that is not the LAST one never ends the message**, whatever the backend does and however the chunk
    arrives; nor does a LAST chunk whose copy did not complete (`bdatAfterCopy_eof`) -/
theorem bdatChunk_eof (s : S) (size : Nat) (last : Bool) (j : Nat) (h : eofAt (bdatChunk s size last).1 j) :
    eofAt s j ∨ last = true := by
  unfold bdatChunk at h
  have h1 := (nne_setBdatStatus s).trans (nne_bdatBegin (setBdatStatus s))
  generalize bdatBegin (setBdatStatus s) = p at h h1
  obtain ⟨s1, k⟩ := p
  simp only [] at h h1
  have h2 := nne_setLimit s1 0
  generalize setLimit s1 0 = s2 at h h2
  have h3 := nne_copyChunk (wireFuel s2.w) s2 k size (min 32768 (max size 1))
  generalize copyChunk (wireFuel s2.w) s2 k size (min 32768 (max size 1)) = q at h h3
  obtain ⟨s3, left, ce⟩ := q
  simp only [] at h h3
  rcases bdatAfterCopy_eof s3 k size left last ce j h with h | h
  · exact Or.inl (h1 j (h2 j (h3 j h)))
  · exact Or.inr h.1

/-! ### abandoning a transfer -/

theorem delivFinish_rec (s : S) (k : Nat) (e : RdEnd) (d : DRec) (hd : s.drecs[k]? = some d) :
    ∃ d', (delivFinish s k e).drecs[k]? = some d' ∧ d'.rdEnd = e ∧ d'.finished = true := by
  unfold delivFinish
  simp only []
  have : (setDrec s k (fun d => { d with finished := true, rdEnd := e, ret := delivOutcome s k e })).drecs[k]? =
      some { d with finished := true, rdEnd := e, ret := delivOutcome s k e } := by
    rw [setDrec_get]; simp [hd]
  split
  · exact ⟨_, this, rfl, rfl⟩
  · exact ⟨_, this, rfl, rfl⟩

/-- a running delivery is ended by `abortBdat` with `ErrDataReset` -/
theorem abortBdat_reset (s : S) (k : Nat) (hb : s.c.bdat = some k) (hr : delivRunning s k = true) :
    ∃ d', (abortBdat s).drecs[k]? = some d' ∧ d'.rdEnd = .reset ∧ d'.finished = true := by
  unfold abortBdat
  simp only [hb]
  unfold delivAbort
  simp only [hr, if_true]
  have hd : ∃ d, s.drecs[k]? = some d := by
    unfold delivRunning at hr
    cases h : s.drecs[k]? with
    | none => rw [h] at hr; cases hr
    | some d => exact ⟨d, rfl⟩
  obtain ⟨d, hd⟩ := hd
  exact delivFinish_rec s k .reset d hd

theorem drecs_logoutSess (s : S) : (logoutSess s).drecs = s.drecs := by unfold logoutSess; split <;> rfl
theorem drecs_closeSock (s : S) : (closeSock s).drecs = s.drecs := by unfold closeSock; split <;> rfl
theorem drecs_resetSess (s : S) : (resetSess s).drecs = s.drecs := by unfold resetSess; split <;> rfl

/-- **an abandoned transfer ends with `ErrDataReset`, not with EOF**: `reset()` (RSET, a new greeting, STARTTLS, a
    failed chunk) and `Close()` (QUIT, too many errors, loss of the connection) both end a running chunked delivery
    with the reset error -/
theorem abandoned_is_reset (s : S) (k : Nat) (hb : s.c.bdat = some k) (hr : delivRunning s k = true) :
    (∃ d', (resetConn s).drecs[k]? = some d' ∧ d'.rdEnd = .reset ∧ d'.finished = true) ∧
    (∃ d', (closeConn s).drecs[k]? = some d' ∧ d'.rdEnd = .reset ∧ d'.finished = true) := by
  obtain ⟨d', h1, h2, h3⟩ := abortBdat_reset s k hb hr
  constructor
  · refine ⟨d', ?_, h2, h3⟩
    unfold resetConn clearEnvelope
    simp only [drecs_resetSess]
    exact h1
  · refine ⟨d', ?_, h2, h3⟩
    unfold closeConn
    rw [drecs_closeSock, drecs_logoutSess]
    exact h1

end SmtpV.Server
