import SmtpV.Model.DotWriter
import SmtpV.Spec.ClientMon
import SmtpV.Proofs.DataOnlyMarker
/-!
The client's dot-writer composed with the DATA reader (C16, model level): for every body in which
CR occurs only as part of CRLF, written in any partition, the octets on the wire are a terminated
DATA stream whose content is the normalised body.  Together with the reader theorems (C01) this is
the client-to-backend round trip.
-/
namespace SmtpV.DotWriter
open SmtpV SmtpV.DataReader SmtpV.Spec

/-! ### partition independence -/

theorem write_append (s : WSt) (a b : Bytes) :
    write s (a ++ b) = ((write (write s a).1 b).1, (write s a).2 ++ (write (write s a).1 b).2) := by
  induction a generalizing s with
  | nil => simp [write]
  | cons c a ih => simp [write, ih, List.append_assoc]

theorem fold_write (parts : List Bytes) (s : WSt) (o : Bytes) :
    parts.foldl (fun (acc : WSt × Bytes) p => ((write acc.1 p).1, acc.2 ++ (write acc.1 p).2)) (s, o) =
      ((write s parts.flatten).1, o ++ (write s parts.flatten).2) := by
  induction parts generalizing s o with
  | nil => simp [write]
  | cons p ps ih => simp [ih, write_append, List.append_assoc]

/-- the wire octets depend only on the concatenation of the parts -/
theorem writeAll_flatten (parts : List Bytes) :
    writeAll parts = (write .begin_ parts.flatten).2 ++ wclose (write .begin_ parts.flatten).1 := by
  have := fold_write parts .begin_ []
  simp only [writeAll]
  simp only [List.nil_append] at this
  rw [show (fun (acc : WSt × Bytes) p => let (s', o') := write acc.1 p; (s', acc.2 ++ o')) =
        (fun (acc : WSt × Bytes) p => ((write acc.1 p).1, acc.2 ++ (write acc.1 p).2)) from rfl, this]

/-! ### the domain: CR only as part of CRLF -/

/-- `ok prev body`: every CR (including a `prev` that is one) is followed by LF, and the text does not end in CR -/
def ok : Byte → Bytes → Bool
  | prev, [] => prev != CR
  | prev, c :: t => (prev != CR || c == LF) && ok c t

theorem crOk_eq_ok (body : Bytes) : ClientMon.crOk body = ok 0 body := by
  unfold ClientMon.crOk
  suffices h : ∀ (prev : Byte) (body : Bytes),
      (((prev :: body).zip (body ++ [0])).all (fun p => p.1 != 13 || p.2 == 10)) = ok prev body by
    cases body with
    | nil => simp [ok, CR]
    | cons c t =>
      have := h c t
      simp only [List.drop_succ_cons, List.drop_zero] at *
      simp [ok, CR, LF, this]
  intro prev body
  induction body generalizing prev with
  | nil => simp [ok, CR]
  | cons c t ih =>
    have := ih c
    simp only [List.cons_append, List.zip_cons_cons, List.all_cons, this]
    simp [ok, CR, LF]

/-! ### one octet through the writer and then the reader -/

/-- writer state, reader state, and the octet written last -/
def Rel (w : WSt) (r : St) (prev : Byte) : Prop :=
  ((w = .begin_ ∨ w = .beginLine) ∧ r = .bol ∧ prev ≠ CR) ∨ (w = .data ∧ r = .data ∧ prev ≠ CR) ∨
  (w = .cr ∧ r = .cr ∧ prev = CR)

/-- shape of the normalised text produced so far, by writer state -/
def Inv (w : WSt) (acc : Bytes) : Prop :=
  match w with
  | .begin_ => acc = []
  | .beginLine => ∃ t, acc = t ++ [CR, LF]
  | .data => ∃ t x, acc = t ++ [x] ∧ x ≠ LF
  | .cr => ∃ t, acc = t ++ [CR]

/-- what the normal form contributes for the octet `c` after `prev` -/
def outOf (prev c : Byte) : Bytes := if c == 10 && prev != 13 then [13, 10] else [c]

theorem lfToCrlf_cons (prev c : Byte) (t : Bytes) :
    ClientMon.lfToCrlf prev (c :: t) = outOf prev c ++ ClientMon.lfToCrlf c t := by
  simp only [ClientMon.lfToCrlf, outOf]; split <;> simp

theorem step_sim (w : WSt) (r : St) (prev c : Byte) (acc : Bytes) (hR : Rel w r prev) (hI : Inv w acc)
    (hok : prev = CR → c = LF) :
    ∃ r', feed r (wstep w c).2 = (r', outOf prev c) ∧ Rel (wstep w c).1 r' c ∧ Inv (wstep w c).1 (acc ++ outOf prev c) := by
  have e13 : (13 : Byte) = CR := rfl
  have e10 : (10 : Byte) = LF := rfl
  rcases hR with ⟨hw, rfl, hp⟩ | ⟨rfl, rfl, hp⟩ | ⟨rfl, rfl, rfl⟩
  · have hp' : (prev != 13) = true := by simpa [e13] using hp
    have hws : wstep w c = (if c == CR then (.cr, (if c == DOT then [DOT] else []) ++ [c])
        else if c == LF then (.beginLine, (if c == DOT then [DOT] else []) ++ [CR, c])
        else (.data, (if c == DOT then [DOT] else []) ++ [c])) := by
      rcases hw with rfl | rfl <;> rfl
    rw [hws]
    by_cases h1 : c = CR
    · subst h1
      refine ⟨.cr, ?_, ?_, ?_⟩
      · simp [feed, step, outOf, hp', CR, LF, DOT]
      · simp [Rel]
      · simp [Inv, outOf, CR]
    · by_cases h2 : c = LF
      · subst h2
        refine ⟨.bol, ?_, ?_, ?_⟩
        · simp [feed, step, outOf, hp', CR, LF, DOT]
        · simp [Rel, LF, CR]
        · simp only [Inv, outOf, hp', CR, LF]
          exact ⟨acc, by simp⟩
      · have h2' : (c == 10) = false := by simpa [e10] using h2
        refine ⟨.data, ?_, ?_, ?_⟩
        · by_cases h3 : c = DOT
          · subst h3; simp [feed, step, outOf, CR, LF, DOT]
          · simp [feed, step, outOf, h1, h2, h3, h2']
        · simp [Rel, h1, h2]
        · simp only [h1, h2, beq_iff_eq, if_false, Inv, outOf, h2', Bool.false_and]
          exact ⟨acc, c, by simp, h2⟩
  · have hp' : (prev != 13) = true := by simpa [e13] using hp
    by_cases h1 : c = CR
    · subst h1
      refine ⟨.cr, ?_, ?_, ?_⟩
      · simp [wstep, feed, step, outOf, CR, LF]
      · simp [wstep, Rel]
      · simp [wstep, Inv, outOf, CR]
    · by_cases h2 : c = LF
      · subst h2
        refine ⟨.bol, ?_, ?_, ?_⟩
        · simp [wstep, feed, step, outOf, hp', CR, LF]
        · simp [wstep, Rel, LF, CR]
        · simp only [wstep, Inv, outOf, hp', CR, LF]
          exact ⟨acc, by simp⟩
      · have h2' : (c == 10) = false := by simpa [e10] using h2
        refine ⟨.data, ?_, ?_, ?_⟩
        · simp [wstep, feed, step, outOf, h1, h2, h2']
        · simp [wstep, Rel, h1, h2]
        · simp only [wstep, h1, h2, beq_iff_eq, if_false, Inv, outOf, h2', Bool.false_and]
          exact ⟨acc, c, by simp, h2⟩
  · have hc := hok rfl
    subst hc
    obtain ⟨t, rfl⟩ := hI
    refine ⟨.bol, ?_, ?_, ?_⟩
    · simp [wstep, feed, step, outOf, CR, LF]
    · simp [wstep, Rel, LF, CR]
    · simp only [wstep, Inv, outOf, CR, LF]
      exact ⟨t, by simp⟩

/-! ### a whole body -/

theorem write_sim (body : Bytes) : ∀ (w : WSt) (r : St) (prev : Byte) (acc : Bytes), Rel w r prev → Inv w acc →
    ok prev body = true →
    ∃ r', feed r (write w body).2 = (r', ClientMon.lfToCrlf prev body) ∧
      (((write w body).1 = .begin_ ∨ (write w body).1 = .beginLine) ∧ r' = .bol ∨ (write w body).1 = .data ∧ r' = .data) ∧
      Inv (write w body).1 (acc ++ ClientMon.lfToCrlf prev body) := by
  induction body with
  | nil =>
    intro w r prev acc hR hI hok
    have hp : prev ≠ CR := by simpa [ok] using hok
    refine ⟨r, by simp [write, feed, ClientMon.lfToCrlf], ?_, by simpa [write, ClientMon.lfToCrlf] using hI⟩
    rcases hR with ⟨hw, hr, _⟩ | ⟨hw, hr, _⟩ | ⟨_, _, h⟩
    · exact Or.inl ⟨by simpa [write] using hw, hr⟩
    · exact Or.inr ⟨by simpa [write] using hw, hr⟩
    · exact absurd h hp
  | cons c t ih =>
    intro w r prev acc hR hI hok
    simp only [ok, Bool.and_eq_true, Bool.or_eq_true, bne_iff_ne, ne_eq, beq_iff_eq] at hok
    have hok1 : prev = CR → c = LF := by
      intro h; rcases hok.1 with h' | h'
      · exact absurd h h'
      · exact h'
    obtain ⟨r1, hf1, hR1, hI1⟩ := step_sim w r prev c acc hR hI hok1
    obtain ⟨r2, hf2, hfin, hI2⟩ := ih (wstep w c).1 r1 c (acc ++ outOf prev c) hR1 hI1 hok.2
    refine ⟨r2, ?_, ?_, ?_⟩
    · simp only [write, feed_append, hf1, hf2, lfToCrlf_cons]
    · simpa [write] using hfin
    · simpa [write, lfToCrlf_cons, List.append_assoc] using hI2

theorem hasSuffix_crlf (t : Bytes) : Text.hasSuffix (t ++ [13, 10]) [13, 10] = true := by
  simp [Text.hasSuffix]

theorem hasSuffix_not (t : Bytes) (x : Byte) (hx : x ≠ LF) : Text.hasSuffix (t ++ [x]) [13, 10] = false := by
  have : (10 : Byte) ≠ x := fun h => hx (by rw [← h]; rfl)
  simp [Text.hasSuffix, List.isPrefixOf, this]

/-- C16 at model level: the wire octets of any partition of a body in the domain are a terminated DATA
    stream carrying exactly the normalised body, and whatever follows is left for the command loop. -/
theorem writeAll_terminated (parts : List Bytes) (rest : Bytes) (h : ClientMon.crOk parts.flatten = true) :
    Terminated (writeAll parts ++ rest) (ClientMon.normBody parts.flatten) rest := by
  apply run_eof_terminated
  rw [crOk_eq_ok] at h
  obtain ⟨r', hf, hfin, hI⟩ := write_sim parts.flatten .begin_ .bol 0 [] (Or.inl ⟨Or.inl rfl, rfl, by decide⟩) rfl h
  rw [writeAll_flatten, List.append_assoc]
  have hne : (feed .bol (write .begin_ parts.flatten).2).1 ≠ .eof := by
    rw [hf]; rcases hfin with ⟨_, rfl⟩ | ⟨_, rfl⟩ <;> simp
  rw [run_of_feed _ _ _ hne, hf]
  simp only [List.nil_append] at hI
  unfold ClientMon.normBody
  simp only []
  generalize ClientMon.lfToCrlf 0 parts.flatten = n at *
  generalize (write .begin_ parts.flatten).1 = w at *
  rcases hfin with ⟨hw | hw, rfl⟩ | ⟨hw, rfl⟩
  · subst hw
    have hn : n = [] := hI
    subst hn
    simp [wclose, run, step, CR, LF, DOT]
  · subst hw
    obtain ⟨t, rfl⟩ := hI
    have : Text.hasSuffix (t ++ [13, 10]) [13, 10] = true := hasSuffix_crlf t
    simp [wclose, run, step, this, CR, LF, DOT]
  · subst hw
    obtain ⟨t, x, rfl, hx⟩ := hI
    have : Text.hasSuffix (t ++ [x]) [13, 10] = false := hasSuffix_not t x hx
    simp [wclose, run, step, this, CR, LF, DOT]

end SmtpV.DotWriter
