import SmtpV.Model.Server
import SmtpV.Spec.Order
/-!
The central invariant of the server model: the trace produced so far is accepted by the ordering
monitor, and the monitor's state is the abstraction `abs` of the connection state.

Method: every operation of the model is summarised by rewrite rules for its effect on the
configuration (`cfg`), the connection state (`c`) and the trace (`evs`); handlers are then
unfolded, split into their branches, and each branch is closed by `simp` computing the monitor's
run over the few events the branch appends.
-/
namespace SmtpV.Server
open SmtpV SmtpV.Spec SmtpV.Spec.Order SmtpV.Reply

/-- the monitor state a connection state stands for -/
def abs (c : Conn) : A :=
  { live := c.session, nextId := c.nextSess, closed := c.closed, tls := c.tls, upgrading := false,
    mailOk := c.fromReceived && c.session.isSome,
    nrcpt := bif c.session.isSome then c.recipients.length else 0,
    transfer := c.bdat.isSome && c.session.isSome,
    authed := c.didAuth && c.session.isSome }

/-- facts about the connection state that the monitor does not track -/
structure Shape (c : Conn) : Prop where
  closedSess : c.closed = true → c.session = none
  fromSess : c.closed = false → c.fromReceived = true → c.session.isSome = true
  bdatFrom : c.bdat.isSome = true → c.fromReceived = true ∧ c.closed = false
  idle : c.closed = false → c.session = none → c.recipients = [] ∧ c.didAuth = false

/-- the invariant: the trace so far is accepted from `a0`, ending in the abstraction of the state -/
structure Good (a0 : A) (s : S) : Prop where
  tr : Order.run s.cfg a0 s.evs.reverse = .ok (abs s.c)
  shape : Shape s.c

/-- `n` recovered-panic log lines -/
def panics (n : Nat) : List Ev := List.replicate n .panicLog

theorem run_panics (cfg : Cfg) (a : A) (n : Nat) (h : a.upgrading = false) :
    Order.run cfg a (panics n) = .ok a := by
  induction n with
  | zero => rfl
  | succ n ih =>
    simp only [panics, List.replicate_succ, Order.run] at ih ⊢
    simp [Order.step, h, ih]

/-- the way every branch is closed: the new trace is the old one plus `new` (oldest first),
    and the monitor run over `new` from the old abstraction gives the new abstraction -/
theorem Good.extend {a0 : A} {s s' : S} (h : Good a0 s) (new : List Ev)
    (hcfg : s'.cfg = s.cfg) (hev : s'.evs = new.reverse ++ s.evs)
    (hrun : Order.run s.cfg (abs s.c) new = .ok (abs s'.c)) (hshape : Shape s'.c) : Good a0 s' := by
  refine ⟨?_, hshape⟩
  rw [hcfg, hev, List.reverse_append, List.reverse_reverse, Order.run_append, h.tr]
  exact hrun

/-! ### rewrite rules for the primitives -/

@[simp] theorem emit_cfg (s : S) (e : Ev) : (emit s e).cfg = s.cfg := rfl
@[simp] theorem emit_c (s : S) (e : Ev) : (emit s e).c = s.c := rfl
@[simp] theorem emit_evs (s : S) (e : Ev) : (emit s e).evs = e :: s.evs := rfl
@[simp] theorem emit_w (s : S) (e : Ev) : (emit s e).w = s.w := rfl

@[simp] theorem write_c (s : S) (bs : Bytes) : (write s bs).c = s.c := by unfold write; split <;> rfl
@[simp] theorem write_cfg (s : S) (bs : Bytes) : (write s bs).cfg = s.cfg := by unfold write; split <;> rfl
@[simp] theorem write_w (s : S) (bs : Bytes) : (write s bs).w = s.w := by unfold write; split <;> rfl
theorem write_evs (s : S) (bs : Bytes) :
    (write s bs).evs = (if s.c.closed then [] else [Ev.w bs]) ++ s.evs := by
  unfold write; split <;> simp_all

@[simp] theorem reply_c (s : S) (code : Nat) (enh : Enh) (t : String) : (reply s code enh t).c = s.c := write_c _ _
@[simp] theorem replyB_c (s : S) (code : Nat) (enh : Enh) (t : List Bytes) : (replyB s code enh t).c = s.c := write_c _ _
@[simp] theorem reply_cfg (s : S) (code : Nat) (enh : Enh) (t : String) : (reply s code enh t).cfg = s.cfg := write_cfg _ _
@[simp] theorem replyB_cfg (s : S) (code : Nat) (enh : Enh) (t : List Bytes) : (replyB s code enh t).cfg = s.cfg := write_cfg _ _
@[simp] theorem reply_w (s : S) (code : Nat) (enh : Enh) (t : String) : (reply s code enh t).w = s.w := write_w _ _
@[simp] theorem replyB_w (s : S) (code : Nat) (enh : Enh) (t : List Bytes) : (replyB s code enh t).w = s.w := write_w _ _
theorem reply_evs (s : S) (code : Nat) (enh : Enh) (t : String) :
    (reply s code enh t).evs = (if s.c.closed then [] else [Ev.w (render code enh [t.b])]) ++ s.evs := write_evs _ _
theorem replyB_evs (s : S) (code : Nat) (enh : Enh) (t : List Bytes) :
    (replyB s code enh t).evs = (if s.c.closed then [] else [Ev.w (render code enh t)]) ++ s.evs := write_evs _ _

/-- a write is accepted wherever the monitor agrees that the connection is open or closed -/
theorem write_good {a0 : A} {s : S} (h : Good a0 s) (bs : Bytes) : Good a0 (write s bs) := by
  by_cases hc : s.c.closed = true
  · exact h.extend [] (by simp) (by simp [write_evs, hc]) (by simp [Order.run]) (by simpa using h.shape)
  · refine h.extend [.w bs] (by simp) (by simp [write_evs, hc]) ?_ (by simpa using h.shape)
    have hc' : s.c.closed = false := by simpa using hc
    simp [Order.run, Order.step, abs, hc']

theorem reply_good {a0 : A} {s : S} (h : Good a0 s) (code : Nat) (enh : Enh) (t : String) :
    Good a0 (reply s code enh t) := write_good h _
theorem replyB_good {a0 : A} {s : S} (h : Good a0 s) (code : Nat) (enh : Enh) (t : List Bytes) :
    Good a0 (replyB s code enh t) := write_good h _

/-- changing fields the monitor does not look at -/
theorem Good.of_c {a0 : A} {s s' : S} (h : Good a0 s) (hcfg : s'.cfg = s.cfg) (hev : s'.evs = s.evs)
    (habs : abs s'.c = abs s.c) (hshape : Shape s'.c) : Good a0 s' :=
  h.extend [] hcfg (by simp [hev]) (by simp [Order.run, habs]) hshape


/-! ### deliveries: the connection state is untouched, at most a panic is logged -/

@[simp] theorem setDrec_c (s : S) (k : Nat) (f : DRec → DRec) : (setDrec s k f).c = s.c := rfl
@[simp] theorem setDrec_cfg (s : S) (k : Nat) (f : DRec → DRec) : (setDrec s k f).cfg = s.cfg := rfl
@[simp] theorem setDrec_evs (s : S) (k : Nat) (f : DRec → DRec) : (setDrec s k f).evs = s.evs := rfl
@[simp] theorem setDrec_w (s : S) (k : Nat) (f : DRec → DRec) : (setDrec s k f).w = s.w := rfl

/-- a state reached from `s` by operations that only log panics -/
structure OnlyPanics (s s' : S) : Prop where
  c : s'.c = s.c
  cfg : s'.cfg = s.cfg
  evs : ∃ n, s'.evs = panics n ++ s.evs

theorem OnlyPanics.refl (s : S) : OnlyPanics s s := ⟨rfl, rfl, 0, rfl⟩
theorem OnlyPanics.trans {s s' s'' : S} (h1 : OnlyPanics s s') (h2 : OnlyPanics s' s'') : OnlyPanics s s'' := by
  obtain ⟨n, hn⟩ := h1.evs
  obtain ⟨m, hm⟩ := h2.evs
  refine ⟨h2.c.trans h1.c, h2.cfg.trans h1.cfg, m + n, ?_⟩
  rw [hm, hn, ← List.append_assoc]
  simp [panics, List.replicate_append_replicate]

theorem OnlyPanics.good {a0 : A} {s s' : S} (h : Good a0 s) (hp : OnlyPanics s s') : Good a0 s' := by
  obtain ⟨n, hn⟩ := hp.evs
  refine h.extend (panics n) hp.cfg ?_ ?_ (by rw [hp.c]; exact h.shape)
  · rw [hn]; simp [panics]
  · rw [hp.c]; exact run_panics _ _ _ rfl

theorem delivFinish_only (s : S) (k : Nat) (e : RdEnd) : OnlyPanics s (delivFinish s k e) := by
  unfold delivFinish; simp only
  by_cases h : (delivOutcome s k e == BRes.panic) = true
  · simp only [h, if_true]; exact ⟨rfl, rfl, 1, rfl⟩
  · simp only [h]; exact ⟨rfl, rfl, 0, rfl⟩

theorem delivAbort_only (s : S) (k : Nat) : OnlyPanics s (delivAbort s k) := by
  unfold delivAbort; split
  · exact delivFinish_only _ _ _
  · exact .refl _

theorem setDrec_only (s : S) (k : Nat) (f : DRec → DRec) : OnlyPanics s (setDrec s k f) := ⟨rfl, rfl, 0, rfl⟩

theorem delivWrite_only (s : S) (k : Nat) (bs : Bytes) : OnlyPanics s (delivWrite s k bs).1 := by
  unfold delivWrite
  by_cases hr : delivRunning s k = true
  · simp only [hr, Bool.not_true, Bool.false_eq_true, if_false]
    by_cases hre : delivReached s k (delivTake s k bs) = true
    · simp only [hre, if_true]; exact (setDrec_only _ _ _).trans (delivFinish_only _ _ _)
    · simp only [hre]; exact setDrec_only _ _ _
  · simp only [hr, Bool.not_false, if_true]; exact .refl _

/-! ### Close and reset -/

theorem abortBdat_spec (s : S) :
    (abortBdat s).c = { s.c with bdat := none } ∧ (abortBdat s).cfg = s.cfg ∧ ∃ n, (abortBdat s).evs = panics n ++ s.evs := by
  unfold abortBdat
  split
  · rename_i k _
    have h := delivAbort_only s k
    exact ⟨rfl, h.cfg, h.evs⟩
  · rename_i hn
    refine ⟨?_, rfl, 0, rfl⟩
    cases hc : s.c; rw [hc] at hn; simp only at hn; simp [hn]

theorem closeConn_good {a0 : A} {s : S} (h : Good a0 s) :
    Good a0 (closeConn s) ∧ (closeConn s).c = { s.c with bdat := none, session := none, closed := true } ∧
    (closeConn s).cfg = s.cfg := by
  obtain ⟨hc1, hcfg1, n, hev1⟩ := abortBdat_spec s
  unfold closeConn
  generalize abortBdat s = s1 at hc1 hcfg1 hev1
  have hsh := h.shape
  cases hs : s.c.session with
  | none =>
    have e2 : logoutSess s1 = s1 := by unfold logoutSess; rw [hc1]; simp [hs]
    rw [e2]
    unfold closeSock
    by_cases hcl : s.c.closed = true
    · have : s1.c.closed = true := by rw [hc1]; exact hcl
      simp only [this, if_true]
      refine ⟨h.extend (panics n) hcfg1 (by rw [hev1]; simp [panics]) ?_ ?_, ?_, hcfg1⟩
      · rw [run_panics _ _ _ rfl, hc1]; simp [abs, hs]
      · rw [hc1]; exact ⟨fun _ => hs, fun hh => by simp [hcl] at hh, fun hh => by simp at hh, fun hh => by simp [hcl] at hh⟩
      · rw [hc1]; cases hcc : s.c; rw [hcc] at hs hcl; simp only at hs hcl; simp [hs, hcl]
    · have hcl' : s.c.closed = false := by simpa using hcl
      have : s1.c.closed = false := by rw [hc1]; exact hcl'
      simp only [this, Bool.false_eq_true, if_false]
      refine ⟨h.extend (panics n ++ [.close]) hcfg1 (by simp [hev1, panics]) ?_ ?_, ?_, hcfg1⟩
      · rw [Order.run_append, run_panics _ _ _ rfl]
        simp [Order.run, Order.step, abs, hs, hcl', hc1]
      · simp only [emit_c]; exact ⟨fun _ => by rw [hc1]; exact hs, fun hh => by simp at hh, fun hh => by simp [hc1] at hh, fun hh => by simp at hh⟩
      · simp only [emit_c, hc1]; cases hcc : s.c; rw [hcc] at hs; simp only at hs; simp [hs]
  | some id =>
    have hcl' : s.c.closed = false := by
      cases hcl : s.c.closed with
      | false => rfl
      | true => have := hsh.closedSess hcl; rw [hs] at this; cases this
    have e2 : logoutSess s1 = { emit s1 (.logout id) with c := { s1.c with session := none } } := by
      unfold logoutSess; rw [hc1]; simp [hs]
    rw [e2]
    unfold closeSock
    simp only [hc1, hcl', Bool.false_eq_true, if_false]
    refine ⟨h.extend (panics n ++ [.logout id, .close]) hcfg1 (by simp [hev1, panics]) ?_ ?_, ?_, hcfg1⟩
    · rw [Order.run_append, run_panics _ _ _ rfl]
      simp [Order.run, Order.step, abs, hs, hcl']
    · simp only [emit_c]; exact ⟨fun _ => rfl, fun hh => by simp at hh, fun hh => by simp at hh, fun hh => by simp at hh⟩
    · simp


theorem resetConn_good {a0 : A} {s : S} (h : Good a0 s) :
    Good a0 (resetConn s) ∧
    (resetConn s).c = { s.c with bdat := none, bdatStatus := none, bytesReceived := 0, fromReceived := false,
                                  recipients := [] } ∧
    (resetConn s).cfg = s.cfg := by
  obtain ⟨hc1, hcfg1, n, hev1⟩ := abortBdat_spec s
  unfold resetConn
  generalize abortBdat s = s1 at hc1 hcfg1 hev1
  have hsh := h.shape
  unfold clearEnvelope
  cases hs : s.c.session with
  | none =>
    have e2 : resetSess s1 = s1 := by unfold resetSess; rw [hc1]; simp [hs]
    rw [e2]
    refine ⟨h.extend (panics n) hcfg1 (by simp [hev1, panics]) ?_ ?_, by simp [hc1], hcfg1⟩
    · rw [run_panics _ _ _ rfl]; simp [abs, hs, hc1]
    · simp only [hc1]
      exact ⟨hsh.closedSess, fun _ hh => by simp at hh, fun hh => by simp at hh,
        fun hc hn => ⟨rfl, (hsh.idle hc hn).2⟩⟩
  | some id =>
    have e2 : resetSess s1 = emit s1 (.reset id) := by unfold resetSess; rw [hc1]; simp [hs]
    rw [e2]
    refine ⟨h.extend (panics n ++ [.reset id]) hcfg1 (by simp [hev1, panics]) ?_ ?_, by simp [hc1], hcfg1⟩
    · rw [Order.run_append, run_panics _ _ _ rfl]
      simp [Order.run, Order.step, abs, hs, hc1]
    · simp only [emit_c, hc1]
      exact ⟨hsh.closedSess, fun _ hh => by simp at hh, fun hh => by simp at hh,
        fun hc hn => ⟨rfl, (hsh.idle hc hn).2⟩⟩

theorem bump_good {a0 : A} {s : S} (h : Good a0 s) :
    Good a0 { s with c := { s.c with errCount := s.c.errCount + 1 } } :=
  h.of_c rfl rfl rfl ⟨h.shape.closedSess, h.shape.fromSess, h.shape.bdatFrom, h.shape.idle⟩

theorem protocolError_good {a0 : A} {s : S} (h : Good a0 s) (code : Nat) (enh : Enh) (t : String) :
    Good a0 (protocolError s code enh t) ∧ (protocolError s code enh t).cfg = s.cfg := by
  unfold protocolError
  simp only
  have h2 := bump_good (reply_good h code enh t)
  split
  · obtain ⟨i, _, cfg⟩ := closeConn_good (reply_good h2 500 ⟨5, 5, 1⟩ "Too many errors. Quiting now")
    exact ⟨i, by rw [cfg]; simp⟩
  · exact ⟨h2, by simp⟩

theorem protocolErrorB_good {a0 : A} {s : S} (h : Good a0 s) (code : Nat) (enh : Enh) (t : Bytes) :
    Good a0 (protocolErrorB s code enh t) ∧ (protocolErrorB s code enh t).cfg = s.cfg := by
  unfold protocolErrorB
  simp only
  have h2 := bump_good (replyB_good h code enh [t])
  split
  · obtain ⟨i, _, cfg⟩ := closeConn_good (reply_good h2 500 ⟨5, 5, 1⟩ "Too many errors. Quiting now")
    exact ⟨i, by rw [cfg]; simp⟩
  · exact ⟨h2, by simp⟩

/-! ### frame facts: which components the primitives leave alone (no invariant needed) -/

theorem delivFinish_w (s : S) (k : Nat) (e : RdEnd) : (delivFinish s k e).w = s.w ∧ (delivFinish s k e).tlsW = s.tlsW ∧
    (delivFinish s k e).be = s.be := by
  unfold delivFinish; simp only
  by_cases h : (delivOutcome s k e == BRes.panic) = true <;> simp [h, setDrec, emit]

theorem abortBdat_w (s : S) : (abortBdat s).w = s.w ∧ (abortBdat s).tlsW = s.tlsW ∧ (abortBdat s).be = s.be := by
  unfold abortBdat
  split
  · unfold delivAbort
    split
    · simpa using delivFinish_w s _ _
    · simp
  · simp

theorem resetSess_c (s : S) : (resetSess s).c = s.c ∧ (resetSess s).w = s.w ∧ (resetSess s).tlsW = s.tlsW ∧
    (resetSess s).be = s.be ∧ (resetSess s).cfg = s.cfg := by
  unfold resetSess; split <;> simp [emit]

theorem resetConn_c (s : S) :
    (resetConn s).c = { s.c with bdat := none, bdatStatus := none, bytesReceived := 0, fromReceived := false, recipients := [] } ∧
    (resetConn s).w = s.w ∧ (resetConn s).tlsW = s.tlsW ∧ (resetConn s).be = s.be ∧ (resetConn s).cfg = s.cfg := by
  unfold resetConn clearEnvelope
  obtain ⟨h1, h2, h3, h4, h5⟩ := resetSess_c (abortBdat s)
  obtain ⟨c1, cfg1, _⟩ := abortBdat_spec s
  obtain ⟨w1, t1, b1⟩ := abortBdat_w s
  simp [h1, h2, h3, h4, h5, c1, cfg1, w1, t1, b1]

theorem logoutSess_c (s : S) : (logoutSess s).c = { s.c with session := none } ∧ (logoutSess s).w = s.w ∧
    (logoutSess s).tlsW = s.tlsW ∧ (logoutSess s).be = s.be ∧ (logoutSess s).cfg = s.cfg := by
  unfold logoutSess
  split
  · simp [emit]
  · rename_i hn
    refine ⟨?_, rfl, rfl, rfl, rfl⟩
    cases hc : s.c; rw [hc] at hn; simp only at hn; simp [hn]

/-! ### states that differ only in wire / backend script / delivery records -/

structure Same (s s1 : S) : Prop where
  c : s1.c = s.c
  cfg : s1.cfg = s.cfg
  evs : s1.evs = s.evs

theorem Same.refl (s : S) : Same s s := ⟨rfl, rfl, rfl⟩
theorem Same.good {a0 : A} {s s1 : S} (hs : Same s s1) (h : Good a0 s) : Good a0 s1 :=
  h.of_c hs.cfg hs.evs (by rw [hs.c]) (by rw [hs.c]; exact h.shape)

theorem popNs_same (s : S) : Same s (popNs s).2 := by unfold popNs; split <;> exact ⟨rfl, rfl, rfl⟩
theorem popMail_same (s : S) : Same s (popMail s).2 := by unfold popMail; split <;> exact ⟨rfl, rfl, rfl⟩
theorem popRcpt_same (s : S) : Same s (popRcpt s).2 := by unfold popRcpt; split <;> exact ⟨rfl, rfl, rfl⟩
theorem popData_same (s : S) : Same s (popData s).2 := by unfold popData; split <;> exact ⟨rfl, rfl, rfl⟩
theorem popAuth_same (s : S) : Same s (popAuth s).2 := by unfold popAuth; split <;> exact ⟨rfl, rfl, rfl⟩
theorem popSasl_same (s : S) : Same s (popSasl s).2 := by unfold popSasl; split <;> exact ⟨rfl, rfl, rfl⟩
theorem popHs_same (s : S) : Same s (popHs s).2 := by unfold popHs; split <;> exact ⟨rfl, rfl, rfl⟩

/-! ### RCPT -/

/-- the `Rcpt` callback event under the guards of `handleRcpt`, and the state after acceptance -/
theorem ev_rcpt {a0 : A} {s s1 : S} (h : Good a0 s) (hs : Same s s1) {id : Nat} (hid : s.c.session = some id)
    (hfrom : s.c.fromReceived = true) (hb : s.c.bdat = none)
    (hmax : ¬ (s.cfg.maxRcpt > 0 ∧ s.c.recipients.length ≥ s.cfg.maxRcpt)) (rcpt : Bytes) (o : RcptOpts) (r : BRes) :
    (r ≠ .ok → Good a0 (emit s1 (.rcpt id rcpt o r))) ∧
    (r = .ok → Good a0 { emit s1 (.rcpt id rcpt o r) with c := { s1.c with recipients := s1.c.recipients ++ [rcpt] } }) := by
  have hmax' : (decide (s.cfg.maxRcpt > 0) && decide (s.c.recipients.length ≥ s.cfg.maxRcpt)) = false := by
    simpa using hmax
  constructor
  · intro hr
    refine h.extend [.rcpt id rcpt o r] (by simp [hs.cfg]) (by simp [hs.evs]) ?_ (by simpa [hs.c] using h.shape)
    simp only [Order.run, Order.step, abs, hid, hfrom, hb, hs.c]
    simp [hmax', hr, hs.c, hid, hfrom, hb]
  · intro hr
    subst hr
    refine h.extend [.rcpt id rcpt o .ok] (by simp [hs.cfg]) (by simp [hs.evs]) ?_ ?_
    · simp only [Order.run, Order.step, abs, hid, hfrom, hb, hs.c]
      simp [hmax', hs.c, hid, hfrom, hb]
    · simp only [hs.c]
      exact ⟨h.shape.closedSess, h.shape.fromSess, h.shape.bdatFrom, fun _ hn => by simp [hid] at hn⟩

theorem handleRcpt_good {a0 : A} {s : S} (h : Good a0 s) (arg : Bytes) :
    Good a0 (handleRcpt s arg).1 ∧ (handleRcpt s arg).1.cfg = s.cfg := by
  unfold handleRcpt
  split
  · exact ⟨reply_good h _ _ _, by simp⟩
  split
  · exact ⟨reply_good h _ _ _, by simp⟩
  split
  · exact ⟨reply_good h _ _ _, by simp⟩
  split
  · exact ⟨reply_good h _ _ _, by simp⟩
  split
  · exact ⟨replyB_good h _ _ _, by simp⟩
  split
  · exact ⟨reply_good h _ _ _, by simp⟩
  split
  · exact ⟨reply_good h _ _ _, by simp⟩
  split
  · exact ⟨h, rfl⟩
  rename_i id hid
  have hfrom' : s.c.fromReceived = true := by simp_all
  have hb : s.c.bdat = none := by simp_all
  have hmax : ¬ (s.cfg.maxRcpt > 0 ∧ s.c.recipients.length ≥ s.cfg.maxRcpt) := by simp_all
  have hsame := popRcpt_same s
  generalize popRcpt s = p at hsame
  obtain ⟨r, s1⟩ := p
  simp only at hsame ⊢
  split
  · obtain ⟨_, g2⟩ := ev_rcpt h hsame hid hfrom' hb hmax _ _ BRes.ok
    refine ⟨replyB_good (g2 rfl) _ _ _, ?_⟩
    simp [hsame.cfg]
  · obtain ⟨g1, _⟩ := ev_rcpt h hsame hid hfrom' hb hmax _ _ BRes.panic
    exact ⟨g1 (by simp), by simp [hsame.cfg]⟩
  · obtain ⟨g1, _⟩ := ev_rcpt h hsame hid hfrom' hb hmax _ _ r
    exact ⟨write_good (g1 (by simp_all)) _, by simp [hsame.cfg]⟩

end SmtpV.Server
