import SmtpV.Proofs.ParamTrip
import SmtpV.Props.C11
/-!
Lemmas for the *whole line* trip of MAIL and RCPT: the client's command line (`Client.mailLine`, `Client.rcptLine`)
followed by CRLF, through the server's `parseCmd`, `strings.TrimSpace`, `cutPrefixFold`, the path parser and the
parameter parser.  7-bit ASCII lines (the UTF-8 decoding of Go's `TrimSpace`/`ToUpper` is the identity there).
-/
namespace SmtpV.LineTrip
open SmtpV SmtpV.Text SmtpV.Parse SmtpV.Props.C14

def Ascii (s : Bytes) : Prop := ∀ b ∈ s, b.toNat < 128

theorem Ascii.append {a b : Bytes} (ha : Ascii a) (hb : Ascii b) : Ascii (a ++ b) := by
  intro x hx; rcases List.mem_append.mp hx with h | h
  · exact ha x h
  · exact hb x h

theorem Ascii.isASCII {s : Bytes} (h : Ascii s) : isASCII s = true := by
  unfold Text.isASCII; simp only [List.all_eq_true, decide_eq_true_eq]; exact h

theorem decodeRune_ascii (b : Byte) (t : Bytes) (h : b.toNat < 128) : decodeRune (b :: t) = some (b.toNat, 1) := by
  simp [decodeRune, h]

/-- not a white-space octet (as `unicode.IsSpace` sees a 7-bit octet) -/
def NoSp (b : Byte) : Prop := isSpaceRune b.toNat = false

theorem trimLeftSpace_id (s : Bytes) (hs : Ascii s) (hh : ∀ b t, s = b :: t → NoSp b) : trimLeftSpace s = s := by
  unfold trimLeftSpace
  cases s with
  | nil => rfl
  | cons b t =>
    have hb := hs b (by simp)
    have := hh b t rfl
    unfold NoSp at this
    simp [trimLeftSpace.go, decodeRune_ascii b t hb, this]

theorem drop_ascii_head (s : Bytes) (hs : Ascii s) (k : Nat) (hk : k < s.length) :
    ∃ b t, s.drop k = b :: t ∧ b.toNat < 128 ∧ (k + 1 = s.length → s.getLast? = some b) := by
  refine ⟨s[k], s.drop (k + 1), List.drop_eq_getElem_cons hk, hs _ (List.getElem_mem hk), ?_⟩
  intro h
  rw [List.getLast?_eq_getElem?]
  have : s.length - 1 = k := by omega
  rw [this, List.getElem?_eq_getElem hk]

theorem lastSpaceWidth_zero (s : Bytes) (hs : Ascii s) (hl : ∀ b, s.getLast? = some b → NoSp b) : lastSpaceWidth s = 0 := by
  unfold lastSpaceWidth
  have dec : ∀ w, 1 ≤ w → w ≤ s.length →
      ∃ b : Byte, decodeRune (s.drop (s.length - w)) = some (b.toNat, 1) ∧ (w = 1 → isSpaceRune b.toNat = false) := by
    intro w h1 hw
    obtain ⟨b, t, hd, hb, hlast⟩ := drop_ascii_head s hs (s.length - w) (by omega)
    exact ⟨b, by rw [hd, decodeRune_ascii b t hb], fun e => hl b (hlast (by omega))⟩
  by_cases h1 : 1 ≤ s.length
  · obtain ⟨b1, e1, n1⟩ := dec 1 (by omega) h1
    have n1 := n1 rfl
    by_cases h2 : 2 ≤ s.length
    · obtain ⟨b2, e2, -⟩ := dec 2 (by omega) h2
      by_cases h3 : 3 ≤ s.length
      · obtain ⟨b3, e3, -⟩ := dec 3 (by omega) h3
        simp [h1, h2, h3, e1, e2, e3, n1]
      · simp [h1, h2, h3, e1, e2, n1]
    · have h3 : ¬ 3 ≤ s.length := by omega
      simp [h1, h2, h3, e1, n1]
  · have h2 : ¬ 2 ≤ s.length := by omega
    have h3 : ¬ 3 ≤ s.length := by omega
    simp [h1, h2, h3]

theorem trimRightSpace_id (s : Bytes) (hs : Ascii s) (hl : ∀ b, s.getLast? = some b → NoSp b) : trimRightSpace s = s := by
  unfold trimRightSpace
  cases h : s.length with
  | zero => rfl
  | succ n =>
    simp [trimRightSpace.go, lastSpaceWidth_zero s hs hl]

/-- `strings.TrimSpace` leaves a 7-bit string that neither starts nor ends with white space as it is -/
theorem trimSpace_id (s : Bytes) (hs : Ascii s) (hh : ∀ b t, s = b :: t → NoSp b) (hl : ∀ b, s.getLast? = some b → NoSp b) :
    trimSpace s = s := by
  unfold trimSpace
  rw [trimLeftSpace_id s hs hh, trimRightSpace_id s hs hl]

theorem trimRightCRLF_crlf (x : Bytes) (hl : ∀ b, x.getLast? = some b → b ≠ CR ∧ b ≠ LF) :
    trimRightCRLF (x ++ [CR, LF]) = x := by
  unfold trimRightCRLF
  simp only [List.reverse_append, List.reverse_cons, List.reverse_nil, List.nil_append, List.cons_append]
  rw [List.dropWhile_cons]
  simp only [show (LF == CR || LF == LF) = true by decide, if_true]
  rw [List.dropWhile_cons]
  simp only [show (CR == CR || CR == LF) = true by decide, if_true]
  cases hx : x.reverse with
  | nil =>
    have : x = [] := by simpa using hx
    simp [this]
  | cons b t =>
    have hlast : x.getLast? = some b := by
      rw [List.getLast?_eq_head?_reverse, hx]; rfl
    obtain ⟨h1, h2⟩ := hl b hlast
    rw [List.dropWhile_cons]
    have : (b == CR || b == LF) = false := by simp [h1, h2]
    simp only [this, Bool.false_eq_true, if_false]
    rw [← hx]; simp

theorem toUpper_ascii (s : Bytes) (hs : Ascii s) :
    toUpper s = s.map (fun b => if 97 ≤ b.toNat && b.toNat ≤ 122 then b - 32 else b) := by
  unfold toUpper; rw [hs.isASCII]; rfl

/-- the last octet of `a ++ b` for non-empty `b` -/
theorem getLast?_append_ne (a b : Bytes) (hb : b ≠ []) : (a ++ b).getLast? = b.getLast? := by
  rw [List.getLast?_append]
  cases h : b.getLast? with
  | none => exact absurd (List.getLast?_eq_none_iff.mp h) hb
  | some x => rfl

/-- a spaced list of graphic tokens ends in a graphic octet -/
theorem spaced_last (ts : List Bytes) (hts : ∀ t ∈ ts, t ≠ [] ∧ t.all graphic = true) (b : Byte)
    (h : (spaced ts).getLast? = some b) : graphic b = true := by
  rcases List.eq_nil_or_concat ts with rfl | ⟨ts, t, rfl⟩
  · simp [spaced] at h
  ·
    obtain ⟨hne, hg⟩ := hts t (by simp)
    rw [List.concat_eq_append, spaced_append, spaced_one] at h
    rw [getLast?_append_ne _ _ (by simp)] at h
    have : (SP :: t).getLast? = t.getLast? := by
      cases t with
      | nil => exact absurd rfl hne
      | cons c t' => simp [List.getLast?_cons_cons]
    rw [this] at h
    have hm : b ∈ t := List.mem_of_getLast? h
    exact (List.all_eq_true.mp hg) b hm

theorem graphic_NoSp (b : Byte) (h : graphic b = true) : NoSp b := isSpaceRune_graphic b h

theorem graphic_not_crlf (b : Byte) (h : graphic b = true) : b ≠ CR ∧ b ≠ LF := by
  unfold graphic at h
  constructor <;> (intro e; subst e; simp [CR, LF] at h)

end SmtpV.LineTrip

namespace SmtpV.LineTrip
open SmtpV SmtpV.Text SmtpV.Parse SmtpV.Props.C14

theorem lit_MAIL : "MAIL ".b = [77, 65, 73, 76, 32] := by decide +kernel
theorem lit_RCPT : "RCPT ".b = [82, 67, 80, 84, 32] := by decide +kernel
theorem lit_STARTTLS : "STARTTLS".b = [83, 84, 65, 82, 84, 84, 76, 83] := by decide +kernel

/-- `parseCmd` on a line `VERB arg CRLF` whose four-letter verb is in upper case and whose argument is 7-bit ASCII that
    neither starts nor ends with white space: the verb and exactly the argument. -/
theorem parseCmd_verb (v0 v1 v2 v3 : Byte) (arg : Bytes)
    (hv : toUpper [v0, v1, v2, v3] = [v0, v1, v2, v3]) (hva : Ascii [v0, v1, v2, v3]) (hns : (if (97 ≤ v0.toNat && v0.toNat ≤ 122) = true then v0 - 32 else v0) ≠ 83)
    (ha : Ascii arg) (hne : arg ≠ [])
    (hh : ∀ b t, arg = b :: t → NoSp b) (hl : ∀ b, arg.getLast? = some b → graphic b = true) :
    parseCmd ([v0, v1, v2, v3, SP] ++ arg ++ [CR, LF]) = some ([v0, v1, v2, v3], arg) := by
  obtain ⟨a, t, rfl⟩ : ∃ a t, arg = a :: t := by
    cases arg with
    | nil => exact absurd rfl hne
    | cons a t => exact ⟨a, t, rfl⟩
  have hlast : ∀ b, ([v0, v1, v2, v3, SP] ++ a :: t).getLast? = some b → b ≠ CR ∧ b ≠ LF := by
    intro b hb
    rw [getLast?_append_ne _ _ (by simp)] at hb
    exact graphic_not_crlf b (hl b hb)
  have hline : Ascii ([v0, v1, v2, v3, SP] ++ a :: t) := by
    intro b hb
    simp only [List.cons_append, List.nil_append, List.mem_cons] at hb
    rcases hb with rfl | rfl | rfl | rfl | rfl | hb
    · exact hva _ (by simp)
    · exact hva _ (by simp)
    · exact hva _ (by simp)
    · exact hva _ (by simp)
    · decide
    · exact ha b (by simpa using hb)
  unfold parseCmd
  rw [trimRightCRLF_crlf _ hlast]
  have hup : toUpper ([v0, v1, v2, v3, SP] ++ a :: t) =
      ([v0, v1, v2, v3, SP] ++ a :: t).map (fun b => if 97 ≤ b.toNat && b.toNat ≤ 122 then b - 32 else b) :=
    toUpper_ascii _ hline
  have hnp : hasPrefix (toUpper ([v0, v1, v2, v3, SP] ++ a :: t)) "STARTTLS".b = false := by
    rw [hup, lit_STARTTLS]
    simp only [List.cons_append, List.nil_append, List.map_cons, hasPrefix, List.isPrefixOf]
    have : ((83 : Byte) == (if (97 ≤ v0.toNat && v0.toNat ≤ 122) = true then v0 - 32 else v0)) = false := by
      exact beq_eq_false_iff_ne.mpr (fun e => hns e.symm)
    simp only [this, Bool.false_and]
  have htake : ([v0, v1, v2, v3, SP] ++ a :: t).take 4 = [v0, v1, v2, v3] := by simp
  have hdrop : ([v0, v1, v2, v3, SP] ++ a :: t).drop 5 = a :: t := by simp
  have hget : ([v0, v1, v2, v3, SP] ++ a :: t).getD 4 0 = SP := by simp
  have hlen : ([v0, v1, v2, v3, SP] ++ a :: t).length = t.length + 6 := by simp
  simp only [hnp, Bool.false_eq_true, if_false, htake, hdrop, hget, hlen, hv, bne_self_eq_false]
  have e0 : (t.length + 6 == 0) = false := by simp
  have e4 : (t.length + 6 == 4) = false := by simp
  have e5 : (t.length + 6 == 5) = false := by simp
  have l4 : ¬ (t.length + 6 < 4) := by omega
  simp only [e0, e4, e5, l4, Bool.false_eq_true, if_false]
  rw [trimSpace_id (a :: t) ha hh (fun b hb => graphic_NoSp b (hl b hb))]

end SmtpV.LineTrip
