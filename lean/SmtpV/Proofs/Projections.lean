import SmtpV.Spec.Order
import SmtpV.Spec.Monitors
/-!
The per-property monitors used to judge implementation traces (`Mon.check3` for C03, `Mon.check8` for C08) are
projections of the ordering monitor: whatever `Order.run` accepts, they accept.  So the theorem about the
ordering monitor (Proofs/ServerHandlers.lean) is a theorem about the very judges the checks run on the
implementation.
-/
namespace SmtpV.Spec
open SmtpV SmtpV.Spec.Order SmtpV.Spec.Mon

/-- the part of the ordering monitor's state that C08 looks at -/
def p8 (a : A) : M8 := { live := a.live, nextId := a.nextId, closed := a.closed }

theorem core_of_step (cfg : Cfg) (a a1 : A) (e : Ev) (h : Order.step cfg a e = .ok a1) : Order.core cfg a e = .ok a1 := by
  unfold Order.step at h
  split at h
  · cases h
  · exact h

theorem step_sim8 (cfg : Cfg) (a a1 : A) (e : Ev) (h : Order.step cfg a e = .ok a1) :
    step8 (p8 a) e = .ok (p8 a1) := by
  have hc := core_of_step cfg a a1 e h
  cases e <;> simp only [Order.core, step8, p8] at hc ⊢ <;> (repeat' split at hc) <;>
    first
      | (cases hc; done)
      | (cases hc; simp_all)

theorem sim8 (cfg : Cfg) : ∀ (evs : List Ev) (a a' : A), Order.run cfg a evs = .ok a' →
    runMon step8 fin8 (p8 a) evs = fin8 (p8 a') := by
  intro evs
  induction evs with
  | nil => intro a a' h; simp only [Order.run] at h; cases h; rfl
  | cons e t ih =>
    intro a a' h
    simp only [Order.run] at h
    cases hs : Order.step cfg a e with
    | error r => simp [hs] at h
    | ok a1 =>
      simp only [hs] at h
      simp only [runMon, step_sim8 cfg a a1 e hs]
      exact ih a1 a' h

/-- the relation between the ordering monitor's state and C03's -/
def R3 (a : A) (m : M3) : Prop :=
  m.sess = a.live ∧ (a.live.isSome = true → m.mailOk = a.mailOk ∧ m.nrcpt = a.nrcpt ∧ m.transfer = a.transfer) ∧
  (a.live = none → m = {})

theorem R3_congr {a a' : A} {m : M3} (h1 : a'.live = a.live) (h2 : a'.mailOk = a.mailOk) (h3 : a'.nrcpt = a.nrcpt)
    (h4 : a'.transfer = a.transfer) (hr : R3 a m) : R3 a' m := by
  unfold R3 at *
  rw [h1, h2, h3, h4]; exact hr

theorem step_sim3 (cfg : Cfg) (a a1 : A) (m : M3) (e : Ev) (h : Order.step cfg a e = .ok a1) (hr : R3 a m) :
    ∃ m1, step3 cfg m e = .ok m1 ∧ R3 a1 m1 := by
  have hc := core_of_step cfg a a1 e h
  have hr0 := hr
  obtain ⟨hs, hsome, hnone⟩ := hr
  cases e with
  | w bs =>
    simp only [Order.core] at hc
    split at hc
    · cases hc
    · cases hc; exact ⟨m, rfl, R3_congr rfl rfl rfl rfl hr0⟩
  | cmd l =>
    simp only [Order.core] at hc
    split at hc
    · cases hc
    · cases hc; exact ⟨m, rfl, R3_congr rfl rfl rfl rfl hr0⟩
  | panicLog => simp only [Order.core] at hc; cases hc; exact ⟨m, rfl, hr0⟩
  | tlsStart ok =>
    simp only [Order.core] at hc
    repeat' split at hc
    all_goals first
      | (cases hc; done)
      | (cases hc; exact ⟨m, rfl, R3_congr rfl rfl rfl rfl hr0⟩)
  | close =>
    simp only [Order.core] at hc
    repeat' split at hc
    all_goals first
      | (cases hc; done)
      | (cases hc; exact ⟨m, rfl, R3_congr rfl rfl rfl rfl hr0⟩)
  | sasl resp ch d r =>
    simp only [Order.core] at hc
    repeat' split at hc
    all_goals first
      | (cases hc; done)
      | (cases hc; exact ⟨m, rfl, R3_congr rfl rfl rfl rfl hr0⟩)
  | authMech id mech r =>
    simp only [Order.core] at hc
    repeat' split at hc
    all_goals first
      | (cases hc; done)
      | (cases hc; exact ⟨m, rfl, R3_congr rfl rfl rfl rfl hr0⟩)
  | ns id helo tls r =>
    simp only [Order.core] at hc
    split at hc
    · cases hc
    split at hc
    · cases hc
    rename_i hlive
    split at hc
    · cases hc
    split at hc
    · cases hc
    split at hc
    · cases hc
    cases hc
    have hl : a.live = none := by simpa using hlive
    have hm := hnone hl
    subst hm
    refine ⟨if r == BRes.ok then { sess := some id } else {}, ?_, ?_⟩
    · simp [step3]
    · unfold R3
      by_cases hok : (r == BRes.ok) = true
      · simp [hok]
      · have hok' : (r == BRes.ok) = false := by simpa using hok
        simp [hok']
  | logout id =>
    simp only [Order.core] at hc
    split at hc
    · cases hc
    · rename_i hlive
      cases hc
      have hl : a.live = some id := by simpa using hlive
      exact ⟨{}, by simp [step3, hs, hl], by simp [R3]⟩
  | reset id =>
    simp only [Order.core] at hc
    split at hc
    · cases hc
    · rename_i hlive
      cases hc
      have hl : a.live = some id := by simpa using hlive
      refine ⟨{ m with mailOk := false, nrcpt := 0, transfer := false }, ?_, ?_⟩
      · simp [step3, hs, hl]
      · unfold R3; simp [hs, hl]
  | mail id frm o r =>
    simp only [Order.core] at hc
    split at hc
    · cases hc
    rename_i hlive
    split at hc
    · cases hc
    rename_i htr
    cases hc
    have hl : a.live = some id := by simpa using hlive
    obtain ⟨e1, e2, e3⟩ := hsome (by simp [hl])
    have ht : m.transfer = false := by rw [e3]; simpa using htr
    refine ⟨if r == BRes.ok then { m with mailOk := true } else m, ?_, ?_⟩
    · simp [step3, hs, hl, ht]
    · unfold R3
      by_cases hok : (r == BRes.ok) = true
      · simp [hok, hs, hl, e2, e3]
      · have hok' : (r == BRes.ok) = false := by simpa using hok
        simp [hok', hs, hl, e1, e2, e3]
  | rcpt id to o r =>
    simp only [Order.core] at hc
    split at hc
    · cases hc
    rename_i hlive
    split at hc
    · cases hc
    rename_i hmo
    split at hc
    · cases hc
    rename_i htr
    split at hc
    · cases hc
    rename_i hmax
    cases hc
    have hl : a.live = some id := by simpa using hlive
    obtain ⟨e1, e2, e3⟩ := hsome (by simp [hl])
    have ht : m.transfer = false := by rw [e3]; simpa using htr
    have hmok : m.mailOk = true := by rw [e1]; simpa using hmo
    have hmx : (decide (cfg.maxRcpt > 0) && decide (m.nrcpt ≥ cfg.maxRcpt)) = false := by rw [e2]; simpa using hmax
    refine ⟨if r == BRes.ok then { m with nrcpt := m.nrcpt + 1 } else m, ?_, ?_⟩
    · simp only [step3, hs, hl, ht, hmok, hmx]; simp
    · unfold R3
      by_cases hok : (r == BRes.ok) = true
      · simp [hok, hs, hl, e1, e2, e3]
      · have hok' : (r == BRes.ok) = false := by simpa using hok
        simp [hok', hs, hl, e1, e2, e3]
  | dataBegin id k =>
    simp only [Order.core] at hc
    split at hc
    · cases hc
    rename_i hlive
    split at hc
    · cases hc
    rename_i hmo
    split at hc
    · cases hc
    rename_i hn
    split at hc
    · cases hc
    rename_i htr
    cases hc
    have hl : a.live = some id := by simpa using hlive
    obtain ⟨e1, e2, e3⟩ := hsome (by simp [hl])
    have ht : m.transfer = false := by rw [e3]; simpa using htr
    have hmok : m.mailOk = true := by rw [e1]; simpa using hmo
    have hnn : (m.nrcpt == 0) = false := by rw [e2]; simpa using hn
    refine ⟨{ m with transfer := true }, ?_, ?_⟩
    · simp [step3, hs, hl, ht, hmok, hnn]
    · unfold R3; simp [hs, hl, e1, e2]

theorem sim3 (cfg : Cfg) : ∀ (evs : List Ev) (a a' : A) (m : M3), Order.run cfg a evs = .ok a' → R3 a m →
    runMon (step3 cfg) (fun _ => []) m evs = [] := by
  intro evs
  induction evs with
  | nil => intro a a' m _ _; rfl
  | cons e t ih =>
    intro a a' m h hr
    simp only [Order.run] at h
    cases hs : Order.step cfg a e with
    | error r => simp [hs] at h
    | ok a1 =>
      simp only [hs] at h
      obtain ⟨m1, hm1, hr1⟩ := step_sim3 cfg a a1 m e hs hr
      simp only [runMon, hm1]
      exact ih a1 a' m1 h hr1

end SmtpV.Spec
