import SmtpV.Spec.Data
/-!
The executable recogniser `Spec.terminated?` is equivalent to the declarative
`Spec.Terminated` (so a monitor that uses it judges exactly the property's statement).
-/
namespace SmtpV.Spec
open SmtpV

theorem NoCRLF_cons_of {a : Byte} {u : Bytes} (h1 : ¬ [CR, LF] <+: a :: u) (h2 : NoCRLF u) :
    NoCRLF (a :: u) := by
  intro hh
  rcases List.infix_cons_iff.mp hh with h | h
  · exact h1 h
  · exact h2 h

theorem takeLine_spec (s l r : Bytes) (h : takeLine s = some (l, r)) : s = l ++ r ∧ IsLine l := by
  induction s generalizing l with
  | nil => simp [takeLine] at h
  | cons a s1 ih =>
    cases s1 with
    | nil => simp [takeLine] at h
    | cons b t =>
      simp only [takeLine] at h
      by_cases hab : a = CR ∧ b = LF
      · simp only [hab, and_self, if_true, Option.some.injEq, Prod.mk.injEq] at h
        obtain ⟨rfl, rfl⟩ := h
        obtain ⟨rfl, rfl⟩ := hab
        refine ⟨by simp, [], by simp, ?_⟩
        intro hh; have := hh.length_le; simp at this
      · simp only [hab, if_false] at h
        cases ht : takeLine (b :: t) with
        | none => simp [ht] at h
        | some p =>
          obtain ⟨l1, r1⟩ := p
          simp only [ht, Option.some.injEq, Prod.mk.injEq] at h
          obtain ⟨rfl, rfl⟩ := h
          obtain ⟨hs, t1, hl1, hn1⟩ := ih l1 ht
          refine ⟨by simp [hs], a :: t1, by simp [hl1], ?_⟩
          apply NoCRLF_cons_of _ hn1
          intro ⟨x, hx⟩
          apply hab
          -- the head of t1 ++ [CR] is b (the head of b :: t = l1 ++ r = t1 ++ CRLF ++ r)
          have hb : (t1 ++ [CR]).head? = some b := by
            cases t1 with
            | nil =>
              simp at hl1; subst hl1; simp at hs; simp [hs.1]
            | cons c t1 =>
              simp at hl1; subst hl1; simp at hs; simp [hs.1]
          cases hq : t1 ++ [CR] with
          | nil => simp at hq
          | cons c q =>
            rw [hq] at hx hb
            simp at hx hb
            exact ⟨hx.1.symm, by rw [← hb]; exact hx.2.1.symm⟩

theorem takeLine_line (l x : Bytes) (hl : IsLine l) : takeLine (l ++ x) = some (l, x) := by
  obtain ⟨t, rfl, hn⟩ := hl
  induction t with
  | nil => simp [takeLine]
  | cons a t ih =>
    have hn' : NoCRLF (t ++ [CR]) := by
      intro hh; exact hn (hh.trans (List.infix_cons (List.infix_refl _)))
    have := ih hn'
    cases hq : t ++ [CR, LF] ++ x with
    | nil => simp at hq
    | cons b q =>
      have hab : ¬ (a = CR ∧ b = LF) := by
        rintro ⟨rfl, rfl⟩
        apply hn
        cases t with
        | nil => simp at hq; exact absurd hq.1 (by decide)
        | cons c t => simp at hq; rw [← hq.1]; exact ⟨[], t ++ [CR], by simp⟩
      simp only [List.cons_append, List.append_assoc] at hq this ⊢
      rw [hq] at this ⊢
      simp only [takeLine, hab, if_false, this]

theorem marker_isLine : IsLine marker := by
  refine ⟨[DOT], rfl, ?_⟩
  intro hh
  rcases List.infix_cons_iff.mp hh with h | h
  · obtain ⟨x, hx⟩ := h; simp at hx; exact absurd hx.1 (by decide)
  · have := h.length_le; simp at this

theorem scan_sound (fuel : Nat) (s body rest : Bytes) (h : scan fuel s = some (body, rest)) :
    Terminated s body rest := by
  induction fuel generalizing s body with
  | zero => simp [scan] at h
  | succ fuel ih =>
    simp only [scan] at h
    cases ht : takeLine s with
    | none => simp [ht] at h
    | some p =>
      obtain ⟨l, r⟩ := p
      obtain ⟨hs, hl⟩ := takeLine_spec s l r ht
      simp only [ht] at h
      by_cases hm : l = marker
      · simp only [hm, if_true, Option.some.injEq, Prod.mk.injEq] at h
        obtain ⟨rfl, rfl⟩ := h
        exact ⟨[], by simp [hs, hm], by simp, by simp⟩
      · simp only [hm, if_false] at h
        cases hsc : scan fuel r with
        | none => simp [hsc] at h
        | some q =>
          obtain ⟨b', r'⟩ := q
          simp only [hsc, Option.some.injEq, Prod.mk.injEq] at h
          obtain ⟨rfl, rfl⟩ := h
          obtain ⟨ls, hls, hall, hb⟩ := ih r b' hsc
          refine ⟨l :: ls, by simp [hs, hls, List.append_assoc], ?_, by simp [hb]⟩
          intro x hx
          simp only [List.mem_cons] at hx
          rcases hx with rfl | hx
          · exact ⟨hl, hm⟩
          · exact hall x hx

theorem scan_complete (ls : List Bytes) (rest : Bytes) (hall : ∀ l ∈ ls, IsLine l ∧ l ≠ marker)
    (fuel : Nat) (hf : ls.length < fuel) :
    scan fuel (ls.flatten ++ marker ++ rest) = some ((ls.map unstuff).flatten, rest) := by
  induction ls generalizing fuel with
  | nil =>
    cases fuel with
    | zero => simp at hf
    | succ fuel =>
      simp only [List.flatten_nil, List.nil_append, scan, takeLine_line marker rest marker_isLine]
      simp
  | cons l ls ih =>
    cases fuel with
    | zero => simp at hf
    | succ fuel =>
      have hl := hall l (by simp)
      have := ih (fun x hx => hall x (by simp [hx])) fuel (by simp at hf; omega)
      simp only [List.flatten_cons, List.append_assoc, scan] at this ⊢
      rw [takeLine_line l _ hl.1]
      simp only [hl.2, if_false, this]
      simp

theorem flatten_length_ge (ls : List Bytes) (h : ∀ l ∈ ls, IsLine l) : ls.length ≤ ls.flatten.length := by
  induction ls with
  | nil => simp
  | cons l ls ih =>
    have := ih (fun x hx => h x (by simp [hx]))
    obtain ⟨t, rfl, _⟩ := h l (by simp)
    simp only [List.flatten_cons, List.length_append, List.length_cons, List.length_nil]; omega

/-- the recogniser decides the declarative predicate -/
theorem terminated?_iff (s body rest : Bytes) :
    terminated? s = some (body, rest) ↔ Terminated s body rest := by
  constructor
  · exact scan_sound _ s body rest
  · rintro ⟨ls, rfl, hall, rfl⟩
    apply scan_complete ls rest hall
    have := flatten_length_ge ls (fun l hl => (hall l hl).1)
    simp only [List.length_append]; omega

theorem terminated?_none (s : Bytes) : terminated? s = none ↔ ¬ ∃ body rest, Terminated s body rest := by
  constructor
  · rintro h ⟨body, rest, ht⟩
    rw [(terminated?_iff s body rest).mpr ht] at h; simp at h
  · intro h
    cases hq : terminated? s with
    | none => rfl
    | some p => exact absurd ⟨p.1, p.2, (terminated?_iff s p.1 p.2).mp hq⟩ h

/-- the decomposition is unique -/
theorem Terminated_unique {s b1 r1 b2 r2 : Bytes} (h1 : Terminated s b1 r1) (h2 : Terminated s b2 r2) :
    b1 = b2 ∧ r1 = r2 := by
  have e1 := (terminated?_iff s b1 r1).mpr h1
  have e2 := (terminated?_iff s b2 r2).mpr h2
  rw [e1] at e2
  simpa using e2

end SmtpV.Spec
