import SmtpV.Proofs.ReplyWF
/-!
C04, reply syntax for replies of any number of lines.
-/
set_option linter.unusedSimpArgs false
namespace SmtpV.Props.C04
open SmtpV SmtpV.Text SmtpV.Spec SmtpV.Reply SmtpV.ReplyRT SmtpV.Spec.ReplySyntax SmtpV.Props.C17

/-- splitting a stream of CRLF-terminated lines, none of which contains an LF, gives the lines back -/
theorem splitCRLF_lines (ls : List Bytes) (h : ∀ l ∈ ls, ∀ b ∈ l, b ≠ 10) (acc : List Bytes) :
    splitCRLF (ls.flatMap (· ++ crlf)) [] acc = some (acc.reverse ++ ls) := by
  induction ls generalizing acc with
  | nil => simp [splitCRLF]
  | cons l ls ih =>
    have hcr : crlf = [13, 10] := rfl
    simp only [List.flatMap_cons, hcr]
    rw [show l ++ [13, 10] ++ List.flatMap (fun x => x ++ [13, 10]) ls = l ++ 13 :: 10 :: List.flatMap (fun x => x ++ [13, 10]) ls by simp,
      splitCRLF_line l (h l (by simp))]
    have := ih (fun x hx => h x (by simp [hx])) ((([] : Bytes).reverse ++ l) :: acc)
    simp only [hcr] at this
    rw [this]
    simp

/-- the recogniser's view of one rendered line -/
theorem parseLine_wire (code : Nat) (h1 : 100 ≤ code) (h2 : code ≤ 999) (sep : Byte) (hs : sep = 32 ∨ sep = 45) (text : Bytes) :
    parseLine (natToDec code ++ sep :: text) = some { code := code, last := sep == 32, text := text } := by
  obtain ⟨a, b, c, hd, ha, hb, hc, hv⟩ := digits3 code h1 h2
  have hsep : (sep == 32 || sep == 45) = true := by rcases hs with rfl | rfl <;> decide
  simp only [hd, List.cons_append, List.nil_append, parseLine, ha, hb, hc, hsep, Bool.and_self, if_true, hv]

theorem mapM_cont (code : Nat) (h1 : 100 ≤ code) (h2 : code ≤ 999) (e : Enh) (mid : List Bytes) :
    (mid.map (contLine code e)).mapM parseLine =
      some (mid.map (fun t => ({ code := code, last := false, text := tok e ++ t } : RLine))) := by
  induction mid with
  | nil => rfl
  | cons t mid ih =>
    simp only [List.map_cons, List.mapM_cons, contLine, parseLine_wire code h1 h2 45 (Or.inr rfl)]
    rw [ih]
    simp

/-- grouping continuation lines and their final line: one reply -/
theorem group_lines (code : Nat) (mid : List Bytes) (lastT : Bytes) (ls : List Bytes) (acc : List Reply) :
    group (mid.map (fun t => ({ code := code, last := false, text := t } : RLine)) ++ [{ code := code, last := true, text := lastT }])
      (some code) ls acc = some (({ code := code, lines := (lastT :: (mid.reverse ++ ls)).reverse } : Reply) :: acc).reverse := by
  induction mid generalizing ls with
  | nil => simp [group]
  | cons t mid ih =>
    simp only [List.map_cons, List.cons_append, group, bne_self_eq_false, Bool.false_eq_true, if_false]
    rw [ih]
    simp

/-- **the recogniser accepts every reply the renderer writes**, one line or many: exactly one reply, with that code, whose
    lines are the text lines each behind the enhanced code -/
theorem reply_syntax (code : Nat) (h1 : 100 ≤ code) (h2 : code ≤ 999) (enh : Enh) (msg : Bytes) (he : EnhOk (effEnh code enh)) :
    ReplySyntax.parse (render code enh [msg]) =
      some [{ code := code, lines := (splitByte msg 10).map (fun l => tok (effEnh code enh) ++ l) }] := by
  rw [render_lines code enh msg he]
  have hnolf : ∀ l ∈ splitByte msg 10, ∀ b ∈ l, b ≠ 10 := splitByte_noSepIn msg 10
  have hne := splitByte_ne_nil msg 10
  generalize splitByte msg 10 = lines at hnolf hne
  -- the lines on the wire contain no LF
  have htok : ∀ b ∈ tok (effEnh code enh), b ≠ 10 := by
    intro b hb
    simp only [tok, List.mem_append, List.mem_singleton] at hb
    rcases hb with hb | rfl
    · exact enhBytes_noLF _ he b hb
    · decide
  have hdig : ∀ b ∈ natToDec code, b ≠ 10 := by
    intro b hb
    have := List.all_eq_true.mp (natToDec_digits code) b hb
    simp only [Text.isDigit, Bool.and_eq_true, decide_eq_true_eq] at this
    intro e; subst e; simp at this
  have hwl : ∀ l ∈ wireLines code (effEnh code enh) lines, ∀ b ∈ l, b ≠ 10 := by
    intro l hl b hb
    simp only [wireLines, List.mem_append, List.mem_map] at hl
    rcases hl with ⟨t, ht, rfl⟩ | hl
    · simp only [contLine, List.mem_append, List.mem_cons] at hb
      rcases hb with hb | rfl | hb | hb
      · exact hdig b hb
      · decide
      · exact htok b hb
      · exact hnolf t ((List.dropLast_sublist _).subset ht) b hb
    · cases hg : lines.getLast? with
      | none => rw [hg] at hl; cases hl
      | some t =>
        rw [hg] at hl
        simp only [List.mem_singleton] at hl
        subst hl
        simp only [lastLine, List.mem_append, List.mem_cons] at hb
        rcases hb with hb | rfl | hb | hb
        · exact hdig b hb
        · decide
        · exact htok b hb
        · exact hnolf t (List.mem_of_getLast? hg) b hb
  unfold ReplySyntax.parse
  rw [splitCRLF_lines _ hwl []]
  simp only [List.reverse_nil, List.nil_append]
  -- every wire line parses; then they group into one reply
  obtain ⟨mid, lastT, hml⟩ : ∃ mid lastT, lines = mid ++ [lastT] := by
    exact ⟨lines.dropLast, lines.getLast hne, (List.dropLast_concat_getLast hne).symm⟩
  subst hml
  have hwire : wireLines code (effEnh code enh) (mid ++ [lastT]) =
      mid.map (contLine code (effEnh code enh)) ++ [lastLine code (effEnh code enh) lastT] := by
    simp [wireLines]
  rw [hwire]
  have hmap : (mid.map (contLine code (effEnh code enh)) ++ [lastLine code (effEnh code enh) lastT]).mapM parseLine =
      some (mid.map (fun t => ({ code := code, last := false, text := tok (effEnh code enh) ++ t } : RLine)) ++
        [{ code := code, last := true, text := tok (effEnh code enh) ++ lastT }]) := by
    rw [List.mapM_append]
    have h1' := mapM_cont code h1 h2 (effEnh code enh) mid
    rw [h1']
    simp [lastLine, parseLine_wire code h1 h2 32 (Or.inl rfl)]
  rw [hmap]
  cases mid with
  | nil => simp [group]
  | cons t mid =>
    simp only [List.map_cons, List.cons_append, group]
    have := group_lines code (mid.map (fun t => tok (effEnh code enh) ++ t)) (tok (effEnh code enh) ++ lastT) [tok (effEnh code enh) ++ t] []
    simp only [List.map_map] at this
    rw [show (List.map (fun t => ({ code := code, last := false, text := tok (effEnh code enh) ++ t } : RLine)) mid) =
      List.map ((fun t => ({ code := code, last := false, text := t } : RLine)) ∘ fun t => tok (effEnh code enh) ++ t) mid from rfl, this]
    simp

end SmtpV.Props.C04
