import SmtpV.Model.Xtext
/-!
Round trip of the xtext codec: `decodeXtext (encodeXtext s) = some s` for every string of 7-bit
octets (RFC 3461 xtext as implemented in conn.go, with two-digit hexchars).
-/
namespace SmtpV.Xtext
open SmtpV SmtpV.Text

theorem decodeRune_ascii (b : Byte) (t : Bytes) (h : b.toNat < 128) : decodeRune (b :: t) = some (b.toNat, 1) := by
  simp [decodeRune, h]

theorem runesAux_ascii (s : Bytes) (fuel : Nat) (hf : s.length ≤ fuel) (h : ∀ b ∈ s, b.toNat < 128) :
    runesAux fuel s = s.map (fun b => (b.toNat, 1)) := by
  induction s generalizing fuel with
  | nil => cases fuel <;> simp [runesAux, decodeRune]
  | cons b t ih =>
    cases fuel with
    | zero => simp at hf
    | succ fuel =>
      have hb := h b (by simp)
      simp only [runesAux, decodeRune_ascii b t hb, List.drop_one, List.tail_cons, List.map_cons]
      rw [ih fuel (by simp at hf; omega) (fun x hx => h x (by simp [hx]))]

theorem runes_ascii (s : Bytes) (h : ∀ b ∈ s, b.toNat < 128) : runes s = s.map (fun b => (b.toNat, 1)) :=
  runesAux_ascii s s.length (Nat.le_refl _) h

/-- what the encoder writes for one 7-bit octet -/
def encByte (b : Byte) : Bytes := if xtextSafe b.toNat then [b] else 43 :: hex02 b.toNat

theorem encodeXtext_ascii (s : Bytes) (h : ∀ b ∈ s, b.toNat < 128) : encodeXtext s = s.flatMap encByte := by
  unfold encodeXtext
  rw [runes_ascii s h]
  induction s with
  | nil => rfl
  | cons b t ih =>
    have hb := h b (by simp)
    simp only [List.map_cons, List.flatMap_cons]
    rw [ih (fun x hx => h x (by simp [hx]))]
    congr 1
    unfold encByte
    split <;> simp

theorem hexDigit_facts : ∀ n : Fin 16, isUpperHex (hexDigitU n.val) = true ∧ hexValB (hexDigitU n.val) = n.val := by decide

theorem hexDigitU_isUpperHex (n : Nat) (h : n < 16) : isUpperHex (hexDigitU n) = true := (hexDigit_facts ⟨n, h⟩).1

theorem hexValB_hexDigitU (n : Nat) (h : n < 16) : hexValB (hexDigitU n) = n := (hexDigit_facts ⟨n, h⟩).2

theorem hex02_small (n : Nat) (h : n < 128) : hex02 n = [hexDigitU (n / 16), hexDigitU (n % 16)] := by
  unfold hex02
  split
  · rename_i h16
    have : n / 16 = 0 := by omega
    have : n % 16 = n := by omega
    simp [*, hexDigitU]
  · rename_i h16
    have h1 : ¬ n < 16 := h16
    have h2 : n / 16 < 16 := by omega
    simp [hexU, h1, h2]

theorem decodeAux_encByte (b : Byte) (r : Bytes) (h : b.toNat < 128) :
    decodeXtextAux (encByte b ++ r) = (decodeXtextAux r).map (fun x => b :: x) := by
  unfold encByte
  split
  · rename_i hs
    have hne : b ≠ 43 := by
      intro e; subst e; simp [xtextSafe] at hs
    show decodeXtextAux (b :: r) = _
    rw [decodeXtextAux.eq_def]
    split <;> simp_all
  · rw [hex02_small _ h]
    have h1 : b.toNat / 16 < 16 := by omega
    have h2 : b.toNat % 16 < 16 := by omega
    have hv : 16 * (b.toNat / 16) + b.toNat % 16 = b.toNat := by omega
    simp only [List.cons_append, List.nil_append, decodeXtextAux, hexDigitU_isUpperHex _ h1, hexDigitU_isUpperHex _ h2,
      hexValB_hexDigitU _ h1, hexValB_hexDigitU _ h2, hv, Bool.and_self, Bool.true_and]
    simp [h]

theorem decodeAux_enc (s : Bytes) (h : ∀ b ∈ s, b.toNat < 128) : decodeXtextAux (s.flatMap encByte) = some s := by
  induction s with
  | nil => simp [decodeXtextAux]
  | cons b t ih =>
    simp only [List.flatMap_cons]
    rw [decodeAux_encByte b _ (h b (by simp)), ih (fun x hx => h x (by simp [hx]))]
    rfl

theorem decodeAux_noplus (t : Bytes) (h : containsByte t 43 = false) : decodeXtextAux t = some t := by
  induction t with
  | nil => simp [decodeXtextAux]
  | cons c t ih =>
    have hc : c ≠ 43 := by
      intro e; subst e; simp [containsByte] at h
    have ht : containsByte t 43 = false := by
      simp [containsByte] at h ⊢; exact h.2
    rw [decodeXtextAux.eq_def]
    split
    · rename_i heq; simp at heq
    · rename_i heq; simp at heq; exact absurd heq.1 hc
    · rename_i heq; simp at heq; exact absurd heq.1 hc
    · rename_i c' t' _ _ heq
      simp at heq
      obtain ⟨rfl, rfl⟩ := heq
      simp [ih ht]

/-- **xtext_roundtrip.**  On all of 7-bit ASCII the xtext encoder and decoder are exact inverses. -/
theorem xtext_roundtrip (s : Bytes) (h : ∀ b ∈ s, b.toNat < 128) : decodeXtext (encodeXtext s) = some s := by
  rw [encodeXtext_ascii s h]
  unfold decodeXtext
  split
  · -- no '+' at all in the encoding: the decoder returns its input, which the scanner also does
    rename_i hn
    have hn' : containsByte (s.flatMap encByte) 43 = false := by simpa using hn
    have := decodeAux_noplus _ hn'
    rw [decodeAux_enc s h] at this
    exact this.symm ▸ rfl
  · exact decodeAux_enc s h

end SmtpV.Xtext
