import SmtpV.Proofs.DataOnlyMarker
/-!
Facts about `read`/`readSched` on **arbitrary** input (no termination hypothesis):
decomposition of the greedy run, the size budget, EOF only at the marker; and the
behaviour on a message that exceeds the budget.
-/
namespace SmtpV.DataReader
open SmtpV SmtpV.Spec

theorem take3_marker (inp : Bytes) (h : (inp.take 3 == DataReader.marker) = true) :
    inp = Spec.marker ++ inp.drop 3 := by
  have h' : inp.take 3 = DataReader.marker := by simpa using h
  have := (List.take_append_drop 3 inp).symm
  rw [h'] at this
  exact this

/-- one `Read` splits the greedy run; EOF is reported only in the EOF state -/
theorem read_run (r : DR) (inp : Bytes) (k : Nat) :
    run r.state inp =
      ((run (read r inp k).1.state (read r inp k).2.2.1).1,
       (read r inp k).2.1 ++ (run (read r inp k).1.state (read r inp k).2.2.1).2.1,
       (run (read r inp k).1.state (read r inp k).2.2.1).2.2) ∧
    ((read r inp k).2.2.2 = .eof → (read r inp k).1.state = .eof) := by
  unfold read
  by_cases h0 : (r.limited && r.n == 0 && r.state != St.eof) = true
  · simp only [h0, if_true]
    by_cases hm : (r.state == St.bol && inp.take 3 == DataReader.marker) = true
    · simp only [hm, if_true]
      simp only [Bool.and_eq_true, beq_iff_eq] at hm
      have hi := take3_marker inp (by simpa using hm.2)
      refine ⟨?_, by simp⟩
      rw [hm.1]
      conv => lhs; rw [hi, run_marker]
      simp
    · simp only [hm, Bool.false_eq_true, if_false]
      exact ⟨by simp, by simp⟩
  · simp only [h0, Bool.false_eq_true, if_false]
    refine ⟨run_readLoop _ _ _, ?_⟩
    generalize (if r.limited = true then min k r.n else k) = k'
    intro h
    by_cases he : (readLoop r.state inp k').1 = .eof
    · exact he
    · exfalso
      have he' : ((readLoop r.state inp k').1 == St.eof) = false := by simpa using he
      simp only [he', Bool.false_eq_true, if_false] at h
      split at h <;> simp at h

/-- whole schedules: the greedy run is what was returned followed by the greedy run of what is left -/
theorem sched_run (sizes : List Nat) (r : DR) (inp : Bytes) :
    run r.state inp =
      ((run (readSched r inp sizes).2.1.state (readSched r inp sizes).2.2).1,
       outs (readSched r inp sizes).1 ++ (run (readSched r inp sizes).2.1.state (readSched r inp sizes).2.2).2.1,
       (run (readSched r inp sizes).2.1.state (readSched r inp sizes).2.2).2.2) ∧
    (∀ x, (readSched r inp sizes).1.getLast? = some x → x.2 = .eof →
        (readSched r inp sizes).2.1.state = .eof) := by
  induction sizes generalizing r inp with
  | nil => simp [readSched]
  | cons k ks ih =>
    obtain ⟨h1, h2⟩ := read_run r inp k
    cases hres : (read r inp k).2.2.2 with
    | more =>
      have e : readSched r inp (k :: ks) =
          (((read r inp k).2.1, Res.more) :: (readSched (read r inp k).1 (read r inp k).2.2.1 ks).1,
           (readSched (read r inp k).1 (read r inp k).2.2.1 ks).2) := by
        simp only [readSched]; rw [hres]
      obtain ⟨i1, i2⟩ := ih (read r inp k).1 (read r inp k).2.2.1
      rw [e]
      constructor
      · rw [h1]
        conv => lhs; rw [i1]
        simp [List.append_assoc]
      · intro x hx hxe
        cases hl : (readSched (read r inp k).1 (read r inp k).2.2.1 ks).1 with
        | nil => rw [hl] at hx; simp at hx; subst hx; simp at hxe
        | cons y ys =>
          rw [hl] at hx
          simp only [List.getLast?_cons_cons] at hx
          rw [← hl] at hx
          exact i2 x hx hxe
    | eof =>
      have e : readSched r inp (k :: ks) =
          ([((read r inp k).2.1, Res.eof)], (read r inp k).1, (read r inp k).2.2.1) := by
        simp only [readSched]; rw [hres]
      rw [e]
      exact ⟨by simpa using h1, fun _ _ _ => h2 hres⟩
    | ueof =>
      have e : readSched r inp (k :: ks) =
          ([((read r inp k).2.1, Res.ueof)], (read r inp k).1, (read r inp k).2.2.1) := by
        simp only [readSched]; rw [hres]
      rw [e]
      refine ⟨by simpa using h1, ?_⟩
      intro x hx hxe; simp at hx; subst hx; simp at hxe
    | tooLarge =>
      have e : readSched r inp (k :: ks) =
          ([((read r inp k).2.1, Res.tooLarge)], (read r inp k).1, (read r inp k).2.2.1) := by
        simp only [readSched]; rw [hres]
      rw [e]
      refine ⟨by simpa using h1, ?_⟩
      intro x hx hxe; simp at hx; subst hx; simp at hxe

/-- **EOF means complete**: if any schedule of reads on any input ends with EOF, the input was a
    terminated stream, everything returned is exactly its body, what is left is exactly its rest. -/
theorem sched_eof_terminated (sizes : List Nat) (r : DR) (inp : Bytes) (hr : r.state = .bol)
    (x : Bytes × Res) (hx : (readSched r inp sizes).1.getLast? = some x) (hxe : x.2 = .eof) :
    Terminated inp (outs (readSched r inp sizes).1) (readSched r inp sizes).2.2 := by
  obtain ⟨h1, h2⟩ := sched_run sizes r inp
  have hs := h2 x hx hxe
  rw [hs, hr] at h1
  simp at h1
  exact run_eof_terminated inp _ _ h1

/-! ### the size budget -/

theorem read_budget (r : DR) (inp : Bytes) (k : Nat) (hl : r.limited = true) :
    (read r inp k).1.limited = true ∧ (read r inp k).2.1.length + (read r inp k).1.n = r.n := by
  by_cases hs : r.state = St.eof
  · -- a reader that has reported end-of-file: nothing is read, nothing is charged
    have hrl : ∀ j, readLoop St.eof inp j = (St.eof, [], inp) := by
      intro j; cases j <;> simp [readLoop]
    unfold read
    simp only [hs, bne_self_eq_false, Bool.and_false, Bool.false_eq_true, if_false, hrl, hl, if_true, List.length_nil, Nat.sub_zero]
    exact ⟨trivial, by simp⟩
  have hne : (r.state != St.eof) = true := by simpa using hs
  unfold read
  simp only [hne, Bool.and_true]
  by_cases hn : r.n = 0
  · simp only [hl, hn, beq_self_eq_true, Bool.and_self, if_true]
    split <;> simp [hl, hn]
  · have hn' : (r.n == 0) = false := by simpa using hn
    simp only [hl, hn', Bool.and_false, Bool.false_eq_true, if_false, if_true]
    have h1 := readLoop_len r.state inp (min k r.n)
    have h2 : min k r.n ≤ r.n := Nat.min_le_right _ _
    refine ⟨trivial, ?_⟩
    show (readLoop r.state inp (min k r.n)).2.1.length + (r.n - (readLoop r.state inp (min k r.n)).2.1.length) = r.n
    omega

/-- never more than the budget, on any input, with any read sizes -/
theorem sched_budget (sizes : List Nat) (r : DR) (inp : Bytes) (hl : r.limited = true) :
    (outs (readSched r inp sizes).1).length ≤ r.n := by
  induction sizes generalizing r inp with
  | nil => simp [readSched]
  | cons k ks ih =>
    obtain ⟨hl', hb⟩ := read_budget r inp k hl
    have hi := ih (read r inp k).1 (read r inp k).2.2.1 hl'
    simp only [readSched]
    generalize read r inp k = rd at *
    obtain ⟨r', out, rest, res⟩ := rd
    simp only at hb hi hl' ⊢
    cases res <;> simp only [outs_cons, outs_nil, List.length_append, List.append_nil, List.length_nil] <;> omega

/-! ### a message that exceeds the budget -/

theorem read_over (r : DR) (inp : Bytes) (k : Nat) (o rest0 : Bytes)
    (hE : run r.state inp = (.eof, o, rest0)) (hB : Boundary r.state)
    (hl : r.limited = true) (hover : r.n < o.length) :
    ((read r inp k).2.2.2 = .tooLarge) ∨
    ((read r inp k).2.2.2 = .more ∧ ∃ o', run (read r inp k).1.state (read r inp k).2.2.1 = (.eof, o', rest0) ∧
        Boundary (read r inp k).1.state ∧ (read r inp k).1.limited = true ∧ (read r inp k).1.n < o'.length) := by
  unfold read
  have hne : (r.state != St.eof) = true := by rcases hB with h | h | h <;> simp [h]
  simp only [hne, Bool.and_true]
  by_cases hn : r.n = 0
  · left
    simp only [hl, hn, beq_self_eq_true, Bool.and_self, if_true]
    by_cases hm : (r.state == St.bol && inp.take 3 == DataReader.marker) = true
    · exfalso
      simp only [Bool.and_eq_true, beq_iff_eq] at hm
      have hi := take3_marker inp (by simpa using hm.2)
      rw [hm.1, hi, run_marker] at hE
      simp at hE
      rw [hE.1] at hover
      simp at hover
    · simp [hm]
  · right
    have hn' : (r.n == 0) = false := by simpa using hn
    simp only [hl, hn', Bool.and_false, Bool.false_eq_true, if_false, if_true]
    obtain ⟨o', ho, hrun, hcase⟩ := loop_ok r.state inp (min k r.n) o rest0 hE hB
    have hmin : min k r.n ≤ r.n := Nat.min_le_right _ _
    have hol := congrArg List.length ho
    simp only [List.length_append] at hol
    rcases hcase with ⟨hne, hlen, hb⟩ | ⟨he, ho', hrest⟩
    · refine ⟨by simp [hne, hlen], o', hrun, hb, trivial, ?_⟩
      show r.n - (readLoop r.state inp (min k r.n)).2.1.length < o'.length
      omega
    · exfalso
      have := readLoop_len r.state inp (min k r.n)
      subst ho'
      simp at hol
      omega

/-- an over-size message is never reported complete: no read ever returns EOF, and once the
    budget is used up the reader fails with "too large" -/
theorem sched_over (sizes : List Nat) (r : DR) (inp o rest0 : Bytes)
    (hE : run r.state inp = (.eof, o, rest0)) (hB : Boundary r.state)
    (hl : r.limited = true) (hover : r.n < o.length) :
    (∀ x ∈ (readSched r inp sizes).1, x.2 = .more ∨ x.2 = .tooLarge) ∧
    ((∀ k ∈ sizes, 0 < k) → r.n < sizes.length →
        ∃ x, (readSched r inp sizes).1.getLast? = some x ∧ x.2 = .tooLarge) := by
  induction sizes generalizing r inp o with
  | nil => exact ⟨by simp [readSched], fun _ h => by simp at h⟩
  | cons k ks ih =>
    rcases read_over r inp k o rest0 hE hB hl hover with hres | ⟨hres, o', hrun, hb, hl', hover'⟩
    · have e : readSched r inp (k :: ks) =
          ([((read r inp k).2.1, Res.tooLarge)], (read r inp k).1, (read r inp k).2.2.1) := by
        simp only [readSched]; rw [hres]
      rw [e]
      exact ⟨by simp, fun _ _ => ⟨((read r inp k).2.1, Res.tooLarge), by simp, rfl⟩⟩
    · have e : readSched r inp (k :: ks) =
          (((read r inp k).2.1, Res.more) :: (readSched (read r inp k).1 (read r inp k).2.2.1 ks).1,
           (readSched (read r inp k).1 (read r inp k).2.2.1 ks).2) := by
        simp only [readSched]; rw [hres]
      obtain ⟨i1, i2⟩ := ih (read r inp k).1 (read r inp k).2.2.1 o' hrun hb hl' hover'
      rw [e]
      constructor
      · intro x hx
        simp only [List.mem_cons] at hx
        rcases hx with rfl | hx
        · left; rfl
        · exact i1 x hx
      · intro hpos hlt
        have hk : 0 < k := hpos k (by simp)
        have hp := read_more_pos r inp k hk hres
        obtain ⟨_, hbud⟩ := read_budget r inp k hl
        have hlt' : (read r inp k).1.n < ks.length := by simp at hlt; omega
        obtain ⟨x, hx, hxe⟩ := i2 (fun k' hk' => hpos k' (by simp [hk'])) hlt'
        refine ⟨x, ?_, hxe⟩
        cases hl2 : (readSched (read r inp k).1 (read r inp k).2.2.1 ks).1 with
        | nil => rw [hl2] at hx; simp at hx
        | cons y ys =>
          rw [hl2] at hx
          simp only [List.getLast?_cons_cons]
          exact hx

end SmtpV.DataReader
