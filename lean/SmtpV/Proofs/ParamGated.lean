import SmtpV.Model.Client
namespace SmtpV.Client
open SmtpV SmtpV.Text SmtpV.Xtext

theorem bodyParam_gated (ext : List (Bytes × Bytes)) (o : Option MailOptions) (b : Bytes) (h : bodyParam ext o = some b) :
    b = [] ∨ (hasExt ext "8BITMIME" = true ∧ (b = " BODY=7BIT".b ∨ b = " BODY=8BITMIME".b)) ∨
      (hasExt ext "BINARYMIME" = true ∧ b = " BODY=BINARYMIME".b) := by
  have key : ∀ body : Bytes,
      (if body == "7BIT".b then some (if hasExt ext "8BITMIME" then " BODY=7BIT".b else [])
       else if body == "8BITMIME".b then some (if hasExt ext "8BITMIME" then " BODY=8BITMIME".b else [])
       else if body == "BINARYMIME".b then (if hasExt ext "BINARYMIME" then some " BODY=BINARYMIME".b else none)
       else none) = some b →
      (b = [] ∨ (hasExt ext "8BITMIME" = true ∧ (b = " BODY=7BIT".b ∨ b = " BODY=8BITMIME".b)) ∨
        (hasExt ext "BINARYMIME" = true ∧ b = " BODY=BINARYMIME".b)) := by
    intro body h
    split at h
    · cases h; by_cases he : hasExt ext "8BITMIME" = true <;> simp [he]
    · split at h
      · cases h; by_cases he : hasExt ext "8BITMIME" = true <;> simp [he]
      · split at h
        · split at h
          · rename_i he; cases h; exact Or.inr (Or.inr ⟨he, rfl⟩)
          · cases h
        · cases h
  unfold bodyParam at h
  exact key _ h

theorem sizeParam_gated (ext : List (Bytes × Bytes)) (o : MailOptions) :
    sizeParam ext o = [] ∨ (hasExt ext "SIZE" = true ∧ sizeParam ext o = " SIZE=".b ++ intToDec o.size) := by
  unfold sizeParam
  by_cases he : hasExt ext "SIZE" = true <;> by_cases hs : (o.size != 0) = true <;> simp [he, hs]

theorem requireTLSParam_gated (ext : List (Bytes × Bytes)) (o : MailOptions) (t : Bytes) (h : requireTLSParam ext o = some t) :
    (t = [] ∧ o.requireTLS = false) ∨ (hasExt ext "REQUIRETLS" = true ∧ o.requireTLS = true ∧ t = " REQUIRETLS".b) := by
  unfold requireTLSParam at h
  split at h
  · split at h
    · rename_i h1 h2; cases h; exact Or.inr ⟨h2, h1, rfl⟩
    · cases h
  · rename_i h1; cases h; exact Or.inl ⟨rfl, by simpa using h1⟩

theorem utf8Param_gated (ext : List (Bytes × Bytes)) (o : MailOptions) (u : Bytes) (h : utf8Param ext o = some u) :
    (u = [] ∧ o.utf8 = false) ∨ (hasExt ext "SMTPUTF8" = true ∧ o.utf8 = true ∧ u = " SMTPUTF8".b) := by
  unfold utf8Param at h
  split at h
  · split at h
    · rename_i h1 h2; cases h; exact Or.inr ⟨h2, h1, rfl⟩
    · cases h
  · rename_i h1; cases h; exact Or.inl ⟨rfl, by simpa using h1⟩

theorem dsnMailParams_gated (ext : List (Bytes × Bytes)) (o : MailOptions) (d : Bytes) (h : dsnMailParams ext o = some d) :
    d = [] ∨ (hasExt ext "DSN" = true ∧ ∃ r e, retParam o = some r ∧ envidParam o = some e ∧ d = r ++ e) := by
  unfold dsnMailParams at h
  split at h
  · rename_i he
    split at h
    · rename_i r e hr hen; cases h; exact Or.inr ⟨he, r, e, hr, hen, rfl⟩
    · cases h
  · cases h; exact Or.inl rfl

theorem authParam_gated (ext : List (Bytes × Bytes)) (o : MailOptions) :
    authParam ext o = [] ∨ (hasExt ext "AUTH" = true ∧ ∃ a, o.auth = some a ∧
      authParam ext o = (if a.isEmpty then " AUTH=<>".b else " AUTH=".b ++ encodeXtext a)) := by
  unfold authParam
  split
  · rename_i a ha
    by_cases he : hasExt ext "AUTH" = true
    · exact Or.inr ⟨he, a, ha, by simp [he]⟩
    · exact Or.inl (by simp [he])
  · exact Or.inl rfl

/-- the MAIL parameter string is the concatenation of six pieces, each empty unless its extension is in `ext` -/
theorem mailParams_gated (ext : List (Bytes × Bytes)) (o : MailOptions) (p : Bytes) (h : mailParams ext (some o) = some p) :
    ∃ b t u d, bodyParam ext (some o) = some b ∧ requireTLSParam ext o = some t ∧ utf8Param ext o = some u ∧
      dsnMailParams ext o = some d ∧ p = b ++ sizeParam ext o ++ t ++ u ++ d ++ authParam ext o := by
  unfold mailParams at h
  split at h
  · cases h
  · rename_i b hb
    simp only [] at h
    split at h
    · rename_i t u d ht hu hd
      cases h
      exact ⟨b, t, u, d, hb, ht, hu, hd, rfl⟩
    · cases h

theorem mailParams_none_gated (ext : List (Bytes × Bytes)) (p : Bytes) (h : mailParams ext none = some p) :
    bodyParam ext none = some p := by
  unfold mailParams at h
  split at h
  · cases h
  · rename_i b hb
    simp only [] at h
    cases h
    exact hb

theorem retParam_shape (o : MailOptions) (r : Bytes) (h : retParam o = some r) :
    r = [] ∨ r = " RET=FULL".b ∨ r = " RET=HDRS".b := by
  unfold retParam at h
  split at h
  · cases h; exact Or.inl rfl
  · split at h
    · cases h; exact Or.inr (Or.inl rfl)
    · split at h
      · cases h; exact Or.inr (Or.inr rfl)
      · cases h

theorem envidParam_shape (o : MailOptions) (e : Bytes) (h : envidParam o = some e) :
    e = [] ∨ e = " ENVID=".b ++ encodeXtext o.envid := by
  unfold envidParam at h
  split at h
  · cases h; exact Or.inl rfl
  · split at h
    · cases h
    · cases h; exact Or.inr rfl

theorem rrvsParam_gated (ext : List (Bytes × Bytes)) (o : RcptOptions) :
    rrvsParam ext o = [] ∨ (hasExt ext "RRVS" = true ∧ ∃ t, o.rrvs = some t ∧ rrvsParam ext o = " RRVS=".b ++ formatRFC3339 t.1 t.2) := by
  unfold rrvsParam
  split
  · rename_i t ht
    by_cases he : hasExt ext "RRVS" = true
    · exact Or.inr ⟨he, t, ht, by simp [he]⟩
    · exact Or.inl (by simp [he])
  · exact Or.inl rfl

theorem rcptParams_gated (ext : List (Bytes × Bytes)) (o : RcptOptions) (p : Bytes) (h : rcptParams ext o = some p) :
    ∃ n oc, p = n ++ oc ++ rrvsParam ext o ∧
      ((n = [] ∧ oc = []) ∨ (hasExt ext "DSN" = true ∧ notifyParam o = some n ∧ orcptParam ext o = some oc)) := by
  unfold rcptParams at h
  split at h
  · rename_i he
    split at h
    · rename_i n oc hn hoc; cases h; exact ⟨n, oc, rfl, Or.inr ⟨he, hn, hoc⟩⟩
    · cases h
  · cases h; exact ⟨[], [], by simp, Or.inl ⟨rfl, rfl⟩⟩

end SmtpV.Client
