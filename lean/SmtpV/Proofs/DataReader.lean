import SmtpV.Model.DataReader
import SmtpV.Spec.Data
/-!
Lemmas about the DATA reader: a "greedy" octet-at-a-time semantics (`step`/`feed`/`run`)
that is convenient for induction over lines, its relation to the executable
`readLoop`/`read`/`readSched`, and the line-level behaviour of the machine.
-/
namespace SmtpV.DataReader
open SmtpV

/-- Greedy semantics: everything the loop stores while consuming the octet `c`
    (the un-read of `stateDotCR` is folded in: the withheld CR and then `c`). -/
def step : St → Byte → St × Bytes
  | .bol, c => if c = DOT then (.dot, []) else if c = CR then (.cr, [c]) else (.data, [c])
  | .dot, c => if c = CR then (.dotcr, []) else (.data, [c])
  | .dotcr, c => if c = LF then (.eof, []) else if c = CR then (.cr, [CR, CR]) else (.data, [CR, c])
  | .cr, c => if c = LF then (.bol, [c]) else if c = CR then (.cr, [c]) else (.data, [c])
  | .data, c => if c = CR then (.cr, [c]) else (.data, [c])
  | .eof, _ => (.eof, [])

/-- greedy read: final state, octets delivered, input left unread -/
def run : St → Bytes → St × Bytes × Bytes
  | .eof, inp => (.eof, [], inp)
  | s, [] => (s, [], [])
  | s, c :: inp =>
    let r := run (step s c).1 inp
    (r.1, (step s c).2 ++ r.2.1, r.2.2)

def feed : St → Bytes → St × Bytes
  | s, [] => (s, [])
  | s, c :: inp =>
    let r := feed (step s c).1 inp
    (r.1, (step s c).2 ++ r.2)

@[simp] theorem cr_eq_lf : (CR = LF) ↔ False := by decide
@[simp] theorem lf_eq_cr : (LF = CR) ↔ False := by decide
@[simp] theorem cr_eq_dot : (CR = DOT) ↔ False := by decide
@[simp] theorem dot_eq_cr : (DOT = CR) ↔ False := by decide
@[simp] theorem lf_eq_dot : (LF = DOT) ↔ False := by decide
@[simp] theorem dot_eq_lf : (DOT = LF) ↔ False := by decide
theorem DOT_ne_CR : DOT ≠ CR := by decide
theorem CR_ne_LF : CR ≠ LF := by decide
theorem DOT_ne_LF : DOT ≠ LF := by decide

@[simp] theorem run_eof (inp : Bytes) : run .eof inp = (.eof, [], inp) := by
  cases inp <;> simp [run]

@[simp] theorem run_nil (s : St) : run s [] = (s, [], []) := by
  cases s <;> simp [run]

theorem run_cons (s : St) (hs : s ≠ .eof) (c : Byte) (inp : Bytes) :
    run s (c :: inp) = ((run (step s c).1 inp).1, (step s c).2 ++ (run (step s c).1 inp).2.1,
      (run (step s c).1 inp).2.2) := by
  cases s <;> simp_all [run]

theorem feed_append (s : St) (a b : Bytes) :
    feed s (a ++ b) = ((feed (feed s a).1 b).1, (feed s a).2 ++ (feed (feed s a).1 b).2) := by
  induction a generalizing s with
  | nil => simp [feed]
  | cons c a ih => simp [feed, ih, List.append_assoc]

theorem feed_eof (a : Bytes) : feed .eof a = (.eof, []) := by
  induction a with
  | nil => rfl
  | cons c a ih => simp [feed, step, ih]

theorem run_of_feed (s : St) (a b : Bytes) (h : (feed s a).1 ≠ .eof) :
    run s (a ++ b) = ((run (feed s a).1 b).1, (feed s a).2 ++ (run (feed s a).1 b).2.1,
                      (run (feed s a).1 b).2.2) := by
  induction a generalizing s with
  | nil => simp [feed]
  | cons c a ih =>
    have hs : s ≠ .eof := by
      intro e; subst e; simp [feed_eof] at h
    have h' : (feed (step s c).1 a).1 ≠ .eof := by simpa [feed] using h
    have := ih (step s c).1 h'
    simp only [List.cons_append, run_cons s hs, this, feed, List.append_assoc]

/-! ### the executable loop refines the greedy semantics -/

theorem it_step_emit (s : St) (c : Byte) (hs : s ≠ .dotcr) (hs' : s ≠ .eof) :
    (it s c).1 = (step s c).1 ∧ (step s c).2 = ((it s c).2.1).toList := by
  cases s <;> simp_all [it, step] <;> (repeat' split) <;> simp_all

/-- Reading with `k` buffer slots and then continuing greedily is the greedy run. -/
theorem run_readLoop (s : St) (inp : Bytes) (k : Nat) :
    run s inp = ((run (readLoop s inp k).1 (readLoop s inp k).2.2).1,
                 (readLoop s inp k).2.1 ++ (run (readLoop s inp k).1 (readLoop s inp k).2.2).2.1,
                 (run (readLoop s inp k).1 (readLoop s inp k).2.2).2.2) := by
  fun_induction readLoop s inp k with
  | case1 s inp => simp
  | case2 inp k hk => simp
  | case3 s k hk hs => simp
  | case4 inp k => simp [run, step]
  | case5 c inp h =>
    simp only [List.nil_append, List.cons_append]
    rw [run_cons .dotcr (by decide), run_cons .cr (by decide)]
    by_cases hc : c = CR
    · subst hc; simp [step, CR_ne_LF]
    · simp [step, h, hc]
  | case6 c inp h k' s' r ih =>
    rw [run_cons .dotcr (by decide)]
    have e : (step .dotcr c).1 = s' := by
      by_cases hc : c = CR
      · subst hc; simp [step, it, CR_ne_LF, s']
      · simp [step, it, h, hc, s']
    have e2 : (step .dotcr c).2 = [CR, c] := by
      by_cases hc : c = CR
      · subst hc; simp [step, CR_ne_LF]
      · simp [step, h, hc]
    rw [e, e2, ih]
    simp [r]
  | case7 s c inp k hs1 hs2 s' e b hit r ih =>
    have hse : s ≠ .eof := fun h => hs1 h
    have hsd : s ≠ .dotcr := fun h => hs2 h
    obtain ⟨h1, h2⟩ := it_step_emit s c hsd hse
    rw [hit] at h1 h2
    simp only at h1 h2
    rw [run_cons s hse, ← h1, h2, ih]
    simp [r]
  | case8 s c inp k hs1 hs2 s' b hit r ih =>
    have hse : s ≠ .eof := fun h => hs1 h
    have hsd : s ≠ .dotcr := fun h => hs2 h
    obtain ⟨h1, h2⟩ := it_step_emit s c hsd hse
    rw [hit] at h1 h2
    simp only at h1 h2
    rw [run_cons s hse, ← h1, h2, ih]
    simp [r]


/-! ### line-level behaviour -/
open SmtpV.Spec

theorem NoCRLF_tail {c : Byte} {u : Bytes} (h : NoCRLF (c :: u)) : NoCRLF u := by
  intro hh; exact h (hh.trans (List.infix_cons (List.infix_refl _)))

theorem NoCRLF_head {u : Bytes} (h : NoCRLF (CR :: u)) : u.head? ≠ some LF := by
  intro hh
  cases u with
  | nil => simp at hh
  | cons d u =>
    simp at hh; subst hh
    exact h ⟨[], u, by simp⟩

def midState (s : St) (u : Bytes) : St :=
  match u.getLast? with
  | none => s
  | some c => if c = CR then .cr else .data

/-- inside a line (state `data`/`cr`) octets are copied; the state remembers a trailing CR -/
theorem feed_mid (u : Bytes) (s : St) (hs : s = .data ∨ s = .cr)
    (hcr : s = .cr → u.head? ≠ some LF) (hn : NoCRLF u) :
    feed s u = (midState s u, u) := by
  induction u generalizing s with
  | nil => simp [feed, midState]
  | cons c u ih =>
    have hn' := NoCRLF_tail hn
    by_cases hc : c = CR
    · subst hc
      have hh := NoCRLF_head hn
      have hstep : step s CR = (.cr, [CR]) := by
        rcases hs with rfl | rfl <;> simp [step, CR_ne_LF]
      have := ih .cr (Or.inr rfl) (fun _ => hh) hn'
      simp [feed, hstep, this, midState]
      cases hu : u.getLast? <;> simp [List.getLast?_cons, hu]
    · have hstep : step s c = (.data, [c]) := by
        rcases hs with rfl | rfl
        · simp [step, hc]
        · have : c ≠ LF := by
            intro e; subst e; exact hcr rfl (by simp)
          simp [step, hc, this]
      have := ih .data (Or.inl rfl) (fun h => by cases h) hn'
      simp [feed, hstep, this, midState]
      cases hu : u.getLast? <;> simp [List.getLast?_cons, hu, hc]

theorem feed_mid_eol (u : Bytes) (s : St) (hs : s = .data ∨ s = .cr)
    (hcr : s = .cr → (u ++ [CR]).head? ≠ some LF) (hn : NoCRLF (u ++ [CR])) :
    feed s (u ++ [CR, LF]) = (.bol, u ++ [CR, LF]) := by
  have e : u ++ [CR, LF] = (u ++ [CR]) ++ [LF] := by simp
  rw [e, feed_append, feed_mid (u ++ [CR]) s hs hcr hn]
  simp [midState, feed, step]

/-- one complete body line from the beginning-of-line state -/
theorem feed_line (l : Bytes) (hl : IsLine l) (hm : l ≠ marker) :
    feed .bol l = (.bol, unstuff l) := by
  obtain ⟨t, rfl, hn⟩ := hl
  cases t with
  | nil => simp [feed, step, unstuff, CR_ne_LF, Ne.symm DOT_ne_CR]
  | cons c t =>
    by_cases hc : c = DOT
    · subst hc
      cases t with
      | nil => exact absurd rfl hm
      | cons d t =>
        have hn1 : NoCRLF ((d :: t) ++ [CR]) := NoCRLF_tail (c := DOT) (by simpa using hn)
        by_cases hd : d = CR
        · subst hd
          have hn2 : NoCRLF (t ++ [CR]) := NoCRLF_tail (c := CR) (by simpa using hn1)
          have hhead : (t ++ [CR]).head? ≠ some LF := NoCRLF_head (by simpa using hn1)
          cases t with
          | nil => simp [feed, step, unstuff, CR_ne_LF]
          | cons e t =>
            have he : e ≠ LF := by
              intro h; subst h; exact hhead (by simp)
            have hn3 : NoCRLF (t ++ [CR]) := NoCRLF_tail (c := e) (by simpa using hn2)
            by_cases heCR : e = CR
            · subst heCR
              have hh3 : (t ++ [CR]).head? ≠ some LF := NoCRLF_head (by simpa using hn2)
              have := feed_mid_eol t .cr (Or.inr rfl) (fun _ => hh3) hn3
              simp [feed, step, unstuff, CR_ne_LF, this]
            · have := feed_mid_eol t .data (Or.inl rfl) (fun h => by cases h) hn3
              simp [feed, step, unstuff, he, heCR, this]
        · have hn2 : NoCRLF (t ++ [CR]) := NoCRLF_tail (c := d) (by simpa using hn1)
          have := feed_mid_eol t .data (Or.inl rfl) (fun h => by cases h) hn2
          simp [feed, step, unstuff, hd, this]
    · have hn1 : NoCRLF (t ++ [CR]) := NoCRLF_tail (c := c) (by simpa using hn)
      by_cases hcr : c = CR
      · subst hcr
        have hh : (t ++ [CR]).head? ≠ some LF := NoCRLF_head (by simpa using hn)
        have := feed_mid_eol t .cr (Or.inr rfl) (fun _ => hh) hn1
        simp [feed, step, unstuff, hc, this]
      · have := feed_mid_eol t .data (Or.inl rfl) (fun h => by cases h) hn1
        simp [feed, step, unstuff, hc, hcr, this]

theorem run_marker (rest : Bytes) : run .bol (Spec.marker ++ rest) = (.eof, [], rest) := by
  simp [Spec.marker, run, step, DOT_ne_CR, CR_ne_LF]

theorem feed_lines (ls : List Bytes) (h : ∀ l ∈ ls, IsLine l ∧ l ≠ Spec.marker) :
    feed .bol ls.flatten = (.bol, (ls.map unstuff).flatten) := by
  induction ls with
  | nil => simp [feed]
  | cons l ls ih =>
    have hl := h l (by simp)
    have ih' := ih (fun x hx => h x (by simp [hx]))
    simp [List.flatten_cons, feed_append, feed_line l hl.1 hl.2, ih']

/-- every terminated stream yields exactly its body, then EOF, leaving exactly `rest` -/
theorem run_terminated (s body rest : Bytes) (h : Terminated s body rest) :
    run .bol s = (.eof, body, rest) := by
  obtain ⟨ls, rfl, hls, rfl⟩ := h
  have hf := feed_lines ls hls
  have : (feed .bol ls.flatten).1 ≠ .eof := by simp [hf]
  rw [List.append_assoc, run_of_feed _ _ _ this, hf, run_marker]
  simp


/-! ### facts about one `readLoop` -/

theorem readLoop_len (s : St) (inp : Bytes) (k : Nat) : (readLoop s inp k).2.1.length ≤ k := by
  fun_induction readLoop s inp k <;> simp_all +zetaDelta <;> omega

/-- the loop stops early only at the end marker or when the source is exhausted -/
theorem readLoop_stop (s : St) (inp : Bytes) (k : Nat) (h : (readLoop s inp k).2.1.length < k) :
    (readLoop s inp k).1 = .eof ∨ (readLoop s inp k).2.2 = [] := by
  fun_induction readLoop s inp k <;> simp_all +zetaDelta <;> omega

/-- states in which the loop can be left with a full buffer -/
def Boundary (s : St) : Prop := s = .bol ∨ s = .cr ∨ s = .data

theorem it_emit_boundary (s : St) (c e : Byte) (s' : St) (b : Bool) (h : it s c = (s', some e, b)) :
    Boundary s' := by
  cases s <;> simp [it] at h <;> (repeat' split at h) <;> simp_all [Boundary]

theorem readLoop_boundary (s : St) (inp : Bytes) (k : Nat) (hb : Boundary s ∨ 0 < k)
    (h : (readLoop s inp k).2.1.length = k) : Boundary (readLoop s inp k).1 := by
  fun_induction readLoop s inp k with
  | case1 s inp => simpa using hb
  | case2 inp k hk => simp at h; exact absurd h.symm hk
  | case3 s k hk hs => simp at h; exact absurd h.symm hk
  | case4 inp k => simp at h
  | case5 c inp hc => simp [Boundary]
  | case6 c inp hc k' s' r ih =>
    apply ih
    · left
      simp only [s', it]
      (repeat' split) <;> simp [Boundary]
    · simpa [r] using h
  | case7 s c inp k hs1 hs2 s' e b hit r ih =>
    apply ih
    · left; exact it_emit_boundary s c e s' b hit
    · simpa [r] using h
  | case8 s c inp k hs1 hs2 s' b hit r ih =>
    apply ih
    · right; omega
    · simpa [r] using h

theorem run_dotcr_nil (inp r : Bytes) (h : run .dotcr inp = (.eof, [], r)) : inp = LF :: r := by
  match inp with
  | [] => simp at h
  | a :: t =>
    rw [run_cons _ (by decide)] at h
    by_cases ha : a = LF
    · subst ha; simp [step] at h; simp [h]
    · by_cases hc : a = CR <;> simp [step, ha, hc] at h

theorem run_dot_nil (inp r : Bytes) (h : run .dot inp = (.eof, [], r)) : inp = CR :: LF :: r := by
  match inp with
  | [] => simp at h
  | a :: t =>
    rw [run_cons _ (by decide)] at h
    by_cases ha : a = CR
    · subst ha; simp [step] at h
      have := run_dotcr_nil t r (by ext <;> simp [h])
      simp [this]
    · simp [step, ha] at h

/-- from a boundary state, reaching the end marker without output means the marker is next -/
theorem run_boundary_nil (s : St) (inp rest0 : Bytes) (hb : Boundary s)
    (h : run s inp = (.eof, [], rest0)) : s = .bol ∧ inp = Spec.marker ++ rest0 := by
  rcases hb with rfl | rfl | rfl
  · refine ⟨rfl, ?_⟩
    match inp with
    | [] => simp at h
    | a :: t =>
      rw [run_cons _ (by decide)] at h
      by_cases ha : a = DOT
      · subst ha; simp [step] at h
        have := run_dot_nil t rest0 (by ext <;> simp [h])
        simp [this, Spec.marker]
      · by_cases hc : a = CR <;> simp [step, ha, hc] at h
  · match inp with
    | [] => simp at h
    | a :: t =>
      rw [run_cons _ (by decide)] at h
      by_cases ha : a = LF
      · simp [step, ha] at h
      · by_cases hc : a = CR <;> simp [step, ha, hc] at h
  · match inp with
    | [] => simp at h
    | a :: t =>
      rw [run_cons _ (by decide)] at h
      by_cases hc : a = CR <;> simp [step, hc] at h


end SmtpV.DataReader
