import SmtpV.Model.StatusChans
/-!
The channel mechanism of `statusCollector` implements the attribution specification
(`Spec.Mon.expectedStatuses`): the i-th recipient, being the j-th occurrence of its address, receives the
j-th status the backend set for that address, and the backend's return value where it set none.
-/
namespace SmtpV.StatusChans
open SmtpV SmtpV.Spec SmtpV.Spec.Mon

/-- the channel of an address: the first one that carries it -/
def chanOf (cs : Chans) (a : Bytes) : Option Chan := cs.find? (·.addr == a)

theorem chanOf_cons (c : Chan) (cs : Chans) (a : Bytes) :
    chanOf (c :: cs) a = if c.addr == a then some c else chanOf cs a := by
  simp only [chanOf, List.find?_cons]; split <;> simp_all

/-- no channel holds more than its capacity -/
def Wf (cs : Chans) : Prop := ∀ b c, chanOf cs b = some c → c.q.length ≤ c.cap

/-- the statuses the backend set for `a`, in the order of the calls -/
def mine (calls : List (Bytes × BRes)) (a : Bytes) : List BRes := (calls.filter (·.1 == a)).map (·.2)

/-! ### `SetStatus` -/

theorem setStatus_spec (cs : Chans) (a : Bytes) (r : BRes) (cs' : Chans) (h : setStatus cs a r = some cs') :
    ∃ c, chanOf cs a = some c ∧ c.q.length < c.cap ∧
      ∀ b, chanOf cs' b = if b == a then some { c with q := c.q ++ [r] } else chanOf cs b := by
  induction cs generalizing cs' with
  | nil => simp [setStatus] at h
  | cons c cs ih =>
    simp only [setStatus] at h
    split at h
    · rename_i hca
      split at h
      · rename_i hlt
        cases h
        refine ⟨c, by simp [chanOf_cons, hca], hlt, ?_⟩
        intro b
        have hca' : c.addr = a := by simpa using hca
        simp only [chanOf_cons]
        by_cases hb : b = a
        · subst hb; simp [hca']
        · have : (c.addr == b) = false := by simp [hca', Ne.symm hb]
          simp [this, hb]
      · cases h
    · rename_i hca
      cases hs : setStatus cs a r with
      | none => simp [hs] at h
      | some cs'' =>
        simp only [hs, Option.map_some, Option.some.injEq] at h
        subst h
        obtain ⟨c0, h1, h2, h3⟩ := ih cs'' hs
        refine ⟨c0, by simp [chanOf_cons, hca, h1], h2, ?_⟩
        intro b
        simp only [chanOf_cons]
        by_cases hb : b = a
        · subst hb; simp [hca, h3]
        · split
          · simp [hb]
          · simp [h3 b, hb]

/-- after the backend's calls every channel holds what it held plus the statuses set for its address -/
theorem setAll_spec (calls : List (Bytes × BRes)) : ∀ (cs cs' : Chans), setAll cs calls = some cs' → Wf cs →
    Wf cs' ∧ ∀ b, chanOf cs' b = (chanOf cs b).map fun c => { c with q := c.q ++ mine calls b } := by
  induction calls with
  | nil =>
    intro cs cs' h hw
    simp only [setAll, Option.some.injEq] at h
    subst h
    refine ⟨hw, fun b => ?_⟩
    cases chanOf cs b <;> simp [mine]
  | cons call rest ih =>
    intro cs cs' h hw
    obtain ⟨a, r⟩ := call
    simp only [setAll] at h
    cases hs : setStatus cs a r with
    | none => simp [hs] at h
    | some cs1 =>
      simp only [hs] at h
      obtain ⟨c, hc, hlt, hupd⟩ := setStatus_spec cs a r cs1 hs
      have hw1 : Wf cs1 := by
        intro b c1 hb
        rw [hupd b] at hb
        split at hb
        · cases hb; simp; omega
        · exact hw b c1 hb
      obtain ⟨hw', hq⟩ := ih cs1 cs' h hw1
      refine ⟨hw', fun b => ?_⟩
      rw [hq b, hupd b]
      by_cases hb : b = a
      · subst hb
        simp [hc, mine, List.append_assoc]
      · have : ((a, r).1 == b) = false := by simp [Ne.symm hb]
        simp only [beq_iff_eq, hb, if_false]
        cases chanOf cs b with
        | none => rfl
        | some c0 => simp [mine, List.filter_cons, this]

/-! ### `fillRemaining` and receiving -/

theorem chanOf_fill (cs : Chans) (r : BRes) (b : Bytes) :
    chanOf (fill cs r) b = (chanOf cs b).map fun c => { c with q := c.q ++ List.replicate (c.cap - c.q.length) r } := by
  induction cs with
  | nil => rfl
  | cons c cs ih =>
    simp only [fill, List.map_cons, chanOf_cons] at ih ⊢
    split
    · rfl
    · exact ih

theorem recv_spec (cs : Chans) (a : Bytes) (c : Chan) (r : BRes) (q' : List BRes)
    (hc : chanOf cs a = some c) (hq : c.q = r :: q') :
    ∃ cs', recv cs a = some (r, cs') ∧
      ∀ b, chanOf cs' b = if b == a then some { c with q := q' } else chanOf cs b := by
  induction cs with
  | nil => simp [chanOf] at hc
  | cons c0 cs ih =>
    simp only [chanOf_cons] at hc
    simp only [recv]
    split at hc
    · rename_i hca
      cases hc
      simp only [hca, if_true, hq]
      refine ⟨_, rfl, ?_⟩
      intro b
      have hca' : c.addr = a := by simpa using hca
      simp only [chanOf_cons]
      by_cases hb : b = a
      · subst hb; simp [hca']
      · have : (c.addr == b) = false := by simp [hca', Ne.symm hb]
        simp [this, hb]
    · rename_i hca
      obtain ⟨cs', h1, h2⟩ := ih hc
      simp only [hca, Bool.false_eq_true, if_false, h1, Option.map_some]
      refine ⟨_, rfl, ?_⟩
      intro b
      simp only [chanOf_cons]
      by_cases hb : b = a
      · subst hb; simp [hca, h2]
      · split
        · simp [hb]
        · simp [h2 b, hb]

theorem countOf_append (a : Bytes) (l m : List Bytes) : countOf a (l ++ m) = countOf a l + countOf a m := by
  simp [countOf, List.filter_append]

theorem countOf_cons_self (a : Bytes) (l : List Bytes) : countOf a (a :: l) = countOf a l + 1 := by
  simp [countOf, List.filter_cons]

theorem countOf_cons_ne (a b : Bytes) (l : List Bytes) (h : b ≠ a) : countOf a (b :: l) = countOf a l := by
  have : (b == a) = false := by simpa using h
  simp [countOf, List.filter_cons, this]

/-- the full content of a filled channel -/
def full (calls : List (Bytes × BRes)) (ret : BRes) (n : Nat) (a : Bytes) : List BRes :=
  mine calls a ++ List.replicate (n - (mine calls a).length) ret

theorem full_get (calls : List (Bytes × BRes)) (ret : BRes) (n : Nat) (a : Bytes) (j : Nat) (hj : j < n)
    (hm : (mine calls a).length ≤ n) :
    (full calls ret n a).drop j = ((mine calls a)[j]?).getD ret :: (full calls ret n a).drop (j + 1) := by
  have hlen : (full calls ret n a).length = n := by simp [full]; omega
  have hjl : j < (full calls ret n a).length := by omega
  have hx : (full calls ret n a)[j]? = some (((mine calls a)[j]?).getD ret) := by
    unfold full
    rw [List.getElem?_append]
    split
    · rename_i h; simp [List.getElem?_eq_getElem h]
    · rename_i h
      have h' : (mine calls a).length ≤ j := by omega
      rw [List.getElem?_replicate]
      have : j - (mine calls a).length < n - (mine calls a).length := by omega
      simp [this, List.getElem?_eq_none h']
  rw [List.drop_eq_getElem_cons hjl]
  congr 1
  have := List.getElem?_eq_getElem hjl
  rw [hx] at this
  exact (Option.some.inj this).symm

/-- receiving in RCPT order from filled channels yields the specification's attribution -/
theorem recvAll_spec (calls : List (Bytes × BRes)) (ret : BRes) (rcpts : List Bytes) :
    ∀ (rest seen : List Bytes) (cs : Chans), seen ++ rest = rcpts →
      (∀ b, b ∈ rest → ∃ c, chanOf cs b = some c ∧ c.q = (full calls ret (countOf b rcpts) b).drop (countOf b seen)) →
      (∀ b, b ∈ rcpts → (mine calls b).length ≤ countOf b rcpts) →
      recvAll cs rest = some (expectedStatuses.go calls ret rest seen) := by
  intro rest
  induction rest with
  | nil => intro seen cs _ _ _; simp [recvAll, expectedStatuses.go]
  | cons a rest ih =>
    intro seen cs hsplit hch hm
    have ha : a ∈ rcpts := by rw [← hsplit]; simp
    obtain ⟨c, hc, hq⟩ := hch a (by simp)
    have hj : countOf a seen < countOf a rcpts := by
      rw [← hsplit, countOf_append, countOf_cons_self]; omega
    rw [full_get calls ret _ a _ hj (hm a ha)] at hq
    obtain ⟨cs', hr, hupd⟩ := recv_spec cs a c _ _ hc hq
    simp only [recvAll, hr, expectedStatuses.go]
    have := ih (seen ++ [a]) cs' (by simp [← hsplit]) ?_ hm
    · rw [this]; simp [mine]
    · intro b hb
      rw [hupd b]
      by_cases hba : b = a
      · subst hba
        refine ⟨{ c with q := List.drop (countOf b seen + 1) (full calls ret (countOf b rcpts) b) }, by simp, ?_⟩
        have : countOf b (seen ++ [b]) = countOf b seen + 1 := by
          rw [countOf_append, countOf_cons_self]; simp [countOf]
        simp [this]
      · obtain ⟨c', hc', hq'⟩ := hch b (List.mem_cons_of_mem _ hb)
        refine ⟨c', by simp [hba, hc'], ?_⟩
        rw [hq', countOf_append, countOf_cons_ne b a [] (Ne.symm hba)]
        simp [countOf]

/-! ### creation -/

theorem chanOf_create (rcpts : List Bytes) (a : Bytes) (ha : a ∈ rcpts) :
    chanOf (create rcpts) a = some { addr := a, cap := countOf a rcpts } := by
  have hmem : a ∈ rcpts.eraseDups := List.mem_eraseDups.mpr ha
  unfold create
  generalize rcpts.eraseDups = ds at hmem ⊢
  induction ds with
  | nil => cases hmem
  | cons d ds ih =>
    simp only [List.map_cons, chanOf_cons]
    by_cases hd : d = a
    · subst hd; simp
    · have : (d == a) = false := by simpa using hd
      simp only [this, Bool.false_eq_true, if_false]
      rcases List.mem_cons.mp hmem with h | h
      · exact absurd h.symm hd
      · exact ih h

theorem Wf_create (rcpts : List Bytes) : Wf (create rcpts) := by
  intro b c hc
  have : c ∈ create rcpts := List.mem_of_find?_eq_some hc
  simp only [create, List.mem_map] at this
  obtain ⟨a, _, rfl⟩ := this
  simp

/-- **the mechanism implements the specification.**  Whenever the backend's `SetStatus` calls do not panic, the
    replies the command loop collects — one per accepted recipient, in RCPT order — are exactly the
    attribution the specification prescribes. -/
theorem run_eq_spec (rcpts : List Bytes) (calls : List (Bytes × BRes)) (ret : BRes) (cs : Chans)
    (h : setAll (create rcpts) calls = some cs) :
    run rcpts calls ret = some (expectedStatuses rcpts calls ret) := by
  obtain ⟨hw, hq⟩ := setAll_spec calls (create rcpts) cs h (Wf_create rcpts)
  simp only [run, h, expectedStatuses]
  apply recvAll_spec calls ret rcpts rcpts [] (fill cs ret) (by simp)
  · intro b hb
    have h1 := hq b
    rw [chanOf_create rcpts b hb] at h1
    simp only [Option.map_some, List.nil_append] at h1
    refine ⟨_, by rw [chanOf_fill, h1]; rfl, ?_⟩
    simp [full, countOf]
  · intro b hb
    have h1 := hq b
    rw [chanOf_create rcpts b hb] at h1
    simp only [Option.map_some, List.nil_append] at h1
    have := hw b _ h1
    simpa using this

end SmtpV.StatusChans
