import SmtpV.Proofs.XtextRT
import SmtpV.Proofs.ReplyRT
import SmtpV.Props.C11
import SmtpV.Model.Server
import SmtpV.Model.Client
/-!
The client-to-server trip of MAIL parameters on the models (C14): what the client's encoders write, the server's
tokeniser (`strings.Fields`), parameter parser (`parseArgs`) and parameter switch (`mailParams`) read back unchanged.
-/
set_option linter.unusedSimpArgs false
namespace SmtpV.Props.C14
open SmtpV SmtpV.Spec SmtpV.Text SmtpV.Xtext SmtpV.Parse SmtpV.Server SmtpV.Props.C11 SmtpV.Reply SmtpV.ReplyRT

/-! ### SIZE -/
theorem parseUintDec_natToDec (n bits : Nat) (h : n < 2 ^ bits) : parseUintDec (natToDec n) bits = some n := by
  obtain ⟨d, t, hdt, hd⟩ := natToDec_head n
  have hall := natToDec_digits n
  have hval := natToDec_value n
  rw [hdt] at hall hval ⊢
  unfold parseUintDec
  simp only [hall, hval, List.isEmpty_cons, Bool.false_or, Bool.not_true, Bool.false_eq_true, if_false, h, if_true]

/-! ### ENVID and AUTH values through the server's parameter switch -/

theorem printable_lt128 (v : Bytes) (h : isPrintableASCII v = true) : ∀ b ∈ v, b.toNat < 128 := by
  intro b hb
  have := List.all_eq_true.mp h b hb
  simp only [Bool.and_eq_true, decide_eq_true_eq] at this
  omega

theorem takeWhile_dom_end (dom : Bytes) (h : dom.all domOk = true) :
    dom.takeWhile (fun ch => !(ch == SP || ch == HT || ch == 62)) = dom ∧
    dom.dropWhile (fun ch => !(ch == SP || ch == HT || ch == 62)) = [] := by
  induction dom with
  | nil => simp
  | cons c dom ih =>
    simp only [List.all_cons, Bool.and_eq_true] at h
    have hc : (!(c == SP || c == HT || c == 62)) = true := h.1
    obtain ⟨i1, i2⟩ := ih h.2
    simp only [List.takeWhile_cons, List.dropWhile_cons, hc, if_true, i1, i2, and_self]

/-- a mailbox standing alone (the decoded AUTH value): parsed exactly, nothing left -/
theorem parseMailbox_alone (lp dom : Bytes) (hlp : lp ≠ []) (hlpok : lp.all lpOk = true)
    (hdom : dom ≠ []) (hdomok : dom.all domOk = true) (hlast : dom.getLast? ≠ some 64) :
    parseMailbox (lp ++ [64] ++ dom) = some (lp ++ [64] ++ dom, []) := by
  obtain ⟨c, lp', rfl⟩ : ∃ c lp', lp = c :: lp' := by
    cases lp with
    | nil => exact absurd rfl hlp
    | cons c t => exact ⟨c, t, rfl⟩
  have hc : lpOk c = true := by simp only [List.all_cons, Bool.and_eq_true] at hlpok; exact hlpok.1
  have hc34 : c ≠ 34 := by
    intro e; subst e
    simp [lpOk, isDotStringStop] at hc
  have hshape : (c :: lp') ++ [64] ++ dom = c :: (lp' ++ 64 :: dom) := by simp
  rw [hshape]
  have hds := parseDotString_lp (c :: lp') dom [] hlpok
  simp only [List.cons_append, List.reverse_nil, List.nil_append] at hds
  obtain ⟨t1, t2⟩ := takeWhile_dom_end dom hdomok
  have hsuf : hasSuffix (c :: lp' ++ [64] ++ dom) [64] = false := by
    unfold hasSuffix
    obtain ⟨d, dl, hd⟩ : ∃ d dl, dom = dl ++ [d] := by
      have := List.dropLast_concat_getLast hdom
      exact ⟨dom.getLast hdom, dom.dropLast, this.symm⟩
    have hd64 : d ≠ 64 := by
      intro e; apply hlast; rw [hd, e]; simp
    rw [hd]
    simp [List.isPrefixOf, Ne.symm hd64]
  have hlocal : parseLocalPart (c :: (lp' ++ 64 :: dom)) = some (c :: lp', 64 :: dom) := by
    unfold parseLocalPart
    split
    · rename_i t heq
      cases heq; exact absurd rfl hc34
    · exact hds
  unfold parseMailbox
  simp only [hlocal, List.isEmpty_cons, Bool.false_eq_true, if_false, t1, t2, hsuf]
  simp

/-! ### the server's parameter switch on what the client's encoders produce -/

theorem mailParams_size (cfg : Cfg) (rest : List (Bytes × Bytes)) (o : MailOpts) (bm : Bool) (n : Nat) (h : n < 2 ^ 32)
    (hm : cfg.maxMsg = 0 ∨ n ≤ cfg.maxMsg) :
    mailParams cfg (("SIZE".b, natToDec n) :: rest) o bm = mailParams cfg rest { o with size := n } bm := by
  rw [mailParams]
  have hk : ("SIZE".b == "SIZE".b) = true := by decide +kernel
  have h63 : n < 2 ^ 63 := Nat.lt_trans h (by decide)
  simp only [hk, if_true, parseUintDec_natToDec n 63 h63]
  have : (decide (cfg.maxMsg > 0) && decide (n > cfg.maxMsg)) = false := by
    rcases hm with h0 | hle
    · simp [h0]
    · have : ¬ n > cfg.maxMsg := by omega
      simp [this]
  simp only [this, Bool.false_eq_true, if_false]

theorem mailParams_envid (cfg : Cfg) (rest : List (Bytes × Bytes)) (o : MailOpts) (bm : Bool) (v : Bytes)
    (hd : cfg.dsn = true) (hv : v ≠ []) (hp : isPrintableASCII v = true) :
    mailParams cfg (("ENVID".b, encodeXtext v) :: rest) o bm = mailParams cfg rest { o with envid := v } bm := by
  rw [mailParams]
  have k1 : ("ENVID".b == "SIZE".b) = false := by decide +kernel
  have k2 : ("ENVID".b == "SMTPUTF8".b) = false := by decide +kernel
  have k3 : ("ENVID".b == "REQUIRETLS".b) = false := by decide +kernel
  have k4 : ("ENVID".b == "BODY".b) = false := by decide +kernel
  have k5 : ("ENVID".b == "RET".b) = false := by decide +kernel
  have k6 : ("ENVID".b == "ENVID".b) = true := by decide +kernel
  have he : v.isEmpty = false := by cases v with | nil => exact absurd rfl hv | cons _ _ => rfl
  simp only [k1, k2, k3, k4, k5, k6, Bool.false_eq_true, if_false, if_true, hd, Bool.not_true,
    xtext_roundtrip v (printable_lt128 v hp), he, hp, Bool.or_self]

theorem mailParams_auth_null (cfg : Cfg) (rest : List (Bytes × Bytes)) (o : MailOpts) (bm : Bool) :
    mailParams cfg (("AUTH".b, "<>".b) :: rest) o bm = mailParams cfg rest { o with auth := some [] } bm := by
  rw [mailParams]
  have k1 : ("AUTH".b == "SIZE".b) = false := by decide +kernel
  have k2 : ("AUTH".b == "SMTPUTF8".b) = false := by decide +kernel
  have k3 : ("AUTH".b == "REQUIRETLS".b) = false := by decide +kernel
  have k4 : ("AUTH".b == "BODY".b) = false := by decide +kernel
  have k5 : ("AUTH".b == "RET".b) = false := by decide +kernel
  have k6 : ("AUTH".b == "ENVID".b) = false := by decide +kernel
  have k7 : ("AUTH".b == "AUTH".b) = true := by decide +kernel
  have hd : decodeXtext "<>".b = some "<>".b := by decide +kernel
  have h1 : ("<>".b).isEmpty = false := by decide +kernel
  have h2 : ("<>".b == "<>".b) = true := by decide +kernel
  simp only [k1, k2, k3, k4, k5, k6, k7, Bool.false_eq_true, if_false, if_true, hd, h1, h2]

theorem mailParams_auth (cfg : Cfg) (rest : List (Bytes × Bytes)) (o : MailOpts) (bm : Bool) (lp dom : Bytes)
    (hlp : lp ≠ []) (hlpok : lp.all lpOk = true) (hdom : dom ≠ []) (hdomok : dom.all domOk = true)
    (hlast : dom.getLast? ≠ some 64) (hascii : ∀ b ∈ lp ++ [64] ++ dom, b.toNat < 128) :
    mailParams cfg (("AUTH".b, encodeXtext (lp ++ [64] ++ dom)) :: rest) o bm =
      mailParams cfg rest { o with auth := some (lp ++ [64] ++ dom) } bm := by
  rw [mailParams]
  have k1 : ("AUTH".b == "SIZE".b) = false := by decide +kernel
  have k2 : ("AUTH".b == "SMTPUTF8".b) = false := by decide +kernel
  have k3 : ("AUTH".b == "REQUIRETLS".b) = false := by decide +kernel
  have k4 : ("AUTH".b == "BODY".b) = false := by decide +kernel
  have k5 : ("AUTH".b == "RET".b) = false := by decide +kernel
  have k6 : ("AUTH".b == "ENVID".b) = false := by decide +kernel
  have k7 : ("AUTH".b == "AUTH".b) = true := by decide +kernel
  have he : (lp ++ [64] ++ dom).isEmpty = false := by
    cases lp with | nil => exact absurd rfl hlp | cons _ _ => rfl
  have hne : ((lp ++ [64] ++ dom) == "<>".b) = false := by
    cases lp with
    | nil => exact absurd rfl hlp
    | cons c t =>
      have hc : lpOk c = true := by simp only [List.all_cons, Bool.and_eq_true] at hlpok; exact hlpok.1
      have : c ≠ 60 := by intro e; subst e; simp [lpOk, isDotStringStop] at hc
      have h60 : ("<>".b : Bytes) = [60, 62] := by decide +kernel
      rw [h60]
      simp [this]
  simp only [k1, k2, k3, k4, k5, k6, k7, Bool.false_eq_true, if_false, if_true,
    xtext_roundtrip _ hascii, he, hne, parseMailbox_alone lp dom hlp hlpok hdom hdomok hlast]


/-! ### tokenisation -/

/-- a printing, non-space ASCII octet -/
def graphic (b : Byte) : Bool := 0x21 ≤ b.toNat && b.toNat ≤ 0x7E

theorem isSpaceRune_graphic (b : Byte) (h : graphic b = true) : isSpaceRune b.toNat = false := by
  simp only [graphic, Bool.and_eq_true, decide_eq_true_eq] at h
  simp only [isSpaceRune, Bool.or_eq_false_iff, Bool.and_eq_false_iff, beq_eq_false_iff_ne, decide_eq_false_iff_not]
  omega

def rl (s : Bytes) : List (Nat × Nat) := s.map (fun b => (b.toNat, 1))

theorem fieldsAux_token (t r cur : Bytes) (acc : List Bytes) (ht : t.all graphic = true) :
    fieldsAux (rl (t ++ r)) (t ++ r) cur acc = fieldsAux (rl r) r (t.reverse ++ cur) acc := by
  induction t generalizing cur with
  | nil => simp
  | cons b t ih =>
    simp only [List.all_cons, Bool.and_eq_true] at ht
    simp only [List.cons_append, rl, List.map_cons, fieldsAux, isSpaceRune_graphic b ht.1, Bool.false_and,
      Bool.false_eq_true, if_false, List.drop_succ_cons, List.drop_zero, List.take_succ_cons, List.take_zero,
      List.reverse_cons, List.reverse_nil, List.nil_append, List.singleton_append]
    have := ih (b :: cur) ht.2
    simp only [rl] at this
    rw [this]
    simp

theorem fieldsAux_space (r cur : Bytes) (acc : List Bytes) :
    fieldsAux (rl (SP :: r)) (SP :: r) cur acc = fieldsAux (rl r) r [] (if cur.isEmpty then acc else cur.reverse :: acc) := by
  have hs : isSpaceRune SP.toNat = true := by decide
  have h2 : (SP.toNat == 0xFFFD) = false := by decide
  simp only [rl, List.map_cons, fieldsAux, hs, h2, Bool.false_and, Bool.not_false, Bool.and_self, if_true,
    List.drop_succ_cons, List.drop_zero]

/-- the client's parameter string: every token preceded by one space -/
def spaced (ts : List Bytes) : Bytes := ts.flatMap (fun t => SP :: t)

theorem fieldsAux_spaced (ts : List Bytes) (hts : ∀ t ∈ ts, t ≠ [] ∧ t.all graphic = true) (cur : Bytes) (acc : List Bytes) :
    fieldsAux (rl (spaced ts)) (spaced ts) cur acc =
      (ts.reverse ++ (if cur.isEmpty then acc else cur.reverse :: acc)).reverse := by
  induction ts generalizing cur acc with
  | nil => simp [spaced, rl, fieldsAux]
  | cons t ts ih =>
    have ht := hts t (by simp)
    have hrest : ∀ x ∈ ts, x ≠ [] ∧ x.all graphic = true := fun x hx => hts x (by simp [hx])
    have hsp : spaced (t :: ts) = SP :: (t ++ spaced ts) := by simp [spaced]
    rw [hsp, fieldsAux_space, fieldsAux_token _ _ _ _ ht.2, ih hrest]
    have hne : (t.reverse ++ []).isEmpty = false := by
      cases t with
      | nil => exact absurd rfl ht.1
      | cons c t' => simp
    simp only [hne, Bool.false_eq_true, if_false]
    simp

theorem spaced_ascii (ts : List Bytes) (hts : ∀ t ∈ ts, t ≠ [] ∧ t.all graphic = true) : ∀ b ∈ spaced ts, b.toNat < 128 := by
  intro b hb
  simp only [spaced, List.mem_flatMap, List.mem_cons] at hb
  obtain ⟨t, ht, hb⟩ := hb
  rcases hb with rfl | hb
  · decide
  · have := List.all_eq_true.mp (hts t ht).2 b hb
    simp only [graphic, Bool.and_eq_true, decide_eq_true_eq] at this
    omega

/-- **tokenisation.**  `strings.Fields` on the client's parameter string gives back exactly the parameters -/
theorem fields_spaced (ts : List Bytes) (hts : ∀ t ∈ ts, t ≠ [] ∧ t.all graphic = true) : fields (spaced ts) = ts := by
  unfold fields
  rw [runes_ascii _ (spaced_ascii ts hts)]
  have := fieldsAux_spaced ts hts [] []
  simp only [rl] at this
  rw [this]
  simp


/-! ### `parseArgs` -/


/-- a parameter as the client writes it: `KEYWORD` or `KEYWORD=value` -/
def renderParam (p : Bytes × Bytes) : Bytes := if p.2.isEmpty then p.1 else p.1 ++ [61] ++ p.2

/-- keywords: upper-case letters and digits -/
def keyByte (b : Byte) : Bool := (65 ≤ b.toNat && b.toNat ≤ 90) || (48 ≤ b.toNat && b.toNat ≤ 57)
/-- values: printing non-space ASCII without `=` (what every encoder of the client produces) -/
def valByte (b : Byte) : Bool := graphic b && b != 61

structure ParamOk (p : Bytes × Bytes) : Prop where
  key : p.1 ≠ []
  keyb : p.1.all keyByte = true
  valb : p.2.all valByte = true

theorem keyByte_facts (b : Byte) (h : keyByte b = true) : graphic b = true ∧ b ≠ 61 ∧ ¬ (97 ≤ b.toNat ∧ b.toNat ≤ 122) ∧ b.toNat < 128 := by
  simp only [keyByte, Bool.or_eq_true, Bool.and_eq_true, decide_eq_true_eq] at h
  refine ⟨by simp only [graphic, Bool.and_eq_true, decide_eq_true_eq]; omega, ?_, by omega, by omega⟩
  intro e; subst e; simp at h

theorem map_eq_self {α} (l : List α) (f : α → α) (h : ∀ b ∈ l, f b = b) : l.map f = l := by
  induction l with
  | nil => rfl
  | cons c t ih => simp only [List.map_cons]; rw [h c (by simp), ih (fun b hb => h b (by simp [hb]))]

theorem toUpper_key (k : Bytes) (h : k.all keyByte = true) : toUpper k = k := by
  have hall : ∀ b ∈ k, keyByte b = true := fun b hb => List.all_eq_true.mp h b hb
  have hascii : isASCII k = true := by
    simp only [isASCII, List.all_eq_true, decide_eq_true_eq]
    intro b hb; exact (keyByte_facts b (hall b hb)).2.2.2
  unfold toUpper
  simp only [hascii, if_true]
  have : ∀ b ∈ k, (if 97 ≤ b.toNat && b.toNat ≤ 122 then b - 32 else b) = b := by
    intro b hb
    have := (keyByte_facts b (hall b hb)).2.2.1
    have hf : (decide (97 ≤ b.toNat) && decide (b.toNat ≤ 122)) = false := by
      simp only [Bool.and_eq_false_iff, decide_eq_false_iff_not]; omega
    simp [hf]
  exact map_eq_self k _ this

theorem splitByte_two (a b : Bytes) (sep : Byte) (ha : ∀ x ∈ a, x ≠ sep) (hb : ∀ x ∈ b, x ≠ sep) :
    splitByte (a ++ [sep] ++ b) sep = [a, b] := by
  have e : a ++ [sep] ++ b = a ++ sep :: b := by simp
  rw [e, splitByte, splitByte_go_append a _ [] [] sep ha, splitByte_go_noSep b [] _ sep hb]
  simp

theorem insertArg_new (m : List (Bytes × Bytes)) (k v : Bytes) (h : ∀ p ∈ m, p.1 ≠ k) : insertArg m k v = m ++ [(k, v)] := by
  unfold insertArg
  have : m.any (fun p => p.1 == k) = false := by
    simp only [List.any_eq_false, beq_iff_eq]
    intro p hp; exact h p hp
  simp [this]

/-- one step of `parseArgs`' loop on a rendered parameter -/
def argStep (acc : Option (List (Bytes × Bytes))) (arg : Bytes) : Option (List (Bytes × Bytes)) :=
  match acc with
  | none => none
  | some m =>
    match splitByte arg 61 with
    | [k, v] => if v.isEmpty then none else some (insertArg m (toUpper k) v)
    | [k] => some (insertArg m (toUpper k) [])
    | _ => none

theorem parseArgs_eq (s : Bytes) : parseArgs s = (fields s).foldl argStep (some []) := rfl

theorem argStep_param (m : List (Bytes × Bytes)) (p : Bytes × Bytes) (hp : ParamOk p) (hnew : ∀ q ∈ m, q.1 ≠ p.1) :
    argStep (some m) (renderParam p) = some (m ++ [p]) := by
  obtain ⟨k, v⟩ := p
  have hk : ∀ x ∈ k, x ≠ 61 := fun x hx => (keyByte_facts x (List.all_eq_true.mp hp.keyb x hx)).2.1
  have hv : ∀ x ∈ v, x ≠ 61 := by
    intro x hx
    have := List.all_eq_true.mp hp.valb x hx
    simp only [valByte, Bool.and_eq_true, bne_iff_ne] at this
    exact this.2
  unfold argStep renderParam
  simp only []
  cases hve : v.isEmpty with
  | true =>
    have : v = [] := List.isEmpty_iff.mp hve
    subst this
    simp only [if_true, splitByte_noSep k 61 hk, toUpper_key k hp.keyb, insertArg_new m k [] hnew]
  | false =>
    simp only [Bool.false_eq_true, if_false, splitByte_two k v 61 hk hv, hve, toUpper_key k hp.keyb, insertArg_new m k v hnew]

theorem foldl_params (ps : List (Bytes × Bytes)) (hps : ∀ p ∈ ps, ParamOk p) (hnd : (ps.map (·.1)).Nodup) :
    ∀ (m : List (Bytes × Bytes)), (∀ q ∈ m, ∀ p ∈ ps, q.1 ≠ p.1) →
      (ps.map renderParam).foldl argStep (some m) = some (m ++ ps) := by
  induction ps with
  | nil => intro m _; simp
  | cons p ps ih =>
    intro m hm
    simp only [List.map_cons, List.nodup_cons] at hnd
    simp only [List.map_cons, List.foldl_cons]
    rw [argStep_param m p (hps p (by simp)) (fun q hq => hm q hq p (by simp))]
    rw [ih (fun x hx => hps x (by simp [hx])) hnd.2 (m ++ [p])]
    · simp
    · intro q hq x hx
      rcases List.mem_append.mp hq with hq | hq
      · exact hm q hq x (by simp [hx])
      · simp only [List.mem_singleton] at hq
        subst hq
        intro e
        exact hnd.1 (by rw [e]; exact List.mem_map_of_mem hx)

theorem renderParam_token (p : Bytes × Bytes) (hp : ParamOk p) : renderParam p ≠ [] ∧ (renderParam p).all graphic = true := by
  obtain ⟨k, v⟩ := p
  have hkg : k.all graphic = true := by
    simp only [List.all_eq_true]
    intro b hb; exact (keyByte_facts b (List.all_eq_true.mp hp.keyb b hb)).1
  have hvg : v.all graphic = true := by
    simp only [List.all_eq_true]
    intro b hb
    have := List.all_eq_true.mp hp.valb b hb
    simp only [valByte, Bool.and_eq_true] at this
    exact this.1
  have hkne : k ≠ [] := hp.key
  unfold renderParam
  simp only []
  split
  · exact ⟨hkne, hkg⟩
  · refine ⟨by cases k with | nil => exact absurd rfl hkne | cons _ _ => simp, ?_⟩
    simp only [List.all_append, hkg, hvg, Bool.and_true, Bool.true_and]
    decide

/-- **C14_params_parse.**  The server's parameter parser applied to the client's parameter string gives back exactly the
    parameters, in order: whatever keyword/value pairs the client renders (distinct keywords; values without space
    and `=`, which is what every encoder of the client produces). -/
theorem parseArgs_spaced (ps : List (Bytes × Bytes)) (hps : ∀ p ∈ ps, ParamOk p) (hnd : (ps.map (·.1)).Nodup) :
    parseArgs (spaced (ps.map renderParam)) = some ps := by
  rw [parseArgs_eq, fields_spaced]
  · have := foldl_params ps hps hnd [] (by intro q hq; cases hq)
    simpa using this
  · intro t ht
    obtain ⟨p, hp, rfl⟩ := List.mem_map.mp ht
    exact renderParam_token p (hps p hp)


end SmtpV.Props.C14

namespace SmtpV.Props.C14
open SmtpV SmtpV.Spec SmtpV.Text SmtpV.Xtext SmtpV.Parse SmtpV.Server SmtpV.Props.C11 SmtpV.Reply SmtpV.ReplyRT

/-! ### the remaining keywords of the server's switch -/

theorem mailParams_utf8 (cfg : Cfg) (rest : List (Bytes × Bytes)) (o : MailOpts) (bm : Bool) (h : cfg.utf8 = true) :
    Server.mailParams cfg (("SMTPUTF8".b, []) :: rest) o bm = Server.mailParams cfg rest { o with utf8 := true } bm := by
  rw [Server.mailParams]
  have k1 : ("SMTPUTF8".b == "SIZE".b) = false := by decide +kernel
  have k2 : ("SMTPUTF8".b == "SMTPUTF8".b) = true := by decide +kernel
  simp only [k1, k2, Bool.false_eq_true, if_false, if_true, h, Bool.not_true, List.isEmpty_nil]

theorem mailParams_reqtls (cfg : Cfg) (rest : List (Bytes × Bytes)) (o : MailOpts) (bm : Bool) (h : cfg.reqtls = true) :
    Server.mailParams cfg (("REQUIRETLS".b, []) :: rest) o bm = Server.mailParams cfg rest { o with requireTLS := true } bm := by
  rw [Server.mailParams]
  have k1 : ("REQUIRETLS".b == "SIZE".b) = false := by decide +kernel
  have k2 : ("REQUIRETLS".b == "SMTPUTF8".b) = false := by decide +kernel
  have k3 : ("REQUIRETLS".b == "REQUIRETLS".b) = true := by decide +kernel
  simp only [k1, k2, k3, Bool.false_eq_true, if_false, if_true, h, Bool.not_true, List.isEmpty_nil]

/-- the BODY values the client can send -/
def bodyVal (v : Bytes) : Prop := v = "7BIT".b ∨ v = "8BITMIME".b ∨ v = "BINARYMIME".b

theorem mailParams_body (cfg : Cfg) (rest : List (Bytes × Bytes)) (o : MailOpts) (bm : Bool) (v : Bytes) (hv : bodyVal v)
    (h : cfg.binmime = true) :
    Server.mailParams cfg (("BODY".b, v) :: rest) o bm =
      Server.mailParams cfg rest { o with body := v } (if v == "BINARYMIME".b then true else bm) := by
  rw [Server.mailParams]
  have k1 : ("BODY".b == "SIZE".b) = false := by decide +kernel
  have k2 : ("BODY".b == "SMTPUTF8".b) = false := by decide +kernel
  have k3 : ("BODY".b == "REQUIRETLS".b) = false := by decide +kernel
  have k4 : ("BODY".b == "BODY".b) = true := by decide +kernel
  simp only [k1, k2, k3, k4, Bool.false_eq_true, if_false, if_true]
  rcases hv with rfl | rfl | rfl
  · have u : toUpper "7BIT".b = "7BIT".b := by decide +kernel
    have e1 : ("7BIT".b == "BINARYMIME".b) = false := by decide +kernel
    have e2 : ("7BIT".b == "7BIT".b) = true := by decide +kernel
    simp only [u, e1, e2, Bool.false_eq_true, if_false, Bool.true_or, if_true]
  · have u : toUpper "8BITMIME".b = "8BITMIME".b := by decide +kernel
    have e1 : ("8BITMIME".b == "BINARYMIME".b) = false := by decide +kernel
    have e2 : ("8BITMIME".b == "8BITMIME".b) = true := by decide +kernel
    simp only [u, e1, e2, Bool.false_eq_true, if_false, Bool.or_true, if_true]
  · have u : toUpper "BINARYMIME".b = "BINARYMIME".b := by decide +kernel
    have e1 : ("BINARYMIME".b == "BINARYMIME".b) = true := by decide +kernel
    simp only [u, e1, if_true, h, Bool.not_true, Bool.false_eq_true, if_false]

def retVal (v : Bytes) : Prop := v = "FULL".b ∨ v = "HDRS".b

theorem mailParams_ret (cfg : Cfg) (rest : List (Bytes × Bytes)) (o : MailOpts) (bm : Bool) (v : Bytes) (hv : retVal v)
    (h : cfg.dsn = true) :
    Server.mailParams cfg (("RET".b, v) :: rest) o bm = Server.mailParams cfg rest { o with ret := v } bm := by
  rw [Server.mailParams]
  have k1 : ("RET".b == "SIZE".b) = false := by decide +kernel
  have k2 : ("RET".b == "SMTPUTF8".b) = false := by decide +kernel
  have k3 : ("RET".b == "REQUIRETLS".b) = false := by decide +kernel
  have k4 : ("RET".b == "BODY".b) = false := by decide +kernel
  have k5 : ("RET".b == "RET".b) = true := by decide +kernel
  simp only [k1, k2, k3, k4, k5, Bool.false_eq_true, if_false, if_true, h, Bool.not_true]
  rcases hv with rfl | rfl
  · have u : toUpper "FULL".b = "FULL".b := by decide +kernel
    have e : ("FULL".b == "FULL".b) = true := by decide +kernel
    simp only [u, e, Bool.true_or, if_true]
  · have u : toUpper "HDRS".b = "HDRS".b := by decide +kernel
    have e : ("HDRS".b == "HDRS".b) = true := by decide +kernel
    simp only [u, e, Bool.or_true, if_true]

end SmtpV.Props.C14

namespace SmtpV.Props.C14
open SmtpV SmtpV.Spec SmtpV.Text SmtpV.Xtext SmtpV.Parse SmtpV.Server SmtpV.Props.C11 SmtpV.Reply SmtpV.ReplyRT

/-! ### the client's side: its parameter string is the spaced rendering of a parameter list -/

def bodyT (o : Client.MailOptions) : List (Bytes × Bytes) := [("BODY".b, if o.body.isEmpty then "8BITMIME".b else o.body)]
def sizeT (o : Client.MailOptions) : List (Bytes × Bytes) := if o.size != 0 then [("SIZE".b, natToDec o.size.toNat)] else []
def tlsT (o : Client.MailOptions) : List (Bytes × Bytes) := if o.requireTLS then [("REQUIRETLS".b, [])] else []
def utf8T (o : Client.MailOptions) : List (Bytes × Bytes) := if o.utf8 then [("SMTPUTF8".b, [])] else []
def retT (o : Client.MailOptions) : List (Bytes × Bytes) := if o.ret.isEmpty then [] else [("RET".b, o.ret)]
def envidT (o : Client.MailOptions) : List (Bytes × Bytes) := if o.envid.isEmpty then [] else [("ENVID".b, encodeXtext o.envid)]
def authT (o : Client.MailOptions) : List (Bytes × Bytes) :=
  match o.auth with
  | none => []
  | some a => [("AUTH".b, if a.isEmpty then "<>".b else encodeXtext a)]

/-- the MAIL parameters the client writes for `o` when every extension is on offer -/
def mailToks (o : Client.MailOptions) : List (Bytes × Bytes) :=
  bodyT o ++ sizeT o ++ tlsT o ++ utf8T o ++ retT o ++ envidT o ++ authT o

/-- the server offered every extension the options may need -/
structure AllExt (ext : List (Bytes × Bytes)) : Prop where
  e8 : Client.hasExt ext "8BITMIME" = true
  bin : Client.hasExt ext "BINARYMIME" = true
  size : Client.hasExt ext "SIZE" = true
  tls : Client.hasExt ext "REQUIRETLS" = true
  utf8 : Client.hasExt ext "SMTPUTF8" = true
  dsn : Client.hasExt ext "DSN" = true
  auth : Client.hasExt ext "AUTH" = true

/-- a mailbox of the class every client sends (dot-string local part), in 7-bit ASCII -/
def plainMailbox (a : Bytes) : Prop :=
  ∃ lp dom, a = lp ++ [64] ++ dom ∧ lp ≠ [] ∧ lp.all lpOk = true ∧ dom ≠ [] ∧ dom.all domOk = true ∧
    dom.getLast? ≠ some 64 ∧ ∀ b ∈ lp ++ [64] ++ dom, b.toNat < 128

/-- the option values the client API accepts (printable ASCII part of the property's domain) -/
structure MailDomain (o : Client.MailOptions) : Prop where
  body : o.body = [] ∨ bodyVal o.body
  size : 0 ≤ o.size ∧ o.size < 2 ^ 32
  ret : o.ret = [] ∨ retVal o.ret
  envid : isPrintableASCII o.envid = true
  auth : ∀ a, o.auth = some a → a = [] ∨ plainMailbox a

theorem spaced_append (a b : List Bytes) : spaced (a ++ b) = spaced a ++ spaced b := by simp [spaced]
theorem spaced_nil : spaced [] = [] := rfl
theorem spaced_one (t : Bytes) : spaced [t] = SP :: t := by simp [spaced]

theorem client_body (ext : List (Bytes × Bytes)) (o : Client.MailOptions) (he : AllExt ext) (hb : o.body = [] ∨ bodyVal o.body) :
    Client.bodyParam ext (some o) = some (spaced ((bodyT o).map renderParam)) := by
  unfold Client.bodyParam bodyT
  simp only [List.map_cons, List.map_nil, spaced_one, renderParam, he.e8, he.bin, if_true]
  generalize o.body = b at hb
  rcases hb with rfl | rfl | rfl | rfl <;> decide +kernel

theorem client_size (ext : List (Bytes × Bytes)) (o : Client.MailOptions) (he : AllExt ext) (hs : 0 ≤ o.size) :
    Client.sizeParam ext o = spaced ((sizeT o).map renderParam) := by
  unfold Client.sizeParam sizeT
  simp only [he.size, Bool.true_and]
  split
  · obtain ⟨d, t, hdt, _⟩ := natToDec_head o.size.toNat
    have hne : (natToDec o.size.toNat).isEmpty = false := by rw [hdt]; rfl
    have hi : intToDec o.size = natToDec o.size.toNat := by
      unfold intToDec
      have : ¬ o.size < 0 := by omega
      simp [this]
    have hl : " SIZE=".b = SP :: ("SIZE".b ++ [61]) := by decide +kernel
    simp only [List.map_cons, List.map_nil, spaced_one, renderParam, hne, Bool.false_eq_true, if_false, hi, hl]
    simp
  · rfl

theorem client_tls (ext : List (Bytes × Bytes)) (o : Client.MailOptions) (he : AllExt ext) :
    Client.requireTLSParam ext o = some (spaced ((tlsT o).map renderParam)) := by
  unfold Client.requireTLSParam tlsT
  split
  · simp only [he.tls, if_true, List.map_cons, List.map_nil, spaced_one, renderParam]
    decide +kernel
  · rfl

theorem client_utf8 (ext : List (Bytes × Bytes)) (o : Client.MailOptions) (he : AllExt ext) :
    Client.utf8Param ext o = some (spaced ((utf8T o).map renderParam)) := by
  unfold Client.utf8Param utf8T
  split
  · simp only [he.utf8, if_true, List.map_cons, List.map_nil, spaced_one, renderParam]
    decide +kernel
  · rfl

theorem client_ret (o : Client.MailOptions) (hr : o.ret = [] ∨ retVal o.ret) :
    Client.retParam o = some (spaced ((retT o).map renderParam)) := by
  unfold Client.retParam retT
  generalize o.ret = r at hr
  rcases hr with rfl | rfl | rfl <;> decide +kernel

theorem encodeXtext_nonempty (v : Bytes) (h : v ≠ []) (ha : ∀ b ∈ v, b.toNat < 128) : (encodeXtext v).isEmpty = false := by
  rw [encodeXtext_ascii v ha]
  cases v with
  | nil => exact absurd rfl h
  | cons c t =>
    simp only [List.flatMap_cons, encByte]
    split <;> rfl

theorem client_envid (o : Client.MailOptions) (hp : isPrintableASCII o.envid = true) :
    Client.envidParam o = some (spaced ((envidT o).map renderParam)) := by
  unfold Client.envidParam envidT
  split
  · rfl
  · rename_i hne
    have hne' : o.envid ≠ [] := by intro e; rw [e] at hne; exact hne rfl
    have hl : " ENVID=".b = SP :: ("ENVID".b ++ [61]) := by decide +kernel
    simp only [hp, Bool.not_true, Bool.false_eq_true, if_false, List.map_cons, List.map_nil, spaced_one, renderParam,
      encodeXtext_nonempty o.envid hne' (printable_lt128 _ hp), hl]
    simp

theorem client_auth (ext : List (Bytes × Bytes)) (o : Client.MailOptions) (he : AllExt ext)
    (ha : ∀ a, o.auth = some a → a = [] ∨ plainMailbox a) :
    Client.authParam ext o = spaced ((authT o).map renderParam) := by
  unfold Client.authParam authT
  cases hau : o.auth with
  | none => rfl
  | some a =>
    simp only [he.auth, if_true]
    rcases ha a hau with h | ⟨lp, dom, h, hlp, _, _, _, _, hasc⟩
    · subst h
      decide +kernel
    · have hne : a ≠ [] := by
        rw [h]; cases lp with | nil => exact absurd rfl hlp | cons _ _ => simp
      have hie : a.isEmpty = false := by cases a with | nil => exact absurd rfl hne | cons _ _ => rfl
      have hl : " AUTH=".b = SP :: ("AUTH".b ++ [61]) := by decide +kernel
      simp only [hie, Bool.false_eq_true, if_false, List.map_cons, List.map_nil, spaced_one, renderParam,
        encodeXtext_nonempty a hne (by rw [h]; exact hasc), hl]
      simp

/-- the client's whole parameter string is the spaced rendering of `mailToks` -/
theorem client_mailParams (ext : List (Bytes × Bytes)) (o : Client.MailOptions) (he : AllExt ext) (hd : MailDomain o) :
    Client.mailParams ext (some o) = some (spaced ((mailToks o).map renderParam)) := by
  unfold Client.mailParams Client.dsnMailParams
  simp only [client_body ext o he hd.body, client_tls ext o he, client_utf8 ext o he, he.dsn, if_true,
    client_ret o hd.ret, client_envid o hd.envid, client_size ext o he hd.size.1, client_auth ext o he hd.auth]
  simp only [mailToks, List.map_append, spaced_append, List.append_assoc]

end SmtpV.Props.C14

namespace SmtpV.Props.C14
open SmtpV SmtpV.Spec SmtpV.Text SmtpV.Xtext SmtpV.Parse SmtpV.Server SmtpV.Props.C11 SmtpV.Reply SmtpV.ReplyRT

/-! ### the server's switch over the client's parameter list, piece by piece -/

/-- the server configuration enables what the options may use -/
structure CfgOn (cfg : Cfg) (o : Client.MailOptions) : Prop where
  utf8 : cfg.utf8 = true
  reqtls : cfg.reqtls = true
  binmime : cfg.binmime = true
  dsn : cfg.dsn = true
  fits : cfg.maxMsg = 0 ∨ o.size.toNat ≤ cfg.maxMsg

theorem step_size (cfg : Cfg) (o : Client.MailOptions) (hc : CfgOn cfg o) (hd : MailDomain o) (rest : List (Bytes × Bytes))
    (o' : MailOpts) (bm : Bool) (h0 : o'.size = 0) :
    Server.mailParams cfg (sizeT o ++ rest) o' bm = Server.mailParams cfg rest { o' with size := o.size.toNat } bm := by
  unfold sizeT
  split
  · have hlt : o.size.toNat < 2 ^ 32 := by have := hd.size; omega
    simp only [List.cons_append, List.nil_append, mailParams_size cfg rest o' bm _ hlt hc.fits]
  · rename_i hz
    have : o.size = 0 := by simpa using hz
    simp only [List.nil_append, this, Int.toNat_zero]
    congr 1
    cases o'; simp_all

theorem step_tls (cfg : Cfg) (o : Client.MailOptions) (hc : CfgOn cfg o) (rest : List (Bytes × Bytes))
    (o' : MailOpts) (bm : Bool) (h0 : o'.requireTLS = false) :
    Server.mailParams cfg (tlsT o ++ rest) o' bm = Server.mailParams cfg rest { o' with requireTLS := o.requireTLS } bm := by
  unfold tlsT
  split
  · rename_i h
    simp only [List.cons_append, List.nil_append, mailParams_reqtls cfg rest o' bm hc.reqtls, h]
  · rename_i h
    have : o.requireTLS = false := by simpa using h
    simp only [List.nil_append, this]
    congr 1
    cases o'; simp_all

theorem step_utf8 (cfg : Cfg) (o : Client.MailOptions) (hc : CfgOn cfg o) (rest : List (Bytes × Bytes))
    (o' : MailOpts) (bm : Bool) (h0 : o'.utf8 = false) :
    Server.mailParams cfg (utf8T o ++ rest) o' bm = Server.mailParams cfg rest { o' with utf8 := o.utf8 } bm := by
  unfold utf8T
  split
  · rename_i h
    simp only [List.cons_append, List.nil_append, mailParams_utf8 cfg rest o' bm hc.utf8, h]
  · rename_i h
    have : o.utf8 = false := by simpa using h
    simp only [List.nil_append, this]
    congr 1
    cases o'; simp_all

theorem step_ret (cfg : Cfg) (o : Client.MailOptions) (hc : CfgOn cfg o) (hd : MailDomain o) (rest : List (Bytes × Bytes))
    (o' : MailOpts) (bm : Bool) (h0 : o'.ret = []) :
    Server.mailParams cfg (retT o ++ rest) o' bm = Server.mailParams cfg rest { o' with ret := o.ret } bm := by
  unfold retT
  split
  · rename_i h
    have : o.ret = [] := List.isEmpty_iff.mp h
    simp only [List.nil_append, this]
    congr 1
    cases o'; simp_all
  · rename_i h
    have hv : retVal o.ret := by
      rcases hd.ret with e | e
      · rw [e] at h; exact absurd rfl h
      · exact e
    simp only [List.cons_append, List.nil_append, mailParams_ret cfg rest o' bm _ hv hc.dsn]

theorem step_envid (cfg : Cfg) (o : Client.MailOptions) (hc : CfgOn cfg o) (hd : MailDomain o) (rest : List (Bytes × Bytes))
    (o' : MailOpts) (bm : Bool) (h0 : o'.envid = []) :
    Server.mailParams cfg (envidT o ++ rest) o' bm = Server.mailParams cfg rest { o' with envid := o.envid } bm := by
  unfold envidT
  split
  · rename_i h
    have : o.envid = [] := List.isEmpty_iff.mp h
    simp only [List.nil_append, this]
    congr 1
    cases o'; simp_all
  · rename_i h
    have hne : o.envid ≠ [] := by intro e; rw [e] at h; exact h rfl
    simp only [List.cons_append, List.nil_append, mailParams_envid cfg rest o' bm _ hc.dsn hne hd.envid]

theorem step_auth (cfg : Cfg) (o : Client.MailOptions) (hd : MailDomain o) (rest : List (Bytes × Bytes))
    (o' : MailOpts) (bm : Bool) (h0 : o'.auth = none) :
    Server.mailParams cfg (authT o ++ rest) o' bm = Server.mailParams cfg rest { o' with auth := o.auth } bm := by
  unfold authT
  cases hau : o.auth with
  | none =>
    simp only [List.nil_append]
    congr 1
    cases o'; simp_all
  | some a =>
    simp only [List.cons_append, List.nil_append]
    rcases hd.auth a hau with h | ⟨lp, dom, h, hlp, hlpok, hdom, hdomok, hlast, hasc⟩
    · subst h
      simp only [List.isEmpty_nil, if_true, mailParams_auth_null]
    · have hne : a ≠ [] := by
        rw [h]; cases lp with | nil => exact absurd rfl hlp | cons _ _ => simp
      have hie : a.isEmpty = false := by cases a with | nil => exact absurd rfl hne | cons _ _ => rfl
      simp only [hie, Bool.false_eq_true, if_false]
      rw [h, mailParams_auth cfg rest o' bm lp dom hlp hlpok hdom hdomok hlast hasc]

/-- what the backend's `Mail` is handed for the client's options -/
def expected (o : Client.MailOptions) : MailOpts :=
  { body := if o.body.isEmpty then "8BITMIME".b else o.body, size := o.size.toNat, requireTLS := o.requireTLS,
    utf8 := o.utf8, ret := o.ret, envid := o.envid, auth := o.auth }

theorem server_mailToks (cfg : Cfg) (o : Client.MailOptions) (hc : CfgOn cfg o) (hd : MailDomain o) :
    Server.mailParams cfg (mailToks o) {} false =
      .ok (expected o, (if o.body.isEmpty then "8BITMIME".b else o.body) == "BINARYMIME".b) := by
  have hbv : bodyVal (if o.body.isEmpty then "8BITMIME".b else o.body) := by
    rcases hd.body with h | h
    · rw [h]; exact Or.inr (Or.inl rfl)
    · have : o.body.isEmpty = false := by
        rcases h with e | e | e <;> rw [e] <;> decide +kernel
      simp only [this, Bool.false_eq_true, if_false]; exact h
  unfold mailToks bodyT
  simp only [List.cons_append, List.nil_append, List.append_assoc]
  rw [mailParams_body cfg _ _ _ _ hbv hc.binmime, step_size cfg o hc hd _ _ _ rfl, step_tls cfg o hc _ _ _ rfl,
    step_utf8 cfg o hc _ _ _ rfl, step_ret cfg o hc hd _ _ _ rfl, step_envid cfg o hc hd _ _ _ rfl]
  rw [← List.append_nil (authT o), step_auth cfg o hd [] _ _ rfl, Server.mailParams]
  simp only [expected]
  generalize ((if o.body.isEmpty = true then "8BITMIME".b else o.body) == "BINARYMIME".b) = c
  cases c <;> rfl

end SmtpV.Props.C14

namespace SmtpV.Props.C14
open SmtpV SmtpV.Spec SmtpV.Text SmtpV.Xtext SmtpV.Parse SmtpV.Server SmtpV.Props.C11 SmtpV.Reply SmtpV.ReplyRT

/-! ### every parameter of `mailToks` is well-formed, the keywords are distinct -/

theorem hexDigit_val : ∀ n : Fin 16, valByte (hexDigitU n.val) = true := by decide

theorem encByte_val (b : Byte) (h : b.toNat < 128) : (encByte b).all valByte = true := by
  unfold encByte
  split
  · rename_i hs
    simp only [List.all_cons, List.all_nil, Bool.and_true, valByte, graphic, Bool.and_eq_true, decide_eq_true_eq, bne_iff_ne]
    simp only [xtextSafe, Bool.and_eq_true, decide_eq_true_eq, bne_iff_ne] at hs
    refine ⟨⟨hs.1.1.1, hs.1.1.2⟩, ?_⟩
    intro e; subst e; exact hs.2 rfl
  · rw [hex02_small _ h]
    have h1 := hexDigit_val ⟨b.toNat / 16, by omega⟩
    have h2 := hexDigit_val ⟨b.toNat % 16, by omega⟩
    simp only at h1 h2
    have h43 : valByte 43 = true := by decide
    simp only [List.all_cons, List.all_nil, Bool.and_true, h1, h2, h43, Bool.and_self]

theorem encodeXtext_val (v : Bytes) (h : ∀ b ∈ v, b.toNat < 128) : (encodeXtext v).all valByte = true := by
  rw [encodeXtext_ascii v h]
  simp only [List.all_flatMap, List.all_eq_true]
  intro b hb
  exact List.all_eq_true.mp (encByte_val b (h b hb))

theorem natToDec_val (n : Nat) : (natToDec n).all valByte = true := by
  have := natToDec_digits n
  simp only [List.all_eq_true] at this ⊢
  intro b hb
  have hd := this b hb
  simp only [isDigit, Bool.and_eq_true, decide_eq_true_eq] at hd
  simp only [valByte, graphic, Bool.and_eq_true, decide_eq_true_eq, bne_iff_ne]
  refine ⟨by omega, ?_⟩
  intro e; subst e; simp at hd

theorem paramOk_mk (k v : Bytes) (hk : k ≠ []) (hkb : k.all keyByte = true) (hv : v.all valByte = true) : ParamOk (k, v) :=
  ⟨hk, hkb, hv⟩

theorem mailToks_ok (o : Client.MailOptions) (hd : MailDomain o) : ∀ p ∈ mailToks o, ParamOk p := by
  intro p hp
  simp only [mailToks, List.mem_append] at hp
  rcases hp with (((((hp | hp) | hp) | hp) | hp) | hp) | hp
  · simp only [bodyT, List.mem_singleton] at hp
    subst hp
    refine paramOk_mk _ _ (by decide +kernel) (by decide +kernel) ?_
    rcases hd.body with h | h | h | h <;> simp only [h] <;> decide +kernel
  · unfold sizeT at hp
    split at hp
    · simp only [List.mem_singleton] at hp; subst hp
      exact paramOk_mk _ _ (by decide +kernel) (by decide +kernel) (natToDec_val _)
    · cases hp
  · unfold tlsT at hp
    split at hp
    · simp only [List.mem_singleton] at hp; subst hp
      exact paramOk_mk _ _ (by decide +kernel) (by decide +kernel) rfl
    · cases hp
  · unfold utf8T at hp
    split at hp
    · simp only [List.mem_singleton] at hp; subst hp
      exact paramOk_mk _ _ (by decide +kernel) (by decide +kernel) rfl
    · cases hp
  · unfold retT at hp
    split at hp
    · cases hp
    · simp only [List.mem_singleton] at hp; subst hp
      refine paramOk_mk _ _ (by decide +kernel) (by decide +kernel) ?_
      rcases hd.ret with h | h | h <;> simp only [h] <;> decide +kernel
  · unfold envidT at hp
    split at hp
    · cases hp
    · simp only [List.mem_singleton] at hp; subst hp
      exact paramOk_mk _ _ (by decide +kernel) (by decide +kernel) (encodeXtext_val _ (printable_lt128 _ hd.envid))
  · unfold authT at hp
    cases hau : o.auth with
    | none => rw [hau] at hp; cases hp
    | some a =>
      rw [hau] at hp
      simp only [List.mem_singleton] at hp; subst hp
      refine paramOk_mk _ _ (by decide +kernel) (by decide +kernel) ?_
      rcases hd.auth a hau with h | ⟨lp, dom, h, _, _, _, _, _, hasc⟩
      · subst h; decide +kernel
      · have hne : a.isEmpty = false := by
          rw [h]; cases lp <;> simp
        simp only [hne, Bool.false_eq_true, if_false]
        exact encodeXtext_val a (by rw [h]; exact hasc)

theorem sub_if {α} (c : Prop) [Decidable c] (x : α) : (if c then [x] else []).Sublist [x] := by
  split
  · exact List.Sublist.refl _
  · exact List.nil_sublist _

theorem mailToks_keys (o : Client.MailOptions) : ((mailToks o).map (·.1)).Nodup := by
  have hsub : ((mailToks o).map (·.1)).Sublist
      (["BODY".b] ++ ["SIZE".b] ++ ["REQUIRETLS".b] ++ ["SMTPUTF8".b] ++ ["RET".b] ++ ["ENVID".b] ++ ["AUTH".b]) := by
    simp only [mailToks, List.map_append]
    refine List.Sublist.append (List.Sublist.append (List.Sublist.append (List.Sublist.append (List.Sublist.append
      (List.Sublist.append ?_ ?_) ?_) ?_) ?_) ?_) ?_
    · exact List.Sublist.refl _
    · unfold sizeT; split <;> simp
    · unfold tlsT; split <;> simp
    · unfold utf8T; split <;> simp
    · unfold retT; split <;> simp
    · unfold envidT; split <;> simp
    · unfold authT; split <;> simp
  exact List.Sublist.nodup hsub (by decide +kernel)

/-- **C14_mail_options_trip.**  For every `MailOptions` value of the domain (BODY in {unset, 7BIT, 8BITMIME, BINARYMIME},
    SIZE below 2^32, RET in {unset, FULL, HDRS}, any printable-ASCII ENVID, AUTH unset, `<>` or any dot-string mailbox),
    against a server that offers and has enabled the extensions: the parameter string the client writes is tokenised
    and parsed by the server into exactly the client's parameter list, and the server's parameter switch turns that
    list into exactly the client's options — which is what the backend's `Mail` receives. -/
theorem mail_options_trip (ext : List (Bytes × Bytes)) (cfg : Cfg) (o : Client.MailOptions)
    (he : AllExt ext) (hc : CfgOn cfg o) (hd : MailDomain o) :
    ∃ ps, Client.mailParams ext (some o) = some ps ∧
      ∃ args, parseArgs ps = some args ∧
        Server.mailParams cfg args {} false = .ok (expected o, (expected o).body == "BINARYMIME".b) :=
  ⟨_, client_mailParams ext o he hd, mailToks o, parseArgs_spaced _ (mailToks_ok o hd) (mailToks_keys o),
    server_mailToks cfg o hc hd⟩

end SmtpV.Props.C14

namespace SmtpV.Props.C14
open SmtpV SmtpV.Spec SmtpV.Text SmtpV.Xtext SmtpV.Parse SmtpV.Server SmtpV.Props.C11 SmtpV.Reply SmtpV.ReplyRT

/-! ### RCPT: NOTIFY and ORCPT -/

theorem intercalate_cons (sep : Byte) (first : Bytes) (tl : List Bytes) :
    List.intercalate [sep] (first :: tl) = first ++ tl.flatMap fun l => sep :: l := by
  induction tl generalizing first with
  | nil => simp [List.intercalate, List.intersperse]
  | cons a tl ih =>
    rw [List.intercalate_cons_cons, ih a]
    simp

theorem splitByte_go_flat (sep : Byte) (tl : List Bytes) (hs : ∀ v ∈ tl, ∀ b ∈ v, b ≠ sep) :
    ∀ (first cur : Bytes) (acc : List Bytes), (∀ b ∈ first, b ≠ sep) →
      splitByte.go sep (first ++ tl.flatMap fun l => sep :: l) cur acc = (acc.reverse ++ (cur.reverse ++ first) :: tl) := by
  induction tl with
  | nil =>
    intro first cur acc hf
    simp only [List.flatMap_nil, List.append_nil, splitByte_go_noSep first cur acc sep hf]
    simp
  | cons a tl ih =>
    intro first cur acc hf
    have e : first ++ (a :: tl).flatMap (fun l => sep :: l) = first ++ sep :: (a ++ tl.flatMap fun l => sep :: l) := by simp
    rw [e, splitByte_go_append first _ cur acc sep hf,
      ih (fun v hv => hs v (by simp [hv])) a [] _ (hs a (by simp))]
    simp

/-- splitting what was joined gives the pieces back -/
theorem splitByte_intercalate (sep : Byte) (vals : List Bytes) (hne : vals ≠ []) (hs : ∀ v ∈ vals, ∀ b ∈ v, b ≠ sep) :
    splitByte (List.intercalate [sep] vals) sep = vals := by
  cases vals with
  | nil => exact absurd rfl hne
  | cons first tl =>
    rw [intercalate_cons, splitByte, splitByte_go_flat sep tl (fun v hv => hs v (by simp [hv])) first [] [] (hs first (by simp))]
    simp

def notifyWord (v : Bytes) : Bool := v == "NEVER".b || v == "DELAY".b || v == "FAILURE".b || v == "SUCCESS".b

theorem notifyWord_facts (v : Bytes) (h : notifyWord v = true) : toUpper v = v ∧ v.all valByte = true ∧ (∀ b ∈ v, b ≠ 44) ∧ v ≠ [] := by
  simp only [notifyWord, Bool.or_eq_true, beq_iff_eq] at h
  rcases h with ((h | h) | h) | h <;> subst h <;> decide +kernel

theorem rcptParams_notify (cfg : Cfg) (rest : List (Bytes × Bytes)) (o : RcptOpts) (vals : List Bytes)
    (hd : cfg.dsn = true) (hok : Client.notifyOk vals = true) :
    Server.rcptParams cfg (("NOTIFY".b, List.intercalate [44] vals) :: rest) o =
      Server.rcptParams cfg rest { o with notify := vals } := by
  have hparts : vals ≠ [] ∧ vals.all notifyWord = true := by
    simp only [Client.notifyOk, Bool.and_eq_true, Bool.not_eq_true'] at hok
    refine ⟨?_, hok.1.1.2⟩
    intro e; rw [e] at hok; simp at hok
  have hw : ∀ v ∈ vals, notifyWord v = true := fun v hv => List.all_eq_true.mp hparts.2 v hv
  have hsplit := splitByte_intercalate 44 vals hparts.1 (fun v hv => (notifyWord_facts v (hw v hv)).2.2.1)
  have hup : vals.map toUpper = vals := map_eq_self vals toUpper (fun v hv => (notifyWord_facts v (hw v hv)).1)
  have hvalid : notifyValid vals = true := hok
  rw [Server.rcptParams]
  have k1 : ("NOTIFY".b == "NOTIFY".b) = true := by decide +kernel
  simp only [k1, if_true, hd, Bool.not_true, Bool.false_eq_true, if_false, hsplit, hup, hvalid]

theorem rcptParams_orcpt (cfg : Cfg) (rest : List (Bytes × Bytes)) (o : RcptOpts) (a : Bytes)
    (hd : cfg.dsn = true) (hne : a ≠ []) (hp : isPrintableASCII a = true) :
    Server.rcptParams cfg (("ORCPT".b, "RFC822;".b ++ encodeXtext a) :: rest) o =
      Server.rcptParams cfg rest { o with orcptType := "RFC822".b, orcpt := a } := by
  rw [Server.rcptParams]
  have k1 : ("ORCPT".b == "NOTIFY".b) = false := by decide +kernel
  have k2 : ("ORCPT".b == "ORCPT".b) = true := by decide +kernel
  have hl : "RFC822;".b = "RFC822".b ++ 59 :: [] := by decide +kernel
  have hcut : cutByte ("RFC822;".b ++ encodeXtext a) 59 = ("RFC822".b, some (encodeXtext a)) := by
    rw [hl]
    have := cutByte_first "RFC822".b (encodeXtext a) 59 (by decide +kernel)
    simpa using this
  have he : (encodeXtext a).isEmpty = false := encodeXtext_nonempty a hne (printable_lt128 a hp)
  have ht : ("RFC822".b).isEmpty = false := by decide +kernel
  have hu : toUpper "RFC822".b = "RFC822".b := by decide +kernel
  have hty : ("RFC822".b == "RFC822".b) = true := by decide +kernel
  have hae : a.isEmpty = false := by cases a with | nil => exact absurd rfl hne | cons _ _ => rfl
  simp only [k1, k2, Bool.false_eq_true, if_false, if_true, hd, Bool.not_true, decodeTypedAddress, hcut, he, ht,
    Bool.or_self, hu, hty, xtext_roundtrip a (printable_lt128 a hp), hp, hae]

end SmtpV.Props.C14

namespace SmtpV.Props.C14
open SmtpV SmtpV.Spec SmtpV.Text SmtpV.Xtext SmtpV.Parse SmtpV.Server SmtpV.Props.C11 SmtpV.Reply SmtpV.ReplyRT

def notifyT (o : Client.RcptOptions) : List (Bytes × Bytes) :=
  if o.notify.isEmpty then [] else [("NOTIFY".b, List.intercalate [44] o.notify)]
def orcptT (o : Client.RcptOptions) : List (Bytes × Bytes) :=
  if o.orcpt.isEmpty then [] else [("ORCPT".b, "RFC822;".b ++ encodeXtext o.orcpt)]
def rcptToks (o : Client.RcptOptions) : List (Bytes × Bytes) := notifyT o ++ orcptT o

/-- RCPT options of the printable-ASCII domain: a valid NOTIFY set (or none), an rfc822 original recipient of
    printable ASCII (or none), no RRVS time -/
structure RcptDomain (o : Client.RcptOptions) : Prop where
  notify : o.notify = [] ∨ Client.notifyOk o.notify = true
  orcpt : o.orcpt = [] ∨ (o.orcptType = "RFC822".b ∧ isPrintableASCII o.orcpt = true)
  rrvs : o.rrvs = none

theorem intercalate_val (vals : List Bytes) (h : vals.all notifyWord = true) : (List.intercalate [44] vals).all valByte = true := by
  cases vals with
  | nil => rfl
  | cons first tl =>
    rw [intercalate_cons]
    simp only [List.all_cons, Bool.and_eq_true] at h
    simp only [List.all_append, List.all_flatMap, Bool.and_eq_true, List.all_eq_true]
    refine ⟨List.all_eq_true.mp (notifyWord_facts first h.1).2.1, ?_⟩
    intro v hv b hb
    rcases List.mem_cons.mp hb with rfl | hb
    · decide
    · exact List.all_eq_true.mp (notifyWord_facts v (List.all_eq_true.mp h.2 v hv)).2.1 b hb

theorem intercalate_nonempty (vals : List Bytes) (hne : vals ≠ []) (h : vals.all notifyWord = true) :
    (List.intercalate [44] vals).isEmpty = false := by
  cases vals with
  | nil => exact absurd rfl hne
  | cons first tl =>
    rw [intercalate_cons]
    simp only [List.all_cons, Bool.and_eq_true] at h
    have := (notifyWord_facts first h.1).2.2.2
    cases first with
    | nil => exact absurd rfl this
    | cons _ _ => rfl

theorem notifyOk_words (vals : List Bytes) (h : Client.notifyOk vals = true) : vals ≠ [] ∧ vals.all notifyWord = true := by
  simp only [Client.notifyOk, Bool.and_eq_true, Bool.not_eq_true'] at h
  refine ⟨?_, h.1.1.2⟩
  intro e; rw [e] at h; simp at h

theorem client_notify (o : Client.RcptOptions) (hn : o.notify = [] ∨ Client.notifyOk o.notify = true) :
    Client.notifyParam o = some (spaced ((notifyT o).map renderParam)) := by
  unfold Client.notifyParam notifyT
  split
  · rfl
  · rename_i hne
    have hok : Client.notifyOk o.notify = true := by
      rcases hn with e | e
      · rw [e] at hne; exact absurd rfl hne
      · exact e
    obtain ⟨h1, h2⟩ := notifyOk_words _ hok
    have hl : " NOTIFY=".b = SP :: ("NOTIFY".b ++ [61]) := by decide +kernel
    simp only [hok, Bool.not_true, Bool.false_eq_true, if_false, List.map_cons, List.map_nil, spaced_one, renderParam,
      intercalate_nonempty _ h1 h2, hl]
    simp

theorem client_orcpt (ext : List (Bytes × Bytes)) (o : Client.RcptOptions)
    (ho : o.orcpt = [] ∨ (o.orcptType = "RFC822".b ∧ isPrintableASCII o.orcpt = true)) :
    Client.orcptParam ext o = some (spaced ((orcptT o).map renderParam)) := by
  unfold Client.orcptParam orcptT
  split
  · rfl
  · rename_i hne
    have hh : o.orcptType = "RFC822".b ∧ isPrintableASCII o.orcpt = true := by
      rcases ho with e | e
      · rw [e] at hne; exact absurd rfl hne
      · exact e
    have hne' : o.orcpt ≠ [] := by intro e; rw [e] at hne; exact hne rfl
    have hty : ("RFC822".b == "RFC822".b) = true := by decide +kernel
    have hl : " ORCPT=RFC822;".b = SP :: ("ORCPT".b ++ [61] ++ "RFC822;".b) := by decide +kernel
    have hv : ("RFC822;".b ++ encodeXtext o.orcpt).isEmpty = false := by
      have : "RFC822;".b = 82 :: "FC822;".b := by decide +kernel
      rw [this]; rfl
    simp only [hh.1, hty, if_true, hh.2, Bool.not_true, Bool.false_eq_true, if_false, List.map_cons, List.map_nil,
      spaced_one, renderParam, hv, hl]
    simp

theorem client_rcptParams (ext : List (Bytes × Bytes)) (o : Client.RcptOptions) (hdsn : Client.hasExt ext "DSN" = true)
    (hd : RcptDomain o) : Client.rcptParams ext o = some (spaced ((rcptToks o).map renderParam)) := by
  unfold Client.rcptParams Client.rrvsParam
  simp only [hdsn, if_true, client_notify o hd.notify, client_orcpt ext o hd.orcpt, hd.rrvs, List.append_nil]
  simp only [rcptToks, List.map_append, spaced_append]

theorem rcptToks_ok (o : Client.RcptOptions) (hd : RcptDomain o) : ∀ p ∈ rcptToks o, ParamOk p := by
  intro p hp
  simp only [rcptToks, List.mem_append] at hp
  rcases hp with hp | hp
  · unfold notifyT at hp
    split at hp
    · cases hp
    · rename_i hne
      simp only [List.mem_singleton] at hp; subst hp
      have hok : Client.notifyOk o.notify = true := by
        rcases hd.notify with e | e
        · rw [e] at hne; exact absurd rfl hne
        · exact e
      exact paramOk_mk _ _ (by decide +kernel) (by decide +kernel) (intercalate_val _ (notifyOk_words _ hok).2)
  · unfold orcptT at hp
    split at hp
    · cases hp
    · rename_i hne
      simp only [List.mem_singleton] at hp; subst hp
      have hh : isPrintableASCII o.orcpt = true := by
        rcases hd.orcpt with e | e
        · rw [e] at hne; exact absurd rfl hne
        · exact e.2
      refine paramOk_mk _ _ (by decide +kernel) (by decide +kernel) ?_
      simp only [List.all_append, Bool.and_eq_true]
      exact ⟨by decide +kernel, encodeXtext_val _ (printable_lt128 _ hh)⟩

theorem rcptToks_keys (o : Client.RcptOptions) : ((rcptToks o).map (·.1)).Nodup := by
  have hsub : ((rcptToks o).map (·.1)).Sublist (["NOTIFY".b] ++ ["ORCPT".b]) := by
    simp only [rcptToks, List.map_append]
    refine List.Sublist.append ?_ ?_
    · unfold notifyT; split <;> simp
    · unfold orcptT; split <;> simp
  exact List.Sublist.nodup hsub (by decide +kernel)

def expectedRcpt (o : Client.RcptOptions) : RcptOpts :=
  { notify := o.notify, orcptType := if o.orcpt.isEmpty then [] else "RFC822".b, orcpt := o.orcpt, rrvs := none }

theorem step_notify (cfg : Cfg) (o : Client.RcptOptions) (hdsn : cfg.dsn = true) (hd : RcptDomain o)
    (rest : List (Bytes × Bytes)) (o' : RcptOpts) (h0 : o'.notify = []) :
    Server.rcptParams cfg (notifyT o ++ rest) o' = Server.rcptParams cfg rest { o' with notify := o.notify } := by
  unfold notifyT
  split
  · rename_i h
    have : o.notify = [] := List.isEmpty_iff.mp h
    simp only [List.nil_append, this]
    congr 1
    cases o'; simp_all
  · rename_i hne
    have hok : Client.notifyOk o.notify = true := by
      rcases hd.notify with e | e
      · rw [e] at hne; exact absurd rfl hne
      · exact e
    simp only [List.cons_append, List.nil_append, rcptParams_notify cfg rest o' o.notify hdsn hok]

theorem step_orcpt (cfg : Cfg) (o : Client.RcptOptions) (hdsn : cfg.dsn = true) (hd : RcptDomain o)
    (rest : List (Bytes × Bytes)) (o' : RcptOpts) (h0 : o'.orcpt = []) (h1 : o'.orcptType = []) :
    Server.rcptParams cfg (orcptT o ++ rest) o' =
      Server.rcptParams cfg rest { o' with orcptType := if o.orcpt.isEmpty then [] else "RFC822".b, orcpt := o.orcpt } := by
  unfold orcptT
  split
  · rename_i h
    have : o.orcpt = [] := List.isEmpty_iff.mp h
    simp only [List.nil_append, this]
    congr 1
    cases o'; simp_all
  · rename_i hne
    have hne' : o.orcpt ≠ [] := by intro e; rw [e] at hne; exact hne rfl
    have hh : isPrintableASCII o.orcpt = true := by
      rcases hd.orcpt with e | e
      · exact absurd e hne'
      · exact e.2
    simp only [List.cons_append, List.nil_append, rcptParams_orcpt cfg rest o' o.orcpt hdsn hne' hh]

theorem server_rcptToks (cfg : Cfg) (o : Client.RcptOptions) (hdsn : cfg.dsn = true) (hd : RcptDomain o) :
    Server.rcptParams cfg (rcptToks o) {} = .ok (expectedRcpt o) := by
  unfold rcptToks
  rw [step_notify cfg o hdsn hd _ _ rfl, ← List.append_nil (orcptT o), step_orcpt cfg o hdsn hd [] _ rfl rfl,
    Server.rcptParams]
  rfl

/-- **rcpt_options_trip.**  NOTIFY sets and rfc822 original recipients (any printable ASCII) survive the trip: the
    client's parameter string is parsed by the server into the client's parameter list, and the server's switch turns it
    into exactly the client's options. -/
theorem rcpt_options_trip (ext : List (Bytes × Bytes)) (cfg : Cfg) (o : Client.RcptOptions)
    (he : Client.hasExt ext "DSN" = true) (hc : cfg.dsn = true) (hd : RcptDomain o) :
    ∃ ps, Client.rcptParams ext o = some ps ∧
      ∃ args, parseArgs ps = some args ∧ Server.rcptParams cfg args {} = .ok (expectedRcpt o) :=
  ⟨_, client_rcptParams ext o he hd, rcptToks o, parseArgs_spaced _ (rcptToks_ok o hd) (rcptToks_keys o),
    server_rcptToks cfg o hc hd⟩

end SmtpV.Props.C14
