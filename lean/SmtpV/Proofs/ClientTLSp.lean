import SmtpV.Model.Client
namespace SmtpV.Client

/-- from here on nothing can reach the raw socket any more: a TLS handshake is pending (it runs before the next write),
    a TLS session is established, or the connection is closed -/
def NoMorePlain (c : C) : Prop := c.tlsPending = true ∨ c.tlsState = "ok" ∨ c.connClosed = true

theorem handshake_noMorePlain (c : C) (h : NoMorePlain c) :
    (c.handshake.tlsState = "ok" ∨ c.handshake.connClosed = true) ∧ c.handshake.plainLog = c.plainLog ∧ c.handshake.tlsPending = false := by
  unfold C.handshake
  cases hp : c.tlsPending with
  | false =>
    simp only [Bool.not_false, if_true]
    rcases h with h | h | h
    · rw [hp] at h; cases h
    · exact ⟨Or.inl h, trivial, hp⟩
    · exact ⟨Or.inr h, trivial, hp⟩
  | true =>
    simp only [Bool.not_true, Bool.false_eq_true, if_false]
    cases c.inner with
    | some sc => exact ⟨Or.inl rfl, rfl, rfl⟩
    | none => exact ⟨Or.inr rfl, rfl, rfl⟩

/-- **every write after the upgrade goes inside TLS or nowhere** -/
theorem send_noMorePlain (c : C) (bs : Bytes) (h : NoMorePlain c) :
    (c.send bs).1.plainLog = c.plainLog ∧ NoMorePlain (c.send bs).1 := by
  obtain ⟨h1, h2, h3⟩ := handshake_noMorePlain c h
  unfold C.send
  simp only []
  generalize c.handshake = c1 at h1 h2 h3
  split
  · refine ⟨h2, ?_⟩
    rcases h1 with h1 | h1
    · exact Or.inr (Or.inl h1)
    · exact Or.inr (Or.inr h1)
  · rename_i hc
    rcases h1 with h1 | h1
    · refine ⟨by simp [h1, h2], Or.inr (Or.inl h1)⟩
    · exfalso; apply hc; simp [h1]

/-- a successful `initStartTLS` (220 to STARTTLS) leaves the client in a state from which nothing reaches the raw socket -/
theorem initStartTLS_ok (c : C) (h : (c.initStartTLS).2 = none) : NoMorePlain (c.initStartTLS).1 := by
  unfold C.initStartTLS at h ⊢
  generalize c.hello = p at h ⊢
  obtain ⟨c1, e1⟩ := p
  cases e1 with
  | some e => simp at h
  | none =>
    simp only [] at h ⊢
    split at h
    · simp at h
    · rename_i hx
      simp only [hx]
      generalize c1.cmd 220 "STARTTLS".b = q at h ⊢
      obtain ⟨c2, r⟩ := q
      cases r with
      | ok code msg => exact Or.inl rfl
      | smtpErr e => simp [rrErr] at h
      | io => simp [rrErr] at h
      | proto => simp [rrErr] at h

/-- when the upgrade does not happen — STARTTLS not offered, refused, the greeting or EHLO failed — `SendMail` stops there:
    its result is that error and the client state is the one `initStartTLS` left (no MAIL, no AUTH, no content was written) -/
theorem sendMail_stops (c : C) (auth : Bool) (frm : Bytes) (to : List Bytes) (body : Bytes) (e : CErr)
    (h : (c.initStartTLS).2 = some e) :
    sendMail c auth frm to body = (c, "err") ∨ sendMail c auth frm to body = ((c.initStartTLS).1, showErr (some e)) := by
  unfold sendMail
  split
  · exact Or.inl rfl
  · right
    generalize c.initStartTLS = p at h ⊢
    obtain ⟨c1, e1⟩ := p
    simp only [] at h
    subst h
    rfl

end SmtpV.Client
