import SmtpV.Model.Reply
import SmtpV.Model.Client
import SmtpV.Proofs.OneLine
/-!
The server's reply rendering composed with the client's reply parsing (C17, model level):
lemmas about `splitByte`, `cutByte`, decimal rendering and `Atoi`, the enhanced-code token, and the
single-line round trip.
-/
namespace SmtpV.ReplyRT
open SmtpV SmtpV.Text SmtpV.Spec SmtpV.Reply SmtpV.Client

/-! ### splitting -/

theorem splitByte_go_noSep (s cur : Bytes) (acc : List Bytes) (sep : Byte) (h : ∀ b ∈ s, b ≠ sep) :
    splitByte.go sep s cur acc = ((cur.reverse ++ s) :: acc).reverse := by
  induction s generalizing cur with
  | nil => simp [splitByte.go]
  | cons c t ih =>
    have hc : (c == sep) = false := by simpa using h c (by simp)
    simp only [splitByte.go, hc, Bool.false_eq_true, if_false]
    rw [ih _ (fun b hb => h b (List.mem_cons_of_mem _ hb))]
    simp

theorem splitByte_noSep (s : Bytes) (sep : Byte) (h : ∀ b ∈ s, b ≠ sep) : splitByte s sep = [s] := by
  simp [splitByte, splitByte_go_noSep s [] [] sep h]

theorem splitByte_go_append (a t cur : Bytes) (acc : List Bytes) (sep : Byte) (h : ∀ b ∈ a, b ≠ sep) :
    splitByte.go sep (a ++ sep :: t) cur acc = splitByte.go sep t [] ((cur.reverse ++ a) :: acc) := by
  induction a generalizing cur with
  | nil => simp [splitByte.go]
  | cons c a ih =>
    have hc : (c == sep) = false := by simpa using h c (by simp)
    simp only [List.cons_append, splitByte.go, hc, Bool.false_eq_true, if_false]
    rw [ih _ (fun b hb => h b (List.mem_cons_of_mem _ hb))]
    simp

/-- three `sep`-free pieces joined by `sep` split back into the three pieces -/
theorem splitByte_three (a b c : Bytes) (sep : Byte) (ha : ∀ x ∈ a, x ≠ sep) (hb : ∀ x ∈ b, x ≠ sep)
    (hc : ∀ x ∈ c, x ≠ sep) : splitByte (a ++ [sep] ++ b ++ [sep] ++ c) sep = [a, b, c] := by
  have e : a ++ [sep] ++ b ++ [sep] ++ c = a ++ sep :: (b ++ sep :: c) := by simp
  rw [e, splitByte, splitByte_go_append a _ [] [] sep ha, splitByte_go_append b _ [] _ sep hb,
    splitByte_go_noSep c [] _ sep hc]
  simp

theorem indexByte_go_first (a t : Bytes) (sep : Byte) (i : Nat) (h : ∀ b ∈ a, b ≠ sep) :
    indexByte.go sep (a ++ sep :: t) i = some (i + a.length) := by
  induction a generalizing i with
  | nil => simp [indexByte.go]
  | cons c a ih =>
    have hc : (c == sep) = false := by simpa using h c (by simp)
    simp only [List.cons_append, indexByte.go, hc, Bool.false_eq_true, if_false]
    rw [ih _ (fun b hb => h b (List.mem_cons_of_mem _ hb))]
    simp; omega

theorem cutByte_first (a t : Bytes) (sep : Byte) (h : ∀ b ∈ a, b ≠ sep) :
    cutByte (a ++ sep :: t) sep = (a, some t) := by
  simp [cutByte, indexByte, indexByte_go_first a t sep 0 h]

/-! ### decimal numbers and `Atoi` -/

theorem digitByte (c : Char) (hc : c.isDigit = true) :
    48 ≤ (UInt8.ofNat c.toNat).toNat ∧ (UInt8.ofNat c.toNat).toNat ≤ 57 ∧ (UInt8.ofNat c.toNat).toNat = c.toNat := by
  simp only [Char.isDigit, Bool.and_eq_true, decide_eq_true_eq] at hc
  have h1 : 48 ≤ c.toNat := UInt32.le_iff_toNat_le.mp hc.1
  have h2 : c.toNat ≤ 57 := UInt32.le_iff_toNat_le.mp hc.2
  have : (UInt8.ofNat c.toNat).toNat = c.toNat := by simp [UInt8.toNat_ofNat']; omega
  omega

theorem natToDec_digits (n : Nat) : (natToDec n).all isDigit = true := by
  simp only [natToDec, List.all_map, List.all_eq_true]
  intro c hc
  have := digitByte c (Nat.isDigit_of_mem_toDigits (by decide) (by decide) hc)
  simp [isDigit]; omega

theorem natToDec_ne_nil (n : Nat) : natToDec n ≠ [] := by
  simp [natToDec, Nat.toDigits_ne_nil]

theorem foldl_digits (cs : List Char) (h : ∀ c ∈ cs, c.isDigit = true) (init : Nat) :
    (cs.map (fun c => UInt8.ofNat c.toNat)).foldl (fun a (b : Byte) => a * 10 + (b.toNat - 48)) init =
      Nat.ofDigitChars 10 cs init := by
  induction cs generalizing init with
  | nil => simp
  | cons c cs ih =>
    have hd := digitByte c (h c (by simp))
    simp only [List.map_cons, List.foldl_cons, Nat.ofDigitChars_cons]
    rw [ih (fun x hx => h x (List.mem_cons_of_mem _ hx))]
    congr 1
    have : ('0' : Char).toNat = 48 := rfl
    rw [hd.2.2, this, Nat.mul_comm]

theorem natToDec_value (n : Nat) :
    (natToDec n).foldl (fun a (b : Byte) => a * 10 + (b.toNat - 48)) 0 = n := by
  unfold natToDec
  rw [foldl_digits _ (fun c hc => Nat.isDigit_of_mem_toDigits (by decide) (by decide) hc)]
  exact Nat.ofDigitChars_ten_toDigits

theorem natToDec_head (n : Nat) : ∃ d t, natToDec n = d :: t ∧ isDigit d = true := by
  have hne := natToDec_ne_nil n
  have hall := natToDec_digits n
  cases h : natToDec n with
  | nil => exact absurd h hne
  | cons d t =>
    refine ⟨d, t, rfl, ?_⟩
    rw [h] at hall
    simp only [List.all_cons, Bool.and_eq_true] at hall
    exact hall.1

/-- `Atoi` reads back what `%d` printed, for every non-negative int64 -/
theorem atoi_natToDec (n : Nat) (h : n ≤ 9223372036854775807) : atoi (natToDec n) = some (n : Int) := by
  obtain ⟨d, t, hdt, hd⟩ := natToDec_head n
  have hall := natToDec_digits n
  have hval := natToDec_value n
  have hd45 : d ≠ 45 := by intro e; subst e; simp [isDigit] at hd
  have hd43 : d ≠ 43 := by intro e; subst e; simp [isDigit] at hd
  rw [hdt] at hall hval ⊢
  unfold atoi
  split
  rename_i neg ds heq
  have hpair : (neg, ds) = (false, d :: t) := by
    rw [← heq]
    split
    · rename_i t' heq'; cases heq'; exact absurd rfl hd45
    · rename_i t' heq'; cases heq'; exact absurd rfl hd43
    · rfl
  cases hpair
  simp only [hall, hval, List.isEmpty_cons, Bool.false_or, Bool.not_true, Bool.false_eq_true, if_false, h, if_true]

theorem noDot_natToDec (n : Nat) : ∀ x ∈ natToDec n, x ≠ 46 ∧ x ≠ 32 := by
  intro x hx
  have := List.all_eq_true.mp (natToDec_digits n) x hx
  simp only [isDigit, Bool.and_eq_true, decide_eq_true_eq] at this
  constructor <;> intro e <;> subst e <;> simp at this

/-! ### the enhanced-code token -/

/-- an enhanced code as the server prints it: three non-negative int64 numbers -/
def EnhOk (e : Enh) : Prop :=
  0 ≤ e.a ∧ e.a ≤ 9223372036854775807 ∧ 0 ≤ e.b ∧ e.b ≤ 9223372036854775807 ∧ 0 ≤ e.c ∧ e.c ≤ 9223372036854775807

theorem intToDec_nonneg (i : Int) (h : 0 ≤ i) : intToDec i = natToDec i.toNat := by
  unfold intToDec; simp [Int.not_lt.mpr h]

theorem atoi_intToDec (i : Int) (h0 : 0 ≤ i) (h1 : i ≤ 9223372036854775807) : atoi (intToDec i) = some i := by
  rw [intToDec_nonneg i h0, atoi_natToDec _ (by omega)]
  simp [Int.toNat_of_nonneg h0]

theorem parseEnhancedCode_enhBytes (e : Enh) (h : EnhOk e) : parseEnhancedCode (enhBytes e) = some e := by
  obtain ⟨a0, a1, b0, b1, c0, c1⟩ := h
  unfold parseEnhancedCode enhBytes
  rw [splitByte_three _ _ _ 46
    (by rw [intToDec_nonneg _ a0]; exact fun x hx => (noDot_natToDec _ x hx).1)
    (by rw [intToDec_nonneg _ b0]; exact fun x hx => (noDot_natToDec _ x hx).1)
    (by rw [intToDec_nonneg _ c0]; exact fun x hx => (noDot_natToDec _ x hx).1)]
  simp only [atoi_intToDec _ a0 a1, atoi_intToDec _ b0 b1, atoi_intToDec _ c0 c1]

theorem enhBytes_noSP (e : Enh) (h : EnhOk e) : ∀ x ∈ enhBytes e, x ≠ 32 := by
  obtain ⟨a0, _, b0, _, c0, _⟩ := h
  intro x hx
  simp only [enhBytes, intToDec_nonneg _ a0, intToDec_nonneg _ b0, intToDec_nonneg _ c0, List.mem_append,
    List.mem_singleton] at hx
  rcases hx with (((h | h) | h) | h) | h
  · exact (noDot_natToDec _ x h).2
  · subst h; decide
  · exact (noDot_natToDec _ x h).2
  · subst h; decide
  · exact (noDot_natToDec _ x h).2

/-! ### `replaceAll` leaves a text alone that does not contain the pattern's first octet -/

theorem replaceAll_noHead (p : Byte) (old new : Bytes) (fuel : Nat) (s : Bytes) (h : ∀ b ∈ s, b ≠ p) :
    replaceAll (p :: old) new fuel s = s := by
  induction fuel generalizing s with
  | zero => simp [replaceAll]
  | succ f ih =>
    cases s with
    | nil => simp [replaceAll]
    | cons c t =>
      have hc : c ≠ p := h c (by simp)
      have : (p :: old).isPrefixOf (c :: t) = false := by
        simp [List.isPrefixOf, Ne.symm hc]
      simp only [replaceAll, this, Bool.false_eq_true, if_false]
      rw [ih t (fun b hb => h b (List.mem_cons_of_mem _ hb))]

/-- the client's view of a one-line reply that carries an enhanced code -/
theorem toSMTPErr_token (code : Nat) (e : Enh) (he : EnhOk e) (msg : Bytes) (hm : ∀ b ∈ msg, b ≠ 10) :
    toSMTPErr code (enhBytes e ++ [32] ++ msg) = { code := code, enh := e, msg := msg } := by
  unfold toSMTPErr
  have : enhBytes e ++ [32] ++ msg = enhBytes e ++ 32 :: msg := by simp
  rw [this, cutByte_first _ _ 32 (enhBytes_noSP e he)]
  simp only [parseEnhancedCode_enhBytes e he]
  have : ([10] : Bytes) ++ enhBytes e ++ [32] = 10 :: (enhBytes e ++ [32]) := by simp
  rw [this, replaceAll_noHead 10 _ _ _ msg hm]

/-! ### the code line -/

theorem digits3 : ∀ n : Fin 900, natToDec (n.val + 100) =
    [UInt8.ofNat (48 + (n.val + 100) / 100), UInt8.ofNat (48 + (n.val + 100) / 10 % 10), UInt8.ofNat (48 + (n.val + 100) % 10)] := by
  decide +kernel

theorem parseCodeLine_render (code : Nat) (h1 : 100 ≤ code) (h2 : code ≤ 999) (sep : Byte) (hs : sep = 32 ∨ sep = 45)
    (rest : Bytes) : parseCodeLine (natToDec code ++ sep :: rest) = some (code, sep == 45, rest) := by
  have := digits3 ⟨code - 100, by omega⟩
  have e : code - 100 + 100 = code := by omega
  simp only [e] at this
  rw [this]
  have d1 : (UInt8.ofNat (48 + code / 100)).toNat = 48 + code / 100 := by simp [UInt8.toNat_ofNat']; omega
  have d2 : (UInt8.ofNat (48 + code / 10 % 10)).toNat = 48 + code / 10 % 10 := by simp [UInt8.toNat_ofNat']; omega
  have d3 : (UInt8.ofNat (48 + code % 10)).toNat = 48 + code % 10 := by simp [UInt8.toNat_ofNat']; omega
  have hsep : (sep == 32 || sep == 45) = true := by rcases hs with rfl | rfl <;> decide
  have hv : (48 + code / 100 - 48) * 100 + (48 + code / 10 % 10 - 48) * 10 + (48 + code % 10 - 48) = code := by omega
  simp only [List.cons_append, List.nil_append, parseCodeLine, isDigit, d1, d2, d3, hsep, hv]
  simp [h1]
  refine ⟨?_, ?_, ?_⟩ <;> omega

/-- **single-line round trip.**  A reply `code enh text` as `writeResponse` prints it (one text line, an enhanced
    code on the wire) is read back by the client as exactly that code, enhanced code and text. -/
theorem readResponse_single (expect code : Nat) (h1 : 100 ≤ code) (h2 : code ≤ 999) (e : Enh) (he : EnhOk e)
    (msg : Bytes) (hm : ∀ b ∈ msg, b ≠ 10) (rest : List Bytes) :
    readResponse expect ((natToDec code ++ [32] ++ enhBytes e ++ [32] ++ msg) :: rest) =
      (if codeMatches expect code then .ok code (enhBytes e ++ [32] ++ msg)
       else .smtpErr { code := code, enh := e, msg := msg }, rest) := by
  have eq : natToDec code ++ [32] ++ enhBytes e ++ [32] ++ msg = natToDec code ++ 32 :: (enhBytes e ++ [32] ++ msg) := by simp
  have hp := parseCodeLine_render code h1 h2 32 (Or.inl rfl) (enhBytes e ++ [32] ++ msg)
  rw [eq]
  simp only [readResponse, hp, show ((32 : Byte) == 45) = false by decide, Bool.not_false, if_true,
    toSMTPErr_token code e he msg hm]

end SmtpV.ReplyRT

namespace SmtpV.ReplyRT
open SmtpV SmtpV.Text SmtpV.Spec SmtpV.Reply SmtpV.Client

/-! ### several lines -/

/-- `strings.Split` then `strings.Join` is the identity -/
theorem splitByte_go_join (s cur : Bytes) (acc : List Bytes) (sep : Byte) :
    List.intercalate [sep] (splitByte.go sep s cur acc) =
      List.intercalate [sep] (acc.reverse ++ [cur.reverse ++ s]) := by
  induction s generalizing cur acc with
  | nil => simp [splitByte.go]
  | cons c t ih =>
    simp only [splitByte.go]
    split
    · rename_i h
      have hc : c = sep := by simpa using h
      subst hc
      rw [ih]
      simp only [List.reverse_cons, List.reverse_nil, List.nil_append, List.append_assoc, List.singleton_append]
      -- joining `… ++ [x, t]` = joining `… ++ [x ++ c :: t]`
      induction acc.reverse with
      | nil => simp [List.intercalate, List.intersperse]
      | cons a as ih2 =>
        cases as with
        | nil => simp [List.intercalate, List.intersperse]
        | cons b bs =>
          simp only [List.cons_append, List.intercalate_cons_cons] at ih2 ⊢
          rw [ih2]
    · rw [ih]; simp

theorem join_split (s : Bytes) (sep : Byte) : List.intercalate [sep] (splitByte s sep) = s := by
  have := splitByte_go_join s [] [] sep
  simpa [splitByte, List.intercalate, List.intersperse] using this

theorem splitByte_go_noSepIn (s cur : Bytes) (acc : List Bytes) (sep : Byte)
    (hcur : ∀ b ∈ cur, b ≠ sep) (hacc : ∀ l ∈ acc, ∀ b ∈ l, b ≠ sep) :
    ∀ l ∈ splitByte.go sep s cur acc, ∀ b ∈ l, b ≠ sep := by
  induction s generalizing cur acc with
  | nil =>
    intro l hl b hb
    simp only [splitByte.go, List.mem_reverse, List.mem_cons] at hl
    rcases hl with rfl | hl
    · exact hcur b (by simpa using hb)
    · exact hacc l hl b hb
  | cons c t ih =>
    simp only [splitByte.go]
    split
    · apply ih
      · intro b hb; cases hb
      · intro l hl b hb
        rcases List.mem_cons.mp hl with rfl | hl
        · exact hcur b (by simpa using hb)
        · exact hacc l hl b hb
    · rename_i h
      apply ih
      · intro b hb
        rcases List.mem_cons.mp hb with rfl | hb
        · simpa using h
        · exact hcur b hb
      · exact hacc

/-- the pieces `strings.Split` returns do not contain the separator -/
theorem splitByte_noSepIn (s : Bytes) (sep : Byte) : ∀ l ∈ splitByte s sep, ∀ b ∈ l, b ≠ sep :=
  splitByte_go_noSepIn s [] [] sep (by intro b hb; cases hb) (by intro l hl; cases hl)

theorem splitByte_ne_nil (s : Bytes) (sep : Byte) : splitByte s sep ≠ [] := by
  have : ∀ (s cur : Bytes) (acc : List Bytes), splitByte.go sep s cur acc ≠ [] := by
    intro s
    induction s with
    | nil => intro cur acc; simp [splitByte.go]
    | cons c t ih => intro cur acc; simp only [splitByte.go]; split <;> exact ih _ _
  exact this s [] []

/-- the token in front of every text line: the enhanced code and a space -/
def tok (e : Enh) : Bytes := enhBytes e ++ [32]

/-- a continuation / final line as the server writes it (without CRLF) -/
def contLine (code : Nat) (e : Enh) (l : Bytes) : Bytes := natToDec code ++ 45 :: (tok e ++ l)
def lastLine (code : Nat) (e : Enh) (l : Bytes) : Bytes := natToDec code ++ 32 :: (tok e ++ l)

/-- reading the continuation lines: each contributes LF, the token and its text -/
theorem readCont_lines (code : Nat) (h1 : 100 ≤ code) (h2 : code ≤ 999) (e : Enh) (mid : List Bytes) (last : Bytes)
    (rest : List Bytes) (acc : Bytes) :
    readCont code (mid.map (contLine code e) ++ lastLine code e last :: rest) acc =
      some (acc ++ (mid.flatMap fun l => 10 :: (tok e ++ l)) ++ 10 :: (tok e ++ last), rest) := by
  induction mid generalizing acc with
  | nil =>
    simp only [List.map_nil, List.nil_append, readCont, lastLine,
      parseCodeLine_render code h1 h2 32 (Or.inl rfl), List.flatMap_nil, List.append_nil]
    simp
  | cons l mid ih =>
    simp only [List.map_cons, List.cons_append, readCont, contLine,
      parseCodeLine_render code h1 h2 45 (Or.inr rfl)]
    simp only [bne_self_eq_false, Bool.false_eq_true, if_false, beq_self_eq_true, if_true]
    rw [ih]
    simp [List.append_assoc]

/-- `ReplaceAll("\n" + token, "\n")` strips the token from every line but the first -/
theorem replaceAll_strip (t : Bytes) (ls : List Bytes) (hls : ∀ l ∈ ls, ∀ b ∈ l, b ≠ 10) (first : Bytes)
    (hf : ∀ b ∈ first, b ≠ 10) (fuel : Nat)
    (hfuel : (first ++ ls.flatMap fun l => 10 :: (t ++ l)).length ≤ fuel) :
    replaceAll (10 :: t) [10] fuel (first ++ ls.flatMap fun l => 10 :: (t ++ l)) =
      first ++ ls.flatMap fun l => 10 :: l := by
  induction first generalizing fuel with
  | cons c f ihf =>
    have hc : c ≠ 10 := hf c (by simp)
    cases fuel with
    | zero => simp at hfuel
    | succ fuel =>
      have : (10 :: t).isPrefixOf (c :: (f ++ ls.flatMap fun l => 10 :: (t ++ l))) = false := by
        simp [List.isPrefixOf, Ne.symm hc]
      simp only [List.cons_append, replaceAll, this, Bool.false_eq_true, if_false]
      rw [ihf (fun b hb => hf b (List.mem_cons_of_mem _ hb)) fuel (by simp at hfuel ⊢; omega)]
  | nil =>
    induction ls generalizing fuel with
    | nil => cases fuel <;> simp [replaceAll]
    | cons l ls ihl =>
      cases fuel with
      | zero => simp at hfuel
      | succ fuel =>
        simp only [List.nil_append, List.flatMap_cons, List.cons_append]
        have hp : (10 :: t).isPrefixOf (10 :: (t ++ l ++ ls.flatMap fun l => 10 :: (t ++ l))) = true := by
          simp [List.isPrefixOf, List.append_assoc]
        simp only [replaceAll, hp, if_true]
        have e2 : (10 :: (t ++ l ++ ls.flatMap fun l => 10 :: (t ++ l))).drop (10 :: t).length =
            l ++ ls.flatMap fun l => 10 :: (t ++ l) := by
          simp [List.append_assoc]
        rw [e2]
        -- now scan over `l` (LF-free), then the remaining lines
        have hl : ∀ b ∈ l, b ≠ 10 := hls l (by simp)
        have hrest : ∀ l' ∈ ls, ∀ b ∈ l', b ≠ 10 := fun l' h' => hls l' (List.mem_cons_of_mem _ h')
        have hlen : (l ++ ls.flatMap fun l => 10 :: (t ++ l)).length ≤ fuel := by
          simp at hfuel ⊢; omega
        -- reuse the `first` induction for `l`
        have key : ∀ (first : Bytes) (fuel : Nat), (∀ b ∈ first, b ≠ 10) →
            (first ++ ls.flatMap fun l => 10 :: (t ++ l)).length ≤ fuel →
            replaceAll (10 :: t) [10] fuel (first ++ ls.flatMap fun l => 10 :: (t ++ l)) =
              first ++ ls.flatMap fun l => 10 :: l := by
          intro first
          induction first with
          | nil => intro fuel _ hle; simpa using ihl hrest fuel (by simpa using hle)
          | cons c f ihf =>
            intro fuel hf' hle
            have hc : c ≠ 10 := hf' c (by simp)
            cases fuel with
            | zero => simp at hle
            | succ fuel =>
              have : (10 :: t).isPrefixOf (c :: (f ++ ls.flatMap fun l => 10 :: (t ++ l))) = false := by
                simp [List.isPrefixOf, Ne.symm hc]
              simp only [List.cons_append, replaceAll, this, Bool.false_eq_true, if_false]
              rw [ihf fuel (fun b hb => hf' b (List.mem_cons_of_mem _ hb)) (by simp at hle ⊢; omega)]
        rw [key l fuel hl hlen]
        simp

end SmtpV.ReplyRT

namespace SmtpV.ReplyRT
open SmtpV SmtpV.Text SmtpV.Spec SmtpV.Reply SmtpV.Client

/-- a reply of two or more lines, every text line with the token in front, read back by the client -/
theorem readResponse_multi (expect code : Nat) (h1 : 100 ≤ code) (h2 : code ≤ 999) (e : Enh) (he : EnhOk e)
    (first : Bytes) (mid : List Bytes) (last : Bytes) (hf : ∀ b ∈ first, b ≠ 10)
    (hm : ∀ l ∈ mid, ∀ b ∈ l, b ≠ 10) (hl : ∀ b ∈ last, b ≠ 10) (rest : List Bytes) :
    readResponse expect (contLine code e first :: (mid.map (contLine code e) ++ lastLine code e last :: rest)) =
      (if codeMatches expect code then
         .ok code (tok e ++ first ++ (mid.flatMap fun l => 10 :: (tok e ++ l)) ++ 10 :: (tok e ++ last))
       else .smtpErr { code := code, enh := e, msg := first ++ (mid ++ [last]).flatMap fun l => 10 :: l }, rest) := by
  have hp := parseCodeLine_render code h1 h2 45 (Or.inr rfl) (tok e ++ first)
  simp only [readResponse, contLine, hp, beq_self_eq_true, Bool.not_true, Bool.false_eq_true, if_false]
  have hc := readCont_lines code h1 h2 e mid last rest (tok e ++ first)
  rw [hc]
  dsimp only
  by_cases hcm : codeMatches expect code = true
  · simp only [hcm, if_true]
  · simp only [hcm, Bool.false_eq_true, if_false]
    congr 2
    -- the client's conversion of the joined text
    have hshape : tok e ++ first ++ (mid.flatMap fun l => 10 :: (tok e ++ l)) ++ 10 :: (tok e ++ last) =
        enhBytes e ++ 32 :: (first ++ (mid ++ [last]).flatMap fun l => 10 :: (tok e ++ l)) := by
      simp [tok, List.append_assoc]
    rw [hshape]
    unfold toSMTPErr
    rw [cutByte_first _ _ 32 (enhBytes_noSP e he)]
    simp only [parseEnhancedCode_enhBytes e he]
    have hpat : ([10] : Bytes) ++ enhBytes e ++ [32] = 10 :: tok e := by simp [tok]
    rw [hpat]
    have hall : ∀ l ∈ mid ++ [last], ∀ b ∈ l, b ≠ 10 := by
      intro l hl' b hb
      rcases List.mem_append.mp hl' with h | h
      · exact hm l h b hb
      · simp only [List.mem_singleton] at h; subst h; exact hl b hb
    rw [replaceAll_strip (tok e) (mid ++ [last]) hall first hf _ (Nat.le_succ _)]

end SmtpV.ReplyRT
