import SmtpV.Proofs.DataRead
/-!
Whole read schedules (`readSched`): what any sequence of `Read` calls with any buffer
sizes returns on a source whose greedy run reaches the end marker.
-/
namespace SmtpV.DataReader
open SmtpV SmtpV.Spec

/-- concatenation of the octets returned by a sequence of reads -/
def outs (l : List (Bytes × Res)) : Bytes := (l.map Prod.fst).flatten

@[simp] theorem outs_nil : outs [] = [] := rfl
@[simp] theorem outs_cons (x : Bytes × Res) (l : List (Bytes × Res)) : outs (x :: l) = x.1 ++ outs l := by
  simp [outs]

/-- a `nil`-error read into a non-empty buffer returns at least one octet -/
theorem read_more_pos (r : DR) (inp : Bytes) (k : Nat) (hk : 0 < k)
    (h : (read r inp k).2.2.2 = .more) : 0 < (read r inp k).2.1.length := by
  by_cases hs : r.state = St.eof
  · -- a reader that has reported end-of-file keeps doing so
    exfalso
    have hfst : ∀ j, (readLoop St.eof inp j).1 = St.eof := by
      intro j; cases j <;> simp [readLoop]
    unfold read at h
    simp only [hs, bne_self_eq_false, Bool.and_false, Bool.false_eq_true, if_false, hfst, beq_self_eq_true, if_true] at h
    cases h
  have hne : (r.state != St.eof) = true := by simpa using hs
  unfold read at h ⊢
  simp only [hne, Bool.and_true] at h ⊢
  by_cases hl : r.limited = true
  · by_cases hn : r.n = 0
    · simp only [hl, hn, beq_self_eq_true, Bool.and_self, if_true] at h
      split at h <;> simp at h
    · have hn' : (r.n == 0) = false := by simpa using hn
      simp only [hl, hn', Bool.and_false, Bool.false_eq_true, if_false, if_true] at h ⊢
      have : 0 < min k r.n := Nat.lt_min.mpr ⟨hk, Nat.pos_of_ne_zero hn⟩
      split at h
      · simp at h
      · split at h
        · simp at h
        · rename_i _ hlt
          omega
  · have hl' : r.limited = false := by simpa using hl
    simp only [hl', Bool.false_and, Bool.false_eq_true, if_false] at h ⊢
    split at h
    · simp at h
    · split at h
      · simp at h
      · rename_i _ hlt
        omega

/-- Contract of a whole schedule of reads while the message fits the budget. -/
theorem sched_ok (sizes : List Nat) (r : DR) (inp o rest0 : Bytes)
    (hE : run r.state inp = (.eof, o, rest0)) (hB : Boundary r.state)
    (hfit : r.limited = true → o.length ≤ r.n) :
    ∃ o', o = outs (readSched r inp sizes).1 ++ o' ∧
      (∀ x ∈ (readSched r inp sizes).1, x.2 = .more ∨ x.2 = .eof) ∧
      (∀ x, (readSched r inp sizes).1.getLast? = some x → x.2 = .eof →
          o' = [] ∧ (readSched r inp sizes).2.2 = rest0) ∧
      ((∀ k ∈ sizes, 0 < k) → o.length < sizes.length →
          ∃ x, (readSched r inp sizes).1.getLast? = some x ∧ x.2 = .eof) := by
  induction sizes generalizing r inp o with
  | nil =>
    refine ⟨o, by simp [readSched], by simp [readSched], by simp [readSched], ?_⟩
    intro _ h; simp at h
  | cons k ks ih =>
    obtain ⟨o1, ho1, hrun1, hlim1, hfit1, hcase⟩ := read_ok r inp k o rest0 hE hB hfit
    rcases hcase with ⟨hres, hb1, hlen1⟩ | ⟨hres, ho1', hrest1⟩
    · -- nil error: the schedule goes on
      obtain ⟨o', ho', hall, hlast, hprog⟩ :=
        ih (read r inp k).1 (read r inp k).2.2.1 o1 hrun1 hb1 hfit1
      have e : readSched r inp (k :: ks) =
          (((read r inp k).2.1, Res.more) :: (readSched (read r inp k).1 (read r inp k).2.2.1 ks).1,
           (readSched (read r inp k).1 (read r inp k).2.2.1 ks).2) := by
        simp only [readSched]
        rw [hres]
      rw [e]
      refine ⟨o', ?_, ?_, ?_, ?_⟩
      · simp only [outs_cons, List.append_assoc]
        rw [← ho', ← ho1]
      · intro x hx
        simp only [List.mem_cons] at hx
        rcases hx with rfl | hx
        · left; rfl
        · exact hall x hx
      · intro x hx hxe
        cases hl : (readSched (read r inp k).1 (read r inp k).2.2.1 ks).1 with
        | nil =>
          rw [hl] at hx; simp at hx; subst hx; simp at hxe
        | cons y ys =>
          rw [hl] at hx
          simp only [List.getLast?_cons_cons] at hx
          rw [← hl] at hx
          exact hlast x hx hxe
      · intro hpos hlt
        have hk : 0 < k := hpos k (by simp)
        have hp := read_more_pos r inp k hk hres
        have hol : o.length = (read r inp k).2.1.length + o1.length := by
          have := congrArg List.length ho1; simpa using this
        have hlt' : o1.length < ks.length := by simp at hlt; omega
        obtain ⟨x, hx, hxe⟩ := hprog (fun k' hk' => hpos k' (by simp [hk'])) hlt'
        refine ⟨x, ?_, hxe⟩
        cases hl : (readSched (read r inp k).1 (read r inp k).2.2.1 ks).1 with
        | nil => rw [hl] at hx; simp at hx
        | cons y ys =>
          rw [hl] at hx
          simp only [List.getLast?_cons_cons]
          exact hx
    · -- EOF: the schedule ends here
      have e : readSched r inp (k :: ks) =
          ([((read r inp k).2.1, Res.eof)], (read r inp k).1, (read r inp k).2.2.1) := by
        simp only [readSched]
        rw [hres]
      rw [e]
      refine ⟨o1, by simpa using ho1, by simp, ?_, ?_⟩
      · intro x hx _
        simp at hx
        exact ⟨ho1', hrest1⟩
      · intro _ _
        exact ⟨((read r inp k).2.1, Res.eof), by simp, rfl⟩

end SmtpV.DataReader
