import SmtpV.Proofs.AcctInv
import SmtpV.Props.C13
/-!
C04, "exactly one reply per command": the number of writes on the socket, followed through the handlers of the server model.
`nw` counts the writes (those after the close included); `owed` adds the 421 that `recover` still owes for a handler that panicked.
-/
namespace SmtpV.Server
open SmtpV SmtpV.Wire SmtpV.DataReader SmtpV.Spec SmtpV.Reply

/-- a write on the socket (a reply, or several written at once) -/
def isW : Ev → Bool
  | .w _ => true
  | _ => false

/-- how many times the server has written to the socket so far (writes after the close are counted, not logged) -/
def nw (s : S) : Nat := (s.evs.filter isW).length + s.wac

@[simp] theorem nw_emit (s : S) (e : Ev) : nw (emit s e) = nw s + (if isW e then 1 else 0) := by
  unfold nw emit
  cases h : isW e <;> simp [h] <;> omega

@[simp] theorem nw_write (s : S) (bs : Bytes) : nw (write s bs) = nw s + 1 := by
  unfold write
  split
  · simp [nw]; omega
  · simp [isW]

@[simp] theorem nw_reply (s : S) (code : Nat) (enh : Enh) (t : String) : nw (reply s code enh t) = nw s + 1 := nw_write _ _
@[simp] theorem nw_replyB (s : S) (code : Nat) (enh : Enh) (t : List Bytes) : nw (replyB s code enh t) = nw s + 1 := nw_write _ _

theorem nw_of_eq {s s' : S} (h1 : s'.evs = s.evs) (h2 : s'.wac = s.wac) : nw s' = nw s := by simp [nw, h1, h2]

@[simp] theorem nw_popNs (s : S) : nw (popNs s).2 = nw s := by unfold popNs; split <;> rfl
@[simp] theorem nw_popMail (s : S) : nw (popMail s).2 = nw s := by unfold popMail; split <;> rfl
@[simp] theorem nw_popRcpt (s : S) : nw (popRcpt s).2 = nw s := by unfold popRcpt; split <;> rfl
@[simp] theorem nw_setDrec (s : S) (k : Nat) (f : DRec → DRec) : nw (setDrec s k f) = nw s := rfl
@[simp] theorem nw_setHelo (s : S) (d : Bytes) : nw (setHelo s d) = nw s := rfl
@[simp] theorem nw_setBinarymime (s : S) (b : Bool) : nw (setBinarymime s b) = nw s := rfl

@[simp] theorem nw_delivFinish (s : S) (k : Nat) (e : RdEnd) : nw (delivFinish s k e) = nw s := by
  unfold delivFinish; simp only []; split <;> simp [isW]

@[simp] theorem nw_abortBdat (s : S) : nw (abortBdat s) = nw s := by
  unfold abortBdat
  split
  · rename_i k _
    have : nw (delivAbort s k) = nw s := by unfold delivAbort; split <;> simp
    rw [← this]; exact nw_of_eq rfl rfl
  · rfl

@[simp] theorem nw_logoutSess (s : S) : nw (logoutSess s) = nw s := by
  unfold logoutSess
  split
  · rename_i id _
    have : nw (emit s (.logout id)) = nw s := by simp [isW]
    rw [← this]; exact nw_of_eq rfl rfl
  · rfl

@[simp] theorem nw_closeSock (s : S) : nw (closeSock s) = nw s := by
  unfold closeSock
  split
  · rfl
  · rw [nw_emit]; simp [isW]; exact nw_of_eq rfl rfl

@[simp] theorem nw_closeConn (s : S) : nw (closeConn s) = nw s := by unfold closeConn; simp

@[simp] theorem nw_resetSess (s : S) : nw (resetSess s) = nw s := by unfold resetSess; split <;> simp [isW]

@[simp] theorem nw_resetConn (s : S) : nw (resetConn s) = nw s := by
  unfold resetConn clearEnvelope
  have : nw (resetSess (abortBdat s)) = nw s := by simp
  rw [← this]; exact nw_of_eq rfl rfl

/-- `defer recover()`: a handler that panicked gets its one reply here (421) -/
theorem nw_recoverPanic (p : S × Bool) : nw (recoverPanic p) = nw p.1 + (if p.2 then 1 else 0) := by
  unfold recoverPanic
  split <;> simp [isW, *]

@[simp] theorem nw_greetReply (s : S) (e : Bool) (d : Bytes) : nw (greetReply s e d) = nw s + 1 := by
  unfold greetReply; split <;> simp

@[simp] theorem nw_newSession (s : S) (d : Bytes) : nw (newSession s d).1 = nw s := by
  unfold newSession
  rcases h : popNs s with ⟨r, s1⟩
  have := nw_popNs s; rw [h] at this
  simp only [nw_emit, isW]
  rw [← this]; exact nw_of_eq rfl rfl

/-- a handler result: the replies written, the one still owed by `recover` included -/
def owed (p : S × Bool) : Nat := nw p.1 + (if p.2 then 1 else 0)
@[simp] theorem owed_false (s : S) : owed (s, false) = nw s := by simp [owed]
@[simp] theorem owed_true (s : S) : owed (s, true) = nw s + 1 := by simp [owed]

theorem owed_handleGreet (s : S) (e : Bool) (arg : Bytes) : owed (handleGreet s e arg) = nw s + 1 := by
  unfold handleGreet
  split
  · simp
  · simp only []
    split
    · simp
    · have hn := nw_newSession (setHelo s ‹Bytes›) ‹Bytes›
      generalize newSession (setHelo s ‹Bytes›) ‹Bytes› = p at hn ⊢
      obtain ⟨s2, r⟩ := p
      simp only [nw_setHelo] at hn ⊢
      split <;> simp [hn]

theorem owed_mailCall (s : S) (id : Nat) (frm : Bytes) (opts : MailOpts) : owed (mailCall s id frm opts) = nw s + 1 := by
  unfold mailCall
  have hp := nw_popMail s
  generalize popMail s = p at hp ⊢
  obtain ⟨r, s1⟩ := p
  simp only [] at hp ⊢
  split
  · rw [owed_false, nw_replyB]
    rw [← hp]
    have : nw (emit s1 (.mail id frm opts BRes.ok)) = nw s1 := by simp [isW]
    rw [← this]; congr 1
  · simp [isW, hp]
  · simp [isW, hp]

theorem owed_handleMail (s : S) (arg : Bytes) : owed (handleMail s arg) = nw s + 1 := by
  unfold handleMail
  split
  · simp
  split
  · simp
  split
  · simp
  split
  · simp
  split
  · simp
  split
  · simp
  split
  · simp
  · rw [owed_mailCall]; simp

theorem owed_handleRcpt (s : S) (arg : Bytes) : owed (handleRcpt s arg) = nw s + 1 := by
  unfold handleRcpt
  split
  · simp
  split
  · simp
  split
  · simp
  split
  · simp
  split
  · simp
  split
  · simp
  split
  · simp
  split
  · simp
  · simp only []
    have hp := nw_popRcpt s
    generalize popRcpt s = p at hp ⊢
    obtain ⟨r, s1⟩ := p
    simp only [] at hp ⊢
    split
    · rw [owed_false, nw_replyB]
      rw [← hp]
      have : nw (emit s1 (.rcpt ‹Nat› ‹Bytes› ‹RcptOpts› BRes.ok)) = nw s1 := by simp [isW]
      rw [← this]; congr 1
    · simp [isW, hp]
    · simp [isW, hp]

/-! ### DATA and BDAT (plain SMTP: one final reply per message) -/

@[simp] theorem nw_popData (s : S) : nw (popData s).2 = nw s := by unfold popData; split <;> rfl
@[simp] theorem nw_setW (s : S) (w : W) : nw (setW s w) = nw s := rfl
@[simp] theorem nw_setLimit (s : S) (n : Nat) : nw (setLimit s n) = nw s := rfl
@[simp] theorem nw_armLimit (s : S) : nw (armLimit s) = nw s := rfl
@[simp] theorem nw_addBytesReceived (s : S) (n : Nat) : nw (addBytesReceived s n) = nw s := rfl
@[simp] theorem nw_discardChunkN (s : S) (sz : Option Nat) : nw (discardChunkN s sz) = nw s := by
  unfold discardChunkN; split <;> rfl
@[simp] theorem nw_setBdatStatus (s : S) : nw (setBdatStatus s) = nw s := by unfold setBdatStatus; split <;> rfl

@[simp] theorem nw_writeLmtpStatuses (sts : List (Bytes × BRes)) : ∀ (s : S), nw (writeLmtpStatuses s sts) = nw s + sts.length := by
  induction sts with
  | nil => intro s; rfl
  | cons x xs ih =>
    intro s
    simp only [writeLmtpStatuses, List.foldl_cons, List.length_cons] at ih ⊢
    rw [ih, nw_replyB]; omega

theorem owed_dataSync (s : S) (id : Nat) (hl : s.cfg.lmtp = false) : owed (dataSync s id) = nw s + 1 := by
  unfold dataSync
  have hp := nw_popData s
  have hpc : (popData s).2.cfg = s.cfg := (as_popData s).cfg
  generalize popData s = p at hp hpc ⊢
  obtain ⟨dec, s1⟩ := p
  simp only [] at hp hpc ⊢
  have hb : nw (beginData s1 id dec).1 = nw s1 := rfl
  have hbc : (beginData s1 id dec).1.cfg = s1.cfg := rfl
  generalize beginData s1 id dec = q at hb hbc ⊢
  obtain ⟨s2, k⟩ := q
  simp only [] at hb hbc ⊢
  have h3 : nw (emit s2 (.dataBegin id k)) = nw s := by simp [isW, hb, hp]
  have h3c : (emit s2 (.dataBegin id k)).cfg = s.cfg := hbc.trans hpc
  generalize emit s2 (.dataBegin id k) = s3 at h3 h3c ⊢
  generalize backendRead (wireFuel s3.w) (newDataReader s3) s3.w dec.want dec.rsz [] = br
  obtain ⟨r1, w1, octets, e⟩ := br
  simp only []
  have hl4 : (setW s3 w1).cfg.lmtp = false := by rw [show (setW s3 w1).cfg = s3.cfg from rfl, h3c]; exact hl
  simp only [hl4, Bool.not_false, if_true]
  unfold dataFinishSmtp
  simp only []
  split
  · simp [h3]
  · simp [h3]

/-- the conditions under which DATA is answered 354 -/
def dataAccepted (s : S) (arg : Bytes) : Bool :=
  arg.isEmpty && !s.c.bdat.isSome && !s.c.binarymime && !(!s.c.fromReceived || s.c.recipients.isEmpty)

theorem owed_handleData (s : S) (arg : Bytes) (hl : s.cfg.lmtp = false) :
    owed (handleData s arg) = nw s + (if dataAccepted s arg then 2 else 1) := by
  unfold handleData dataAccepted
  split
  · rename_i h
    have : arg.isEmpty = false := by simpa using h
    simp [this]
  rename_i h1
  split
  · rename_i h; simp [h]
  rename_i h2
  split
  · rename_i h; simp [h]
  rename_i h3
  split
  · rename_i h; simp at h1; simp [h, h1]
  rename_i h4
  simp only []
  have hc : (reply s 354 noEnh "Go ahead. End your data with <CR><LF>.<CR><LF>").cfg.lmtp = false := by
    rw [reply_cfg]; exact hl
  have hn := nw_reply s 354 noEnh "Go ahead. End your data with <CR><LF>.<CR><LF>"
  generalize reply s 354 noEnh "Go ahead. End your data with <CR><LF>.<CR><LF>" = s1 at hc hn ⊢
  have hacc : (arg.isEmpty && !s.c.bdat.isSome && !s.c.binarymime && !(!s.c.fromReceived || s.c.recipients.isEmpty)) = true := by
    simp at h1 h2 h3 h4
    simp [h1, h2, h3, h4]
  simp only [hacc, if_true]
  split
  · simp [hn]
  · rw [owed_dataSync _ _ hc, hn]

@[simp] theorem nw_delivWrite (s : S) (k : Nat) (bs : Bytes) : nw (delivWrite s k bs).1 = nw s := by
  unfold delivWrite
  split
  · rfl
  · simp only []; split <;> simp

theorem nw_copyChunk : ∀ (fuel : Nat) (s : S) (k n cap : Nat), nw (copyChunk fuel s k n cap).1 = nw s := by
  intro fuel
  induction fuel with
  | zero => intro s k n cap; rfl
  | succ fuel ih =>
    intro s k n cap
    unfold copyChunk
    split
    · rfl
    · generalize bufRead s.w (min cap n) = br
      obtain ⟨w1, r⟩ := br
      cases r with
      | error e => cases e <;> rfl
      | ok bs =>
        simp only []
        have h2 := nw_delivWrite { s with w := w1 } k bs
        generalize delivWrite { s with w := w1 } k bs = dw at h2 ⊢
        obtain ⟨s1, okAll⟩ := dw
        simp only [] at h2 ⊢
        split
        · rw [ih, h2]; rfl
        · rw [h2]; rfl

@[simp] theorem nw_bdatBegin (s : S) : nw (bdatBegin s).1 = nw s := by
  unfold bdatBegin
  split
  · rfl
  · have hp := nw_popData s
    generalize popData s = p at hp ⊢
    obtain ⟨dec, s1⟩ := p
    simp only [] at hp ⊢
    have hs : nw (startDelivery s1 dec).1 = nw s1 := by
      unfold startDelivery
      simp only []
      have : nw (emit (beginData s1 (s1.c.session.getD 0) dec).1 (.dataBegin (s1.c.session.getD 0) (beginData s1 (s1.c.session.getD 0) dec).2)) = nw s1 := by
        simp [isW]; rfl
      rw [← this]; exact nw_of_eq rfl rfl
    generalize startDelivery s1 dec = q at hs ⊢
    obtain ⟨s2, k⟩ := q
    simp only [] at hs ⊢
    split <;> simp [hs, hp]

theorem bdatBegin_cfg (s : S) : (bdatBegin s).1.cfg = s.cfg := by
  have := acct_bdatBegin
  unfold bdatBegin
  split
  · rfl
  · have hp := (as_popData s).cfg
    generalize popData s = p at hp ⊢
    obtain ⟨dec, s1⟩ := p
    simp only [] at hp ⊢
    have hs : (startDelivery s1 dec).1.cfg = s1.cfg := rfl
    generalize startDelivery s1 dec = q at hs ⊢
    obtain ⟨s2, k⟩ := q
    simp only [] at hs ⊢
    split
    · exact (as_delivFinish _ _ _).cfg.trans (hs.trans hp)
    · exact hs.trans hp

theorem owed_bdatFail (s : S) (k left : Nat) (last : Bool) (err : BRes) (hl : s.cfg.lmtp = false) :
    owed (bdatFail s k left last err) = nw s + 1 := by
  unfold bdatFail
  simp only [owed_false, nw_armLimit, nw_resetConn]
  have h1 : nw (bdatFailReplies (setW s (discardN (wireFuel s.w) s.w left)) k last err) = nw s + 1 := by
    unfold bdatFailReplies
    have : (setW s (discardN (wireFuel s.w) s.w left)).cfg.lmtp = false := hl
    simp only [this, Bool.false_and, Bool.false_eq_true, if_false]
    simp
  split <;> simp [h1]

theorem owed_bdatFinal (s : S) (k : Nat) (hl : s.cfg.lmtp = false) : owed (bdatFinal s k) = nw s + 1 := by
  unfold bdatFinal
  simp only []
  have h1 : nw (if delivRunning s k then delivFinish s k .eof else s) = nw s := by split <;> simp
  have hc : (if delivRunning s k then delivFinish s k .eof else s).cfg.lmtp = false := by
    split
    · rw [(as_delivFinish _ _ _).cfg]; exact hl
    · exact hl
  generalize (if delivRunning s k then delivFinish s k .eof else s) = s1 at h1 hc ⊢
  simp only [hc, Bool.false_eq_true, if_false]
  split <;> simp [h1]

theorem owed_bdatDone (s : S) (k size : Nat) (last : Bool) (hl : s.cfg.lmtp = false) : owed (bdatDone s k size last) = nw s + 1 := by
  unfold bdatDone
  simp only []
  split
  · simp
  · rw [owed_bdatFinal _ _ (by exact hl)]; simp

theorem owed_bdatAfterCopy (s : S) (k size left : Nat) (last : Bool) (ce : CopyEnd) (hl : s.cfg.lmtp = false) :
    owed (bdatAfterCopy s k size left last ce) = nw s + 1 := by
  unfold bdatAfterCopy
  split
  · exact owed_bdatFail _ _ _ _ _ hl
  · exact owed_bdatFail _ _ _ _ _ hl
  · simp only []
    split <;> exact owed_bdatFail _ _ _ _ _ hl
  · exact owed_bdatDone _ _ _ _ hl

theorem copyChunk_cfg (fuel : Nat) (s : S) (k n cap : Nat) (hl : s.w.limit = 0) : (copyChunk fuel s k n cap).1.cfg = s.cfg :=
  (cs_copyChunk fuel s k n cap hl).cfg

theorem owed_bdatChunk (s : S) (size : Nat) (last : Bool) (hl : s.cfg.lmtp = false) : owed (bdatChunk s size last) = nw s + 1 := by
  unfold bdatChunk
  have h1 : nw (bdatBegin (setBdatStatus s)).1 = nw s := by simp
  have hc1 : (bdatBegin (setBdatStatus s)).1.cfg = s.cfg := (bdatBegin_cfg _).trans (as_setBdatStatus s).cfg
  generalize bdatBegin (setBdatStatus s) = p at h1 hc1 ⊢
  obtain ⟨s1, k⟩ := p
  simp only [] at h1 hc1 ⊢
  have h2 : nw (setLimit s1 0) = nw s := by simp [h1]
  have hc2 : (setLimit s1 0).cfg = s.cfg := hc1
  have hl2 : (setLimit s1 0).w.limit = 0 := rfl
  generalize setLimit s1 0 = s2 at h2 hc2 hl2 ⊢
  have h3 := nw_copyChunk (wireFuel s2.w) s2 k size (min 32768 (max size 1))
  have hc3 := copyChunk_cfg (wireFuel s2.w) s2 k size (min 32768 (max size 1)) hl2
  generalize copyChunk (wireFuel s2.w) s2 k size (min 32768 (max size 1)) = q at h3 hc3 ⊢
  obtain ⟨s3, left, ce⟩ := q
  simp only [] at h3 hc3 ⊢
  rw [owed_bdatAfterCopy _ _ _ _ _ _ (by rw [hc3, hc2]; exact hl), h3, h2]

/-- **every BDAT command gets exactly one reply** (plain SMTP) — refused, accepted, failed, last or not -/
theorem owed_handleBdat (s : S) (arg : Bytes) (hl : s.cfg.lmtp = false) : owed (handleBdat s arg) = nw s + 1 := by
  unfold handleBdat
  split
  · simp
  · simp only []
    split
    · simp
    split
    · simp
    split
    · simp
    split
    · simp
    split
    · simp
    · exact owed_bdatChunk _ _ _ hl

/-! ### the dispatcher -/

/-- an unrecognised command: its reply, and the closing notice when the connection is given up -/
theorem nw_protocolErrorB (s : S) (code : Nat) (enh : Enh) (t : Bytes) :
    nw (protocolErrorB s code enh t) = nw s + 1 ∨
    (nw (protocolErrorB s code enh t) = nw s + 2 ∧ (protocolErrorB s code enh t).c.closed = true) := by
  unfold protocolErrorB
  simp only []
  have h1 := nw_replyB s code enh [t]
  generalize replyB s code enh [t] = s1 at h1 ⊢
  have h2 : nw ({ s1 with c := { s1.c with errCount := s1.c.errCount + 1 } } : S) = nw s1 := nw_of_eq rfl rfl
  generalize ({ s1 with c := { s1.c with errCount := s1.c.errCount + 1 } } : S) = s2 at h2 ⊢
  split
  · right
    exact ⟨by simp [h1, h2], closeConn_closed _⟩
  · left
    rw [h2, h1]

theorem nw_protocolError (s : S) (code : Nat) (enh : Enh) (t : String) :
    nw (protocolError s code enh t) = nw s + 1 ∨
    (nw (protocolError s code enh t) = nw s + 2 ∧ (protocolError s code enh t).c.closed = true) := by
  unfold protocolError
  simp only []
  have h1 := nw_reply s code enh t
  generalize reply s code enh t = s1 at h1 ⊢
  have h2 : nw ({ s1 with c := { s1.c with errCount := s1.c.errCount + 1 } } : S) = nw s1 := nw_of_eq rfl rfl
  generalize ({ s1 with c := { s1.c with errCount := s1.c.errCount + 1 } } : S) = s2 at h2 ⊢
  split
  · right
    exact ⟨by simp [h1, h2], closeConn_closed _⟩
  · left
    rw [h2, h1]

/-- how many replies a command is answered with in plain SMTP (AUTH and STARTTLS have intermediate replies of their own
    and are not covered): two for an accepted DATA (354 and the final reply), one for everything else -/
def repliesDue (s : S) (cmd arg : Bytes) : Nat :=
  if verbOf cmd = .data ∧ dataAccepted s arg = true then 2 else 1

/-- **one reply per command**: whatever the arguments, the state and the backend's behaviour (refusals, errors, panics) -/
theorem nw_dispatch (s : S) (cmd arg : Bytes) (hl : s.cfg.lmtp = false)
    (hv : verbOf cmd ≠ .auth ∧ verbOf cmd ≠ .starttls ∧ verbOf cmd ≠ .unknown) :
    nw (dispatch s cmd arg) = nw s + repliesDue s cmd arg := by
  unfold dispatch repliesDue
  split
  · rename_i h; simp [h]
  · rename_i h
    simp only [h, reduceCtorEq, false_and, if_false]
    unfold dispatchGreet
    split
    · simp
    split
    · simp
    · rw [nw_recoverPanic]; exact owed_handleGreet _ _ _
  · rename_i h; simp only [h, reduceCtorEq, false_and, if_false]; rw [nw_recoverPanic]; exact owed_handleMail _ _
  · rename_i h; simp only [h, reduceCtorEq, false_and, if_false]; rw [nw_recoverPanic]; exact owed_handleRcpt _ _
  · rename_i h; simp [h]
  · rename_i h; simp [h]
  · rename_i h; simp [h]
  · rename_i h; simp only [h, reduceCtorEq, false_and, if_false]; rw [nw_recoverPanic]; exact owed_handleBdat _ _ hl
  · rename_i h; simp only [h, true_and]; rw [nw_recoverPanic]; exact owed_handleData _ _ hl
  · rename_i h; simp [h]
  · rename_i h; exact absurd h hv.1
  · rename_i h; exact absurd h hv.2.1
  · rename_i h; exact absurd h hv.2.2

/-! ### STARTTLS -/

@[simp] theorem nw_popHs (s : S) : nw (popHs s).2 = nw s := by unfold popHs; split <;> rfl
@[simp] theorem nw_popAuth (s : S) : nw (popAuth s).2 = nw s := by unfold popAuth; split <;> rfl
@[simp] theorem nw_popSasl (s : S) : nw (popSasl s).2 = nw s := by unfold popSasl; split <;> rfl

@[simp] theorem nw_tlsUpgrade (s : S) : nw (tlsUpgrade s) = nw s := by
  unfold tlsUpgrade
  rw [nw_resetConn]
  have : nw (forgetGreeting (logoutSess (switchWire s))) = nw (logoutSess (switchWire s)) := nw_of_eq rfl rfl
  rw [this, nw_logoutSess]
  exact nw_of_eq rfl rfl

/-- STARTTLS: one reply when refused; `220` alone when the handshake succeeds (what follows is inside TLS); `220` and then a
    `550` in plaintext when the handshake fails -/
theorem nw_handleStartTLS (s : S) :
    nw (handleStartTLS s) = nw s + 1 ∨ nw (handleStartTLS s) = nw s + 2 := by
  unfold handleStartTLS
  split
  · left; simp
  split
  · left; simp
  · simp only []
    have h1 := nw_reply s 220 ⟨2, 0, 0⟩ "Ready to start TLS"
    generalize reply s 220 ⟨2, 0, 0⟩ "Ready to start TLS" = s1 at h1 ⊢
    have hp := nw_popHs s1
    generalize popHs s1 = p at hp ⊢
    obtain ⟨ok, s2⟩ := p
    simp only [] at hp ⊢
    split
    · right; simp [isW, hp, h1]
    · left; simp [isW, hp, h1]


/-! ### LMTP: one final reply per accepted recipient -/

theorem collect_length (rcpts : List Bytes) (q : List (Bytes × BRes)) (fill : BRes) : (collect rcpts q fill).length = rcpts.length := by
  have h := Props.C13.C13_one_per_recipient rcpts q fill
  rw [← Props.C13.C13_model_is_spec] at h
  have := congrArg List.length h
  simpa using this

/-- LMTP, the DATA command once accepted: one final reply per accepted recipient — or, when a backend without per-recipient
    statuses panics, the single 421 of `recover` -/
theorem owed_dataSync_lmtp (s : S) (id : Nat) (hl : s.cfg.lmtp = true) :
    owed (dataSync s id) = nw s + s.c.recipients.length ∨ ((dataSync s id).2 = true ∧ owed (dataSync s id) = nw s + 1) := by
  unfold dataSync
  have hp := nw_popData s
  have hpc : (popData s).2.cfg = s.cfg := (as_popData s).cfg
  have hpr : (popData s).2.c = s.c := by unfold popData; split <;> rfl
  generalize popData s = p at hp hpc hpr ⊢
  obtain ⟨dec, s1⟩ := p
  simp only [] at hp hpc hpr ⊢
  have hb : nw (beginData s1 id dec).1 = nw s1 := rfl
  have hbc : (beginData s1 id dec).1.cfg = s1.cfg := rfl
  have hbr : (beginData s1 id dec).1.c = s1.c := rfl
  generalize beginData s1 id dec = q at hb hbc hbr ⊢
  obtain ⟨s2, k⟩ := q
  simp only [] at hb hbc hbr ⊢
  have h3 : nw (emit s2 (.dataBegin id k)) = nw s := by simp [isW, hb, hp]
  have h3c : (emit s2 (.dataBegin id k)).cfg = s.cfg := hbc.trans hpc
  have h3r : (emit s2 (.dataBegin id k)).c = s.c := hbr.trans hpr
  generalize emit s2 (.dataBegin id k) = s3 at h3 h3c h3r ⊢
  generalize backendRead (wireFuel s3.w) (newDataReader s3) s3.w dec.want dec.rsz [] = br
  obtain ⟨r1, w1, octets, e⟩ := br
  simp only []
  have hl4 : (setW s3 w1).cfg.lmtp = true := by rw [show (setW s3 w1).cfg = s3.cfg from rfl, h3c]; exact hl
  have h4 : nw (setW s3 w1) = nw s := h3
  have h4r : (setW s3 w1).c = s.c := h3r
  generalize setW s3 w1 = s4 at hl4 h4 h4r ⊢
  simp only [hl4, Bool.not_true, Bool.false_eq_true, if_false]
  split
  · unfold dataFinishLmtpPlain
    simp only []
    split
    · right; simp [h4]
    · left; simp [h4, h4r]
  · unfold dataFinishLmtpSess
    simp only []
    generalize applyStatuses s4.c.recipients dec.statuses [] = ap
    obtain ⟨qq, okc⟩ := ap
    simp only []
    left
    repeat' split
    all_goals simp [h4, h4r, collect_length, isW]

theorem owed_handleData_lmtp (s : S) (arg : Bytes) (hl : s.cfg.lmtp = true) :
    owed (handleData s arg) = nw s + 1 ∨ owed (handleData s arg) = nw s + 1 + s.c.recipients.length ∨
    ((handleData s arg).2 = true ∧ owed (handleData s arg) = nw s + 2) := by
  unfold handleData
  split
  · left; simp
  split
  · left; simp
  split
  · left; simp
  split
  · left; simp
  simp only []
  have hc : (reply s 354 noEnh "Go ahead. End your data with <CR><LF>.<CR><LF>").cfg.lmtp = true := by
    rw [reply_cfg]; exact hl
  have hn := nw_reply s 354 noEnh "Go ahead. End your data with <CR><LF>.<CR><LF>"
  have hr : (reply s 354 noEnh "Go ahead. End your data with <CR><LF>.<CR><LF>").c = s.c := by
    unfold reply write; split <;> rfl
  generalize reply s 354 noEnh "Go ahead. End your data with <CR><LF>.<CR><LF>" = s1 at hc hn hr ⊢
  split
  · right; right; simp [hn]
  · rcases owed_dataSync_lmtp s1 ‹Nat› hc with h | ⟨h1, h2⟩
    · right; left; rw [h, hn, hr]
    · right; right; exact ⟨h1, by rw [h2, hn]⟩

/-! ### BDAT in LMTP: one reply per chunk, one per recipient for the LAST one -/

theorem delivWrite_c (s : S) (k : Nat) (bs : Bytes) : (delivWrite s k bs).1.c = s.c := by
  unfold delivWrite
  split
  · rfl
  · simp only []
    split
    · rw [delivFinish_c]; rfl
    · rfl

theorem copyChunk_c : ∀ (fuel : Nat) (s : S) (k n cap : Nat), (copyChunk fuel s k n cap).1.c = s.c := by
  intro fuel
  induction fuel with
  | zero => intro s k n cap; rfl
  | succ fuel ih =>
    intro s k n cap
    unfold copyChunk
    split
    · rfl
    · generalize bufRead s.w (min cap n) = br
      obtain ⟨w1, r⟩ := br
      cases r with
      | error e => cases e <;> rfl
      | ok bs =>
        simp only []
        have h2 := delivWrite_c { s with w := w1 } k bs
        generalize delivWrite { s with w := w1 } k bs = dw at h2 ⊢
        obtain ⟨s1, okAll⟩ := dw
        simp only [] at h2 ⊢
        split
        · rw [ih, h2]
        · rw [h2]

theorem bdatBegin_recipients (s : S) : (bdatBegin s).1.c.recipients = s.c.recipients := by
  unfold bdatBegin
  split
  · rfl
  · have hp : (popData s).2.c = s.c := by unfold popData; split <;> rfl
    generalize popData s = p at hp ⊢
    obtain ⟨dec, s1⟩ := p
    simp only [] at hp ⊢
    have hs : (startDelivery s1 dec).1.c.recipients = s1.c.recipients := rfl
    generalize startDelivery s1 dec = q at hs ⊢
    obtain ⟨s2, k⟩ := q
    simp only [] at hs ⊢
    split
    · rw [delivFinish_c, hs, hp]
    · rw [hs, hp]

/-- the number of final replies a chunk is answered with in LMTP -/
def chunkReplies (s : S) (last : Bool) : Nat := if last then s.c.recipients.length else 1

theorem owed_bdatFail_lmtp (s : S) (k left : Nat) (last : Bool) (err : BRes) (hl : s.cfg.lmtp = true) :
    owed (bdatFail s k left last err) = nw s + chunkReplies s last := by
  unfold bdatFail chunkReplies
  simp only [owed_false, nw_armLimit, nw_resetConn]
  have h1 : nw (bdatFailReplies (setW s (discardN (wireFuel s.w) s.w left)) k last err) =
      nw s + (if last then s.c.recipients.length else 1) := by
    unfold bdatFailReplies
    have hc : (setW s (discardN (wireFuel s.w) s.w left)).cfg.lmtp = true := hl
    have hr : (setW s (discardN (wireFuel s.w) s.w left)).c = s.c := rfl
    cases last with
    | false => simp
    | true =>
      simp only [hc, Bool.and_self, if_true, hr]
      generalize applyStatuses (s.c.bdatStatus.getD s.c.recipients) (delivDec (setW s (discardN (wireFuel s.w) s.w left)) k).statuses [] = ap
      obtain ⟨qq, okc⟩ := ap
      repeat' split
      all_goals simp [collect_length]
  split <;> simp [h1]

theorem owed_bdatFinal_lmtp (s : S) (k : Nat) (hl : s.cfg.lmtp = true) : owed (bdatFinal s k) = nw s + s.c.recipients.length := by
  unfold bdatFinal
  simp only []
  have h1 : nw (if delivRunning s k then delivFinish s k .eof else s) = nw s := by split <;> simp
  have hc : (if delivRunning s k then delivFinish s k .eof else s).cfg.lmtp = true := by
    split
    · rw [(as_delivFinish _ _ _).cfg]; exact hl
    · exact hl
  have hr : (if delivRunning s k then delivFinish s k .eof else s).c = s.c := by
    split
    · exact delivFinish_c _ _ _
    · rfl
  generalize (if delivRunning s k then delivFinish s k .eof else s) = s1 at h1 hc hr ⊢
  simp only [hc, if_true, hr]
  generalize applyStatuses (s.c.bdatStatus.getD s.c.recipients) (delivDec s1 k).statuses [] = ap
  obtain ⟨qq, okc⟩ := ap
  repeat' split
  all_goals simp [h1, collect_length]

theorem owed_bdatDone_lmtp (s : S) (k size : Nat) (last : Bool) (hl : s.cfg.lmtp = true) :
    owed (bdatDone s k size last) = nw s + chunkReplies s last := by
  unfold bdatDone chunkReplies
  simp only []
  cases last with
  | false => simp
  | true =>
    simp only [Bool.not_true, Bool.false_eq_true, if_false, if_true]
    rw [owed_bdatFinal_lmtp _ _ (by exact hl)]
    simp; rfl

theorem owed_bdatAfterCopy_lmtp (s : S) (k size left : Nat) (last : Bool) (ce : CopyEnd) (hl : s.cfg.lmtp = true) :
    owed (bdatAfterCopy s k size left last ce) = nw s + chunkReplies s last := by
  unfold bdatAfterCopy
  split
  · exact owed_bdatFail_lmtp _ _ _ _ _ hl
  · exact owed_bdatFail_lmtp _ _ _ _ _ hl
  · simp only []
    split <;> exact owed_bdatFail_lmtp _ _ _ _ _ hl
  · exact owed_bdatDone_lmtp _ _ _ _ hl

theorem owed_bdatChunk_lmtp (s : S) (size : Nat) (last : Bool) (hl : s.cfg.lmtp = true) :
    owed (bdatChunk s size last) = nw s + chunkReplies s last := by
  unfold bdatChunk
  have h1 : nw (bdatBegin (setBdatStatus s)).1 = nw s := by simp
  have hc1 : (bdatBegin (setBdatStatus s)).1.cfg = s.cfg := (bdatBegin_cfg _).trans (as_setBdatStatus s).cfg
  have hr1 : (bdatBegin (setBdatStatus s)).1.c.recipients = s.c.recipients := by
    rw [bdatBegin_recipients]; unfold setBdatStatus; split <;> rfl
  generalize bdatBegin (setBdatStatus s) = p at h1 hc1 hr1 ⊢
  obtain ⟨s1, k⟩ := p
  simp only [] at h1 hc1 hr1 ⊢
  have h2 : nw (setLimit s1 0) = nw s := by simp [h1]
  have hc2 : (setLimit s1 0).cfg = s.cfg := hc1
  have hr2 : (setLimit s1 0).c.recipients = s.c.recipients := hr1
  have hl2 : (setLimit s1 0).w.limit = 0 := rfl
  generalize setLimit s1 0 = s2 at h2 hc2 hr2 hl2 ⊢
  have h3 := nw_copyChunk (wireFuel s2.w) s2 k size (min 32768 (max size 1))
  have hc3 := copyChunk_cfg (wireFuel s2.w) s2 k size (min 32768 (max size 1)) hl2
  have hr3 := copyChunk_c (wireFuel s2.w) s2 k size (min 32768 (max size 1))
  generalize copyChunk (wireFuel s2.w) s2 k size (min 32768 (max size 1)) = q at h3 hc3 hr3 ⊢
  obtain ⟨s3, left, ce⟩ := q
  simp only [] at h3 hc3 hr3 ⊢
  rw [owed_bdatAfterCopy_lmtp _ _ _ _ _ _ (by rw [hc3, hc2]; exact hl), h3, h2]
  unfold chunkReplies
  rw [hr3, hr2]

/-- LMTP: a BDAT command is answered with one reply, or — an accepted LAST chunk, delivered or failed — with one per recipient -/
theorem owed_handleBdat_lmtp (s : S) (arg : Bytes) (hl : s.cfg.lmtp = true) :
    owed (handleBdat s arg) = nw s + 1 ∨ owed (handleBdat s arg) = nw s + s.c.recipients.length := by
  unfold handleBdat
  split
  · left; simp
  · simp only []
    split
    · left; simp
    split
    · left; simp
    split
    · left; simp
    split
    · left; simp
    split
    · left; simp
    · rw [owed_bdatChunk_lmtp _ _ _ hl]
      unfold chunkReplies
      split
      · right; rfl
      · left; rfl


/-- **LMTP**: every command other than AUTH/STARTTLS is answered with one reply; an accepted LAST chunk — delivered or
    failed — with one per accepted recipient; an accepted DATA with 354 and then one per accepted recipient, or, when a
    backend without per-recipient statuses panics, 354 and the 421 of `recover` -/
theorem nw_dispatch_lmtp (s : S) (cmd arg : Bytes) (hl : s.cfg.lmtp = true)
    (hv : verbOf cmd ≠ .auth ∧ verbOf cmd ≠ .starttls ∧ verbOf cmd ≠ .unknown) :
    nw (dispatch s cmd arg) = nw s + 1 ∨
    (verbOf cmd = .bdat ∧ nw (dispatch s cmd arg) = nw s + s.c.recipients.length) ∨
    (verbOf cmd = .data ∧ (nw (dispatch s cmd arg) = nw s + 1 + s.c.recipients.length ∨ nw (dispatch s cmd arg) = nw s + 2)) := by
  unfold dispatch
  split
  · left; simp
  · left
    unfold dispatchGreet
    split
    · simp
    split
    · simp
    · rw [nw_recoverPanic]; exact owed_handleGreet _ _ _
  · left; rw [nw_recoverPanic]; exact owed_handleMail _ _
  · left; rw [nw_recoverPanic]; exact owed_handleRcpt _ _
  · left; simp
  · left; simp
  · left; simp
  · rename_i h
    rw [nw_recoverPanic]
    rcases owed_handleBdat_lmtp s arg hl with h1 | h1
    · left; exact h1
    · right; left; exact ⟨h, h1⟩
  · rename_i h
    rw [nw_recoverPanic]
    rcases owed_handleData_lmtp s arg hl with h1 | h1 | ⟨_, h1⟩
    · left; exact h1
    · right; right; exact ⟨h, Or.inl h1⟩
    · right; right; exact ⟨h, Or.inr h1⟩
  · left; simp
  · rename_i h; exact absurd h hv.1
  · rename_i h; exact absurd h hv.2.1
  · rename_i h; exact absurd h hv.2.2

/-! ### AUTH -/

/-- a step of the SASL mechanism (`sasl.Server.Next`) -/
def isSasl : Ev → Bool
  | .sasl _ _ _ _ => true
  | _ => false

/-- how many mechanism steps have been taken on this connection -/
def sc (s : S) : Nat := (s.evs.filter isSasl).length

@[simp] theorem sc_emit (s : S) (e : Ev) : sc (emit s e) = sc s + (if isSasl e then 1 else 0) := by
  unfold sc emit
  cases h : isSasl e <;> simp [h]

@[simp] theorem sc_write (s : S) (bs : Bytes) : sc (write s bs) = sc s := by
  unfold write
  split
  · rfl
  · simp [isSasl]

@[simp] theorem sc_reply (s : S) (code : Nat) (enh : Enh) (t : String) : sc (reply s code enh t) = sc s := sc_write _ _
@[simp] theorem sc_replyB (s : S) (code : Nat) (enh : Enh) (t : List Bytes) : sc (replyB s code enh t) = sc s := sc_write _ _
@[simp] theorem sc_popSasl (s : S) : sc (popSasl s).2 = sc s := by unfold popSasl; split <;> rfl
@[simp] theorem sc_popAuth (s : S) : sc (popAuth s).2 = sc s := by unfold popAuth; split <;> rfl
theorem sc_connReadLine (s : S) : sc (connReadLine s).1 = sc s := by unfold connReadLine; rfl
theorem nw_connReadLine (s : S) : nw (connReadLine s).1 = nw s := by unfold connReadLine; rfl

/-- **the challenge/response loop writes one reply per mechanism step** (334, the final 235, the mechanism's error, or the 421 owed for
    a panic) — plus one when the client cancels with `*` or sends something that is not base64 (501 / 454) -/
theorem owed_saslLoop : ∀ (fuel : Nat) (s : S) (resp : Option Bytes),
    ∃ e, e ≤ 1 ∧ owed (saslLoop fuel s resp) = nw s + (sc (saslLoop fuel s resp).1 - sc s) + e ∧ sc s ≤ sc (saslLoop fuel s resp).1 := by
  intro fuel
  induction fuel with
  | zero => intro s _; exact ⟨0, by omega, by simp [saslLoop], by simp [saslLoop]⟩
  | succ fuel ih =>
    intro s resp
    unfold saslLoop
    have hp := nw_popSasl s
    have hq := sc_popSasl s
    generalize popSasl s = p at hp hq ⊢
    obtain ⟨st, s1⟩ := p
    simp only [] at hp hq ⊢
    have h1 : nw (emit s1 (.sasl resp st.challenge st.done st.res)) = nw s := by simp [isW, hp]
    have h2 : sc (emit s1 (.sasl resp st.challenge st.done st.res)) = sc s + 1 := by simp [isSasl, hq]
    generalize emit s1 (.sasl resp st.challenge st.done st.res) = s2 at h1 h2 ⊢
    split
    · exact ⟨0, by omega, by simp [h1, h2], by simp; omega⟩
    · split
      · refine ⟨0, by omega, ?_, ?_⟩
        · simp only [owed_false, nw_reply, sc_reply]
          have e1 : nw ({ s2 with c := { s2.c with didAuth := true } } : S) = nw s2 := nw_of_eq rfl rfl
          have e2 : sc ({ s2 with c := { s2.c with didAuth := true } } : S) = sc s2 := rfl
          rw [e1, e2, h1, h2]; omega
        · simp only [sc_reply]
          have e2 : sc ({ s2 with c := { s2.c with didAuth := true } } : S) = sc s2 := rfl
          rw [e2, h2]; omega
      · have h3 : nw (replyB s2 334 noEnh [if st.challenge.isEmpty then [] else b64Encode st.challenge]) = nw s + 1 := by simp [h1]
        have h4 : sc (replyB s2 334 noEnh [if st.challenge.isEmpty then [] else b64Encode st.challenge]) = sc s + 1 := by simp [h2]
        generalize replyB s2 334 noEnh [if st.challenge.isEmpty then [] else b64Encode st.challenge] = s3 at h3 h4 ⊢
        have h5 := nw_connReadLine s3
        have h6 := sc_connReadLine s3
        generalize connReadLine s3 = q at h5 h6 ⊢
        obtain ⟨s4, r⟩ := q
        simp only [] at h5 h6 ⊢
        cases r with
        | error e => exact ⟨0, by omega, by simp [h5, h6, h3, h4], by simp [h6, h4]⟩
        | ok line =>
          simp only []
          split
          · exact ⟨1, by omega, by simp [h5, h6, h3, h4], by simp [h6, h4]⟩
          · split
            · exact ⟨1, by omega, by simp [h5, h6, h3, h4], by simp [h6, h4]⟩
            · rename_i resp' _
              obtain ⟨e, he, heq, hle⟩ := ih s4 (some resp')
              refine ⟨e, he, ?_, by omega⟩
              rw [heq, h5, h3, h6, h4]; omega
    · exact ⟨0, by omega, by simp [h1, h2], by simp [h2]⟩

theorem sc_saslLoop_pos (fuel : Nat) (s : S) (resp : Option Bytes) : sc s + 1 ≤ sc (saslLoop (fuel + 1) s resp).1 := by
  unfold saslLoop
  have hq := sc_popSasl s
  generalize popSasl s = p at hq ⊢
  obtain ⟨st, s1⟩ := p
  simp only [] at hq ⊢
  have h2 : sc (emit s1 (.sasl resp st.challenge st.done st.res)) = sc s + 1 := by simp [isSasl, hq]
  generalize emit s1 (.sasl resp st.challenge st.done st.res) = s2 at h2 ⊢
  split
  · simp; omega
  · split
    · simp only [sc_reply]
      have e2 : sc ({ s2 with c := { s2.c with didAuth := true } } : S) = sc s2 := rfl
      rw [e2]; omega
    · have h4 : sc (replyB s2 334 noEnh [if st.challenge.isEmpty then [] else b64Encode st.challenge]) = sc s + 1 := by simp [h2]
      generalize replyB s2 334 noEnh [if st.challenge.isEmpty then [] else b64Encode st.challenge] = s3 at h4 ⊢
      have h6 := sc_connReadLine s3
      generalize connReadLine s3 = q at h6 ⊢
      obtain ⟨s4, r⟩ := q
      simp only [] at h6 ⊢
      cases r with
      | error e => simp only []; omega
      | ok line =>
        simp only []
        split
        · simp; omega
        · split
          · simp; omega
          · rename_i resp' _
            have := (owed_saslLoop fuel s4 (some resp')).choose_spec.2.2
            omega
  · simp; omega

/-- **AUTH**: refused (or the mechanism refused to start, or a panic) — one reply; an exchange — one reply per mechanism step, plus one
    when the client cancels or sends something that is not base64 -/
theorem owed_handleAuth (s : S) (arg : Bytes) :
    (owed (handleAuth s arg) = nw s + 1 ∧ sc (handleAuth s arg).1 = sc s) ∨
    (∃ e, e ≤ 1 ∧ owed (handleAuth s arg) = nw s + (sc (handleAuth s arg).1 - sc s) + e ∧ sc s < sc (handleAuth s arg).1) := by
  unfold handleAuth
  split
  · left; simp
  split
  · left; simp
  split
  · left; simp
  split
  · left; simp
  simp only []
  split
  · left; simp
  split
  · left; simp
  split
  · left; simp
  · have hp := nw_popAuth s
    have hq := sc_popAuth s
    generalize popAuth s = p at hp hq ⊢
    obtain ⟨r, s1⟩ := p
    simp only [] at hp hq ⊢
    split
    · right
      rename_i id _ _ _
      have h1 : nw (emit s1 (.authMech id (Text.toUpper ‹Bytes›) BRes.ok)) = nw s := by simp [isW, hp]
      have h2 : sc (emit s1 (.authMech id (Text.toUpper ‹Bytes›) BRes.ok)) = sc s := by simp [isSasl, hq]
      generalize emit s1 (.authMech id (Text.toUpper ‹Bytes›) BRes.ok) = s2 at h1 h2 ⊢
      obtain ⟨e, he, heq, _⟩ := owed_saslLoop (s2.w.segs.length + s2.w.buf.length + 4) s2 ‹Option Bytes›
      have hpos := sc_saslLoop_pos (s2.w.segs.length + s2.w.buf.length + 3) s2 ‹Option Bytes›
      refine ⟨e, he, ?_, ?_⟩
      · rw [heq, h1, h2]
      · rw [← h2]; exact hpos
    · left; simp [isW, isSasl, hp, hq]
    · left; simp [isW, isSasl, hp, hq]

end SmtpV.Server
