import SmtpV.Proofs.DataReader
namespace SmtpV.DataReader
open SmtpV SmtpV.Spec

/-! ### one `Read` call, for a source on which the greedy run reaches the end marker -/

theorem marker_take (x : Bytes) : ((Spec.marker ++ x).take 3 == DataReader.marker) = true := by
  simp [Spec.marker, DataReader.marker]

theorem marker_drop (x : Bytes) : (Spec.marker ++ x).drop 3 = x := by
  simp [Spec.marker]

/-- The loop part of `read` with an effective buffer of `k'` slots. -/
theorem loop_ok (s : St) (inp : Bytes) (k' : Nat) (o rest0 : Bytes)
    (hE : run s inp = (.eof, o, rest0)) (hB : Boundary s) :
    ∃ o', o = (readLoop s inp k').2.1 ++ o' ∧
      run (readLoop s inp k').1 (readLoop s inp k').2.2 = (.eof, o', rest0) ∧
      (((readLoop s inp k').1 ≠ .eof ∧ (readLoop s inp k').2.1.length = k' ∧ Boundary (readLoop s inp k').1) ∨
       ((readLoop s inp k').1 = .eof ∧ o' = [] ∧ (readLoop s inp k').2.2 = rest0)) := by
  have hr := run_readLoop s inp k'
  rw [hE] at hr
  have h1 : (run (readLoop s inp k').1 (readLoop s inp k').2.2).1 = .eof := by
    have := congrArg Prod.fst hr; simpa using this.symm
  have h2 : o = (readLoop s inp k').2.1 ++ (run (readLoop s inp k').1 (readLoop s inp k').2.2).2.1 := by
    have := congrArg (fun x => x.2.1) hr; simpa using this
  have h3 : (run (readLoop s inp k').1 (readLoop s inp k').2.2).2.2 = rest0 := by
    have := congrArg (fun x => x.2.2) hr; simpa using this.symm
  refine ⟨(run (readLoop s inp k').1 (readLoop s inp k').2.2).2.1, h2, ?_, ?_⟩
  · ext <;> simp [h1, h3]
  · by_cases he : (readLoop s inp k').1 = .eof
    · right
      rw [he] at h3 ⊢
      simp at h3 ⊢
      exact h3
    · left
      refine ⟨he, ?_⟩
      have hlen := readLoop_len s inp k'
      by_cases hlt : (readLoop s inp k').2.1.length < k'
      · rcases readLoop_stop s inp k' hlt with h | h
        · exact absurd h he
        · rw [h] at h1; simp at h1; exact absurd h1 he
      · have heq : (readLoop s inp k').2.1.length = k' := by omega
        exact ⟨heq, readLoop_boundary s inp k' (Or.inl hB) heq⟩

/-- Contract of one `Read` while the message fits the budget (or no limit is set). -/
theorem read_ok (r : DR) (inp : Bytes) (k : Nat) (o rest0 : Bytes)
    (hE : run r.state inp = (.eof, o, rest0)) (hB : Boundary r.state)
    (hfit : r.limited = true → o.length ≤ r.n) :
    ∃ o', o = (read r inp k).2.1 ++ o' ∧
      run (read r inp k).1.state (read r inp k).2.2.1 = (.eof, o', rest0) ∧
      (read r inp k).1.limited = r.limited ∧
      ((read r inp k).1.limited = true → o'.length ≤ (read r inp k).1.n) ∧
      (((read r inp k).2.2.2 = .more ∧ Boundary (read r inp k).1.state ∧
          (read r inp k).2.1.length = (if r.limited then min k r.n else k)) ∨
       ((read r inp k).2.2.2 = .eof ∧ o' = [] ∧ (read r inp k).2.2.1 = rest0)) := by
  unfold read
  have hne : (r.state != St.eof) = true := by rcases hB with h | h | h <;> simp [h]
  simp only [hne, Bool.and_true]
  by_cases h0 : (r.limited && r.n == 0) = true
  · -- budget used up: the whole output has been delivered, so the marker is next
    simp only [h0, if_true]
    simp only [Bool.and_eq_true, beq_iff_eq] at h0
    have ho : o = [] := by
      have := hfit h0.1; rw [h0.2] at this; exact List.eq_nil_of_length_eq_zero (by omega)
    subst ho
    obtain ⟨hs, hi⟩ := run_boundary_nil r.state inp rest0 hB hE
    subst hi
    simp only [hs, marker_take, marker_drop, beq_self_eq_true, Bool.and_self, if_true]
    refine ⟨[], ?_, ?_, ?_, ?_, ?_⟩ <;> simp
  · simp only [h0, Bool.false_eq_true, if_false]
    obtain ⟨o', ho, hrun, hcase⟩ :=
      loop_ok r.state inp (if r.limited = true then min k r.n else k) o rest0 hE hB
    refine ⟨o', ho, hrun, ?_, ?_, ?_⟩
    · simp
    · intro hl
      have hl : r.limited = true := hl
      have hlen := readLoop_len r.state inp (min k r.n)
      have hfit' := hfit hl
      have hol := congrArg List.length ho
      simp only [hl, if_true, List.length_append] at hol ⊢
      generalize (readLoop r.state inp (min k r.n)).2.1.length = L at *
      have : min k r.n ≤ r.n := Nat.min_le_right _ _
      omega
    · rcases hcase with ⟨hne, hlen, hb⟩ | ⟨he, ho', hrest⟩
      · left
        refine ⟨?_, hb, hlen⟩
        simp [hne, hlen]
      · right
        refine ⟨?_, ho', hrest⟩
        simp [he]

end SmtpV.DataReader
