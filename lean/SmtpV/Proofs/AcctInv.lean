import SmtpV.Proofs.WireInv
import SmtpV.Proofs.BdatGrow
/-!
C06 on whole connections of the server model: with a message size limit `N` configured, no delivery — a DATA call or
the delivery of a chunked transfer, finished, failed or abandoned — is ever handed more than `N` octets.

`AS s s'` ("accounting step") is the frame satisfied by every step that hands nothing to any delivery: the
configuration and every delivery's octets are unchanged, and the chunk accounting (`bytesReceived`, the running
transfer) is either untouched or ended.  `Acct` is the invariant; `acct_serve` carries it through the connection.
-/
namespace SmtpV.Server
open SmtpV SmtpV.Wire SmtpV.DataReader SmtpV.Spec

structure AS (s s' : S) : Prop where
  cfg : s'.cfg = s.cfg
  oct : GrowBy s s' 0
  acct : (s'.c.bytesReceived = s.c.bytesReceived ∧ s'.c.bdat = s.c.bdat) ∨
    ((s'.c.bytesReceived = s.c.bytesReceived ∨ s'.c.bytesReceived = 0) ∧ s'.c.bdat = none)

theorem AS.rfl' (s : S) : AS s s := ⟨rfl, GrowBy.rfl' s, Or.inl ⟨rfl, rfl⟩⟩

theorem AS.trans {a b c : S} (h1 : AS a b) (h2 : AS b c) : AS a c := by
  refine ⟨h2.cfg.trans h1.cfg, h1.oct.trans h2.oct, ?_⟩
  rcases h1.acct with ⟨e1, e2⟩ | ⟨e1, e2⟩ <;> rcases h2.acct with ⟨f1, f2⟩ | ⟨f1, f2⟩
  · exact Or.inl ⟨f1.trans e1, f2.trans e2⟩
  · exact Or.inr ⟨by rcases f1 with f | f; exact Or.inl (f.trans e1); exact Or.inr f, f2⟩
  · exact Or.inr ⟨by rw [f1]; exact e1, by rw [f2]; exact e2⟩
  · exact Or.inr ⟨by rcases f1 with f | f; (rcases e1 with e | e; exact Or.inl (f.trans e); exact Or.inr (f.trans e)); exact Or.inr f, f2⟩

/-- a step that changes neither the configuration, nor the delivery records, nor the accounting fields -/
theorem AS.of_eq {s s' : S} (h1 : s'.cfg = s.cfg) (h2 : s'.drecs = s.drecs) (h3 : s'.c.bytesReceived = s.c.bytesReceived)
    (h4 : s'.c.bdat = s.c.bdat) : AS s s' := ⟨h1, GrowBy.of_drecs h2, Or.inl ⟨h3, h4⟩⟩

macro "as_triv" : tactic => `(tactic| exact AS.of_eq rfl rfl rfl rfl)

theorem as_emit (s : S) (e : Ev) : AS s (emit s e) := by as_triv
theorem as_write (s : S) (bs : Bytes) : AS s (write s bs) := by unfold write; split <;> as_triv
theorem as_reply (s : S) (code : Nat) (enh : Enh) (t : String) : AS s (reply s code enh t) := as_write _ _
theorem as_replyB (s : S) (code : Nat) (enh : Enh) (t : List Bytes) : AS s (replyB s code enh t) := as_write _ _
theorem as_popNs (s : S) : AS s (popNs s).2 := by unfold popNs; split <;> as_triv
theorem as_popMail (s : S) : AS s (popMail s).2 := by unfold popMail; split <;> as_triv
theorem as_popRcpt (s : S) : AS s (popRcpt s).2 := by unfold popRcpt; split <;> as_triv
theorem as_popData (s : S) : AS s (popData s).2 := by unfold popData; split <;> as_triv
theorem as_popAuth (s : S) : AS s (popAuth s).2 := by unfold popAuth; split <;> as_triv
theorem as_popSasl (s : S) : AS s (popSasl s).2 := by unfold popSasl; split <;> as_triv
theorem as_popHs (s : S) : AS s (popHs s).2 := by unfold popHs; split <;> as_triv

theorem as_delivFinish (s : S) (k : Nat) (e : RdEnd) : AS s (delivFinish s k e) := by
  refine ⟨?_, GrowBy.of_same (so_delivFinish s k e), Or.inl ?_⟩
  · unfold delivFinish; simp only []; split <;> rfl
  · unfold delivFinish; simp only []; split <;> exact ⟨rfl, rfl⟩

theorem as_abortBdat (s : S) : AS s (abortBdat s) := by
  refine ⟨(abortBdat_spec s).2.1, GrowBy.of_same (so_abortBdat s), Or.inr ?_⟩
  rw [(abortBdat_spec s).1]
  exact ⟨Or.inl rfl, rfl⟩

theorem as_logoutSess (s : S) : AS s (logoutSess s) := by
  refine ⟨(logoutSess_c s).2.2.2.2, GrowBy.of_drecs (drecs_logoutSess s), Or.inl ?_⟩
  rw [(logoutSess_c s).1]; exact ⟨rfl, rfl⟩

theorem as_closeSock (s : S) : AS s (closeSock s) := by unfold closeSock; split <;> as_triv

theorem as_closeConn (s : S) : AS s (closeConn s) :=
  ((as_abortBdat s).trans (as_logoutSess _)).trans (as_closeSock _)

theorem as_resetConn (s : S) : AS s (resetConn s) := by
  refine ⟨(resetConn_c s).2.2.2.2, GrowBy.of_same (so_resetConn s), Or.inr ?_⟩
  rw [(resetConn_c s).1]
  exact ⟨Or.inr rfl, rfl⟩

theorem as_errCount (s1 : S) (n : Nat) : AS s1 { s1 with c := { s1.c with errCount := n } } := by as_triv

theorem as_protocolError (s : S) (code : Nat) (enh : Enh) (t : String) : AS s (protocolError s code enh t) := by
  unfold protocolError
  simp only []
  have h1 := as_reply s code enh t
  generalize reply s code enh t = s1 at h1 ⊢
  have h2 := as_errCount s1 (s1.c.errCount + 1)
  generalize ({ s1 with c := { s1.c with errCount := s1.c.errCount + 1 } } : S) = s2 at h2 ⊢
  split
  · exact (h1.trans h2).trans ((as_reply _ _ _ _).trans (as_closeConn _))
  · exact h1.trans h2

theorem as_protocolErrorB (s : S) (code : Nat) (enh : Enh) (t : Bytes) : AS s (protocolErrorB s code enh t) := by
  unfold protocolErrorB
  simp only []
  have h1 := as_replyB s code enh [t]
  generalize replyB s code enh [t] = s1 at h1 ⊢
  have h2 := as_errCount s1 (s1.c.errCount + 1)
  generalize ({ s1 with c := { s1.c with errCount := s1.c.errCount + 1 } } : S) = s2 at h2 ⊢
  split
  · exact (h1.trans h2).trans ((as_reply _ _ _ _).trans (as_closeConn _))
  · exact h1.trans h2

theorem as_recoverPanic (p : S × Bool) : AS p.1 (recoverPanic p) := by
  unfold recoverPanic
  split
  · exact ((as_reply _ _ _ _).trans (as_closeConn _)).trans (as_emit _ _)
  · exact AS.rfl' _

theorem as_greetReply (s : S) (e : Bool) (d : Bytes) : AS s (greetReply s e d) := by
  unfold greetReply; split <;> exact as_replyB _ _ _ _

theorem as_newSession (s : S) (d : Bytes) : AS s (newSession s d).1 := by
  unfold newSession
  rcases h : popNs s with ⟨r, s1⟩
  have := as_popNs s; rw [h] at this
  exact this.trans (by as_triv)

theorem as_handleGreet (s : S) (e : Bool) (arg : Bytes) : AS s (handleGreet s e arg).1 := by
  unfold handleGreet
  split
  · exact as_reply _ _ _ _
  · simp only []
    have h0 : AS s (setHelo s ‹Bytes›) := by as_triv
    generalize setHelo s ‹Bytes› = s1 at h0 ⊢
    split
    · exact h0.trans ((as_resetConn _).trans (as_greetReply _ _ _))
    · have hn := as_newSession s1 ‹Bytes›
      generalize newSession s1 ‹Bytes› = p at hn ⊢
      obtain ⟨s2, r⟩ := p
      simp only [] at hn ⊢
      split
      · exact h0.trans (hn.trans (as_greetReply _ _ _))
      · exact h0.trans hn
      · exact h0.trans (hn.trans (AS.trans (b := setHelo s2 []) (by as_triv) (as_write _ _)))

theorem as_setBinarymime (s : S) (b : Bool) : AS s (setBinarymime s b) := by as_triv

theorem as_mailCall (s : S) (id : Nat) (frm : Bytes) (opts : MailOpts) : AS s (mailCall s id frm opts).1 := by
  unfold mailCall
  have hp := as_popMail s
  generalize popMail s = p at hp ⊢
  obtain ⟨r, s1⟩ := p
  simp only [] at hp ⊢
  have he := as_emit s1 (.mail id frm opts r)
  generalize emit s1 (.mail id frm opts r) = s2 at he ⊢
  split
  · exact hp.trans (he.trans (AS.trans (b := { s2 with c := { s2.c with fromReceived := true } }) (by as_triv) (as_replyB _ _ _ _)))
  · exact hp.trans he
  · exact hp.trans (he.trans (as_write _ _))

theorem as_handleMail (s : S) (arg : Bytes) : AS s (handleMail s arg).1 := by
  unfold handleMail
  split
  · exact as_reply _ _ _ _
  split
  · exact as_reply _ _ _ _
  split
  · exact as_reply _ _ _ _
  split
  · exact as_reply _ _ _ _
  split
  · exact as_reply _ _ _ _
  split
  · exact (as_setBinarymime s false).trans (as_reply _ _ _ _)
  split
  · exact as_setBinarymime _ _
  · exact (as_setBinarymime _ _).trans (as_mailCall _ _ _ _)

theorem as_handleRcpt (s : S) (arg : Bytes) : AS s (handleRcpt s arg).1 := by
  unfold handleRcpt
  split
  · exact as_reply _ _ _ _
  split
  · exact as_reply _ _ _ _
  split
  · exact as_reply _ _ _ _
  split
  · exact as_reply _ _ _ _
  split
  · exact as_replyB _ _ _ _
  split
  · exact as_reply _ _ _ _
  split
  · exact as_reply _ _ _ _
  split
  · exact AS.rfl' _
  · simp only []
    have hp := as_popRcpt s
    generalize popRcpt s = p at hp ⊢
    obtain ⟨r, s1⟩ := p
    simp only [] at hp ⊢
    split
    · exact hp.trans (AS.trans (as_emit _ _) (AS.trans (by as_triv) (as_replyB _ _ _ _)))
    · exact hp.trans (as_emit _ _)
    · exact hp.trans ((as_emit _ _).trans (as_write _ _))

theorem as_connReadLine (s : S) : AS s (connReadLine s).1 := by
  unfold connReadLine
  generalize readLine s.w = p
  obtain ⟨w1, r⟩ := p
  as_triv

theorem as_saslLoop : ∀ (fuel : Nat) (s : S) (resp : Option Bytes), AS s (saslLoop fuel s resp).1 := by
  intro fuel
  induction fuel with
  | zero => intro s _; exact AS.rfl' _
  | succ fuel ih =>
    intro s resp
    unfold saslLoop
    have hp := as_popSasl s
    generalize popSasl s = p at hp ⊢
    obtain ⟨st, s1⟩ := p
    simp only [] at hp ⊢
    have h1 : AS s (emit s1 (.sasl resp st.challenge st.done st.res)) := hp.trans (as_emit _ _)
    generalize emit s1 (.sasl resp st.challenge st.done st.res) = s2 at h1 ⊢
    split
    · exact h1
    · split
      · exact h1.trans (AS.trans (by as_triv) (as_reply _ _ _ _))
      · have h3 : AS s (replyB s2 334 noEnh [if st.challenge.isEmpty then [] else b64Encode st.challenge]) :=
          h1.trans (as_replyB _ _ _ _)
        generalize replyB s2 334 noEnh [if st.challenge.isEmpty then [] else b64Encode st.challenge] = s3 at h3 ⊢
        have h4 := h3.trans (as_connReadLine s3)
        generalize connReadLine s3 = q at h4 ⊢
        obtain ⟨s4, r⟩ := q
        simp only [] at h4 ⊢
        cases r with
        | error e => exact h4
        | ok line =>
          simp only []
          split
          · exact h4.trans (as_reply _ _ _ _)
          · split
            · exact h4.trans (as_reply _ _ _ _)
            · exact h4.trans (ih _ _)
    · exact h1.trans (as_write _ _)

theorem as_handleAuth (s : S) (arg : Bytes) : AS s (handleAuth s arg).1 := by
  unfold handleAuth
  split
  · exact as_reply _ _ _ _
  split
  · exact as_reply _ _ _ _
  split
  · exact as_reply _ _ _ _
  split
  · exact as_reply _ _ _ _
  simp only []
  split
  · exact as_reply _ _ _ _
  split
  · exact AS.rfl' _
  split
  · exact as_write _ _
  · have hp := as_popAuth s
    generalize popAuth s = p at hp ⊢
    obtain ⟨r, s1⟩ := p
    simp only [] at hp ⊢
    have h1 : ∀ e, AS s (emit s1 e) := fun e => hp.trans (as_emit _ _)
    split
    · exact (h1 _).trans (as_saslLoop _ _ _)
    · exact h1 _
    · exact (h1 _).trans (as_write _ _)

theorem as_switchWire (s : S) : AS s (switchWire s) := by unfold switchWire; as_triv

theorem as_handleStartTLS (s : S) : AS s (handleStartTLS s) := by
  unfold handleStartTLS
  split
  · exact as_reply _ _ _ _
  split
  · exact as_reply _ _ _ _
  · simp only []
    have h1 : AS s (reply s 220 ⟨2, 0, 0⟩ "Ready to start TLS") := as_reply _ _ _ _
    generalize reply s 220 ⟨2, 0, 0⟩ "Ready to start TLS" = s1 at h1 ⊢
    have hp := as_popHs s1
    generalize popHs s1 = p at hp ⊢
    obtain ⟨ok, s2⟩ := p
    simp only [] at hp ⊢
    have h2 : AS s (emit s2 (.tlsStart ok)) := h1.trans (hp.trans (as_emit _ _))
    generalize emit s2 (.tlsStart ok) = s3 at h2 ⊢
    split
    · exact h2.trans (as_reply _ _ _ _)
    · unfold tlsUpgrade
      exact h2.trans (((as_switchWire s3).trans (as_logoutSess _)).trans
        (AS.trans (b := forgetGreeting (logoutSess (switchWire s3))) (by as_triv) (as_resetConn _)))

theorem as_writeLmtpStatuses (sts : List (Bytes × BRes)) : ∀ (s : S), AS s (writeLmtpStatuses s sts) := by
  induction sts with
  | nil => intro s; exact AS.rfl' _
  | cons x xs ih =>
    intro s
    simp only [writeLmtpStatuses, List.foldl_cons] at ih ⊢
    exact (as_replyB _ _ _ _).trans (ih _)

/-! ### the invariant -/

/-- the accounting invariant: with a limit configured every delivery holds at most that many octets and so does the
    running total of accepted chunk sizes; and the delivery of the running chunked transfer has been handed at most
    that total -/
structure Acct (s : S) : Prop where
  all : s.cfg.maxMsg > 0 → ∀ j, octLen s j ≤ s.cfg.maxMsg
  recv : s.cfg.maxMsg > 0 → s.c.bytesReceived ≤ s.cfg.maxMsg
  run : ∀ k, s.c.bdat = some k → octLen s k ≤ s.c.bytesReceived

theorem Acct.of_as {s s' : S} (h : Acct s) (hs : AS s s') : Acct s' := by
  refine ⟨?_, ?_, ?_⟩
  · intro hm j
    rw [hs.cfg] at hm ⊢
    have := hs.oct j; have := h.all hm j; omega
  · intro hm
    rw [hs.cfg] at hm ⊢
    have := h.recv hm
    rcases hs.acct with ⟨e, _⟩ | ⟨e | e, _⟩ <;> omega
  · intro k hk
    rcases hs.acct with ⟨e1, e2⟩ | ⟨_, e2⟩
    · rw [e2] at hk
      have := hs.oct k; have := h.run k hk; omega
    · rw [e2] at hk; cases hk

/-! ### DATA: the reader's budget -/

/-- the octets one `dataReader.Read` call stores: at most the space given, and — with the limit on — at most the budget,
    which is charged exactly -/
theorem dataRead_budget : ∀ (fuel : Nat) (r : DR) (w : W) (k : Nat) (acc : Bytes),
    acc.length ≤ (dataRead fuel r w k acc).2.2.1.length ∧
    (dataRead fuel r w k acc).2.2.1.length ≤ acc.length + k ∧
    (dataRead fuel r w k acc).1.limited = r.limited ∧
    (r.limited = true → (dataRead fuel r w k acc).2.2.1.length ≤ acc.length + r.n ∧
      (dataRead fuel r w k acc).1.n = r.n - ((dataRead fuel r w k acc).2.2.1.length - acc.length)) := by
  intro fuel
  induction fuel with
  | zero =>
    intro r w k acc
    simp only [dataRead]
    refine ⟨?_, ?_, ?_, fun hl => ⟨?_, ?_⟩⟩ <;> first | omega | trivial
  | succ fuel ih =>
    intro r w k acc
    simp only [dataRead]
    split
    · -- budget used up
      generalize peek3 (fuelOf w) w = p
      obtain ⟨w1, pk⟩ := p
      simp only []
      split
      · refine ⟨?_, ?_, ?_, fun hl => ⟨?_, ?_⟩⟩ <;> simp only [] <;> omega
      · refine ⟨?_, ?_, ?_, fun hl => ⟨?_, ?_⟩⟩ <;> simp only [] <;> omega
    · generalize hk' : (if r.limited then min k r.n else k) = k'
      have hk'k : k' ≤ k := by rw [← hk']; split <;> omega
      have hk'n : r.limited = true → k' ≤ r.n := by intro hl; rw [← hk', hl]; simp; omega
      have hlen := readLoop_len r.state w.buf k'
      generalize readLoop r.state w.buf k' = rl at hlen ⊢
      obtain ⟨s', out, rest⟩ := rl
      simp only [] at hlen ⊢
      have base : ∀ (r' : DR) (w' : W) (res : Res) (e : Option RErr), r'.limited = r.limited →
          r'.n = (if r.limited then r.n - out.length else r.n) →
          acc.length ≤ ((r', w', acc ++ out, res, e) : DR × W × Bytes × Res × Option RErr).2.2.1.length ∧
          ((r', w', acc ++ out, res, e) : DR × W × Bytes × Res × Option RErr).2.2.1.length ≤ acc.length + k ∧
          ((r', w', acc ++ out, res, e) : DR × W × Bytes × Res × Option RErr).1.limited = r.limited ∧
          (r.limited = true → ((r', w', acc ++ out, res, e) : DR × W × Bytes × Res × Option RErr).2.2.1.length ≤ acc.length + r.n ∧
            ((r', w', acc ++ out, res, e) : DR × W × Bytes × Res × Option RErr).1.n =
              r.n - (((r', w', acc ++ out, res, e) : DR × W × Bytes × Res × Option RErr).2.2.1.length - acc.length)) := by
        intro r' w' res e h1 h2
        simp only [List.length_append]
        refine ⟨by omega, by omega, h1, fun hl => ⟨by have := hk'n hl; omega, ?_⟩⟩
        rw [h2, hl]; simp
      split
      · exact base _ _ _ _ rfl rfl
      · split
        · split
          · exact base _ _ _ _ rfl rfl
          · split
            · split
              · exact base _ _ _ _ rfl rfl
              · exact base _ _ _ _ rfl rfl
            · -- the same Read call continues after a refill
              have h := ih { ({ r with state := s', n := if r.limited then r.n - out.length else r.n } : DR) with limited := false }
                (fill { w with buf := rest }) (k' - out.length) (acc ++ out)
              generalize dataRead fuel { ({ r with state := s', n := if r.limited then r.n - out.length else r.n } : DR) with limited := false }
                (fill { w with buf := rest }) (k' - out.length) (acc ++ out) = x at h ⊢
              obtain ⟨r2, w3, acc2, res, e⟩ := x
              simp only [List.length_append] at h ⊢
              refine ⟨by omega, by omega, ?_, fun hl => ⟨by have := hk'n hl; omega, ?_⟩⟩
              · trivial
              · simp [hl]
        · exact base _ _ _ _ rfl rfl


theorem backendRead_budget : ∀ (fuel : Nat) (r : DR) (w : W) (want : Option Nat) (rsz : Nat) (acc : Bytes), r.limited = true →
    (backendRead fuel r w want rsz acc).2.2.1.length ≤ acc.length + r.n := by
  intro fuel
  induction fuel with
  | zero => intro r w want rsz acc _; simp only [backendRead]; omega
  | succ fuel ih =>
    intro r w want rsz acc hl
    simp only [backendRead]
    split
    · simp only []; omega
    · have hb := dataRead_budget (fuelOf w) r w (nextReadSize want rsz acc.length) []
      generalize dataRead (fuelOf w) r w (nextReadSize want rsz acc.length) [] = x at hb ⊢
      obtain ⟨r', w', out, res, e⟩ := x
      simp only [List.length_nil, Nat.zero_add, Nat.sub_zero] at hb
      obtain ⟨_, _, hlim, hbud⟩ := hb
      obtain ⟨hle, hn⟩ := hbud hl
      simp only []
      split
      · have := ih r' w' want rsz (acc ++ out) (by rw [hlim]; exact hl)
        simp only [List.length_append] at this
        omega
      · simp only [List.length_append]; omega

theorem AS.bdat_none {s s' : S} (h : AS s s') (hb : s.c.bdat = none) : s'.c.bdat = none := by
  rcases h.acct with ⟨_, e⟩ | ⟨_, e⟩
  · rw [e]; exact hb
  · exact e

theorem as_beginData (s : S) (id : Nat) (dec : DataDec) : AS s (beginData s id dec).1 := by
  refine ⟨rfl, ?_, Or.inl ⟨rfl, rfl⟩⟩
  intro j
  simp only [octLen, beginData, Nat.add_zero]
  by_cases hj : j < s.drecs.length
  · rw [List.getElem?_append_left hj]; exact Nat.le_refl _
  · rw [List.getElem?_append_right (by omega)]
    cases hjj : j - s.drecs.length with
    | zero => simp
    | succ n => simp

theorem as_setW (s : S) (w : W) : AS s (setW s w) := by as_triv
theorem as_setLimit (s : S) (n : Nat) : AS s (setLimit s n) := by as_triv
theorem as_armLimit (s : S) : AS s (armLimit s) := by as_triv

/-- storing the octets of a DATA call (no chunked transfer is running) -/
theorem acct_setOctets (s : S) (k : Nat) (f : DRec → DRec) (h : Acct s) (hb : s.c.bdat = none)
    (hf : s.cfg.maxMsg > 0 → ∀ d, (f d).octets.length ≤ s.cfg.maxMsg) : Acct (setDrec s k f) := by
  refine ⟨?_, h.recv, ?_⟩
  · intro hm j
    simp only [octLen, setDrec_get]
    split
    · cases hs : s.drecs[j]? with
      | none => simp
      | some d => simpa using hf hm d
    · exact h.all hm j
  · intro k' hk'
    rw [show (setDrec s k f).c = s.c from rfl, hb] at hk'
    cases hk'

theorem acct_dataSync (s : S) (id : Nat) (h : Acct s) (hb : s.c.bdat = none) : Acct (dataSync s id).1 := by
  unfold dataSync
  have hp := as_popData s
  generalize popData s = p at hp ⊢
  obtain ⟨dec, s1⟩ := p
  simp only [] at hp ⊢
  have hbd := as_beginData s1 id dec
  generalize beginData s1 id dec = q at hbd ⊢
  obtain ⟨s2, k⟩ := q
  simp only [] at hbd ⊢
  have h3 : AS s (emit s2 (.dataBegin id k)) := hp.trans (hbd.trans (as_emit _ _))
  generalize emit s2 (.dataBegin id k) = s3 at h3 ⊢
  have hbud : s3.cfg.maxMsg > 0 →
      (backendRead (wireFuel s3.w) (newDataReader s3) s3.w dec.want dec.rsz []).2.2.1.length ≤ s3.cfg.maxMsg := by
    intro hm
    have := backendRead_budget (wireFuel s3.w) (newDataReader s3) s3.w dec.want dec.rsz [] (by simp [newDataReader, hm])
    simpa [newDataReader, hm] using this
  generalize backendRead (wireFuel s3.w) (newDataReader s3) s3.w dec.want dec.rsz [] = br at hbud ⊢
  obtain ⟨r1, w1, octets, e⟩ := br
  simp only [] at hbud ⊢
  have h4 : AS s (setW s3 w1) := h3.trans (as_setW _ _)
  have hcfg4 : (setW s3 w1).cfg = s3.cfg := rfl
  generalize setW s3 w1 = s4 at h4 hcfg4 ⊢
  have ha4 : Acct s4 := h.of_as h4
  have hb4 : s4.c.bdat = none := h4.bdat_none hb
  have hset : ∀ (rd : RdEnd) (ret : BRes), Acct (setDrec s4 k (fun d => { d with octets := octets, rdEnd := rd, ret := ret, finished := true })) := by
    intro rd ret
    exact acct_setOctets s4 k _ ha4 hb4 (fun hm d => by rw [hcfg4] at hm ⊢; exact hbud hm)
  split
  · unfold dataFinishSmtp
    simp only []
    split
    · exact (hset _ _).of_as (as_resetConn _)
    · exact (hset _ _).of_as ((as_setW _ _).trans ((as_replyB _ _ _ _).trans (as_resetConn _)))
  · split
    · unfold dataFinishLmtpPlain
      simp only []
      split
      · exact (hset _ _).of_as (as_resetConn _)
      · exact (hset _ _).of_as ((as_setW _ _).trans ((as_writeLmtpStatuses _ _).trans (as_resetConn _)))
    · unfold dataFinishLmtpSess
      simp only []
      split <;> split
      all_goals first
        | exact (hset _ _).of_as ((as_setW _ _).trans ((as_writeLmtpStatuses _ _).trans (as_resetConn _)))
        | exact (hset _ _).of_as
            ((as_emit _ _).trans ((as_writeLmtpStatuses _ _).trans ((as_closeConn _).trans (as_resetConn _))))

theorem acct_handleData (s : S) (arg : Bytes) (h : Acct s) : Acct (handleData s arg).1 := by
  unfold handleData
  split
  · exact h.of_as (as_reply _ _ _ _)
  split
  · exact h.of_as (as_reply _ _ _ _)
  · rename_i hbs
    have hb : s.c.bdat = none := by
      cases hx : s.c.bdat with
      | none => rfl
      | some k => simp [hx] at hbs
    split
    · exact h.of_as (as_reply _ _ _ _)
    split
    · exact h.of_as (as_reply _ _ _ _)
    · simp only []
      have h1 : AS s (reply s 354 noEnh "Go ahead. End your data with <CR><LF>.<CR><LF>") := as_reply _ _ _ _
      generalize reply s 354 noEnh "Go ahead. End your data with <CR><LF>.<CR><LF>" = s1 at h1 ⊢
      split
      · exact (h.of_as h1).of_as (as_resetConn _)
      · exact acct_dataSync _ _ (h.of_as h1) (h1.bdat_none hb)


/-! ### BDAT -/

/-- the part of the invariant that does not mention the running transfer -/
structure Pre (s : S) : Prop where
  all : s.cfg.maxMsg > 0 → ∀ j, octLen s j ≤ s.cfg.maxMsg
  recv : s.cfg.maxMsg > 0 → s.c.bytesReceived ≤ s.cfg.maxMsg

theorem Acct.pre {s : S} (h : Acct s) : Pre s := ⟨h.all, h.recv⟩
theorem Pre.acct {s : S} (h : Pre s) (hb : s.c.bdat = none) : Acct s :=
  ⟨h.all, h.recv, fun k hk => by rw [hb] at hk; cases hk⟩

theorem Pre.of_as {s s' : S} (h : Pre s) (hs : AS s s') : Pre s' := by
  refine ⟨?_, ?_⟩
  · intro hm j
    rw [hs.cfg] at hm ⊢
    have := hs.oct j; have := h.all hm j; omega
  · intro hm
    rw [hs.cfg] at hm ⊢
    have := h.recv hm
    rcases hs.acct with ⟨e, _⟩ | ⟨e | e, _⟩ <;> omega

/-- a step of the chunk copy: only delivery `k` is handed anything, at most `m` octets; the accounting fields stand -/
structure CS (k m : Nat) (s s' : S) : Prop where
  cfg : s'.cfg = s.cfg
  br : s'.c.bytesReceived = s.c.bytesReceived
  bd : s'.c.bdat = s.c.bdat
  other : ∀ j, j ≠ k → octLen s' j ≤ octLen s j
  here : octLen s' k ≤ octLen s k + m

theorem CS.rfl' (k : Nat) (s : S) : CS k 0 s s := ⟨rfl, rfl, rfl, fun _ _ => Nat.le_refl _, Nat.le_refl _⟩
theorem CS.trans {k m1 m2 : Nat} {a b c : S} (h1 : CS k m1 a b) (h2 : CS k m2 b c) : CS k (m1 + m2) a c :=
  ⟨h2.cfg.trans h1.cfg, h2.br.trans h1.br, h2.bd.trans h1.bd,
   fun j hj => Nat.le_trans (h2.other j hj) (h1.other j hj), by have := h1.here; have := h2.here; omega⟩
theorem CS.mono {k m m' : Nat} {a b : S} (h : CS k m a b) (hm : m ≤ m') : CS k m' a b :=
  ⟨h.cfg, h.br, h.bd, h.other, by have := h.here; omega⟩

theorem CS.of_as {k : Nat} {s s' : S} (h : AS s s') (hc : s'.c.bytesReceived = s.c.bytesReceived ∧ s'.c.bdat = s.c.bdat) :
    CS k 0 s s' :=
  ⟨h.cfg, hc.1, hc.2, fun j _ => by have := h.oct j; omega, by have := h.oct k; omega⟩

theorem delivFinish_c (s : S) (k : Nat) (e : RdEnd) : (delivFinish s k e).c = s.c := by
  unfold delivFinish; simp only []; split <;> rfl

theorem cs_delivWrite (s : S) (k : Nat) (bs : Bytes) : CS k bs.length s (delivWrite s k bs).1 := by
  unfold delivWrite
  split
  · exact (CS.rfl' k s).mono (Nat.zero_le _)
  · simp only []
    have h1 : CS k bs.length s (setDrec s k (fun d => { d with octets := d.octets ++ bs.take (delivTake s k bs) })) := by
      refine ⟨rfl, rfl, rfl, ?_, ?_⟩
      · intro j hj
        simp only [octLen, setDrec_get, hj, if_false]
        exact Nat.le_refl _
      · have := grow_setDrec s k (fun d => { d with octets := d.octets ++ bs.take (delivTake s k bs) }) bs.length
          (by intro d; simp only [List.length_append, List.length_take]; omega) k
        exact this
    split
    · have h2 : CS k 0 _ _ := CS.of_as (as_delivFinish
        (setDrec s k (fun d => { d with octets := d.octets ++ bs.take (delivTake s k bs) })) k .none)
        (by rw [delivFinish_c]; exact ⟨rfl, rfl⟩)
      simpa using h1.trans h2
    · exact h1

theorem cs_copyChunk : ∀ (fuel : Nat) (s : S) (k n cap : Nat), s.w.limit = 0 → CS k n s (copyChunk fuel s k n cap).1 := by
  intro fuel
  induction fuel with
  | zero => intro s k n cap _; exact (CS.rfl' k s).mono (Nat.zero_le _)
  | succ fuel ih =>
    intro s k n cap hl
    unfold copyChunk
    split
    · exact (CS.rfl' k s).mono (Nat.zero_le _)
    · have hb := bufRead_frame s.w (min cap n) hl
      generalize hbr : bufRead s.w (min cap n) = br at hb ⊢
      obtain ⟨w1, r⟩ := br
      simp only [] at hb
      have h1 : CS k 0 s { s with w := w1 } := ⟨rfl, rfl, rfl, fun _ _ => Nat.le_refl _, Nat.le_refl _⟩
      cases r with
      | error e => cases e <;> exact h1.mono (Nat.zero_le _)
      | ok bs =>
        simp only [] at hb ⊢
        have hlen : bs.length ≤ n := Nat.le_trans hb.2.2 (Nat.min_le_right _ _)
        have h2 := cs_delivWrite { s with w := w1 } k bs
        have hw : (delivWrite { s with w := w1 } k bs).1.w.limit = 0 := by rw [delivWrite_w]; exact hb.1
        generalize delivWrite { s with w := w1 } k bs = dw at h2 hw ⊢
        obtain ⟨s1, okAll⟩ := dw
        simp only [] at h2 hw ⊢
        split
        · have h3 := ih s1 k (n - bs.length) cap hw
          have := (h1.trans h2).trans h3
          exact this.mono (by omega)
        · exact (h1.trans h2).mono (by omega)

theorem as_setBdatStatus (s : S) : AS s (setBdatStatus s) := by
  unfold setBdatStatus; split <;> as_triv

/-- the transfer is running after `bdatBegin`, on a delivery that has been handed no more than the accepted total -/
theorem acct_bdatBegin (s : S) (h : Acct s) :
    Acct (bdatBegin s).1 ∧ (bdatBegin s).1.c.bdat = some (bdatBegin s).2 ∧ (bdatBegin s).1.cfg = s.cfg ∧
    (bdatBegin s).1.c.bytesReceived = s.c.bytesReceived := by
  unfold bdatBegin
  split
  · rename_i k hk
    exact ⟨h, hk, rfl, rfl⟩
  · rename_i hk
    have hp := as_popData s
    have hpc : (popData s).2.c = s.c := by unfold popData; split <;> rfl
    generalize popData s = p at hp hpc ⊢
    obtain ⟨dec, s1⟩ := p
    simp only [] at hp hpc ⊢
    have h1 : Pre s1 := h.pre.of_as hp
    have hcfg1 : s1.cfg = s.cfg := hp.cfg
    -- startDelivery: a new, empty record becomes the running delivery
    have hs : Acct (startDelivery s1 dec).1 ∧ (startDelivery s1 dec).1.c.bdat = some (startDelivery s1 dec).2 ∧
        (startDelivery s1 dec).1.cfg = s1.cfg ∧ (startDelivery s1 dec).1.c.bytesReceived = s1.c.bytesReceived := by
      have hb := as_beginData s1 (s1.c.session.getD 0) dec
      refine ⟨⟨?_, ?_, ?_⟩, rfl, rfl, rfl⟩
      · intro hm j
        have e1 : octLen (startDelivery s1 dec).1 j = octLen (beginData s1 (s1.c.session.getD 0) dec).1 j := rfl
        have := hb.oct j
        have := h1.all hm j
        rw [e1]; show _ ≤ s1.cfg.maxMsg; omega
      · exact h1.recv
      · intro k' hk'
        have e0 : (startDelivery s1 dec).1.c.bdat = some s1.drecs.length := rfl
        rw [e0] at hk'
        cases hk'
        have : octLen (startDelivery s1 dec).1 s1.drecs.length = 0 := by
          simp [octLen, startDelivery, beginData, setBdat, emit]
        omega
    generalize startDelivery s1 dec = q at hs ⊢
    obtain ⟨s2, k⟩ := q
    simp only [] at hs ⊢
    obtain ⟨ha, hbd, hcfg, hbr⟩ := hs
    rw [hpc] at hbr
    split
    · refine ⟨ha.of_as (as_delivFinish _ _ _), ?_, ?_, ?_⟩
      · rw [delivFinish_c]; exact hbd
      · exact (as_delivFinish _ _ _).cfg.trans (hcfg.trans hcfg1)
      · rw [delivFinish_c]; exact hbr
    · exact ⟨ha, hbd, hcfg.trans hcfg1, hbr⟩

theorem as_bdatFailReplies (s : S) (k : Nat) (last : Bool) (err : BRes) : AS s (bdatFailReplies s k last err) := by
  unfold bdatFailReplies
  split
  · simp only []
    split
    · exact as_writeLmtpStatuses _ _
    · split <;> exact as_writeLmtpStatuses _ _
  · exact as_replyB _ _ _ _

theorem as_bdatFinal (s : S) (k : Nat) : AS s (bdatFinal s k).1 := by
  unfold bdatFinal
  simp only []
  have h1 : AS s (if delivRunning s k then delivFinish s k .eof else s) := by
    split
    · exact as_delivFinish _ _ _
    · exact AS.rfl' _
  generalize (if delivRunning s k then delivFinish s k .eof else s) = s1 at h1 ⊢
  have h2 : ∀ x : S, AS s1 x → AS s (if (delivRet s1 k == BRes.panic) = true then (closeConn x, false) else (resetConn x, false)).1 := by
    intro x hx
    split
    · exact h1.trans (hx.trans (as_closeConn _))
    · exact h1.trans (hx.trans (as_resetConn _))
  apply h2
  split
  · split
    · exact as_writeLmtpStatuses _ _
    · split <;> exact as_writeLmtpStatuses _ _
  · exact as_replyB _ _ _ _

/-- a failed chunk ends the transfer: whatever was handed over, the accounting starts afresh -/
theorem acct_bdatFail (s : S) (k left : Nat) (last : Bool) (err : BRes) (h : Pre s) : Acct (bdatFail s k left last err).1 := by
  unfold bdatFail
  simp only []
  have h1 : AS s (setW s (discardN (wireFuel s.w) s.w left)) := as_setW _ _
  generalize setW s (discardN (wireFuel s.w) s.w left) = s1 at h1 ⊢
  have h2 : AS s (bdatFailReplies s1 k last err) := h1.trans (as_bdatFailReplies _ _ _ _)
  generalize bdatFailReplies s1 k last err = s2 at h2 ⊢
  have h3 : AS s (if err == errPanic then closeConn s2 else s2) := by
    split
    · exact h2.trans (as_closeConn _)
    · exact h2
  generalize (if err == errPanic then closeConn s2 else s2) = s3 at h3 ⊢
  have h4 : AS s (armLimit (resetConn s3)) := h3.trans ((as_resetConn _).trans (as_armLimit _))
  refine (h.of_as h4).acct ?_
  · show (resetConn s3).c.bdat = none
    rw [(resetConn_c s3).1]

theorem acct_bdatDone (s : S) (k size : Nat) (last : Bool) (h : Pre s) (hbd : s.c.bdat = some k)
    (hk : octLen s k ≤ s.c.bytesReceived + size) (hsz : s.cfg.maxMsg > 0 → s.c.bytesReceived + size ≤ s.cfg.maxMsg) :
    Acct (bdatDone s k size last).1 := by
  unfold bdatDone
  simp only []
  have h0 : Acct (addBytesReceived s size) := by
    refine ⟨h.all, hsz, ?_⟩
    intro k' hk'
    have e : (addBytesReceived s size).c.bdat = s.c.bdat := rfl
    rw [e, hbd] at hk'
    cases hk'
    exact hk
  have h1 : Acct (armLimit (addBytesReceived s size)) := h0.of_as (as_armLimit _)
  generalize armLimit (addBytesReceived s size) = s1 at h1 ⊢
  split
  · exact h1.of_as (as_reply _ _ _ _)
  · exact h1.of_as (as_bdatFinal _ _)

theorem acct_bdatAfterCopy (s : S) (k size left : Nat) (last : Bool) (ce : CopyEnd) (h : Pre s) (hbd : s.c.bdat = some k)
    (hk : octLen s k ≤ s.c.bytesReceived + size) (hsz : s.cfg.maxMsg > 0 → s.c.bytesReceived + size ≤ s.cfg.maxMsg) :
    Acct (bdatAfterCopy s k size left last ce).1 := by
  unfold bdatAfterCopy
  split
  · exact acct_bdatFail _ _ _ _ _ h
  · exact acct_bdatFail _ _ _ _ _ h
  · simp only []
    split <;> exact acct_bdatFail _ _ _ _ _ h
  · exact acct_bdatDone _ _ _ _ h hbd hk hsz

/-- **an accepted chunk keeps the accounting**: `bytesReceived + size ≤ N` is what `handleBdat` has checked -/
theorem acct_bdatChunk (s : S) (size : Nat) (last : Bool) (h : Acct s)
    (hsz : s.cfg.maxMsg > 0 → s.c.bytesReceived + size ≤ s.cfg.maxMsg) : Acct (bdatChunk s size last).1 := by
  unfold bdatChunk
  have h0 := as_setBdatStatus s
  have hc0 : (setBdatStatus s).c.bytesReceived = s.c.bytesReceived := by unfold setBdatStatus; split <;> rfl
  have hb := acct_bdatBegin (setBdatStatus s) (h.of_as h0)
  generalize bdatBegin (setBdatStatus s) = p at hb ⊢
  obtain ⟨s1, k⟩ := p
  simp only [] at hb ⊢
  obtain ⟨ha1, hbd1, hcfg1, hbr1⟩ := hb
  have hcfg1' : s1.cfg = s.cfg := hcfg1.trans h0.cfg
  have hbr1' : s1.c.bytesReceived = s.c.bytesReceived := hbr1.trans hc0
  have h2 : AS s1 (setLimit s1 0) := as_setLimit _ _
  have hl : (setLimit s1 0).w.limit = 0 := rfl
  have hc2 : (setLimit s1 0).c = s1.c := rfl
  have ha2 : Acct (setLimit s1 0) := ha1.of_as h2
  have hcfg2 : (setLimit s1 0).cfg = s1.cfg := rfl
  generalize setLimit s1 0 = s2 at h2 hl hc2 ha2 hcfg2 ⊢
  have h3 := cs_copyChunk (wireFuel s2.w) s2 k size (min 32768 (max size 1)) hl
  generalize copyChunk (wireFuel s2.w) s2 k size (min 32768 (max size 1)) = q at h3 ⊢
  obtain ⟨s3, left, ce⟩ := q
  simp only [] at h3 ⊢
  have hbd3 : s3.c.bdat = some k := by rw [h3.bd, hc2]; exact hbd1
  have hbr3 : s3.c.bytesReceived = s.c.bytesReceived := by rw [h3.br, hc2]; exact hbr1'
  have hcfg3 : s3.cfg = s.cfg := h3.cfg.trans (hcfg2.trans hcfg1')
  have hk2 : octLen s2 k ≤ s2.c.bytesReceived := ha2.run k (by rw [hc2]; exact hbd1)
  have hk3 : octLen s3 k ≤ s3.c.bytesReceived + size := by
    have := h3.here
    rw [hbr3]; rw [hc2, hbr1'] at hk2; omega
  have hsz3 : s3.cfg.maxMsg > 0 → s3.c.bytesReceived + size ≤ s3.cfg.maxMsg := by
    rw [hcfg3, hbr3]; exact hsz
  have hp3 : Pre s3 := by
    refine ⟨?_, ?_⟩
    · intro hm j
      by_cases hj : j = k
      · subst hj; have := hsz3 hm; omega
      · have := h3.other j hj
        have hm2 : s2.cfg.maxMsg > 0 := by rw [← h3.cfg]; exact hm
        have := ha2.all hm2 j
        rw [h3.cfg]; omega
    · intro hm
      have := hsz3 hm; omega
  exact acct_bdatAfterCopy _ _ _ _ _ _ hp3 hbd3 hk3 hsz3

theorem as_discardChunkN (s : S) (size? : Option Nat) : AS s (discardChunkN s size?) := by
  unfold discardChunkN; split
  · exact as_setW _ _
  · exact AS.rfl' _

theorem acct_handleBdat (s : S) (arg : Bytes) (h : Acct s) : Acct (handleBdat s arg).1 := by
  unfold handleBdat
  split
  · exact h.of_as (as_reply _ _ _ _)
  · simp only []
    split
    · exact h.of_as ((as_reply _ _ _ _).trans (as_discardChunkN _ _))
    split
    · exact h.of_as ((as_reply _ _ _ _).trans (as_discardChunkN _ _))
    split
    · exact h.of_as ((as_reply _ _ _ _).trans (as_discardChunkN _ _))
    split
    · exact h.of_as (as_reply _ _ _ _)
    · rename_i size _
      split
      · exact h.of_as (((as_reply _ _ _ _).trans (as_discardChunkN _ _)).trans (as_resetConn _))
      · rename_i hlim
        refine acct_bdatChunk _ _ _ h ?_
        intro hm
        simp only [Bool.and_eq_true, bne_iff_ne, ne_eq, decide_eq_true_eq, not_and, Nat.not_lt] at hlim
        exact hlim (by omega)

/-! ### dispatch, the loop, the connection -/

theorem acct_recoverPanic (p : S × Bool) (h : Acct p.1) : Acct (recoverPanic p) := h.of_as (as_recoverPanic p)

theorem acct_dispatch (s : S) (cmd arg : Bytes) (h : Acct s) : Acct (dispatch s cmd arg) := by
  unfold dispatch
  split
  · exact h.of_as (as_replyB _ _ _ _)
  · unfold dispatchGreet
    split
    · exact h.of_as (as_reply _ _ _ _)
    split
    · exact h.of_as (as_reply _ _ _ _)
    · exact acct_recoverPanic _ (h.of_as (as_handleGreet _ _ _))
  · exact acct_recoverPanic _ (h.of_as (as_handleMail _ _))
  · exact acct_recoverPanic _ (h.of_as (as_handleRcpt _ _))
  · exact h.of_as (as_reply _ _ _ _)
  · exact h.of_as (as_reply _ _ _ _)
  · exact h.of_as ((as_resetConn _).trans (as_reply _ _ _ _))
  · exact acct_recoverPanic _ (acct_handleBdat _ _ h)
  · exact acct_recoverPanic _ (acct_handleData _ _ h)
  · exact h.of_as ((as_reply _ _ _ _).trans (as_closeConn _))
  · exact acct_recoverPanic _ (h.of_as (as_handleAuth _ _))
  · exact h.of_as (as_handleStartTLS _)
  · exact h.of_as (as_protocolErrorB _ _ _ _)

theorem acct_handle (s : S) (cmd arg : Bytes) (h : Acct s) : Acct (handle s cmd arg) := by
  unfold handle
  split
  · exact h.of_as (as_protocolError _ _ _ _)
  · exact acct_dispatch _ _ _ h

theorem acct_loop : ∀ (fuel : Nat) (s : S), Acct s → Acct (loop fuel s) := by
  intro fuel
  induction fuel with
  | zero => intro s h; exact h
  | succ fuel ih =>
    intro s h
    unfold loop
    split
    · exact h
    · have h1 := h.of_as (as_connReadLine s)
      generalize connReadLine s = p at h1 ⊢
      obtain ⟨s1, r⟩ := p
      simp only [] at h1
      cases r with
      | error e => cases e <;> first | exact h1 | exact h1.of_as (as_reply _ _ _ _)
      | ok line =>
        simp only []
        have h2 : Acct (emit s1 (.cmd line)) := h1.of_as (as_emit _ _)
        generalize emit s1 (.cmd line) = s2 at h2 ⊢
        split
        · exact ih _ (h2.of_as (as_protocolError _ _ _ _))
        · exact ih _ (acct_handle _ _ _ h2)

/-- **the accounting invariant holds throughout every connection** -/
theorem acct_serve (s : S) (h : Acct s) : Acct (serve s) := by
  unfold serve greet
  exact (acct_loop _ _ (h.of_as (as_replyB _ _ _ _))).of_as (as_closeConn _)


end SmtpV.Server
