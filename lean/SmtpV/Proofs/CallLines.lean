import SmtpV.Proofs.ClientTLSr
import SmtpV.Props.C15
/-!
Whole calls of the client model write whole command lines (C15): every call other than the message-body writes,
made while no DATA writer is open, adds to the connection a sequence of lines `x ++ CRLF` with neither CR nor LF
in `x` — at most one for the call itself, and at most two more for the implicit EHLO/HELO when no hello was done.
-/
namespace SmtpV.Client
open SmtpV SmtpV.Text SmtpV.OneLine

/-- a well-formed command line on the wire -/
def IsLine (l : Bytes) : Prop := ∃ x, l = x ++ crlf ∧ NoNL x

/-- from `c` to `c'`: at most `n` whole command lines written, the client still idle and its host name still clean -/
structure OL (n : Nat) (c c' : C) : Prop where
  idle : Idle c'
  name : validLine c'.localName = true
  lines : ∃ ls : List Bytes, c'.out = c.out ++ ls.flatten ∧ ls.length ≤ n ∧ ∀ l ∈ ls, IsLine l

theorem OL.refl {c : C} (h : Idle c) (hn : validLine c.localName = true) : OL 0 c c :=
  ⟨h, hn, [], by simp, by simp, by simp⟩

theorem OL.trans {n m : Nat} {a b c : C} (h1 : OL n a b) (h2 : OL m b c) : OL (n + m) a c := by
  obtain ⟨l1, e1, n1, m1⟩ := h1.lines
  obtain ⟨l2, e2, n2, m2⟩ := h2.lines
  refine ⟨h2.idle, h2.name, l1 ++ l2, by rw [e2, e1]; simp, by simp; omega, ?_⟩
  intro l hl
  rcases List.mem_append.1 hl with h | h
  · exact m1 l h
  · exact m2 l h

theorem OL.step {n : Nat} {a b c : C} (h1 : OL n a b) (h2 : OL 0 b c) : OL n a c := h1.trans h2

theorem OL.mono {n m : Nat} {a b : C} (h : OL n a b) (hnm : n ≤ m) : OL m a b := by
  obtain ⟨l1, e1, n1, m1⟩ := h.lines
  exact ⟨h.idle, h.name, l1, e1, by omega, m1⟩

theorem OL.stepTo {n m : Nat} {a b c : C} (h1 : OL n a b) (h2 : OL 0 b c) (h : n ≤ m := by omega) : OL m a c :=
  (h1.step h2).mono h

theorem OL.up1 {n : Nat} {a b : C} (h : OL n a b) : OL (n + 1) a b := h.mono (by omega)

theorem ol_upd {c c' : C} (h : Idle c) (hn : validLine c.localName = true) (h1 : c'.dot = c.dot) (h2 : c'.wbuf = c.wbuf)
    (h3 : c'.out = c.out) (h4 : c'.localName = c.localName) : OL 0 c c' :=
  ⟨⟨h1.trans h.1, h2.trans h.2⟩, by rw [h4]; exact hn, [], by simp [h3], by simp, by simp⟩

theorem handshake_frame (c : C) : c.handshake.out = c.out ∧ c.handshake.dot = c.dot ∧ c.handshake.wbuf = c.wbuf ∧
    c.handshake.localName = c.localName := by
  unfold C.handshake
  split
  · exact ⟨rfl, rfl, rfl, rfl⟩
  · split <;> exact ⟨rfl, rfl, rfl, rfl⟩

theorem send_ol (c : C) (bs : Bytes) (h : Idle c) (hn : validLine c.localName = true) (hl : IsLine bs) :
    OL 1 c (c.send bs).1 := by
  unfold C.send
  have hf := handshake_frame c
  generalize c.handshake = c1 at hf ⊢
  obtain ⟨f1, f2, f3, f4⟩ := hf
  simp only [f3, h.2, List.nil_append]
  split
  · exact ⟨⟨f2.trans h.1, rfl⟩, by simpa [f4] using hn, [], by simp [f1], by simp, by simp⟩
  · exact ⟨⟨f2.trans h.1, rfl⟩, by simpa [f4] using hn, [bs], by simp [f1], by simp, by simpa using hl⟩

theorem read_ol (c : C) (n : Nat) (h : Idle c) (hn : validLine c.localName = true) : OL 0 c (c.read n).1 := by
  unfold C.read
  exact ol_upd h hn rfl rfl rfl rfl

theorem cmd_ol (c : C) (n : Nat) (l : Bytes) (h : Idle c) (hn : validLine c.localName = true) (hl : NoNL l) :
    OL 1 c (c.cmd n l).1 := by
  unfold C.cmd C.closeDot
  simp only [h.1, List.nil_append]
  have h1 := send_ol c (l ++ crlf) h hn ⟨l, rfl, hl⟩
  generalize c.send (l ++ crlf) = q at h1 ⊢
  obtain ⟨c1, b⟩ := q
  cases b with
  | false => exact h1
  | true => exact h1.step (read_ol c1 n h1.idle h1.name)

theorem greet_ol (c : C) (h : Idle c) (hn : validLine c.localName = true) : OL 0 c c.greet.1 := by
  unfold C.greet
  split
  · exact OL.refl h hn
  · have h0 : OL 0 c { c with didGreet := true } := ol_upd h hn rfl rfl rfl rfl
    have h1 := read_ol { c with didGreet := true } 220 h0.idle h0.name
    simp only []
    generalize C.read { c with didGreet := true } 220 = p at h1 ⊢
    obtain ⟨c1, r⟩ := p
    cases r with
    | ok code msg => exact h0.step h1
    | smtpErr e => exact (h0.step h1).step (ol_upd h1.idle h1.name rfl rfl rfl rfl)
    | proto => exact (h0.step h1).step (ol_upd h1.idle h1.name rfl rfl rfl rfl)
    | io => exact (h0.step h1).step (ol_upd h1.idle h1.name rfl rfl rfl rfl)

theorem NoNL_lit (s : String) (h : s.b.all (fun b => b != 10 && b != 13) = true) : NoNL s.b :=
  Props.C15.NoNL_of_check _ h

theorem hello_ol (c : C) (h : Idle c) (hn : validLine c.localName = true) :
    OL 2 c c.hello.1 ∧ (c.didHello = true → OL 0 c c.hello.1) := by
  unfold C.hello
  split
  · exact ⟨(OL.refl h hn).up1.up1, fun _ => OL.refl h hn⟩
  · rename_i hd
    refine ⟨?_, fun h' => absurd h' hd⟩
    have h1 := greet_ol c h hn
    generalize c.greet = p at h1 ⊢
    obtain ⟨c1, e⟩ := p
    cases e with
    | some e => exact h1.up1.up1
    | none =>
      simp only [] at h1 ⊢
      have h2 : OL 0 c1 { c1 with didHello := true } := ol_upd h1.idle h1.name rfl rfl rfl rfl
      have hl : NoNL ((if c1.lmtp then "LHLO ".b else "EHLO ".b) ++ c1.localName) := by
        refine NoNL_append.mpr ⟨?_, validLine_NoNL _ h1.name⟩
        split
        · exact NoNL_lit _ (by decide +kernel)
        · exact NoNL_lit _ (by decide +kernel)
      have h3 := cmd_ol { c1 with didHello := true } 250 _ h2.idle h2.name hl
      generalize C.cmd { c1 with didHello := true } 250 ((if c1.lmtp then "LHLO ".b else "EHLO ".b) ++ c1.localName) = q at h3 ⊢
      obtain ⟨c2, r⟩ := q
      have h13 : OL 1 c c2 := by have := (h1.step h2).trans h3; simpa using this
      cases r with
      | ok code msg => exact h13.stepTo (ol_upd h3.idle h3.name rfl rfl rfl rfl)
      | smtpErr e =>
        simp only []
        split
        · have h4 : OL 0 c2 { c2 with ext := [] } := ol_upd h3.idle h3.name rfl rfl rfl rfl
          have hl2 : NoNL ("HELO ".b ++ c2.localName) :=
            NoNL_append.mpr ⟨NoNL_lit _ (by decide +kernel), validLine_NoNL _ h3.name⟩
          have h5 := cmd_ol { c2 with ext := [] } 250 _ h4.idle h4.name hl2
          generalize C.cmd { c2 with ext := [] } 250 ("HELO ".b ++ c2.localName) = q2 at h5 ⊢
          obtain ⟨c3, r3⟩ := q2
          exact ((h13.step h4).trans h5).step (ol_upd h5.idle h5.name rfl rfl rfl rfl)
        · exact h13.stepTo (ol_upd h3.idle h3.name rfl rfl rfl rfl)
      | proto => exact h13.stepTo (ol_upd h3.idle h3.name rfl rfl rfl rfl)
      | io => exact h13.stepTo (ol_upd h3.idle h3.name rfl rfl rfl rfl)

/-- lines the implicit hello may still need: none once a hello was done, else EHLO and possibly HELO -/
def helloBudget (c : C) : Nat := if c.didHello then 0 else 2

theorem hello_ol' (c : C) (h : Idle c) (hn : validLine c.localName = true) : OL (helloBudget c) c c.hello.1 := by
  unfold helloBudget
  split
  · rename_i hd; exact (hello_ol c h hn).2 hd
  · exact (hello_ol c h hn).1

/-- the calls that send a command (everything but the message-body writes, DATA and AUTH) -/
def Call.simple : Call → Bool
  | .hello _ | .verify _ | .mail _ _ | .rcpt _ _ | .reset | .noop | .quit | .ext _ => true
  | _ => false

theorem call_ol (c0 : C) (k : Call) (hs : k.simple = true) (h : Idle c0) (hn : validLine c0.localName = true) :
    OL (helloBudget c0 + 1) { c0 with out := c0.carry, carry := [] } (c0.call k).1 ∧
    (c0.call k).2.written = (c0.call k).1.out := by
  have h0 : OL 0 { c0 with out := c0.carry, carry := [] } { c0 with out := c0.carry, carry := [] } :=
    OL.refl ⟨h.1, h.2⟩ hn
  have hb : helloBudget c0 = helloBudget { c0 with out := c0.carry, carry := [] } := rfl
  rw [hb]
  unfold C.call
  generalize ({ c0 with out := c0.carry, carry := [] } : C) = c at h0 ⊢
  simp only []
  have hi := h0.idle
  have hnm := h0.name
  clear h0 h hn hb
  cases k with
  | hello name =>
    simp only []
    split
    · exact ⟨(OL.refl hi hnm).mono (by omega), rfl⟩
    · rename_i hv
      split
      · exact ⟨(OL.refl hi hnm).mono (by omega), rfl⟩
      · have hv' : validLine name = true := by simpa using hv
        have h1 : OL 0 c { c with localName := name } := ⟨hi, hv', [], by simp, by simp, by simp⟩
        have h2 := hello_ol' { c with localName := name } h1.idle h1.name
        exact ⟨(h1.trans h2).mono (by simp [helloBudget]), rfl⟩
  | verify a =>
    simp only []
    split
    · exact ⟨(OL.refl hi hnm).mono (by omega), rfl⟩
    · rename_i hv
      have h1 := hello_ol' c hi hnm
      generalize c.hello = p at h1 ⊢
      obtain ⟨c1, e⟩ := p
      cases e with
      | some e => exact ⟨h1.mono (by omega), rfl⟩
      | none =>
        have hl : NoNL ("VRFY ".b ++ a) :=
          NoNL_append.mpr ⟨NoNL_lit _ (by decide +kernel), validLine_NoNL _ (by simpa using hv)⟩
        exact ⟨h1.trans (cmd_ol c1 250 _ h1.idle h1.name hl), rfl⟩
  | mail frm o =>
    simp only []
    split
    · exact ⟨(OL.refl hi hnm).mono (by omega), rfl⟩
    · have h1 := hello_ol' c hi hnm
      generalize c.hello = p at h1 ⊢
      obtain ⟨c1, e⟩ := p
      cases e with
      | some e => exact ⟨h1.mono (by omega), rfl⟩
      | none =>
        simp only []
        split
        · exact ⟨h1.mono (by omega), rfl⟩
        · rename_i l hl
          have h2 := cmd_ol c1 250 l h1.idle h1.name (Props.C15.C15_mail_one_line _ _ _ l hl)
          generalize c1.cmd 250 l = q at h2 ⊢
          obtain ⟨c2, r⟩ := q
          cases r with
          | ok code msg => exact ⟨(h1.trans h2).stepTo (ol_upd h2.idle h2.name rfl rfl rfl rfl), rfl⟩
          | smtpErr e => exact ⟨h1.trans h2, rfl⟩
          | proto => exact ⟨h1.trans h2, rfl⟩
          | io => exact ⟨h1.trans h2, rfl⟩
  | rcpt to o =>
    simp only []
    split
    · exact ⟨(OL.refl hi hnm).mono (by omega), rfl⟩
    · rename_i l hl
      have h2 := cmd_ol c 25 l hi hnm (Props.C15.C15_rcpt_one_line _ _ _ l hl)
      generalize c.cmd 25 l = q at h2 ⊢
      obtain ⟨c2, r⟩ := q
      cases r with
      | ok code msg => exact ⟨h2.stepTo (ol_upd h2.idle h2.name rfl rfl rfl rfl), rfl⟩
      | smtpErr e => exact ⟨h2.mono (by omega), rfl⟩
      | proto => exact ⟨h2.mono (by omega), rfl⟩
      | io => exact ⟨h2.mono (by omega), rfl⟩
  | reset =>
    simp only []
    have h1 := hello_ol' c hi hnm
    generalize c.hello = p at h1 ⊢
    obtain ⟨c1, e⟩ := p
    cases e with
    | some e => exact ⟨h1.mono (by omega), rfl⟩
    | none =>
      simp only []
      have h2 := cmd_ol c1 250 "RSET".b h1.idle h1.name (NoNL_lit _ (by decide +kernel))
      generalize c1.cmd 250 "RSET".b = q at h2 ⊢
      obtain ⟨c2, r⟩ := q
      cases r with
      | ok code msg => exact ⟨(h1.trans h2).stepTo (ol_upd h2.idle h2.name rfl rfl rfl rfl), rfl⟩
      | smtpErr e => exact ⟨h1.trans h2, rfl⟩
      | proto => exact ⟨h1.trans h2, rfl⟩
      | io => exact ⟨h1.trans h2, rfl⟩
  | noop =>
    simp only []
    have h1 := hello_ol' c hi hnm
    generalize c.hello = p at h1 ⊢
    obtain ⟨c1, e⟩ := p
    cases e with
    | some e => exact ⟨h1.mono (by omega), rfl⟩
    | none => exact ⟨h1.trans (cmd_ol c1 250 _ h1.idle h1.name (NoNL_lit _ (by decide +kernel))), rfl⟩
  | quit =>
    simp only []
    have h1 := hello_ol' c hi hnm
    generalize c.hello = p at h1 ⊢
    obtain ⟨c1, e⟩ := p
    cases e with
    | some e => exact ⟨h1.mono (by omega), rfl⟩
    | none =>
      simp only []
      have h2 := cmd_ol c1 221 "QUIT".b h1.idle h1.name (NoNL_lit _ (by decide +kernel))
      generalize c1.cmd 221 "QUIT".b = q at h2 ⊢
      obtain ⟨c2, r⟩ := q
      cases r with
      | ok code msg => exact ⟨(h1.trans h2).stepTo (ol_upd h2.idle h2.name rfl rfl rfl rfl), rfl⟩
      | smtpErr e => exact ⟨h1.trans h2, rfl⟩
      | proto => exact ⟨h1.trans h2, rfl⟩
      | io => exact ⟨h1.trans h2, rfl⟩
  | ext name =>
    simp only []
    have h1 := hello_ol' c hi hnm
    generalize c.hello = p at h1 ⊢
    obtain ⟨c1, e⟩ := p
    cases e with
    | some e => exact ⟨h1.mono (by omega), rfl⟩
    | none =>
      simp only []
      split
      · exact ⟨h1.mono (by omega), rfl⟩
      · exact ⟨h1.mono (by omega), rfl⟩
  | data => cases hs
  | lmtpData => cases hs
  | write bs => cases hs
  | close k => cases hs
  | auth mech ir steps => cases hs

end SmtpV.Client
