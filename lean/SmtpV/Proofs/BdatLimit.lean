import SmtpV.Proofs.BdatEof
namespace SmtpV.Server
open SmtpV SmtpV.Wire SmtpV.Spec SmtpV.Text

/-- every delivery record of `s'` holds the octets it held in `s` (no delivery was handed anything) -/
def SameOctets (s s' : S) : Prop :=
  ∀ (j : Nat) (d' : DRec), s'.drecs[j]? = some d' → ∃ d : DRec, s.drecs[j]? = some d ∧ d'.octets = d.octets

theorem SameOctets.rfl' (s : S) : SameOctets s s := fun _ d' h => ⟨d', h, rfl⟩
theorem SameOctets.trans {a b c : S} (h1 : SameOctets a b) (h2 : SameOctets b c) : SameOctets a c := by
  intro j d' h
  obtain ⟨d1, hd1, e1⟩ := h2 j d' h
  obtain ⟨d0, hd0, e0⟩ := h1 j d1 hd1
  exact ⟨d0, hd0, by rw [e1, e0]⟩
theorem SameOctets.of_drecs {s s' : S} (h : s'.drecs = s.drecs) : SameOctets s s' := by
  intro j d' hd; exact ⟨d', by rw [← h]; exact hd, rfl⟩

theorem so_setDrec (s : S) (k : Nat) (f : DRec → DRec) (hf : ∀ d, (f d).octets = d.octets) : SameOctets s (setDrec s k f) := by
  intro j d' hd
  rw [setDrec_get] at hd
  split at hd
  · cases hs : s.drecs[j]? with
    | none => rw [hs] at hd; cases hd
    | some d0 =>
      rw [hs] at hd
      simp only [Option.map_some, Option.some.injEq] at hd
      subst hd
      exact ⟨d0, rfl, hf d0⟩
  · exact ⟨d', hd, rfl⟩

theorem so_delivFinish (s : S) (k : Nat) (e : RdEnd) : SameOctets s (delivFinish s k e) := by
  unfold delivFinish
  simp only []
  have h1 := so_setDrec s k (fun d => { d with finished := true, rdEnd := e, ret := delivOutcome s k e }) (fun _ => rfl)
  split
  · exact h1.trans (SameOctets.of_drecs rfl)
  · exact h1

theorem so_abortBdat (s : S) : SameOctets s (abortBdat s) := by
  unfold abortBdat
  split
  · rename_i k _
    have : SameOctets s (delivAbort s k) := by
      unfold delivAbort
      split
      · exact so_delivFinish _ _ _
      · exact SameOctets.rfl' _
    exact this.trans (SameOctets.of_drecs rfl)
  · exact SameOctets.rfl' _

theorem so_resetConn (s : S) : SameOctets s (resetConn s) := by
  unfold resetConn clearEnvelope
  exact (so_abortBdat s).trans (SameOctets.of_drecs (by simp only [drecs_resetSess]))

theorem so_reply (s : S) (c : Nat) (e : Enh) (t : String) : SameOctets s (reply s c e t) := by
  unfold reply write; split <;> exact SameOctets.of_drecs rfl

theorem so_discardChunkN (s : S) (size? : Option Nat) : SameOctets s (discardChunkN s size?) := by
  unfold discardChunkN; split <;> exact SameOctets.of_drecs rfl

/-- **a chunk that would take the message over the limit**: refused with 552, its payload skipped, nothing handed to any
    delivery, the transaction gone -/
theorem handleBdat_over_limit (s : S) (arg a0 : Bytes) (more : List Bytes) (size : Nat)
    (hf : fields arg = a0 :: more) (hsz : parseUintDec a0 32 = some size) (hm : more.length ≤ 1)
    (henv : s.c.fromReceived = true ∧ s.c.recipients.isEmpty = false) (hlast : bdatLastBad more = false)
    (hover : s.cfg.maxMsg ≠ 0 ∧ s.c.bytesReceived + size > s.cfg.maxMsg) :
    handleBdat s arg = (resetConn (discardChunkN (reply s 552 ⟨5, 3, 4⟩ "Max message size exceeded") (some size)), false) := by
  unfold handleBdat
  simp only [hf, hsz]
  have h1 : ¬ more.length > 1 := by omega
  have h3 : (s.cfg.maxMsg != 0 && decide (s.c.bytesReceived + size > s.cfg.maxMsg)) = true := by
    simp [hover.1, hover.2]
  simp only [h1, if_false, henv.1, henv.2, Bool.not_true, Bool.or_self, Bool.false_eq_true, hlast, h3, if_true]

theorem handleBdat_over_limit_effect (s : S) (arg a0 : Bytes) (more : List Bytes) (size : Nat)
    (hf : fields arg = a0 :: more) (hsz : parseUintDec a0 32 = some size) (hm : more.length ≤ 1)
    (henv : s.c.fromReceived = true ∧ s.c.recipients.isEmpty = false) (hlast : bdatLastBad more = false)
    (hover : s.cfg.maxMsg ≠ 0 ∧ s.c.bytesReceived + size > s.cfg.maxMsg) :
    SameOctets s (handleBdat s arg).1 ∧ NoNewEof s (handleBdat s arg).1 ∧
    (handleBdat s arg).1.c.fromReceived = false ∧ (handleBdat s arg).1.c.recipients = [] ∧ (handleBdat s arg).1.c.bdat = none := by
  rw [handleBdat_over_limit s arg a0 more size hf hsz hm henv hlast hover]
  refine ⟨(so_reply _ _ _ _).trans ((so_discardChunkN _ _).trans (so_resetConn _)), ?_, ?_, ?_, ?_⟩
  · have hd : ∀ x : S, NoNewEof x (discardChunkN x (some size)) := by
      intro x; unfold discardChunkN; exact NoNewEof.of_drecs rfl
    exact (nne_reply s 552 ⟨5, 3, 4⟩ "Max message size exceeded").trans ((hd _).trans (nne_resetConn _))
  · rw [(resetConn_c _).1]
  · rw [(resetConn_c _).1]
  · rw [(resetConn_c _).1]

end SmtpV.Server
