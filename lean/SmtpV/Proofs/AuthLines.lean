import SmtpV.Proofs.CallLines
/-!
The AUTH call of the client model writes whole command lines only (C15): the AUTH line is built from the mechanism name — refused
when it contains CR or LF (client.go, repaired) — and base64 text; every further line is a base64 response or the cancel token `*`.
-/
namespace SmtpV.Client
open SmtpV SmtpV.Text SmtpV.OneLine

theorem b64Char_ok (n : Nat) : okB (Server.b64Char n) := by
  unfold Server.b64Char
  have key : ∀ k : Nat, k < 256 → k ≠ 10 → k ≠ 13 → okB (UInt8.ofNat k) := by
    intro k hk h10 h13
    constructor
    · intro e
      have := congrArg UInt8.toNat e
      simp [UInt8.toNat_ofNat, Nat.mod_eq_of_lt hk] at this
      exact h10 this
    · intro e
      have := congrArg UInt8.toNat e
      simp [UInt8.toNat_ofNat, Nat.mod_eq_of_lt hk] at this
      exact h13 this
  split
  · exact key _ (by omega) (by omega) (by omega)
  · split
    · exact key _ (by omega) (by omega) (by omega)
    · split
      · exact key _ (by omega) (by omega) (by omega)
      · split <;> exact key _ (by omega) (by omega) (by omega)

theorem b64Encode_NoNL : ∀ (r : Bytes), NoNL (Server.b64Encode r)
  | [] => NoNL_nil
  | [a] => by
    intro b hb
    simp only [Server.b64Encode, List.mem_cons, List.not_mem_nil, or_false] at hb
    rcases hb with rfl | rfl | rfl | rfl
    · exact b64Char_ok _
    · exact b64Char_ok _
    · decide
    · decide
  | [a, b'] => by
    intro b hb
    simp only [Server.b64Encode, List.mem_cons, List.not_mem_nil, or_false] at hb
    rcases hb with rfl | rfl | rfl | rfl
    · exact b64Char_ok _
    · exact b64Char_ok _
    · exact b64Char_ok _
    · decide
  | a :: b' :: c :: t => by
    intro b hb
    simp only [Server.b64Encode, List.mem_cons] at hb
    rcases hb with rfl | rfl | rfl | rfl | hb
    · exact b64Char_ok _
    · exact b64Char_ok _
    · exact b64Char_ok _
    · exact b64Char_ok _
    · exact b64Encode_NoNL t b hb

theorem mem_trimLeft_go : ∀ (fuel : Nat) (s : Bytes) (b : Byte), b ∈ trimLeftSpace.go fuel s → b ∈ s := by
  intro fuel
  induction fuel with
  | zero => intro s b h; exact h
  | succ fuel ih =>
    intro s b h
    unfold trimLeftSpace.go at h
    split at h
    · split at h
      · exact List.mem_of_mem_drop (ih _ b h)
      · exact h
    · exact h

theorem mem_trimRight_go : ∀ (fuel : Nat) (s : Bytes) (b : Byte), b ∈ trimRightSpace.go fuel s → b ∈ s := by
  intro fuel
  induction fuel with
  | zero => intro s b h; exact h
  | succ fuel ih =>
    intro s b h
    unfold trimRightSpace.go at h
    simp only [] at h
    split at h
    · exact h
    · exact List.mem_of_mem_take (ih _ b h)

theorem NoNL_trimSpace (s : Bytes) (h : NoNL s) : NoNL (trimSpace s) := by
  intro b hb
  unfold trimSpace trimRightSpace trimLeftSpace at hb
  exact h b (mem_trimLeft_go _ _ b (mem_trimRight_go _ _ b hb))

/-- the challenge/response loop: at most one line per round -/
theorem authLoop_ol : ∀ (fuel : Nat) (c : C) (r : RR) (steps : List (Option (Option Bytes))) (seen : List String),
    Idle c → validLine c.localName = true → OL fuel c (authLoop fuel c r steps seen).1 := by
  intro fuel
  induction fuel with
  | zero => intro c r steps seen hi hn; exact OL.refl hi hn
  | succ fuel ih =>
    intro c r steps seen hi hn
    have hstar : OL 1 c (c.cmd 501 [42]).1 := cmd_ol c 501 [42] hi hn (by intro b hb; simp at hb; subst hb; decide)
    unfold authLoop
    split
    · split
      · split
        · exact hstar.mono (by omega)
        · simp only []
          split
          · exact hstar.mono (by omega)
          · exact (OL.refl hi hn).mono (by omega)
          · rename_i resp _
            have h1 := cmd_ol c 0 (Server.b64Encode resp) hi hn (b64Encode_NoNL resp)
            generalize c.cmd 0 (Server.b64Encode resp) = q at h1 ⊢
            obtain ⟨c1, r'⟩ := q
            have h2 : ∀ st sn, OL fuel c1 (authLoop fuel c1 r' st sn).1 := fun st sn => ih c1 r' st sn h1.idle h1.name
            exact (h1.trans (h2 _ _)).mono (by omega)
      · split
        · exact (OL.refl hi hn).mono (by omega)
        · exact hstar.mono (by omega)
    · exact (OL.refl hi hn).mono (by omega)

end SmtpV.Client

namespace SmtpV.Client
open SmtpV SmtpV.Text SmtpV.OneLine

/-- the whole `Auth` call: the implicit hello, the AUTH line, the exchange -/
theorem auth_call_ol (c0 : C) (mech : Bytes) (ir : Option Bytes) (steps : List (Option (Option Bytes)))
    (h : Idle c0) (hn : validLine c0.localName = true) :
    OL (helloBudget c0 + steps.length + 3) { c0 with out := c0.carry, carry := [] } (c0.call (.auth mech ir steps)).1 ∧
    (c0.call (.auth mech ir steps)).2.written = (c0.call (.auth mech ir steps)).1.out := by
  have h0 : OL 0 { c0 with out := c0.carry, carry := [] } { c0 with out := c0.carry, carry := [] } :=
    OL.refl ⟨h.1, h.2⟩ hn
  have hb : helloBudget c0 = helloBudget { c0 with out := c0.carry, carry := [] } := rfl
  rw [hb]
  unfold C.call
  generalize ({ c0 with out := c0.carry, carry := [] } : C) = c at h0 ⊢
  simp only []
  have hi := h0.idle
  have hnm := h0.name
  clear h0 h hn hb
  have h1 := hello_ol' c hi hnm
  generalize c.hello = p at h1 ⊢
  obtain ⟨c1, e⟩ := p
  cases e with
  | some e => exact ⟨h1.mono (by omega), rfl⟩
  | none =>
    simp only []
    split
    · exact ⟨h1.mono (by omega), rfl⟩
    · rename_i hv
      have hm : NoNL mech := validLine_NoNL _ (by simpa using hv)
      have hr : NoNL (match ir with | none => ([] : Bytes) | some r => if r.isEmpty then [61] else Server.b64Encode r) := by
        cases ir with
        | none => exact NoNL_nil
        | some r =>
          simp only []
          split
          · intro b hb; simp at hb; subst hb; decide
          · exact b64Encode_NoNL r
      have hl : NoNL (trimSpace ("AUTH ".b ++ mech ++ [32] ++
          (match ir with | none => ([] : Bytes) | some r => if r.isEmpty then [61] else Server.b64Encode r))) := by
        apply NoNL_trimSpace
        refine NoNL_append.mpr ⟨NoNL_append.mpr ⟨NoNL_append.mpr ⟨NoNL_lit _ (by decide +kernel), hm⟩, ?_⟩, hr⟩
        intro b hb; simp at hb; subst hb; decide
      generalize (trimSpace ("AUTH ".b ++ mech ++ [32] ++
          (match ir with | none => ([] : Bytes) | some r => if r.isEmpty then [61] else Server.b64Encode r))) = line at hl ⊢
      have h2 := cmd_ol c1 0 line h1.idle h1.name hl
      generalize c1.cmd 0 line = q at h2 ⊢
      obtain ⟨c2, r⟩ := q
      have h3 := authLoop_ol (steps.length + 2) c2 r steps [] h2.idle h2.name
      generalize authLoop (steps.length + 2) c2 r steps [] = z at h3 ⊢
      obtain ⟨c3, e3, seen⟩ := z
      exact ⟨((h1.trans h2).trans h3).mono (by omega), rfl⟩

end SmtpV.Client
