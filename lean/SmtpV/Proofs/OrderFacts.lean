import SmtpV.Proofs.Projections
/-!
Facts about traces the ordering monitor accepts, stated on the trace itself (no monitor state in the
statement): used to turn `order_accepts_every_connection` into readable corollaries for C09 and C10.
-/
namespace SmtpV.Spec.Order
open SmtpV SmtpV.Spec

theorem run_ok_of_check {cfg : Cfg} {a : A} {evs : List Ev} (h : check cfg a evs = []) : ∃ m, run cfg a evs = .ok m := by
  unfold check at h
  split at h
  · exact ⟨_, by assumption⟩
  · simp at h

theorem run_split {cfg : Cfg} {a m : A} {pre post : List Ev} {e : Ev} (h : run cfg a (pre ++ e :: post) = .ok m) :
    ∃ a1 a2, run cfg a pre = .ok a1 ∧ step cfg a1 e = .ok a2 ∧ run cfg a2 post = .ok m := by
  rw [run_append] at h
  cases h1 : run cfg a pre with
  | error r => rw [h1] at h; cases h
  | ok a1 =>
    rw [h1] at h
    simp only [run] at h
    cases h2 : step cfg a1 e with
    | error r => rw [h2] at h; cases h
    | ok a2 => rw [h2] at h; exact ⟨a1, a2, rfl, h2, h⟩

def isTlsUp : Ev → Bool
  | .tlsStart true => true
  | _ => false

def isAuthEv : Ev → Bool
  | .sasl .. => true
  | .authMech .. => true
  | _ => false

def isAuthSuccess : Ev → Bool
  | .sasl _ _ done r => done && r == .ok
  | _ => false

def endsSession : Ev → Bool
  | .logout _ => true
  | .ns .. => true
  | _ => false

/-- what one accepted event does to the fields the C09 corollaries look at -/
theorem step_facts (cfg : Cfg) (a a1 : A) (e : Ev) (h : step cfg a e = .ok a1) :
    (isTlsUp e = false → a1.tls = a.tls) ∧
    (endsSession e = false → a.authed = true → a1.authed = true) ∧
    (isAuthEv e = true → (a.tls || cfg.insecureAuth) = true ∧ a.authed = false) ∧
    (isAuthSuccess e = true → a1.authed = true) := by
  have hc := core_of_step cfg a a1 e h
  cases e with
  | w bs => simp only [core] at hc; split at hc <;> cases hc; simp [isTlsUp, isAuthEv, isAuthSuccess]
  | cmd l => simp only [core] at hc; split at hc <;> cases hc; simp [isTlsUp, isAuthEv, isAuthSuccess]
  | panicLog => simp only [core] at hc; cases hc; simp [isTlsUp, isAuthEv, isAuthSuccess]
  | tlsStart ok =>
    simp only [core] at hc
    repeat' split at hc
    all_goals first
      | (cases hc; done)
      | (cases hc; simp_all [isTlsUp, isAuthEv, isAuthSuccess])
  | close =>
    simp only [core] at hc
    repeat' split at hc
    all_goals first
      | (cases hc; done)
      | (cases hc; simp [isTlsUp, isAuthEv, isAuthSuccess])
  | sasl resp ch d r =>
    simp only [core] at hc
    repeat' split at hc
    all_goals first
      | (cases hc; done)
      | (cases hc; simp_all [isTlsUp, isAuthEv, isAuthSuccess, endsSession]; done)
      | (cases hc; cases htl : a.tls <;> simp_all [isTlsUp, isAuthEv, isAuthSuccess, endsSession])
  | authMech id mech r =>
    simp only [core] at hc
    repeat' split at hc
    all_goals first
      | (cases hc; done)
      | (cases hc; simp_all [isTlsUp, isAuthEv, isAuthSuccess, endsSession]; done)
      | (cases hc; cases htl : a.tls <;> simp_all [isTlsUp, isAuthEv, isAuthSuccess, endsSession])
  | ns id helo tls r =>
    simp only [core] at hc
    repeat' split at hc
    all_goals first
      | (cases hc; done)
      | (cases hc; simp [isTlsUp, isAuthEv, isAuthSuccess, endsSession])
  | logout id =>
    simp only [core] at hc
    repeat' split at hc
    all_goals first
      | (cases hc; done)
      | (cases hc; simp [isTlsUp, isAuthEv, isAuthSuccess, endsSession])
  | reset id =>
    simp only [core] at hc
    repeat' split at hc
    all_goals first
      | (cases hc; done)
      | (cases hc; simp [isTlsUp, isAuthEv, isAuthSuccess, endsSession])
  | mail id f o r =>
    simp only [core] at hc
    repeat' split at hc
    all_goals first
      | (cases hc; done)
      | (cases hc; simp [isTlsUp, isAuthEv, isAuthSuccess, endsSession])
  | rcpt id t o r =>
    simp only [core] at hc
    repeat' split at hc
    all_goals first
      | (cases hc; done)
      | (cases hc; simp [isTlsUp, isAuthEv, isAuthSuccess, endsSession])
  | dataBegin id k =>
    simp only [core] at hc
    repeat' split at hc
    all_goals first
      | (cases hc; done)
      | (cases hc; simp [isTlsUp, isAuthEv, isAuthSuccess, endsSession])

theorem run_tls_false {cfg : Cfg} : ∀ (evs : List Ev) (a m : A), run cfg a evs = .ok m → a.tls = false →
    (∀ e ∈ evs, isTlsUp e = false) → m.tls = false := by
  intro evs
  induction evs with
  | nil => intro a m h ht _; simp only [run] at h; cases h; exact ht
  | cons e t ih =>
    intro a m h ht hno
    simp only [run] at h
    cases hs : step cfg a e with
    | error r => rw [hs] at h; cases h
    | ok a1 =>
      rw [hs] at h
      have := (step_facts cfg a a1 e hs).1 (hno e (by simp))
      exact ih a1 m h (by rw [this]; exact ht) (fun x hx => hno x (by simp [hx]))

theorem run_authed {cfg : Cfg} : ∀ (evs : List Ev) (a m : A), run cfg a evs = .ok m → a.authed = true →
    (∀ e ∈ evs, endsSession e = false) → m.authed = true := by
  intro evs
  induction evs with
  | nil => intro a m h ht _; simp only [run] at h; cases h; exact ht
  | cons e t ih =>
    intro a m h ht hno
    simp only [run] at h
    cases hs : step cfg a e with
    | error r => rw [hs] at h; cases h
    | ok a1 =>
      rw [hs] at h
      exact ih a1 m h ((step_facts cfg a a1 e hs).2.1 (hno e (by simp)) ht) (fun x hx => hno x (by simp [hx]))

/-- on a connection that never becomes secure and does not allow insecure authentication, an accepted trace has
    no `Auth` call and no SASL step at all -/
theorem accepted_insecure_no_auth {cfg : Cfg} {a m : A} {evs : List Ev} (h : run cfg a evs = .ok m)
    (hins : cfg.insecureAuth = false) (htls : a.tls = false) (hno : ∀ e ∈ evs, isTlsUp e = false) :
    ∀ e ∈ evs, isAuthEv e = false := by
  intro e he
  obtain ⟨pre, post, rfl⟩ := List.append_of_mem he
  obtain ⟨a1, a2, h1, h2, _⟩ := run_split h
  have ht1 : a1.tls = false := run_tls_false pre a a1 h1 htls (fun x hx => hno x (by simp [hx]))
  cases hb : isAuthEv e with
  | false => rfl
  | true =>
    have := ((step_facts cfg a1 a2 e h2).2.2.1 hb).1
    simp [ht1, hins] at this

/-- after a successful exchange, an accepted trace has no further `Auth` call or SASL step until the session ends -/
theorem accepted_auth_once {cfg : Cfg} {a m : A} {pre mid post : List Ev} {e1 e2 : Ev}
    (h : run cfg a (pre ++ e1 :: (mid ++ e2 :: post)) = .ok m)
    (h1 : isAuthSuccess e1 = true) (h2 : isAuthEv e2 = true) : ∃ e ∈ mid, endsSession e = true := by
  obtain ⟨a1, a2, _, hs1, hrest⟩ := run_split h
  obtain ⟨a3, a4, hmid, hs2, _⟩ := run_split hrest
  have hau : a2.authed = true := (step_facts cfg a1 a2 e1 hs1).2.2.2 h1
  by_cases hex : ∃ e ∈ mid, endsSession e = true
  · exact hex
  · exfalso
    have hall : ∀ e ∈ mid, endsSession e = false := by
      intro e he
      cases hb : endsSession e with
      | false => rfl
      | true => exact absurd ⟨e, he, hb⟩ hex
    have h3 : a3.authed = true := run_authed mid a2 a3 hmid hau hall
    have := ((step_facts cfg a3 a4 e2 hs2).2.2.1 h2).2
    rw [h3] at this; cases this

/-! ### after a successful STARTTLS (C10) -/

def usesSession : Ev → Bool
  | .mail .. | .rcpt .. | .dataBegin .. | .authMech .. | .sasl .. | .reset .. => true
  | _ => false

def isNs : Ev → Bool
  | .ns .. => true
  | _ => false

/-- no session may be used: there is none, or the one there is must be logged out first -/
def Stale (a : A) : Prop := a.live.isSome = true → a.upgrading = true

theorem step_stale (cfg : Cfg) (a a1 : A) (e : Ev) (h : step cfg a e = .ok a1) :
    (e = .tlsStart true → Stale a1 ∧ a1.tls = true) ∧
    (a.tls = true → a1.tls = true) ∧
    (∀ id helo tls r, e = .ns id helo tls r → tls = a.tls) ∧
    (Stale a → isNs e = false → Stale a1 ∧ usesSession e = false) := by
  have hc := core_of_step cfg a a1 e h
  have hb : blocked a e = false := by
    unfold step at h
    cases hbb : blocked a e with
    | false => rfl
    | true => rw [hbb] at h; simp at h
  unfold Stale
  cases e with
  | w bs => simp only [core] at hc; split at hc <;> cases hc; cases hl : a.live <;> simp_all [usesSession, isNs]
  | cmd l => simp only [core] at hc; split at hc <;> cases hc; cases hl : a.live <;> simp_all [usesSession, isNs]
  | panicLog => simp only [core] at hc; cases hc; simp_all [usesSession, isNs]
  | tlsStart ok =>
    simp only [core] at hc
    repeat' split at hc
    all_goals first
      | (cases hc; done)
      | (cases hc; simp_all [usesSession, isNs]; done)
      | (cases hc; cases hl : a.live <;> simp_all [usesSession, isNs])
  | close =>
    simp only [core] at hc
    repeat' split at hc
    all_goals first
      | (cases hc; done)
      | (cases hc; simp_all [usesSession, isNs])
  | sasl resp ch d r =>
    simp only [core] at hc
    repeat' split at hc
    all_goals first
      | (cases hc; done)
      | (cases hc; simp_all [usesSession, isNs]; done)
      | (cases hc; cases hl : a.live <;> simp_all [usesSession, isNs])
  | authMech id mech r =>
    simp only [core] at hc
    repeat' split at hc
    all_goals first
      | (cases hc; done)
      | (cases hc; simp_all [usesSession, isNs]; done)
      | (cases hc; cases hl : a.live <;> simp_all [usesSession, isNs])
  | ns id helo tls r =>
    simp only [core] at hc
    repeat' split at hc
    all_goals first
      | (cases hc; done)
      | (cases hc; simp_all [usesSession, isNs])
  | logout id =>
    simp only [core] at hc
    repeat' split at hc
    all_goals first
      | (cases hc; done)
      | (cases hc; simp_all [usesSession, isNs])
  | reset id =>
    simp only [core] at hc
    repeat' split at hc
    all_goals first
      | (cases hc; done)
      | (cases hc; simp_all [usesSession, isNs]; done)
      | (cases hc; cases hl : a.live <;> simp_all [usesSession, isNs])
  | mail id f o r =>
    simp only [core] at hc
    repeat' split at hc
    all_goals first
      | (cases hc; done)
      | (cases hc; simp_all [usesSession, isNs]; done)
      | (cases hc; cases hl : a.live <;> simp_all [usesSession, isNs])
  | rcpt id t o r =>
    simp only [core] at hc
    repeat' split at hc
    all_goals first
      | (cases hc; done)
      | (cases hc; simp_all [usesSession, isNs]; done)
      | (cases hc; cases hl : a.live <;> simp_all [usesSession, isNs])
  | dataBegin id k =>
    simp only [core] at hc
    repeat' split at hc
    all_goals first
      | (cases hc; done)
      | (cases hc; simp_all [usesSession, isNs]; done)
      | (cases hc; cases hl : a.live <;> simp_all [usesSession, isNs])

theorem run_stale {cfg : Cfg} : ∀ (evs : List Ev) (a m : A), run cfg a evs = .ok m → Stale a → a.tls = true →
    (∀ e ∈ evs, isNs e = false) → Stale m ∧ m.tls = true ∧ ∀ e ∈ evs, usesSession e = false := by
  intro evs
  induction evs with
  | nil => intro a m h hs ht _; simp only [run] at h; cases h; exact ⟨hs, ht, by simp⟩
  | cons e t ih =>
    intro a m h hs ht hno
    simp only [run] at h
    cases hst : step cfg a e with
    | error r => rw [hst] at h; cases h
    | ok a1 =>
      rw [hst] at h
      obtain ⟨_, f2, _, f4⟩ := step_stale cfg a a1 e hst
      obtain ⟨g1, g2⟩ := f4 hs (hno e (by simp))
      obtain ⟨i1, i2, i3⟩ := ih a1 m h g1 (f2 ht) (fun x hx => hno x (by simp [hx]))
      refine ⟨i1, i2, ?_⟩
      intro x hx
      rcases List.mem_cons.mp hx with rfl | hx
      · exact g2
      · exact i3 x hx

/-- after a successful STARTTLS an accepted trace uses no session until a new one has been created -/
theorem accepted_upgrade_discards {cfg : Cfg} {a m : A} {pre mid post : List Ev} {e : Ev}
    (h : run cfg a (pre ++ .tlsStart true :: (mid ++ e :: post)) = .ok m) (hu : usesSession e = true) :
    ∃ x ∈ mid, isNs x = true := by
  obtain ⟨a1, a2, _, hs1, hrest⟩ := run_split h
  obtain ⟨hst, htls⟩ := (step_stale cfg a1 a2 _ hs1).1 rfl
  by_cases hex : ∃ x ∈ mid, isNs x = true
  · exact hex
  · exfalso
    have hall : ∀ x ∈ mid ++ [e], isNs x = false := by
      intro x hx
      rcases List.mem_append.mp hx with hx | hx
      · cases hb : isNs x with
        | false => rfl
        | true => exact absurd ⟨x, hx, hb⟩ hex
      · simp only [List.mem_singleton] at hx; subst hx
        cases x <;> simp_all [usesSession, isNs]
    have hrest' : run cfg a2 ((mid ++ [e]) ++ post) = .ok m := by simpa using hrest
    rw [run_append] at hrest'
    cases hr : run cfg a2 (mid ++ [e]) with
    | error r => rw [hr] at hrest'; cases hrest'
    | ok a3 =>
      have := (run_stale (mid ++ [e]) a2 a3 hr hst htls hall).2.2 e (by simp)
      rw [hu] at this; cases this

theorem run_tls_true {cfg : Cfg} : ∀ (evs : List Ev) (a m : A), run cfg a evs = .ok m → a.tls = true → m.tls = true := by
  intro evs
  induction evs with
  | nil => intro a m h ht; simp only [run] at h; cases h; exact ht
  | cons x t ih =>
    intro a m h ht
    simp only [run] at h
    cases hst : step cfg a x with
    | error r => rw [hst] at h; cases h
    | ok b => rw [hst] at h; exact ih b m h ((step_stale cfg a b x hst).2.1 ht)

/-- the first session created after a successful STARTTLS sees the TLS state -/
theorem accepted_ns_sees_tls {cfg : Cfg} {a m : A} {pre mid post : List Ev} {id : Nat} {helo : Bytes} {tls : Bool} {r : BRes}
    (h : run cfg a (pre ++ .tlsStart true :: (mid ++ .ns id helo tls r :: post)) = .ok m) : tls = true := by
  obtain ⟨a1, a2, _, hs1, hrest⟩ := run_split h
  obtain ⟨_, htls⟩ := (step_stale cfg a1 a2 _ hs1).1 rfl
  obtain ⟨a3, a4, hmid, hs2, _⟩ := run_split hrest
  have h3 : a3.tls = true := run_tls_true mid a2 a3 hmid htls
  rw [(step_stale cfg a3 a4 _ hs2).2.2.1 id helo tls r rfl, h3]

end SmtpV.Spec.Order
