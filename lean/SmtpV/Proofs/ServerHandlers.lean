import SmtpV.Proofs.ServerInv
/-!
Every handler of the server model preserves the invariant `Good` (and the configuration).
-/
namespace SmtpV.Server
open SmtpV SmtpV.Spec SmtpV.Spec.Order SmtpV.Reply

theorem shape_of {c c' : Conn} (h : Shape c) (h1 : c'.closed = c.closed) (h2 : c'.session = c.session)
    (h3 : c'.fromReceived = c.fromReceived) (h4 : c'.bdat = c.bdat) (h5 : c'.recipients = c.recipients)
    (h6 : c'.didAuth = c.didAuth) : Shape c' := by
  constructor
  · rw [h1, h2]; exact h.closedSess
  · rw [h1, h2, h3]; exact h.fromSess
  · rw [h1, h3, h4]; exact h.bdatFrom
  · rw [h1, h2, h5, h6]; exact h.idle

/-- the pair "invariant and configuration" that every operation carries along -/
def Keeps (a0 : A) (s s' : S) : Prop := Good a0 s' ∧ s'.cfg = s.cfg

theorem Keeps.refl {a0 : A} {s : S} (h : Good a0 s) : Keeps a0 s s := ⟨h, rfl⟩
theorem Keeps.trans {a0 : A} {s s' s'' : S} (h1 : Keeps a0 s s') (h2 : Keeps a0 s' s'') : Keeps a0 s s'' :=
  ⟨h2.1, h2.2.trans h1.2⟩

theorem keeps_reply {a0 : A} {s : S} (h : Good a0 s) (code : Nat) (enh : Enh) (t : String) :
    Keeps a0 s (reply s code enh t) := ⟨reply_good h _ _ _, by simp⟩
theorem keeps_replyB {a0 : A} {s : S} (h : Good a0 s) (code : Nat) (enh : Enh) (t : List Bytes) :
    Keeps a0 s (replyB s code enh t) := ⟨replyB_good h _ _ _, by simp⟩
theorem keeps_write {a0 : A} {s : S} (h : Good a0 s) (bs : Bytes) : Keeps a0 s (write s bs) :=
  ⟨write_good h _, by simp⟩

/-! ### MAIL -/

@[simp] theorem setBinarymime_cfg (s : S) (b : Bool) : (setBinarymime s b).cfg = s.cfg := rfl
@[simp] theorem setBinarymime_evs (s : S) (b : Bool) : (setBinarymime s b).evs = s.evs := rfl
@[simp] theorem setBinarymime_abs (s : S) (b : Bool) : abs (setBinarymime s b).c = abs s.c := rfl
@[simp] theorem setBinarymime_session (s : S) (b : Bool) : (setBinarymime s b).c.session = s.c.session := rfl
@[simp] theorem setBinarymime_bdat (s : S) (b : Bool) : (setBinarymime s b).c.bdat = s.c.bdat := rfl
@[simp] theorem setBinarymime_closed (s : S) (b : Bool) : (setBinarymime s b).c.closed = s.c.closed := rfl

theorem setBinarymime_good {a0 : A} {s : S} (h : Good a0 s) (b : Bool) : Good a0 (setBinarymime s b) :=
  h.of_c rfl rfl rfl (shape_of h.shape rfl rfl rfl rfl rfl rfl)

theorem mailCall_keeps {a0 : A} {s : S} (h : Good a0 s) (id : Nat) (hid : s.c.session = some id)
    (hb : s.c.bdat = none) (frm : Bytes) (opts : MailOpts) : Keeps a0 s (mailCall s id frm opts).1 := by
  unfold mailCall
  have hsame := popMail_same s
  generalize popMail s = p at hsame
  obtain ⟨r, s1⟩ := p
  simp only at hsame ⊢
  have hg1 : Good a0 s1 := hsame.good h
  have hid1 : s1.c.session = some id := by rw [hsame.c]; exact hid
  have hb1 : s1.c.bdat = none := by rw [hsame.c]; exact hb
  have hcl1 : s1.c.closed = false := by
    cases hc : s1.c.closed with
    | false => rfl
    | true => have := hg1.shape.closedSess hc; rw [hid1] at this; cases this
  split
  · -- accepted
    refine ⟨replyB_good ?_ _ _ _, by simp [hsame.cfg]⟩
    refine hg1.extend [.mail id frm opts .ok] (by simp) (by simp) ?_ ?_
    · simp [Order.run, Order.step, abs, hid1, hb1]
    · exact ⟨hg1.shape.closedSess, fun _ _ => by simp [hid1], fun hh => by simp [hb1] at hh,
        fun _ hn => by simp [hid1] at hn⟩
  · refine ⟨?_, by simp [hsame.cfg]⟩
    refine hg1.extend [.mail id frm opts .panic] (by simp) (by simp) ?_ (by simpa using hg1.shape)
    simp [Order.run, Order.step, abs, hid1, hb1]
  · rename_i hne1 hne2
    refine ⟨write_good ?_ _, by simp [hsame.cfg]⟩
    refine hg1.extend [.mail id frm opts r] (by simp) (by simp) ?_ (by simpa using hg1.shape)
    have hr : (r == BRes.ok) = false := by
      cases r <;> simp_all
    simp [Order.run, Order.step, abs, hid1, hb1, hr]

theorem handleMail_keeps {a0 : A} {s : S} (h : Good a0 s) (arg : Bytes) : Keeps a0 s (handleMail s arg).1 := by
  unfold handleMail
  split
  · exact keeps_reply h _ _ _
  split
  · exact keeps_reply h _ _ _
  rename_i hb
  have hb : s.c.bdat = none := by simpa using hb
  split
  · exact keeps_reply h _ _ _
  split
  · exact keeps_reply h _ _ _
  split
  · exact keeps_reply h _ _ _
  split
  · exact (Keeps.trans ⟨setBinarymime_good h false, rfl⟩ (keeps_reply (setBinarymime_good h false) _ _ _))
  split
  · exact ⟨setBinarymime_good h _, rfl⟩
  · rename_i id hid
    exact Keeps.trans ⟨setBinarymime_good h _, rfl⟩
      (mailCall_keeps (setBinarymime_good h _) id (by simpa using hid) (by simpa using hb) _ _)

/-! ### HELO / EHLO / LHLO -/

@[simp] theorem setHelo_cfg (s : S) (d : Bytes) : (setHelo s d).cfg = s.cfg := rfl
@[simp] theorem setHelo_evs (s : S) (d : Bytes) : (setHelo s d).evs = s.evs := rfl
@[simp] theorem setHelo_session (s : S) (d : Bytes) : (setHelo s d).c.session = s.c.session := rfl
@[simp] theorem setHelo_closed (s : S) (d : Bytes) : (setHelo s d).c.closed = s.c.closed := rfl

theorem setHelo_good {a0 : A} {s : S} (h : Good a0 s) (d : Bytes) : Good a0 (setHelo s d) :=
  h.of_c rfl rfl rfl (shape_of h.shape rfl rfl rfl rfl rfl rfl)

theorem greetReply_keeps {a0 : A} {s : S} (h : Good a0 s) (e : Bool) (d : Bytes) : Keeps a0 s (greetReply s e d) := by
  unfold greetReply; split <;> exact keeps_replyB h _ _ _

theorem parseHello_ne (arg d : Bytes) (h : Parse.parseHelloArgument arg = some d) : d.isEmpty = false := by
  unfold Parse.parseHelloArgument at h
  simp only [] at h
  cases hi : Text.indexByte arg SP with
  | none =>
    simp only [hi] at h
    by_cases hc : arg.isEmpty = true
    · simp [hc] at h
    · simp only [hc, Bool.false_eq_true, if_false, Option.some.injEq] at h
      subst h; simpa using hc
  | some i =>
    simp only [hi] at h
    by_cases hc : (arg.take i).isEmpty = true
    · simp [hc] at h
    · simp only [hc, Bool.false_eq_true, if_false, Option.some.injEq] at h
      subst h; simpa using hc

theorem newSession_keeps {a0 : A} {s : S} (h : Good a0 s) (hcl : s.c.closed = false) (hs : s.c.session = none)
    (d : Bytes) (hd : d.isEmpty = false) : Keeps a0 s (newSession s d).1 := by
  unfold newSession
  have hsame := popNs_same s
  generalize popNs s = p at hsame
  obtain ⟨r, s1⟩ := p
  simp only at hsame ⊢
  have hg1 : Good a0 s1 := hsame.good h
  have hcl1 : s1.c.closed = false := by rw [hsame.c]; exact hcl
  have hs1 : s1.c.session = none := by rw [hsame.c]; exact hs
  refine ⟨?_, by simp [hsame.cfg]⟩
  refine hg1.extend [.ns s1.c.nextSess d s1.c.tls r] (by simp) (by simp) ?_ ?_
  · by_cases hr : (r == BRes.ok) = true
    · have hidle := hg1.shape.idle hcl1 hs1
      have hfr : s1.c.fromReceived = false := by
        cases hf : s1.c.fromReceived with
        | false => rfl
        | true => have := hg1.shape.fromSess hcl1 hf; simp [hs1] at this
      have hbd : s1.c.bdat = none := by
        cases hb : s1.c.bdat with
        | none => rfl
        | some k => have := hg1.shape.bdatFrom (by simp [hb]); simp [hfr] at this
      simp [Order.run, Order.step, abs, hcl1, hs1, hd, hr, hidle.1, hidle.2, hfr, hbd]
    · have hr' : (r == BRes.ok) = false := by simpa using hr
      simp [Order.run, Order.step, abs, hcl1, hs1, hd, hr']
  · simp only [emit_c]
    have hidle := hg1.shape.idle hcl1 hs1
    have hfr : s1.c.fromReceived = false := by
      cases hf : s1.c.fromReceived with
      | false => rfl
      | true => have := hg1.shape.fromSess hcl1 hf; simp [hs1] at this
    refine ⟨fun hc => by simp [hcl1] at hc, fun _ hf => by simp [hfr] at hf, fun hbd => ?_, fun _ hn => ?_⟩
    · have := hg1.shape.bdatFrom (by simpa using hbd); simp [hfr] at this
    · exact ⟨hidle.1, hidle.2⟩

theorem handleGreet_keeps {a0 : A} {s : S} (h : Good a0 s) (hcl : s.c.closed = false) (e : Bool) (arg : Bytes) :
    Keeps a0 s (handleGreet s e arg).1 := by
  unfold handleGreet
  split
  · exact keeps_reply h _ _ _
  · rename_i d hd
    have hne := parseHello_ne arg d hd
    have h1 := setHelo_good h d
    simp only []
    split
    · -- a session exists: the greeting resets the transaction
      have h2 := resetConn_good h1
      exact Keeps.trans ⟨h2.1, by simp [h2.2]⟩ (greetReply_keeps h2.1 _ _)
    · rename_i hs
      have hk := newSession_keeps h1 (by simpa using hcl) (by simpa using hs) d hne
      generalize newSession (setHelo s d) d = p at hk ⊢
      obtain ⟨s2, r⟩ := p
      simp only at hk ⊢
      have hk' : Keeps a0 s s2 := ⟨hk.1, by simpa using hk.2⟩
      split
      · exact Keeps.trans hk' (greetReply_keeps hk.1 _ _)
      · exact hk'
      · exact Keeps.trans hk' (Keeps.trans ⟨setHelo_good hk.1 [], rfl⟩ (keeps_write (setHelo_good hk.1 []) _))

end SmtpV.Server
