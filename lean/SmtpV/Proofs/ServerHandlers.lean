import SmtpV.Proofs.ServerInv
/-!
Every handler of the server model preserves the invariant `Good`.
-/
namespace SmtpV.Server
open SmtpV SmtpV.Spec SmtpV.Spec.Order SmtpV.Reply

theorem shape_of {c c' : Conn} (h : Shape c) (h1 : c'.closed = c.closed) (h2 : c'.session = c.session)
    (h3 : c'.fromReceived = c.fromReceived) (h4 : c'.bdat = c.bdat) : Shape c' := by
  constructor
  · rw [h1, h2]; exact h.closedSess
  · rw [h1, h2, h3]; exact h.fromSess
  · rw [h1, h3, h4]; exact h.bdatFrom

/-! ### MAIL -/

theorem handleMail_good {a0 : A} {s : S} (h : Good a0 s) (hcl : s.c.closed = false) (arg : Bytes) :
    Good a0 (handleMail s arg).1 ∧ (handleMail s arg).1.cfg = s.cfg := by
  unfold handleMail
  split
  · exact ⟨reply_good h _ _ _, by simp⟩
  split
  · exact ⟨reply_good h _ _ _, by simp⟩
  split
  · exact ⟨reply_good h _ _ _, by simp⟩
  split
  · exact ⟨reply_good h _ _ _, by simp⟩
  split
  · exact ⟨reply_good h _ _ _, by simp⟩
  have hb : s.c.bdat = none := by simp_all
  have h0 : Good a0 { s with c := { s.c with binarymime := false } } :=
    h.of_c rfl rfl rfl (shape_of h.shape rfl rfl rfl rfl)
  dsimp only
  split
  · exact ⟨reply_good h0 _ _ _, by simp⟩
  rename_i opts bm _
  have h1 : Good a0 { s with c := { s.c with binarymime := bm } } :=
    h.of_c rfl rfl rfl (shape_of h.shape rfl rfl rfl rfl)
  split
  · exact ⟨h1, rfl⟩
  rename_i id hid
  generalize hs2 : ({ s with c := { s.c with binarymime := bm } } : S) = s2 at h1 hid ⊢
  have hc2 : s2.c.closed = false := by rw [← hs2]; exact hcl
  have hb2 : s2.c.bdat = none := by rw [← hs2]; exact hb
  have hcfg2 : s2.cfg = s.cfg := by rw [← hs2]
  have hsame := popMail_same s2
  generalize popMail s2 = p at hsame
  obtain ⟨r, s1⟩ := p
  simp only at hsame ⊢
  split
  · -- accepted
    refine ⟨replyB_good ?_ _ _ _, by simp [hsame.cfg, hcfg2]⟩
    refine h1.extend [.mail id _ _ .ok] (by simp [hsame.cfg]) (by simp [hsame.evs]) ?_ ?_
    · simp [Order.run, Order.step, abs, hid, hb2, hsame.c]
    · simp only [emit_c, hsame.c]
      exact ⟨h1.shape.closedSess, fun _ _ => by simp [hid], fun hh => by simp [hb2] at hh⟩
  · refine ⟨?_, by simp [hsame.cfg, hcfg2]⟩
    refine h1.extend [.mail id _ _ .panic] (by simp [hsame.cfg]) (by simp [hsame.evs]) ?_ (by simpa [hsame.c] using h1.shape)
    simp [Order.run, Order.step, abs, hid, hb2, hsame.c]
  · refine ⟨write_good ?_ _, by simp [hsame.cfg, hcfg2]⟩
    refine h1.extend [.mail id _ _ r] (by simp [hsame.cfg]) (by simp [hsame.evs]) ?_ (by simpa [hsame.c] using h1.shape)
    have hr : r ≠ .ok := by simp_all
    simp [Order.run, Order.step, abs, hid, hb2, hsame.c, hr]

end SmtpV.Server
