import SmtpV.Proofs.ServerInv
/-!
Every handler of the server model preserves the invariant `Good` (and the configuration).
-/
namespace SmtpV.Server
open SmtpV SmtpV.Spec SmtpV.Spec.Order SmtpV.Reply

theorem shape_of {c c' : Conn} (h : Shape c) (h1 : c'.closed = c.closed) (h2 : c'.session = c.session)
    (h3 : c'.fromReceived = c.fromReceived) (h4 : c'.bdat = c.bdat) (h5 : c'.recipients = c.recipients)
    (h6 : c'.didAuth = c.didAuth) : Shape c' := by
  constructor
  · rw [h1, h2]; exact h.closedSess
  · rw [h1, h2, h3]; exact h.fromSess
  · rw [h1, h3, h4]; exact h.bdatFrom
  · rw [h1, h2, h5, h6]; exact h.idle

/-- the pair "invariant and configuration" that every operation carries along -/
def Keeps (a0 : A) (s s' : S) : Prop := Good a0 s' ∧ s'.cfg = s.cfg

theorem Keeps.refl {a0 : A} {s : S} (h : Good a0 s) : Keeps a0 s s := ⟨h, rfl⟩
theorem Keeps.trans {a0 : A} {s s' s'' : S} (h1 : Keeps a0 s s') (h2 : Keeps a0 s' s'') : Keeps a0 s s'' :=
  ⟨h2.1, h2.2.trans h1.2⟩

theorem keeps_reply {a0 : A} {s : S} (h : Good a0 s) (code : Nat) (enh : Enh) (t : String) :
    Keeps a0 s (reply s code enh t) := ⟨reply_good h _ _ _, by simp⟩
theorem keeps_replyB {a0 : A} {s : S} (h : Good a0 s) (code : Nat) (enh : Enh) (t : List Bytes) :
    Keeps a0 s (replyB s code enh t) := ⟨replyB_good h _ _ _, by simp⟩
theorem keeps_write {a0 : A} {s : S} (h : Good a0 s) (bs : Bytes) : Keeps a0 s (write s bs) :=
  ⟨write_good h _, by simp⟩

/-! ### MAIL -/

@[simp] theorem setBinarymime_cfg (s : S) (b : Bool) : (setBinarymime s b).cfg = s.cfg := rfl
@[simp] theorem setBinarymime_evs (s : S) (b : Bool) : (setBinarymime s b).evs = s.evs := rfl
@[simp] theorem setBinarymime_abs (s : S) (b : Bool) : abs (setBinarymime s b).c = abs s.c := rfl
@[simp] theorem setBinarymime_session (s : S) (b : Bool) : (setBinarymime s b).c.session = s.c.session := rfl
@[simp] theorem setBinarymime_bdat (s : S) (b : Bool) : (setBinarymime s b).c.bdat = s.c.bdat := rfl
@[simp] theorem setBinarymime_closed (s : S) (b : Bool) : (setBinarymime s b).c.closed = s.c.closed := rfl

theorem setBinarymime_good {a0 : A} {s : S} (h : Good a0 s) (b : Bool) : Good a0 (setBinarymime s b) :=
  h.of_c rfl rfl rfl (shape_of h.shape rfl rfl rfl rfl rfl rfl)

theorem mailCall_keeps {a0 : A} {s : S} (h : Good a0 s) (id : Nat) (hid : s.c.session = some id)
    (hb : s.c.bdat = none) (frm : Bytes) (opts : MailOpts) : Keeps a0 s (mailCall s id frm opts).1 := by
  unfold mailCall
  have hsame := popMail_same s
  generalize popMail s = p at hsame
  obtain ⟨r, s1⟩ := p
  simp only at hsame ⊢
  have hg1 : Good a0 s1 := hsame.good h
  have hid1 : s1.c.session = some id := by rw [hsame.c]; exact hid
  have hb1 : s1.c.bdat = none := by rw [hsame.c]; exact hb
  have hcl1 : s1.c.closed = false := by
    cases hc : s1.c.closed with
    | false => rfl
    | true => have := hg1.shape.closedSess hc; rw [hid1] at this; cases this
  split
  · -- accepted
    refine ⟨replyB_good ?_ _ _ _, by simp [hsame.cfg]⟩
    refine hg1.extend [.mail id frm opts .ok] (by simp) (by simp) ?_ ?_
    · simp [Order.run, Order.step, abs, hid1, hb1]
    · exact ⟨hg1.shape.closedSess, fun _ _ => by simp [hid1], fun hh => by simp [hb1] at hh,
        fun _ hn => by simp [hid1] at hn⟩
  · refine ⟨?_, by simp [hsame.cfg]⟩
    refine hg1.extend [.mail id frm opts .panic] (by simp) (by simp) ?_ (by simpa using hg1.shape)
    simp [Order.run, Order.step, abs, hid1, hb1]
  · rename_i hne1 hne2
    refine ⟨write_good ?_ _, by simp [hsame.cfg]⟩
    refine hg1.extend [.mail id frm opts r] (by simp) (by simp) ?_ (by simpa using hg1.shape)
    have hr : (r == BRes.ok) = false := by
      cases r <;> simp_all
    simp [Order.run, Order.step, abs, hid1, hb1, hr]

theorem handleMail_keeps {a0 : A} {s : S} (h : Good a0 s) (arg : Bytes) : Keeps a0 s (handleMail s arg).1 := by
  unfold handleMail
  split
  · exact keeps_reply h _ _ _
  split
  · exact keeps_reply h _ _ _
  rename_i hb
  have hb : s.c.bdat = none := by simpa using hb
  split
  · exact keeps_reply h _ _ _
  split
  · exact keeps_reply h _ _ _
  split
  · exact keeps_reply h _ _ _
  split
  · exact (Keeps.trans ⟨setBinarymime_good h false, rfl⟩ (keeps_reply (setBinarymime_good h false) _ _ _))
  split
  · exact ⟨setBinarymime_good h _, rfl⟩
  · rename_i id hid
    exact Keeps.trans ⟨setBinarymime_good h _, rfl⟩
      (mailCall_keeps (setBinarymime_good h _) id (by simpa using hid) (by simpa using hb) _ _)

/-! ### HELO / EHLO / LHLO -/

@[simp] theorem setHelo_cfg (s : S) (d : Bytes) : (setHelo s d).cfg = s.cfg := rfl
@[simp] theorem setHelo_evs (s : S) (d : Bytes) : (setHelo s d).evs = s.evs := rfl
@[simp] theorem setHelo_session (s : S) (d : Bytes) : (setHelo s d).c.session = s.c.session := rfl
@[simp] theorem setHelo_closed (s : S) (d : Bytes) : (setHelo s d).c.closed = s.c.closed := rfl

theorem setHelo_good {a0 : A} {s : S} (h : Good a0 s) (d : Bytes) : Good a0 (setHelo s d) :=
  h.of_c rfl rfl rfl (shape_of h.shape rfl rfl rfl rfl rfl rfl)

theorem greetReply_keeps {a0 : A} {s : S} (h : Good a0 s) (e : Bool) (d : Bytes) : Keeps a0 s (greetReply s e d) := by
  unfold greetReply; split <;> exact keeps_replyB h _ _ _

theorem parseHello_ne (arg d : Bytes) (h : Parse.parseHelloArgument arg = some d) : d.isEmpty = false := by
  unfold Parse.parseHelloArgument at h
  simp only [] at h
  cases hi : Text.indexByte arg SP with
  | none =>
    simp only [hi] at h
    by_cases hc : arg.isEmpty = true
    · simp [hc] at h
    · simp only [hc, Bool.false_eq_true, if_false, Option.some.injEq] at h
      subst h; simpa using hc
  | some i =>
    simp only [hi] at h
    by_cases hc : (arg.take i).isEmpty = true
    · simp [hc] at h
    · simp only [hc, Bool.false_eq_true, if_false, Option.some.injEq] at h
      subst h; simpa using hc

theorem newSession_keeps {a0 : A} {s : S} (h : Good a0 s) (hcl : s.c.closed = false) (hs : s.c.session = none)
    (d : Bytes) (hd : d.isEmpty = false) : Keeps a0 s (newSession s d).1 := by
  unfold newSession
  have hsame := popNs_same s
  generalize popNs s = p at hsame
  obtain ⟨r, s1⟩ := p
  simp only at hsame ⊢
  have hg1 : Good a0 s1 := hsame.good h
  have hcl1 : s1.c.closed = false := by rw [hsame.c]; exact hcl
  have hs1 : s1.c.session = none := by rw [hsame.c]; exact hs
  refine ⟨?_, by simp [hsame.cfg]⟩
  refine hg1.extend [.ns s1.c.nextSess d s1.c.tls r] (by simp) (by simp) ?_ ?_
  · by_cases hr : (r == BRes.ok) = true
    · have hidle := hg1.shape.idle hcl1 hs1
      have hfr : s1.c.fromReceived = false := by
        cases hf : s1.c.fromReceived with
        | false => rfl
        | true => have := hg1.shape.fromSess hcl1 hf; simp [hs1] at this
      have hbd : s1.c.bdat = none := by
        cases hb : s1.c.bdat with
        | none => rfl
        | some k => have := hg1.shape.bdatFrom (by simp [hb]); simp [hfr] at this
      simp [Order.run, Order.step, abs, hcl1, hs1, hd, hr, hidle.1, hidle.2, hfr, hbd]
    · have hr' : (r == BRes.ok) = false := by simpa using hr
      simp [Order.run, Order.step, abs, hcl1, hs1, hd, hr']
  · simp only [emit_c]
    have hidle := hg1.shape.idle hcl1 hs1
    have hfr : s1.c.fromReceived = false := by
      cases hf : s1.c.fromReceived with
      | false => rfl
      | true => have := hg1.shape.fromSess hcl1 hf; simp [hs1] at this
    refine ⟨fun hc => by simp [hcl1] at hc, fun _ hf => by simp [hfr] at hf, fun hbd => ?_, fun _ hn => ?_⟩
    · have := hg1.shape.bdatFrom (by simpa using hbd); simp [hfr] at this
    · exact ⟨hidle.1, hidle.2⟩

theorem handleGreet_keeps {a0 : A} {s : S} (h : Good a0 s) (hcl : s.c.closed = false) (e : Bool) (arg : Bytes) :
    Keeps a0 s (handleGreet s e arg).1 := by
  unfold handleGreet
  split
  · exact keeps_reply h _ _ _
  · rename_i d hd
    have hne := parseHello_ne arg d hd
    have h1 := setHelo_good h d
    simp only []
    split
    · -- a session exists: the greeting resets the transaction
      have h2 := resetConn_good h1
      exact Keeps.trans ⟨h2.1, by simp [h2.2]⟩ (greetReply_keeps h2.1 _ _)
    · rename_i hs
      have hk := newSession_keeps h1 (by simpa using hcl) (by simpa using hs) d hne
      generalize newSession (setHelo s d) d = p at hk ⊢
      obtain ⟨s2, r⟩ := p
      simp only at hk ⊢
      have hk' : Keeps a0 s s2 := ⟨hk.1, by simpa using hk.2⟩
      split
      · exact Keeps.trans hk' (greetReply_keeps hk.1 _ _)
      · exact hk'
      · exact Keeps.trans hk' (Keeps.trans ⟨setHelo_good hk.1 [], rfl⟩ (keeps_write (setHelo_good hk.1 []) _))

/-! ### AUTH -/

theorem connReadLine_same (s : S) : Same s (connReadLine s).1 := ⟨rfl, rfl, rfl⟩

theorem closed_false_of_session {a0 : A} {s : S} (h : Good a0 s) {id : Nat} (hid : s.c.session = some id) :
    s.c.closed = false := by
  cases hc : s.c.closed with
  | false => rfl
  | true => have := h.shape.closedSess hc; rw [hid] at this; cases this

theorem ev_sasl {a0 : A} {s1 : S} (hg1 : Good a0 s1) {id : Nat} (hid1 : s1.c.session = some id)
    (hda1 : s1.c.didAuth = false) (hal1 : (s1.c.tls || s1.cfg.insecureAuth) = true)
    (resp : Option Bytes) (ch : Bytes) (done : Bool) (r : BRes) :
    ((done && r == BRes.ok) = false → Good a0 (emit s1 (.sasl resp ch done r))) ∧
    ((done && r == BRes.ok) = true →
      Good a0 { emit s1 (.sasl resp ch done r) with c := { s1.c with didAuth := true } }) := by
  constructor
  · intro hd
    refine hg1.extend [.sasl resp ch done r] rfl rfl ?_ (by simpa using hg1.shape)
    simp [Order.run, Order.step, abs, hid1, hda1, hal1, hd]
  · intro hd
    refine hg1.extend [.sasl resp ch done r] rfl rfl ?_ ?_
    · simp [Order.run, Order.step, abs, hid1, hda1, hal1, hd]
    · exact ⟨hg1.shape.closedSess, hg1.shape.fromSess, hg1.shape.bdatFrom, fun _ hn => by simp [hid1] at hn⟩

theorem saslLoop_keeps {a0 : A} (fuel : Nat) : ∀ {s : S}, Good a0 s → ∀ (id : Nat), s.c.session = some id →
    s.c.didAuth = false → authAllowed s = true → ∀ (resp : Option Bytes), Keeps a0 s (saslLoop fuel s resp).1 := by
  induction fuel with
  | zero => intro s h _ _ _ _ _; exact Keeps.refl h
  | succ fuel ih =>
    intro s h id hid hda hal resp
    unfold saslLoop
    have hsame := popSasl_same s
    generalize popSasl s = p at hsame
    obtain ⟨st, s1⟩ := p
    simp only at hsame ⊢
    have hg1 : Good a0 s1 := hsame.good h
    have hid1 : s1.c.session = some id := by rw [hsame.c]; exact hid
    have hda1 : s1.c.didAuth = false := by rw [hsame.c]; exact hda
    have hal1 : (s1.c.tls || s1.cfg.insecureAuth) = true := by
      have : authAllowed s1 = authAllowed s := by simp [authAllowed, hsame.c, hsame.cfg]
      simpa [authAllowed] using this.trans hal
    have hev := ev_sasl hg1 hid1 hda1 hal1 resp st.challenge st.done st.res
    have hcfg1 : s1.cfg = s.cfg := hsame.cfg
    split
    · -- the mechanism panics
      rename_i hres
      exact ⟨hev.1 (by simp [hres]), by simp [hcfg1]⟩
    · rename_i hres
      split
      · rename_i hdone
        have hg2 := hev.2 (by simp [hres, hdone])
        exact ⟨reply_good hg2 _ _ _, by simp [hcfg1]⟩
      · rename_i hdone
        have hg2 := hev.1 (by simp [hdone])
        have hg3 := replyB_good hg2 334 noEnh [if st.challenge.isEmpty then [] else b64Encode st.challenge]
        generalize hs3 : replyB (emit s1 (.sasl resp st.challenge st.done st.res)) 334 noEnh
          [if st.challenge.isEmpty then [] else b64Encode st.challenge] = s3 at hg3 ⊢
        have hc3 : s3.c = s1.c := by rw [← hs3]; simp
        have hcfg3 : s3.cfg = s.cfg := by rw [← hs3]; simp [hcfg1]
        have hsm := connReadLine_same s3
        generalize connReadLine s3 = q at hsm ⊢
        obtain ⟨s4, rl⟩ := q
        simp only at hsm ⊢
        have hg4 : Good a0 s4 := hsm.good hg3
        have hcfg4 : s4.cfg = s.cfg := hsm.cfg.trans hcfg3
        cases rl with
        | error e => exact ⟨hg4, hcfg4⟩
        | ok line =>
          simp only []
          split
          · exact ⟨reply_good hg4 _ _ _, by simp [hcfg4]⟩
          · split
            · exact ⟨reply_good hg4 _ _ _, by simp [hcfg4]⟩
            · rename_i r2 _
              have hk := ih hg4 id (by rw [hsm.c, hc3]; exact hid1) (by rw [hsm.c, hc3]; exact hda1)
                (by simp [authAllowed, hsm.c, hc3, hcfg4, ← hcfg1]; simpa [hcfg1] using hal1) (some r2)
              exact ⟨hk.1, hk.2.trans hcfg4⟩
    · rename_i hne1 hne2
      have hg2 := hev.1 (by
        cases hr : st.res <;> simp_all)
      exact ⟨write_good hg2 _, by simp [hcfg1]⟩

theorem handleAuth_keeps {a0 : A} {s : S} (h : Good a0 s) (arg : Bytes) : Keeps a0 s (handleAuth s arg).1 := by
  unfold handleAuth
  split
  · exact keeps_reply h _ _ _
  split
  · exact keeps_reply h _ _ _
  rename_i hda
  have hda : s.c.didAuth = false := by simpa using hda
  split
  · exact keeps_reply h _ _ _
  split
  · exact keeps_reply h _ _ _
  rename_i hal
  have hal : authAllowed s = true := by simpa using hal
  simp only []
  split
  · exact keeps_reply h _ _ _
  split
  · exact Keeps.refl h
  rename_i id hid
  split
  · exact keeps_write h _
  have hsame := popAuth_same s
  generalize popAuth s = p at hsame
  obtain ⟨r, s1⟩ := p
  simp only at hsame ⊢
  have hg1 : Good a0 s1 := hsame.good h
  have hid1 : s1.c.session = some id := by rw [hsame.c]; exact hid
  have hda1 : s1.c.didAuth = false := by rw [hsame.c]; exact hda
  have hal1 : (s1.c.tls || s1.cfg.insecureAuth) = true := by
    have : authAllowed s1 = authAllowed s := by simp [authAllowed, hsame.c, hsame.cfg]
    simpa [authAllowed] using this.trans hal
  have hg2 : ∀ m : Bytes, Good a0 (emit s1 (.authMech id m r)) := by
    intro m
    refine hg1.extend [.authMech id m r] rfl rfl ?_ (by simpa using hg1.shape)
    simp [Order.run, Order.step, abs, hid1, hda1, hal1]
  split
  · have hk : ∀ (f : Nat) (m : Bytes) (resp : Option Bytes),
        Keeps a0 (emit s1 (.authMech id m .ok)) (saslLoop f (emit s1 (.authMech id m .ok)) resp).1 :=
      fun f m resp => saslLoop_keeps (a0 := a0) f (hg2 m) id (by simpa using hid1) (by simpa using hda1)
        (by simpa [authAllowed] using hal1) resp
    exact ⟨(hk _ _ _).1, by rw [(hk _ _ _).2]; simp [hsame.cfg]⟩
  · exact ⟨hg2 _, by simp [hsame.cfg]⟩
  · exact ⟨write_good (hg2 _) _, by simp [hsame.cfg]⟩

/-! ### STARTTLS -/

theorem tlsUpgrade_c (s : S) :
    (tlsUpgrade s).c = { s.c with tls := true, session := none, helo := [], didAuth := false, bdat := none,
                                  bdatStatus := none, bytesReceived := 0, fromReceived := false, recipients := [] } ∧
    True ∧ True := by
  unfold tlsUpgrade
  obtain ⟨rc, _, _, _, _⟩ := resetConn_c (forgetGreeting (logoutSess (switchWire s)))
  obtain ⟨lc, _, _, _, _⟩ := logoutSess_c (switchWire s)
  have fc : (forgetGreeting (logoutSess (switchWire s))).c = { (logoutSess (switchWire s)).c with helo := [], didAuth := false } := rfl
  have sc : (switchWire s).c = { s.c with tls := true } := rfl
  exact ⟨by rw [rc, fc, lc, sc], trivial, trivial⟩

theorem tlsUpgrade_evs (s : S) :
    (tlsUpgrade s).cfg = s.cfg ∧
    ∃ n, (tlsUpgrade s).evs = panics n ++ (match s.c.session with | some id => [Ev.logout id] | none => []) ++ s.evs := by
  unfold tlsUpgrade resetConn
  obtain ⟨hc, hcfg, n, hev⟩ := abortBdat_spec (forgetGreeting (logoutSess (switchWire s)))
  have hsess : (abortBdat (forgetGreeting (logoutSess (switchWire s)))).c.session = none := by
    rw [hc]
    have := (logoutSess_c (switchWire s)).1
    simp [forgetGreeting, this]
  have hrs : resetSess (abortBdat (forgetGreeting (logoutSess (switchWire s)))) =
      abortBdat (forgetGreeting (logoutSess (switchWire s))) := by
    unfold resetSess; simp [hsess]
  rw [hrs]
  refine ⟨?_, n, ?_⟩
  · show (abortBdat (forgetGreeting (logoutSess (switchWire s)))).cfg = s.cfg
    rw [hcfg]
    unfold forgetGreeting logoutSess switchWire
    simp only []
    split <;> rfl
  · show (abortBdat (forgetGreeting (logoutSess (switchWire s)))).evs = _
    rw [hev]
    unfold forgetGreeting logoutSess switchWire
    simp only []
    cases s.c.session <;> simp

theorem handleStartTLS_keeps {a0 : A} {s : S} (h : Good a0 s) (hcl : s.c.closed = false) :
    Keeps a0 s (handleStartTLS s) := by
  unfold handleStartTLS
  split
  · exact keeps_reply h _ _ _
  rename_i htls
  have htls : s.c.tls = false := by simpa using htls
  split
  · exact keeps_reply h _ _ _
  rename_i hav
  have hav : s.cfg.tlsAvail = true := by simpa using hav
  have hg0 := reply_good h 220 ⟨2, 0, 0⟩ "Ready to start TLS"
  generalize hs0 : reply s 220 ⟨2, 0, 0⟩ "Ready to start TLS" = s0 at hg0 ⊢
  have hc0 : s0.c = s.c := by rw [← hs0]; simp
  have hcfg0 : s0.cfg = s.cfg := by rw [← hs0]; simp
  have hsame := popHs_same s0
  rcases hpq : popHs s0 with ⟨ok, s1⟩
  rw [hpq] at hsame
  simp only [hpq] at hsame ⊢
  have hg1 : Good a0 s1 := hsame.good hg0
  have hc1 : s1.c = s.c := hsame.c.trans hc0
  have hcfg1 : s1.cfg = s.cfg := hsame.cfg.trans hcfg0
  cases ok with
  | false =>
    simp (config := { failIfUnchanged := false }) only [Bool.not_false, if_true]
    refine ⟨reply_good ?_ _ _ _, by simp [hcfg1]⟩
    refine hg1.extend [.tlsStart false] rfl rfl ?_ (by simpa using hg1.shape)
    simp [Order.run, Order.step, abs, hc1, hcl, htls, hcfg1, hav]
  | true =>
    simp (config := { failIfUnchanged := false }) only [Bool.not_true, Bool.false_eq_true, if_false]
    obtain ⟨ucfg, n, uev⟩ := tlsUpgrade_evs (emit s1 (.tlsStart true))
    obtain ⟨uc, _, _⟩ := tlsUpgrade_c (emit s1 (.tlsStart true))
    have hcl1 : s1.c.closed = false := by rw [hc1]; exact hcl
    have htls1 : s1.c.tls = false := by rw [hc1]; exact htls
    have hav1 : s1.cfg.tlsAvail = true := by rw [hcfg1]; exact hav
    refine ⟨?_, by rw [ucfg]; simp [hcfg1]⟩
    have hshape : Shape (tlsUpgrade (emit s1 (.tlsStart true))).c := by
      rw [uc]
      exact ⟨fun hc => by simp [hcl1] at hc, fun _ hf => by simp at hf, fun hb => by simp at hb, fun _ _ => ⟨rfl, rfl⟩⟩
    cases hs : s1.c.session with
    | none =>
      refine hg1.extend ([.tlsStart true] ++ panics n) (by rw [ucfg]; rfl) ?_ ?_ hshape
      · rw [uev]; simp [hs, panics]
      · rw [Order.run_append]
        have h1 : Order.run s1.cfg (abs s1.c) [.tlsStart true] =
            .ok { abs s1.c with tls := true } := by
          simp [Order.run, Order.step, abs, hs, hcl1, htls1, hav1]
        rw [h1]
        simp only []
        rw [run_panics _ _ _ (by simp [abs])]
        rw [uc]
        simp [abs, hs]
    | some id =>
      refine hg1.extend ([.tlsStart true, .logout id] ++ panics n) (by rw [ucfg]; rfl) ?_ ?_ hshape
      · rw [uev]; simp [hs, panics]
      · rw [Order.run_append]
        have h1 : Order.run s1.cfg (abs s1.c) [.tlsStart true, .logout id] =
            .ok { abs s1.c with tls := true, live := none, upgrading := false, mailOk := false, nrcpt := 0,
                                transfer := false, authed := false } := by
          simp [Order.run, Order.step, abs, hs, hcl1, htls1, hav1]
        rw [h1]
        simp only []
        rw [run_panics _ _ _ rfl]
        rw [uc]
        simp [abs, hs]

/-! ### DATA: between the start of the backend call and the reset that ends the transaction the monitor is in
its "transfer" state although the connection's `bdat` field (chunked transfers only) is empty -/

structure GoodT (a0 : A) (s : S) : Prop where
  tr : Order.run s.cfg a0 s.evs.reverse = .ok { abs s.c with transfer := true }
  shape : Shape s.c
  sess : ∃ id, s.c.session = some id
  nobdat : s.c.bdat = none

theorem GoodT.closed {a0 : A} {s : S} (h : GoodT a0 s) : s.c.closed = false := by
  obtain ⟨id, hid⟩ := h.sess
  cases hc : s.c.closed with
  | false => rfl
  | true => have := h.shape.closedSess hc; rw [hid] at this; cases this

theorem GoodT.extend {a0 : A} {s s' : S} (h : GoodT a0 s) (new : List Ev)
    (hcfg : s'.cfg = s.cfg) (hev : s'.evs = new.reverse ++ s.evs)
    (hrun : Order.run s.cfg { abs s.c with transfer := true } new = .ok { abs s'.c with transfer := true })
    (hshape : Shape s'.c) (hsess : ∃ id, s'.c.session = some id) (hb : s'.c.bdat = none) : GoodT a0 s' := by
  refine ⟨?_, hshape, hsess, hb⟩
  rw [hcfg, hev, List.reverse_append, List.reverse_reverse, Order.run_append, h.tr]
  exact hrun

/-- changing fields neither the monitor nor the shape looks at -/
theorem GoodT.of_c {a0 : A} {s s' : S} (h : GoodT a0 s) (hcfg : s'.cfg = s.cfg) (hev : s'.evs = s.evs)
    (hc : s'.c = s.c) : GoodT a0 s' :=
  h.extend [] hcfg (by simp [hev]) (by simp [Order.run, hc]) (by rw [hc]; exact h.shape) (by rw [hc]; exact h.sess)
    (by rw [hc]; exact h.nobdat)

theorem write_goodT {a0 : A} {s : S} (h : GoodT a0 s) (bs : Bytes) : GoodT a0 (write s bs) := by
  have hc := h.closed
  refine h.extend [.w bs] (by simp) (by simp [write_evs, hc]) ?_ (by simpa using h.shape) (by simpa using h.sess)
    (by simpa using h.nobdat)
  simp [Order.run, Order.step, abs, hc]

theorem replyB_goodT {a0 : A} {s : S} (h : GoodT a0 s) (code : Nat) (enh : Enh) (t : List Bytes) :
    GoodT a0 (replyB s code enh t) := write_goodT h _

theorem panicLog_goodT {a0 : A} {s : S} (h : GoodT a0 s) : GoodT a0 (emit s .panicLog) := by
  refine h.extend [.panicLog] rfl rfl ?_ (by simpa using h.shape) (by simpa using h.sess) (by simpa using h.nobdat)
  simp [Order.run, Order.step, abs]

theorem writeLmtpStatuses_goodT {a0 : A} (sts : List (Bytes × BRes)) : ∀ {s : S}, GoodT a0 s →
    GoodT a0 (writeLmtpStatuses s sts) ∧ (writeLmtpStatuses s sts).cfg = s.cfg ∧ (writeLmtpStatuses s sts).c = s.c := by
  induction sts with
  | nil => intro s h; exact ⟨h, rfl, rfl⟩
  | cons x xs ih =>
    intro s h
    obtain ⟨a, r⟩ := x
    simp only [writeLmtpStatuses, List.foldl_cons] at ih ⊢
    have h1 := replyB_goodT h (dataStatus r).1 (dataStatus r).2.1 ["<".b ++ Text.printable a ++ "> ".b ++ (dataStatus r).2.2]
    obtain ⟨i1, i2, i3⟩ := ih h1
    exact ⟨i1, by rw [i2]; simp, by rw [i3]; simp⟩

theorem abortBdat_none (s : S) (h : s.c.bdat = none) : abortBdat s = s := by
  unfold abortBdat; simp [h]

@[simp] theorem setW_cfg (s : S) (w : Wire.W) : (setW s w).cfg = s.cfg := rfl
@[simp] theorem setW_c (s : S) (w : Wire.W) : (setW s w).c = s.c := rfl
@[simp] theorem setW_evs (s : S) (w : Wire.W) : (setW s w).evs = s.evs := rfl

@[simp] theorem resetConn_cfg (s : S) : (resetConn s).cfg = s.cfg := by
  unfold resetConn clearEnvelope resetSess
  have := (abortBdat_spec s).2.1
  split <;> simpa using this

@[simp] theorem closeConn_cfg (s : S) : (closeConn s).cfg = s.cfg := by
  unfold closeConn closeSock logoutSess
  have := (abortBdat_spec s).2.1
  split <;> split <;> simpa using this

@[simp] theorem writeLmtpStatuses_cfg (sts : List (Bytes × BRes)) : ∀ (s : S), (writeLmtpStatuses s sts).cfg = s.cfg := by
  induction sts with
  | nil => intro s; rfl
  | cons x xs ih =>
    intro s
    simp only [writeLmtpStatuses, List.foldl_cons] at ih ⊢
    rw [ih]; simp

theorem goodT_setW {a0 : A} {s : S} (h : GoodT a0 s) (w : Wire.W) : GoodT a0 (setW s w) := h.of_c rfl rfl rfl
theorem goodT_setDrec {a0 : A} {s : S} (h : GoodT a0 s) (k : Nat) (f : DRec → DRec) : GoodT a0 (setDrec s k f) :=
  h.of_c rfl rfl rfl

theorem writeLmtpStatuses_goodT' {a0 : A} {s : S} (h : GoodT a0 s) (sts : List (Bytes × BRes)) :
    GoodT a0 (writeLmtpStatuses s sts) := (writeLmtpStatuses_goodT sts h).1

/-- the reset that ends a synchronous transfer -/
theorem resetConn_of_goodT {a0 : A} {s : S} (h : GoodT a0 s) : Good a0 (resetConn s) := by
  obtain ⟨id, hid⟩ := h.sess
  have hc := h.closed
  unfold resetConn
  rw [abortBdat_none s h.nobdat]
  have e2 : resetSess s = emit s (.reset id) := by unfold resetSess; simp [hid]
  rw [e2]
  unfold clearEnvelope
  refine ⟨?_, ?_⟩
  · show Order.run s.cfg a0 ((Ev.reset id :: s.evs).reverse) = _
    rw [List.reverse_cons, Order.run_append, h.tr]
    simp [Order.run, Order.step, abs, hid, h.nobdat]
  · simp only [emit_c]
    exact ⟨h.shape.closedSess, fun _ hf => by simp at hf, fun hb => by simp [h.nobdat] at hb,
      fun _ hn => by simp [hid] at hn⟩

/-- `Close` during a synchronous transfer (a panic in an LMTP delivery) -/
theorem closeConn_of_goodT {a0 : A} {s : S} (h : GoodT a0 s) : Good a0 (closeConn s) := by
  obtain ⟨id, hid⟩ := h.sess
  have hc := h.closed
  unfold closeConn
  rw [abortBdat_none s h.nobdat]
  have e2 : logoutSess s = { emit s (.logout id) with c := { s.c with session := none } } := by
    unfold logoutSess; simp [hid]
  rw [e2]
  unfold closeSock
  simp only [hc, Bool.false_eq_true, if_false]
  refine ⟨?_, ?_⟩
  · show Order.run s.cfg a0 ((Ev.close :: Ev.logout id :: s.evs).reverse) = _
    rw [List.reverse_cons, List.reverse_cons, List.append_assoc, Order.run_append, h.tr]
    simp [Order.run, Order.step, abs, hid, hc]
  · simp only [emit_c]
    exact ⟨fun _ => rfl, fun hh => by simp at hh, fun hh => by simp [h.nobdat] at hh, fun hh => by simp at hh⟩

theorem dataFinishSmtp_keeps {a0 : A} {s : S} (h : GoodT a0 s) (k : Nat) (r1 : DataReader.DR) (octets : Bytes)
    (e : RdEnd) (dec : DataDec) : Keeps a0 s (dataFinishSmtp s k r1 octets e dec).1 := by
  unfold dataFinishSmtp
  simp only []
  split
  · exact ⟨resetConn_of_goodT (goodT_setDrec h _ _), by simp⟩
  · exact ⟨resetConn_of_goodT (replyB_goodT (goodT_setW (goodT_setDrec h _ _) _) _ _ _), by simp⟩

theorem dataFinishLmtpPlain_keeps {a0 : A} {s : S} (h : GoodT a0 s) (k : Nat) (r1 : DataReader.DR) (octets : Bytes)
    (e : RdEnd) (dec : DataDec) : Keeps a0 s (dataFinishLmtpPlain s k r1 octets e dec).1 := by
  unfold dataFinishLmtpPlain
  simp only []
  split
  · exact ⟨resetConn_of_goodT (goodT_setDrec h _ _), by simp⟩
  · exact ⟨resetConn_of_goodT (writeLmtpStatuses_goodT' (goodT_setW (goodT_setDrec h _ _) _) _), by simp⟩

theorem dataFinishLmtpSess_keeps {a0 : A} {s : S} (h : GoodT a0 s) (k : Nat) (r1 : DataReader.DR) (octets : Bytes)
    (e : RdEnd) (dec : DataDec) : Keeps a0 s (dataFinishLmtpSess s k r1 octets e dec).1 := by
  unfold dataFinishLmtpSess
  rcases hp : applyStatuses s.c.recipients dec.statuses [] with ⟨q, okCalls⟩
  cases okCalls with
  | false =>
    simp only [Bool.false_eq_true, if_false, beq_self_eq_true, if_true]
    exact ⟨(resetConn_good (closeConn_of_goodT (writeLmtpStatuses_goodT' (panicLog_goodT (goodT_setDrec h _ _)) _))).1,
      by simp⟩
  | true =>
    simp only [if_true]
    split
    · exact ⟨(resetConn_good (closeConn_of_goodT (writeLmtpStatuses_goodT' (panicLog_goodT (goodT_setDrec h _ _)) _))).1,
        by simp⟩
    · exact ⟨resetConn_of_goodT (writeLmtpStatuses_goodT' (goodT_setW (goodT_setDrec h _ _) _) _), by simp⟩

theorem dataSync_keeps {a0 : A} {s : S} (h : Good a0 s) (id : Nat) (hid : s.c.session = some id)
    (hfrom : s.c.fromReceived = true) (hr : s.c.recipients.isEmpty = false) (hb : s.c.bdat = none) :
    Keeps a0 s (dataSync s id).1 := by
  unfold dataSync
  have hsame := popData_same s
  rcases hpq : popData s with ⟨dec, s1⟩
  rw [hpq] at hsame
  have hg1 : Good a0 s1 := hsame.good h
  have hc1 : s1.c = s.c := hsame.c
  -- the call begins: the monitor enters its transfer state
  have hT : GoodT a0 (emit (beginData s1 id dec).1 (.dataBegin id (beginData s1 id dec).2)) := by
    refine ⟨?_, by simpa [beginData, hc1] using h.shape, ⟨id, by simp [beginData, hc1, hid]⟩, by simp [beginData, hc1, hb]⟩
    show Order.run s1.cfg a0 ((Ev.dataBegin id _ :: s1.evs).reverse) = _
    rw [List.reverse_cons, Order.run_append, hg1.tr]
    have hne : s.c.recipients.length ≠ 0 := by
      intro h0; have := List.length_eq_zero_iff.mp h0; simp [this] at hr
    simp [Order.run, Order.step, abs, beginData, hc1, hid, hfrom, hb, hne]
  have hcfg : (emit (beginData s1 id dec).1 (.dataBegin id (beginData s1 id dec).2)).cfg = s.cfg := by
    have : s1.cfg = s.cfg := hsame.cfg
    simp [beginData, this]
  simp only []
  split
  · exact ⟨(dataFinishSmtp_keeps (goodT_setW hT _) _ _ _ _ _).1,
      by rw [(dataFinishSmtp_keeps (goodT_setW hT _) _ _ _ _ _).2]; simpa using hcfg⟩
  · split
    · exact ⟨(dataFinishLmtpPlain_keeps (goodT_setW hT _) _ _ _ _ _).1,
        by rw [(dataFinishLmtpPlain_keeps (goodT_setW hT _) _ _ _ _ _).2]; simpa using hcfg⟩
    · exact ⟨(dataFinishLmtpSess_keeps (goodT_setW hT _) _ _ _ _ _).1,
        by rw [(dataFinishLmtpSess_keeps (goodT_setW hT _) _ _ _ _ _).2]; simpa using hcfg⟩

theorem handleData_keeps {a0 : A} {s : S} (h : Good a0 s) (arg : Bytes) : Keeps a0 s (handleData s arg).1 := by
  unfold handleData
  split
  · exact keeps_reply h _ _ _
  split
  · exact keeps_reply h _ _ _
  rename_i hb
  have hb : s.c.bdat = none := by simpa using hb
  split
  · exact keeps_reply h _ _ _
  split
  · exact keeps_reply h _ _ _
  rename_i hfr
  simp only [Bool.or_eq_true, Bool.not_eq_true', not_or, Bool.not_eq_false] at hfr
  have hg1 := reply_good h 354 noEnh "Go ahead. End your data with <CR><LF>.<CR><LF>"
  simp only []
  split
  · have hr := resetConn_good hg1
    exact ⟨hr.1, by rw [hr.2.2]; simp⟩
  · rename_i id hid
    have hk := dataSync_keeps hg1 id (by simpa using hid) (by simpa using hfr.1) (by simpa using hfr.2) (by simpa using hb)
    exact ⟨hk.1, by rw [hk.2]; simp⟩

/-! ### BDAT -/

/-- operations that touch the wire only -/
theorem setW_good {a0 : A} {s : S} (h : Good a0 s) (w : Wire.W) : Good a0 (setW s w) :=
  h.of_c rfl rfl rfl (by simpa using h.shape)

theorem setLimit_good {a0 : A} {s : S} (h : Good a0 s) (n : Nat) : Good a0 (setLimit s n) := setW_good h _
@[simp] theorem setLimit_cfg (s : S) (n : Nat) : (setLimit s n).cfg = s.cfg := rfl
@[simp] theorem setLimit_c (s : S) (n : Nat) : (setLimit s n).c = s.c := rfl
theorem armLimit_good {a0 : A} {s : S} (h : Good a0 s) : Good a0 (armLimit s) := setW_good h _
@[simp] theorem armLimit_cfg (s : S) : (armLimit s).cfg = s.cfg := rfl
@[simp] theorem armLimit_c (s : S) : (armLimit s).c = s.c := rfl

theorem discardChunkN_keeps {a0 : A} {s : S} (h : Good a0 s) (sz : Option Nat) : Keeps a0 s (discardChunkN s sz) := by
  unfold discardChunkN
  split
  · exact ⟨setW_good h _, rfl⟩
  · exact Keeps.refl h

@[simp] theorem discardChunkN_cfg (s : S) (sz : Option Nat) : (discardChunkN s sz).cfg = s.cfg := by
  unfold discardChunkN; split <;> rfl

theorem setBdatStatus_keeps {a0 : A} {s : S} (h : Good a0 s) :
    Keeps a0 s (setBdatStatus s) ∧ (setBdatStatus s).c.bdat = s.c.bdat ∧ (setBdatStatus s).c.session = s.c.session ∧
    (setBdatStatus s).c.fromReceived = s.c.fromReceived ∧ (setBdatStatus s).c.recipients = s.c.recipients ∧
    (setBdatStatus s).c.closed = s.c.closed := by
  unfold setBdatStatus
  split
  · exact ⟨⟨h.of_c rfl rfl rfl (shape_of h.shape rfl rfl rfl rfl rfl rfl), rfl⟩, rfl, rfl, rfl, rfl, rfl⟩
  · exact ⟨Keeps.refl h, rfl, rfl, rfl, rfl, rfl⟩

theorem writeLmtpStatuses_good {a0 : A} (sts : List (Bytes × BRes)) : ∀ {s : S}, Good a0 s →
    Good a0 (writeLmtpStatuses s sts) := by
  induction sts with
  | nil => intro s h; exact h
  | cons x xs ih =>
    intro s h
    obtain ⟨a, r⟩ := x
    simp only [writeLmtpStatuses, List.foldl_cons] at ih ⊢
    exact ih (replyB_good h _ _ _)

theorem OnlyPanics.keeps {a0 : A} {s s' : S} (h : Good a0 s) (hp : OnlyPanics s s') : Keeps a0 s s' :=
  ⟨hp.good h, hp.cfg⟩

theorem copyChunk_only (fuel : Nat) : ∀ (s : S) (k n cap : Nat), OnlyPanics s (copyChunk fuel s k n cap).1 := by
  induction fuel with
  | zero => intro s k n cap; exact OnlyPanics.refl s
  | succ fuel ih =>
    intro s k n cap
    unfold copyChunk
    split
    · exact OnlyPanics.refl s
    · rcases hb : bufRead s.w (min cap n) with ⟨w1, r⟩
      have hset : OnlyPanics s { s with w := w1 } := ⟨rfl, rfl, 0, rfl⟩
      cases r with
      | error e =>
        cases e <;> exact hset
      | ok bs =>
        simp only []
        have hw := delivWrite_only { s with w := w1 } k bs
        rcases hd : delivWrite { s with w := w1 } k bs with ⟨s1, okAll⟩
        rw [hd] at hw
        simp only []
        split
        · exact (hset.trans hw).trans (ih s1 k _ cap)
        · exact hset.trans hw

theorem startDelivery_keeps {a0 : A} {s : S} (h : Good a0 s) (hcl : s.c.closed = false)
    (hfrom : s.c.fromReceived = true) (hr : s.c.recipients.isEmpty = false) (hb : s.c.bdat = none) (dec : DataDec) :
    Keeps a0 s (startDelivery s dec).1 ∧ (startDelivery s dec).1.c.closed = false := by
  have hsome := h.shape.fromSess hcl hfrom
  obtain ⟨id, hid⟩ : ∃ id, s.c.session = some id := by
    cases hs : s.c.session with
    | none => simp [hs] at hsome
    | some id => exact ⟨id, rfl⟩
  unfold startDelivery setBdat
  refine ⟨⟨⟨?_, ?_⟩, by simp [beginData]⟩, by simp [beginData, hcl]⟩
  · show Order.run s.cfg a0 ((Ev.dataBegin _ _ :: s.evs).reverse) = _
    rw [List.reverse_cons, Order.run_append, h.tr]
    have hne : s.c.recipients.length ≠ 0 := by
      intro h0; have := List.length_eq_zero_iff.mp h0; simp [this] at hr
    simp [Order.run, Order.step, abs, beginData, hid, hfrom, hb, hne]
  · simp only [emit_c, beginData]
    exact ⟨h.shape.closedSess, h.shape.fromSess, fun _ => ⟨hfrom, hcl⟩, h.shape.idle⟩

/-- the start of a chunked transfer (or its continuation) -/
theorem bdatBegin_keeps {a0 : A} {s : S} (h : Good a0 s) (hcl : s.c.closed = false)
    (hfrom : s.c.fromReceived = true) (hr : s.c.recipients.isEmpty = false) :
    Keeps a0 s (bdatBegin s).1 ∧ (bdatBegin s).1.c.closed = false := by
  unfold bdatBegin
  split
  · exact ⟨Keeps.refl h, hcl⟩
  · rename_i hb
    have hsame := popData_same s
    rcases hpq : popData s with ⟨dec, s1⟩
    rw [hpq] at hsame
    have hg1 : Good a0 s1 := hsame.good h
    have hc1 : s1.c = s.c := hsame.c
    have hcfg1 : s1.cfg = s.cfg := hsame.cfg
    simp only []
    have hk := startDelivery_keeps hg1 (by rw [hc1]; exact hcl) (by rw [hc1]; exact hfrom) (by rw [hc1]; exact hr)
      (by rw [hc1]; exact hb) dec
    rcases hsd : startDelivery s1 dec with ⟨s2, k⟩
    rw [hsd] at hk
    simp only [] at hk ⊢
    split
    · have hp := delivFinish_only s2 k .none
      exact ⟨⟨hp.good hk.1.1, by rw [hp.cfg, hk.1.2, hcfg1]⟩, by rw [hp.c]; exact hk.2⟩
    · exact ⟨⟨hk.1.1, by rw [hk.1.2, hcfg1]⟩, hk.2⟩

theorem bdatFailReplies_good {a0 : A} {s : S} (h : Good a0 s) (k : Nat) (last : Bool) (err : BRes) :
    Good a0 (bdatFailReplies s k last err) ∧ (bdatFailReplies s k last err).cfg = s.cfg := by
  unfold bdatFailReplies
  split
  · simp only []
    split
    · exact ⟨writeLmtpStatuses_good _ h, by simp⟩
    · split
      · exact ⟨writeLmtpStatuses_good _ h, by simp⟩
      · exact ⟨writeLmtpStatuses_good _ h, by simp⟩
  · exact ⟨replyB_good h _ _ _, by simp⟩

theorem bdatFail_keeps {a0 : A} {s : S} (h : Good a0 s) (k left : Nat) (last : Bool) (err : BRes) :
    Keeps a0 s (bdatFail s k left last err).1 := by
  unfold bdatFail
  simp only []
  have h1 := bdatFailReplies_good (setW_good h (discardN (wireFuel s.w) s.w left)) k last err
  generalize bdatFailReplies (setW s (discardN (wireFuel s.w) s.w left)) k last err = s2 at h1 ⊢
  have hcfg : s2.cfg = s.cfg := h1.2
  split
  · exact ⟨armLimit_good (resetConn_good (closeConn_good h1.1).1).1, by simp [hcfg]⟩
  · exact ⟨armLimit_good (resetConn_good h1.1).1, by simp [hcfg]⟩

theorem bdatFinal_keeps {a0 : A} {s : S} (h : Good a0 s) (k : Nat) : Keeps a0 s (bdatFinal s k).1 := by
  unfold bdatFinal
  simp only []
  -- closing the pipe: at most a panic is logged
  have hk1 : Keeps a0 s (if delivRunning s k = true then delivFinish s k .eof else s) := by
    split
    · exact (delivFinish_only s k .eof).keeps h
    · exact Keeps.refl h
  generalize (if delivRunning s k = true then delivFinish s k .eof else s) = s1 at hk1 ⊢
  -- the verdict(s)
  have hk2 : ∀ (res : BRes) (isPanic : Bool), Keeps a0 s1
      (if s1.cfg.lmtp = true then
        if (!s1.cfg.lmtpSess) = true then writeLmtpStatuses s1 (s1.c.recipients.map (fun a => (a, res)))
        else
          if ((applyStatuses ((s1.c.bdatStatus).getD s1.c.recipients) (delivDec s1 k).statuses []).2 && !isPanic) = true then
            writeLmtpStatuses s1 (collect s1.c.recipients (applyStatuses ((s1.c.bdatStatus).getD s1.c.recipients) (delivDec s1 k).statuses []).1 res)
          else writeLmtpStatuses s1 (collect s1.c.recipients (applyStatuses ((s1.c.bdatStatus).getD s1.c.recipients) (delivDec s1 k).statuses []).1 errPanic)
      else replyB s1 (dataStatus res).1 (dataStatus res).2.1 [(dataStatus res).2.2]) := by
    intro res isPanic
    split
    · split
      · exact ⟨writeLmtpStatuses_good _ hk1.1, by simp⟩
      · split
        · exact ⟨writeLmtpStatuses_good _ hk1.1, by simp⟩
        · exact ⟨writeLmtpStatuses_good _ hk1.1, by simp⟩
    · exact keeps_replyB hk1.1 _ _ _
  have hk2' := hk2 (if (delivRet s1 k == BRes.panic) = true then errPanic else delivRet s1 k) (delivRet s1 k == BRes.panic)
  generalize (if s1.cfg.lmtp = true then _ else _) = s2 at hk2' ⊢
  split
  · exact ⟨(closeConn_good hk2'.1).1, by simp [hk2'.2, hk1.2]⟩
  · exact ⟨(resetConn_good hk2'.1).1, by simp [hk2'.2, hk1.2]⟩

theorem addBytesReceived_good {a0 : A} {s : S} (h : Good a0 s) (n : Nat) : Good a0 (addBytesReceived s n) :=
  h.of_c rfl rfl rfl (shape_of h.shape rfl rfl rfl rfl rfl rfl)
@[simp] theorem addBytesReceived_cfg (s : S) (n : Nat) : (addBytesReceived s n).cfg = s.cfg := rfl

theorem bdatDone_keeps {a0 : A} {s : S} (h : Good a0 s) (k size : Nat) (last : Bool) :
    Keeps a0 s (bdatDone s k size last).1 := by
  unfold bdatDone
  simp only []
  have h1 := armLimit_good (addBytesReceived_good h size)
  split
  · exact ⟨reply_good h1 _ _ _, by simp⟩
  · have hk := bdatFinal_keeps h1 k
    exact ⟨hk.1, by rw [hk.2]; simp⟩

theorem bdatAfterCopy_keeps {a0 : A} {s : S} (h : Good a0 s) (k size left : Nat) (last : Bool) (ce : CopyEnd) :
    Keeps a0 s (bdatAfterCopy s k size left last ce).1 := by
  unfold bdatAfterCopy
  cases ce with
  | done => exact bdatDone_keeps h _ _ _
  | short => exact bdatFail_keeps h _ _ _ _
  | srcErr e => exact bdatFail_keeps h _ _ _ _
  | pipeErr =>
    simp only []
    split <;> exact bdatFail_keeps h _ _ _ _

theorem bdatChunk_keeps {a0 : A} {s : S} (h : Good a0 s) (hcl : s.c.closed = false)
    (hfrom : s.c.fromReceived = true) (hr : s.c.recipients.isEmpty = false) (size : Nat) (last : Bool) :
    Keeps a0 s (bdatChunk s size last).1 := by
  unfold bdatChunk
  obtain ⟨hk0, hb0, hs0, hf0, hr0, hc0⟩ := setBdatStatus_keeps h
  have hk1 := bdatBegin_keeps hk0.1 (by rw [hc0]; exact hcl) (by rw [hf0]; exact hfrom) (by rw [hr0]; exact hr)
  rcases hbb : bdatBegin (setBdatStatus s) with ⟨s1, k⟩
  rw [hbb] at hk1
  simp only [] at hk1 ⊢
  have h2 := setLimit_good hk1.1.1 0
  have hcp := copyChunk_only (wireFuel (setLimit s1 0).w) (setLimit s1 0) k size (min 32768 (max size 1))
  rcases hcc : copyChunk (wireFuel (setLimit s1 0).w) (setLimit s1 0) k size (min 32768 (max size 1)) with ⟨s3, left, ce⟩
  rw [hcc] at hcp
  simp only [] at hcp ⊢
  have h3 : Good a0 s3 := hcp.good h2
  have hk4 := bdatAfterCopy_keeps h3 k size left last ce
  exact ⟨hk4.1, by rw [hk4.2, hcp.cfg]; simp [hk1.1.2, hk0.2]⟩

theorem handleBdat_keeps {a0 : A} {s : S} (h : Good a0 s) (hcl : s.c.closed = false) (arg : Bytes) :
    Keeps a0 s (handleBdat s arg).1 := by
  unfold handleBdat
  split
  · exact keeps_reply h _ _ _
  · simp only []
    split
    · exact ⟨(discardChunkN_keeps (reply_good h _ _ _) _).1, by simp⟩
    split
    · exact ⟨(discardChunkN_keeps (reply_good h _ _ _) _).1, by simp⟩
    rename_i hfr
    simp only [Bool.or_eq_true, Bool.not_eq_true', not_or, Bool.not_eq_false] at hfr
    split
    · exact ⟨(discardChunkN_keeps (reply_good h _ _ _) _).1, by simp⟩
    split
    · exact keeps_reply h _ _ _
    · split
      · exact ⟨(resetConn_good (discardChunkN_keeps (reply_good h _ _ _) _).1).1, by simp⟩
      · exact bdatChunk_keeps h hcl (by simpa using hfr.1) (by simpa using hfr.2) _ _

/-! ### dispatch, the command loop, the whole connection -/

theorem panicLog_good {a0 : A} {s : S} (h : Good a0 s) : Good a0 (emit s .panicLog) := by
  refine h.extend [.panicLog] rfl rfl ?_ (by simpa using h.shape)
  simp [Order.run, Order.step, abs]

/-- `defer recover()` in `Conn.handle`: 421, close, log -/
theorem recover_keeps {a0 : A} {s : S} {p : S × Bool} (hk : Keeps a0 s p.1) : Keeps a0 s (recoverPanic p) := by
  unfold recoverPanic
  split
  · exact ⟨panicLog_good (closeConn_good (reply_good hk.1 _ _ _)).1, by simp [hk.2]⟩
  · exact hk

theorem dispatchGreet_keeps {a0 : A} {s : S} (h : Good a0 s) (hcl : s.c.closed = false) (cmd arg : Bytes) :
    Keeps a0 s (dispatchGreet s cmd arg) := by
  unfold dispatchGreet
  split
  · exact keeps_reply h _ _ _
  split
  · exact keeps_reply h _ _ _
  · exact recover_keeps (handleGreet_keeps h hcl _ _)

theorem dispatch_keeps {a0 : A} {s : S} (h : Good a0 s) (hcl : s.c.closed = false) (cmd arg : Bytes) :
    Keeps a0 s (dispatch s cmd arg) := by
  unfold dispatch
  cases verbOf cmd with
  | unimpl => exact keeps_replyB h _ _ _
  | greet => exact dispatchGreet_keeps h hcl _ _
  | mail => exact recover_keeps (handleMail_keeps h _)
  | rcpt => exact recover_keeps ⟨(handleRcpt_good h _).1, (handleRcpt_good h _).2⟩
  | vrfy => exact keeps_reply h _ _ _
  | noop => exact keeps_reply h _ _ _
  | rset => exact ⟨reply_good (resetConn_good h).1 _ _ _, by simp⟩
  | bdat => exact recover_keeps (handleBdat_keeps h hcl _)
  | data => exact recover_keeps (handleData_keeps h _)
  | quit => exact ⟨(closeConn_good (reply_good h _ _ _)).1, by simp⟩
  | auth => exact recover_keeps (handleAuth_keeps h _)
  | starttls => exact handleStartTLS_keeps h hcl
  | unknown => exact ⟨(protocolErrorB_good h _ _ _).1, (protocolErrorB_good h _ _ _).2⟩

theorem handle_keeps {a0 : A} {s : S} (h : Good a0 s) (hcl : s.c.closed = false) (cmd arg : Bytes) :
    Keeps a0 s (handle s cmd arg) := by
  unfold handle
  split
  · exact ⟨(protocolError_good h _ _ _).1, (protocolError_good h _ _ _).2⟩
  · exact dispatch_keeps h hcl _ _

theorem loop_keeps {a0 : A} (fuel : Nat) : ∀ {s : S}, Good a0 s → Keeps a0 s (loop fuel s) := by
  induction fuel with
  | zero => intro s h; exact Keeps.refl h
  | succ fuel ih =>
    intro s h
    unfold loop
    split
    · exact Keeps.refl h
    · rename_i hcl
      have hcl : s.c.closed = false := by simpa using hcl
      have hsame := connReadLine_same s
      rcases hrl : connReadLine s with ⟨s1, r⟩
      rw [hrl] at hsame
      have hg1 : Good a0 s1 := hsame.good h
      have hcl1 : s1.c.closed = false := by rw [hsame.c]; exact hcl
      have hcfg1 : s1.cfg = s.cfg := hsame.cfg
      cases r with
      | ok line =>
        simp only []
        have hg2 : Good a0 (emit s1 (.cmd line)) := by
          refine hg1.extend [.cmd line] rfl rfl ?_ (by simpa using hg1.shape)
          simp [Order.run, Order.step, abs, hcl1]
        split
        · have hp := protocolError_good hg2 501 ⟨5, 5, 2⟩ "Bad command"
          have hk := ih hp.1
          exact ⟨hk.1, by rw [hk.2, hp.2]; simp [hcfg1]⟩
        · rename_i cmd arg _
          have hh := handle_keeps hg2 (by simpa using hcl1) cmd arg
          have hk := ih hh.1
          exact ⟨hk.1, by rw [hk.2, hh.2]; simp [hcfg1]⟩
      | error e =>
        cases e with
        | eof => exact ⟨hg1, hcfg1⟩
        | closed => exact ⟨hg1, hcfg1⟩
        | tooLong => exact ⟨reply_good hg1 _ _ _, by simp [hcfg1]⟩
        | timeout => exact ⟨reply_good hg1 _ _ _, by simp [hcfg1]⟩

/-- **the whole connection.**  Greeting, command loop, deferred `Close`: the invariant holds at the end, the
    connection is closed and nobody is left logged in. -/
theorem serve_good {a0 : A} {s : S} (h : Good a0 s) :
    Good a0 (serve s) ∧ (serve s).cfg = s.cfg ∧ (serve s).c.closed = true ∧ (serve s).c.session = none := by
  unfold serve greet
  have h1 := replyB_good h 220 noEnh [s.cfg.domain ++ (if s.cfg.lmtp then " LMTP Service Ready".b else " ESMTP Service Ready".b)]
  have hk := loop_keeps (a0 := a0) (totalFuel s) h1
  have hc := closeConn_good hk.1
  refine ⟨hc.1, by rw [hc.2.2, hk.2]; simp, by rw [hc.2.1], by rw [hc.2.1]⟩

end SmtpV.Server
