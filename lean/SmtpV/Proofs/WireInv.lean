import SmtpV.Proofs.DataResume
/-!
`WF` — the hypothesis of `C02_resume` — is an invariant of the whole connection: every operation of the server
model that touches the wire (`readLine`, the DATA reader, BDAT's `bufRead`/`discardN`/`copyChunk`, the switch to the
TLS stream) preserves it, and every other step leaves the wire alone.
-/
namespace SmtpV.Server
open SmtpV SmtpV.Wire SmtpV.DataReader SmtpV.Spec

/-! ### wire operations -/

theorem WF_buf {w : W} (h : WF w) (b : Bytes) : WF { w with buf := b } := ⟨h.ne, h.err⟩
theorem WF_limit {w : W} (h : WF w) (n : Nat) : WF { w with limit := n } := ⟨h.ne, h.err⟩

theorem WF_resume {w : W} (h : WF w) (n : Nat) (p : Bytes) : WF (Wire.resume w n p) := by
  unfold Wire.resume
  split
  · exact ⟨h.ne, h.err⟩
  · refine ⟨h.ne, fun he => ?_⟩
    rcases h.err he with h1 | h1
    · exact Or.inl h1
    · exact Or.inr (by simp [h1])

theorem readSlice_wf : ∀ (fuel : Nat) (w : W), WF w → WF (readSlice fuel w).1 := by
  intro fuel
  induction fuel with
  | zero => intro w h; exact h
  | succ fuel ih =>
    intro w h
    unfold readSlice
    split
    · exact WF_buf h _
    · split
      · exact ⟨h.ne, by simp⟩
      · rename_i he
        split
        · exact WF_buf h _
        · rename_i hlt
          exact ih _ ((fill_facts w (by omega)).2.2.2.2.1 h he)

theorem bufioReadLine_wf (fuel : Nat) (w : W) (h : WF w) : WF (bufioReadLine fuel w).1 := by
  have := readSlice_wf fuel w h
  unfold bufioReadLine
  split <;> rename_i heq <;> rw [heq] at this <;> simp only [] at this
  · split
    · exact WF_buf this _
    · exact this
  · exact this
  · exact this

theorem readLineAux_wf : ∀ (n fuel : Nat) (w : W) (acc : Bytes), WF w → WF (readLineAux n fuel w acc).1 := by
  intro n
  induction n with
  | zero => intro fuel w acc h; exact h
  | succ n ih =>
    intro fuel w acc h
    have hb := bufioReadLine_wf fuel w h
    unfold readLineAux
    split <;> rename_i heq <;> rw [heq] at hb <;> simp only [] at hb
    · exact hb
    · exact hb
    · exact ih fuel _ _ hb

theorem readLine_wf (w : W) (h : WF w) : WF (readLine w).1 := by
  have := readLineAux_wf (fuelOf w) (fuelOf w) w [] h
  unfold readLine
  simp only []
  split <;> rename_i heq <;> rw [heq] at this <;> simp only [] at this
  · split
    · exact this
    · split <;> exact this
  · exact this

theorem limRead_wf (w : W) (m : Nat) (h : WF w) (he : w.err = none) : WF (limRead w m).1 := by
  obtain ⟨_, _, h3, _, h5, _⟩ := limRead_facts w m
  exact ⟨h5 h.ne, by rw [h3, he]; intro hh; cases hh⟩

theorem bufRead_wf (w : W) (m : Nat) (h : WF w) : WF (bufRead w m).1 := by
  unfold bufRead
  split
  · split
    · exact ⟨h.ne, by simp⟩
    · rename_i he
      split
      · exact limRead_wf w m h he
      · have := limRead_wf w bufSize h he
        split <;> rename_i heq <;> rw [heq] at this <;> simp only [] at this
        · exact this
        · exact WF_buf this _
  · exact WF_buf h _

theorem discardN_wf : ∀ (fuel : Nat) (w : W) (n : Nat), WF w → WF (discardN fuel w n) := by
  intro fuel
  induction fuel with
  | zero => intro w n h; exact h
  | succ fuel ih =>
    intro w n h
    unfold discardN
    split
    · exact h
    · have := bufRead_wf w (min 8192 n) h
      split <;> rename_i heq <;> rw [heq] at this <;> simp only [] at this
      · exact ih _ _ this
      · exact this

/-! ### steps that leave both streams alone -/

/-- the wire in use and the stream inside TLS are the same in both states -/
structure SameWire (s s' : S) : Prop where
  w : s'.w = s.w
  tlsW : s'.tlsW = s.tlsW

theorem SameWire.rfl' (s : S) : SameWire s s := ⟨rfl, rfl⟩
theorem SameWire.trans {a b c : S} (h1 : SameWire a b) (h2 : SameWire b c) : SameWire a c :=
  ⟨by rw [h2.w, h1.w], by rw [h2.tlsW, h1.tlsW]⟩

@[simp] theorem emit_tlsW (s : S) (e : Ev) : (emit s e).tlsW = s.tlsW := rfl
@[simp] theorem write_tlsW (s : S) (bs : Bytes) : (write s bs).tlsW = s.tlsW := by unfold write; split <;> rfl
@[simp] theorem reply_tlsW (s : S) (code : Nat) (enh : Enh) (t : String) : (reply s code enh t).tlsW = s.tlsW := write_tlsW _ _
@[simp] theorem replyB_tlsW (s : S) (code : Nat) (enh : Enh) (t : List Bytes) : (replyB s code enh t).tlsW = s.tlsW := write_tlsW _ _

theorem sw_emit (s : S) (e : Ev) : SameWire s (emit s e) := ⟨rfl, rfl⟩
theorem sw_write (s : S) (bs : Bytes) : SameWire s (write s bs) := by unfold write; split <;> exact ⟨rfl, rfl⟩
theorem sw_reply (s : S) (code : Nat) (enh : Enh) (t : String) : SameWire s (reply s code enh t) := sw_write _ _
theorem sw_replyB (s : S) (code : Nat) (enh : Enh) (t : List Bytes) : SameWire s (replyB s code enh t) := sw_write _ _
theorem sw_setDrec (s : S) (k : Nat) (f : DRec → DRec) : SameWire s (setDrec s k f) := ⟨rfl, rfl⟩
theorem sw_popNs (s : S) : SameWire s (popNs s).2 := by unfold popNs; split <;> exact ⟨rfl, rfl⟩
theorem sw_popMail (s : S) : SameWire s (popMail s).2 := by unfold popMail; split <;> exact ⟨rfl, rfl⟩
theorem sw_popRcpt (s : S) : SameWire s (popRcpt s).2 := by unfold popRcpt; split <;> exact ⟨rfl, rfl⟩
theorem sw_popData (s : S) : SameWire s (popData s).2 := by unfold popData; split <;> exact ⟨rfl, rfl⟩
theorem sw_popAuth (s : S) : SameWire s (popAuth s).2 := by unfold popAuth; split <;> exact ⟨rfl, rfl⟩
theorem sw_popSasl (s : S) : SameWire s (popSasl s).2 := by unfold popSasl; split <;> exact ⟨rfl, rfl⟩
theorem sw_popHs (s : S) : SameWire s (popHs s).2 := by unfold popHs; split <;> exact ⟨rfl, rfl⟩
theorem sw_delivFinish (s : S) (k : Nat) (e : RdEnd) : SameWire s (delivFinish s k e) :=
  ⟨(delivFinish_w s k e).1, (delivFinish_w s k e).2.1⟩
theorem sw_abortBdat (s : S) : SameWire s (abortBdat s) := ⟨(abortBdat_w s).1, (abortBdat_w s).2.1⟩
theorem sw_logoutSess (s : S) : SameWire s (logoutSess s) := ⟨(logoutSess_c s).2.1, (logoutSess_c s).2.2.1⟩
theorem sw_closeSock (s : S) : SameWire s (closeSock s) := by unfold closeSock; split <;> exact ⟨rfl, rfl⟩
theorem sw_closeConn (s : S) : SameWire s (closeConn s) :=
  ((sw_abortBdat s).trans (sw_logoutSess _)).trans (sw_closeSock _)
theorem sw_resetConn (s : S) : SameWire s (resetConn s) := ⟨(resetConn_c s).2.1, (resetConn_c s).2.2.1⟩

theorem sw_errCount (s1 : S) (n : Nat) : SameWire s1 { s1 with c := { s1.c with errCount := n } } := ⟨rfl, rfl⟩

theorem sw_protocolError (s : S) (code : Nat) (enh : Enh) (t : String) : SameWire s (protocolError s code enh t) := by
  unfold protocolError
  simp only []
  have h1 := sw_reply s code enh t
  generalize reply s code enh t = s1 at h1 ⊢
  have h2 := sw_errCount s1 (s1.c.errCount + 1)
  generalize ({ s1 with c := { s1.c with errCount := s1.c.errCount + 1 } } : S) = s2 at h2 ⊢
  split
  · exact (h1.trans h2).trans ((sw_reply _ _ _ _).trans (sw_closeConn _))
  · exact h1.trans h2

theorem sw_protocolErrorB (s : S) (code : Nat) (enh : Enh) (t : Bytes) : SameWire s (protocolErrorB s code enh t) := by
  unfold protocolErrorB
  simp only []
  have h1 := sw_replyB s code enh [t]
  generalize replyB s code enh [t] = s1 at h1 ⊢
  have h2 := sw_errCount s1 (s1.c.errCount + 1)
  generalize ({ s1 with c := { s1.c with errCount := s1.c.errCount + 1 } } : S) = s2 at h2 ⊢
  split
  · exact (h1.trans h2).trans ((sw_reply _ _ _ _).trans (sw_closeConn _))
  · exact h1.trans h2

theorem sw_recoverPanic (p : S × Bool) : SameWire p.1 (recoverPanic p) := by
  unfold recoverPanic
  split
  · exact ((sw_reply _ _ _ _).trans (sw_closeConn _)).trans (sw_emit _ _)
  · exact SameWire.rfl' _

theorem sw_greetReply (s : S) (e : Bool) (d : Bytes) : SameWire s (greetReply s e d) := by
  unfold greetReply; split <;> exact sw_replyB _ _ _ _

theorem sw_newSession (s : S) (d : Bytes) : SameWire s (newSession s d).1 := by
  unfold newSession
  rcases h : popNs s with ⟨r, s1⟩
  have := sw_popNs s; rw [h] at this
  exact this.trans ⟨rfl, rfl⟩

theorem sw_handleGreet (s : S) (e : Bool) (arg : Bytes) : SameWire s (handleGreet s e arg).1 := by
  unfold handleGreet
  split
  · exact sw_reply _ _ _ _
  · simp only []
    have h0 : SameWire s (setHelo s ‹Bytes›) := ⟨rfl, rfl⟩
    generalize setHelo s ‹Bytes› = s1 at h0 ⊢
    split
    · exact h0.trans ((sw_resetConn _).trans (sw_greetReply _ _ _))
    · have hn := sw_newSession s1 ‹Bytes›
      generalize newSession s1 ‹Bytes› = p at hn ⊢
      obtain ⟨s2, r⟩ := p
      simp only [] at hn ⊢
      split
      · exact h0.trans (hn.trans (sw_greetReply _ _ _))
      · exact h0.trans hn
      · exact h0.trans (hn.trans (SameWire.trans (b := setHelo s2 []) ⟨rfl, rfl⟩ (sw_write _ _)))

theorem sw_setBinarymime (s : S) (b : Bool) : SameWire s (setBinarymime s b) := ⟨rfl, rfl⟩

theorem sw_mailCall (s : S) (id : Nat) (frm : Bytes) (opts : MailOpts) : SameWire s (mailCall s id frm opts).1 := by
  unfold mailCall
  have hp := sw_popMail s
  generalize popMail s = p at hp ⊢
  obtain ⟨r, s1⟩ := p
  simp only [] at hp ⊢
  have he := sw_emit s1 (.mail id frm opts r)
  generalize emit s1 (.mail id frm opts r) = s2 at he ⊢
  split
  · exact hp.trans (he.trans (SameWire.trans (b := { s2 with c := { s2.c with fromReceived := true } }) ⟨rfl, rfl⟩ (sw_replyB _ _ _ _)))
  · exact hp.trans he
  · exact hp.trans (he.trans (sw_write _ _))

theorem sw_handleMail (s : S) (arg : Bytes) : SameWire s (handleMail s arg).1 := by
  unfold handleMail
  split
  · exact sw_reply _ _ _ _
  split
  · exact sw_reply _ _ _ _
  split
  · exact sw_reply _ _ _ _
  split
  · exact sw_reply _ _ _ _
  split
  · exact sw_reply _ _ _ _
  split
  · exact (sw_setBinarymime s false).trans (sw_reply _ _ _ _)
  split
  · exact sw_setBinarymime _ _
  · exact (sw_setBinarymime _ _).trans (sw_mailCall _ _ _ _)

theorem sw_handleRcpt (s : S) (arg : Bytes) : SameWire s (handleRcpt s arg).1 := by
  unfold handleRcpt
  split
  · exact sw_reply _ _ _ _
  split
  · exact sw_reply _ _ _ _
  split
  · exact sw_reply _ _ _ _
  split
  · exact sw_reply _ _ _ _
  split
  · exact sw_replyB _ _ _ _
  split
  · exact sw_reply _ _ _ _
  split
  · exact sw_reply _ _ _ _
  split
  · exact SameWire.rfl' _
  · simp only []
    have hp := sw_popRcpt s
    generalize popRcpt s = p at hp ⊢
    obtain ⟨r, s1⟩ := p
    simp only [] at hp ⊢
    split
    · exact hp.trans ⟨by simp, by simp⟩
    · exact hp.trans (sw_emit _ _)
    · exact hp.trans ((sw_emit _ _).trans (sw_write _ _))

/-! ### the invariant on server states -/

/-- both octet streams of the connection are well-formed: the one in use, and the one inside TLS that a successful
    STARTTLS switches to -/
structure WFS (s : S) : Prop where
  w : WF s.w
  tls : ∀ t, s.tlsW = some t → ∀ x ∈ t.segs, x ≠ []

theorem WFS.of_same {s s' : S} (h : WFS s) (hs : SameWire s s') : WFS s' :=
  ⟨by rw [hs.w]; exact h.w, by rw [hs.tlsW]; exact h.tls⟩

theorem WFS.setW {s : S} (h : WFS s) {w : W} (hw : WF w) : WFS (setW s w) := ⟨hw, h.tls⟩

theorem wfs_connReadLine (s : S) (h : WFS s) : WFS (connReadLine s).1 := by
  unfold connReadLine
  have := readLine_wf s.w h.w
  rcases hr : readLine s.w with ⟨w1, r⟩
  rw [hr] at this
  exact ⟨this, h.tls⟩

theorem wfs_saslLoop : ∀ (fuel : Nat) (s : S) (resp : Option Bytes), WFS s → WFS (saslLoop fuel s resp).1 := by
  intro fuel
  induction fuel with
  | zero => intro s _ h; exact h
  | succ fuel ih =>
    intro s resp h
    unfold saslLoop
    have hp := sw_popSasl s
    generalize popSasl s = p at hp ⊢
    obtain ⟨st, s1⟩ := p
    simp only [] at hp ⊢
    have h1 : WFS (emit s1 (.sasl resp st.challenge st.done st.res)) := h.of_same (hp.trans (sw_emit _ _))
    generalize emit s1 (.sasl resp st.challenge st.done st.res) = s2 at h1 ⊢
    split
    · exact h1
    · split
      · exact h1.of_same ⟨by simp, by simp⟩
      · have h3 : WFS (replyB s2 334 noEnh [if st.challenge.isEmpty then [] else b64Encode st.challenge]) :=
          h1.of_same (sw_replyB _ _ _ _)
        generalize replyB s2 334 noEnh [if st.challenge.isEmpty then [] else b64Encode st.challenge] = s3 at h3 ⊢
        have h4 := wfs_connReadLine s3 h3
        generalize connReadLine s3 = q at h4 ⊢
        obtain ⟨s4, r⟩ := q
        simp only [] at h4 ⊢
        cases r with
        | error e => exact h4
        | ok line =>
          simp only []
          split
          · exact h4.of_same (sw_reply _ _ _ _)
          · split
            · exact h4.of_same (sw_reply _ _ _ _)
            · exact ih _ _ h4
    · exact h1.of_same (sw_write _ _)

theorem wfs_handleAuth (s : S) (arg : Bytes) (h : WFS s) : WFS (handleAuth s arg).1 := by
  unfold handleAuth
  split
  · exact h.of_same (sw_reply _ _ _ _)
  split
  · exact h.of_same (sw_reply _ _ _ _)
  split
  · exact h.of_same (sw_reply _ _ _ _)
  split
  · exact h.of_same (sw_reply _ _ _ _)
  simp only []
  split
  · exact h.of_same (sw_reply _ _ _ _)
  split
  · exact h
  split
  · exact h.of_same (sw_write _ _)
  · have hp := sw_popAuth s
    generalize popAuth s = p at hp ⊢
    obtain ⟨r, s1⟩ := p
    simp only [] at hp ⊢
    have h1 : ∀ e, WFS (emit s1 e) := fun e => h.of_same (hp.trans (sw_emit _ _))
    split
    · exact wfs_saslLoop _ _ _ (h1 _)
    · exact h1 _
    · exact (h1 _).of_same (sw_write _ _)

theorem wfs_switchWire (s : S) (h : WFS s) : WFS (switchWire s) := by
  unfold switchWire
  refine ⟨⟨?_, by simp⟩, by simp⟩
  cases ht : s.tlsW with
  | none => simp
  | some t => simpa using h.tls t ht

theorem wfs_handleStartTLS (s : S) (h : WFS s) : WFS (handleStartTLS s) := by
  unfold handleStartTLS
  split
  · exact h.of_same (sw_reply _ _ _ _)
  split
  · exact h.of_same (sw_reply _ _ _ _)
  · simp only []
    have h1 : WFS (reply s 220 ⟨2, 0, 0⟩ "Ready to start TLS") := h.of_same (sw_reply _ _ _ _)
    generalize reply s 220 ⟨2, 0, 0⟩ "Ready to start TLS" = s1 at h1 ⊢
    have hp := sw_popHs s1
    generalize popHs s1 = p at hp ⊢
    obtain ⟨ok, s2⟩ := p
    simp only [] at hp ⊢
    have h2 : WFS (emit s2 (.tlsStart ok)) := h1.of_same (hp.trans (sw_emit _ _))
    generalize emit s2 (.tlsStart ok) = s3 at h2 ⊢
    split
    · exact h2.of_same (sw_reply _ _ _ _)
    · unfold tlsUpgrade
      exact ((wfs_switchWire s3 h2).of_same (sw_logoutSess _)).of_same
        (SameWire.trans (b := forgetGreeting (logoutSess (switchWire s3))) ⟨rfl, rfl⟩ (sw_resetConn _))

/-! ### DATA -/

theorem sw_writeLmtpStatuses (sts : List (Bytes × BRes)) : ∀ (s : S), SameWire s (writeLmtpStatuses s sts) := by
  induction sts with
  | nil => intro s; exact SameWire.rfl' _
  | cons x xs ih =>
    intro s
    simp only [writeLmtpStatuses, List.foldl_cons] at ih ⊢
    exact (sw_replyB _ _ _ _).trans (ih _)

theorem wf_drain (r : DR) (w : W) (h : WF w) : WF (drain (wireFuel w) r w) :=
  (drain_spec (wireFuel w) r w h (wireFuel_ok w r)).1

theorem wfs_dataSync (s : S) (id : Nat) (h : WFS s) : WFS (dataSync s id).1 := by
  unfold dataSync
  have hp := sw_popData s
  generalize popData s = p at hp ⊢
  obtain ⟨dec, s1⟩ := p
  simp only [] at hp ⊢
  have hb : SameWire s1 (beginData s1 id dec).1 := ⟨rfl, rfl⟩
  generalize beginData s1 id dec = q at hb ⊢
  obtain ⟨s2, k⟩ := q
  simp only [] at hb ⊢
  have h2 : WFS (emit s2 (.dataBegin id k)) := h.of_same (hp.trans (hb.trans (sw_emit _ _)))
  generalize emit s2 (.dataBegin id k) = s3 at h2 ⊢
  have hbr := (backendRead_spec (wireFuel s3.w) (newDataReader s3) s3.w dec.want dec.rsz [] h2.w).1
  generalize backendRead (wireFuel s3.w) (newDataReader s3) s3.w dec.want dec.rsz [] = br at hbr ⊢
  obtain ⟨r1, w1, octets, e⟩ := br
  simp only [] at hbr ⊢
  have h4 : WFS (setW s3 w1) := h2.setW hbr
  generalize setW s3 w1 = s4 at h4 ⊢
  have hd : ∀ (f : DRec → DRec), WFS (setW (setDrec s4 k f) (drain (wireFuel (setDrec s4 k f).w) r1 (setDrec s4 k f).w)) := by
    intro f
    exact (h4.of_same (sw_setDrec _ _ _)).setW (wf_drain _ _ (h4.of_same (sw_setDrec _ _ _)).w)
  split
  · unfold dataFinishSmtp
    simp only []
    split
    · exact (h4.of_same (sw_setDrec _ _ _)).of_same (sw_resetConn _)
    · exact (hd _).of_same ((sw_replyB _ _ _ _).trans (sw_resetConn _))
  · split
    · unfold dataFinishLmtpPlain
      simp only []
      split
      · exact (h4.of_same (sw_setDrec _ _ _)).of_same (sw_resetConn _)
      · exact (hd _).of_same ((sw_writeLmtpStatuses _ _).trans (sw_resetConn _))
    · unfold dataFinishLmtpSess
      simp only []
      split <;> split
      all_goals first
        | exact (hd _).of_same ((sw_writeLmtpStatuses _ _).trans (sw_resetConn _))
        | exact (h4.of_same (sw_setDrec _ _ _)).of_same
            ((sw_emit _ _).trans ((sw_writeLmtpStatuses _ _).trans ((sw_closeConn _).trans (sw_resetConn _))))

theorem wfs_handleData (s : S) (arg : Bytes) (h : WFS s) : WFS (handleData s arg).1 := by
  unfold handleData
  split
  · exact h.of_same (sw_reply _ _ _ _)
  split
  · exact h.of_same (sw_reply _ _ _ _)
  split
  · exact h.of_same (sw_reply _ _ _ _)
  split
  · exact h.of_same (sw_reply _ _ _ _)
  · simp only []
    have h1 : WFS (reply s 354 noEnh "Go ahead. End your data with <CR><LF>.<CR><LF>") := h.of_same (sw_reply _ _ _ _)
    generalize reply s 354 noEnh "Go ahead. End your data with <CR><LF>.<CR><LF>" = s1 at h1 ⊢
    split
    · exact h1.of_same (sw_resetConn _)
    · exact wfs_dataSync _ _ h1

/-! ### BDAT -/

theorem sw_delivWrite (s : S) (k : Nat) (bs : Bytes) : SameWire s (delivWrite s k bs).1 := by
  unfold delivWrite
  split
  · exact SameWire.rfl' _
  · simp only []
    split
    · exact (sw_setDrec _ _ _).trans (sw_delivFinish _ _ _)
    · exact sw_setDrec _ _ _

theorem wfs_copyChunk : ∀ (fuel : Nat) (s : S) (k n cap : Nat), WFS s → WFS (copyChunk fuel s k n cap).1 := by
  intro fuel
  induction fuel with
  | zero => intro s k n cap h; exact h
  | succ fuel ih =>
    intro s k n cap h
    unfold copyChunk
    split
    · exact h
    · have hb := bufRead_wf s.w (min cap n) h.w
      generalize bufRead s.w (min cap n) = br at hb ⊢
      obtain ⟨w1, r⟩ := br
      simp only [] at hb
      have h1 : WFS { s with w := w1 } := ⟨hb, h.tls⟩
      cases r with
      | error e => cases e <;> exact h1
      | ok bs =>
        simp only []
        have h2 : WFS (delivWrite { s with w := w1 } k bs).1 := h1.of_same (sw_delivWrite _ _ _)
        generalize delivWrite { s with w := w1 } k bs = dw at h2 ⊢
        obtain ⟨s1, okAll⟩ := dw
        simp only [] at h2 ⊢
        split
        · exact ih _ _ _ _ h2
        · exact h2

theorem wfs_setLimit (s : S) (n : Nat) (h : WFS s) : WFS (setLimit s n) := h.setW (WF_limit h.w n)

theorem wfs_armLimit (s : S) (h : WFS s) : WFS (armLimit s) := h.setW (WF_resume h.w _ _)

theorem wfs_discardChunkN (s : S) (size? : Option Nat) (h : WFS s) : WFS (discardChunkN s size?) := by
  unfold discardChunkN
  split
  · exact h.setW (WF_resume (discardN_wf _ _ _ (WF_limit h.w 0)) _ _)
  · exact h

theorem sw_setBdatStatus (s : S) : SameWire s (setBdatStatus s) := by
  unfold setBdatStatus; split <;> exact ⟨rfl, rfl⟩

theorem sw_startDelivery (s : S) (dec : DataDec) : SameWire s (startDelivery s dec).1 := ⟨rfl, rfl⟩

theorem sw_bdatBegin (s : S) : SameWire s (bdatBegin s).1 := by
  unfold bdatBegin
  split
  · exact SameWire.rfl' _
  · have hp := sw_popData s
    generalize popData s = p at hp ⊢
    obtain ⟨dec, s1⟩ := p
    simp only [] at hp ⊢
    have hs := sw_startDelivery s1 dec
    generalize startDelivery s1 dec = q at hs ⊢
    obtain ⟨s2, k⟩ := q
    simp only [] at hs ⊢
    split
    · exact hp.trans (hs.trans (sw_delivFinish _ _ _))
    · exact hp.trans hs

theorem sw_bdatFailReplies (s : S) (k : Nat) (last : Bool) (err : BRes) : SameWire s (bdatFailReplies s k last err) := by
  unfold bdatFailReplies
  split
  · simp only []
    split
    · exact sw_writeLmtpStatuses _ _
    · split <;> exact sw_writeLmtpStatuses _ _
  · exact sw_replyB _ _ _ _

theorem wfs_bdatFail (s : S) (k left : Nat) (last : Bool) (err : BRes) (h : WFS s) : WFS (bdatFail s k left last err).1 := by
  unfold bdatFail
  simp only []
  have h1 : WFS (setW s (discardN (wireFuel s.w) s.w left)) := h.setW (discardN_wf _ _ _ h.w)
  generalize setW s (discardN (wireFuel s.w) s.w left) = s1 at h1 ⊢
  have h2 : WFS (bdatFailReplies s1 k last err) := h1.of_same (sw_bdatFailReplies _ _ _ _)
  generalize bdatFailReplies s1 k last err = s2 at h2 ⊢
  have h3 : WFS (if err == errPanic then closeConn s2 else s2) := by
    split
    · exact h2.of_same (sw_closeConn _)
    · exact h2
  generalize (if err == errPanic then closeConn s2 else s2) = s3 at h3 ⊢
  exact wfs_armLimit _ (h3.of_same (sw_resetConn _))

theorem sw_bdatFinal (s : S) (k : Nat) : SameWire s (bdatFinal s k).1 := by
  unfold bdatFinal
  simp only []
  have h1 : SameWire s (if delivRunning s k then delivFinish s k .eof else s) := by
    split
    · exact sw_delivFinish _ _ _
    · exact SameWire.rfl' _
  generalize (if delivRunning s k then delivFinish s k .eof else s) = s1 at h1 ⊢
  have h2 : ∀ x : S, SameWire s1 x → SameWire s (if (delivRet s1 k == BRes.panic) = true then (closeConn x, false) else (resetConn x, false)).1 := by
    intro x hx
    split
    · exact h1.trans (hx.trans (sw_closeConn _))
    · exact h1.trans (hx.trans (sw_resetConn _))
  apply h2
  split
  · split
    · exact sw_writeLmtpStatuses _ _
    · split <;> exact sw_writeLmtpStatuses _ _
  · exact sw_replyB _ _ _ _

theorem wfs_bdatDone (s : S) (k size : Nat) (last : Bool) (h : WFS s) : WFS (bdatDone s k size last).1 := by
  unfold bdatDone
  simp only []
  have h1 : WFS (armLimit (addBytesReceived s size)) :=
    wfs_armLimit _ (h.of_same (s' := addBytesReceived s size) ⟨rfl, rfl⟩)
  generalize armLimit (addBytesReceived s size) = s1 at h1 ⊢
  split
  · exact h1.of_same (sw_reply _ _ _ _)
  · exact h1.of_same (sw_bdatFinal _ _)

theorem wfs_bdatAfterCopy (s : S) (k size left : Nat) (last : Bool) (ce : CopyEnd) (h : WFS s) :
    WFS (bdatAfterCopy s k size left last ce).1 := by
  unfold bdatAfterCopy
  split
  · exact wfs_bdatFail _ _ _ _ _ h
  · exact wfs_bdatFail _ _ _ _ _ h
  · simp only []
    split <;> exact wfs_bdatFail _ _ _ _ _ h
  · exact wfs_bdatDone _ _ _ _ h

theorem wfs_bdatChunk (s : S) (size : Nat) (last : Bool) (h : WFS s) : WFS (bdatChunk s size last).1 := by
  unfold bdatChunk
  have h1 : WFS (bdatBegin (setBdatStatus s)).1 := h.of_same ((sw_setBdatStatus s).trans (sw_bdatBegin _))
  generalize bdatBegin (setBdatStatus s) = p at h1 ⊢
  obtain ⟨s1, k⟩ := p
  simp only [] at h1 ⊢
  have h2 := wfs_setLimit s1 0 h1
  generalize setLimit s1 0 = s2 at h2 ⊢
  have h3 := wfs_copyChunk (wireFuel s2.w) s2 k size (min 32768 (max size 1)) h2
  generalize copyChunk (wireFuel s2.w) s2 k size (min 32768 (max size 1)) = q at h3 ⊢
  obtain ⟨s3, left, ce⟩ := q
  simp only [] at h3 ⊢
  exact wfs_bdatAfterCopy _ _ _ _ _ _ h3

theorem wfs_handleBdat (s : S) (arg : Bytes) (h : WFS s) : WFS (handleBdat s arg).1 := by
  unfold handleBdat
  split
  · exact h.of_same (sw_reply _ _ _ _)
  · simp only []
    split
    · exact wfs_discardChunkN _ _ (h.of_same (sw_reply _ _ _ _))
    split
    · exact wfs_discardChunkN _ _ (h.of_same (sw_reply _ _ _ _))
    split
    · exact wfs_discardChunkN _ _ (h.of_same (sw_reply _ _ _ _))
    split
    · exact h.of_same (sw_reply _ _ _ _)
    split
    · exact (wfs_discardChunkN _ _ (h.of_same (sw_reply _ _ _ _))).of_same (sw_resetConn _)
    · exact wfs_bdatChunk _ _ _ h

/-! ### dispatch, the loop, the connection -/

theorem wfs_recoverPanic (p : S × Bool) (h : WFS p.1) : WFS (recoverPanic p) := h.of_same (sw_recoverPanic p)

theorem wfs_dispatch (s : S) (cmd arg : Bytes) (h : WFS s) : WFS (dispatch s cmd arg) := by
  unfold dispatch
  split
  · exact h.of_same (sw_replyB _ _ _ _)
  · unfold dispatchGreet
    split
    · exact h.of_same (sw_reply _ _ _ _)
    split
    · exact h.of_same (sw_reply _ _ _ _)
    · exact wfs_recoverPanic _ (h.of_same (sw_handleGreet _ _ _))
  · exact wfs_recoverPanic _ (h.of_same (sw_handleMail _ _))
  · exact wfs_recoverPanic _ (h.of_same (sw_handleRcpt _ _))
  · exact h.of_same (sw_reply _ _ _ _)
  · exact h.of_same (sw_reply _ _ _ _)
  · exact h.of_same ((sw_resetConn _).trans (sw_reply _ _ _ _))
  · exact wfs_recoverPanic _ (wfs_handleBdat _ _ h)
  · exact wfs_recoverPanic _ (wfs_handleData _ _ h)
  · exact h.of_same ((sw_reply _ _ _ _).trans (sw_closeConn _))
  · exact wfs_recoverPanic _ (wfs_handleAuth _ _ h)
  · exact wfs_handleStartTLS _ h
  · exact h.of_same (sw_protocolErrorB _ _ _ _)

theorem wfs_handle (s : S) (cmd arg : Bytes) (h : WFS s) : WFS (handle s cmd arg) := by
  unfold handle
  split
  · exact h.of_same (sw_protocolError _ _ _ _)
  · exact wfs_dispatch _ _ _ h

theorem wfs_loop : ∀ (fuel : Nat) (s : S), WFS s → WFS (loop fuel s) := by
  intro fuel
  induction fuel with
  | zero => intro s h; exact h
  | succ fuel ih =>
    intro s h
    unfold loop
    split
    · exact h
    · have h1 := wfs_connReadLine s h
      generalize connReadLine s = p at h1 ⊢
      obtain ⟨s1, r⟩ := p
      simp only [] at h1
      cases r with
      | error e => cases e <;> first | exact h1 | exact h1.of_same (sw_reply _ _ _ _)
      | ok line =>
        simp only []
        have h2 : WFS (emit s1 (.cmd line)) := h1.of_same (sw_emit _ _)
        generalize emit s1 (.cmd line) = s2 at h2 ⊢
        split
        · exact ih _ (h2.of_same (sw_protocolError _ _ _ _))
        · exact ih _ (wfs_handle _ _ _ h2)

/-- **the wire invariant holds throughout every connection**: at the start of every handler and at the end -/
theorem wfs_serve (s : S) (h : WFS s) : WFS (serve s) := by
  unfold serve greet
  exact (wfs_loop _ _ (h.of_same (sw_replyB _ _ _ _))).of_same (sw_closeConn _)

end SmtpV.Server
