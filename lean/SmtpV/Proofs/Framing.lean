import SmtpV.Proofs.ServerInv
/-!
BDAT framing on the wire model (C05): with the line limit lifted, reading a chunk — into the delivery pipe or
into the void — consumes exactly the declared number of octets of the *octet stream*, however that stream is
cut into network segments and whatever already sits in bufio's buffer.  The stream is `pending w`: the buffered
octets followed by the segments still to come.
-/
namespace SmtpV.Server
open SmtpV SmtpV.Wire

theorem drop_add_append {α} (a b : List α) (d : Nat) : (a ++ b).drop (a.length + d) = b.drop d := by
  induction a with
  | nil => simp
  | cons x a ih => simp [Nat.succ_add, ih]

/-- the octets still to be read, as one stream -/
def pending (w : W) : Bytes := w.buf ++ w.segs.flatten

theorem connRead_frame (w : W) (space : Nat) :
    (connRead w space).1.buf = w.buf ∧ (connRead w space).1.limit = w.limit ∧ (connRead w space).1.err = w.err ∧
    match (connRead w space).2 with
    | .ok bs => bs ++ (connRead w space).1.segs.flatten = w.segs.flatten ∧ bs.length ≤ space
    | .error _ => (connRead w space).1.segs = w.segs := by
  unfold connRead
  cases hs : w.segs with
  | nil => simp [hs]
  | cons s rest =>
    simp only []
    split
    · rename_i hle; simp [hle]
    · refine ⟨rfl, rfl, rfl, ?_⟩
      simp only [List.flatten_cons]
      refine ⟨by rw [← List.append_assoc, List.take_append_drop], ?_⟩
      simp [List.length_take]; omega

/-- `lineLimitReader.Read` with the limit lifted is the connection's `Read` -/
theorem limRead_frame (w : W) (space : Nat) (hl : w.limit = 0) :
    (limRead w space).1.buf = w.buf ∧ (limRead w space).1.limit = 0 ∧ (limRead w space).1.err = w.err ∧
    match (limRead w space).2 with
    | .ok bs => bs ++ (limRead w space).1.segs.flatten = w.segs.flatten ∧ bs.length ≤ space
    | .error _ => (limRead w space).1.segs = w.segs := by
  have hc := connRead_frame w space
  unfold limRead
  simp only [hl, Nat.lt_irrefl, decide_false, Bool.and_false, Bool.false_eq_true, if_false]
  rcases hcr : connRead w space with ⟨w1, r⟩
  rw [hcr] at hc
  simp only [] at hc
  obtain ⟨h1, h2, h3, h4⟩ := hc
  cases r with
  | error e => exact ⟨h1, by simp [h2, hl], h3, h4⟩
  | ok bs =>
    have hw1 : w1.limit = 0 := by rw [h2, hl]
    simp only [hw1, beq_self_eq_true, if_true]
    exact ⟨h1, trivial, h3, h4⟩

/-- one `bufio.Reader.Read` with the limit lifted: what it returns is the head of the stream -/
theorem bufRead_frame (w : W) (m : Nat) (hl : w.limit = 0) :
    (bufRead w m).1.limit = 0 ∧
    match (bufRead w m).2 with
    | .ok bs => bs ++ pending (bufRead w m).1 = pending w ∧ bs.length ≤ m
    | .error _ => pending (bufRead w m).1 = pending w := by
  unfold bufRead
  split
  · rename_i hbe
    have hb : w.buf = [] := List.isEmpty_iff.mp hbe
    split
    · exact ⟨hl, by simp [pending]⟩
    · split
      · -- a large read bypasses the buffer
        have hf := limRead_frame w m hl
        rcases hlr : limRead w m with ⟨w1, r⟩
        rw [hlr] at hf
        simp only [] at hf
        obtain ⟨h1, h2, _, h4⟩ := hf
        refine ⟨h2, ?_⟩
        cases r with
        | error e => simp only [pending] at h4 ⊢; rw [h1, h4]
        | ok bs => simp only [pending] at h4 ⊢; rw [h1, hb]; simpa [hb] using h4
      · have hf := limRead_frame w bufSize hl
        rcases hlr : limRead w bufSize with ⟨w1, r⟩
        rw [hlr] at hf
        simp only [] at hf
        obtain ⟨h1, h2, _, h4⟩ := hf
        cases r with
        | error e =>
          refine ⟨h2, ?_⟩
          simp only [pending] at h4 ⊢; rw [h1, h4]
        | ok bs =>
          refine ⟨h2, ?_, by simp [List.length_take]; omega⟩
          simp only [pending, hb, List.nil_append] at h4 ⊢
          rw [← h4.1, ← List.append_assoc, List.take_append_drop]
  · refine ⟨hl, ?_, by simp [List.length_take]; omega⟩
    simp only [pending]
    rw [← List.append_assoc, List.take_append_drop]

/-- **discarding a refused chunk.**  `io.Copy(ioutil.Discard, io.LimitReader(r, n))` with the limit lifted: for some
    `d ≤ n` exactly the first `d` octets of the stream are gone — all `n` unless the source failed or ran dry. -/
theorem discardN_frame (fuel : Nat) : ∀ (w : W) (n : Nat), w.limit = 0 →
    ∃ d, d ≤ n ∧ pending (discardN fuel w n) = (pending w).drop d ∧ (discardN fuel w n).limit = 0 := by
  induction fuel with
  | zero => intro w n hl; exact ⟨0, by omega, by simp [discardN], by simpa [discardN] using hl⟩
  | succ fuel ih =>
    intro w n hl
    unfold discardN
    split
    · exact ⟨0, by omega, by simp, hl⟩
    · have hf := bufRead_frame w (min 8192 n) hl
      rcases hbr : bufRead w (min 8192 n) with ⟨w1, r⟩
      rw [hbr] at hf
      simp only [] at hf
      obtain ⟨h1, h2⟩ := hf
      cases r with
      | error e => exact ⟨0, by omega, by simpa using h2, h1⟩
      | ok bs =>
        simp only []
        obtain ⟨hp, hlen⟩ := h2
        obtain ⟨d, hd, hpd, hld⟩ := ih w1 (n - bs.length) h1
        refine ⟨bs.length + d, by have := Nat.min_le_right 8192 n; omega, ?_, hld⟩
        rw [hpd, ← hp, drop_add_append]

/-- **copying a chunk into the delivery.**  Whatever the delivery does with them, exactly `n - left` octets — the head
    of the stream — have been taken off the wire, and `left ≤ n`. -/
theorem copyChunk_frame (fuel : Nat) : ∀ (s : S) (k n cap : Nat), s.w.limit = 0 →
    (copyChunk fuel s k n cap).2.1 ≤ n ∧
    pending (copyChunk fuel s k n cap).1.w = (pending s.w).drop (n - (copyChunk fuel s k n cap).2.1) ∧
    (copyChunk fuel s k n cap).1.w.limit = 0 := by
  induction fuel with
  | zero => intro s k n cap hl; simp [copyChunk, hl]
  | succ fuel ih =>
    intro s k n cap hl
    unfold copyChunk
    split
    · rename_i hn
      have hn0 : n = 0 := by simpa using hn
      subst hn0; simp [hl]
    · have hf := bufRead_frame s.w (min cap n) hl
      rcases hbr : bufRead s.w (min cap n) with ⟨w1, r⟩
      rw [hbr] at hf
      simp only [] at hf
      obtain ⟨h1, h2⟩ := hf
      cases r with
      | error e =>
        cases e <;> simp only [] <;> exact ⟨Nat.le_refl _, by simpa using h2, h1⟩
      | ok bs =>
        simp only []
        obtain ⟨hp, hlen⟩ := h2
        have hdw : (delivWrite { s with w := w1 } k bs).1.w = w1 := by
          unfold delivWrite
          split
          · rfl
          · simp only []
            split
            · exact (delivFinish_w _ _ _).1
            · rfl
        rcases hd : delivWrite { s with w := w1 } k bs with ⟨s1, okAll⟩
        rw [hd] at hdw
        simp only [] at hdw ⊢
        have hbn : bs.length ≤ n := by have := Nat.min_le_right cap n; omega
        split
        · obtain ⟨i1, i2, i3⟩ := ih s1 k (n - bs.length) cap (by rw [hdw]; exact h1)
          refine ⟨by omega, ?_, i3⟩
          rw [i2, hdw, ← hp]
          have : n - (copyChunk fuel s1 k (n - bs.length) cap).2.1 =
              bs.length + (n - bs.length - (copyChunk fuel s1 k (n - bs.length) cap).2.1) := by omega
          rw [this, drop_add_append]
        · refine ⟨by simp only []; omega, ?_, by rw [hdw]; exact h1⟩
          simp only []
          rw [hdw, ← hp]
          have : n - (n - bs.length) = bs.length + 0 := by omega
          rw [this, drop_add_append]; simp

end SmtpV.Server

namespace SmtpV.Server
open SmtpV SmtpV.Wire

/-! ### progress: while the stream has octets and the source has not failed, every read returns some -/

/-- the harness's (and the network's) segments are non-empty, and no error is latched -/
def Live (w : W) : Prop := (∀ s ∈ w.segs, s ≠ []) ∧ w.err = none

theorem connRead_progress (w : W) (space : Nat) (hw : ∀ s ∈ w.segs, s ≠ []) (hsp : 0 < space) (hne : w.segs ≠ []) :
    ∃ bs, (connRead w space).2 = .ok bs ∧ bs ≠ [] ∧ ∀ s ∈ (connRead w space).1.segs, s ≠ [] := by
  unfold connRead
  cases hs : w.segs with
  | nil => exact absurd hs hne
  | cons s rest =>
    have hsne : s ≠ [] := hw s (by simp [hs])
    have hrest : ∀ x ∈ rest, x ≠ [] := fun x hx => hw x (by simp [hs, hx])
    simp only []
    split
    · exact ⟨s, rfl, hsne, hrest⟩
    · rename_i hgt
      refine ⟨s.take space, rfl, ?_, ?_⟩
      · intro h0
        have hlen0 := congrArg List.length h0
        rw [List.length_take, List.length_nil] at hlen0
        have : s.length ≠ 0 := by intro h; exact hsne (List.eq_nil_of_length_eq_zero h)
        omega
      · intro x hx
        rcases List.mem_cons.mp hx with rfl | hx
        · intro h0
          have := congrArg List.length h0
          simp at this; omega
        · exact hrest x hx

theorem bufRead_progress (w : W) (m : Nat) (hl : w.limit = 0) (hw : Live w) (hm : 0 < m) (hp : pending w ≠ []) :
    ∃ bs, (bufRead w m).2 = .ok bs ∧ bs ≠ [] ∧ Live (bufRead w m).1 := by
  obtain ⟨hsegs, herr⟩ := hw
  unfold bufRead
  split
  · rename_i hbe
    have hb : w.buf = [] := List.isEmpty_iff.mp hbe
    have hsne : w.segs ≠ [] := by
      intro h0; apply hp; simp [pending, hb, h0]
    simp only [herr]
    have lim : ∀ space, limRead w space = connRead w space := by
      intro space
      unfold limRead
      simp only [hl, Nat.lt_irrefl, decide_false, Bool.and_false, Bool.false_eq_true, if_false]
      have hc := connRead_frame w space
      rcases hcr : connRead w space with ⟨w1, r⟩
      rw [hcr] at hc
      simp only [] at hc
      cases r with
      | error e => rfl
      | ok bs => simp [hc.2.1, hl]
    have hcerr : ∀ space, (connRead w space).1.err = none := fun space => by rw [(connRead_frame w space).2.2.1]; exact herr
    split
    · rw [lim]
      obtain ⟨bs, h1, h2, h3⟩ := connRead_progress w m hsegs hm hsne
      exact ⟨bs, h1, h2, h3, hcerr m⟩
    · rw [lim]
      obtain ⟨bs, h1, h2, h3⟩ := connRead_progress w bufSize hsegs (by decide) hsne
      rcases hcr : connRead w bufSize with ⟨w1, r⟩
      rw [hcr] at h1 h3
      simp only [] at h1 h3
      subst h1
      simp only []
      refine ⟨bs.take m, rfl, ?_, h3, ?_⟩
      · intro h0
        have hlen0 := congrArg List.length h0
        rw [List.length_take, List.length_nil] at hlen0
        have : bs.length ≠ 0 := by intro h; exact h2 (List.eq_nil_of_length_eq_zero h)
        omega
      · have := hcerr bufSize; rw [hcr] at this; exact this
  · rename_i hbe
    refine ⟨w.buf.take m, rfl, ?_, hsegs, herr⟩
    intro h0
    have hlen0 := congrArg List.length h0
    rw [List.length_take, List.length_nil] at hlen0
    have : w.buf.length ≠ 0 := by
      intro h; apply hbe; simp [List.eq_nil_of_length_eq_zero h]
    omega

/-- **exactly the declared octets.**  On a live source that still holds the `n` declared octets, discarding the chunk
    removes exactly those `n` from the stream — whatever the segmentation. -/
theorem discardN_exact (fuel : Nat) : ∀ (w : W) (n : Nat), w.limit = 0 → Live w → n ≤ (pending w).length → n ≤ fuel →
    pending (discardN fuel w n) = (pending w).drop n ∧ Live (discardN fuel w n) := by
  induction fuel with
  | zero =>
    intro w n _ hw _ hf
    have : n = 0 := by omega
    subst this; simp [discardN, hw]
  | succ fuel ih =>
    intro w n hl hw hlen hf
    unfold discardN
    split
    · rename_i hn
      have hn0 : n = 0 := by simpa using hn
      subst hn0; exact ⟨by simp, hw⟩
    · rename_i hn
      have hn0 : n ≠ 0 := by simpa using hn
      have hpne : pending w ≠ [] := by
        intro h0; rw [h0] at hlen; simp at hlen; exact hn0 hlen
      obtain ⟨bs, hb1, hb2, hb3⟩ := bufRead_progress w (min 8192 n) hl hw (by omega) hpne
      have hf2 := bufRead_frame w (min 8192 n) hl
      rcases hbr : bufRead w (min 8192 n) with ⟨w1, r⟩
      rw [hbr] at hb1 hb3 hf2
      simp only [] at hb1 hb3 hf2
      subst hb1
      simp only []
      obtain ⟨hl1, hp, hble⟩ := hf2
      have hbpos : 0 < bs.length := List.length_pos_iff.mpr hb2
      have hbn : bs.length ≤ n := by have := Nat.min_le_right 8192 n; omega
      have hlen1 : n - bs.length ≤ (pending w1).length := by
        have := congrArg List.length hp; simp at this; omega
      obtain ⟨i1, i2⟩ := ih w1 (n - bs.length) hl1 hb3 hlen1 (by omega)
      refine ⟨?_, i2⟩
      rw [i1, ← hp]
      have : n = bs.length + (n - bs.length) := by omega
      rw [this, drop_add_append]
      congr 1; omega

end SmtpV.Server

namespace SmtpV.Server
open SmtpV SmtpV.Wire

/-- copying from a live source that holds the chunk: the source stays live, and what is left of the chunk is still
    in the stream -/
theorem copyChunk_live (fuel : Nat) : ∀ (s : S) (k n cap : Nat), s.w.limit = 0 → Live s.w → 0 < cap →
    n ≤ (pending s.w).length →
    Live (copyChunk fuel s k n cap).1.w ∧ (copyChunk fuel s k n cap).2.1 ≤ (pending (copyChunk fuel s k n cap).1.w).length := by
  induction fuel with
  | zero => intro s k n cap _ hw _ hn; simpa [copyChunk] using ⟨hw, hn⟩
  | succ fuel ih =>
    intro s k n cap hl hw hcap hn
    unfold copyChunk
    split
    · exact ⟨hw, by simp⟩
    · rename_i hn0
      have hn0 : n ≠ 0 := by simpa using hn0
      have hpne : pending s.w ≠ [] := by
        intro h0; rw [h0] at hn; simp at hn; exact hn0 hn
      obtain ⟨bs, hb1, hb2, hb3⟩ := bufRead_progress s.w (min cap n) hl hw (by omega) hpne
      have hf2 := bufRead_frame s.w (min cap n) hl
      rcases hbr : bufRead s.w (min cap n) with ⟨w1, r⟩
      rw [hbr] at hb1 hb3 hf2
      simp only [] at hb1 hb3 hf2
      subst hb1
      simp only []
      obtain ⟨hl1, hp, hble⟩ := hf2
      have hbn : bs.length ≤ n := by have := Nat.min_le_right cap n; omega
      have hlen1 : n - bs.length ≤ (pending w1).length := by
        have := congrArg List.length hp; simp at this; omega
      have hdw : (delivWrite { s with w := w1 } k bs).1.w = w1 := by
        unfold delivWrite
        split
        · rfl
        · simp only []
          split
          · exact (delivFinish_w _ _ _).1
          · rfl
      rcases hd : delivWrite { s with w := w1 } k bs with ⟨s1, okAll⟩
      rw [hd] at hdw
      simp only [] at hdw ⊢
      split
      · exact ih s1 k (n - bs.length) cap (by rw [hdw]; exact hl1) (by rw [hdw]; exact hb3) hcap (by rw [hdw]; exact hlen1)
      · simp only []
        rw [hdw]; exact ⟨hb3, hlen1⟩

/-- **a chunk that could not be delivered is still skipped exactly.**  Copy as far as the delivery takes it, then
    discard the rest (`bdatFail`): on a live source holding the `n` declared octets, exactly `n` are gone. -/
theorem copy_then_discard_exact (s : S) (k n cap : Nat) (hl : s.w.limit = 0) (hw : Live s.w) (hcap : 0 < cap)
    (hn : n ≤ (pending s.w).length) (f1 f2 : Nat)
    (hf2 : (pending (copyChunk f1 s k n cap).1.w).length ≤ f2) :
    pending (discardN f2 (copyChunk f1 s k n cap).1.w (copyChunk f1 s k n cap).2.1) = (pending s.w).drop n := by
  obtain ⟨c1, c2, c3⟩ := copyChunk_frame f1 s k n cap hl
  obtain ⟨l1, l2⟩ := copyChunk_live f1 s k n cap hl hw hcap hn
  obtain ⟨d1, _⟩ := discardN_exact f2 (copyChunk f1 s k n cap).1.w (copyChunk f1 s k n cap).2.1 c3 l1 l2
    (Nat.le_trans l2 hf2)
  rw [d1, c2, List.drop_drop]
  congr 1; omega

end SmtpV.Server
