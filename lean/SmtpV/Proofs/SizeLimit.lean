import SmtpV.Proofs.ParamTrip
import SmtpV.Proofs.BdatLimit
/-!
C06, the declared size: a MAIL command whose SIZE parameter exceeds the limit is refused with 552 by the parameter switch —
before the backend's `Mail` is called (`handleMail` answers a refusal of the switch with a reply and nothing else).
-/
namespace SmtpV.Server
open SmtpV SmtpV.Spec SmtpV.Text SmtpV.Props.C14

theorem mailParams_size_over (cfg : Cfg) (rest : List (Bytes × Bytes)) (o : MailOpts) (bm : Bool) (n : Nat) (h : n < 2 ^ 63)
    (hm : cfg.maxMsg > 0 ∧ n > cfg.maxMsg) :
    Server.mailParams cfg (("SIZE".b, natToDec n) :: rest) o bm = .refuse 552 ⟨5, 3, 4⟩ "Max message size exceeded" := by
  rw [Server.mailParams]
  have hk : ("SIZE".b == "SIZE".b) = true := by decide +kernel
  simp only [hk, if_true, parseUintDec_natToDec n 63 h]
  have : (decide (cfg.maxMsg > 0) && decide (n > cfg.maxMsg)) = true := by simp [hm.1, hm.2]
  simp only [this, if_true]

end SmtpV.Server
