import SmtpV.Proofs.DataResume
/-!
A command line that was cut short — the connection failed, or timed out, before its line feed arrived — is not handed to the
command loop: `Conn.readLine` reports the connection's error instead (conn.go, repaired; before, bufio's "rest of the input as a
line" was executed as a command).  On the wire model: when no LF is pending, `readLine` never returns a line.
-/
namespace SmtpV.Server
open SmtpV SmtpV.Wire

def NoLF (bs : Bytes) : Prop := ∀ b ∈ bs, b ≠ LF

theorem NoLF.append {a b : Bytes} (ha : NoLF a) (hb : NoLF b) : NoLF (a ++ b) := by
  intro x hx; rcases List.mem_append.mp hx with h | h
  · exact ha x h
  · exact hb x h

theorem NoLF.left {a b : Bytes} (h : NoLF (a ++ b)) : NoLF a := fun x hx => h x (List.mem_append.mpr (Or.inl hx))
theorem NoLF.right {a b : Bytes} (h : NoLF (a ++ b)) : NoLF b := fun x hx => h x (List.mem_append.mpr (Or.inr hx))

theorem lfEnd_go_none (s : Bytes) (i : Nat) (h : NoLF s) : lfEnd.go s i = none := by
  induction s generalizing i with
  | nil => rfl
  | cons c t ih =>
    have hc : (c == LF) = false := by simpa using h c (by simp)
    simp only [lfEnd.go, hc, Bool.false_eq_true, if_false]
    exact ih _ (fun x hx => h x (by simp [hx]))

theorem lfEnd_none (s : Bytes) (h : NoLF s) : lfEnd s = none := lfEnd_go_none s 0 h

/-- the invariant of the line reader on a stream without a line feed -/
def Cut (w : W) : Prop := NoLF w.buf ∧ (w.err = none → NoLF (pending w))

theorem readSlice_cut : ∀ (fuel : Nat) (w : W), Cut w →
    (readSlice fuel w).1.tripped = true ∨
    (match (readSlice fuel w).2 with
     | .line _ => False
     | .full _ => Cut (readSlice fuel w).1
     | .errWith _ _ => True) := by
  intro fuel
  induction fuel with
  | zero => intro w _; exact Or.inr trivial
  | succ fuel ih =>
    intro w hc
    unfold readSlice
    rw [lfEnd_none w.buf hc.1]
    simp only []
    cases he : w.err with
    | some e => exact Or.inr trivial
    | none =>
      simp only []
      have hp := hc.2 he
      split
      · right
        refine ⟨fun x hx => by simp at hx, fun _ => ?_⟩
        simp only [pending, List.nil_append]
        exact NoLF.right hp
      · rename_i hlt
        by_cases ht : (fill w).tripped = true
        · exact Or.inl (readSlice_trip fuel _ ht)
        · have ht' : (fill w).tripped = false := by simpa using ht
          obtain ⟨hpe, _⟩ := (fill_facts w (by omega)).2.2.2.2.2 ht' he
          have hcut : Cut (fill w) := by
            refine ⟨?_, fun _ => by rw [hpe]; exact hp⟩
            have : NoLF (pending (fill w)) := by rw [hpe]; exact hp
            exact NoLF.left this
          exact ih _ hcut

theorem bufioReadLine_cut (fuel : Nat) (w : W) (hc : Cut w) :
    (bufioReadLine fuel w).1.tripped = true ∨
    (match (bufioReadLine fuel w).2 with
     | .err _ => True
     | .piece _ more => more = true ∧ Cut (bufioReadLine fuel w).1) := by
  have h := readSlice_cut fuel w hc
  unfold bufioReadLine
  rcases hr : readSlice fuel w with ⟨w1, r⟩
  rw [hr] at h
  simp only [] at h ⊢
  cases r with
  | line bs =>
    rcases h with h | h
    · exact Or.inl h
    · exact absurd h id
  | errWith bs e => exact Or.inr trivial
  | full bs =>
    have hcut : w1.tripped = true ∨ Cut w1 := h
    by_cases hcr : (bs.getLast? == some CR) = true
    · simp only [hcr, if_true]
      rcases hcut with h | h
      · exact Or.inl h
      · right
        refine ⟨trivial, ?_, fun he => ?_⟩
        · intro x hx; simp at hx; subst hx; decide
        · simp only [pending]
          have : NoLF (pending w1) := h.2 he
          refine NoLF.append ?_ (NoLF.right this)
          intro x hx; simp at hx; subst hx; decide
    · simp only [hcr, Bool.false_eq_true, if_false]
      rcases hcut with h | h
      · exact Or.inl h
      · exact Or.inr ⟨trivial, h⟩

theorem readLineAux_cut : ∀ (n fuel : Nat) (w : W) (acc : Bytes), Cut w →
    (readLineAux n fuel w acc).1.tripped = true ∨ ∃ e, (readLineAux n fuel w acc).2 = .error e := by
  intro n
  induction n with
  | zero => intro fuel w acc _; exact Or.inr ⟨_, rfl⟩
  | succ n ih =>
    intro fuel w acc hc
    have hb := bufioReadLine_cut fuel w hc
    unfold readLineAux
    rcases hr : bufioReadLine fuel w with ⟨w1, r⟩
    rw [hr] at hb
    simp only [] at hb ⊢
    cases r with
    | err e => exact Or.inr ⟨_, rfl⟩
    | piece bs more =>
      cases more with
      | false =>
        rcases hb with hb | hb
        · exact Or.inl hb
        · exact absurd hb.1 (by simp)
      | true =>
        rcases hb with hb | hb
        · exact readLineAux_trip n fuel w1 _ hb
        · exact ih fuel w1 _ hb.2

/-- **no line feed pending ⇒ no command.**  Whatever is buffered and whatever segments are still to come: if there is no LF among
    them, `Conn.readLine` reports an error — the command loop ends — and never a line. -/
theorem readLine_cut (w : W) (h : NoLF (pending w)) : ∃ e, (readLine w).2 = .error e := by
  have hc : Cut w := ⟨NoLF.left h, fun _ => h⟩
  have := readLineAux_cut (fuelOf w) (fuelOf w) w [] hc
  unfold readLine
  simp only []
  rcases hr : readLineAux (fuelOf w) (fuelOf w) w [] with ⟨w1, r⟩
  rw [hr] at this
  cases r with
  | error e => exact ⟨e, rfl⟩
  | ok l =>
    rcases this with h1 | ⟨e, h2⟩
    · simp only [] at h1 ⊢
      rw [h1]; exact ⟨_, rfl⟩
    · cases h2

end SmtpV.Server
