import SmtpV.Proofs.DataSched
/-!
The converse direction: the machine reaches its EOF state **only** on a terminated stream
(`run_eof_terminated`), so nothing but `CRLF.CRLF` (or a leading `.CRLF`) ends DATA.
-/
namespace SmtpV.DataReader
open SmtpV SmtpV.Spec

theorem run_eq_feed (s : St) (a : Bytes) (h : (feed s a).1 ≠ .eof) :
    run s a = ((feed s a).1, (feed s a).2, []) := by
  have := run_of_feed s a [] h
  simpa using this

theorem midState_ne_eof (s : St) (u : Bytes) (hs : s = .data ∨ s = .cr) : midState s u ≠ .eof := by
  unfold midState
  split
  · rcases hs with rfl | rfl <;> decide
  · split <;> decide

/-- without a CRLF the machine, started at the beginning of a line, never reaches EOF -/
theorem feed_bol_noCRLF (s : Bytes) (hn : NoCRLF s) : (feed .bol s).1 ≠ .eof := by
  match s with
  | [] => simp [feed]
  | c :: t =>
    have hn1 : NoCRLF t := NoCRLF_tail hn
    by_cases hc : c = DOT
    · subst hc
      match t with
      | [] => simp [feed, step]
      | d :: t =>
        have hn2 : NoCRLF t := NoCRLF_tail hn1
        by_cases hd : d = CR
        · subst hd
          have hh : t.head? ≠ some LF := NoCRLF_head hn1
          match t with
          | [] => simp [feed, step]
          | e :: t =>
            have he : e ≠ LF := by intro h; subst h; exact hh (by simp)
            have hn3 : NoCRLF t := NoCRLF_tail hn2
            by_cases heCR : e = CR
            · subst heCR
              have hh3 : t.head? ≠ some LF := NoCRLF_head hn2
              have := feed_mid t .cr (Or.inr rfl) (fun _ => hh3) hn3
              simp [feed, step, this]
              exact midState_ne_eof _ _ (Or.inr rfl)
            · have := feed_mid t .data (Or.inl rfl) (fun h => by cases h) hn3
              simp [feed, step, he, heCR, this]
              exact midState_ne_eof _ _ (Or.inl rfl)
        · have := feed_mid t .data (Or.inl rfl) (fun h => by cases h) hn2
          simp [feed, step, hd, this]
          exact midState_ne_eof _ _ (Or.inl rfl)
    · by_cases hcr : c = CR
      · subst hcr
        have hh : t.head? ≠ some LF := NoCRLF_head hn
        have := feed_mid t .cr (Or.inr rfl) (fun _ => hh) hn1
        simp [feed, step, this]
        exact midState_ne_eof _ _ (Or.inr rfl)
      · have := feed_mid t .data (Or.inl rfl) (fun h => by cases h) hn1
        simp [feed, step, hc, hcr, this]
        exact midState_ne_eof _ _ (Or.inl rfl)

/-- the first CRLF of a stream splits off its first line -/
theorem exists_first_crlf (s : Bytes) (h : [CR, LF] <:+: s) :
    ∃ t s', s = t ++ [CR, LF] ++ s' ∧ NoCRLF (t ++ [CR]) := by
  induction s with
  | nil => simp at h
  | cons a s1 ih =>
    by_cases hp : [CR, LF] <+: a :: s1
    · obtain ⟨s', hs'⟩ := hp
      refine ⟨[], s', by simpa using hs'.symm, ?_⟩
      intro hh
      have := hh.length_le
      simp at this
    · have hin : [CR, LF] <:+: s1 := by
        rcases List.infix_cons_iff.mp h with h | h
        · exact absurd h hp
        · exact h
      obtain ⟨t1, s', hs1, hn1⟩ := ih hin
      refine ⟨a :: t1, s', by simp [hs1], ?_⟩
      intro hh
      rcases List.infix_cons_iff.mp (by simpa using hh) with h | h
      · -- CRLF at the head of a :: (t1 ++ [CR]) would be CRLF at the head of a :: s1
        apply hp
        obtain ⟨x, hx⟩ := h
        cases t1 with
        | nil => simp at hx
        | cons b t1 =>
          simp at hx
          obtain ⟨rfl, rfl, _⟩ := hx
          exact ⟨t1 ++ [CR, LF] ++ s', by simp [hs1]⟩
      · exact hn1 h

/-- **Only the marker ends DATA**: reaching EOF means the stream is terminated, with exactly the
    delivered octets as body and exactly the unread input as rest. -/
theorem run_eof_terminated (s o r : Bytes) (h : run .bol s = (.eof, o, r)) : Terminated s o r := by
  induction hlen : s.length using Nat.strongRecOn generalizing s o r with
  | _ n ih =>
    by_cases hc : [CR, LF] <:+: s
    · obtain ⟨t, s', hs, hn⟩ := exists_first_crlf s hc
      have hl : IsLine (t ++ [CR, LF]) := ⟨t, rfl, hn⟩
      by_cases hm : t ++ [CR, LF] = Spec.marker
      · rw [hs, hm, run_marker] at h
        simp at h
        obtain ⟨rfl, rfl⟩ := h
        exact ⟨[], by simp [hs, hm], by simp, by simp⟩
      · have hf := feed_line _ hl hm
        have hne : (feed .bol (t ++ [CR, LF])).1 ≠ .eof := by simp [hf]
        rw [hs, run_of_feed _ _ _ hne, hf] at h
        simp only [Prod.mk.injEq] at h
        obtain ⟨h1, h2, h3⟩ := h
        have hrun' : run .bol s' = (.eof, (run .bol s').2.1, r) := by
          ext <;> simp [h1, h3]
        have hlt : s'.length < n := by
          rw [← hlen, hs]; simp; omega
        obtain ⟨ls, hls, hall, hbody⟩ := ih s'.length hlt s' _ r hrun' rfl
        refine ⟨(t ++ [CR, LF]) :: ls, ?_, ?_, ?_⟩
        · rw [hs]; conv => lhs; rw [hls]
          simp [List.append_assoc]
        · intro l hl'
          simp only [List.mem_cons] at hl'
          rcases hl' with rfl | hl'
          · exact ⟨hl, hm⟩
          · exact hall l hl'
        · rw [← h2, hbody]; simp
    · have hne := feed_bol_noCRLF s hc
      rw [run_eq_feed _ _ hne] at h
      simp only [Prod.mk.injEq] at h
      exact absurd h.1 hne

/-- `C02_only_marker` in one line: EOF is reached iff the stream is terminated. -/
theorem run_eof_iff (s : Bytes) :
    (run .bol s).1 = .eof ↔ ∃ body rest, Terminated s body rest := by
  constructor
  · intro h
    exact ⟨_, _, run_eof_terminated s (run .bol s).2.1 (run .bol s).2.2 (by ext <;> simp [h])⟩
  · rintro ⟨body, rest, h⟩
    rw [run_terminated s body rest h]

end SmtpV.DataReader
