import SmtpV.Proofs.BdatGrow
/-!
C05, what the backend is handed: copying a chunk from a live source that holds it, into a running delivery that takes whatever
comes, appends exactly the first `n` octets of the stream to what the delivery has been handed — nothing more, nothing less,
nothing else — and leaves the stream exactly behind them, whatever the segmentation and the copy buffer size.
-/
namespace SmtpV.Server
open SmtpV SmtpV.Wire SmtpV.Spec

theorem take_add_append {α} (a b : List α) (d : Nat) : (a ++ b).take (a.length + d) = a ++ b.take d := by
  induction a with
  | nil => simp
  | cons x a ih => simp [Nat.succ_add, ih]

/-- the octets delivery `k` has been handed -/
def octs (s : S) (k : Nat) : Bytes := ((s.drecs[k]?).map (fun d => d.octets)).getD []

/-- the delivery is running and reads to the end -/
def Hungry (s : S) (k : Nat) : Prop := delivRunning s k = true ∧ (delivDec s k).want = none

theorem delivWrite_hungry (s : S) (k : Nat) (bs : Bytes) (h : Hungry s k) :
    (delivWrite s k bs).2 = true ∧ (delivWrite s k bs).1.w = s.w ∧ octs (delivWrite s k bs).1 k = octs s k ++ bs ∧
    Hungry (delivWrite s k bs).1 k := by
  obtain ⟨hr, hw⟩ := h
  have hd : ∃ d, s.drecs[k]? = some d ∧ d.finished = false := by
    unfold delivRunning at hr
    cases hs : s.drecs[k]? with
    | none => rw [hs] at hr; cases hr
    | some d => rw [hs] at hr; exact ⟨d, rfl, by simpa using hr⟩
  obtain ⟨d, hd, hfin⟩ := hd
  have htake : delivTake s k bs = bs.length := by unfold delivTake; simp [hw]
  have hreach : delivReached s k bs.length = false := by unfold delivReached; simp [hw]
  unfold delivWrite
  simp only [hr, Bool.not_true, Bool.false_eq_true, if_false, htake, hreach, List.take_length, beq_self_eq_true]
  have hget : (setDrec s k (fun d => { d with octets := d.octets ++ bs })).drecs[k]? = some { d with octets := d.octets ++ bs } := by
    rw [setDrec_get]; simp [hd]
  refine ⟨trivial, rfl, ?_, ?_, ?_⟩
  · simp only [octs, hget, hd, Option.map_some, Option.getD_some]
  · unfold delivRunning; rw [hget]; simp [hfin]
  · have : delivDec (setDrec s k (fun d => { d with octets := d.octets ++ bs })) k = delivDec s k := rfl
    rw [this]; exact hw

theorem copyChunk_exact (fuel : Nat) : ∀ (s : S) (k n cap : Nat), s.w.limit = 0 → Live s.w → 0 < cap →
    n ≤ (pending s.w).length → n ≤ fuel → Hungry s k →
    (copyChunk fuel s k n cap).2.1 = 0 ∧
    pending (copyChunk fuel s k n cap).1.w = (pending s.w).drop n ∧
    octs (copyChunk fuel s k n cap).1 k = octs s k ++ (pending s.w).take n ∧
    Hungry (copyChunk fuel s k n cap).1 k ∧ Live (copyChunk fuel s k n cap).1.w ∧ (copyChunk fuel s k n cap).1.w.limit = 0 := by
  induction fuel with
  | zero =>
    intro s k n cap hl hw _ _ hn hh
    have : n = 0 := by omega
    subst this
    simp [copyChunk, hh, hw, hl]
  | succ fuel ih =>
    intro s k n cap hl hw hcap hlen hn hh
    unfold copyChunk
    split
    · rename_i hn0
      have : n = 0 := by simpa using hn0
      subst this
      simp [hh, hw, hl]
    · rename_i hn0
      have hn0 : n ≠ 0 := by simpa using hn0
      have hpne : pending s.w ≠ [] := by
        intro h0; rw [h0] at hlen; simp at hlen; exact hn0 hlen
      obtain ⟨bs, hb1, hb2, hb3⟩ := bufRead_progress s.w (min cap n) hl hw (by omega) hpne
      have hf2 := bufRead_frame s.w (min cap n) hl
      rcases hbr : bufRead s.w (min cap n) with ⟨w1, r⟩
      rw [hbr] at hb1 hb3 hf2
      simp only [] at hb1 hb3 hf2
      subst hb1
      simp only []
      obtain ⟨hl1, hp, hble⟩ := hf2
      have hbn : bs.length ≤ n := by have := Nat.min_le_right cap n; omega
      have hpos : 0 < bs.length := List.length_pos_iff.mpr hb2
      have hh1 : Hungry { s with w := w1 } k := hh
      obtain ⟨d1, d2, d3, d4⟩ := delivWrite_hungry { s with w := w1 } k bs hh1
      rcases hd : delivWrite { s with w := w1 } k bs with ⟨s1, okAll⟩
      rw [hd] at d1 d2 d3 d4
      simp only [] at d1 d2 d3 d4 ⊢
      subst d1
      simp only [if_true]
      have hw1 : s1.w = w1 := d2
      have hlen1 : n - bs.length ≤ (pending s1.w).length := by
        rw [hw1]
        have := congrArg List.length hp; simp at this; omega
      obtain ⟨i1, i2, i3, i4, i5, i6⟩ := ih s1 k (n - bs.length) cap (by rw [hw1]; exact hl1) (by rw [hw1]; exact hb3) hcap hlen1
        (by omega) d4
      refine ⟨i1, ?_, ?_, i4, i5, i6⟩
      · rw [i2, hw1, ← hp]
        conv => rhs; rw [show n = bs.length + (n - bs.length) by omega, drop_add_append]
      · rw [i3, d3, hw1, ← hp]
        have : octs ({ s with w := w1 } : S) k = octs s k := rfl
        rw [this, List.append_assoc]
        congr 1
        conv => rhs; rw [show n = bs.length + (n - bs.length) by omega, take_add_append]

end SmtpV.Server
