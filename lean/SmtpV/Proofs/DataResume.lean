import SmtpV.Proofs.DataWire
import SmtpV.Proofs.ServerHandlers
/-!
Resumption after DATA on the server model (C02): whatever the backend of `dataSync` does — reads all, part
or nothing of the message, accepts, rejects, panics — and whatever the size limit, the mode and the segmentation
of the connection's octet stream, once the handler returns the stream is positioned exactly behind the end
marker, or the connection is past executing commands (closed / line limiter latched / nothing left to read).
-/
namespace SmtpV.Server
open SmtpV SmtpV.Wire SmtpV.DataReader SmtpV.Spec

/-- where the connection's octet stream stands after the DATA handler, relative to the stream `p0` it started on;
    `octets` is what the backend was handed -/
def Resumed (p0 octets : Bytes) (w' : W) : Prop :=
  w'.tripped = true ∨ pending w' = [] ∨
  ∃ tail rest, Terminated p0 (octets ++ tail) rest ∧ pending w' = rest

theorem writeLmtpStatuses_w (sts : List (Bytes × BRes)) : ∀ (s : S), (writeLmtpStatuses s sts).w = s.w := by
  induction sts with
  | nil => intro s; rfl
  | cons x xs ih =>
    intro s
    simp only [writeLmtpStatuses, List.foldl_cons] at ih ⊢
    rw [ih]; simp

theorem wireFuel_ok (w : W) (r : DR) : mu w + held r.state < wireFuel w := by
  have : held r.state ≤ 1 := by cases r.state <;> simp [held]
  simp only [wireFuel, fuelOf_eq]; omega

/-- the drain after the backend's reads lands behind the marker -/
theorem drain_resumed (p0 octets : Bytes) (r1 : DR) (w1 : W) (hwf : WF w1)
    (hrun : w1.tripped = false → RunD .bol p0 r1.state (pending w1) octets) :
    Resumed p0 octets (drain (wireFuel w1) r1 w1) := by
  obtain ⟨_, d2, d3⟩ := drain_spec (wireFuel w1) r1 w1 hwf (wireFuel_ok w1 r1)
  cases ht : (drain (wireFuel w1) r1 w1).tripped with
  | true => exact Or.inl ht
  | false =>
    rcases d3 ht with h | ⟨out, hr⟩
    · exact Or.inr (Or.inl h)
    · refine Or.inr (Or.inr ⟨out, pending (drain (wireFuel w1) r1 w1), ?_, rfl⟩)
      have h := (hrun (not_tripped_of d2 ht)).trans hr
      unfold RunD at h
      simp only [run_eof, List.append_nil] at h
      exact run_eof_terminated p0 _ _ h

theorem closeConn_closed (s : S) : (closeConn s).c.closed = true := by
  unfold closeConn closeSock
  split
  · assumption
  · rfl

/-- **resumption.**  After the synchronous DATA delivery: a panic escapes (the connection is then closed by
    `handle`), or the connection has been closed, or the stream stands as `Resumed` says. -/
theorem dataSync_resume (s : S) (id : Nat) (hwf : WF s.w) :
    (dataSync s id).2 = true ∨ (dataSync s id).1.c.closed = true ∨
    ∃ octets, Resumed (pending s.w) octets (dataSync s id).1.w := by
  unfold dataSync
  rcases hpd : popData s with ⟨dec, s1⟩
  have hs1 : s1.w = s.w := by
    have : (popData s).2.w = s.w := by unfold popData; split <;> rfl
    rw [hpd] at this; exact this
  simp only []
  rcases hbd : beginData s1 id dec with ⟨s2, k⟩
  have hs2 : s2.w = s.w := by
    have : (beginData s1 id dec).1.w = s1.w := rfl
    rw [hbd] at this; rw [this, hs1]
  simp only []
  have hb := backendRead_spec (wireFuel (emit s2 (.dataBegin id k)).w) (newDataReader (emit s2 (.dataBegin id k)))
    (emit s2 (.dataBegin id k)).w dec.want dec.rsz [] (by rw [emit_w, hs2]; exact hwf)
  rcases hbr : backendRead (wireFuel (emit s2 (.dataBegin id k)).w) (newDataReader (emit s2 (.dataBegin id k)))
    (emit s2 (.dataBegin id k)).w dec.want dec.rsz [] with ⟨r1, w1, octets, e⟩
  rw [hbr] at hb
  simp only [] at hb ⊢
  obtain ⟨b1, _, b3⟩ := hb
  have hr0 : (newDataReader (emit s2 (.dataBegin id k))).state = .bol := by
    unfold newDataReader; split <;> rfl
  have hrun : w1.tripped = false → RunD .bol (pending s.w) r1.state (pending w1) octets := by
    intro ht
    obtain ⟨out, ho, hr⟩ := b3 ht
    simp only [List.nil_append] at ho
    subst ho
    rw [hr0, emit_w, hs2] at hr
    exact hr
  have hres := drain_resumed (pending s.w) octets r1 w1 b1 hrun
  generalize hs3 : setW (emit s2 (.dataBegin id k)) w1 = s3
  have hw3 : s3.w = w1 := by rw [← hs3]; rfl
  split
  · -- plain SMTP
    unfold dataFinishSmtp
    simp only []
    split
    · exact Or.inl rfl
    · refine Or.inr (Or.inr ⟨octets, ?_⟩)
      simp only [(resetConn_c _).2.1, replyB_w, setW, setDrec_w, hw3]
      exact hres
  · split
    · unfold dataFinishLmtpPlain
      simp only []
      split
      · exact Or.inl rfl
      · refine Or.inr (Or.inr ⟨octets, ?_⟩)
        simp only [(resetConn_c _).2.1, writeLmtpStatuses_w, setW, setDrec_w, hw3]
        exact hres
    · unfold dataFinishLmtpSess
      simp only []
      have hclosed : ∀ x : S, (resetConn (closeConn x)).c.closed = true := by
        intro x; rw [(resetConn_c _).1]; exact closeConn_closed _
      split <;> split
      all_goals first
        | exact Or.inr (Or.inl (hclosed _))
        | (refine Or.inr (Or.inr ⟨octets, ?_⟩)
           simp only [(resetConn_c _).2.1, writeLmtpStatuses_w, setW, setDrec_w, hw3]
           exact hres)

/-! ### a latched limiter or an exhausted stream means: no further command -/

theorem readSlice_trip : ∀ (fuel : Nat) (w : W), w.tripped = true → (readSlice fuel w).1.tripped = true := by
  intro fuel
  induction fuel with
  | zero => intro w h; exact h
  | succ fuel ih =>
    intro w h
    unfold readSlice
    split
    · exact h
    · split
      · exact h
      · split
        · exact h
        · rename_i hlt
          exact ih _ ((fill_facts w (by omega)).1 h)

theorem bufioReadLine_trip (fuel : Nat) (w : W) (h : w.tripped = true) : (bufioReadLine fuel w).1.tripped = true := by
  have := readSlice_trip fuel w h
  unfold bufioReadLine
  split <;> rename_i heq <;> rw [heq] at this <;> simp only [] at this
  · split <;> exact this
  · exact this
  · exact this

theorem readLineAux_trip : ∀ (n fuel : Nat) (w : W) (acc : Bytes), w.tripped = true →
    (readLineAux n fuel w acc).1.tripped = true ∨ ∃ e, (readLineAux n fuel w acc).2 = .error e := by
  intro n
  induction n with
  | zero => intro fuel w acc _; exact Or.inr ⟨_, rfl⟩
  | succ n ih =>
    intro fuel w acc h
    have hb := bufioReadLine_trip fuel w h
    unfold readLineAux
    split <;> rename_i heq <;> rw [heq] at hb <;> simp only [] at hb
    · exact Or.inr ⟨_, rfl⟩
    · exact Or.inl hb
    · exact ih fuel _ _ hb

/-- once the line limiter has tripped, `Conn.readLine` only ever reports an error -/
theorem readLine_tripped (w : W) (h : w.tripped = true) : ∃ e, (readLine w).2 = .error e := by
  have := readLineAux_trip (fuelOf w) (fuelOf w) w [] h
  unfold readLine
  simp only []
  rcases hr : readLineAux (fuelOf w) (fuelOf w) w [] with ⟨w1, r⟩
  rw [hr] at this
  cases r with
  | error e => exact ⟨e, rfl⟩
  | ok l =>
    rcases this with h1 | ⟨e, h2⟩
    · simp only [] at h1 ⊢
      rw [h1]; exact ⟨_, rfl⟩
    · cases h2

theorem fill_dry (w : W) (hb : w.buf = []) (hs : w.segs = []) : (fill w).buf = [] ∧ (fill w).err.isSome = true := by
  have key : ∃ w1 e, limRead w (bufSize - w.buf.length) = (w1, Except.error e) ∧ w1.buf = [] := by
    unfold limRead
    split
    · exact ⟨_, _, rfl, hb⟩
    · simp only [connRead, hs]
      exact ⟨_, _, rfl, hb⟩
  obtain ⟨w1, e, h, hb1⟩ := key
  unfold fill
  rw [h]
  exact ⟨hb1, rfl⟩

theorem readSlice_dry (fuel : Nat) (w : W) (hb : w.buf = []) (hs : w.segs = []) :
    ∃ w1 e, readSlice (fuel + 2) w = (w1, .errWith [] e) := by
  have hlf : lfEnd ([] : Bytes) = none := rfl
  unfold readSlice
  rw [hb, hlf]
  simp only []
  cases he : w.err with
  | some e => exact ⟨_, e, rfl⟩
  | none =>
    simp only [List.length_nil, bufSize]
    obtain ⟨f1, f2⟩ := fill_dry { w with buf := [] } rfl hs
    have hw : ({ w with buf := [] } : W) = w := by cases w; simp_all
    rw [hw] at f1 f2
    simp only [ge_iff_le, Nat.le_zero_eq, Nat.succ_ne_zero, ↓reduceIte]
    unfold readSlice
    rw [f1, hlf]
    simp only []
    cases he2 : (fill w).err with
    | none => rw [he2] at f2; cases f2
    | some e => exact ⟨_, e, rfl⟩

/-- with nothing buffered and nothing more to come, `Conn.readLine` reports the source's error -/
theorem readLine_dry (w : W) (hwf : WF w) (hp : pending w = []) : ∃ e, (readLine w).2 = .error e := by
  have hb : w.buf = [] := (List.append_eq_nil_iff.mp hp).1
  have hs : w.segs = [] := by
    have hf : w.segs.flatten = [] := (List.append_eq_nil_iff.mp hp).2
    cases hsegs : w.segs with
    | nil => rfl
    | cons x t =>
      exfalso
      rw [hsegs] at hf
      simp only [List.flatten_cons, List.append_eq_nil_iff] at hf
      exact hwf.ne x (by rw [hsegs]; simp) hf.1
  have hfu : fuelOf w = 6 + 2 := by simp [fuelOf, hb, hs]
  obtain ⟨w1, e, h⟩ := readSlice_dry 6 w hb hs
  unfold readLine
  simp only [hfu]
  unfold readLineAux bufioReadLine
  rw [h]
  exact ⟨e, by simp⟩

end SmtpV.Server
