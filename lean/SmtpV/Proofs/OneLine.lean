import SmtpV.Model.Client
/-!
No octet that the client's command-line builders produce is CR or LF (C15): every argument either is
checked by `validateLine`, comes from a fixed keyword set, is a decimal number, or went through one of
the encoders, whose output alphabet is shown here to exclude CR and LF.
-/
namespace SmtpV.OneLine
open SmtpV SmtpV.Text SmtpV.Xtext SmtpV.Client

/-- the octet is neither CR nor LF -/
abbrev okB (b : Byte) : Prop := b ≠ 10 ∧ b ≠ 13

/-- no CR and no LF anywhere -/
def NoNL (l : Bytes) : Prop := ∀ b ∈ l, okB b

theorem NoNL_nil : NoNL [] := by intro b hb; cases hb

theorem NoNL_append {a b : Bytes} : NoNL (a ++ b) ↔ NoNL a ∧ NoNL b := by
  unfold NoNL
  constructor
  · intro h; exact ⟨fun x hx => h x (List.mem_append_left _ hx), fun x hx => h x (List.mem_append_right _ hx)⟩
  · rintro ⟨h1, h2⟩ x hx
    rcases List.mem_append.mp hx with h | h
    · exact h1 x h
    · exact h2 x h

theorem NoNL_cons {a : Byte} {l : Bytes} : NoNL (a :: l) ↔ okB a ∧ NoNL l := by
  unfold NoNL; simp

theorem NoNL_flatMap {α} (l : List α) (f : α → Bytes) (h : ∀ x ∈ l, NoNL (f x)) : NoNL (l.flatMap f) := by
  intro b hb
  obtain ⟨x, hx, hbx⟩ := List.mem_flatMap.mp hb
  exact h x hx b hbx

theorem NoNL_of_all (l : Bytes) (p : Byte → Bool) (hp : ∀ b, p b = true → okB b) (h : l.all p = true) : NoNL l := by
  intro b hb
  exact hp b (List.all_eq_true.mp h b hb)

/-- an octet given by a number in 14..255 or 0..9 / 11..12 is fine; the form used below: value known, not 10, not 13 -/
theorem okB_ofNat (n : Nat) (h : n < 256) (h10 : n ≠ 10) (h13 : n ≠ 13) : okB (UInt8.ofNat n) := by
  constructor <;> intro e <;> have := congrArg UInt8.toNat e <;> simp [UInt8.toNat_ofNat'] at this <;> omega

theorem validLine_NoNL (s : Bytes) (h : validLine s = true) : NoNL s := by
  intro b hb
  simp only [validLine, containsByte, Bool.not_eq_true', Bool.or_eq_false_iff, List.any_eq_false, beq_iff_eq] at h
  exact ⟨h.1 b hb, h.2 b hb⟩

theorem printable_NoNL (s : Bytes) (h : isPrintableASCII s = true) : NoNL s := by
  apply NoNL_of_all s _ _ h
  intro b hb
  simp only [Bool.and_eq_true, decide_eq_true_eq] at hb
  constructor <;> intro e <;> subst e <;> simp at hb

/-! ### numbers -/

theorem natToDec_NoNL (n : Nat) : NoNL (natToDec n) := by
  intro b hb
  simp only [natToDec, List.mem_map] at hb
  obtain ⟨c, hc, rfl⟩ := hb
  have hd := Nat.isDigit_of_mem_toDigits (by decide) (by decide) hc
  simp only [Char.isDigit, Bool.and_eq_true, decide_eq_true_eq] at hd
  have h1 : 48 ≤ c.toNat := UInt32.le_iff_toNat_le.mp hd.1
  have h2 : c.toNat ≤ 57 := UInt32.le_iff_toNat_le.mp hd.2
  exact okB_ofNat c.toNat (by omega) (by omega) (by omega)

theorem intToDec_NoNL (i : Int) : NoNL (intToDec i) := by
  unfold intToDec
  split
  · exact NoNL_cons.mpr ⟨by decide, natToDec_NoNL _⟩
  · exact natToDec_NoNL _

/-! ### hex digits and escapes -/

theorem hexDigitU_ok : ∀ n : Fin 16, okB (hexDigitU n.val) := by decide

theorem hexU_NoNL (fuel n : Nat) : NoNL (hexU fuel n) := by
  induction fuel generalizing n with
  | zero => exact NoNL_nil
  | succ f ih =>
    unfold hexU
    split
    · rename_i h; exact NoNL_cons.mpr ⟨hexDigitU_ok ⟨n, h⟩, NoNL_nil⟩
    · exact NoNL_append.mpr ⟨ih _, NoNL_cons.mpr ⟨hexDigitU_ok ⟨n % 16, Nat.mod_lt _ (by decide)⟩, NoNL_nil⟩⟩

theorem hex02_NoNL (n : Nat) : NoNL (hex02 n) := by
  unfold hex02
  split
  · rename_i h
    exact NoNL_cons.mpr ⟨by decide, NoNL_cons.mpr ⟨hexDigitU_ok ⟨n, h⟩, NoNL_nil⟩⟩
  · exact hexU_NoNL 8 n

theorem escapeRune_NoNL (r : Nat) : NoNL (escapeRune r) := by
  unfold escapeRune
  refine NoNL_append.mpr ⟨NoNL_append.mpr ⟨?_, hex02_NoNL r⟩, ?_⟩
  · intro b hb; simp at hb; rcases hb with rfl | rfl | rfl <;> decide
  · intro b hb; simp at hb; subst hb; decide

theorem safe_ok (r : Nat) (h : xtextSafe r = true) : okB (UInt8.ofNat r) := by
  simp only [xtextSafe, Bool.and_eq_true, decide_eq_true_eq, bne_iff_ne, ne_eq] at h
  exact okB_ofNat r (by omega) (by omega) (by omega)

theorem encodeRune_high_NoNL (r : Nat) (h : ¬ r ≤ 0x7F) : NoNL (encodeRune r) := by
  unfold encodeRune
  have h0 : ¬ r < 0x80 := by omega
  simp only [h0, if_false]
  split
  · rename_i h1
    exact NoNL_cons.mpr ⟨okB_ofNat _ (by omega) (by omega) (by omega),
      NoNL_cons.mpr ⟨okB_ofNat _ (by omega) (by omega) (by omega), NoNL_nil⟩⟩
  · split
    · intro b hb; simp at hb; rcases hb with rfl | rfl | rfl <;> decide
    · rename_i h1 h2
      simp only [Bool.or_eq_true, Bool.and_eq_true, decide_eq_true_eq, not_or, not_and, Nat.not_lt, Nat.not_le] at h2
      split
      · rename_i h3
        exact NoNL_cons.mpr ⟨okB_ofNat _ (by omega) (by omega) (by omega),
          NoNL_cons.mpr ⟨okB_ofNat _ (by omega) (by omega) (by omega),
          NoNL_cons.mpr ⟨okB_ofNat _ (by omega) (by omega) (by omega), NoNL_nil⟩⟩⟩
      · rename_i h3
        have : r ≤ 0x10FFFF := by omega
        exact NoNL_cons.mpr ⟨okB_ofNat _ (by omega) (by omega) (by omega),
          NoNL_cons.mpr ⟨okB_ofNat _ (by omega) (by omega) (by omega),
          NoNL_cons.mpr ⟨okB_ofNat _ (by omega) (by omega) (by omega),
          NoNL_cons.mpr ⟨okB_ofNat _ (by omega) (by omega) (by omega), NoNL_nil⟩⟩⟩⟩

/-! ### the three encoders: for EVERY input, hostile ones included -/

theorem encodeXtext_NoNL (s : Bytes) : NoNL (encodeXtext s) := by
  unfold encodeXtext
  apply NoNL_flatMap
  rintro ⟨r, w⟩ _
  dsimp only
  split
  · rename_i h; exact NoNL_cons.mpr ⟨safe_ok r h, NoNL_nil⟩
  · exact NoNL_cons.mpr ⟨by decide, hex02_NoNL r⟩

theorem qsafe_ok (r : Nat) (h : qcharSafe r = true) : okB (UInt8.ofNat r) := by
  simp only [qcharSafe, Bool.and_eq_true] at h
  exact safe_ok r h.1

theorem encodeUTF8AddrXtext_NoNL (s : Bytes) : NoNL (encodeUTF8AddrXtext s) := by
  unfold encodeUTF8AddrXtext
  apply NoNL_flatMap
  rintro ⟨r, w⟩ _
  dsimp only
  split
  · rename_i h; exact NoNL_cons.mpr ⟨qsafe_ok r h, NoNL_nil⟩
  · exact escapeRune_NoNL r

theorem encodeUTF8AddrUnitext_NoNL (s : Bytes) : NoNL (encodeUTF8AddrUnitext s) := by
  unfold encodeUTF8AddrUnitext
  apply NoNL_flatMap
  rintro ⟨r, w⟩ _
  dsimp only
  split
  · rename_i h; exact NoNL_cons.mpr ⟨qsafe_ok r h, NoNL_nil⟩
  · split
    · exact escapeRune_NoNL r
    · rename_i h; exact encodeRune_high_NoNL r h

end SmtpV.OneLine
