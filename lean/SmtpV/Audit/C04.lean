import SmtpV.Props.C04
