import SmtpV.Props.C04
import SmtpV.Props.C04Echo
#print axioms SmtpV.Props.C04.C04_own_verdict
#print axioms SmtpV.Props.C04.C04_reply_syntax
#print axioms SmtpV.Props.C04.C04_reply_syntax_multiline
#print axioms SmtpV.Props.C04.C04_one_reply_per_command
#print axioms SmtpV.Props.C04.C04_error_reply_and_notice
#print axioms SmtpV.Props.C04.C04_lmtp_one_reply_per_recipient
#print axioms SmtpV.Props.C04.C04_starttls_replies
#print axioms SmtpV.Props.C04.C04_auth_replies
#print axioms SmtpV.Props.C04.C04_echo_printable
#print axioms SmtpV.Props.C04.C04_echo_faithful
#print axioms SmtpV.Props.C04.C04_echo_sites
