import SmtpV.Props.C15
#print axioms SmtpV.Props.C15.C15_mail_one_line
#print axioms SmtpV.Props.C15.C15_rcpt_one_line
#print axioms SmtpV.Props.C15.C15_hostile_address_refused
#print axioms SmtpV.Props.C15.C15_no_ext_no_params
#print axioms SmtpV.Props.C15.C15_unoffered_is_error
