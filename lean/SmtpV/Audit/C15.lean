import SmtpV.Props.C15
import SmtpV.Props.C15Calls
#print axioms SmtpV.Props.C15.C15_mail_one_line
#print axioms SmtpV.Props.C15.C15_rcpt_one_line
#print axioms SmtpV.Props.C15.C15_hostile_address_refused
#print axioms SmtpV.Props.C15.C15_no_ext_no_params
#print axioms SmtpV.Props.C15.C15_unoffered_is_error
#print axioms SmtpV.Props.C15.C15_mail_params_gated
#print axioms SmtpV.Props.C15.C15_mail_default_gated
#print axioms SmtpV.Props.C15.C15_rcpt_params_gated
#print axioms SmtpV.Props.C15.C15_call_whole_lines
#print axioms SmtpV.Props.C15.C15_one_line_per_call
#print axioms SmtpV.Props.C15.C15_history_keeps_premises
#print axioms SmtpV.Props.C15.C15_auth_whole_lines
