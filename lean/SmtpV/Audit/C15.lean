import SmtpV.Props.C15
