import SmtpV.Props.C11
import SmtpV.Props.C11Server
#print axioms SmtpV.Props.C11.C11_exact_mailbox
#print axioms SmtpV.Props.C11.C11_special_refused
#print axioms SmtpV.Props.C11.C11_null_sender
#print axioms SmtpV.Props.C11.C11_quoted_exact
#print axioms SmtpV.Props.C11.C11_mail_exact_or_refused
#print axioms SmtpV.Props.C11.C11_mail_refused_before_backend
#print axioms SmtpV.Props.C11.C11_rcpt_exact_or_refused
#print axioms SmtpV.Props.C11.C11_empty_value_unparsable
#print axioms SmtpV.Props.C11.C11_empty_value_refused
