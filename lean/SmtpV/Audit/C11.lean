import SmtpV.Props.C11
