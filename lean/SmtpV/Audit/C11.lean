import SmtpV.Props.C11
#print axioms SmtpV.Props.C11.C11_exact_mailbox
#print axioms SmtpV.Props.C11.C11_special_refused
#print axioms SmtpV.Props.C11.C11_null_sender
#print axioms SmtpV.Props.C11.C11_quoted_exact
