import SmtpV.Props.C09
#print axioms SmtpV.Props.C09.C09_insecure_unreachable
#print axioms SmtpV.Props.C09.C09_b64_roundtrip
#print axioms SmtpV.Props.C09.C09_empty_initial_response
#print axioms SmtpV.Props.C09.C09_never_on_insecure_connection
#print axioms SmtpV.Props.C09.C09_at_most_once
#print axioms SmtpV.Props.C09.C09_client_exchange_rules
