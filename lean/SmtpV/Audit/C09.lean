import SmtpV.Props.C09
#print axioms SmtpV.Props.C09.C09_insecure_unreachable
#print axioms SmtpV.Props.C09.C09_b64_roundtrip
#print axioms SmtpV.Props.C09.C09_empty_initial_response
