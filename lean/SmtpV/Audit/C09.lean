import SmtpV.Props.C09
