import SmtpV.Props.C06
#print axioms SmtpV.Props.C06.C06_bound_data
#print axioms SmtpV.Props.C06.C06_oversize_never_complete
#print axioms SmtpV.Props.C06.C06_transparent
#print axioms SmtpV.Props.data_monitor_accepts_model
#print axioms SmtpV.Props.C06.C06_chunk_over_limit
#print axioms SmtpV.Props.C06.C06_declared_size_refused
#print axioms SmtpV.Props.C06.C06_accepted_chunk_bounded
#print axioms SmtpV.Props.C06.C06_no_delivery_over_limit
#print axioms SmtpV.Props.C06.C06_accounting_invariant
#print axioms SmtpV.Props.C06.C06_eof_is_sticky
