import SmtpV.Props.C06
#print axioms SmtpV.Props.C06.C06_bound_data
#print axioms SmtpV.Props.C06.C06_oversize_never_complete
#print axioms SmtpV.Props.C06.C06_transparent
#print axioms SmtpV.Props.data_monitor_accepts_model
