import SmtpV.Props.C05
