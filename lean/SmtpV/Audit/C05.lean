import SmtpV.Props.C05
#print axioms SmtpV.Props.C05.C05_frame_any_source
#print axioms SmtpV.Props.C05.C05_refused_chunk_discarded
#print axioms SmtpV.Props.C05.C05_segmentation_independent
#print axioms SmtpV.Props.C05.C05_failed_chunk_skipped
#print axioms SmtpV.Props.C05.C05_payload_delivered_exactly
