import SmtpV.Props.C19
