import SmtpV.Props.C19
#print axioms SmtpV.Props.C19.C19_short_lines_ok
#print axioms SmtpV.Props.C19.C19_long_line_trips
#print axioms SmtpV.Props.C19.C19_long_line_refused
#print axioms SmtpV.Props.C19.C19_error_threshold
#print axioms SmtpV.Props.C19.C19_tripped_ends_commands
#print axioms SmtpV.Props.C19.C19_resume_short_ok
#print axioms SmtpV.Props.C19.C19_resume_counts_pending
#print axioms SmtpV.Props.C19.C19_line_handed_out_within_limit
