import SmtpV.Props.C18
