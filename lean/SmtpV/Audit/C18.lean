import SmtpV.Props.C18
#print axioms SmtpV.Props.C18.C18_mail_starts_clean
#print axioms SmtpV.Props.C18.C18_rcpt_appends
#print axioms SmtpV.Props.C18.C18_reset_clears
#print axioms SmtpV.Props.C18.C18_one_callback_per_recipient
#print axioms SmtpV.Props.C18.C18_refusal_not_lost
