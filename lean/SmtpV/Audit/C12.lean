import SmtpV.Props.C12
#print axioms SmtpV.Props.C12.C12_caps_exact
#print axioms SmtpV.Props.C12.C12_ehlo_reply
#print axioms SmtpV.Props.C12.C12_helo_none
#print axioms SmtpV.Props.C12.C12_disabled_504_mail
#print axioms SmtpV.Props.C12.C12_disabled_504_rcpt
#print axioms SmtpV.Props.C12.caps_keywords
#print axioms SmtpV.Props.C12.C12_starttls_honoured
#print axioms SmtpV.Props.C12.C12_auth_honoured
#print axioms SmtpV.Props.C12.C12_keyword_iff_enabled
#print axioms SmtpV.Props.C12.C12_requiretls_honoured_iff_advertised
#print axioms SmtpV.Props.C12.C12_caps_depend_on_config_and_tls_only
