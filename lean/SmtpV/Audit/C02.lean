import SmtpV.Props.C02
#print axioms SmtpV.Props.C02.C02_only_marker
#print axioms SmtpV.Props.C02.C02_eof_means_marker
#print axioms SmtpV.Props.C02.C02_lookalikes
#print axioms SmtpV.Props.data_monitor_accepts_model
#print axioms SmtpV.Props.C02.C02_resume
#print axioms SmtpV.Props.C02.C02_resume_escapes
#print axioms SmtpV.Props.C02.C02_wf_fresh
#print axioms SmtpV.Props.C02.C02_wf_invariant
#print axioms SmtpV.Props.C02.C02_resume_anywhere
