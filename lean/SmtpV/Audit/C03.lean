import SmtpV.Props.C03
#print axioms SmtpV.Props.C03.order_accepts_every_connection
#print axioms SmtpV.Props.C03.C03_order
#print axioms SmtpV.Props.C03.C03_order_visible
#print axioms SmtpV.Server.serve_good
