import SmtpV.Props.C03
