import SmtpV.Props.C13
#print axioms SmtpV.Props.C13.C13_mechanism
#print axioms SmtpV.Props.C13.C13_one_per_recipient
#print axioms SmtpV.Props.C13.C13_model_is_spec
#print axioms SmtpV.Props.C13.C13_contract_agrees
#print axioms SmtpV.Props.C13.C13_attribution
#print axioms SmtpV.Props.C13.C13_failed_last_one_per_recipient
