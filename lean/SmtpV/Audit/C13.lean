import SmtpV.Props.C13
