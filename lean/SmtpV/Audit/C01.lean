import SmtpV.Props.C01
#print axioms SmtpV.Props.C01.C01_exact
#print axioms SmtpV.Props.C01.C01_sched_indep
#print axioms SmtpV.Props.C01.C01_transparent
#print axioms SmtpV.Props.C01.C01_spec_unique
#print axioms SmtpV.Props.C01.C01_monitor
#print axioms SmtpV.Spec.terminated?_iff
