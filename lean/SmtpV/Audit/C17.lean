import SmtpV.Props.C17
