import SmtpV.Props.C17
import SmtpV.Props.C17Client
import SmtpV.Props.C17Server
#print axioms SmtpV.Props.C17.C17_roundtrip
#print axioms SmtpV.Props.C17.C17_roundtrip_single
#print axioms SmtpV.Props.C17.render_lines
#print axioms SmtpV.Props.C17.C17_unset_class
#print axioms SmtpV.Props.C17.C17_generic_envelope
#print axioms SmtpV.Props.C17.C17_generic_data
#print axioms SmtpV.Props.C17.C17_server_passes_mail_error
#print axioms SmtpV.Props.C17.C17_server_passes_mail_plain_error
#print axioms SmtpV.Props.C17.C17_server_passes_rcpt_error
#print axioms SmtpV.Props.C17.C17_server_passes_data_error
#print axioms SmtpV.Props.C17.C17_lmtp_hello_reports_refusal
