import SmtpV.Props.C17
#print axioms SmtpV.Props.C17.C17_roundtrip
#print axioms SmtpV.Props.C17.C17_roundtrip_single
#print axioms SmtpV.Props.C17.render_lines
#print axioms SmtpV.Props.C17.C17_unset_class
#print axioms SmtpV.Props.C17.C17_generic_envelope
#print axioms SmtpV.Props.C17.C17_generic_data
