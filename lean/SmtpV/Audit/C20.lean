import SmtpV.Props.C20
#print axioms SmtpV.Props.C20.C20_second_close
#print axioms SmtpV.Props.C20.C20_temp_errors
#print axioms SmtpV.Props.C20.own_verdict_all_schedules
#print axioms SmtpV.Props.C20.never_blocked_step
#print axioms SmtpV.Props.C20.pinned_tree_counterexample
#print axioms SmtpV.Props.C20.pinned_tree_leak
#print axioms SmtpV.Props.C20.C20_close_ends_everything
#print axioms SmtpV.Props.C20.C20_late_start_no_panic
#print axioms SmtpV.Props.C20.C20_late_start_never_calls
#print axioms SmtpV.Props.C20.C20_late_start_pinned_panics
#print axioms SmtpV.Props.C20.C20_late_start_window_remains
