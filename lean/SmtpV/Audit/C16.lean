import SmtpV.Props.C16
#print axioms SmtpV.Props.C16.C16_partition_independent
#print axioms SmtpV.Props.C16.C16_wire_terminated
#print axioms SmtpV.Props.C16.C16_roundtrip
#print axioms SmtpV.Props.C16.C16_roundtrip_progress
#print axioms SmtpV.Props.C16.C16_second_close
