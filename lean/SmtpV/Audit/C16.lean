import SmtpV.Props.C16
