import SmtpV.Props.C10
#print axioms SmtpV.Props.C10.C10_refused_unless_available
#print axioms SmtpV.Props.C10.startTLS_success
#print axioms SmtpV.Props.C10.C10_server_fresh
#print axioms SmtpV.Props.C10.C10_no_plaintext_in_tls
#print axioms SmtpV.Props.C10.C10_upgrade_discards_session
#print axioms SmtpV.Props.C10.C10_new_session_sees_tls
#print axioms SmtpV.Props.C10.C10_failed_handshake_changes_nothing
#print axioms SmtpV.Props.C10.C10_client_plain_frozen
#print axioms SmtpV.Props.C10.C10_client_plaintext_only_upgrade
#print axioms SmtpV.Props.C10.C10_client_stops_when_upgrade_fails
