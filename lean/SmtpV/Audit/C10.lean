import SmtpV.Props.C10
