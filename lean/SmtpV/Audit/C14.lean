import SmtpV.Props.C14
