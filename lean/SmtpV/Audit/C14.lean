import SmtpV.Props.C14
import SmtpV.Props.C14Line
#print axioms SmtpV.Props.C14.C14_xtext_roundtrip
#print axioms SmtpV.Props.C14.C14_monitor_model
#print axioms SmtpV.Props.C14.C14_tokenise
#print axioms SmtpV.Props.C14.C14_params_parse
#print axioms SmtpV.Props.C14.C14_mail_options_trip
#print axioms SmtpV.Props.C14.C14_rcpt_options_trip
#print axioms SmtpV.Props.C14.C14_mail_line_trip
#print axioms SmtpV.Props.C14.C14_rcpt_line_trip
#print axioms SmtpV.Props.C14.mailCall_event
