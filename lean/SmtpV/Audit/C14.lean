import SmtpV.Props.C14
#print axioms SmtpV.Props.C14.C14_xtext_roundtrip
#print axioms SmtpV.Props.C14.C14_monitor_model
