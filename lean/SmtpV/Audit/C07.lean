import SmtpV.Props.C07
#print axioms SmtpV.Props.C07.C07_data_cut
#print axioms SmtpV.Props.C07.C07_eof_complete
#print axioms SmtpV.Props.data_monitor_accepts_model
