import SmtpV.Props.C07
#print axioms SmtpV.Props.C07.C07_data_cut
#print axioms SmtpV.Props.C07.C07_eof_complete
#print axioms SmtpV.Props.data_monitor_accepts_model
#print axioms SmtpV.Props.C07.C07_bdat_eof_only_after_last
#print axioms SmtpV.Props.C07.C07_abandoned_is_reset
#print axioms SmtpV.Props.C07.C07_reset_close_no_eof
#print axioms SmtpV.Props.C07.C07_cut_connection_no_eof
