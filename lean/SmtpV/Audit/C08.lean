import SmtpV.Props.C08
#print axioms SmtpV.Props.C08.C08_lifecycle
#print axioms SmtpV.Props.C08.C08_lifecycle_visible
#print axioms SmtpV.Props.C08.C08_ends_closed
