import SmtpV.Props.C08
import SmtpV.Props.C08Cut
#print axioms SmtpV.Props.C08.C08_lifecycle
#print axioms SmtpV.Props.C08.C08_lifecycle_visible
#print axioms SmtpV.Props.C08.C08_ends_closed
#print axioms SmtpV.Props.C08.C08_cut_line_not_executed
#print axioms SmtpV.Props.C08.C08_cut_line_not_read
#print axioms SmtpV.Props.C08.C08_cut_ends_loop
