import SmtpV.Props.C08
