import SmtpV.Model.Server
/-!
# C11 on the server model's handlers: exactly the decoded arguments reach the backend, or the command is refused

`mailDecode` / `rcptDecode` compose, in the order of conn.go, the keyword check, `strings.TrimSpace`, the path parser,
`parseArgs` and the parameter switch.  The theorems say that `handleMail` / `handleRcpt` do one of three things, for every
connection state and every argument octet string: call the backend with exactly the decoded mailbox and options; or
write one reply with a 5xx code (452 for the recipient limit) and call nothing; or — with no session object, a state the
command loop never reaches after a greeting — panic without having called anything.
-/
namespace SmtpV.Props.C11
open SmtpV SmtpV.Spec SmtpV.Text SmtpV.Parse SmtpV.Server

/-- what the MAIL handler decodes from its argument: mailbox, options, BINARYMIME flag -/
def mailDecode (cfg : Cfg) (arg : Bytes) : Option (Bytes × MailOpts × Bool) :=
  match cutPrefixFold arg "FROM:".b with
  | none => none
  | some a =>
    match parseReversePath (trimSpace a) with
    | none => none
    | some (frm, rest) =>
      match parseArgs rest with
      | none => none
      | some args =>
        match mailParams cfg args {} false with
        | .ok (o, bm) => some (frm, o, bm)
        | .refuse _ _ _ => none

def rcptDecode (cfg : Cfg) (arg : Bytes) : Option (Bytes × RcptOpts) :=
  match cutPrefixFold arg "TO:".b with
  | none => none
  | some a =>
    match parsePath (trimSpace a) with
    | none => none
    | some (rcpt, rest) =>
      match parseArgs rest with
      | none => none
      | some args =>
        match rcptParams cfg args {} with
        | .ok o => some (rcpt, o)
        | .refuse _ _ _ => none

/-- every refusal of the MAIL parameter switch is a 5xx reply with a class-5 enhanced code -/
theorem mailParams_refuse_5xx (cfg : Cfg) (args : List (Bytes × Bytes)) (o : MailOpts) (bm : Bool) (code : Nat) (enh : Enh)
    (text : String) (h : mailParams cfg args o bm = .refuse code enh text) : 500 ≤ code ∧ code ≤ 599 ∧ enh.a = 5 := by
  fun_induction mailParams cfg args o bm <;> simp_all <;> (obtain ⟨rfl, rfl, _⟩ := h; simp)

theorem rcptParams_refuse_5xx (cfg : Cfg) (args : List (Bytes × Bytes)) (o : RcptOpts) (code : Nat) (enh : Enh)
    (text : String) (h : rcptParams cfg args o = .refuse code enh text) : 500 ≤ code ∧ code ≤ 599 ∧ enh.a = 5 := by
  fun_induction rcptParams cfg args o <;> simp_all <;> (obtain ⟨rfl, rfl, _⟩ := h; simp)

/-- a state that differs from `s` in nothing a backend or the peer can observe: same trace, same backend script, same
    "socket closed" flag (the MAIL handler may clear the BINARYMIME flag before it refuses) -/
def SameObs (s' s : S) : Prop := s'.evs = s.evs ∧ s'.be = s.be ∧ s'.c.closed = s.c.closed ∧ s'.drecs = s.drecs

theorem SameObs.rfl' (s : S) : SameObs s s := ⟨rfl, rfl, rfl, rfl⟩

theorem mail_refuse_mk (s s' : S) (arg : Bytes) (code : Nat) (enh : Enh) (text : String)
    (h5 : 500 ≤ code ∧ code ≤ 599 ∧ enh.a = 5) (hso : SameObs s' s) (he : handleMail s arg = (reply s' code enh text, false)) :
    ∃ code enh text s', 500 ≤ code ∧ code ≤ 599 ∧ enh.a = 5 ∧ SameObs s' s ∧ handleMail s arg = (reply s' code enh text, false) :=
  ⟨code, enh, text, s', h5.1, h5.2.1, h5.2.2, hso, he⟩

theorem rcpt_refuse_mk (s : S) (arg : Bytes) (code : Nat) (enh : Enh) (text : String)
    (h5 : 500 ≤ code ∧ code ≤ 599 ∧ enh.a = 5) (he : handleRcpt s arg = (reply s code enh text, false)) :
    ∃ code enh text, 500 ≤ code ∧ code ≤ 599 ∧ enh.a = 5 ∧ handleRcpt s arg = (reply s code enh text, false) :=
  ⟨code, enh, text, h5.1, h5.2.1, h5.2.2, he⟩

/-- **C11_mail_exact_or_refused.**  For every connection state and every argument: `handleMail` calls `Session.Mail` with
    exactly the decoded mailbox and options (`mailCall`: the call is the first thing it does); or answers with one 5xx reply
    and calls nothing; or, when there is no session object, panics having called and written nothing. -/
theorem C11_mail_exact_or_refused (s : S) (arg : Bytes) :
    (∃ frm o bm id, mailDecode (effCfg s) arg = some (frm, o, bm) ∧ s.c.session = some id ∧
        handleMail s arg = mailCall (setBinarymime s bm) id frm o)
    ∨ (∃ code enh text s', 500 ≤ code ∧ code ≤ 599 ∧ enh.a = 5 ∧ SameObs s' s ∧
        handleMail s arg = (reply s' code enh text, false))
    ∨ (s.c.session = none ∧ ∃ s', SameObs s' s ∧ handleMail s arg = (s', true)) := by
  by_cases h1 : s.c.helo.isEmpty = true
  · exact Or.inr (Or.inl (mail_refuse_mk s s arg 502 ⟨5, 5, 1⟩ "Please introduce yourself first." (by decide) (SameObs.rfl' s) (by simp only [handleMail, h1, if_true])))
  by_cases h2 : s.c.bdat.isSome = true
  · exact Or.inr (Or.inl (mail_refuse_mk s s arg 502 ⟨5, 5, 1⟩ "MAIL not allowed during message transfer" (by decide) (SameObs.rfl' s) (by simp only [handleMail, h1, h2, Bool.false_eq_true, if_true, if_false])))
  cases hc : cutPrefixFold arg "FROM:".b with
  | none => exact Or.inr (Or.inl (mail_refuse_mk s s arg 501 ⟨5, 5, 2⟩ "Was expecting MAIL arg syntax of FROM:<address>" (by decide) (SameObs.rfl' s) (by simp only [handleMail, h1, h2, hc, Bool.false_eq_true, if_false])))
  | some a =>
  cases hp : parseReversePath (trimSpace a) with
  | none => exact Or.inr (Or.inl (mail_refuse_mk s s arg 501 ⟨5, 5, 2⟩ "Was expecting MAIL arg syntax of FROM:<address>" (by decide) (SameObs.rfl' s) (by simp only [handleMail, h1, h2, hc, hp, Bool.false_eq_true, if_false])))
  | some fr =>
  obtain ⟨frm, rest⟩ := fr
  cases ha : parseArgs rest with
  | none => exact Or.inr (Or.inl (mail_refuse_mk s s arg 501 ⟨5, 5, 4⟩ "Unable to parse MAIL ESMTP parameters" (by decide) (SameObs.rfl' s) (by simp only [handleMail, h1, h2, hc, hp, ha, Bool.false_eq_true, if_false])))
  | some args =>
  cases hm : mailParams (effCfg s) args {} false with
  | refuse code enh text =>
    obtain ⟨k1, k2, k3⟩ := mailParams_refuse_5xx _ _ _ _ _ _ _ hm
    exact Or.inr (Or.inl ⟨code, enh, text, setBinarymime s false, k1, k2, k3, ⟨rfl, rfl, rfl, rfl⟩,
      by simp only [handleMail, h1, h2, hc, hp, ha, hm, Bool.false_eq_true, if_false]⟩)
  | ok ob =>
    obtain ⟨o, bm⟩ := ob
    cases hs : s.c.session with
    | none =>
      exact Or.inr (Or.inr ⟨rfl, setBinarymime s bm, ⟨rfl, rfl, rfl, rfl⟩, by simp only [handleMail, h1, h2, hc, hp, ha, hm, hs, Bool.false_eq_true, if_false]⟩)
    | some id =>
      exact Or.inl ⟨frm, o, bm, id, by simp only [mailDecode, hc, hp, ha, hm], rfl,
        by simp only [handleMail, h1, h2, hc, hp, ha, hm, hs, Bool.false_eq_true, if_false]⟩

/-- **C11_mail_refused_before_backend.**  The refusal half, as the property states it: when the argument does not decode —
    no `FROM:`, a malformed path, unparsable parameters, or a parameter that is unknown, malformed or belongs to a disabled
    extension — the answer is a 5xx reply and the backend is not called, whatever state the connection is in. -/
theorem C11_mail_refused_before_backend (s : S) (arg : Bytes) (h : mailDecode (effCfg s) arg = none) :
    ∃ code enh text s', 500 ≤ code ∧ code ≤ 599 ∧ enh.a = 5 ∧ SameObs s' s ∧ handleMail s arg = (reply s' code enh text, false) := by
  by_cases h1 : s.c.helo.isEmpty = true
  · exact (mail_refuse_mk s s arg 502 ⟨5, 5, 1⟩ "Please introduce yourself first." (by decide) (SameObs.rfl' s) (by simp only [handleMail, h1, if_true]))
  by_cases h2 : s.c.bdat.isSome = true
  · exact (mail_refuse_mk s s arg 502 ⟨5, 5, 1⟩ "MAIL not allowed during message transfer" (by decide) (SameObs.rfl' s) (by simp only [handleMail, h1, h2, Bool.false_eq_true, if_true, if_false]))
  cases hc : cutPrefixFold arg "FROM:".b with
  | none => exact (mail_refuse_mk s s arg 501 ⟨5, 5, 2⟩ "Was expecting MAIL arg syntax of FROM:<address>" (by decide) (SameObs.rfl' s) (by simp only [handleMail, h1, h2, hc, Bool.false_eq_true, if_false]))
  | some a =>
  cases hp : parseReversePath (trimSpace a) with
  | none => exact (mail_refuse_mk s s arg 501 ⟨5, 5, 2⟩ "Was expecting MAIL arg syntax of FROM:<address>" (by decide) (SameObs.rfl' s) (by simp only [handleMail, h1, h2, hc, hp, Bool.false_eq_true, if_false]))
  | some fr =>
  obtain ⟨frm, rest⟩ := fr
  cases ha : parseArgs rest with
  | none => exact (mail_refuse_mk s s arg 501 ⟨5, 5, 4⟩ "Unable to parse MAIL ESMTP parameters" (by decide) (SameObs.rfl' s) (by simp only [handleMail, h1, h2, hc, hp, ha, Bool.false_eq_true, if_false]))
  | some args =>
  cases hm : mailParams (effCfg s) args {} false with
  | refuse code enh text =>
    obtain ⟨k1, k2, k3⟩ := mailParams_refuse_5xx _ _ _ _ _ _ _ hm
    exact ⟨code, enh, text, setBinarymime s false, k1, k2, k3, ⟨rfl, rfl, rfl, rfl⟩,
      by simp only [handleMail, h1, h2, hc, hp, ha, hm, Bool.false_eq_true, if_false]⟩
  | ok ob =>
    obtain ⟨o, bm⟩ := ob
    simp only [mailDecode, hc, hp, ha, hm] at h
    cases h

/-- **C11_rcpt_exact_or_refused.**  The same for RCPT; the recipient limit is the one 4xx refusal (452). -/
theorem C11_rcpt_exact_or_refused (s : S) (arg : Bytes) :
    (∃ rcpt o id, rcptDecode s.cfg arg = some (rcpt, o) ∧ s.c.session = some id ∧
        ∃ tl, (handleRcpt s arg).1.evs = tl ++ Ev.rcpt id rcpt o (popRcpt s).1 :: s.evs ∧ ∀ e ∈ tl, ∃ bs, e = Ev.w bs)
    ∨ (∃ code enh text, 500 ≤ code ∧ code ≤ 599 ∧ enh.a = 5 ∧ handleRcpt s arg = (reply s code enh text, false))
    ∨ (∃ texts, s.cfg.maxRcpt > 0 ∧ s.c.recipients.length ≥ s.cfg.maxRcpt ∧ handleRcpt s arg = (replyB s 452 ⟨4, 5, 3⟩ texts, false))
    ∨ (s.c.session = none ∧ handleRcpt s arg = (s, true)) := by
  by_cases h1 : s.c.fromReceived = true
  case neg =>
    exact Or.inr (Or.inl (rcpt_refuse_mk s arg 502 ⟨5, 5, 1⟩ "Missing MAIL FROM command." (by decide) (by simp [handleRcpt, h1])))
  by_cases h2 : s.c.bdat.isSome = true
  · exact Or.inr (Or.inl (rcpt_refuse_mk s arg 502 ⟨5, 5, 1⟩ "RCPT not allowed during message transfer" (by decide) (by simp [handleRcpt, h1, h2])))
  cases hc : cutPrefixFold arg "TO:".b with
  | none => exact Or.inr (Or.inl (rcpt_refuse_mk s arg 501 ⟨5, 5, 2⟩ "Was expecting RCPT arg syntax of TO:<address>" (by decide) (by simp [handleRcpt, h1, h2, hc])))
  | some a =>
  cases hp : parsePath (trimSpace a) with
  | none => exact Or.inr (Or.inl (rcpt_refuse_mk s arg 501 ⟨5, 5, 2⟩ "Was expecting RCPT arg syntax of TO:<address>" (by decide) (by simp [handleRcpt, h1, h2, hc, hp])))
  | some fr =>
  obtain ⟨rcpt, rest⟩ := fr
  by_cases hlim : (s.cfg.maxRcpt > 0 && s.c.recipients.length ≥ s.cfg.maxRcpt) = true
  · have hl2 := hlim
    simp only [Bool.and_eq_true, decide_eq_true_eq] at hl2
    exact Or.inr (Or.inr (Or.inl ⟨["Maximum limit of ".b ++ natToDec s.cfg.maxRcpt ++ " recipients reached".b], hl2.1, hl2.2,
      by simp only [handleRcpt, h1, h2, hc, hp, hlim, Bool.not_true, Bool.false_eq_true, if_false, if_true]⟩))
  cases ha : parseArgs rest with
  | none => exact Or.inr (Or.inl (rcpt_refuse_mk s arg 501 ⟨5, 5, 4⟩ "Unable to parse RCPT ESMTP parameters" (by decide)
      (by simp only [handleRcpt, h1, h2, hc, hp, hlim, ha, Bool.not_true, Bool.false_eq_true, if_false])))
  | some args =>
  cases hm : rcptParams s.cfg args {} with
  | refuse code enh text =>
    exact Or.inr (Or.inl (rcpt_refuse_mk s arg code enh text (rcptParams_refuse_5xx _ _ _ _ _ _ hm)
      (by simp only [handleRcpt, h1, h2, hc, hp, hlim, ha, hm, Bool.not_true, Bool.false_eq_true, if_false])))
  | ok o =>
    cases hs : s.c.session with
    | none => exact Or.inr (Or.inr (Or.inr ⟨rfl, by simp only [handleRcpt, h1, h2, hc, hp, hlim, ha, hm, hs, Bool.not_true, Bool.false_eq_true, if_false]⟩))
    | some id =>
      refine Or.inl ⟨rcpt, o, id, by simp only [rcptDecode, hc, hp, ha, hm], rfl, ?_⟩
      simp only [handleRcpt, h1, h2, hc, hp, hlim, ha, hm, hs, Bool.not_true, Bool.false_eq_true, if_false]
      have pe : (popRcpt s).2.evs = s.evs := by unfold popRcpt; split <;> rfl
      have pc : (popRcpt s).2.c = s.c := by unfold popRcpt; split <;> rfl
      by_cases hcl : s.c.closed = true
      · refine ⟨[], ?_, by simp⟩
        cases hr : (popRcpt s).1 <;> simp [hr, replyB, write, emit, hcl, pe, pc]
      · cases hr : (popRcpt s).1 with
        | ok => exact ⟨[Ev.w _], by simp [hr, replyB, write, emit, hcl, pe, pc]; rfl, by simp⟩
        | panic => exact ⟨[], by simp [hr, emit, pe], by simp⟩
        | se c e m => exact ⟨[Ev.w _], by simp [hr, write, emit, hcl, pe, pc]; rfl, by simp⟩
        | er m => exact ⟨[Ev.w _], by simp [hr, write, emit, hcl, pe, pc]; rfl, by simp⟩

/-! ### a keyword followed by `=` and nothing (fixed in parse.go: `esmtp-value` is `1*`) -/

theorem foldl_argFail (f : Option (List (Bytes × Bytes)) → Bytes → Option (List (Bytes × Bytes)))
    (hf : ∀ a, f none a = none) (l : List Bytes) : l.foldl f none = none := by
  induction l with
  | nil => rfl
  | cons a l ih => simp only [List.foldl_cons, hf, ih]

/-- **C11_empty_value_refused (parser).**  A parameter string one of whose space-separated fields is `KEYWORD=` — an equals sign
    with no value behind it — does not parse, wherever the field stands and whatever the keyword is: `SMTPUTF8=` is not the
    flag `SMTPUTF8`. -/
theorem C11_empty_value_unparsable (s arg k : Bytes) (hmem : arg ∈ fields s) (hsplit : splitByte arg 61 = [k, []]) :
    parseArgs s = none := by
  obtain ⟨l1, l2, hl⟩ := List.append_of_mem hmem
  unfold parseArgs
  rw [hl, List.foldl_append, List.foldl_cons]
  generalize List.foldl _ (some []) l1 = acc
  cases acc with
  | none => exact foldl_argFail _ (fun _ => rfl) l2
  | some m =>
    simp only [hsplit, List.isEmpty_nil, if_true]
    exact foldl_argFail _ (fun _ => rfl) l2

/-- **C11_empty_value_refused.**  … and so a MAIL or RCPT line carrying such a field is not decoded, hence (by
    `C11_mail_refused_before_backend`) answered 5xx without the backend. -/
theorem C11_empty_value_refused (cfg : Cfg) (arg a frm rest field k : Bytes)
    (hc : cutPrefixFold arg "FROM:".b = some a) (hp : parseReversePath (trimSpace a) = some (frm, rest))
    (hmem : field ∈ fields rest) (hsplit : splitByte field 61 = [k, []]) :
    mailDecode cfg arg = none := by
  simp only [mailDecode, hc, hp, C11_empty_value_unparsable rest field k hmem hsplit]

example : mailDecode { utf8 := true } "FROM:<a@b> SMTPUTF8=".b = none := by decide +kernel
example : (mailDecode { utf8 := true } "FROM:<a@b> SMTPUTF8".b).isSome = true := by decide +kernel

end SmtpV.Props.C11
