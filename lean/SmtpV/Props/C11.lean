import SmtpV.Model.Parse
import SmtpV.Spec.Rfc5321
/-! # C11 (theorems follow) -/
namespace SmtpV.Props.C11
end SmtpV.Props.C11
